#!/usr/bin/env python3
"""Regenerate the detection table of DESIGN.md 13.8 from seeded/*/meta.json (checks_final)."""
import json, glob, os, re
rows = []
for d in sorted(glob.glob("/verif/seeded/C*-*")):
    name = os.path.basename(d)
    m = json.load(open(d + "/meta.json"))
    what = ""
    rd = d + "/README.md"
    if os.path.exists(rd):
        for l in open(rd):
            if l.startswith("# "):
                what = l[2:].strip()
                what = re.sub(r"^C\d\d\s*/\s*change\s*\d+\s*[—-]+\s*", "", what)
                what = re.sub(r"^(Seeded )?[Cc]hange \d+\s*[—:-]+\s*", "", what)
                break
    what = what.replace("|", "/")[:150]
    if m.get("applies_on_final_main") is False:
        rows.append("| %s | %s | — | — | patch no longer applies (see meta.json `note`) |" % (name, what))
        continue
    cf = m.get("checks_final") or m.get("checks") or {}  # round 5 was confirmed against the final main directly
    own = m["property"]
    def how(r):
        if r["exit"] != 1:
            return "missed"
        kind = ""
        mm = re.search(r"replay=\S*/C\d\d-([A-Za-z0-9_.:-]+?)-\d+\.txt", r.get("line", ""))
        if mm:
            kind = mm.group(1)
        if "no-failing-input-found" in r.get("line", ""):
            return "proof/correspondence broken (%s), no failing input found" % kind
        return "oracle violation with replay (%s)" % kind
    o = how(cf[own]) if own in cf else "not run"
    others = ", ".join("%s: %s" % (p, "caught" if r["exit"] == 1 else "missed") for p, r in cf.items() if p != own)
    rows.append("| %s | %s | %s | %s | |" % (name, what, o, others or "—"))
own_caught = sum(1 for r in rows if ("| oracle violation" in r or "| proof/correspondence" in r))
tbl = ["| change | what it does | the property's own check | neighbouring checks | note |", "|---|---|---|---|---|"] + rows
tbl.append("")
tbl.append("%d changes; caught by the property's own quick check: %d (with a concrete replay: %d)." % (
    len(rows), own_caught, sum(1 for r in rows if "| oracle violation" in r)))
text = "\n".join(tbl)
p = "/verif/DESIGN.md"
s = open(p).read()
b, e = "<!-- seeded-table:begin -->", "<!-- seeded-table:end -->"
if b in s:
    s = s[:s.index(b) + len(b)] + "\n" + text + "\n" + s[s.index(e):]
else:
    s = s.rstrip() + "\n\n" + b + "\n" + text + "\n" + e + "\n"
open(p, "w").write(s)
print(text[-300:])
