#!/usr/bin/env python3
"""Re-run our checks against every confirmed seeded change in /verif/seeded (checks only).
usage: seeded_recheck.py <lane> <nlanes>     (lane k handles every nlanes-th directory)
Uses a private copy of /verif per lane (SEED_VERIF_BASE/lane<k>, synced from /verif HEAD at start)."""
import json, os, subprocess, sys, glob, shutil
lane, nl = int(sys.argv[1]), int(sys.argv[2])
base = "/root/scratch/recheck/lane%d" % lane
PROPS = {  # which checks to run for a change seeded against property X (target first)
 "C01": ["C01"], "C02": ["C02", "C13"], "C03": ["C03", "C04"], "C04": ["C04"], "C05": ["C05", "C07"], "C06": ["C06"],
 "C07": ["C07", "C05"], "C08": ["C08", "C14"], "C09": ["C09", "C07"], "C10": ["C10"], "C11": ["C11"], "C12": ["C12", "C07", "C03"],
 "C13": ["C13"], "C14": ["C14"], "C15": ["C15"], "C16": ["C16"], "C17": ["C17"], "C18": ["C18"], "C19": ["C19", "C11"], "C20": ["C20"]}
env = dict(os.environ, GOFLAGS="-mod=mod", GOPROXY="off")
def sh(cmd, cwd=None, timeout=3600):
    p = subprocess.run(cmd, shell=True, cwd=cwd, env=env, stdout=subprocess.PIPE, stderr=subprocess.STDOUT, timeout=timeout)
    return p.returncode, p.stdout.decode("utf-8", "replace")
if not os.path.exists(base + "/check"):
    os.makedirs(os.path.dirname(base), exist_ok=True)
    sh("rm -rf %s && git -C /verif worktree prune && git -C /verif worktree add --detach %s HEAD" % (base, base))
    # reuse the main tree's lake build output to avoid a cold build
    sh("cp -r /verif/lean/.lake %s/lean/.lake" % base)
    sh("cp /verif/lean/KcpVerif/Generated.lean %s/lean/KcpVerif/Generated.lean" % base)
dirs = sorted(glob.glob("/verif/seeded/C*-*"))
if os.environ.get("SEED_ONLY"):
    dirs = [d for d in dirs if os.path.basename(d) in os.environ["SEED_ONLY"].split(",")]
if True:
    sh("git -C %s checkout -q --detach && git -C %s reset -q --hard && git -C %s checkout -q --detach %s" % (base, base, base, subprocess.run("git -C /verif rev-parse HEAD", shell=True, capture_output=True, text=True).stdout.strip()))
for i, d in enumerate(dirs):
    if i % nl != lane:
        continue
    name = os.path.basename(d)
    pid = name.split("-")[0]
    meta = json.load(open(d + "/meta.json"))
    if not (meta.get("compiles") and meta.get("demo_with_change_fails") and meta.get("demo_without_change_passes")):
        continue
    wt = "/root/scratch/recheck/wt-%s" % name
    sh("git -C /repo worktree remove --force %s" % wt)
    sh("git -C /repo worktree add --detach %s main" % wt)
    rc, out = sh("git apply --3way %s/patch.diff || git apply %s/patch.diff" % (d, d), cwd=wt)
    rcd, outd = sh("git diff HEAD --stat", cwd=wt)
    meta["applies_on_final_main"] = bool(outd.strip()) and rc == 0
    if not meta["applies_on_final_main"]:
        meta["checks_final"], meta["caught_by_final"] = {}, []
        json.dump(meta, open(d + "/meta.json", "w"), indent=1)
        print(name, "PATCH DOES NOT APPLY on final main:", out[-300:], flush=True)
        sh("git -C /repo worktree remove --force %s" % wt)
        continue
    res = {}
    for p in PROPS.get(pid, [pid]):
        tmo = "" if p == pid else "VERIF_NO_WIDEN=1 "
        rc4, out4 = sh("%sVERIF_REPO=%s VERIF_EVIDENCE_DIR=%s/.work/ev-seed ./check %s" % (tmo, wt, base, p), cwd=base, timeout=3000)
        line = [l for l in out4.splitlines() if l.startswith("VIOLATION")]
        res[p] = {"exit": rc4, "line": line[0] if line else "",
                  "how": ("oracle-violation (concrete failing input)" if line and "no-failing-input-found" not in line[0] else ("proof-or-correspondence-broken, no failing input found" if line else ("check-broken" if rc4 == 2 else "missed")))}
        if line:
            rp = line[0].split("replay=")[1].split()[0]
            try:
                res[p]["replay_head"] = open(rp).read()[:700]
            except Exception:
                pass
    meta["checks_final"] = res
    meta["caught_by_final"] = [p for p in res if res[p]["exit"] == 1]
    json.dump(meta, open(d + "/meta.json", "w"), indent=1)
    print(name, {p: (r["exit"], r["how"][:30]) for p, r in res.items()}, flush=True)
    sh("git -C /repo worktree remove --force %s" % wt)
    shutil.rmtree(wt, ignore_errors=True)
