#!/bin/sh
# usage: seeded_round2.sh <lane> <Cxx> <first-number>   — confirm /tmp/mut/out2-<Cxx>/{1,2,3} as /verif/seeded/<Cxx>-<first..first+2>
# and run our checks from a private copy of /verif HEAD (lane directory)
lane=/root/scratch/recheck/lane$1; p=$2; first=$3
head=$(git -C /verif rev-parse HEAD)
if [ ! -x $lane/check ]; then
  rm -rf $lane; git -C /verif worktree prune; git -C /verif worktree add -q --detach $lane $head
  cp -r /verif/lean/.lake $lane/lean/.lake; cp /verif/lean/KcpVerif/Generated.lean $lane/lean/KcpVerif/Generated.lean
else
  git -C $lane reset -q --hard; git -C $lane checkout -q --detach $head
fi
(cd $lane && ./check --setup >/dev/null 2>&1)
n=$first
for i in 1 2 3; do
  if [ -f /tmp/mut/${OUTP:-out2}-$p/$i/patch.diff ]; then
    SEED_VERIF=$lane python3 /verif/tools/seeded_confirm.py $p $n --src /tmp/mut/${OUTP:-out2}-$p/$i $4 2>&1 | tail -12
  fi
  n=$((n+1))
done
