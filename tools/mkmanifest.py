#!/usr/bin/env python3
"""Regenerates MANIFEST.json from props/*.json and tools/manifest_text.json (hand-written claim texts)."""
import json, os, glob, subprocess
ROOT = os.path.dirname(os.path.dirname(os.path.abspath(__file__)))
texts = json.load(open(os.path.join(ROOT, "tools", "manifest_text.json")))
props = [json.loads(l) for l in open(os.path.join(ROOT, "properties.jsonl"))]
claimed = sorted(p for p in texts["claims"])
checks = []
for pid in claimed:
    cfg = json.load(open(os.path.join(ROOT, "props", pid + ".json")))
    t = texts["claims"][pid]
    checks.append({
        "property_id": pid,
        "quick_cmd": "./check %s --tier quick" % pid,
        "thorough_cmd": "./check %s --tier thorough" % pid,
        "evidence_file": "/verif/evidence/%s.json" % pid,
        "replay_cmd_template": "./check %s --replay {path}" % pid,
        "engine": "lean-proof+correspondence",
        "level_claimed": {"category": cfg.get("level", "proof"), "text": t["text"], "design_ref": "DESIGN.md section " + cfg.get("design_ref", "7")},
        "level_note": t["note"],
        "technique": t["technique"],
    })
na = [{"property_id": p["id"], "reason": texts["not_applicable"].get(p["id"], "check not built yet in this round; see DESIGN.md section 13")}
      for p in props if p["id"] not in claimed]
hooks = texts["hooks"]
man = {
    "version": 1,
    "setup_cmd": "./check --setup",
    "hooks": hooks,
    "engines": [{"name": "lean-proof+correspondence", "path": "check", "serves_properties": claimed,
                 "kind_free_text": "Lean 4 theorems about executable models (lean/KcpVerif), tied to /repo on every run by a regenerated fact file (extract/ -> Generated.lean) and by differential correspondence / trace acceptance against the real code built with -tags verif (harness/)"}],
    "checks": checks,
    "not_applicable": na,
    "notes": texts["notes"],
}
json.dump(man, open(os.path.join(ROOT, "MANIFEST.json"), "w"), indent=1)
print("claimed:", claimed, "not claimed:", [x["property_id"] for x in na])
