#!/usr/bin/env python3
"""Confirm a seeded change delivered by a mutation sub-agent and run our checks against it.
usage: seeded_confirm.py <Cxx> <n> [--props C04,C05] [--skip-suite]
 input : /tmp/mut/out-<Cxx>/<n>/{patch.diff, seeded_demo_test.go|*, README.md}
 output: /verif/seeded/<Cxx>-<n>/{patch.diff, demo, meta.json, README.md}
Everything runs in a scratch worktree of /repo (removed afterwards); /repo itself is never touched."""
import json, os, shutil, subprocess, sys, time, glob
pid, n = sys.argv[1], sys.argv[2]
props = [pid]
skip_suite = "--skip-suite" in sys.argv or "--demo-only" in sys.argv
if "--props" in sys.argv:
    props = sys.argv[sys.argv.index("--props") + 1].split(",")
src = "/tmp/mut/out-%s/%s" % (pid, n)
if "--src" in sys.argv:  # round 2: deliveries of a later wave, numbered on in /verif/seeded
    src = sys.argv[sys.argv.index("--src") + 1]
dst = "/verif/seeded/%s-%s" % (pid, n)
wt = "/root/scratch/seed/%s-%s" % (pid, n)
env = dict(os.environ, GOFLAGS="-mod=mod", GOPROXY="off")
def sh(cmd, cwd=None, timeout=3600):
    p = subprocess.run(cmd, shell=True, cwd=cwd, env=env, stdout=subprocess.PIPE, stderr=subprocess.STDOUT, timeout=timeout)
    return p.returncode, p.stdout.decode("utf-8", "replace")
os.makedirs(os.path.dirname(wt), exist_ok=True)
sh("git -C /repo worktree remove --force %s" % wt)
rc, out = sh("git -C /repo worktree add --detach %s main" % wt)
meta = {"property": pid, "n": int(n), "source": "fresh sub-agent given only the property text and its own worktree", "ran": []}
old_meta = {}
if "--demo-only" in sys.argv and os.path.exists(dst + "/meta.json"):
    old_meta = json.load(open(dst + "/meta.json"))
def note(k, v):
    meta[k] = v
    print(k, "=", str(v)[:300], flush=True)
try:
    rc, out = sh("git apply --3way %s/patch.diff" % src, cwd=wt)
    if rc != 0:
        rc, out = sh("git apply %s/patch.diff" % src, cwd=wt)
    note("patch_applies", rc == 0)
    if rc != 0:
        note("apply_log", out[-2000:]); raise SystemExit
    rc, out = sh("go build ./...", cwd=wt)
    note("compiles", rc == 0)
    demos = [f for f in glob.glob(src + "/*") if os.path.basename(f) not in ("patch.diff", "README.md") and not f.endswith(".log")]
    demo_tests = [f for f in demos if f.endswith("_test.go")]
    for f in demo_tests:
        shutil.copy(f, wt)
    names = " ".join(os.path.basename(f) for f in demo_tests)
    # which tests does the demo define?
    import re
    tnames = []
    for f in demo_tests:
        tnames += re.findall(r"^func (Test\w+)\(", open(f).read(), re.M)
    runpat = "^(%s)$" % "|".join(tnames) if tnames else "."
    race = "-race " if pid == "C14" else ""  # data-race demonstrations need the race detector
    rc1, out1 = sh("go test %s-vet=off -count=1 -timeout 10m -run '%s' ." % (race, runpat), cwd=wt, timeout=900)
    note("demo_with_change_fails", rc1 != 0)
    meta["ran"].append("go test %s-run '%s' . (with change): rc=%d" % (race, runpat, rc1))
    # without the change
    sh("git diff HEAD > /root/scratch/seed/%s-%s.saved.diff && git checkout HEAD -- ." % (pid, n), cwd=wt)  # never git stash: it is shared by all worktrees
    for f in demo_tests:
        shutil.copy(f, wt)
    rc2, out2 = sh("go test %s-vet=off -count=1 -timeout 10m -run '%s' ." % (race, runpat), cwd=wt, timeout=900)
    note("demo_without_change_passes", rc2 == 0)
    meta["ran"].append("go test %s-run '%s' . (without change): rc=%d" % (race, runpat, rc2))
    if rc2 != 0:
        note("demo_without_log", out2[-1500:])
    for f in demo_tests:
        os.remove(os.path.join(wt, os.path.basename(f)))
    sh("git apply /root/scratch/seed/%s-%s.saved.diff" % (pid, n), cwd=wt)
    # full suite with the change, in a private network namespace (the suite binds fixed ports)
    if not skip_suite:
        ok = False
        for attempt in range(2):
            rc3, out3 = sh("unshare -n sh -c 'ip link set lo up && go test -vet=off -count=1 -timeout 25m ./...'", cwd=wt, timeout=1700)
            if rc3 == 0:
                ok = True; break
        note("suite_passes_with_change", ok)
        meta["ran"].append("unshare -n … go test -vet=off -count=1 -timeout 25m ./... (with change): %s" % ("ok" if ok else "FAIL"))
        if not ok:
            note("suite_log", out3[-2500:])
    # our checks against the changed tree
    res = {}
    for p in ([] if "--no-checks" in sys.argv else props):
        rc4, out4 = sh("VERIF_REPO=%s VERIF_EVIDENCE_DIR=/verif/.work/ev-seed ./check %s" % (wt, p), cwd=os.environ.get("SEED_VERIF", "/verif"), timeout=3000)
        line = [l for l in out4.splitlines() if l.startswith("VIOLATION")]
        res[p] = {"exit": rc4, "line": line[0] if line else "", "how": ("oracle-violation" if line and "no-failing-input-found" not in line[0] else ("proof-or-correspondence-broken" if line else "missed"))}
        if line:
            rp = line[0].split("replay=")[1].split()[0]
            try:
                res[p]["replay_head"] = open(rp).read()[:600]
            except Exception:
                pass
    note("checks", res)
    meta["caught_by"] = [p for p in res if res[p]["exit"] == 1]
    if old_meta:
        for k in ("suite_passes_with_change", "checks", "caught_by"):
            if k in old_meta and (k not in meta or not meta[k]):
                meta[k] = old_meta[k]
        meta["ran"] += [r for r in old_meta.get("ran", []) if "unshare" in r]
finally:
    os.makedirs(dst, exist_ok=True)
    for f in glob.glob(src + "/*"):
        if not f.endswith(".log"):
            shutil.copy(f, dst)
    json.dump(meta, open(dst + "/meta.json", "w"), indent=1)
    sh("git -C /repo worktree remove --force %s" % wt)
    shutil.rmtree(wt, ignore_errors=True)
