#!/bin/sh
# usage: seeded_round3_one.sh <lane> <Cxx> <i> <n>  — confirm /tmp/mut/out3-<Cxx>/<i> as /verif/seeded/<Cxx>-<n>
lane=/root/scratch/recheck/lane$1; p=$2; i=$3; n=$4
head=$(git -C /verif rev-parse HEAD)
if [ ! -x $lane/check ]; then
  rm -rf $lane; git -C /verif worktree prune; git -C /verif worktree add -q --detach $lane $head
  cp -r /verif/lean/.lake $lane/lean/.lake; cp /verif/lean/KcpVerif/Generated.lean $lane/lean/KcpVerif/Generated.lean
else
  git -C $lane reset -q --hard; git -C $lane checkout -q --detach $head
fi
(cd $lane && ./check --setup >/dev/null 2>&1)
SEED_VERIF=$lane python3 /verif/tools/seeded_confirm.py $p $n --src /tmp/mut/${OUTP:-out3}-$p/$i 2>&1 | tail -12
