#!/usr/bin/env python3
"""3-way semantic merge for components.json / known_findings.json during `git merge`:
usage: merge_json.py <file> <branch>   (run while the merge is in progress or before it)"""
import json, subprocess, sys
f, br = sys.argv[1], sys.argv[2]
def show(ref):
    try:
        return json.loads(subprocess.check_output(["git", "show", "%s:%s" % (ref, f)]))
    except Exception:
        return None
ours, theirs = show("HEAD"), show(br)
if theirs is None:
    sys.exit(0)
if f.endswith("components.json"):
    names = {v["name"] for v in ours["variants"]}
    for v in theirs.get("variants", []):
        if v["name"] not in names:
            ours["variants"].append(v)
    for k, v in theirs["components"].items():
        ours["components"].setdefault(k, v)
elif f.endswith("known_findings.json"):
    ids = {x["id"] for x in ours["findings"]}
    for x in theirs.get("findings", []):
        if x["id"] not in ids:
            ours["findings"].append(x)
    for x in theirs.get("fixed", []):
        if x not in ours["fixed"]:
            ours["fixed"].append(x)
json.dump(ours, open(f, "w"), indent=1)
print("merged", f)
