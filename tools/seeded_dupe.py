#!/usr/bin/env python3
"""usage: seeded_dupe.py <patch.diff>  — prints the seeded directory whose patch changes the same lines, if any"""
import sys, glob, re
def sig(p):
    ls = [l.strip() for l in open(p, errors="replace") if (l.startswith("+") or l.startswith("-")) and not l.startswith(("+++", "---"))]
    return set(l for l in ls if len(l) > 3 and not l[1:].strip().startswith("//"))
s = sig(sys.argv[1])
best = None
for d in sorted(glob.glob("/verif/seeded/C*-*/patch.diff")):
    t = sig(d)
    if not s or not t:
        continue
    j = len(s & t) / len(s | t)
    if best is None or j > best[0]:
        best = (j, d)
if best and best[0] >= 0.6:
    print("%.2f %s" % best)
