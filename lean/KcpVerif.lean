import KcpVerif.Generated
import KcpVerif.Model.Ring
import KcpVerif.Props.C20
import KcpVerif.Model.Pool
import KcpVerif.Model.Lifecycle
import KcpVerif.Props.C15
