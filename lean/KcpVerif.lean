import KcpVerif.Generated
import KcpVerif.Model.Ring
import KcpVerif.Props.C20
import KcpVerif.Lemmas.DRF
import KcpVerif.Props.C14
