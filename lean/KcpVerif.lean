import KcpVerif.Generated
import KcpVerif.Model.Ring
import KcpVerif.Props.C20
import KcpVerif.Model.Wait
import KcpVerif.Lemmas.Wait
import KcpVerif.Props.C13
