import KcpVerif.Generated
import KcpVerif.Model.Ring
import KcpVerif.Lemmas.Ring
import KcpVerif.Lemmas.RingIter
import KcpVerif.Props.C20
