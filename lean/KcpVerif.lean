import KcpVerif.Generated
import KcpVerif.Model.Ring
import KcpVerif.Props.C20
import KcpVerif.Model.Wire
import KcpVerif.Model.SessOut
import KcpVerif.Lemmas.Wire
