import KcpVerif.Generated
import KcpVerif.Model.Ring
import KcpVerif.Model.Cfb
import KcpVerif.Props.C20
import KcpVerif.Props.C08
