import KcpVerif.Generated
import KcpVerif.Model.Ring
import KcpVerif.Props.C20
import KcpVerif.Model.Crc32
import KcpVerif.Model.SessIn
