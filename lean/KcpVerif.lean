import KcpVerif.Generated
import KcpVerif.Model.Ring
import KcpVerif.Props.C20
import KcpVerif.Model.GF256
import KcpVerif.Model.RS
import KcpVerif.Model.AutoTune
import KcpVerif.Model.Fec
import KcpVerif.Lemmas.RS
