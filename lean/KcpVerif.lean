import KcpVerif.Generated
import KcpVerif.Model.Ring
import KcpVerif.Props.C20
import KcpVerif.Model.Sched
import KcpVerif.Lemmas.Sched
import KcpVerif.Lemmas.SchedSource
import KcpVerif.Lemmas.SchedLive
import KcpVerif.Props.C17
