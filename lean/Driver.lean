import Driver.Util
import Driver.Ring
