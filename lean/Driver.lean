import Driver.Util
import Driver.Ring
import Driver.Kcp
import Driver.Sess
import Driver.Wait
import Driver.Wire
import Driver.Sched
import Driver.SessIn
import Driver.Fec
import Driver.Cfb
import Driver.Pool
-- import Driver.KcpOwn  -- TEMP (w-wedge)
-- import Driver.FecOwn  -- TEMP (w-wedge)
import Driver.SessFec
