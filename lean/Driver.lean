import Driver.Util
import Driver.Ring
import Driver.Kcp
import Driver.Sess
import Driver.Wait
import Driver.Wire
import Driver.Sched
