import Driver.Util
import Driver.Ring
import Driver.Pool
