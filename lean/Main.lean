import Driver
/-! `kcpdriver <component>`: reads op lines on stdin, prints the model's observation per line -/
def main (args : List String) : IO UInt32 := do
  match args with
  | ["ring"] => Driver.RingC.main; return 0
  | ["pool"] => Driver.PoolC.main; return 0
  | _ => IO.eprintln "usage: kcpdriver <component>"; return 2
