import Driver
/-! `kcpdriver <component>`: reads op lines on stdin, prints the model's observation per line -/
def main (args : List String) : IO UInt32 := do
  match args with
  | ["ring"] => Driver.RingC.main; return 0
  | ["kcp"] => Driver.KcpC.main; return 0
  | ["sess"] => Driver.SessC.main; return 0
  | ["wait"] => Driver.WaitC.main; return 0
  | ["wire"] => Driver.WireC.main; return 0
  | ["sched"] => Driver.SchedC.main; return 0
  | ["sessin"] => Driver.SessInC.mainS; return 0
  | ["listener"] => Driver.SessInC.mainL; return 0
  | ["fec"] => Driver.FecC.main; return 0
  | ["autotune"] => Driver.AutoTuneC.main; return 0
  | ["cfb"] => Driver.CfbC.main; return 0
  | ["pool"] => Driver.PoolC.main; return 0
  | ["kcpown"] => Driver.KcpOwnC.main; return 0
  | ["fecown"] => Driver.FecOwnC.main; return 0
  | ["sessfec"] => Driver.SessFecC.main; return 0
  | _ => IO.eprintln "usage: kcpdriver <component>"; return 2
