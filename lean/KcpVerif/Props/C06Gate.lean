import KcpVerif.Generated
/-!
C06 — gate-order obligation on the extractor's `gateOrder` table (tie X of DESIGN 7.6).

`KcpVerif.Gen.gateOrder` (extract/tables_gate.go, worker `drf`) lists, for
`UDPSession.packetInput` and `Listener.packetInput` and each arm of the type switch on the cipher,
the ordered effect kinds from function entry up to and including the FIRST statement that can
touch session, decoder or listener state.  The obligation: in every arm that statement comes after
the complete integrity gate, rejecting branches return, and the error counter of a failed
integrity check is `InCsumErrors`.  A reordering (CRC compared after `kcpInput`, session created
before the gate, a rejecting branch that falls through) changes the regenerated table and this
theorem stops compiling — before any differential run exercises it.

NOT part of `KcpVerif.lean` / props/C06.json until the extractor that emits `gateOrder` is merged
(this worker's Generated.lean does not contain the table); built and tested against drf's
Generated.lean, see notes/C06.md.
-/
namespace KcpVerif.Props
open KcpVerif.Gen

/-- tokens that carry no effect: assignments among locals -/
def gateCore (effects : List String) : List String := effects.filter (· ≠ "local")

/-- the required shape of one arm; `last` is the first state-touching statement -/
def gateShape (fn branch : String) : Option (List String) :=
  let last := if fn = "UDPSession.packetInput" then "kcpInput" else "sessionLookup"
  -- the minimum-size check of a session counts KCPInErrors, the listener's is silent
  let minCheck := if fn = "UDPSession.packetInput" then ["lenCheck", "reject.counter:KCPInErrors", "reject.return"]
                  else ["lenCheck", "reject.return"]
  if branch = "nil" then some (minCheck ++ [last])
  else if branch = "aead" then
    some (["lenCheck", "reject.return", "open", "openErrCheck", "reject.counter:InCsumErrors", "reject.return"] ++ minCheck ++ [last])
  else if branch = "default" then
    some (["lenCheck", "reject.return", "decrypt", "crcCompute", "crcCompare", "reject.counter:InCsumErrors", "reject.return"]
      ++ minCheck ++ [last])
  else none

def gateBranchOk (b : GateBranch) : Bool := gateShape b.fn b.branch == some (gateCore b.effects)

def gateArms : List (String × String) :=
  [("Listener.packetInput", "nil"), ("Listener.packetInput", "aead"), ("Listener.packetInput", "default"),
   ("UDPSession.packetInput", "nil"), ("UDPSession.packetInput", "aead"), ("UDPSession.packetInput", "default")]

/-- every arm of both functions is in the table, exactly once, and has the required order -/
theorem C06_gate_order :
    gateOrder.map (fun b => (b.fn, b.branch)) = gateArms ∧ gateOrder.all gateBranchOk = true := by
  decide

end KcpVerif.Props
