import KcpVerif.Lemmas.SessOut
/-!
C09 — datagrams follow the documented frame layout; nonces never repeat.

`Wire.Spec` is the independent decoder (README "Specification" + wireshark dissector);
`Wire.encodeSeg`, `SessOut.encode/encodeOOB/postProcess` transcribe the code.  The core's
output is an arbitrary non-empty list of well-formed segments (the core model is another
module); the Reed-Solomon parity bytes are an opaque function (their contents are C07's).
-/
namespace KcpVerif.Props
open KcpVerif KcpVerif.Gen KcpVerif.Wire KcpVerif.SessOut

/-- the independent decoder inverts `segment.encode`: header of `IKCP_OVERHEAD = 24` bytes,
exactly `len` payload bytes, whatever follows is left over -/
theorem C09_seg_roundtrip (s : Seg) (h : s.WF) (tail : Bytes) :
    Spec.decodeSeg (encodeSeg s ++ s.data ++ tail) = some { hdr := s.hdr, data := s.data, rest := tail } ∧
      (encodeSeg s).length = IKCP_OVERHEAD ∧ IKCP_OVERHEAD = 24 :=
  ⟨decodeSeg_encode s h tail, encodeSeg_length s, rfl⟩

example : (⟨7, 81, 0, 32, 1000, 5, 3, [1, 2, 3]⟩ : Seg).WF := by decide

/-- any non-empty list of well-formed segments laid out back to back (what `flush` hands the
output callback) decodes to exactly that list, every byte consumed -/
theorem C09_datagram_wellformed (segs : List Seg) (hne : segs ≠ []) (h : ∀ s ∈ segs, s.WF) :
    Spec.decode (encodeSegs segs) = some (segs.map fun s => (s.hdr, s.data)) :=
  decode_encodeSegs segs hne h

example : Spec.decode (encodeSegs [⟨7, 82, 0, 32, 1000, 5, 3, []⟩, ⟨7, 81, 0, 32, 1000, 6, 3, [9, 9]⟩]) ≠ none := by decide
/-- leftover bytes are refused by the specification decoder -/
example : Spec.decode (encodeSegs [⟨7, 81, 0, 32, 1000, 6, 3, [9, 9]⟩] ++ [0]) = none := by decide

/-! ### FEC header -/

theorem parseFec_fecHeader (id : BitVec 32) (t : Nat) (tail : Bytes) :
    Spec.parseFec (fecHeader id t ++ tail) = some { seqid := id, typ := BitVec.ofNat 16 t, body := tail } := by
  simp only [fecHeader, le32, le16, List.cons_append, List.nil_append, Spec.parseFec, u32_le32_bytes, u16_le16_bytes]

theorem parseSized_sizeField (n : Nat) (hn : n + 2 < 65536) (tail : Bytes) :
    Spec.parseSized (sizeField n ++ tail) = some (n + 2, tail) := by
  have hx : (BitVec.ofNat 16 (n + 2)).toNat = n + 2 := by
    simp only [BitVec.toNat_ofNat]; exact Nat.mod_eq_of_lt (by omega)
  simp only [sizeField]
  generalize BitVec.ofNat 16 (n + 2) = x at hx
  simp only [le16, List.cons_append, List.nil_append, Spec.parseSized, u16_le16_bytes]
  rw [hx]

/-- DATA packets: type 0xF1, the id sits in the data part of the cycle and below the wrap value,
SIZE = payload + 2; the id is the encoder's `next`. -/
theorem C09_fec_header_data (par : List Bytes → Nat → Bytes) (ho : Nat) (e : Enc) (body : Bytes) (now rto : Int)
    (h : e.Inv) (hb : body.length + 2 < 65536) :
    let o := encode par ho e body now rto
    o.pkt.kind = .data ∧ o.pkt.seqid = e.next ∧
    Spec.parseFec o.pkt.rest = some { seqid := BitVec.ofNat 32 e.next, typ := 0xF1#16, body := sizeField body.length ++ body } ∧
    Spec.parseSized (sizeField body.length ++ body) = some (body.length + 2, body) ∧
    e.next % (e.d + e.p) < e.d ∧ e.next < e.paws := by
  intro o
  have hp : o.pkt = _ := encode_pkt par ho e body now rto
  refine ⟨by rw [hp], by rw [hp], ?_, parseSized_sizeField _ hb _, ?_, h.next_lt⟩
  · rw [hp]; simp only [List.append_assoc]; rw [parseFec_fecHeader]; rfl
  · have := h.next_pos; simp only [Enc.shardSize] at this; rw [this]; exact h.cnt

/-- PARITY packets: type 0xF2, ids in the parity part of the cycle, consecutive behind the data
packet's id, below the wrap value; exactly `p` of them when the group closes in time, none
otherwise. -/
theorem C09_fec_header_parity (par : List Bytes → Nat → Bytes) (ho : Nat) (e : Enc) (body : Bytes) (now rto : Int)
    (h : e.Inv) :
    let o := encode par ho e body now rto
    (o.parity.length = e.p ∨ o.parity = []) ∧
    ∀ q ∈ o.parity, q.kind = .parity ∧
      (∃ b, Spec.parseFec q.rest = some { seqid := BitVec.ofNat 32 q.seqid, typ := 0xF2#16, body := b }) ∧
      e.d ≤ q.seqid % (e.d + e.p) ∧ q.seqid < e.paws ∧
      q.seqid = q.vid % e.paws ∧ e.vnext < q.vid ∧ q.vid ≤ e.vnext + e.p := by
  intro o
  have hpw := h.paws_pos
  by_cases hfull : e.cache.length + 1 = e.d
  · by_cases hg : now - e.tsLatest < rto
    · have hpar := (encode_full_ok par ho e body now rto hfull hg).2
      refine ⟨Or.inl (by rw [hpar, sealParities_length]; simp), ?_⟩
      intro q hq
      rw [hpar] at hq
      obtain ⟨k, b, hk, h1, h2, h3, h4, _⟩ := mem_sealParities _ _ _ hq
      simp only [List.length_map, List.length_range] at hk
      have hgh := bumpN_ghost e.bump k (by simpa using hpw) (bump_ghost e hpw h.ghost)
      have hf := bumpN_fields e.bump k
      rw [bumpN_paws, bump_paws, hf.2.2.2.2.2, bump_vnext] at hgh
      have hid : q.seqid = q.vid % e.paws := by rw [h3, hgh, h2, bump_vnext]
      have hpos1 : (e.vnext + 1) % e.shardSize = e.d := by
        by_cases h1 : e.d = 1
        · have : e.cache.length = 0 := by omega
          have hpp := h.ppos
          rw [Nat.add_mod, h.pos, this, Nat.zero_add, Nat.mod_mod, Nat.mod_eq_of_lt (by simp only [Enc.shardSize]; omega)]
          exact h1.symm
        · have := h.cnt
          rw [mod_succ_of_lt _ _ _ h.pos (by simp only [Enc.shardSize]; omega)]; exact hfull
      have hpos : q.vid % e.shardSize = e.d + k := by
        rw [h2, bump_vnext]; exact mod_add_of_lt _ _ _ _ hpos1 (by simp only [Enc.shardSize]; omega)
      refine ⟨h1, ⟨b, ?_⟩, ?_, ?_, hid, by rw [h2, bump_vnext]; omega, by rw [h2, bump_vnext]; omega⟩
      · rw [h4, parseFec_fecHeader]; rfl
      · have : q.seqid % e.shardSize = e.d + k := by rw [hid, Nat.mod_mod_of_dvd _ (paws_dvd e)]; exact hpos
        simp only [Enc.shardSize] at this; omega
      · rw [hid]; exact Nat.mod_lt _ hpw
    · have hpar := (encode_full_skip par ho e body now rto hfull hg).2
      exact ⟨Or.inr hpar, by intro q hq; rw [hpar] at hq; cases hq⟩
  · have hpar := (encode_mid par ho e body now rto hfull).2
    exact ⟨Or.inr hpar, by intro q hq; rw [hpar] at hq; cases hq⟩

/-- OOB packets: type 0xF3, the reserved id 0xFFFFFFFF, SIZE = (conv ‖ payload) + 2 -/
theorem C09_fec_header_oob (e : Enc) (body : Bytes) (hb : body.length + 2 < 65536) :
    let o := encodeOOB e body
    o.pkt.kind = .oob ∧
    Spec.parseFec o.pkt.rest = some { seqid := 0xFFFFFFFF#32, typ := 0xF3#16, body := sizeField body.length ++ body } ∧
    Spec.parseSized (sizeField body.length ++ body) = some (body.length + 2, body) := by
  intro o
  refine ⟨rfl, ?_, parseSized_sizeField _ hb _⟩
  show Spec.parseFec (fecHeader _ typeOOB ++ sizeField body.length ++ body) = _
  simp only [List.append_assoc]; rw [parseFec_fecHeader]; rfl

/-- ids do not repeat within a wrap period: every non-OOB packet carries `vid % paws` where
`vid` is an unwrapped counter; the data packet takes the counter's value, the parity packets the
next ones, and the counter then stands 1 (group open) or `1 + p` (group closed, parity sent or
skipped) further — strictly increasing, so two packets with the same id are at least `paws`
counter steps apart. -/
theorem C09_fec_header_ids (par : List Bytes → Nat → Bytes) (ho : Nat) (e : Enc) (body : Bytes) (now rto : Int)
    (h : e.Inv) :
    let o := encode par ho e body now rto
    o.enc.Inv ∧ o.pkt.vid = e.vnext ∧ o.pkt.seqid = o.pkt.vid % e.paws ∧
    (o.enc.vnext = e.vnext + 1 ∨ o.enc.vnext = e.vnext + 1 + e.p) ∧
    (∀ q ∈ o.parity, e.vnext < q.vid ∧ q.vid < o.enc.vnext) ∧ o.enc.paws = e.paws := by
  intro o
  have hp : o.pkt = _ := encode_pkt par ho e body now rto
  have hpar := (C09_fec_header_parity par ho e body now rto h).2
  refine ⟨encode_inv par ho e body now rto h, by rw [hp], by rw [hp]; exact h.ghost, ?_⟩
  by_cases hfull : e.cache.length + 1 = e.d
  · by_cases hg : now - e.tsLatest < rto
    · have he := (encode_full_ok par ho e body now rto hfull hg).1
      have hf := bumpN_fields e.bump e.p
      have hv : o.enc.vnext = e.vnext + 1 + e.p := by
        show (encode par ho e body now rto).enc.vnext = _
        rw [he]; simp only [hf.2.2.2.2.2, bump_vnext]
      refine ⟨Or.inr hv, ?_, ?_⟩
      · intro q hq; have := hpar q hq; omega
      · show (encode par ho e body now rto).enc.paws = _
        rw [he]; simp only [Enc.paws, Enc.shardSize, hf.1, hf.2.1, bump_d, bump_p]
    · have he := (encode_full_skip par ho e body now rto hfull hg).1
      have hpe := (encode_full_skip par ho e body now rto hfull hg).2
      refine ⟨Or.inr (by show (encode par ho e body now rto).enc.vnext = _; rw [he]; rfl), ?_, ?_⟩
      · intro q hq; rw [show o.parity = [] from hpe] at hq; cases hq
      · show (encode par ho e body now rto).enc.paws = _
        rw [he]; rfl
  · have he := (encode_mid par ho e body now rto hfull).1
    have hpe := (encode_mid par ho e body now rto hfull).2
    refine ⟨Or.inl (by show (encode par ho e body now rto).enc.vnext = _; rw [he]; rfl), ?_, ?_⟩
    · intro q hq; rw [show o.parity = [] from hpe] at hq; cases hq
    · show (encode par ho e body now rto).enc.paws = _
      rw [he]; rfl

/-- the FEC header of every packet the FEC stage can produce, in one statement -/
theorem C09_fec_header (par : List Bytes → Nat → Bytes) (ho : Nat) (e : Enc) (body : Bytes) (now rto : Int)
    (h : e.Inv) (hb : body.length + 2 < 65536) :
    let o := encode par ho e body now rto
    -- data ⇒ type 0xF1, seqid % n < d, size = |payload| + 2
    (Spec.parseFec o.pkt.rest = some { seqid := BitVec.ofNat 32 e.next, typ := 0xF1#16, body := sizeField body.length ++ body } ∧
      Spec.parseSized (sizeField body.length ++ body) = some (body.length + 2, body) ∧ e.next % (e.d + e.p) < e.d) ∧
    -- parity ⇒ type 0xF2, seqid % n ≥ d
    (∀ q ∈ o.parity, (∃ b, Spec.parseFec q.rest = some { seqid := BitVec.ofNat 32 q.seqid, typ := 0xF2#16, body := b }) ∧
      e.d ≤ q.seqid % (e.d + e.p)) ∧
    -- OOB ⇒ type 0xF3, seqid 0xFFFFFFFF, encoder untouched
    (Spec.parseFec (encodeOOB e body).pkt.rest =
        some { seqid := 0xFFFFFFFF#32, typ := 0xF3#16, body := sizeField body.length ++ body } ∧ (encodeOOB e body).enc = e) ∧
    -- ids: each is `next` = counter % paws; the counter advances by 1 or 1 + p; invariant kept
    (o.pkt.seqid = o.pkt.vid % e.paws ∧ (∀ q ∈ o.parity, q.seqid = q.vid % e.paws ∧ o.pkt.vid < q.vid ∧ q.vid < o.enc.vnext) ∧
      (o.enc.vnext = e.vnext + 1 ∨ o.enc.vnext = e.vnext + 1 + e.p) ∧ o.enc.Inv) := by
  intro o
  have hd := C09_fec_header_data par ho e body now rto h hb
  have hp := C09_fec_header_parity par ho e body now rto h
  have ho' := C09_fec_header_oob e body hb
  have hi := C09_fec_header_ids par ho e body now rto h
  refine ⟨⟨hd.2.2.1, hd.2.2.2.1, hd.2.2.2.2.1⟩, fun q hq => ⟨(hp.2 q hq).2.1, (hp.2 q hq).2.2.1⟩, ⟨ho'.2.1, rfl⟩,
    hi.2.2.1, fun q hq => ⟨(hp.2 q hq).2.2.2.2.1, ?_, (hi.2.2.2.2.1 q hq).2⟩, hi.2.2.2.1, hi.1⟩
  rw [hi.2.1]; exact (hi.2.2.2.2.1 q hq).1

/-- end to end for a data packet: FEC header, size field and the core's segments behind them are
accepted by the specification's body parser as a DATA frame carrying exactly those segments -/
theorem C09_data_frame_accepted (par : List Bytes → Nat → Bytes) (ho : Nat) (e : Enc) (segs : List Seg) (now rto : Int)
    (h : e.Inv) (hne : segs ≠ []) (hwf : ∀ s ∈ segs, s.WF) (hb : (encodeSegs segs).length + 2 < 65536) :
    Spec.parseBody (some (e.d, e.p)) (encode par ho e (encodeSegs segs) now rto).pkt.rest =
      some (.data (BitVec.ofNat 32 e.next) ((encodeSegs segs).length + 2) (segs.map fun s => (s.hdr, s.data))) := by
  have hd := C09_fec_header_data par ho e (encodeSegs segs) now rto h hb
  have hlt : e.next < 4294967296 := Nat.lt_trans h.next_lt (paws_lt e)
  have hnat : (BitVec.ofNat 32 e.next).toNat = e.next := by
    simp only [BitVec.toNat_ofNat]; exact Nat.mod_eq_of_lt hlt
  have hpw : e.next < 4294967295 / (e.d + e.p) * (e.d + e.p) := h.next_lt
  simp only [Spec.parseBody, hd.2.2.1, hd.2.2.2.1, hnat, hd.2.2.2.2.1, hpw, and_self, if_true,
    decode_encodeSegs segs hne hwf, Option.map_some]
  rfl

/-- … and without FEC the datagram is the core's output itself -/
theorem C09_kcp_frame_accepted (segs : List Seg) (hne : segs ≠ []) (hwf : ∀ s ∈ segs, s.WF) :
    Spec.parseBody none (encodeSegs segs) = some (.kcp (segs.map fun s => (s.hdr, s.data))) := by
  simp only [Spec.parseBody, decode_encodeSegs segs hne hwf, Option.map_some]

/-- two packets whose unwrapped counters are less than a wrap period apart carry different ids -/
theorem C09_fec_ids_distinct_within_period (paws v w : Nat) (hlt : v < w) (hper : w - v < paws) :
    v % paws ≠ w % paws := by
  intro heq
  have h1 := Nat.div_add_mod v paws
  have h2 := Nat.div_add_mod w paws
  have hle : v / paws ≤ w / paws := Nat.div_le_div_right (Nat.le_of_lt hlt)
  rcases Nat.eq_or_lt_of_le hle with h | h
  · rw [h] at h1; omega
  · have : paws * (v / paws + 1) ≤ paws * (w / paws) := Nat.mul_le_mul_left _ h
    rw [Nat.mul_add, Nat.mul_one] at this
    omega

/-- a fresh encoder satisfies the invariant (non-vacuity of the hypotheses above) -/
example : ∀ e, newEnc { cipher := .block, d := 10, p := 3 } = some e → e.Inv := newEnc_inv _

/-! ### crypt header -/

/-- CFB-style ciphers: the plaintext frame is `nonce ‖ le32 (crc rest) ‖ rest`: the nonce precedes,
the CRC covers everything after the CRC field, the datagram is the encryption of that frame —
for whatever packet the FEC stage produced (data, parity, OOB or a plain KCP packet); the
specification's crypt-header parser accepts the frame and returns nonce and rest.
AEAD: `nonce ‖ Seal(nonce, rest)`. -/
theorem C09_crypt_header {γ : Type} (P : Prims γ) (c : Cfg) (g : γ) (pkt : Pkt) :
    let em := (crypt P c g pkt).emit
    em.pkt = pkt ∧
    (c.cipher = .block →
      em.nonce = (P.draw g).out.take nonceSize ∧
      em.plain = em.nonce ++ le32 (P.crc pkt.rest) ++ pkt.rest ∧ em.wire = P.encB em.plain ∧
      (em.nonce.length = 16 → Spec.parseCrypt P.crc em.plain = some (em.nonce, pkt.rest))) ∧
    (∀ n o, c.cipher = .aead n o →
      em.nonce = (P.draw g).out.take n ∧ em.plain = em.nonce ++ pkt.rest ∧
      em.wire = em.nonce ++ P.aseal em.nonce pkt.rest) ∧
    (c.cipher = .none → em.wire = pkt.rest ∧ em.nonce = []) := by
  intro em
  cases hc : c.cipher with
  | none => simp only [em, crypt, hc]; simp
  | aead n o => simp only [em, crypt, hc]; simp
  | block =>
    have hem : em = { pkt := pkt, nonce := (P.draw g).out.take nonceSize,
                      plain := (P.draw g).out.take nonceSize ++ le32 (P.crc pkt.rest) ++ pkt.rest,
                      wire := P.encB ((P.draw g).out.take nonceSize ++ le32 (P.crc pkt.rest) ++ pkt.rest) } := by
      simp only [em, crypt, hc, cryptFrame]
    rw [hem]
    refine ⟨rfl, fun _ => ⟨rfl, rfl, rfl, ?_⟩, by simp, by simp⟩
    intro hlen
    simp only at hlen ⊢
    generalize (P.draw g).out.take nonceSize = nonce at hlen
    have h16 : (nonce ++ le32 (P.crc pkt.rest) ++ pkt.rest).drop 16 = le32 (P.crc pkt.rest) ++ pkt.rest := by
      rw [List.append_assoc, List.drop_left' hlen]
    have h20 : (nonce ++ le32 (P.crc pkt.rest) ++ pkt.rest).drop 20 = pkt.rest := by
      rw [List.drop_left' (by simp [hlen, le32_length])]
    have ht : (nonce ++ le32 (P.crc pkt.rest) ++ pkt.rest).take 16 = nonce := by
      rw [List.append_assoc, List.take_left' hlen]
    have hl : ¬ (nonce ++ le32 (P.crc pkt.rest) ++ pkt.rest).length < 20 := by
      simp only [List.length_append, le32_length, hlen]; omega
    simp only [Spec.parseCrypt, hl, if_false, h16, h20, ht]
    simp only [le32, List.cons_append, List.nil_append, List.take_succ_cons, List.take_zero, u32_le32_bytes, if_true]

/-- the statement holds for every datagram `postProcess` emits: each is the crypt stage applied to
one packet of the FEC stage, in order -/
theorem C09_crypt_header_all {γ : Type} (P : Prims γ) (c : Cfg) (st : PP γ) (reqs : List Req) :
    (postProcess P c st reqs).emits.map (·.pkt) = fecAll P c st.enc reqs :=
  (postProcess_pkts P c reqs st).1

/-! ### nonces -/

/-- with a cipher configured `postProcess` draws exactly one generator output per emitted datagram
— the original and each parity packet — in transmission order, puts (a prefix of) it into bytes
`[0, nonceSize)` of the frame before encryption, and leaves the generator advanced by exactly
that many draws. -/
theorem C09_nonce_one_draw_per_datagram {γ : Type} (P : Prims γ) (c : Cfg) (st : PP γ) (reqs : List Req)
    (hc : c.cipher ≠ .none) (hdraw : ∀ g, c.nonceLen ≤ (P.draw g).out.length) :
    let o := postProcess P c st reqs
    o.emits.map (·.nonce) = (drawsFrom P st.gen o.emits.length).map (·.take c.nonceLen) ∧
    o.st.gen = genAfter P st.gen o.emits.length ∧
    ∀ em ∈ o.emits, em.nonce.length = c.nonceLen ∧ em.plain.take c.nonceLen = em.nonce := by
  intro o
  have h := postProcess_draws P c hc reqs st
  refine ⟨h.1, h.2, ?_⟩
  -- every emit is `crypt` of some packet at some generator state
  have key : ∀ (pkts : List Pkt) (g : γ), ∀ em ∈ (cryptAll P c g pkts).emits,
      em.nonce.length = c.nonceLen ∧ em.plain.take c.nonceLen = em.nonce := by
    intro pkts
    induction pkts with
    | nil => intro g em hem; cases hem
    | cons x xs ih =>
      intro g em hem
      simp only [cryptAll, List.mem_cons] at hem
      rcases hem with hem | hem
      · have hd := hdraw g
        cases hci : c.cipher with
        | none => exact absurd hci hc
        | aead n ov =>
          simp only [Cfg.nonceLen, hci] at hd ⊢
          have hl : ((P.draw g).out.take n).length = n := by simp only [List.length_take]; omega
          rw [hem]; simp only [crypt, hci]
          exact ⟨hl, List.take_left' hl⟩
        | block =>
          simp only [Cfg.nonceLen, hci] at hd ⊢
          have hl : ((P.draw g).out.take nonceSize).length = nonceSize := by simp only [List.length_take]; omega
          rw [hem]; simp only [crypt, hci, cryptFrame]
          exact ⟨hl, by rw [List.append_assoc]; exact List.take_left' hl⟩
      · exact ih _ em hem
  have all : ∀ (reqs : List Req) (st : PP γ), ∀ em ∈ (postProcess P c st reqs).emits,
      em.nonce.length = c.nonceLen ∧ em.plain.take c.nonceLen = em.nonce := by
    intro reqs
    induction reqs with
    | nil => intro st em hem; cases hem
    | cons r rs ih =>
      intro st em hem
      simp only [postProcess, List.mem_append] at hem
      rcases hem with hem | hem
      · exact key _ _ em hem
      · exact ih _ em hem
  exact all reqs st

/-- the AES generator inside one re-keying epoch: the seed follows the orbit of the block cipher -/
theorem C09_aesgen_step {κ : Type} (E : κ → Bytes → Bytes) (fresh : Nat → κ × Bytes) (r : AesGen κ)
    (h : r.count < reseedInterval) :
    (r.next E fresh).out = E r.key r.seed ∧ (r.next E fresh).g.seed = E r.key r.seed ∧
    (r.next E fresh).g.key = r.key ∧ (r.next E fresh).g.count = r.count + 1 := by
  simp only [AesGen.next, AesGen.updateSeed, h, if_true, and_self]

/-- re-keying: after `reseedInterval` draws the next draw starts a fresh orbit -/
theorem C09_aesgen_rekey {κ : Type} (E : κ → Bytes → Bytes) (fresh : Nat → κ × Bytes) (r : AesGen κ)
    (h : ¬ r.count < reseedInterval) :
    (r.next E fresh).g.key = (fresh (r.epoch + 1)).1 ∧
    (r.next E fresh).out = E (fresh (r.epoch + 1)).1 (fresh (r.epoch + 1)).2 ∧ (r.next E fresh).g.count = 0 := by
  simp only [AesGen.next, AesGen.updateSeed, h, if_false, and_self]

/-- if `E_k` is injective (a block cipher is a permutation) the seed sequence can only revisit a
value by closing the cycle through the initial seed -/
theorem C09_orbit_injective (f : Bytes → Bytes) (hinj : ∀ a b, f a = f b → a = b) (s : Bytes) :
    ∀ i j, i < j → seedAt f s i = seedAt f s j → s = seedAt f s (j - i) := by
  intro i
  induction i with
  | zero => intro j _ h; simpa [seedAt] using h
  | succ i ih =>
    intro j hij h
    cases j with
    | zero => omega
    | succ j =>
      simp only [seedAt] at h
      have := ih j (by omega) (hinj _ _ h)
      simpa using this

/-- the deterministic part of "nonces never repeat": inside an epoch whose orbit does not return
to its starting seed within `N` steps, the `N` generator outputs are pairwise distinct.  Together
with `C09_nonce_one_draw_per_datagram` (one output per datagram) and `C09_aesgen_step`. -/
theorem C09_nonce_fresh_partial (f : Bytes → Bytes) (hinj : ∀ a b, f a = f b → a = b) (s : Bytes) (N : Nat)
    (hcycle : ∀ k, 0 < k → k < N → seedAt f s k ≠ s) :
    ∀ i j, i < j → j < N → seedAt f s i ≠ seedAt f s j := by
  intro i j hij hj heq
  have := C09_orbit_injective f hinj s i j hij heq
  exact hcycle (j - i) (by omega) (by omega) this.symm

/-- what is NOT proved (and cannot be: it is a statement about AES, ChaCha8 and the operating
system's randomness, i.e. a probability statement): that for the generator actually installed
all outputs, cut to the nonce length in use (16, or 12 for AES-GCM), are pairwise distinct. -/
def C09_nonce_fresh_full : Prop :=
  ∀ (κ : Type) (E : κ → Bytes → Bytes) (fresh : Nat → κ × Bytes) (cc : Nat → Bytes) (g0 : SessOut.Gen κ) (nlen : Nat),
    nlen = 16 ∨ nlen = 12 →
    let P : Prims (SessOut.Gen κ) :=
      { crc := fun _ => 0, parity := fun _ _ => [], draw := SessOut.Gen.next E fresh cc, encB := id, decB := id,
        aseal := fun _ x => x, aopen := fun _ x => some x }
    ∀ n, ((drawsFrom P g0 n).map (·.take nlen)).Nodup

end KcpVerif.Props
