import KcpVerif.Props.C11
import KcpVerif.Props.C11Core
import KcpVerif.Props.C01Session
import KcpVerif.Props.C01Reduce
import KcpVerif.Lemmas.C11IsoSys
import KcpVerif.Lemmas.C11IsoTrace
import KcpVerif.Lemmas.C11IsoAcc
import KcpVerif.Lemmas.C11IsoDial
import KcpVerif.Lemmas.C11IsoErase
import KcpVerif.Lemmas.C11IsoWire
/-!
C11 — `isolation` (DESIGN.md 7.11, Tier-2 composition) and "no cross stall".

The opaque session state `σ` of the listener model `Model/SessIn` is instantiated with the concrete
session model `Model/Sess` (ghost history of `Lemmas/C01SessSys`: `rd` = bytes `Read` has returned,
`wr` = bytes `WriteBuffers` has accepted, `wire` = datagrams emitted), configuration without FEC, ANY
cipher `ciph` at the listener's gate (no cipher: `plain`; a genuine datagram `d` arrives as `wrap d` for
any `wrap` the gate opens to `d` — `C11_wrap_block`, `C11_wrap_aead` give the `wrap`s of the CRC-style
ciphers and of AEAD), the clock an input of every listener step (`Lemmas/C11IsoSys.lean`):

    kcpInput := fun x d => sessStep x (.input d now)   init := fun c => { s := Sess.new c }
    closeFx  := fun x => sessStep x (.update now)       (Close = flush)

One listener, any number of remote addresses.  Any number of client sessions `P_a^c` (`Model/Sess`,
one per address `a` and conversation id `c`; a reconnect is a `connect` with a new id).  `honest` is
ANY set of addresses: an honest address sends only datagrams its clients have emitted (current
conversation or a previous one: "stale"), in any order, any number of times, at any later time; every
other address sends ARBITRARY bytes.  Events (`IEv`): connect / any client operation (incl.
`packetInput` of arbitrary bytes) / deliver / forge / Accept / Close of any session / any
application or scheduler operation on any server-side session (`Read` with any buffer size, `Write`,
`update`, setters) / `Listener.Close`.

`C11_isolation`: after ANY history, every session object `S` the listener has created for an honest
address `a` with conversation id `c` (accepted or still queued, open or closed) satisfies
`S.rd <+: P_a^c.wr`.  Ingredients: `listenerInput_obj` (= `C11_frame` + `C11_route_or_ignore` +
`C11_reset_replaces` as one case list: a datagram feeds only the session mapped at its source address
and only with the same conversation id or none readable), `sessRun_wire_hdr` (a genuine datagram
always carries a readable id — its own), `C01_session_plain` per (address, conversation).
Frames without a readable id (parity, short FEC data) can only come from non-honest addresses here
(a session without FEC never emits one); for those `C11_core_conv_check` is the second line of
defence and is not needed by this composition.
-/
namespace KcpVerif.Props
open KcpVerif KcpVerif.Gen KcpVerif.SessIn KcpVerif.C01 KcpVerif.C11Iso

/-- H3 discharged: the wire-format fact for `Model/Sess` -/
theorem C11_wire_conv : WireOk := fun c ops d hd => sessRun_wire_hdr c ops d hd

/-- H2 = `C01_session_plain` in the form used here: a reachable pair (client, server side) of
conversation `c` has the prefix property (range: fewer than 2^32 segments numbered by the client) -/
theorem C11_peer_prefix (c : U32) (g x : SessG) (h : Peer c g x) (hL : g.log.length < 2 ^ 32) : x.rd <+: g.wr := by
  obtain ⟨ops, h⟩ := h
  have hm : 0 < (Sess.new c).k.mss.toNat := by
    have : (Sess.new c).k.mss = 1376#32 := rfl
    rw [this]; decide
  have := C01_session_plain (Sess.new c) (Sess.new c) ⟨rfl, rfl, rfl, rfl, rfl⟩ ⟨rfl, rfl, rfl, rfl, rfl⟩ rfl rfl hm ops
    (by rw [h]; exact hL)
  rw [h] at this
  exact this

/-- **`C11_isolation`, abstract form**: with the wire-format fact as a named hypothesis -/
theorem C11_isolation_of_wire (hw : WireOk) (ciph : Cipher) (honest : String → Bool) (evs : List IEv) (j : Nat)
    (S : SessIn.Sess SessG) (hS : (C11Iso.run ciph honest {} evs).l.objs[j]? = some S) (ha : honest S.addr = true) :
    ∃ P, (C11Iso.run ciph honest {} evs).clients S.addr S.conv = some P ∧ (P.log.length < 2 ^ 32 → S.st.rd <+: P.wr) := by
  obtain ⟨g, hg, hp⟩ := (inv_run ciph hw evs {} (inv_init honest)).objs j S hS ha
  exact ⟨g, hg, fun hL => C11_peer_prefix S.conv g S.st hp hL⟩

/-- **`C11_isolation`.**  One listener without FEC, with any cipher `ciph`, whose sessions are `Model/Sess`
sessions; `honest` any set of addresses.  After ANY history `evs` from the empty listener — any
interleaving of: clients dialling (any address, any number of conversations per address), clients
doing anything, the network delivering with source `a` any datagram any client of `a` has emitted so
far (genuine, duplicated, reordered, delayed, or stale from a previous conversation of `a`), ARBITRARY
datagrams from every non-honest address (forged ids, foreign conversations, garbage, FEC/OOB frames),
Accept, Close of any session, any `Read`/`Write`/`update`/setter on any server-side session,
`Listener.Close` — every session object `S` created for an honest address satisfies:

  the client `P` of `S`'s own address and conversation id exists, and the bytes `S.Read` has returned
  are a prefix of the bytes `P.WriteBuffers` has accepted.

Nothing from other addresses, nothing from other conversations of the same address, nothing lost in
the middle, duplicated or reordered.  (`P.log.length < 2^32`: the range hypothesis of C01.) -/
theorem C11_isolation (ciph : Cipher) (honest : String → Bool) (evs : List IEv) (j : Nat) (S : SessIn.Sess SessG)
    (hS : (C11Iso.run ciph honest {} evs).l.objs[j]? = some S) (ha : honest S.addr = true) :
    ∃ P, (C11Iso.run ciph honest {} evs).clients S.addr S.conv = some P ∧ (P.log.length < 2 ^ 32 → S.st.rd <+: P.wr) :=
  C11_isolation_of_wire C11_wire_conv ciph honest evs j S hS ha

/-- the `wrap` of a CRC-style cipher (`enc` = `BlockCrypt.Encrypt`, laws = conclusions of C08): nonce ‖
CRC ‖ frame, encrypted — with any nonce of the right size the listener's gate opens it to the frame, so
`deliver a c i (fun d => enc (cryptFrame crc nonce d)) now` takes place -/
theorem C11_wrap_block (c : Cipher) (enc : Bytes → Bytes) (hc : C01_BlockCipherLaws c enc) (nonce d : Bytes)
    (hn : nonce.length = nonceSize) : cryptGate c (enc (Wire.cryptFrame c.crc nonce d)) = .ok d :=
  C01_gate_genuine c enc hc nonce d hn

/-- the `wrap` of an AEAD: nonce ‖ Seal(nonce, frame) -/
theorem C11_wrap_aead (c : Cipher) (ns ov : Nat) (aseal : Bytes → Bytes → Bytes) (hc : C01_AeadLaws c ns ov aseal)
    (nonce d : Bytes) (hn : nonce.length = ns) : cryptGate c (nonce ++ aseal nonce d) = .ok d := by
  unfold cryptGate
  rw [hc.kind]
  simp only []
  have hl : ¬ (nonce ++ aseal nonce d).length < ns + ov := by
    rw [List.length_append, hc.seal_length, hn]; omega
  rw [if_neg hl, List.take_left' hn, List.drop_left' hn, hc.open_seal]

/-- no cipher: `wrap = id` -/
theorem C11_wrap_plain (d : Bytes) : cryptGate plain (id d) = .ok d := rfl

/-- **the sessions `Accept` has returned**: every index Accept has returned is a session object, and
if its address is honest its reader's bytes are a prefix of its own peer's writes -/
theorem C11_isolation_accepted (ciph : Cipher) (honest : String → Bool) (evs : List IEv) (id : Nat)
    (hid : id ∈ (C11Iso.run ciph honest {} evs).accepted) :
    ∃ S, (C11Iso.run ciph honest {} evs).l.objs[id]? = some S ∧
      (honest S.addr = true →
        ∃ P, (C11Iso.run ciph honest {} evs).clients S.addr S.conv = some P ∧ (P.log.length < 2 ^ 32 → S.st.rd <+: P.wr)) := by
  have hlt := accOk_run ciph honest evs {} accOk_init id (Or.inl hid)
  refine ⟨(C11Iso.run ciph honest {} evs).l.objs[id], List.getElem?_eq_getElem hlt, fun ha => ?_⟩
  exact C11_isolation ciph honest evs id _ (List.getElem?_eq_getElem hlt) ha

/-- the invariant behind `C11_isolation`, for every reachable state of the composite system -/
theorem C11_isolation_state (ciph : Cipher) (honest : String → Bool) (evs : List IEv) :
    Inv honest (C11Iso.run ciph honest {} evs) := inv_run ciph C11_wire_conv evs {} (inv_init honest)

/-- **the datagrams that reach a session are its own peer's**: in any reachable state, the delivery
`deliver a c i wrap now` (source `a`, the `i`-th datagram `d` of `a`'s client of conversation `c`, opened
by the gate) does to every session object exactly one of: nothing; `closeFx` (the session mapped at `a`,
another conversation, `d` starts a conversation); feed `d` to the session of address `a` AND conversation
`c`; create the fresh session `(a, c)` and feed it `d`.  Together with `C11_frame` for the arbitrary
datagrams of other addresses: the multiset of datagrams fed to a session of an honest `(a, c)` is a
sub-multiset (with repetitions: the network may duplicate) of `P_a^c.wire`, in any order. -/
theorem C11_fed_genuine (ciph : Cipher) (honest : String → Bool) (evs : List IEv) (a : String) (c : U32) (i : Nat)
    (wrap : Bytes → Bytes) (now : U32) (P : SessG) (d : Bytes)
    (hP : (C11Iso.run ciph honest {} evs).clients a c = some P) (hd : P.wire[i]? = some d)
    (hgate : cryptGate ciph (wrap d) = .ok d) (j : Nat) (S' : SessIn.Sess SessG)
    (hj : (C11Iso.step ciph honest (C11Iso.run ciph honest {} evs) (.deliver a c i wrap now)).l.objs[j]? = some S') :
    (C11Iso.run ciph honest {} evs).l.objs[j]? = some S' ∨
    (∃ S, (C11Iso.run ciph honest {} evs).l.objs[j]? = some S ∧
      S' = { S with st := sessStep S.st (.update now), closed := true }) ∨
    (∃ S, (C11Iso.run ciph honest {} evs).l.objs[j]? = some S ∧ S.addr = a ∧ S.conv = c ∧
      S' = { S with st := sessStep S.st (.input d now) }) ∨
    (j = (C11Iso.run ciph honest {} evs).l.objs.length ∧
      S' = { conv := c, addr := a, st := sessStep { s := Sess.new c } (.input d now), closed := false }) := by
  have hi := C11_isolation_state ciph honest evs
  simp only [C11Iso.step, hP, hd, hgate, if_true] at hj
  exact inputD_genuine C11_wire_conv hi.wf hi.cls ciph now _ (wrap d) a c P i d hP hd hgate j S' hj

/-! ### the ghost fields are faithful

`SessG` = a `Model/Sess` session plus the history the statement is about.  On a live session (no
slice-bounds panic has been flagged: C05 proves none can be under its hypotheses; a flagged panic
freezes the ghost session, the real process has crashed) the session component of every step is the
`Model/Sess` function, and `rd` / `wr` record exactly what `Read` returned / `WriteBuffers` accepted. -/

/-- the listener's environment consists of the `Model/Sess` functions: `kcpInput s d = (Sess.packetInput s d now).s`,
`init conv = Sess.new conv`, `closeFx` = the flush of `Close` -/
theorem C11_world_is_sess (now : U32) (x : SessG) (hd : x.dead = false) :
    (∀ d, (x.s.packetInput d now).panic = false → ((world now).kcpInput x d).s = (x.s.packetInput d now).s) ∧
    (∀ conv, ((world now).init conv).s = Sess.new conv ∧ ((world now).init conv).rd = [] ∧
      ((world now).init conv).dead = false) ∧
    ((x.s.update now).panic = false → ((world now).closeFx x).s = { x.s with k := (x.s.update now).k } ∧
      ((world now).closeFx x).rd = x.rd) := by
  refine ⟨fun d hp => ?_, fun conv => ⟨rfl, rfl, rfl⟩, fun hp => ?_⟩
  · show (sessStep x (.input d now)).s = _
    unfold sessStep
    simp only [hd, Bool.false_eq_true, if_false, hp]
  · show (sessStep x (.update now)).s = _ ∧ (sessStep x (.update now)).rd = _
    unfold sessStep
    simp only [hd, Bool.false_eq_true, if_false, hp, and_self]

/-- `rd` grows by exactly what `Read` returns, nothing else changes it; `wr` grows by exactly the slices
of an admitted `WriteBuffers` -/
theorem C11_ghost_faithful (x : SessG) (hd : x.dead = false) :
    (∀ blen, (sessStep x (.read blen)).s = (x.s.read blen).s ∧ (sessStep x (.read blen)).rd = x.rd ++ (x.s.read blen).data) ∧
    (∀ d now, (sessStep x (.input d now)).rd = x.rd ∧ (sessStep x (.input d now)).wr = x.wr) ∧
    (∀ now, (sessStep x (.update now)).rd = x.rd ∧ (sessStep x (.update now)).wr = x.wr) ∧
    (∀ v now, (x.s.writeBuffers v now).panic = false → (x.s.writeBuffers v now).blocked = false →
      (sessStep x (.write v now)).s = (x.s.writeBuffers v now).s ∧ (sessStep x (.write v now)).wr = x.wr ++ v.flatten ∧
      (sessStep x (.write v now)).rd = x.rd) := by
  refine ⟨fun blen => ?_, fun d now => ?_, fun now => ?_, fun v now hp hb => ?_⟩
  · unfold sessStep
    simp only [hd, Bool.false_eq_true, if_false, and_self]
  · unfold sessStep
    simp only [hd, Bool.false_eq_true, if_false]
    split <;> exact ⟨rfl, rfl⟩
  · unfold sessStep
    simp only [hd, Bool.false_eq_true, if_false]
    split <;> exact ⟨rfl, rfl⟩
  · unfold sessStep
    simp only [hd, Bool.false_eq_true, if_false, hp, hb, and_self]

/-- **the literal instantiation** (`Lemmas/C11IsoErase.lean`): `σ := Sess`, `kcpInput s d =
(Sess.packetInput s d now).s`, `init = Sess.new`, `closeFx s = { s with k := (Sess.update s now).k }`
(`worldS`), application operations = the `Model/Sess` functions (`plainStep`).  Along every run of listener
events (datagrams with any cipher / bytes / source / clock, Accept, Close, any session operation on any
session) on which no ghost session is flagged dead, erasing the ghost fields of the ghost run gives the
literal run: the ghost history only observes. -/
theorem C11_ghost_erasure (evs : List GEv) (l : Listener SessG) (h : LiveRun l evs) :
    erL (evs.foldl gstep l) = evs.foldl pstep (erL l) := erase_lrun evs l h

example : (worldS 5).init 7 = Sess.new 7 ∧
    (∀ s d, (worldS 5).kcpInput s d = (Sess.packetInput s d 5).s) := ⟨rfl, fun _ _ => rfl⟩

/-! ### no cross stall -/

variable {σ : Type}

/-- **`C11_no_cross_stall`** (any session state `σ`, any core, any cipher).  `l` any listener state
satisfying the two table invariants (every reachable one does: `C11_reachable_wf`), `S` the session
object at index `id`, created for address `a`.  After ANY history of listener events — datagrams
(any world = any clock, any cipher, any bytes, any source), Accepts, Closes, application/scheduler
operations on any session — the object `S` (its ENTIRE state: core, queues, windows, reader buffer,
closed flag) is what it is after the sub-history of the events that concern it (datagrams whose source
is `a`; Close of / operations on `S` itself), and `a` is mapped to `S` after the one iff after the
other.  Traffic from other addresses, other sessions' Reads/Writes/Closes and Accepts can neither
change `S` nor its ability to progress. -/
theorem C11_no_cross_stall (l : Listener σ) (hwf : WF l) (hwf2 : WF2 l) (a : String) (id : Nat) (S : SessIn.Sess σ)
    (hS : l.objs[id]? = some S) (hSa : S.addr = a) (evs : List (LEv σ)) :
    (lrun l evs).objs[id]? = (lrun l (evs.filter (concerns a id))).objs[id]? ∧
    (lookup (lrun l evs).table a = some id ↔ lookup (lrun l (evs.filter (concerns a id))).table a = some id) := by
  have h := rel_run evs l l ⟨hwf, hwf2, hwf, rfl, ⟨S, hS, hSa⟩, Iff.rfl⟩
  exact ⟨h.obj, h.map⟩

/-- corollary: a history none of whose events concerns `S` leaves `S` identical and mapped as before -/
theorem C11_foreign_history_frame (l : Listener σ) (hwf : WF l) (hwf2 : WF2 l) (a : String) (id : Nat)
    (S : SessIn.Sess σ) (hS : l.objs[id]? = some S) (hSa : S.addr = a) (evs : List (LEv σ))
    (hf : ∀ e ∈ evs, concerns a id e = false) :
    (lrun l evs).objs[id]? = some S ∧ (lookup (lrun l evs).table a = some id ↔ lookup l.table a = some id) := by
  have h := C11_no_cross_stall l hwf hwf2 a id S hS hSa evs
  have he : evs.filter (concerns a id) = [] := by
    rw [List.filter_eq_nil_iff]
    intro e he; rw [hf e he]; exact Bool.false_ne_true
  rw [he] at h
  exact ⟨h.1.trans hS, h.2⟩

/-- both table invariants hold in every reachable listener state -/
theorem C11_reachable_wf (evs : List (LEv σ)) :
    WF (lrun (Listener.empty : Listener σ) evs) ∧ WF2 (lrun (Listener.empty : Listener σ) evs) :=
  WF_lrun evs _ WF_empty WF2_empty

/-! ### `Listener.Close` and the closed listener (`Model/SessIn.listenerInputD`, `listenerClose`, tied by the
`lclose` op of the `listener` component) -/

/-- an open listener's `packetInput` is `listenerInput`: every C06/C11 theorem is about the tied function -/
theorem C11_open_listener (w : World σ) (c : Cipher) (l : Listener σ) (data : Bytes) (a : String) :
    listenerInputD w c l false data a = listenerInput w c l data a := listenerInputD_false w c l data a

/-- **a closed listener creates nothing and stays isolated**: after `Listener.Close`, a datagram from `a`
(any bytes, any cipher) never lengthens the accept queue or the object list; the state is that of the
open listener's step with a `create` decision replaced by "close the old session, if any"; every object
not mapped at `a` is identical and the mapping of every other address is unchanged (`C11_frame` for the
closed listener) -/
theorem C11_closed_listener (w : World σ) (c : Cipher) (l : Listener σ) (data : Bytes) (a : String) (hwf : WF l) :
    (listenerInputD w c l true data a).l.accepts = l.accepts ∧
    (listenerInputD w c l true data a).l.objs.length = l.objs.length ∧
    (listenerInputD w c l true data a).l = deadOutcome w l (listenerInput w c l data a) ∧
    (∀ j, j < l.objs.length → lookup l.table a ≠ some j → (listenerInputD w c l true data a).l.objs[j]? = l.objs[j]?) ∧
    (∀ b, b ≠ a → lookup (listenerInputD w c l true data a).l.table b = lookup l.table b) :=
  ⟨(listenerInputD_dead_shape w c l data a).1, (listenerInputD_dead_shape w c l data a).2,
   listenerInputD_dead w c l data a, fun j hj hne => frameD_objects w c l true data a j hj hne,
   fun b hb => frameD_table w c l true data a b hwf hb⟩

/-- **`Listener.Close`** (first call): the accept queue is empty afterwards, every session that was still
queued is closed, and every other session — accepted ones in particular — is identical and mapped as
before.  (`Listener.Close` therefore concerns every queued session; with it in the history
`C11_no_cross_stall` holds as stated only up to the Close, or for sessions already accepted.) -/
theorem C11_listener_close (w : World σ) (l : Listener σ) (hwf2 : WF2 l) :
    (listenerClose w l false).accepts = [] ∧
    (∀ id ∈ l.accepts, id < l.objs.length → ∃ S, (listenerClose w l false).objs[id]? = some S ∧ S.closed = true) ∧
    (∀ id, id ∉ l.accepts → (listenerClose w l false).objs[id]? = l.objs[id]? ∧
      ∀ a, (lookup (listenerClose w l false).table a = some id ↔ lookup l.table a = some id)) ∧
    listenerClose w l true = l :=
  ⟨rfl, fun id hid hlt => closeAll_closed w l.accepts l id hid hlt,
   fun id hid => ⟨closeAll_objs w l.accepts l id hid, fun a => closeAll_lookup w l.accepts l hwf2 id a hid⟩, rfl⟩

/-- `C11_no_cross_stall` for the composite system of `C11_isolation` (listener open): the state of
session `S` after the mixed history is its state after the sub-history of the listener events that
concern `S` -/
theorem C11_no_cross_stall_sessions (ciph : Cipher) (honest : String → Bool) (pre evs : List IEv) (a : String) (id : Nat)
    (S : SessIn.Sess SessG) (hS : (C11Iso.run ciph honest {} pre).l.objs[id]? = some S) (hSa : S.addr = a)
    (hd : (C11Iso.run ciph honest {} pre).dead = false) (hn : ∀ e ∈ evs, isListenerClose e = false) :
    (C11Iso.run ciph honest (C11Iso.run ciph honest {} pre) evs).l.objs[id]? =
      (lrun (C11Iso.run ciph honest {} pre).l ((trace ciph honest (C11Iso.run ciph honest {} pre) evs).filter (concerns a id))).objs[id]? := by
  have hi := C11_isolation_state ciph honest pre
  rw [C11Iso.run_l ciph honest evs _ hd hn]
  exact (C11_no_cross_stall _ hi.wf hi.wf2 a id S hS hSa _).1

/-! ### the dialled side -/

/-- **`C11_dial_isolation`.**  A session dialled to the remote `r` (a UDP address or any other
`net.Addr`), behind the source filter of its read loop latched on `r`, and its peer session, both
`Model/Sess` (any initial sessions satisfying the hypotheses of `C01_session_plain`).  ANY history of:
the peer doing anything; the application / scheduler on the dialled session; datagrams from the remote
that the peer has emitted (any order, multiplicity, delay); ARBITRARY datagrams from ANY source that is
not the remote (`DEv.other`, processed by the real filter: `recvFrom`).  Then what the dialled session's
`Read` has returned is a prefix of what the peer's `WriteBuffers` has accepted: datagrams that do not come
from its peer's address never reach `packetInput` (`C11_dial_filter`, `C11_dial_filter_string`), and the
filter stays latched. -/
theorem C11_dial_isolation (r : Remote) (hr : r.ok) (sA sB : Sess) (hA : Fresh sA.k) (hB : Fresh sB.k)
    (hbB : sB.bufptr = []) (hsn : sB.k.rcv_nxt = sA.k.snd_nxt) (hm : 0 < sA.k.mss.toNat) (evs : List DEv)
    (hL : (drun r ⟨{ s := sA }, { s := sB }, r.filter⟩ evs).srv.log.length < 2 ^ 32) :
    (drun r ⟨{ s := sA }, { s := sB }, r.filter⟩ evs).cli.rd <+: (drun r ⟨{ s := sA }, { s := sB }, r.filter⟩ evs).srv.wr ∧
    (drun r ⟨{ s := sA }, { s := sB }, r.filter⟩ evs).f = r.filter := by
  obtain ⟨hf, ops, hops⟩ := drun_inv r hr sA sB evs ⟨{ s := sA }, { s := sB }, r.filter⟩ rfl ⟨[], rfl⟩
  refine ⟨?_, hf⟩
  have := C01_session_plain sA sB hA hB hbB hsn hm ops (by rw [hops]; exact hL)
  rw [hops] at this
  exact this

/-- the remote `10.0.0.1:7000`, a stranger `10.0.0.2:7000` and the same IP on another port -/
def c11Remote : Remote := .udp ([10, 0, 0, 1], 7000, "")
def c11AddrPeer : Dial.Addr := { udp := some ([10, 0, 0, 1], 7000, ""), str := "10.0.0.1:7000" }
def c11AddrOther : Dial.Addr := { udp := some ([10, 0, 0, 2], 7000, ""), str := "10.0.0.2:7000" }
def c11AddrPort : Dial.Addr := { udp := some ([10, 0, 0, 1], 7001, ""), str := "10.0.0.1:7001" }

/- the peer writes `[1, 2, 3]`; a stranger and the peer's IP on another port inject a well-formed PUSH of the
same conversation carrying `[9]` with sn 0 BEFORE the genuine datagram arrives: they are filtered (the third
`other` event names the remote itself and is not an event of this system: spoofing is excluded), the
genuine one is delivered, `Read` returns `[1, 2, 3]` -/
set_option maxRecDepth 1000000 in
example :
    (drun c11Remote ⟨{ s := Sess.new 7 }, { s := Sess.new 7 }, c11Remote.filter⟩
      [.srv (.write [[1, 2, 3]] 0), .srv (.update 0),
       .other c11AddrOther [7, 0, 0, 0, 81, 0, 32, 0, 0, 0, 0, 0, 0, 0, 0, 0, 0, 0, 0, 0, 1, 0, 0, 0, 9] 1,
       .other c11AddrPort [7, 0, 0, 0, 81, 0, 32, 0, 0, 0, 0, 0, 0, 0, 0, 0, 0, 0, 0, 0, 1, 0, 0, 0, 9] 1,
       .other c11AddrPeer [7, 0, 0, 0, 81, 0, 32, 0, 0, 0, 0, 0, 0, 0, 0, 0, 0, 0, 0, 0, 1, 0, 0, 0, 9] 1,
       .peer c11AddrPeer 0 2, .cli (.read 100)]).cli.rd = [1, 2, 3] := by
  decide +kernel

/-! ### non-vacuity: two honest peers, a forger, a reconnect, stale traffic -/

def c11IsoHonest : String → Bool := fun a => a == "A" || a == "B"

/-- the ACK session 0 emits at clock 5 for A's first segment (conversation 5, sn 0, una 1) -/
def c11IsoAck : Bytes := [5, 0, 0, 0, 82, 0, 31, 0, 0, 0, 0, 0, 0, 0, 0, 0, 1, 0, 0, 0, 0, 0, 0, 0]

/-- A (conversation 5) and B (conversation 9) each write and flush; their first datagrams reach the
listener (sessions 0 and 1); C forges a frame with A's conversation id (own session 2 at "C"), garbage,
and a frame "from A" that the step function ignores because A is honest; A's datagram is duplicated;
two Accepts; partial and full Reads; session 0 acknowledges, A writes `[10, 11]` (datagram 1, sn 1);
A reconnects with conversation 6 (session 3 replaces session 0); the stale datagram 1 of conversation 5
(sn ≠ 0) is ignored; B's session is closed by the application -/
def c11IsoEvs : List IEv :=
  [ .connect "A" 5, .connect "B" 9,
    .client "A" 5 (.write [[1, 2, 3]] 0), .client "A" 5 (.update 0),
    .client "B" 9 (.write [[7, 8]] 0), .client "B" 9 (.update 0),
    .deliver "A" 5 0 id 1, .deliver "B" 9 0 id 2,
    .forge "C" (c11Frame 5 0) 3, .forge "C" [1, 2, 3] 3, .forge "A" (c11Frame 9 0) 3,
    .deliver "A" 5 0 id 4,
    .accept, .accept,
    .sess 0 (.read 2), .sess 0 (.read 100), .sess 1 (.read 100),
    .sess 0 (.update 5), .client "A" 5 (.input c11IsoAck 6), .client "A" 5 (.write [[10, 11]] 7), .client "A" 5 (.update 7),
    .connect "A" 6, .client "A" 6 (.write [[4]] 10), .client "A" 6 (.update 10),
    .deliver "A" 6 0 id 11,
    .deliver "A" 5 1 id 12,
    .sess 3 (.read 100), .close 1 20 ]

set_option maxRecDepth 1000000 in
example :
    (C11Iso.run plain c11IsoHonest {} c11IsoEvs).l.objs.map (fun o => (o.addr, o.conv, o.closed, o.st.rd, o.st.dead)) =
      [("A", 5, true, [1, 2, 3], false), ("B", 9, true, [7, 8], false), ("C", 5, false, [], false),
       ("A", 6, false, [4], false)] ∧
    (C11Iso.run plain c11IsoHonest {} c11IsoEvs).l.table = [("A", 3), ("C", 2)] ∧
    (C11Iso.run plain c11IsoHonest {} c11IsoEvs).accepted = [0, 1] ∧
    ((C11Iso.run plain c11IsoHonest {} c11IsoEvs).clients "A" 5).map (fun g => (g.wr, g.wire.length)) = some ([1, 2, 3, 10, 11], 2) ∧
    ((C11Iso.run plain c11IsoHonest {} c11IsoEvs).clients "A" 6).map (fun g => g.wr) = some [4] ∧
    ((C11Iso.run plain c11IsoHonest {} c11IsoEvs).clients "B" 9).map (fun g => g.wr) = some [7, 8] := by
  decide +kernel

/- what the code does with a replayed FIRST datagram (sn = 0) of the previous conversation 5 of A: it is
a conversation start (`C11_reset_replaces`) — session 3 of conversation 6 is closed, a fresh session 4
of conversation 5 is created; its stream `[1, 2, 3]` is still a prefix of what `P_A^5` wrote -/
set_option maxRecDepth 1000000 in
example :
    (C11Iso.run plain c11IsoHonest {} (c11IsoEvs ++ [.deliver "A" 5 0 id 30, .sess 4 (.read 100)])).l.objs.map
        (fun o => (o.addr, o.conv, o.closed, o.st.rd)) =
      [("A", 5, true, [1, 2, 3]), ("B", 9, true, [7, 8]), ("C", 5, false, []), ("A", 6, true, [4]),
       ("A", 5, false, [1, 2, 3])] ∧
    (C11Iso.run plain c11IsoHonest {} (c11IsoEvs ++ [.deliver "A" 5 0 id 30, .sess 4 (.read 100)])).l.table = [("A", 4), ("C", 2)] := by
  decide +kernel

/- `C11_no_cross_stall` is not vacuous: in the history above, from the state in which session 1 exists,
the events that concern ("B", session 1) are a proper sub-history -/
example : ((trace plain c11IsoHonest (C11Iso.run plain c11IsoHonest {} (c11IsoEvs.take 8)) (c11IsoEvs.drop 8)).length,
    ((trace plain c11IsoHonest (C11Iso.run plain c11IsoHonest {} (c11IsoEvs.take 8)) (c11IsoEvs.drop 8)).filter (concerns "B" 1)).length) = (13, 2) := by
  decide +kernel

end KcpVerif.Props
