import KcpVerif.Props.C11
import KcpVerif.Props.C19
import KcpVerif.Lemmas.C11IsoL
/-!
C19 — "… and never to another session": the listener side.

On the listener model `Model/SessIn` (any cipher that lets the datagram through its integrity gate,
ANY session state `σ`): a frame whose FEC type field is `typeOOB` reaches the OOB branch of
`kcpInput` — and with it the handler — only of

  * the session mapped at the frame's SOURCE address, and only if that session has the frame's
    conversation id, or
  * the fresh session the frame itself starts (same source address, the frame's conversation id),
    which has no handler yet (`newUDPSession` registers none).

A session mapped at the source address with ANOTHER conversation id is closed (never fed: an OOB
frame has `sn = 0`, so it is a conversation start, `C11_reset_replaces`); every session of every other
address is left identical.  The frame `SendOOB` builds (`Model/SessOut.encodeOOB` of
`conv ‖ payload`) is such a frame and carries the sender's conversation id (`C19_sendoob_frame_hdr`).
-/
namespace KcpVerif.Props
open KcpVerif KcpVerif.Gen KcpVerif.SessIn KcpVerif.C11Iso

variable {σ : Type}

/-- what the listener's header switch reads from an OOB frame: the conversation id behind the FEC
header and the size field, `sn = 0` -/
theorem C19_oob_hdr (p : SessIn.Bytes) (h : le16 p 4 = typeOOB) :
    parseHdr p = some { hasConv := true, conv := le32 p fecHeaderSizePlus2, sn := 0 } := by
  unfold parseHdr
  rw [h]
  simp [typeOOB, typeData, typeParity]

/-- **`C19_oob_never_to_another_session`.**  `l` a listener state whose table is well formed (every
reachable one: `C11_wf_invariant`), `data` a datagram from source address `a` that passes the gate
as the OOB frame `p` with conversation id `c = le32 p 8`.  For EVERY session object `S'` afterwards,
at any index `j`, exactly one of:

  1. it is the object that was there before, identical (every session of another address, every
     unmapped session, and the session at `a` when … it is not — see 2–3);
  2. `j` is the session mapped at `a`, its conversation id is `c`, and it was fed this frame
     (`kcpInput`, whose OOB branch calls the handler);
  3. `j` is the session mapped at `a`, its conversation id is NOT `c`: it was closed, not fed;
  4. `j` is the fresh session created for `(a, c)` by this frame.

So the frame is handed to `kcpInput` of no session of another address and of no session of another
conversation. -/
theorem C19_oob_never_to_another_session (w : World σ) (c : Cipher) (l : Listener σ) (data p : SessIn.Bytes)
    (a : String) (hwf : WF l) (hg : cryptGate c data = .ok p) (hoob : le16 p 4 = typeOOB)
    (j : Nat) (S' : SessIn.Sess σ) (hj : (listenerInput w c l data a).l.objs[j]? = some S') :
    l.objs[j]? = some S' ∨
    (∃ S, l.objs[j]? = some S ∧ lookup l.table a = some j ∧ S.addr = a ∧ S.conv = le32 p fecHeaderSizePlus2 ∧
        S' = { S with st := w.kcpInput S.st p }) ∨
    (∃ S, l.objs[j]? = some S ∧ lookup l.table a = some j ∧ S.addr = a ∧ S.conv ≠ le32 p fecHeaderSizePlus2 ∧
        S' = { S with st := w.closeFx S.st, closed := true }) ∨
    (j = l.objs.length ∧
        S' = { conv := le32 p fecHeaderSizePlus2, addr := a, st := w.kcpInput (w.init (le32 p fecHeaderSizePlus2)) p,
               closed := false }) := by
  rcases listenerInput_obj w c l data a j S' hj with h1 | ⟨p', h, hg', _, hp, hf⟩
  · exact Or.inl h1
  · rw [hg] at hg'; cases hg'
    rw [C19_oob_hdr p hoob] at hp; cases hp
    rcases hf with ⟨S, hS, hl, hcv, e⟩ | ⟨S, hS, hl, _, _, hne, _, e⟩ | ⟨hjl, _, _, e⟩
    · obtain ⟨S2, hS2, hSa, _⟩ := hwf a j hl
      rw [hS] at hS2; cases hS2
      rcases hcv with h2 | h2
      · cases h2
      · exact Or.inr (Or.inl ⟨S, hS, hl, hSa, h2.symm, e⟩)
    · obtain ⟨S2, hS2, hSa, _⟩ := hwf a j hl
      rw [hS] at hS2; cases hS2
      exact Or.inr (Or.inr (Or.inl ⟨S, hS, hl, hSa, fun e' => hne e'.symm, e⟩))
    · exact Or.inr (Or.inr (Or.inr ⟨hjl, e⟩))

/-- corollary, the clause as worded: a session that IS fed the OOB frame (its state afterwards is
`kcpInput` of its state before) … is the session mapped at the source address and has the frame's
conversation id.  Stated contrapositively for sessions of other addresses or conversations: their
state afterwards is their state before, or `closeFx` of it. -/
theorem C19_oob_other_session_not_fed (w : World σ) (c : Cipher) (l : Listener σ) (data p : SessIn.Bytes)
    (a : String) (hwf : WF l) (hg : cryptGate c data = .ok p) (hoob : le16 p 4 = typeOOB)
    (j : Nat) (S : SessIn.Sess σ) (hS : l.objs[j]? = some S)
    (hother : S.addr ≠ a ∨ S.conv ≠ le32 p fecHeaderSizePlus2) :
    (listenerInput w c l data a).l.objs[j]? = some S ∨
    (listenerInput w c l data a).l.objs[j]? = some { S with st := w.closeFx S.st, closed := true } := by
  have hlt := lt_of_get hS
  have hlen : l.objs.length ≤ (listenerInput w c l data a).l.objs.length := by
    have := C11_accept_step w c l data a
    cases hcr : isCreate (listenerInput w c l data a).dec with
    | true => have := (this.1 hcr).2.1; omega
    | false => have := (this.2 hcr).2; omega
  cases hq : (listenerInput w c l data a).l.objs[j]? with
  | none => rw [List.getElem?_eq_none_iff] at hq; omega
  | some S' =>
    rcases C19_oob_never_to_another_session w c l data p a hwf hg hoob j S' hq with h1 | ⟨S2, h2, _, ha, hc, _⟩ |
        ⟨S2, h2, _, _, _, e⟩ | ⟨h4, _⟩
    · rw [hS] at h1; cases h1; exact Or.inl rfl
    · rw [hS] at h2; cases h2
      rcases hother with h | h
      · exact absurd ha h
      · exact absurd hc h
    · rw [hS] at h2; cases h2; exact Or.inr (by rw [e])
    · omega

/-- sessions of other addresses: identical and still mapped (instance of `C11_frame`) -/
theorem C19_oob_other_address_frame (w : World σ) (c : Cipher) (l : Listener σ) (data : SessIn.Bytes) (a b : String)
    (hwf : WF l) (hb : b ≠ a) (id : Nat) (S : SessIn.Sess σ)
    (hl : lookup l.table b = some id) (hS : l.objs[id]? = some S) :
    lookup (listenerInput w c l data a).l.table b = some id ∧ (listenerInput w c l data a).l.objs[id]? = some S :=
  C11_frame w c l data a b hwf hb id S hl hS

/-- the frame `SendOOB`/`postProcess` builds for payload `data` on a session with conversation id
`conv` (`Model/SessOut.encodeOOB (le32 conv ++ data)`, before encryption) is read by the listener as an
OOB frame of conversation `conv` -/
theorem C19_sendoob_frame_hdr (conv : BitVec 32) (data : SessIn.Bytes) :
    le16 (Wire.fecHeader (BitVec.ofNat 32 4294967295) typeOOB ++ Wire.sizeField (Wire.le32 conv ++ data).length ++
        (Wire.le32 conv ++ data)) 4 = typeOOB ∧
    le32 (Wire.fecHeader (BitVec.ofNat 32 4294967295) typeOOB ++ Wire.sizeField (Wire.le32 conv ++ data).length ++
        (Wire.le32 conv ++ data)) fecHeaderSizePlus2 = conv := by
  constructor
  · simp only [Wire.fecHeader, Wire.le32, Wire.le16, Wire.sizeField, List.cons_append, List.nil_append, le16, typeOOB,
      Nat.reduceAdd, List.getD_cons_succ, List.getD_cons_zero]
    decide
  · have h := Wire.u32_le32_bytes conv
    simp only [Wire.fecHeader, Wire.le32, Wire.le16, Wire.sizeField, List.cons_append, List.nil_append, le32,
      fecHeaderSizePlus2, List.getD_cons_succ, List.getD_cons_zero]
    exact h

/-! ### non-vacuity -/

/-- an OOB frame: FEC header (seqid ff ff ff ff, type f3 00), size, conversation id (one byte used), payload -/
def c19Oob (conv : UInt8) : SessIn.Bytes := [255, 255, 255, 255, 243, 0, 7, 0, conv, 0, 0, 0, 42]

-- same conversation: routed to A's session; other conversation: A's session is closed, a fresh one
-- created; B's session untouched in both cases
example : (listenerInput c11World c11Cipher c11L2 (c19Oob 5) "A").dec = .route "A" 0 := by decide +kernel
example : (listenerInput c11World c11Cipher c11L2 (c19Oob 5) "A").l.objs[0]? =
    some { conv := 5, addr := "A", st := [c11Frame 5 0, c19Oob 5], closed := false } := by decide +kernel
example : (listenerInput c11World c11Cipher c11L2 (c19Oob 6) "A").dec = .create "A" 6 (some 0) 2 := by decide +kernel
example : (listenerInput c11World c11Cipher c11L2 (c19Oob 6) "A").l.objs[0]? =
    some { conv := 5, addr := "A", st := [c11Frame 5 0], closed := true } := by decide +kernel
example : (listenerInput c11World c11Cipher c11L2 (c19Oob 9) "A").l.objs[1]? = c11L2.objs[1]? := by decide +kernel
example : le16 (c19Oob 5) 4 = typeOOB := by decide +kernel

end KcpVerif.Props
