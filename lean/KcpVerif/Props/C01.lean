import KcpVerif.Model.Kcp
/-! C01 — reliable ordered stream: the reader sees a prefix of what was written. -/
namespace KcpVerif.Props
open KcpVerif KcpVerif.Gen KcpVerif.Kcp

/-- `Recv` returns exactly the bytes `PeekSize` announced: the merge loop pops the fragments that
`peekSum` summed (up to and including the first `frg = 0`). -/
theorem C01_popMsg_length (q : List Seg) : (popMsg q).data.length = peekSum q := by
  induction q with
  | nil => rfl
  | cons s rest ih =>
    unfold popMsg peekSum
    split
    · rfl
    · simp only [List.length_append, ih]

/-- the merge loop returns the concatenation of a prefix of the queue and leaves the rest -/
theorem C01_popMsg_split (q : List Seg) :
    ∃ n, (popMsg q).data = ((q.take n).map (·.data)).flatten ∧ (popMsg q).rest = q.drop n := by
  induction q with
  | nil => exact ⟨0, rfl, rfl⟩
  | cons s rest ih =>
    unfold popMsg
    split
    · exact ⟨1, by simp, by simp⟩
    · obtain ⟨n, h1, h2⟩ := ih
      exact ⟨n + 1, by simp [h1], by simp [h2]⟩

end KcpVerif.Props
