import KcpVerif.Model.Kcp
import KcpVerif.Lemmas.C01Ops
import KcpVerif.Lemmas.C01Sys
import KcpVerif.Lemmas.KcpAcc
import KcpVerif.Lemmas.KcpFrg
/-!
C01 — reliable ordered stream: the reader sees a prefix of what was written.
Protocol-core part (`C01_core`, DESIGN.md 7.1 items 1–4) on the model `Model/Kcp.lean` of kcp.go.

Formulation.  `G : U32 → Content` is the genuine content function: the `(frg, data)` pair the peer
assigned to 32-bit sequence number `sn`.  That `G` is a function of the 32-bit number IS the range
hypothesis (item 4): no two different segments that the network may still deliver share a 32-bit
sequence number.  The adversary (`OpGenuine`) may drop, duplicate, reorder, delay and replay
datagrams, truncate them, glue them together, and forge every ACK / WASK / WINS segment and every
header field of a PUSH segment other than `(sn, frg, len, payload)`.
-/
namespace KcpVerif.Props
open KcpVerif KcpVerif.Gen KcpVerif.Kcp KcpVerif.Frame KcpVerif.Recv KcpVerif.Send KcpVerif.Wire KcpVerif.C01

/-- `Recv` returns exactly the bytes `PeekSize` announced: the merge loop pops the fragments that
`peekSum` summed (up to and including the first `frg = 0`). -/
theorem C01_popMsg_length (q : List Seg) : (popMsg q).data.length = peekSum q := by
  induction q with
  | nil => rfl
  | cons s rest ih =>
    unfold popMsg peekSum
    split
    · rfl
    · simp only [List.length_append, ih]

/-- the merge loop returns the concatenation of a prefix of the queue and leaves the rest -/
theorem C01_popMsg_split (q : List Seg) :
    ∃ n, (popMsg q).data = ((q.take n).map (·.data)).flatten ∧ (popMsg q).rest = q.drop n :=
  ⟨popCount q, popMsg_data q, popMsg_rest q⟩

/-! ## Receive side (item 3) -/

/-- **Receive-side invariant in every reachable state.**  Start from any fresh core (`Kcp.new` or any
other state with empty queues: the initial `rcv_nxt` is arbitrary), run ANY sequence of operations
with arbitrary arguments in which every `input` datagram has genuine PUSH frames.  Then there is `n`
with `rcv_nxt = sn0 + n`, `delivered ++ rcv_queue = [G sn0 … G (sn0+n-1)]`, and every buffered
segment is genuine, at or after `rcv_nxt`, the buffer strictly sorted (hence duplicate free). -/
theorem C01_recv_invariant (G : U32 → Content) (k0 : Kcp) (hf : Fresh k0) (ops : List Op)
    (hg : ∀ op ∈ ops, OpGenuine G k0.conv op) :
    ∃ n, InvR G k0.rcv_nxt (run { k := k0 } ops).k (run { k := k0 } ops).dl n := by
  obtain ⟨n, _, h⟩ := run_invRG ops { k := k0 } 0 (fresh_invRG G k0 hf) hg
  exact ⟨n, h.inv⟩

/-- **The reader sees a prefix of the genuine stream.**  In every reachable state the byte strings
returned by all successful `Recv` calls so far, concatenated, are exactly the payloads of the first
`m` genuine segments `G sn0 … G (sn0+m-1)`, where `m ≤ n` = the number of segments the core has
accepted in order: nothing lost, duplicated, reordered or altered, whatever the network did. -/
theorem C01_recv_in_order (G : U32 → Content) (k0 : Kcp) (hf : Fresh k0) (ops : List Op)
    (hg : ∀ op ∈ ops, OpGenuine G k0.conv op) :
    ∃ n m, m ≤ n ∧ (run { k := k0 } ops).k.rcv_nxt = k0.rcv_nxt + BitVec.ofNat 32 n ∧
      (run { k := k0 } ops).dl = gRange G k0.rcv_nxt m ∧
      (run { k := k0 } ops).got.flatten = bytesOf (gRange G k0.rcv_nxt m) ∧
      (run { k := k0 } ops).k.rcv_queue.map content = (gRange G k0.rcv_nxt n).drop m := by
  obtain ⟨n, _, h⟩ := run_invRG ops { k := k0 } 0 (fresh_invRG G k0 hf) hg
  have hc := h.inv.count
  have hd : (run { k := k0 } ops).dl = gRange G k0.rcv_nxt (run { k := k0 } ops).dl.length := by
    rw [← gRange_take G k0.rcv_nxt n _ (by omega), ← h.inv.pre, List.take_left]
  refine ⟨n, (run { k := k0 } ops).dl.length, by omega, h.inv.nxt, hd, ?_, ?_⟩
  · rw [h.got]; exact congrArg bytesOf hd
  · rw [← h.inv.pre, List.drop_left]

/-- **Message boundaries.**  In every reachable state whose accepted genuine prefix has a well-formed
fragment countdown (`FrgOk`: what `Send` produces — see `C01_send_frgOk`), a successful `Recv` with any
buffer length returns exactly one whole message: the payloads of the `f + 1` genuine segments
`m … m+f` following the `m` segments delivered before, where `f` is the fragment number of segment
`m`; segments `m … m+f-1` have `frg ≠ 0` and segment `m+f` is the first with `frg = 0`. -/
theorem C01_msg_boundaries (G : U32 → Content) (k0 : Kcp) (hf : Fresh k0) (ops : List Op)
    (hg : ∀ op ∈ ops, OpGenuine G k0.conv op) (buflen : Nat)
    (hok : 0 ≤ (recv (run { k := k0 } ops).k buflen).n) :
    ∃ n, (run { k := k0 } ops).k.rcv_nxt = k0.rcv_nxt + BitVec.ofNat 32 n ∧
      (FrgOk G k0.rcv_nxt n →
        ∃ j, j = (G (k0.rcv_nxt + BitVec.ofNat 32 (run { k := k0 } ops).dl.length)).1.toNat + 1 ∧
          (run { k := k0 } ops).dl.length + j ≤ n ∧
          (recv (run { k := k0 } ops).k buflen).data =
            bytesOf ((gRange G k0.rcv_nxt ((run { k := k0 } ops).dl.length + j)).drop
              (run { k := k0 } ops).dl.length) ∧
          (∀ i, i + 1 < j →
            (G (k0.rcv_nxt + BitVec.ofNat 32 ((run { k := k0 } ops).dl.length + i))).1 ≠ 0) ∧
          (G (k0.rcv_nxt + BitVec.ofNat 32 ((run { k := k0 } ops).dl.length + j - 1))).1 = 0) := by
  obtain ⟨n, _, h⟩ := run_invRG ops { k := k0 } 0 (fresh_invRG G k0 hf) hg
  refine ⟨n, h.inv.nxt, fun hfo => ?_⟩
  obtain ⟨j, _, hle, _, hj, hdata, hmap, hne, hz⟩ := recv_msg h.inv hfo buflen hok
  refine ⟨j, hj, hle, ?_, hne, hz⟩
  rw [hdata, take_map_data, hmap]

/-- **Nothing deliverable is stuck** (the receive heap's head is its minimum): in every reachable
state, right after an `input` or a successful `recv`, either the delivery queue is full
(`rcv_queue.length ≥ rcv_wnd`) or the segment `rcv_nxt` is not in `rcv_buf`. -/
theorem C01_moveReady_complete (G : U32 → Content) (k0 : Kcp) (hf : Fresh k0) (ops : List Op)
    (hg : ∀ op ∈ ops, OpGenuine G k0.conv op) :
    (run { k := k0 } ops).k.rcv_wnd.toNat ≤ (moveReady (run { k := k0 } ops).k).rcv_queue.length ∨
      ∀ s ∈ (moveReady (run { k := k0 } ops).k).rcv_buf, s.sn ≠ (moveReady (run { k := k0 } ops).k).rcv_nxt := by
  obtain ⟨n, _, h⟩ := run_invRG ops { k := k0 } 0 (fresh_invRG G k0 hf) hg
  obtain ⟨_, _, _, hr⟩ := moveReady_inv h.inv
  exact hr

/-! ### non-vacuity: a concrete reordered, duplicated delivery of a two-fragment message -/

/-- a datagram with one PUSH segment `sn`, fragment number `frg`, one payload byte -/
def C01_exDgram (sn frg : Nat) (b : UInt8) : Bytes :=
  encodeHdr 7 (BitVec.ofNat 8 IKCP_CMD_PUSH) (BitVec.ofNat 8 frg) 32 0 (BitVec.ofNat 32 sn) 0 1 ++ [b]

def C01_exG : U32 → Content := fun sn =>
  if sn = 0 then (1, [0xBB]) else if sn = 1 then (0, [0xAA]) else if sn = 2 then (0, [0xCC]) else (0, [])

/-- segment 1 arrives first, twice, glued to segment 2; then segment 0 -/
def C01_exOps : List Op :=
  [.input (C01_exDgram 1 0 0xAA ++ C01_exDgram 2 0 0xCC) true false 0, .recv 10,
   .input (C01_exDgram 1 0 0xAA) true true 5, .input (C01_exDgram 0 1 0xBB) true false 9,
   .recv 1, .recv 10, .update 100, .recv 10, .recv 10]

set_option maxRecDepth 100000 in
example : Fresh (Kcp.new 7) ∧ (∀ op ∈ C01_exOps, OpGenuine C01_exG (Kcp.new 7).conv op) ∧
    (run { k := Kcp.new 7 } C01_exOps).got = [[0xBB, 0xAA], [0xCC]] ∧
    FrgOk C01_exG 0 3 := by
  refine ⟨fresh_new 7, by decide, by decide, ?_⟩
  intro i hi
  have : i = 0 ∨ i = 1 ∨ i = 2 := by omega
  rcases this with h | h | h <;> subst h <;> decide

/-! ## Send side (items 1–2) -/

/-- **Send-side invariant in every reachable state**, for ANY sequence of operations with arbitrary
arguments (all byte strings for `input`: forged ACKs and UNAs included).  With `L` the ghost log of
the contents of the segments `admitSegs` has numbered so far: `snd_nxt = sn0 + |L|`; for some `a`,
`snd_una = sn0 + a`, `snd_buf` has `|L| − a` entries with sequence numbers `sn0+a, sn0+a+1, …`
consecutively, and every entry not yet acknowledged carries `(frg, data) = L[sn − sn0]`; queued and
buffered payloads fit a pool buffer. -/
theorem C01_send_invariant (k0 : Kcp) (hf : Fresh k0) (ops : List Op) :
    InvS k0.snd_nxt (run { k := k0 } ops).k (run { k := k0 } ops).log :=
  (run_invSG ops { k := k0 } (fresh_invSG k0 hf)).1.inv

/-- **The log only grows** (numbered segments are immutable: the stream-mode append of `Send` only
touches the last element of `snd_queue`, never a numbered segment). -/
theorem C01_log_monotone (s : GSt) (sn0 : U32) (h : InvSG sn0 s) (ops : List Op) :
    ∃ X, (run s ops).log = s.log ++ X := (run_invSG ops s h).2

/-- **Header round trip**: the field reads of the peer's `Input` loop give back exactly what
`segment.encode` wrote (the length as a `uint32`), whatever bytes follow. -/
theorem C01_hdr_roundtrip (conv : U32) (cmd frg : BitVec 8) (wnd : BitVec 16) (ts sn una : U32) (len : Nat)
    (rest : Bytes) :
    parseHdr (encodeHdr conv cmd frg wnd ts sn una len ++ rest) = ⟨conv, cmd, frg, wnd, ts, sn, una, len % 2 ^ 32⟩ :=
  hdr_roundtrip conv cmd frg wnd ts sn una len rest

/-- **Wire genuineness, byte level.**  Every datagram this endpoint has ever handed to `output` — from
`flush`, `update` or the flush inside `input` — is a concatenation of frames `encodeHdr … ++ data`
in which every PUSH frame has `(frg, data) = L[sn − sn0]` and every payload fits a pool buffer; parsed
by the peer's `Input` loop (any `conv`) it satisfies the receive side's premise `GenuineIn G` for
every content function `G` that agrees with the log — so the premise of `C01_recv_in_order` is
discharged by what the endpoint really emits. -/
theorem C01_wire_genuine (k0 : Kcp) (hf : Fresh k0) (ops : List Op) (G : U32 → Content)
    (hG : Agree G k0.snd_nxt (run { k := k0 } ops).log) (conv : U32) :
    ∀ o ∈ (run { k := k0 } ops).wire, Framed G o ∧ GenuineIn G conv o := by
  intro o ho
  have h := (run_invSG ops { k := k0 } (fresh_invSG k0 hf)).1.wire G hG o ho
  exact ⟨h, h.genuineIn conv⟩

/-- the canonical content function `G sn := L[sn − sn0]` agrees with the log while it has at most
2^32 entries (the range hypothesis of item 4 in its weakest form) -/
theorem C01_gOf_agree (sn0 : U32) (L : List Content) (h : L.length ≤ 2 ^ 32) : Agree (gOf sn0 L) sn0 L :=
  gOf_agree sn0 L h

/-! ## Composition (`C01_core`) -/

/-- **Core safety, composed.**  Two fresh cores `A` (writer) and `B` (reader) whose initial sequence
numbers match (`Kcp.new` on both sides, or any common offset — C12), any configuration on either
side, ANY interleaving of: arbitrary operations of `A` (including `input` of arbitrary bytes, e.g.
everything `B` emits, forged or not), arbitrary non-`input` operations of `B`, and deliveries to `B`
of any datagram `A` has emitted so far — any later time, any number of times, any order, or never.
Range hypothesis (explicit, decidable on the run): `A` has numbered at most 2^32 segments and `B` has
delivered at most 2^32.  Then the bytes `B`'s reader has been given, concatenated, are a prefix of
the payload bytes `A` has numbered, in order: `bytes (L.take m)` for the `m` segments delivered. -/
theorem C01_core_partial (kA kB : Kcp) (hA : Fresh kA) (hB : Fresh kB) (hsn : kB.rcv_nxt = kA.snd_nxt)
    (ops : List SOp)
    (hLa : (srun ⟨{ k := kA }, { k := kB }⟩ ops).A.log.length ≤ 2 ^ 32)
    (hLb : (srun ⟨{ k := kA }, { k := kB }⟩ ops).B.dl.length ≤ 2 ^ 32) :
    (srun ⟨{ k := kA }, { k := kB }⟩ ops).B.got.flatten =
        bytesOf ((srun ⟨{ k := kA }, { k := kB }⟩ ops).A.log.take (srun ⟨{ k := kA }, { k := kB }⟩ ops).B.dl.length) ∧
      (srun ⟨{ k := kA }, { k := kB }⟩ ops).B.got.flatten <+: bytesOf (srun ⟨{ k := kA }, { k := kB }⟩ ops).A.log := by
  have hinv := srun_inv ops _ (fresh_sysInv kA kB hA hB hsn)
  generalize srun ⟨{ k := kA }, { k := kB }⟩ ops = s at hinv hLa hLb
  obtain ⟨n, hn⟩ := hinv.rcv (gOf kA.snd_nxt s.A.log) (gOf_agree _ _ hLa)
  have hc := hn.inv.count
  have hd : s.B.dl = gRange (gOf kA.snd_nxt s.A.log) kA.snd_nxt s.B.dl.length := by
    rw [← gRange_take _ kA.snd_nxt n _ (by omega), ← hn.inv.pre, List.take_left]
  have e : s.B.got.flatten = bytesOf (s.A.log.take s.B.dl.length) := by
    rw [hn.got]
    conv => lhs; rw [hd]
    exact bytesOf_gRange_gOf _ _ _ hLb
  exact ⟨e, by rw [e]; exact bytesOf_take_prefix _ _⟩

/-- **Send-side accounting.**  In every reachable state (any operations, any arguments, stream or
message mode, `mss > 0` initially — `SetMtu` keeps it positive) the bytes `Send` has put into the
core so far (`accB`: the whole buffer on return 0, nothing on a refusal −1/−2 — see
`C01_send_refusal_takes_nothing`) are exactly the payload bytes of `L ++ snd_queue`, in order. -/
theorem C01_send_accounting (k0 : Kcp) (hf : Fresh k0) (hm : 0 < k0.mss.toNat) (ops : List Op) :
    (run { k := k0 } ops).accB =
      bytesOf ((run { k := k0 } ops).log ++ (run { k := k0 } ops).k.snd_queue.map content) :=
  (run_invAcc ops _ (fresh_invAcc k0 hf hm)).acc

/-- **`C01_core`: the reader sees a prefix of what was written** (raw cores, stream of bytes; in
message mode the same statement holds for the concatenation of the messages).  Same closed system
and hypotheses as `C01_core_partial`; `accB` are the bytes `A.Send` has taken. -/
theorem C01_core (kA kB : Kcp) (hA : Fresh kA) (hB : Fresh kB) (hsn : kB.rcv_nxt = kA.snd_nxt)
    (hm : 0 < kA.mss.toNat) (ops : List SOp)
    (hLa : (srun ⟨{ k := kA }, { k := kB }⟩ ops).A.log.length ≤ 2 ^ 32)
    (hLb : (srun ⟨{ k := kA }, { k := kB }⟩ ops).B.dl.length ≤ 2 ^ 32) :
    (srun ⟨{ k := kA }, { k := kB }⟩ ops).B.got.flatten <+: (srun ⟨{ k := kA }, { k := kB }⟩ ops).A.accB := by
  have h1 := (C01_core_partial kA kB hA hB hsn ops hLa hLb).2
  have h2 := (srun_invAcc ops ⟨{ k := kA }, { k := kB }⟩ (fresh_invAcc kA hA hm)).acc
  rw [h2, bytesOf_append]
  exact h1.trans (List.prefix_append _ _)

/-- **A refused `Send` takes nothing** (regression statement for defect F2).  Whatever the state
and the buffer, a `Send` that does not return 0 (−1: empty buffer; −2: more than 255 segments would
be needed) leaves the whole core state untouched; in particular the stream-mode append to the last
queued segment has not happened.  Before the repair the −2 refusal came *after* that append
(`Send` of more than 255·mss bytes in stream mode with a partly filled last segment kept the head of
the buffer in the queue and then reported failure). -/
theorem C01_send_refused_takes_nothing (k : Kcp) (b : Bytes) (h : (send k b).ret ≠ 0) :
    (send k b).k = k := by
  rw [send_eq] at h ⊢
  split
  · rfl
  · rename_i h0
    rw [if_neg h0] at h
    split
    · rfl
    · rename_i h1
      rw [if_neg h1] at h
      split
      · rfl
      · rename_i h2
        rw [if_neg h2] at h
        split
        · rename_i h3; rw [if_pos h3] at h; exact absurd rfl h
        · rename_i h3
          rw [if_neg h3] at h
          split
          · rename_i h4; rw [if_pos h4] at h; exact absurd rfl h
          · rename_i h4; rw [if_neg h4] at h; exact absurd rfl h

theorem C01_send_refusal_takes_nothing (k : Kcp) (b : Bytes) (h : (send k b).ret = -2) :
    (send k b).k = k :=
  C01_send_refused_takes_nothing k b (by rw [h]; decide)

set_option maxRecDepth 100000 in
/-- non-vacuity, on the input that used to witness the defect (`C01_send_refusal_takes_bytes` before
the repair): stream mode, `mss = 1`, an empty queued segment, 257 bytes — one byte would fit into
the last segment, the remaining 256 need more than 255 segments.  The call is refused, does not
panic, and the queue is what it was. -/
example :
    (send { Kcp.new 7 with stream := 1, mss := 1, snd_queue := [{ data := [] }] } (List.replicate 257 0)).ret = -2 ∧
    (send { Kcp.new 7 with stream := 1, mss := 1, snd_queue := [{ data := [] }] } (List.replicate 257 0)).panic = false ∧
    (send { Kcp.new 7 with stream := 1, mss := 1, snd_queue := [{ data := [] }] } (List.replicate 257 0)).k.snd_queue
      = [{ data := [] }] := by
  refine ⟨?_, ?_, ?_⟩
  all_goals decide

/-- **Sender's fragment countdown.**  In every reachable state (any operations, any arguments, both
modes) the fragment numbers of `L ++ snd_queue` are a concatenation of countdowns `c−1, …, 1, 0` with
`c ≤ 255` (never 255; a non-zero number is followed by its predecessor) ending on a message boundary;
hence for every content function `G` agreeing with the log and every `n ≤ |L|` the receiver's premise
`FrgOk G sn0 n` of `C01_msg_boundaries` holds. -/
theorem C01_send_frgOk (k0 : Kcp) (hf : Fresh k0) (ops : List Op) :
    CountOkF (pendFrgs (run { k := k0 } ops)) ∧
    ∀ (G : U32 → Content), Agree G k0.snd_nxt (run { k := k0 } ops).log →
      ∀ n, n ≤ (run { k := k0 } ops).log.length → FrgOk G k0.snd_nxt n := by
  have h := run_countOk ops _ (fresh_countOk k0 hf)
  exact ⟨h, fun G hG n hn => frgOk_of_log h G _ hG n hn⟩

/-- **Full message-mode statement.**  In message mode (`stream = 0` at the writer) the
messages `B`'s reader has been given are a prefix of the messages `A.Send` accepted, each with its
original boundaries.  PROVED as `C01_core_msg` in `Props/C01Msg.lean` under the range hypothesis
`A.log.length < 2^32` (strict; it implies the reader's bound: `C01_reader_behind`).  This `def` keeps
the statement with the two non-strict bounds of `C01_core`; the only case it adds is a log of exactly
2^32 entries, where the argument for "the reader never runs ahead of the writer" (two content
functions that differ just behind the log) has no room. -/
def C01_core_msg_full : Prop :=
  ∀ (kA kB : Kcp), Fresh kA → Fresh kB → kB.rcv_nxt = kA.snd_nxt → 0 < kA.mss.toNat → kA.stream = 0 →
    ∀ ops : List SOp,
      (srun ⟨{ k := kA }, { k := kB }⟩ ops).A.log.length ≤ 2 ^ 32 →
      (srun ⟨{ k := kA }, { k := kB }⟩ ops).B.dl.length ≤ 2 ^ 32 →
      (srun ⟨{ k := kA }, { k := kB }⟩ ops).B.got <+: (srun ⟨{ k := kA }, { k := kB }⟩ ops).A.accM

/-! ### non-vacuity: a concrete closed run with reordering, duplication, a retransmission -/

/-- `A` sends two messages, flushes (one datagram with both segments), the network delivers it
twice, `B` reads; `A` retransmits after its RTO, the network delivers the retransmission too -/
def C01_exSys : List SOp :=
  [.a (.noDelay 1 10 2 1), .a (.send [1, 2, 3]), .a (.send [4]), .a (.flush true 0), .dlv 1 true false 0,
   .dlv 0 true false 0, .dlv 0 true true 1, .b (.recv 100), .a (.update 300), .dlv 1 true false 301,
   .b (.recv 100), .b (.update 400)]

set_option maxRecDepth 1000000 in
example : Fresh (Kcp.new 7) ∧ (Kcp.new 7).rcv_nxt = (Kcp.new 7).snd_nxt ∧ 0 < (Kcp.new 7).mss.toNat ∧
    (srun ⟨{ k := Kcp.new 7 }, { k := Kcp.new 7 }⟩ C01_exSys).A.log = [(0, [1, 2, 3]), (0, [4])] ∧
    (srun ⟨{ k := Kcp.new 7 }, { k := Kcp.new 7 }⟩ C01_exSys).A.wire.length = 2 ∧
    (srun ⟨{ k := Kcp.new 7 }, { k := Kcp.new 7 }⟩ C01_exSys).A.accB = [1, 2, 3, 4] ∧
    (srun ⟨{ k := Kcp.new 7 }, { k := Kcp.new 7 }⟩ C01_exSys).B.got = [[1, 2, 3], [4]] ∧
    (srun ⟨{ k := Kcp.new 7 }, { k := Kcp.new 7 }⟩ C01_exSys).A.dead = false ∧
    (srun ⟨{ k := Kcp.new 7 }, { k := Kcp.new 7 }⟩ C01_exSys).B.dead = false := by
  refine ⟨fresh_new 7, by decide, by decide, by decide, by decide, by decide, by decide, by decide, by decide⟩

end KcpVerif.Props
