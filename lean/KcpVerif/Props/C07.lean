/-
C07 — FEC reconstructs exactly the missing packets from any k of n (DESIGN 7.7).

Objects: `Model/Fec` (fec.go `fecEncoder.encode`, `fecDecoder.decode`, and the size check of
`kcpInput`, `trim`), specification vocabulary `Lemmas/FecSpec` (`Group`, `Group.packet`,
`Lawful`), lemmas `Lemmas/FecEnc`, `Lemmas/FecDec`, `Lemmas/RS`.

What the theorems are about.  They hold for the model instantiated with ANY codec constructor
`C : CodecNew` (Go: `reedsolomon.New`) that satisfies the list-level MDS law `Lawful C`
("`Encode` returns p shards of the common length; `ReconstructData` returns the d data shards
from any ≥ d shards of a codeword").  `C07_rs_mds` proves (Mathlib) that the construction
klauspost/reedsolomon uses — the systematic Vandermonde matrix `V·(V_top)⁻¹`, any field, injective
nodes — has exactly this property in matrix form (any d symbols determine the data; the decoding
procedure "invert the selected rows, multiply" returns it).  The executable GF(2^8) instance
`Fec.rsNew` that the correspondence driver runs IS proved lawful in `Props/C07Field`
(`C07_rsNew_lawful : C07_rsNew_lawful_full`; GF(2^8) with polynomial 0x11D is a field, the list
Gauss–Jordan is correct, `buildMatrix` is the systematic Vandermonde matrix), where the decoder
theorems are restated for `rsNew` without any hypothesis about the code (`C07_*_rsNew`).
`C07_rsNew_law_instances` below additionally EVALUATES the law on small instances in the kernel.
`Lawful` is restricted to the ratios the FEC layer accepts (`1 ≤ d`, `1 ≤ p`, `d + p ≤ 256`).

Proved at full strength (for all d, p ≥ 1, d + p ≤ 256, all payload sizes the session produces):
* `C07_enc_group`            the encoder emits exactly `Group.packet`s: `seq | F1 | size | payload`, and (when parity is
                              generated) `seq | F2 | enc(bodies zero-padded to the longest)`, ids `base … base+n−1`.
* `C07_dec_any_k`            the decode call that brings the d-th distinct packet of a group — any d of the n packets, data
                              or parity, any order — returns exactly the zero-padded bodies of the data packets not among
                              them, in index order; `trim` maps each to the original payload with its exact length.
* `C07_dec_earlier_nothing`  before that, and for duplicates, `decode` returns `[]`.
* `C07_dec_sound`            whatever a decoder returns at any time under ANY arrival pattern of genuine packets of its
                              ratio (any groups, any order, duplicates, re-fills after a recovery, late arrivals, discards,
                              the wrap) is the padded body of an original data packet of a group of which a packet was fed,
                              and `trim` of it is that packet's payload.
* `C07_fresh_decoder_anywhere` a fresh decoder recovers a group at ANY position of the id space, incl. ids ≥ 2^31 (regression
                              theorem for finding D13, repaired).
* `C07_wrap_groups`          `paws` is a multiple of n; the encoder keeps `next < paws` and `next % n` = shard index; a group
                              never straddles the wrap; after a group `next` is the next group start (0 exactly at `paws`),
                              with parity generated or skipped alike; the step across the wrap is seen by the age comparison
                              as a gap in (0, 2n], inside the discard horizon 3n.
* `C07_parity_loss_harmless` with parity skipped the encoder emits none and the ids advance identically; a shard set that
                              holds data packets only never makes `decode` return anything (data packets reach KCP directly
                              in `kcpInput`, before and regardless of `decode`).
Completeness over whole histories ("if d packets of a group arrive while the group is within the horizon, the d-th call
is in the situation of `C07_dec_any_k`", the link between `Lemmas/FecDec.decode_preserves` and the discard horizon) is
proved in `Props/C07Hist` (`C07_hist_any_k`, `C07_hist_tracks`, `C07_hist_once`, `C07_hist_window`).
-/
import KcpVerif.Lemmas.FecEnc
import KcpVerif.Lemmas.FecDec
import KcpVerif.Lemmas.RS

namespace KcpVerif.Props
open KcpVerif.Gen KcpVerif.Fec KcpVerif.AutoTune KcpVerif.Lemmas.FecSpec
open KcpVerif.Lemmas

/-! ## the code -/

/-- The systematic Vandermonde construction of klauspost's `buildMatrix` is an MDS code over any
    field: (1) the first d symbols of a codeword are the data, (2) any d symbols at distinct
    positions determine the data, (3) inverting the selected rows and multiplying — what
    `ReconstructData` does — returns the data. -/
theorem C07_rs_mds {F : Type*} [Field F] {d n : ℕ} (h : d ≤ n) {x : Fin n → F}
    (hx : Function.Injective x) (v : Fin d → F) :
    (∀ i : Fin d, (Matrix.mulVec (RS.sysMatrix h x) v) (Fin.castLE h i) = v i) ∧
    (∀ (s : Fin d → Fin n), Function.Injective s → ∀ w : Fin d → F,
      (∀ i, (Matrix.mulVec (RS.sysMatrix h x) v) (s i) = (Matrix.mulVec (RS.sysMatrix h x) w) (s i)) → v = w) ∧
    (∀ (s : Fin d → Fin n), Function.Injective s →
      Matrix.mulVec ((RS.sysMatrix h x).submatrix s id)⁻¹
        (fun i => (Matrix.mulVec (RS.sysMatrix h x) v) (s i)) = v) :=
  ⟨fun i => RS.encode_systematic h hx v i,
   fun s hs w heq => RS.data_determined h hx s hs v w heq,
   fun s hs => RS.decode_encode h hx s hs v⟩

/-- the statement that closes the gap between the abstract code and the executable one: the
    executable GF(2^8) instance satisfies the law.  PROVED as `C07_rsNew_lawful` in `Props/C07Field`
    (it needs GF(2^8) to be a field and the list-level Gauss–Jordan to be correct; Mathlib). -/
def C07_rsNew_lawful_full : Prop := Lawful rsNew

/-- the MDS law evaluated on the executable GF(2^8) code: for the ratios 1/1 … 3/3 and a fixed data
    vector, every one of the 2^n presence patterns with at least d shards reconstructs the data -/
theorem C07_rsNew_law_instances :
    ∀ d ∈ [1, 2, 3], ∀ p ∈ [1, 2, 3],
      let data := (List.range d).map fun i => [UInt8.ofNat (17 * i + 3), UInt8.ofNat (200 - i), 0, 255]
      ((rsNew d p).enc data).length = p ∧
      ∀ m ∈ List.range (2 ^ (d + p)),
        let present := (List.range (d + p)).map fun i => m.testBit i
        d ≤ present.count true →
          (rsNew d p).recon (mask present (data ++ (rsNew d p).enc data)) = some data := by
  decide +kernel

/-! ## encoder -/

/-- `enc_group`: feeding the `d` datagrams of a group (payloads `G.payloads`, each buffer with
    `payloadOffset + 2` bytes of room in front) to an encoder standing at the group start `G.base`
    yields, call by call, the data packet `prefix ++ G.packet C i` (= `seq | F1 | le16 (len+2) |
    payload`) and, at the last call when the time test holds, the `p` parity packets
    `zeros ++ G.packet C (d+k)` (= `seq | F2 | k-th parity of the bodies zero-padded to the longest`);
    no parity when the time test fails; in both cases the encoder ends at the next group start. -/
theorem C07_enc_group {C : CodecNew} (hC : Lawful C) {G : Group} (hG : G.WF) {e : Encoder}
    (h : FecEnc.EncInv C e) (hd : e.d = G.d) (hp : e.p = G.p) (hs : e.shardCount = 0)
    (hn : e.next = G.base) {bs : List Bytes}
    (hpl : bs.map (List.drop (e.payloadOffset + 2)) = G.payloads)
    (hlen : ∀ b ∈ bs, e.payloadOffset + 2 ≤ b.length ∧ b.length ≤ mtuLimit) (cont : Bool) :
    (FecEnc.encodeMany e bs cont).1 = { e with next := advance G.base G.n e.paws } ∧
    (FecEnc.encodeMany e bs cont).2.length = G.d ∧
    ∀ i, i < G.d → (FecEnc.encodeMany e bs cont).2[i]? = some
      ((bs.getD i []).take e.headerOffset ++ G.packet C i,
       if i + 1 = G.d ∧ cont = true then
         (List.range G.p).map (fun k => List.replicate e.headerOffset 0 ++ G.packet C (G.d + k))
       else []) :=
  FecEnc.enc_group hC hG h hd hp hs hn hpl hlen cont

/-- the invariant used above holds for every encoder the constructor returns and is kept by every
    non-panicking `encode` (so `C07_enc_group` applies to every group of a session) -/
theorem C07_enc_invariant {C : CodecNew} :
    (∀ {d p off : Nat} {e : Encoder}, Encoder.new C d p off = some e → FecEnc.EncInv C e) ∧
    (∀ {e : Encoder} {b : Bytes} {cont : Bool}, FecEnc.EncInv C e → (e.encode b cont).panic = false →
      FecEnc.EncInv C (e.encode b cont).st) :=
  ⟨fun h => FecEnc.inv_new h, fun h hp => FecEnc.inv_encode h hp⟩

/-! ## wrap -/

/-- `wrap_groups`. -/
theorem C07_wrap_groups {C : CodecNew} :
    -- the wrap value is a multiple of the group size, just below 2^32
    (∀ n, 0 < n → n ≤ 256 → (pawsOf n).toNat % n = 0 ∧ (pawsOf n).toNat < 2 ^ 32 ∧
        2 ^ 32 - (pawsOf n).toNat ≤ n) ∧
    -- encoder: ids stay below paws, the id's residue IS the shard index, a group never straddles
    (∀ e : Encoder, FecEnc.EncInv C e →
        e.next.toNat < e.paws.toNat ∧ e.next.toNat % e.n = e.shardCount ∧
        e.next.toNat - e.shardCount + e.n ≤ e.paws.toNat) ∧
    -- after a group: the next group start, 0 exactly at paws
    (∀ G : Group, G.WF →
        (advance G.base G.n (pawsOf G.n)).toNat
          = (if G.base.toNat + G.n = (pawsOf G.n).toNat then 0 else G.base.toNat + G.n) ∧
        (advance G.base G.n (pawsOf G.n)).toNat % G.n = 0) ∧
    -- decoder: the step from the last group before the wrap to group 0 is a small positive age,
    -- inside the discard horizon, and that group's shard set survives `discardShards`
    (∀ n, 0 < n → n ≤ 256 →
        0 < itimediff 0 (pawsOf n - u32 n) ∧ itimediff 0 (pawsOf n - u32 n) ≤ 2 * n ∧
        itimediff 0 (pawsOf n - u32 n) ≤ ((maxShardSets * n : Nat) : Int) ∧
        ∀ pk, (discard n 0 [{ id := (pawsOf n - u32 n) / u32 n, pkts := pk }]).length = 1) :=
  ⟨fun n hn _ => ⟨FecEnc.paws_multiple n, FecEnc.paws_lt hn, FecEnc.paws_gap hn⟩,
   fun _ h => ⟨h.next_lt, h.pos, FecEnc.group_below_paws h⟩,
   fun _ hG => ⟨(FecEnc.group_next hG).2.1, (FecEnc.group_next hG).2.2⟩,
   fun _ hn hn' => ⟨(FecEnc.wrap_gap hn hn').1, (FecEnc.wrap_gap hn hn').2,
      FecEnc.wrap_within_horizon hn hn', fun pk => FecEnc.wrap_not_discarded hn hn' pk⟩⟩

/-! ## decoder -/

/-- `dec_any_k`: a decoder of the sender's ratio whose shard set for the group holds the packets
    with indices `got` (`d − 1` distinct ones, data or parity, in any order) receives packet `j`,
    a further one.  It returns exactly the zero-padded bodies of the data packets that are not among
    the `d` received, in index order (nothing when all data packets are there), and `trim` — the
    size check of `kcpInput` — turns each into the original payload with its exact length. -/
theorem C07_dec_any_k {C : CodecNew} (hC : Lawful C) {G : Group} (hG : G.WF) (dec : Decoder)
    (hM : FecDec.Matches C G dec) (got : List Nat) (hnd : got.Pairwise (· ≠ ·))
    (hb : ∀ i ∈ got, i < G.n)
    (hset : FecDec.held (G.base / u32 G.n) dec = got.map (G.packet C))
    (hlen : got.length + 1 = G.d) (j : Nat) (hj : j < G.n) (hnot : j ∉ got) :
    (dec.decode C (G.packet C j)).recovered
      = (List.range G.d).filterMap
          (fun k => if k ∈ got ++ [j] then none else some (pad G.maxLen (G.bodies.getD k []))) ∧
    (dec.decode C (G.packet C j)).recovered.map trim
      = (List.range G.d).filterMap
          (fun k => if k ∈ got ++ [j] then none else some (some (G.payloads.getD k []))) ∧
    (dec.decode C (G.packet C j)).panic = false := by
  obtain ⟨h1, h2⟩ := FecDec.decode_completes hC hG dec hM got hnd hb hset hlen j hj hnot
  refine ⟨h1, ?_, h2⟩
  have hl : (got ++ [j]).length = G.d := by simp only [List.length_append, List.length_cons, List.length_nil]; omega
  have hr := FecDec.recover_genuine hC hG dec hM.d hM.n hM.codec (got ++ [j])
    (FecDec.pairwise_snoc got hnd j hnot) (FecDec.bounded_snoc got hb j hj) hl
  have ht := FecDec.recover_genuine_trim hC hG dec hM.d hM.n hM.codec (got ++ [j])
    (FecDec.pairwise_snoc got hnd j hnot) (FecDec.bounded_snoc got hb j hj) hl
  rw [h1, ← hr]
  exact ht

/-- earlier calls (fewer than `d` distinct packets so far) and duplicates return nothing -/
theorem C07_dec_earlier_nothing {C : CodecNew} {G : Group} (hG : G.WF) (dec : Decoder)
    (hM : FecDec.Matches C G dec) (got : List Nat) (hb : ∀ i ∈ got, i < G.n)
    (hset : FecDec.held (G.base / u32 G.n) dec = got.map (G.packet C)) (j : Nat) (hj : j < G.n) :
    (j ∉ got → got.length + 1 < G.d → (dec.decode C (G.packet C j)).recovered = []) ∧
    (j ∈ got → (dec.decode C (G.packet C j)).recovered = [] ∧
                (dec.decode C (G.packet C j)).st.sets = dec.sets) :=
  ⟨fun hnot hlen => FecDec.decode_incomplete_recovered hG dec hM got hb hset hlen j hj hnot,
   fun hmem => ⟨(FecDec.decode_duplicate hG dec hM got hb hset j hj hmem).1,
                (FecDec.decode_duplicate hG dec hM got hb hset j hj hmem).2.2.2⟩⟩

/-- `dec_sound`: a fresh `d/p` decoder is fed ANY list of genuine packets of `d/p` groups (the
    family `grp` assigns to each shard id the group that lives there — so groups before and after
    the wrap are different entries): any order, any duplicates, any interleaving, late arrivals
    after a recovery, any losses.  Every shard it ever returns is the zero-padded body of an original
    data packet of a group of which some packet was fed, and `trim` of it is exactly that packet's
    payload.  Nothing else is ever emitted. -/
theorem C07_dec_sound {C : CodecNew} (hC : Lawful C) (grp : FecDec.Family) (d p : Nat) (dec : Decoder)
    (hnew : Decoder.new C d p = some dec) (pkts : List Bytes)
    (hgen : ∀ q ∈ pkts, FecDec.GenuinePkt C grp d p q) :
    ∀ r ∈ (FecDec.feed C dec pkts).2,
      ∃ G : Group, grp (G.base / u32 G.n) = some G ∧ G.WF ∧ G.d = d ∧ G.p = p ∧
        (∃ j, j < G.n ∧ G.packet C j ∈ pkts) ∧
        ∃ k, k < G.d ∧ r = pad G.maxLen (G.bodies.getD k []) ∧ trim r = some (G.payloads.getD k []) :=
  (FecDec.dec_sound_new hC grp d p dec hnew pkts hgen).2.2

/-- `fresh_decoder_anywhere` (regression theorem for finding D13): a FRESH decoder recovers a group at
    ANY position of the id space — no hypothesis on `G.base` beyond well-formedness, in particular
    ids ≥ 2^31 where the signed age comparison with the initial `newestShardId = 0` is negative.
    Any `d` distinct packets of the group, fed in any order to `Decoder.new`, return exactly the
    zero-padded bodies of the data packets not among them, and `trim` gives their payloads.
    (Before the repair "the discard horizon starts at the first packet when no shard set exists" the
    model, like the code, discarded every shard set at once for such ids and returned nothing.) -/
theorem C07_fresh_decoder_anywhere {C : CodecNew} (hC : Lawful C) {G : Group} (hG : G.WF) (dec : Decoder)
    (hnew : Decoder.new C G.d G.p = some dec) (idxs : List Nat) (hnd : idxs.Pairwise (· ≠ ·))
    (hb : ∀ i ∈ idxs, i < G.n) (hlen : idxs.length = G.d) :
    (FecDec.feed C dec (idxs.map (G.packet C))).2
      = (List.range G.d).filterMap
          (fun k => if k ∈ idxs then none else some (pad G.maxLen (G.bodies.getD k []))) ∧
    ((FecDec.feed C dec (idxs.map (G.packet C))).2).map trim
      = (List.range G.d).filterMap
          (fun k => if k ∈ idxs then none else some (some (G.payloads.getD k []))) :=
  ⟨FecDec.fresh_decoder_anywhere hC hG dec hnew idxs hnd hb hlen,
   FecDec.fresh_decoder_anywhere_trim hC hG dec hnew idxs hnd hb hlen⟩

-- non-vacuity: a well-formed 2/1 group at id 3000000000 ≥ 2^31
example : FecDec.Example.exHigh.WF ∧ 2 ^ 31 ≤ FecDec.Example.exHigh.base.toNat :=
  ⟨FecDec.Example.exHigh_wf, by decide⟩

/-! ## parity loss -/

/-- `parity_loss_harmless`: (1) when the time test fails at the end of a group the encoder emits no
    parity and its state is the same as if it had (ids advance identically, `skipParity`);
    (2) a decode call whose shard set holds data packets only — all parity lost or skipped — returns
    nothing, in any decoder state; data packets themselves reach KCP in `kcpInput` before and
    regardless of `decode`, so delivery is that of the configuration without FEC. -/
theorem C07_parity_loss_harmless {C : CodecNew} :
    (∀ (e : Encoder) (b : Bytes), FecEnc.EncInv C e → e.payloadOffset + 2 ≤ b.length →
        b.length ≤ mtuLimit → e.shardCount + 1 = e.d →
        (e.encode b false).parity = [] ∧ (e.encode b false).st = (e.encode b true).st) ∧
    (∀ (dec : Decoder) (inp : Bytes),
        (∀ q ∈ ((lookup (seqid inp / u32 dec.n) dec.sets).getD
            { id := seqid inp / u32 dec.n, pkts := [] }).pkts, flag q = typeData) →
        flag inp = typeData →
        ((lookup (seqid inp / u32 dec.n) dec.sets).getD
            { id := seqid inp / u32 dec.n, pkts := [] }).pkts.length < dec.d →
        (dec.decode C inp).recovered = []) :=
  ⟨fun _ _ h h1 h2 hl =>
      ⟨(FecEnc.encode_last_skip h1 h2 hl).1,
       (FecEnc.encode_last_st (cont := false) h h1 h2 hl).trans
         (FecEnc.encode_last_st (cont := true) h h1 h2 hl).symm⟩,
   fun dec inp hset hinp hcnt => FecEnc.decode_all_data C dec inp hset hinp hcnt⟩

/-! ## non-vacuity -/

-- a well-formed group (d = 2, p = 1, payloads of different sizes) and, for any lawful code, the
-- decode call that completes it from the parity packet and one data packet
example : FecDec.Example.exG.WF := FecDec.Example.exG_wf

example {C : CodecNew} (hC : Lawful C) (dec : Decoder) (hM : FecDec.Matches C FecDec.Example.exG dec)
    (hset : FecDec.held (FecDec.Example.exG.base / u32 FecDec.Example.exG.n) dec
              = [2].map (FecDec.Example.exG.packet C)) :
    (dec.decode C (FecDec.Example.exG.packet C 0)).recovered.map trim = [some [4]] := by
  have h := (C07_dec_any_k hC FecDec.Example.exG_wf dec hM [2] (by simp) (by decide) hset (by decide) 0
    (by decide) (by decide)).2.1
  rw [h]; decide

-- the decoder constructor yields a decoder that matches the group's ratio
example {C : CodecNew} : ∃ dec, Decoder.new C 2 1 = some dec := ⟨_, rfl⟩

end KcpVerif.Props
