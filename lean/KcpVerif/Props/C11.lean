import KcpVerif.Model.SessIn
import KcpVerif.Lemmas.SessIn
/-!
C11 — sessions on one socket are isolated; one Accept per new peer.

Theorems about `Model/SessIn.listenerInput` (= `Listener.packetInput`), `accept`, `userClose` and
`Dial.filter`.  The core, the FEC decoder and the reader behind `kcpInput` are a type parameter `σ`:
"unchanged" below is equality of the entire session object, for ANY core.  Session objects live in
`Listener.objs` (index = creation index = identity); the table and the accept queue hold indices.

What the code really does, and where that needs saying precisely (see notes/C11.md):
* `s.Close()` of the old session happens BEFORE the backlog test: a reset frame (other conversation
  id, sn = 0, or any OOB frame with another id) that finds the accept queue full closes and unmaps
  the old session and creates nothing (`C11_reset_backlog_full`).  It is the same address, so the
  "never closes it" clause — which is about *other* addresses — is not affected (`C11_frame`).
* when no session is mapped at an address, ANY frame with a readable conversation id is a
  conversation start, whatever its sn (`C11_start_unmapped`): a stale datagram of a conversation
  whose session was closed is a start again.
-/
namespace KcpVerif.Props
open KcpVerif KcpVerif.Gen KcpVerif.SessIn

variable {σ : Type}

/-! ### frame: other addresses are untouched -/

theorem C11_closeSess_objs (w : World σ) (l : Listener σ) (id j : Nat) (hj : j ≠ id) :
    (closeSess w l id).objs[j]? = l.objs[j]? := by
  unfold closeSess
  split
  · rfl
  · split
    · rfl
    · simp only [getElem?_modifyAt, hj, if_false]

theorem C11_tryCreate_objs (w : World σ) (l : Listener σ) (p : Bytes) (a : String) (h : Hdr) (old : Option Nat)
    (j : Nat) (hj : j < l.objs.length) : (tryCreate w l p a h old).l.objs[j]? = l.objs[j]? := by
  unfold tryCreate
  split
  · rfl
  · split
    · rfl
    · simp only []
      exact List.getElem?_append_left hj

theorem C11_closeSess_length (w : World σ) (l : Listener σ) (id : Nat) :
    (closeSess w l id).objs.length = l.objs.length := by
  unfold closeSess
  split
  · rfl
  · split
    · rfl
    · simp only [modifyAt_length]

/-- **frame, objects**: a datagram from address `a` changes no session object other than the one
mapped at `a` — whatever the datagram, the cipher, the core; in particular no other session is
closed, fed, or has its FEC/reader state touched.  (Objects created by the step are appended.) -/
theorem C11_frame_objects (w : World σ) (c : Cipher) (l : Listener σ) (data : Bytes) (a : String)
    (j : Nat) (hj : j < l.objs.length) (hne : lookup l.table a ≠ some j) :
    (listenerInput w c l data a).l.objs[j]? = l.objs[j]? := by
  unfold listenerInput
  split
  · rfl
  · rfl
  · split
    · rfl
    · split
      · rfl
      · split
        · exact C11_tryCreate_objs w l _ a _ none j hj
        · rename_i id hl
          have hji : j ≠ id := fun e => hne (by rw [hl, e])
          split
          · rfl
          · split
            · simp only [getElem?_modifyAt, hji, if_false]
            · split
              · rfl
              · rw [C11_tryCreate_objs w _ _ a _ _ j (by rw [C11_closeSess_length]; exact hj)]
                exact C11_closeSess_objs w l id j hji

theorem C11_closeSess_lookup (w : World σ) (l : Listener σ) (id : Nat) (a b : String) (hwf : WF l)
    (hl : lookup l.table a = some id) (hb : b ≠ a) :
    lookup (closeSess w l id).table b = lookup l.table b := by
  obtain ⟨o, ho, hoa, hoc⟩ := hwf a id hl
  unfold closeSess
  rw [ho]
  simp only [hoc, Bool.false_eq_true, if_false, lookup_unmap, hoa, hb]

theorem C11_tryCreate_lookup (w : World σ) (l : Listener σ) (p : Bytes) (a b : String) (h : Hdr) (old : Option Nat)
    (hb : b ≠ a) : lookup (tryCreate w l p a h old).l.table b = lookup l.table b := by
  unfold tryCreate
  split
  · rfl
  · split
    · rfl
    · have : ¬ a = b := fun e => hb e.symm
      simp only [lookup, this, if_false, lookup_unmap, hb]

/-- **frame, table**: the mapping of every other address is unchanged (no creation, no removal,
no replacement at `b ≠ a`). -/
theorem C11_frame_table (w : World σ) (c : Cipher) (l : Listener σ) (data : Bytes) (a b : String)
    (hwf : WF l) (hb : b ≠ a) :
    lookup (listenerInput w c l data a).l.table b = lookup l.table b := by
  unfold listenerInput
  split
  · rfl
  · rfl
  · split
    · rfl
    · split
      · rfl
      · split
        · exact C11_tryCreate_lookup w l _ a b _ none hb
        · rename_i id hl
          split
          · rfl
          · split
            · rfl
            · split
              · rfl
              · rw [C11_tryCreate_lookup w _ _ a b _ _ hb]
                exact C11_closeSess_lookup w l id a b hwf hl hb

/-- **frame**: a datagram from `a` leaves the session at every `b ≠ a` mapped, identical (entire
state) and open. -/
theorem C11_frame (w : World σ) (c : Cipher) (l : Listener σ) (data : Bytes) (a b : String)
    (hwf : WF l) (hb : b ≠ a) (id : Nat) (o : Sess σ)
    (hl : lookup l.table b = some id) (ho : l.objs[id]? = some o) :
    lookup (listenerInput w c l data a).l.table b = some id ∧
    (listenerInput w c l data a).l.objs[id]? = some o := by
  refine ⟨by rw [C11_frame_table w c l data a b hwf hb, hl], ?_⟩
  have hlt : id < l.objs.length := by
    rcases Nat.lt_or_ge id l.objs.length with h | h
    · exact h
    · rw [List.getElem?_eq_none h] at ho; cases ho
  rw [C11_frame_objects w c l data a id hlt, ho]
  intro ha
  exact hb (WF_inj hwf hl ha)

/-- the invariant used above holds initially and is preserved by every operation -/
theorem C11_wf_invariant (w : World σ) :
    WF (Listener.empty : Listener σ) ∧
    (∀ c l data a, WF l → WF (listenerInput w c l data a).l) ∧
    (∀ l : Listener σ, WF l → WF (accept l).l) ∧
    (∀ l id, WF l → WF (userClose w l id)) :=
  ⟨WF_empty, fun c l data a h => WF_listenerInput w c l data a h, fun l h => WF_accept l h,
   fun l id h => WF_userClose w l id h⟩

/-! ### route or ignore: same address, other conversation -/

/-- what happens after the gate, as a function of the parsed header (unfolding lemma) -/
theorem C11_after_gate (w : World σ) (c : Cipher) (l : Listener σ) (data p : Bytes) (a : String) (h : Hdr)
    (hg : cryptGate c data = .ok p) (hm : minPacket ≤ p.length) (hp : parseHdr p = some h) :
    listenerInput w c l data a =
      match lookup l.table a with
      | none => tryCreate w l p a h none
      | some id =>
        match l.objs[id]? with
        | none => { l := l, dec := .drop .noConv }
        | some o =>
          if !h.hasConv || h.conv = o.conv then
            { l := { l with objs := modifyAt l.objs id (fun o => { o with st := w.kcpInput o.st p }) },
              dec := .route a id }
          else if h.sn ≠ 0 then { l := l, dec := .drop .convMismatch }
          else tryCreate w (closeSess w l id) p a h (some id) := by
  unfold listenerInput
  rw [hg]
  have : ¬ p.length < minPacket := by omega
  simp only [this, if_false, hp]
  rfl

theorem C11_tryCreate_room (w : World σ) (l : Listener σ) (p : Bytes) (a : String) (h : Hdr) (old : Option Nat)
    (hc : h.hasConv = true) (hroom : l.accepts.length < acceptBacklog) :
    tryCreate w l p a h old =
      { l := { objs := l.objs ++ [{ conv := h.conv, addr := a, st := w.kcpInput (w.init h.conv) p, closed := false }],
               table := (a, l.objs.length) :: unmap l.table a,
               accepts := l.accepts ++ [l.objs.length] },
        dec := .create a h.conv old l.objs.length } := by
  have hroom' : ¬ l.accepts.length ≥ acceptBacklog := by omega
  unfold tryCreate
  rw [if_neg (by simp [hc]), if_neg hroom']

theorem C11_tryCreate_full (w : World σ) (l : Listener σ) (p : Bytes) (a : String) (h : Hdr) (old : Option Nat)
    (hc : h.hasConv = true) (hfull : l.accepts.length ≥ acceptBacklog) :
    tryCreate w l p a h old =
      { l := l, dec := match old with
                       | none => .drop .backlogFull
                       | some o => .closedOnly a o } := by
  unfold tryCreate
  rw [if_neg (by simp [hc]), if_pos hfull]
  rfl

theorem C11_tryCreate_noconv (w : World σ) (l : Listener σ) (p : Bytes) (a : String) (h : Hdr) (old : Option Nat)
    (hc : h.hasConv = false) : tryCreate w l p a h old = { l := l, dec := .drop .noConv } := by
  unfold tryCreate
  rw [if_pos (by simp [hc])]

theorem C11_closeSess_open (w : World σ) (l : Listener σ) (id : Nat) (o : Sess σ)
    (ho : l.objs[id]? = some o) (hoc : o.closed = false) :
    closeSess w l id =
      { l with objs := modifyAt l.objs id (fun o => { o with st := w.closeFx o.st, closed := true }),
               table := unmap l.table o.addr } := by
  unfold closeSess
  rw [ho]
  simp only [hoc, Bool.false_eq_true, if_false]

/-- existing session, readable other conversation id -/
theorem C11_after_gate_mismatch (w : World σ) (c : Cipher) (l : Listener σ) (data p : Bytes) (a : String) (h : Hdr)
    (id : Nat) (o : Sess σ)
    (hg : cryptGate c data = .ok p) (hm : minPacket ≤ p.length) (hp : parseHdr p = some h)
    (hl : lookup l.table a = some id) (ho : l.objs[id]? = some o)
    (hc : h.hasConv = true) (hne : h.conv ≠ o.conv) :
    listenerInput w c l data a =
      if h.sn ≠ 0 then { l := l, dec := .drop .convMismatch }
      else tryCreate w (closeSess w l id) p a h (some id) := by
  rw [C11_after_gate w c l data p a h hg hm hp, hl]
  simp only [ho]
  rw [if_neg (by simp [hc, hne])]

/-- **same conversation (or no readable id)**: routed to the existing session and nothing else. -/
theorem C11_route_same_conv (w : World σ) (c : Cipher) (l : Listener σ) (data p : Bytes) (a : String) (h : Hdr)
    (id : Nat) (o : Sess σ)
    (hg : cryptGate c data = .ok p) (hm : minPacket ≤ p.length) (hp : parseHdr p = some h)
    (hl : lookup l.table a = some id) (ho : l.objs[id]? = some o)
    (hc : h.hasConv = false ∨ h.conv = o.conv) :
    (listenerInput w c l data a).dec = .route a id ∧
    (listenerInput w c l data a).l.table = l.table ∧
    (listenerInput w c l data a).l.accepts = l.accepts ∧
    (listenerInput w c l data a).l.objs[id]? = some { o with st := w.kcpInput o.st p } := by
  rw [C11_after_gate w c l data p a h hg hm hp, hl]
  simp only [ho]
  have : (!h.hasConv || decide (h.conv = o.conv)) = true := by
    cases hc with
    | inl h1 => simp [h1]
    | inr h2 => simp [h2]
  simp only [this, if_true, getElem?_modifyAt, ho, Option.map_some, and_self]

/-- **other conversation, sn ≠ 0**: ignored — the listener state is unchanged. -/
theorem C11_other_conv_ignored (w : World σ) (c : Cipher) (l : Listener σ) (data p : Bytes) (a : String) (h : Hdr)
    (id : Nat) (o : Sess σ)
    (hg : cryptGate c data = .ok p) (hm : minPacket ≤ p.length) (hp : parseHdr p = some h)
    (hl : lookup l.table a = some id) (ho : l.objs[id]? = some o)
    (hc : h.hasConv = true) (hne : h.conv ≠ o.conv) (hsn : h.sn ≠ 0) :
    (listenerInput w c l data a).l = l ∧ (listenerInput w c l data a).dec = .drop .convMismatch := by
  rw [C11_after_gate_mismatch w c l data p a h id o hg hm hp hl ho hc hne, if_pos hsn]
  exact ⟨rfl, rfl⟩

/-- **other conversation, sn = 0 (or an OOB frame), room in the backlog**: the old session is
closed (never fed: its state is `closeFx` of what it was) and unmapped, a FRESH session
(`init conv`, then this one datagram) is created, mapped at `a` and appended to the accept queue. -/
theorem C11_reset_replaces (w : World σ) (c : Cipher) (l : Listener σ) (data p : Bytes) (a : String) (h : Hdr)
    (id : Nat) (o : Sess σ) (hwf : WF l)
    (hg : cryptGate c data = .ok p) (hm : minPacket ≤ p.length) (hp : parseHdr p = some h)
    (hl : lookup l.table a = some id) (ho : l.objs[id]? = some o)
    (hc : h.hasConv = true) (hne : h.conv ≠ o.conv) (hsn : h.sn = 0)
    (hroom : l.accepts.length < acceptBacklog) :
    (listenerInput w c l data a).dec = .create a h.conv (some id) l.objs.length ∧
    (listenerInput w c l data a).l.objs[id]? = some { o with st := w.closeFx o.st, closed := true } ∧
    (listenerInput w c l data a).l.objs[l.objs.length]? =
      some { conv := h.conv, addr := a, st := w.kcpInput (w.init h.conv) p, closed := false } ∧
    lookup (listenerInput w c l data a).l.table a = some l.objs.length ∧
    (listenerInput w c l data a).l.accepts = l.accepts ++ [l.objs.length] := by
  obtain ⟨o', ho', hoa, hoc⟩ := hwf a id hl
  rw [ho] at ho'; cases ho'
  have hlt : id < l.objs.length := by
    rcases Nat.lt_or_ge id l.objs.length with h | h
    · exact h
    · rw [List.getElem?_eq_none h] at ho; cases ho
  have hsn' : ¬ h.sn ≠ 0 := fun x => x hsn
  rw [C11_after_gate_mismatch w c l data p a h id o hg hm hp hl ho hc hne, if_neg hsn',
    C11_closeSess_open w l id o ho hoc,
    C11_tryCreate_room w { l with objs := modifyAt l.objs id (fun o => { o with st := w.closeFx o.st, closed := true }),
                                  table := unmap l.table o.addr } p a h (some id) hc hroom]
  simp only [modifyAt_length, lookup, if_true, true_and]
  refine ⟨?_, ?_⟩
  · rw [List.getElem?_append_left (by rw [modifyAt_length]; exact hlt)]
    simp [getElem?_modifyAt, ho]
  · have : (modifyAt l.objs id fun o => { o with st := w.closeFx o.st, closed := true }).length ≤ l.objs.length := by
      rw [modifyAt_length]; exact Nat.le_refl _
    rw [List.getElem?_append_right this]
    simp [modifyAt_length]

/-- **other conversation, sn = 0, backlog FULL**: the code closes the old session before it looks at
the backlog — the old session is closed and unmapped and nothing is created.  (Same address; the
peer's retransmission finds no session mapped and is a conversation start as soon as there is room.) -/
theorem C11_reset_backlog_full (w : World σ) (c : Cipher) (l : Listener σ) (data p : Bytes) (a : String) (h : Hdr)
    (id : Nat) (o : Sess σ) (hwf : WF l)
    (hg : cryptGate c data = .ok p) (hm : minPacket ≤ p.length) (hp : parseHdr p = some h)
    (hl : lookup l.table a = some id) (ho : l.objs[id]? = some o)
    (hc : h.hasConv = true) (hne : h.conv ≠ o.conv) (hsn : h.sn = 0)
    (hfull : l.accepts.length ≥ acceptBacklog) :
    (listenerInput w c l data a).dec = .closedOnly a id ∧
    (listenerInput w c l data a).l.objs[id]? = some { o with st := w.closeFx o.st, closed := true } ∧
    (listenerInput w c l data a).l.objs.length = l.objs.length ∧
    lookup (listenerInput w c l data a).l.table a = none ∧
    (listenerInput w c l data a).l.accepts = l.accepts := by
  obtain ⟨o', ho', hoa, hoc⟩ := hwf a id hl
  rw [ho] at ho'; cases ho'
  have hsn' : ¬ h.sn ≠ 0 := fun x => x hsn
  rw [C11_after_gate_mismatch w c l data p a h id o hg hm hp hl ho hc hne, if_neg hsn',
    C11_closeSess_open w l id o ho hoc,
    C11_tryCreate_full w { l with objs := modifyAt l.objs id (fun o => { o with st := w.closeFx o.st, closed := true }),
                                  table := unmap l.table o.addr } p a h (some id) hc hfull]
  simp only [modifyAt_length, lookup_unmap, hoa, if_true, true_and]
  simp [getElem?_modifyAt, ho, hoa]

/-- a packet carrying another conversation id is NEVER passed to the existing session: in every
case its state afterwards is what it was, or `closeFx` of it — never `kcpInput` of it. -/
theorem C11_route_or_ignore (w : World σ) (c : Cipher) (l : Listener σ) (data p : Bytes) (a : String) (h : Hdr)
    (id : Nat) (o : Sess σ) (hwf : WF l)
    (hg : cryptGate c data = .ok p) (hm : minPacket ≤ p.length) (hp : parseHdr p = some h)
    (hl : lookup l.table a = some id) (ho : l.objs[id]? = some o)
    (hc : h.hasConv = true) (hne : h.conv ≠ o.conv) :
    ((listenerInput w c l data a).l.objs[id]? = some o ∧ (listenerInput w c l data a).l = l ∧ h.sn ≠ 0) ∨
    ((listenerInput w c l data a).l.objs[id]? = some { o with st := w.closeFx o.st, closed := true } ∧ h.sn = 0 ∧
      ((∃ n, (listenerInput w c l data a).dec = .create a h.conv (some id) n) ↔ l.accepts.length < acceptBacklog)) := by
  by_cases hsn : h.sn = 0
  · right
    by_cases hroom : l.accepts.length < acceptBacklog
    · have := C11_reset_replaces w c l data p a h id o hwf hg hm hp hl ho hc hne hsn hroom
      exact ⟨this.2.1, hsn, ⟨fun _ => hroom, fun _ => ⟨_, this.1⟩⟩⟩
    · have := C11_reset_backlog_full w c l data p a h id o hwf hg hm hp hl ho hc hne hsn (by omega)
      refine ⟨this.2.1, hsn, ⟨fun ⟨n, hn⟩ => ?_, fun hr => absurd hr hroom⟩⟩
      rw [this.1] at hn; cases hn
  · left
    have := C11_other_conv_ignored w c l data p a h id o hg hm hp hl ho hc hne hsn
    exact ⟨by rw [this.1]; exact ho, this.1, hsn⟩

/-- no session mapped at `a`: any frame with a readable conversation id starts a conversation
(whatever its sn) iff the backlog has room; without room, or without a readable id, nothing changes. -/
theorem C11_start_unmapped (w : World σ) (c : Cipher) (l : Listener σ) (data p : Bytes) (a : String) (h : Hdr)
    (hg : cryptGate c data = .ok p) (hm : minPacket ≤ p.length) (hp : parseHdr p = some h)
    (hl : lookup l.table a = none) :
    (h.hasConv = true ∧ l.accepts.length < acceptBacklog →
      (listenerInput w c l data a).dec = .create a h.conv none l.objs.length ∧
      (listenerInput w c l data a).l.accepts = l.accepts ++ [l.objs.length] ∧
      lookup (listenerInput w c l data a).l.table a = some l.objs.length ∧
      (listenerInput w c l data a).l.objs = l.objs ++
        [{ conv := h.conv, addr := a, st := w.kcpInput (w.init h.conv) p, closed := false }]) ∧
    (¬ (h.hasConv = true ∧ l.accepts.length < acceptBacklog) → (listenerInput w c l data a).l = l) := by
  rw [C11_after_gate w c l data p a h hg hm hp, hl]
  simp only [tryCreate]
  constructor
  · intro ⟨hc, hroom⟩
    have hroom' : ¬ l.accepts.length ≥ acceptBacklog := by omega
    simp [hc, hroom', lookup]
  · intro hn
    by_cases hc : h.hasConv = true
    · have : l.accepts.length ≥ acceptBacklog := by
        rcases Nat.lt_or_ge l.accepts.length acceptBacklog with h1 | h1
        · exact absurd ⟨hc, h1⟩ hn
        · exact h1
      simp [hc, this]
    · simp [hc]

/-! ### one Accept per conversation start -/

def isCreate : Decision → Bool
  | .create _ _ _ _ => true
  | _ => false

/-- one step: the accept queue grows exactly when the decision is `create`, by exactly the fresh
creation index, and only while it holds fewer than `acceptBacklog` sessions -/
theorem C11_accept_step (w : World σ) (c : Cipher) (l : Listener σ) (data : Bytes) (a : String) :
    (isCreate (listenerInput w c l data a).dec = true →
      (listenerInput w c l data a).l.accepts = l.accepts ++ [l.objs.length] ∧
      (listenerInput w c l data a).l.objs.length = l.objs.length + 1 ∧
      l.accepts.length < acceptBacklog) ∧
    (isCreate (listenerInput w c l data a).dec = false →
      (listenerInput w c l data a).l.accepts = l.accepts ∧
      (listenerInput w c l data a).l.objs.length = l.objs.length) := by
  have key : ∀ (l0 l1 : Listener σ) p h old, l1.accepts = l0.accepts → l1.objs.length = l0.objs.length →
      (isCreate (tryCreate w l1 p a h old).dec = true →
        (tryCreate w l1 p a h old).l.accepts = l0.accepts ++ [l0.objs.length] ∧
        (tryCreate w l1 p a h old).l.objs.length = l0.objs.length + 1 ∧ l0.accepts.length < acceptBacklog) ∧
      (isCreate (tryCreate w l1 p a h old).dec = false →
        (tryCreate w l1 p a h old).l.accepts = l0.accepts ∧ (tryCreate w l1 p a h old).l.objs.length = l0.objs.length) := by
    intro l0 l1 p h old ha hlen
    unfold tryCreate
    split
    · simp [isCreate, ha, hlen]
    · split
      · cases old <;> simp [isCreate, ha, hlen]
      · rename_i hq
        refine ⟨fun _ => ⟨by rw [ha, hlen], by simp [hlen], by rw [ha] at hq; omega⟩, fun h => by simp [isCreate] at h⟩
  unfold listenerInput
  split
  · simp [isCreate]
  · simp [isCreate]
  · split
    · simp [isCreate]
    · split
      · simp [isCreate]
      · split
        · exact key l l _ _ none rfl rfl
        · split
          · simp [isCreate]
          · split
            · simp [isCreate, modifyAt_length]
            · split
              · simp [isCreate]
              · refine key l (closeSess w l _) _ _ _ ?_ (C11_closeSess_length w l _)
                unfold closeSess
                split
                · rfl
                · split <;> rfl

/-- events at a listener -/
inductive Ev where
  | input (c : Cipher) (data : Bytes) (a : String)
  | accept
  | close (id : Nat)

/-- a run: the listener, the ids returned by Accept so far (in order), the decisions taken -/
structure RunSt (σ : Type) where
  l        : Listener σ
  accepted : List Nat
  log      : List Decision

def runStep (w : World σ) (s : RunSt σ) : Ev → RunSt σ
  | .input c data a =>
    { s with l := (listenerInput w c s.l data a).l, log := s.log ++ [(listenerInput w c s.l data a).dec] }
  | .accept =>
    match (SessIn.accept s.l).got with
    | none => s
    | some id => { s with l := (SessIn.accept s.l).l, accepted := s.accepted ++ [id] }
  | .close id => { s with l := userClose w s.l id }

def run (w : World σ) (s : RunSt σ) (evs : List Ev) : RunSt σ := evs.foldl (runStep w) s

def RunInv (s : RunSt σ) : Prop :=
  s.accepted ++ s.l.accepts = List.range s.l.objs.length ∧
  s.l.accepts.length ≤ acceptBacklog ∧
  s.l.objs.length = (s.log.filter isCreate).length

theorem C11_runInv_step (w : World σ) (s : RunSt σ) (e : Ev) (h : RunInv s) : RunInv (runStep w s e) := by
  obtain ⟨h1, h2, h3⟩ := h
  cases e with
  | input c data a =>
    have hs := C11_accept_step w c s.l data a
    simp only [runStep, RunInv]
    cases hc : isCreate (listenerInput w c s.l data a).dec with
    | true =>
      obtain ⟨ha, hl, hr⟩ := hs.1 hc
      have hf : List.filter isCreate (s.log ++ [(listenerInput w c s.l data a).dec]) =
          List.filter isCreate s.log ++ [(listenerInput w c s.l data a).dec] := by
        simp [List.filter_append, hc]
      rw [ha, hl, ← List.append_assoc, h1, List.range_succ, hf]
      simp only [List.length_append, List.length_cons, List.length_nil]
      exact ⟨trivial, by omega, by omega⟩
    | false =>
      obtain ⟨ha, hl⟩ := hs.2 hc
      have hf : List.filter isCreate (s.log ++ [(listenerInput w c s.l data a).dec]) = List.filter isCreate s.log := by
        simp [List.filter_append, hc]
      rw [ha, hl, hf]
      exact ⟨h1, h2, h3⟩
  | accept =>
    simp only [runStep, SessIn.accept]
    cases hq : s.l.accepts with
    | nil => simp only; exact ⟨h1, h2, h3⟩
    | cons id rest =>
      simp only [RunInv]
      rw [hq] at h1 h2
      refine ⟨by rw [List.append_assoc]; exact h1, ?_, h3⟩
      simp only [List.length_cons] at h2; omega
  | close id =>
    simp only [runStep, RunInv, userClose]
    have hl := C11_closeSess_length w s.l id
    have ha : (closeSess w s.l id).accepts = s.l.accepts := by
      unfold closeSess
      split
      · rfl
      · split <;> rfl
    rw [ha, hl]
    exact ⟨h1, h2, h3⟩

/-- **one Accept per conversation start, along every history**: starting from an empty listener,
after any sequence of datagrams (any ciphers, addresses, contents), Accepts and Closes:
the ids returned by Accept so far followed by the ids still queued are exactly `0, 1, …, n-1` where
`n` is the number of `create` decisions taken — every conversation start is queued exactly once, in
order, nothing else is ever queued, nothing is lost; and the queue never exceeds the backlog. -/
theorem C11_accept_once (w : World σ) (evs : List Ev) :
    let s := run w { l := Listener.empty, accepted := [], log := [] } evs
    s.accepted ++ s.l.accepts = List.range (s.log.filter isCreate).length ∧
    s.l.accepts.length ≤ acceptBacklog ∧
    (s.accepted ++ s.l.accepts).Nodup := by
  have hinv : ∀ (evs : List Ev) (s : RunSt σ), RunInv s → RunInv (run w s evs) := by
    intro evs
    induction evs with
    | nil => intro s h; exact h
    | cons e rest ih => intro s h; exact ih _ (C11_runInv_step w s e h)
  have h0 : RunInv ({ l := Listener.empty, accepted := [], log := [] } : RunSt σ) := by
    simp [RunInv, Listener.empty]
  obtain ⟨h1, h2, h3⟩ := hinv evs _ h0
  simp only
  refine ⟨by rw [h1, h3], h2, by rw [h1]; exact List.nodup_range⟩

/-! #### which address / conversation each queued session belongs to -/

def createKey : Decision → Option (String × BitVec 32)
  | .create a c _ _ => some (a, c)
  | _ => none

def keyOf (o : Sess σ) : String × BitVec 32 := (o.addr, o.conv)

theorem C11_map_modifyAt {α β : Type} (xs : List α) (i : Nat) (f : α → α) (g : α → β) (hg : ∀ x, g (f x) = g x) :
    (modifyAt xs i f).map g = xs.map g := by
  induction xs generalizing i with
  | nil => rfl
  | cons x rest ih => cases i with
    | zero => simp [modifyAt, hg]
    | succ k => simp [modifyAt, ih]

theorem C11_closeSess_keys (w : World σ) (l : Listener σ) (id : Nat) :
    (closeSess w l id).objs.map keyOf = l.objs.map keyOf := by
  unfold closeSess
  split
  · rfl
  · split
    · rfl
    · exact C11_map_modifyAt _ _ _ _ (fun _ => rfl)

theorem C11_tryCreate_keys (w : World σ) (l0 l1 : Listener σ) (p : Bytes) (a : String) (h : Hdr) (old : Option Nat)
    (hk : l1.objs.map keyOf = l0.objs.map keyOf) :
    (tryCreate w l1 p a h old).l.objs.map keyOf =
      l0.objs.map keyOf ++ (createKey (tryCreate w l1 p a h old).dec).toList := by
  unfold tryCreate
  split
  · simp [createKey, hk]
  · split
    · cases old <;> simp [createKey, hk]
    · simp [createKey, hk, keyOf]

/-- one datagram: the list of (address, conversation) of all session objects grows by exactly the
key of the `create` decision, if the decision is one -/
theorem C11_keys_step (w : World σ) (c : Cipher) (l : Listener σ) (data : Bytes) (a : String) :
    (listenerInput w c l data a).l.objs.map keyOf =
      l.objs.map keyOf ++ (createKey (listenerInput w c l data a).dec).toList := by
  unfold listenerInput
  split
  · simp [createKey]
  · simp [createKey]
  · split
    · simp [createKey]
    · split
      · simp [createKey]
      · split
        · exact C11_tryCreate_keys w l l _ a _ none rfl
        · split
          · simp [createKey]
          · split
            · simp only [createKey, Option.toList_none, List.append_nil]
              exact C11_map_modifyAt _ _ _ _ (fun _ => rfl)
            · split
              · simp [createKey]
              · exact C11_tryCreate_keys w l _ _ a _ _ (C11_closeSess_keys w l _)

/-- **whose sessions are queued**: along every history from an empty listener, the i-th session ever
put on the accept queue is session object i, and the (address, conversation id) of the objects, in
order, are exactly those of the `create` decisions, in order.  Hence, for every address `a`, the
number of sessions queued for `a` equals the number of conversation starts at `a` that found room,
each queued exactly once (`C11_accept_once`), with the conversation id of its first frame. -/
theorem C11_accept_once_keys (w : World σ) (evs : List Ev) :
    let s := run w { l := Listener.empty, accepted := [], log := [] } evs
    s.l.objs.map keyOf = s.log.filterMap createKey := by
  have hinv : ∀ (evs : List Ev) (s : RunSt σ), s.l.objs.map keyOf = s.log.filterMap createKey →
      (run w s evs).l.objs.map keyOf = (run w s evs).log.filterMap createKey := by
    intro evs
    induction evs with
    | nil => intro s h; exact h
    | cons e rest ih =>
      intro s h
      apply ih
      cases e with
      | input c data a =>
        simp only [runStep, List.filterMap_append]
        rw [C11_keys_step, h]
        cases hd : createKey (listenerInput w c s.l data a).dec <;> simp [hd]
      | accept =>
        simp only [runStep, SessIn.accept]
        cases hq : s.l.accepts with
        | nil => simpa using h
        | cons id rest => simpa using h
      | close id =>
        simp only [runStep, userClose]
        rw [C11_closeSess_keys]; exact h
  exact hinv evs _ (by simp [Listener.empty])

/-- a decision is `create` exactly when the datagram is a conversation start that finds room:
it passes the gate, carries a readable conversation id, and either no session is mapped at its
address or the mapped one has another id and the frame is a reset (sn = 0 / OOB) -/
theorem C11_create_iff_start (w : World σ) (c : Cipher) (l : Listener σ) (data : Bytes) (a : String) (hwf : WF l) :
    isCreate (listenerInput w c l data a).dec = true ↔
      ∃ p h, cryptGate c data = .ok p ∧ minPacket ≤ p.length ∧ parseHdr p = some h ∧ h.hasConv = true ∧
        l.accepts.length < acceptBacklog ∧
        (lookup l.table a = none ∨
         ∃ id o, lookup l.table a = some id ∧ l.objs[id]? = some o ∧ h.conv ≠ o.conv ∧ h.sn = 0) := by
  constructor
  · intro hc
    cases hg : cryptGate c data with
    | short => simp [listenerInput, hg, isCreate] at hc
    | csum => simp [listenerInput, hg, isCreate] at hc
    | ok p =>
      by_cases hm : p.length < minPacket
      · simp [listenerInput, hg, hm, isCreate] at hc
      · cases hp : parseHdr p with
        | none => simp [listenerInput, hg, hm, hp, isCreate] at hc
        | some h =>
          have hm' : minPacket ≤ p.length := by omega
          rw [C11_after_gate w c l data p a h hg hm' hp] at hc
          refine ⟨p, h, rfl, hm', hp, ?_⟩
          cases hl : lookup l.table a with
          | none =>
            rw [hl] at hc
            simp only [tryCreate] at hc
            by_cases hcv : h.hasConv = true
            · by_cases hq : l.accepts.length ≥ acceptBacklog
              · simp [hcv, hq, isCreate] at hc
              · exact ⟨hcv, by omega, Or.inl rfl⟩
            · simp [hcv, isCreate] at hc
          | some id =>
            rw [hl] at hc
            obtain ⟨o, ho, hoa, hoc⟩ := hwf a id hl
            simp only [ho] at hc
            by_cases h1 : (!h.hasConv || decide (h.conv = o.conv)) = true
            · simp [h1, isCreate] at hc
            · simp only [h1, Bool.false_eq_true, if_false] at hc
              by_cases hsn : h.sn = 0
              · have hcv : h.hasConv = true := by
                  cases hh : h.hasConv with
                  | true => rfl
                  | false => simp [hh] at h1
                have hne : h.conv ≠ o.conv := by
                  intro e; simp [e] at h1
                by_cases hq : l.accepts.length < acceptBacklog
                · exact ⟨hcv, hq, Or.inr ⟨id, o, rfl, ho, hne, hsn⟩⟩
                · have := C11_reset_backlog_full w c l data p a h id o hwf hg hm' hp hl ho hcv hne hsn (by omega)
                  rw [C11_after_gate w c l data p a h hg hm' hp, hl] at this
                  simp only [ho, h1, Bool.false_eq_true, if_false] at this
                  rw [this.1] at hc
                  simp [isCreate] at hc
              · have hsn' : ¬ h.sn = 0#32 := hsn
                simp [hsn', isCreate] at hc
  · intro ⟨p, h, hg, hm, hp, hcv, hroom, hcase⟩
    cases hcase with
    | inl hl =>
      have := (C11_start_unmapped w c l data p a h hg hm hp hl).1 ⟨hcv, hroom⟩
      rw [this.1]; rfl
    | inr hx =>
      obtain ⟨id, o, hl, ho, hne, hsn⟩ := hx
      have := C11_reset_replaces w c l data p a h id o hwf hg hm hp hl ho hcv hne hsn hroom
      rw [this.1]; rfl

/-! ### the dialled session's source filter -/

open KcpVerif.SessIn.Dial in
/-- latched on a UDP source (the remote given to the dial, or the first source when the remote was
nil): a datagram is passed to `packetInput` iff it comes from a `*net.UDPAddr` with the same
(canonical) IP, port and zone; the filter never re-latches. -/
theorem C11_dial_filter (f : Filter) (u : List UInt8 × Nat × String) (addr : Addr) (hf : f.src = some u) :
    (filter f addr).f = f ∧ ((filter f addr).pass = true ↔ addr.udp = some u) := by
  unfold filter
  rw [hf]
  cases hu : addr.udp with
  | none => simp
  | some u2 =>
    obtain ⟨i1, p1, z1⟩ := u
    obtain ⟨i2, p2, z2⟩ := u2
    simp only [sameUDPAddr, Option.some.injEq, Prod.mk.injEq, true_and]
    by_cases hp : p1 = p2
    · by_cases hz : z1 = z2
      · subst hp; subst hz
        simp only [ne_eq, not_true_eq_false, or_self, if_false, beq_iff_eq, and_true]
        exact ⟨fun e => e.symm, fun e => e.symm⟩
      · simp only [ne_eq, hz, not_false_eq_true, or_true, if_true, Bool.false_eq_true, false_iff]
        intro ⟨_, _, e⟩; exact hz e.symm
    · simp only [ne_eq, hp, not_false_eq_true, true_or, if_true, Bool.false_eq_true, false_iff]
      intro ⟨_, e, _⟩; exact hp e.symm

open KcpVerif.SessIn.Dial in
/-- latched on the string of a non-UDP remote: passes iff `addr.String()` is equal -/
theorem C11_dial_filter_string (f : Filter) (addr : Addr) (hf : f.src = none) (hs : f.srcStr ≠ "") :
    (filter f addr).f = f ∧ ((filter f addr).pass = true ↔ addr.str = f.srcStr) := by
  unfold filter
  rw [hf]
  simp [hs]

open KcpVerif.SessIn.Dial in
/-- nothing latched yet (nil remote): the first datagram passes and latches its source -/
theorem C11_dial_filter_first (addr : Addr) :
    (filter (Filter.init none) addr).pass = true ∧
    (∀ u, addr.udp = some u → (filter (Filter.init none) addr).f.src = some u) ∧
    (addr.udp = none → (filter (Filter.init none) addr).f.src = none ∧ (filter (Filter.init none) addr).f.srcStr = addr.str) := by
  unfold filter Filter.init
  cases hu : addr.udp with
  | none => simp
  | some u => simp

open KcpVerif.SessIn.Dial in
/-- a dial to a UDP remote is latched on it from the start -/
theorem C11_dial_filter_init (r : Addr) (u : List UInt8 × Nat × String) (h : r.udp = some u) :
    (Filter.init (some r)).src = some u := by
  simp [Filter.init, h]

/-! ### non-vacuity: a concrete history exercising route / ignore / reset / backlog -/

/-- σ = the list of payloads handed to the core -/
def c11World : World (List Bytes) := { kcpInput := fun s p => s ++ [p], init := fun _ => [], closeFx := id }
def c11Cipher : Cipher := { kind := .nil, dec := id, crc := fun _ => 0, aopen := fun _ _ => none }
/-- a 24-byte non-FEC KCP header: conv (1 byte used), cmd 81, sn (1 byte used) -/
def c11Frame (conv sn : UInt8) : Bytes := [conv, 0, 0, 0, 81, 0, 32, 0, 0, 0, 0, 0, sn, 0, 0, 0, 0, 0, 0, 0, 0, 0, 0, 0]

def c11L1 : Listener (List Bytes) := (listenerInput c11World c11Cipher Listener.empty (c11Frame 5 0) "A").l
def c11L2 : Listener (List Bytes) := (listenerInput c11World c11Cipher c11L1 (c11Frame 9 0) "B").l

-- A starts conversation 5, B starts conversation 9
example : (listenerInput c11World c11Cipher Listener.empty (c11Frame 5 0) "A").dec = .create "A" 5 none 0 := by decide +kernel
example : lookup c11L2.table "A" = some 0 ∧ lookup c11L2.table "B" = some 1 ∧ c11L2.accepts = [0, 1] := by decide +kernel
-- a frame of conversation 7 with sn = 3 from A is ignored (hypotheses of `C11_other_conv_ignored`)
example : (listenerInput c11World c11Cipher c11L2 (c11Frame 7 3) "A").dec = .drop .convMismatch := by decide +kernel
-- … with sn = 0 it replaces A's session (hypotheses of `C11_reset_replaces`); B is untouched (`C11_frame`)
example : (listenerInput c11World c11Cipher c11L2 (c11Frame 7 0) "A").dec = .create "A" 7 (some 0) 2 := by decide +kernel
example : (listenerInput c11World c11Cipher c11L2 (c11Frame 7 0) "A").l.objs[1]? = c11L2.objs[1]? := by decide +kernel
-- the same conversation is routed
example : (listenerInput c11World c11Cipher c11L2 (c11Frame 5 1) "A").dec = .route "A" 0 := by decide +kernel
-- WF holds for these states
example : WF c11L2 := WF_listenerInput _ _ _ _ _ (WF_listenerInput _ _ _ _ _ WF_empty)

end KcpVerif.Props
