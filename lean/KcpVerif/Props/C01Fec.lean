import KcpVerif.Props.C01Full
import KcpVerif.Lemmas.C01FecRef
import KcpVerif.Lemmas.C01FecHist
/-!
C01 — session level with FEC (`C01_session_fec`, DESIGN.md 7.1 item 7 and 13): two sessions of
`Model/SessFec.lean` (no cipher, FEC `d/p` on both sides; the model the `sessfec` component ties op
by op to real `UDPSession`s — every wire datagram including parity, the encoder, the decoder, the
core) under a network that drops, duplicates, reorders and delays the writer's datagrams.

Proof: every step other than `packetInput` is a step of the plain session (`fecStep_plain`); the
`Input` calls `kcpInput` makes for one datagram are core operations (`chain_run`); for a genuine FEC
packet and a decoder that has only seen genuine packets, `C01_fec_reduction_full` (C07's decoder
soundness + the size check) makes every payload a datagram the writer's core emitted, so the calls
are delivery steps of the two-core system, with `regular = false` for recovered ones (`chain_dlv`,
`fecInput_dlv`); then `C01_core_partial`, `C01_reader_behind` and the accounting of `C01_session_plain`.
-/
namespace KcpVerif.Props
open KcpVerif KcpVerif.Gen KcpVerif.Kcp KcpVerif.Frame KcpVerif.Recv KcpVerif.Send KcpVerif.Wire KcpVerif.C01
open KcpVerif.Fec KcpVerif.Lemmas.FecSpec KcpVerif.Lemmas

/-- `C01_fec_reduction_full` is the soundness statement the simulation needs -/
theorem C01_fecSound {C : CodecNew} (hC : Lawful C) (d p : Nat) (dec0 : Decoder)
    (hnew : Decoder.new C d p = some dec0) : FecSound C d p dec0 :=
  fun grp pkts hgen => C01_fec_reduction_full hC grp d p dec0 hnew pkts hgen

/-- **`C01_session_fec`, relative to the sender's FEC stage.**  Sessions `A` (writer) and `B`
(reader) without cipher; `B` has a fresh `d/p` decoder (created by `newUDPSession`: `Decoder.new`);
any lawful codec `C` (the MDS law of C07); fresh cores, matching initial sequence numbers, `mss > 0`
at `A`, no unread leftover at `B`.  ANY interleaving of session operations of `A` (including
`packetInput` of arbitrary bytes), session operations of `B` other than `packetInput`, and
deliveries to `B.packetInput` of any datagram `A` has put on the wire so far (data or parity; any
later time, any number of times, any order, or never; any time gaps for the encoders).

Hypothesis `FecRunGenuine` (discharged in `C01_session_fec` below): at each delivery, what
`A` has put on the wire so far are packets of well-formed `d/p` groups whose payloads are the
datagrams `A`'s core handed to `output` — the statement `C07_enc_group` proves group by group.
Range hypothesis: `A` has numbered fewer than 2^32 segments.

Then everything `B.Read` has returned is a prefix of everything `A.WriteBuffers` has accepted —
whether a segment reached `B`'s core in a data packet (`Input(regular = true)`) or was reconstructed
from parity (`Input(regular = false)`). -/
theorem C01_session_fec_partial {C : CodecNew} (hC : Lawful C) (d p : Nat) (dec0 : Decoder)
    (hnew : Decoder.new C d p = some dec0)
    (xA xB : SessFec) (hA : Fresh xA.s.k) (hB : Fresh xB.s.k) (hbB : xB.s.bufptr = [])
    (hdB : xB.dec = some dec0) (hsn : xB.s.k.rcv_nxt = xA.s.k.snd_nxt) (hm : 0 < xA.s.k.mss.toNat)
    (ops : List FSOp)
    (hgen : FecRunGenuine C d p ⟨{ x := xA }, { x := xB }⟩ ops)
    (hL : (fsrun C ⟨{ x := xA }, { x := xB }⟩ ops).A.log.length < 2 ^ 32) :
    (fsrun C ⟨{ x := xA }, { x := xB }⟩ ops).B.rd <+: (fsrun C ⟨{ x := xA }, { x := xB }⟩ ops).A.wr := by
  have hinit : FecInv C dec0 ⟨{ x := xA }, { x := xB }⟩ ⟨{ k := xA.s.k }, { k := xB.s.k }⟩ :=
    ⟨⟨rfl, rfl, rfl, rfl⟩, ⟨hm, by simp [toSessG, hA.sq, bytesOf]⟩, ⟨rfl, rfl, rfl, rfl⟩,
     by show [] ++ xB.s.bufptr = _; rw [hbB]; rfl, hdB, fun q hq => by cases hq⟩
  obtain ⟨cops, hinv⟩ := fsrun_sim (C01_fecSound hC d p dec0 hnew) ops _ _ hinit hgen
  have hlog : (fsrun C ⟨{ x := xA }, { x := xB }⟩ ops).A.log =
      (srun ⟨{ k := xA.s.k }, { k := xB.s.k }⟩ cops).A.log := hinv.a.log
  have hLc : (srun ⟨{ k := xA.s.k }, { k := xB.s.k }⟩ cops).A.log.length < 2 ^ 32 := by rw [← hlog]; exact hL
  have hbehind := (C01_reader_behind xA.s.k xB.s.k hA hB hsn cops hLc).1
  have hcore := (C01_core_partial xA.s.k xB.s.k hA hB hsn cops (by omega) (by omega)).2
  have hr : (fsrun C ⟨{ x := xA }, { x := xB }⟩ ops).B.rd ++ (fsrun C ⟨{ x := xA }, { x := xB }⟩ ops).B.x.s.bufptr =
      (srun ⟨{ k := xA.s.k }, { k := xB.s.k }⟩ cops).B.got.flatten := hinv.r
  rw [← hr, ← hlog] at hcore
  have h1 : (fsrun C ⟨{ x := xA }, { x := xB }⟩ ops).B.rd <+:
      bytesOf (fsrun C ⟨{ x := xA }, { x := xB }⟩ ops).A.log := (List.prefix_append _ _).trans hcore
  refine h1.trans ?_
  have hacc : (fsrun C ⟨{ x := xA }, { x := xB }⟩ ops).A.wr =
      bytesOf ((fsrun C ⟨{ x := xA }, { x := xB }⟩ ops).A.log ++
        (fsrun C ⟨{ x := xA }, { x := xB }⟩ ops).A.x.s.k.snd_queue.map content) := hinv.w.acc
  rw [hacc, bytesOf_append]
  exact List.prefix_append _ _

/-- **`C01_session_fec`: no hypothesis on the sender's FEC stage.**  Sessions `A` (writer, a fresh
`d/p` encoder: `Encoder.new C d p 0`, `headerSize = fecHeaderSizePlus2`) and `B` (reader, a fresh `d/p`
decoder) — the same `d/p` at both ends —, no cipher, any lawful codec; otherwise as
`C01_session_fec_partial`: any interleaving of session operations of `A` (including `packetInput` of
arbitrary bytes), of `B` (other than `packetInput`), and deliveries to `B.packetInput` of any datagram
`A` has put on the wire so far (data or parity, any later time, any multiplicity, any order, or never),
any time gaps (parity generated or skipped).

Range hypotheses (decidable on the run): `A` has numbered fewer than 2^32 segments, and the FEC ids
have not wrapped: `NoWrap d p A.cwire`, i.e. with `k` = the number of datagrams `A`'s core has handed to
`output`, `(k / d + 1) · (d + p) ≤ paws = 0xffffffff / (d+p) · (d+p)` — the group being filled lies
below the wrap (fewer than `paws / (d+p) · d` datagrams, about `2^32 · d / (d+p)`).

Then everything `B.Read` has returned is a prefix of everything `A.WriteBuffers` has accepted.

The sender's side (`Lemmas/C01FecEnc.lean`, `C01FecHist.lean`): in every reachable state, as long as the
ids have not wrapped, the wire consists of packets of ONE family of well-formed `d/p` groups — the
finished groups (by `enc_group`/`C07_enc_group`, parity generated or skipped), then the group still
filling completed with empty placeholder payloads — whose payloads are the datagrams the core emitted
(`hist_encode`, `hist_pp`, `fsrun_genuine`). -/
theorem C01_session_fec {C : CodecNew} (hC : Lawful C) (d p : Nat) (enc0 : Encoder) (dec0 : Decoder)
    (hnewE : Encoder.new C d p 0 = some enc0) (hnewD : Decoder.new C d p = some dec0)
    (xA xB : SessFec) (hA : Fresh xA.s.k) (hB : Fresh xB.s.k) (hbB : xB.s.bufptr = [])
    (heA : xA.enc = some enc0) (hhA : xA.headerSize = fecHeaderSizePlus2) (hdB : xB.dec = some dec0)
    (hsn : xB.s.k.rcv_nxt = xA.s.k.snd_nxt) (hm : 0 < xA.s.k.mss.toNat) (ops : List FSOp)
    (hwrap : NoWrap d p (fsrun C ⟨{ x := xA }, { x := xB }⟩ ops).A.cwire)
    (hL : (fsrun C ⟨{ x := xA }, { x := xB }⟩ ops).A.log.length < 2 ^ 32) :
    (fsrun C ⟨{ x := xA }, { x := xB }⟩ ops).B.rd <+: (fsrun C ⟨{ x := xA }, { x := xB }⟩ ops).A.wr :=
  C01_session_fec_partial hC d p dec0 hnewD xA xB hA hB hbB hdB hsn hm ops
    (fsrun_genuine hC ops _ (encOk_fresh hnewE xA heA hhA) hwrap) hL

/-- the sender's invariant on its own: for a session created with a `d/p` encoder, after ANY sequence
of session operations, if the FEC ids have not wrapped, there is one family of well-formed `d/p` groups
such that every datagram on the wire is a packet of it and every payload of it is a datagram the core
emitted or an empty placeholder (`EncGenuine`) -/
theorem C01_fec_sender_genuine {C : CodecNew} (hC : Lawful C) (d p : Nat) (enc0 : Encoder)
    (hnewE : Encoder.new C d p 0 = some enc0) (x : SessFec) (he : x.enc = some enc0)
    (hh : x.headerSize = fecHeaderSizePlus2) (ops : List FecOp)
    (hwrap : NoWrap d p (ops.foldl (fecStep C) { x := x }).cwire) :
    EncGenuine C d p (ops.foldl (fecStep C) { x := x }) := by
  have h : ∀ (ops : List FecOp) (f : FecG), EncOk C d p f → EncOk C d p (ops.foldl (fecStep C) f) := by
    intro ops
    induction ops with
    | nil => intro f h; exact h
    | cons op rest ih => intro f h; exact ih _ (fecStep_encOk hC h op).1
  exact encOk_genuine (h ops _ (encOk_fresh hnewE x he hh)) hwrap

/-! ## cipher + FEC together -/

/-- operations of the two-session system with FEC and a cipher on the path `A → B` -/
inductive C01_FCOp where
  | a (op : FecOp)
  | b (op : FecOp)
  /-- the network hands `B.packetInput` an arbitrary (ciphertext) datagram -/
  | net (data : Bytes) (now : U32) (gap : Int)

/-- `B`'s receive path: `SessIn.sessionPacketInput` (decrypt, verify, size check — the gate of C06) in
front of `kcpInput` with FEC (`Model/SessFec.lean`).  `A`'s `wire` holds the plaintext frames (FEC
packets); what travels is their encryption (`Wire.cryptFrame` under `enc`, resp. `nonce ‖ Seal`). -/
def C01_fcstep (C : CodecNew) (c : SessIn.Cipher) (s : FecSys) : C01_FCOp → FecSys
  | .a op => { s with A := fecStep C s.A op }
  | .b op => if isFecInput op then s else { s with B := fecStep C s.B op }
  | .net data now gap =>
    { s with B := (SessIn.sessionPacketInput c (fun x p => fecStep C x (.input p now gap)) s.B data).st }

def C01_fcrun (C : CodecNew) (c : SessIn.Cipher) (s : FecSys) (ops : List C01_FCOp) : FecSys :=
  ops.foldl (C01_fcstep C c) s

/-- every datagram the network delivers is, at the time of delivery, a genuine ciphertext of a frame
`A` has put on the wire so far, or a corruption the integrity check catches -/
def C01_FCRunOk (C : CodecNew) (c : SessIn.Cipher) (Ok : List Bytes → Bytes → Prop) : FecSys → List C01_FCOp → Prop
  | _, [] => True
  | s, .net data now gap :: rest =>
    Ok s.A.wire data ∧ C01_FCRunOk C c Ok (C01_fcstep C c s (.net data now gap)) rest
  | s, op :: rest => C01_FCRunOk C c Ok (C01_fcstep C c s op) rest

/-- behind a sound gate, a run with cipher and FEC under the corrupting network is a run of the FEC
system under the drop / duplicate / reorder network -/
theorem C01_fcrun_is_fec (C : CodecNew) (c : SessIn.Cipher) (Ok : List Bytes → Bytes → Prop)
    (hg : C01_GateSound c Ok) :
    ∀ (ops : List C01_FCOp) (s : FecSys), C01_FCRunOk C c Ok s ops →
      ∃ plain : List FSOp, C01_fcrun C c s ops = fsrun C s plain := by
  intro ops
  induction ops with
  | nil => intro s _; exact ⟨[], rfl⟩
  | cons op rest ih =>
    intro s hok
    cases op with
    | a op =>
      obtain ⟨pl, h⟩ := ih (C01_fcstep C c s (.a op)) hok
      exact ⟨.a op :: pl, h⟩
    | b op =>
      obtain ⟨pl, h⟩ := ih (C01_fcstep C c s (.b op)) hok
      exact ⟨.b op :: pl, h⟩
    | net data now gap =>
      obtain ⟨hd, hrest⟩ := hok
      obtain ⟨pl, h⟩ := ih (C01_fcstep C c s (.net data now gap)) hrest
      rcases hg FecG (fun x p => fecStep C x (.input p now gap)) s.B s.A.wire data hd with
        ⟨_, h2⟩ | ⟨f, hf, _, h2⟩
      · refine ⟨pl, ?_⟩
        show C01_fcrun C c (C01_fcstep C c s (.net data now gap)) rest = _
        rw [h]
        have : C01_fcstep C c s (.net data now gap) = s := by
          show { s with B := _ } = s
          rw [h2]
        rw [this]
      · obtain ⟨i, hi⟩ := List.getElem?_of_mem hf
        refine ⟨.dlv i now gap :: pl, ?_⟩
        show C01_fcrun C c (C01_fcstep C c s (.net data now gap)) rest = fsrun C (fsstep C s (.dlv i now gap)) pl
        rw [h]
        have : C01_fcstep C c s (.net data now gap) = fsstep C s (.dlv i now gap) := by
          show { s with B := _ } = _
          rw [h2]
          simp [fsstep, hi]
        rw [this]

/-- **`C01_session_full`: cipher + FEC.**  Two sessions with FEC `d/p` at both ends and a cipher whose
gate is sound against the network `Ok` (`C01_gate_step`: CRC-style ciphers; `C01_gate_step_aead`:
AEAD).  The network may drop, duplicate, reorder, delay, replay and CORRUPT ciphertext datagrams (any
corruption the integrity check catches); what passes the gate are exactly plaintext frames `A` emitted,
which are the FEC packets, data or parity.  Hypotheses otherwise as `C01_session_fec`.  Then everything
`B.Read` has returned is a prefix of everything `A.WriteBuffers` has accepted. -/
theorem C01_session_full {C : CodecNew} (hC : Lawful C) (c : SessIn.Cipher) (Ok : List Bytes → Bytes → Prop)
    (hg : C01_GateSound c Ok) (d p : Nat) (enc0 : Encoder) (dec0 : Decoder)
    (hnewE : Encoder.new C d p 0 = some enc0) (hnewD : Decoder.new C d p = some dec0)
    (xA xB : SessFec) (hA : Fresh xA.s.k) (hB : Fresh xB.s.k) (hbB : xB.s.bufptr = [])
    (heA : xA.enc = some enc0) (hhA : xA.headerSize = fecHeaderSizePlus2) (hdB : xB.dec = some dec0)
    (hsn : xB.s.k.rcv_nxt = xA.s.k.snd_nxt) (hm : 0 < xA.s.k.mss.toNat) (ops : List C01_FCOp)
    (hnet : C01_FCRunOk C c Ok ⟨{ x := xA }, { x := xB }⟩ ops)
    (hwrap : NoWrap d p (C01_fcrun C c ⟨{ x := xA }, { x := xB }⟩ ops).A.cwire)
    (hL : (C01_fcrun C c ⟨{ x := xA }, { x := xB }⟩ ops).A.log.length < 2 ^ 32) :
    (C01_fcrun C c ⟨{ x := xA }, { x := xB }⟩ ops).B.rd <+: (C01_fcrun C c ⟨{ x := xA }, { x := xB }⟩ ops).A.wr := by
  obtain ⟨plain, h⟩ := C01_fcrun_is_fec C c Ok hg ops _ hnet
  rw [h] at hwrap hL ⊢
  exact C01_session_fec hC d p enc0 dec0 hnewE hnewD xA xB hA hB hbB heA hhA hdB hsn hm plain hwrap hL

/-- `C01_session_full` for CFB with any block cipher (aes, blowfish, twofish, cast5, 3des, tea, xtea, sm4) -/
theorem C01_session_full_cfb {C : CodecNew} (hC : Lawful C) (bs : Nat) (hbs : bs = 8 ∨ bs = 16) (E : Bytes → Bytes)
    (hE : BlockFn bs E) (crc : Bytes → BitVec 32) (d p : Nat) (enc0 : Encoder) (dec0 : Decoder)
    (hnewE : Encoder.new C d p 0 = some enc0) (hnewD : Decoder.new C d p = some dec0)
    (xA xB : SessFec) (hA : Fresh xA.s.k) (hB : Fresh xB.s.k) (hbB : xB.s.bufptr = [])
    (heA : xA.enc = some enc0) (hhA : xA.headerSize = fecHeaderSizePlus2) (hdB : xB.dec = some dec0)
    (hsn : xB.s.k.rcv_nxt = xA.s.k.snd_nxt) (hm : 0 < xA.s.k.mss.toNat) (ops : List C01_FCOp)
    (hnet : C01_FCRunOk C { kind := .block, dec := Cfb.cfbDec E bs (iv bs), crc := crc, aopen := fun _ _ => none }
      (C01_NetDatagramOk { kind := .block, dec := Cfb.cfbDec E bs (iv bs), crc := crc, aopen := fun _ _ => none }
        (Cfb.cfbEnc E bs (iv bs))) ⟨{ x := xA }, { x := xB }⟩ ops)
    (hwrap : NoWrap d p (C01_fcrun C { kind := .block, dec := Cfb.cfbDec E bs (iv bs), crc := crc, aopen := fun _ _ => none }
      ⟨{ x := xA }, { x := xB }⟩ ops).A.cwire)
    (hL : (C01_fcrun C { kind := .block, dec := Cfb.cfbDec E bs (iv bs), crc := crc, aopen := fun _ _ => none }
      ⟨{ x := xA }, { x := xB }⟩ ops).A.log.length < 2 ^ 32) :
    (C01_fcrun C { kind := .block, dec := Cfb.cfbDec E bs (iv bs), crc := crc, aopen := fun _ _ => none }
        ⟨{ x := xA }, { x := xB }⟩ ops).B.rd <+:
      (C01_fcrun C { kind := .block, dec := Cfb.cfbDec E bs (iv bs), crc := crc, aopen := fun _ _ => none }
        ⟨{ x := xA }, { x := xB }⟩ ops).A.wr :=
  C01_session_full hC _ _ (C01_gate_step _ _ (C01_cfb_laws bs hbs E hE crc)) d p enc0 dec0 hnewE hnewD
    xA xB hA hB hbB heA hhA hdB hsn hm ops hnet hwrap hL

/-- `C01_session_full` for an AEAD (aes-gcm …), given the two laws of the primitive -/
theorem C01_session_full_aead {C : CodecNew} (hC : Lawful C) (c : SessIn.Cipher) (ns ov : Nat)
    (aseal : Bytes → Bytes → Bytes) (hc : C01_AeadLaws c ns ov aseal) (d p : Nat) (enc0 : Encoder) (dec0 : Decoder)
    (hnewE : Encoder.new C d p 0 = some enc0) (hnewD : Decoder.new C d p = some dec0)
    (xA xB : SessFec) (hA : Fresh xA.s.k) (hB : Fresh xB.s.k) (hbB : xB.s.bufptr = [])
    (heA : xA.enc = some enc0) (hhA : xA.headerSize = fecHeaderSizePlus2) (hdB : xB.dec = some dec0)
    (hsn : xB.s.k.rcv_nxt = xA.s.k.snd_nxt) (hm : 0 < xA.s.k.mss.toNat) (ops : List C01_FCOp)
    (hnet : C01_FCRunOk C c (C01_NetDatagramOkAead c ns ov aseal) ⟨{ x := xA }, { x := xB }⟩ ops)
    (hwrap : NoWrap d p (C01_fcrun C c ⟨{ x := xA }, { x := xB }⟩ ops).A.cwire)
    (hL : (C01_fcrun C c ⟨{ x := xA }, { x := xB }⟩ ops).A.log.length < 2 ^ 32) :
    (C01_fcrun C c ⟨{ x := xA }, { x := xB }⟩ ops).B.rd <+: (C01_fcrun C c ⟨{ x := xA }, { x := xB }⟩ ops).A.wr :=
  C01_session_full hC c _ (C01_gate_step_aead c ns ov aseal hc) d p enc0 dec0 hnewE hnewD
    xA xB hA hB hbB heA hhA hdB hsn hm ops hnet hwrap hL

/-! ### non-vacuity: recovery through parity in the model (executable GF(2^8) code) -/

/-- two default sessions with FEC 2/1; `A` writes two messages (two data packets and, the gap being
small, one parity packet); the network NEVER delivers the first data packet: `B` gets the second data
packet and the parity packet, reconstructs the first, and reads both messages -/
def C01_exFec : List FSOp :=
  [.a (.noDelay 1 10 2 1), .a (.write [[1, 2, 3]] 0 1000000), .a (.write [[4, 5]] 0 3),
   .dlv 1 5 0, .b (.read 100), .dlv 2 6 0, .b (.read 100), .b (.read 100)]

set_option maxRecDepth 1000000 in
example :
    Fresh (SessFec.new rsNew 7 2 1).s.k ∧ (SessFec.new rsNew 7 2 1).dec = Decoder.new rsNew 2 1 ∧
    (SessFec.new rsNew 7 2 1).enc = Encoder.new rsNew 2 1 0 ∧ (SessFec.new rsNew 7 2 1).headerSize = fecHeaderSizePlus2 ∧
    NoWrap 2 1 (fsrun rsNew ⟨{ x := SessFec.new rsNew 7 2 1 }, { x := SessFec.new rsNew 7 2 1 }⟩ C01_exFec).A.cwire ∧
    (fsrun rsNew ⟨{ x := SessFec.new rsNew 7 2 1 }, { x := SessFec.new rsNew 7 2 1 }⟩ C01_exFec).A.wire.map Fec.flag
      = [typeData, typeData, typeParity] ∧
    (fsrun rsNew ⟨{ x := SessFec.new rsNew 7 2 1 }, { x := SessFec.new rsNew 7 2 1 }⟩ C01_exFec).B.recvd.length = 2 ∧
    (fsrun rsNew ⟨{ x := SessFec.new rsNew 7 2 1 }, { x := SessFec.new rsNew 7 2 1 }⟩ C01_exFec).A.wr = [1, 2, 3, 4, 5] ∧
    (fsrun rsNew ⟨{ x := SessFec.new rsNew 7 2 1 }, { x := SessFec.new rsNew 7 2 1 }⟩ C01_exFec).B.rd = [1, 2, 3, 4, 5] ∧
    (fsrun rsNew ⟨{ x := SessFec.new rsNew 7 2 1 }, { x := SessFec.new rsNew 7 2 1 }⟩ C01_exFec).B.dead = false := by
  refine ⟨⟨by decide, by decide, by decide, by decide, by decide⟩, rfl, rfl, rfl, by decide, by decide, by decide,
    by decide, by decide, by decide⟩

end KcpVerif.Props
