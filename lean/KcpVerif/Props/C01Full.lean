import KcpVerif.Props.C01Reduce
import KcpVerif.Props.C07
import KcpVerif.Props.C08
/-!
C01 — the reductions of `Props/C01Reduce.lean` with their named hypotheses discharged by the
theorems of C06 (already used there), C07 and C08 (this file may import Mathlib-dependent modules:
`Props/C07.lean` imports `Lemmas/RS.lean`).
-/
namespace KcpVerif.Props
open KcpVerif KcpVerif.Gen KcpVerif.C01 KcpVerif.Cfb

/-- textbook CFB (which `C08_enc_unrolled_eq_textbook` / `C08_dec_unrolled_eq_textbook` prove the
unrolled code of crypt.go computes, for every length and memory layout) with ANY block function
satisfies the cipher laws of the reduction: `C08_cfb_length` and the round trip behind
`C08_cfb_roundtrip`.  Covers aes-128/192/256, blowfish, twofish, cast5, 3des, tea, xtea, sm4. -/
theorem C01_cfb_laws (bs : Nat) (hbs : bs = 8 ∨ bs = 16) (E : Bytes → Bytes) (hE : BlockFn bs E)
    (crc : Bytes → BitVec 32) :
    C01_BlockCipherLaws { kind := .block, dec := cfbDec E bs (iv bs), crc := crc, aopen := fun _ _ => none }
      (cfbEnc E bs (iv bs)) := by
  have hiv := C08_iv_fits bs hbs
  have h0 : 0 < bs := by rcases hbs with rfl | rfl <;> decide
  refine ⟨rfl, fun x => ?_, fun x => C08_cfb_length bs hbs E hE x⟩
  exact cfb_roundtrip E bs h0 hE x.length x (iv bs) (Nat.le_refl _) (by rw [iv, List.length_take]; omega)

/-- the `none` cipher (`noneBlockCrypt`: a `BlockCrypt` that copies; the CRC is still checked) -/
theorem C01_none_laws (crc : Bytes → BitVec 32) :
    C01_BlockCipherLaws { kind := .block, dec := id, crc := crc, aopen := fun _ _ => none } id :=
  ⟨rfl, fun _ => rfl, fun _ => rfl⟩

/-- **`C01_session_cfb`**: `C01_session_cipher` for CFB with any block cipher — no hypothesis on the
cipher is left but "blocks to blocks". -/
theorem C01_session_cfb (bs : Nat) (hbs : bs = 8 ∨ bs = 16) (E : Bytes → Bytes) (hE : BlockFn bs E)
    (crc : Bytes → BitVec 32)
    (sA sB : Sess) (hA : Fresh sA.k) (hB : Fresh sB.k) (hbB : sB.bufptr = [])
    (hsn : sB.k.rcv_nxt = sA.k.snd_nxt) (hm : 0 < sA.k.mss.toNat) (ops : List C01_COp)
    (hnet : C01_CRunOk { kind := .block, dec := cfbDec E bs (iv bs), crc := crc, aopen := fun _ _ => none }
      (C01_NetDatagramOk { kind := .block, dec := cfbDec E bs (iv bs), crc := crc, aopen := fun _ _ => none }
        (cfbEnc E bs (iv bs))) ⟨{ s := sA }, { s := sB }⟩ ops)
    (hL : (C01_crun { kind := .block, dec := cfbDec E bs (iv bs), crc := crc, aopen := fun _ _ => none }
      ⟨{ s := sA }, { s := sB }⟩ ops).A.log.length < 2 ^ 32) :
    (C01_crun { kind := .block, dec := cfbDec E bs (iv bs), crc := crc, aopen := fun _ _ => none }
        ⟨{ s := sA }, { s := sB }⟩ ops).B.rd <+:
      (C01_crun { kind := .block, dec := cfbDec E bs (iv bs), crc := crc, aopen := fun _ _ => none }
        ⟨{ s := sA }, { s := sB }⟩ ops).A.wr :=
  C01_session_cipher _ _ (C01_gate_step _ _ (C01_cfb_laws bs hbs E hE crc)) sA sB hA hB hbB hsn hm ops hnet hL

section fec
open KcpVerif.Fec KcpVerif.Lemmas.FecSpec KcpVerif.Lemmas

/-- **FEC reduction, hypothesis discharged by `C07_dec_sound`**: for any lawful codec (the MDS law
`C07_rs_mds` proves for the systematic Vandermonde construction), a fresh `d/p` decoder and any list
of genuine `d/p` packets, every payload the FEC receive path hands to `Input` — regular or
recovered — is a payload the peer's encoder was handed. -/
theorem C01_fec_reduction_full {C : CodecNew} (hC : Lawful C) (grp : FecDec.Family) (d p : Nat) (dec : Decoder)
    (hnew : Decoder.new C d p = some dec) (pkts : List Bytes)
    (hgen : ∀ q ∈ pkts, FecDec.GenuinePkt C grp d p q) :
    ∀ c ∈ (C01_fecRun C dec pkts).2,
      ∃ (G : Group) (k : Nat), grp (G.base / u32 G.n) = some G ∧ G.WF ∧ k < G.d ∧
        c.1 = G.payloads.getD k [] ∧ (c.2 = true → G.packet C k ∈ pkts) :=
  C01_fec_reduction grp d p dec pkts hgen (C07_dec_sound hC grp d p dec hnew pkts hgen)

/-- **`C01_session_reductions`** (both reductions, hypotheses discharged).
(a) CFB with any block cipher, any core `σ` behind `kcpInput`: under a network that replays, drops,
duplicates, reorders and corrupts ciphertext (corruptions the check catches), the frames reaching
`kcpInput` are frames the peer emitted and the state is that of feeding exactly those frames.
(b) FEC with any lawful codec: every `Input` payload is a KCP datagram the peer's encoder was handed;
and a replayed datagram with any `regular` flag is a delivery step of `C01_core`'s network. -/
theorem C01_session_reductions :
    (∀ (σ : Type) (bs : Nat), bs = 8 ∨ bs = 16 → ∀ (E : Bytes → Bytes), BlockFn bs E →
      ∀ (crc : Bytes → BitVec 32) (kcpInput : σ → Bytes → σ) (frames ds : List Bytes) (s : σ),
        (∀ x ∈ ds, C01_NetDatagramOk
          { kind := .block, dec := cfbDec E bs (iv bs), crc := crc, aopen := fun _ _ => none }
          (cfbEnc E bs (iv bs)) frames x) →
        (∀ f ∈ (C01_cipherFeed { kind := .block, dec := cfbDec E bs (iv bs), crc := crc, aopen := fun _ _ => none }
            kcpInput s ds).2, f ∈ frames) ∧
        (C01_cipherFeed { kind := .block, dec := cfbDec E bs (iv bs), crc := crc, aopen := fun _ _ => none }
            kcpInput s ds).1 =
          (C01_cipherFeed { kind := .block, dec := cfbDec E bs (iv bs), crc := crc, aopen := fun _ _ => none }
            kcpInput s ds).2.foldl kcpInput s) ∧
    (∀ (C : CodecNew), Lawful C → ∀ (grp : FecDec.Family) (d p : Nat) (dec : Decoder),
      Decoder.new C d p = some dec → ∀ pkts : List Bytes, (∀ q ∈ pkts, FecDec.GenuinePkt C grp d p q) →
        ∀ c ∈ (C01_fecRun C dec pkts).2,
          ∃ (G : Group) (k : Nat), grp (G.base / u32 G.n) = some G ∧ G.WF ∧ k < G.d ∧
            c.1 = G.payloads.getD k [] ∧ (c.2 = true → G.packet C k ∈ pkts)) ∧
    (∀ (S : Sys) (pl : Bytes) (reg a : Bool) (now : U32), pl ∈ S.A.wire →
      ∃ i, sstep S (.dlv i reg a now) = { S with B := step S.B (.input pl reg a now) }) :=
  ⟨fun _ bs hbs E hE crc kcpInput frames ds s h =>
      C01_cipher_reduction _ _ (C01_gate_step _ _ (C01_cfb_laws bs hbs E hE crc)) kcpInput frames ds s h,
   fun _ hC grp d p dec hnew pkts hgen => C01_fec_reduction_full hC grp d p dec hnew pkts hgen,
   C01_fec_calls_are_replays⟩

end fec

/-- **`C01_session_aead`**: `C01_session_cipher` for an AEAD (aes-128-gcm …) given the two laws of
the primitive that `C08_aead_in_buffer` assumes. -/
theorem C01_session_aead (c : SessIn.Cipher) (ns ov : Nat) (aseal : Bytes → Bytes → Bytes)
    (hc : C01_AeadLaws c ns ov aseal)
    (sA sB : Sess) (hA : Fresh sA.k) (hB : Fresh sB.k) (hbB : sB.bufptr = [])
    (hsn : sB.k.rcv_nxt = sA.k.snd_nxt) (hm : 0 < sA.k.mss.toNat) (ops : List C01_COp)
    (hnet : C01_CRunOk c (C01_NetDatagramOkAead c ns ov aseal) ⟨{ s := sA }, { s := sB }⟩ ops)
    (hL : (C01_crun c ⟨{ s := sA }, { s := sB }⟩ ops).A.log.length < 2 ^ 32) :
    (C01_crun c ⟨{ s := sA }, { s := sB }⟩ ops).B.rd <+: (C01_crun c ⟨{ s := sA }, { s := sB }⟩ ops).A.wr :=
  C01_session_cipher c _ (C01_gate_step_aead c ns ov aseal hc) sA sB hA hB hbB hsn hm ops hnet hL

/-! ### non-vacuity -/

/-- the AEAD hypotheses are satisfiable: a toy AEAD that appends a one-byte tag equal to the
plaintext length mod 256 -/
example : C01_AeadLaws
    { kind := .aead 12 1, dec := id, crc := fun _ => 0,
      aopen := fun _ ct => if ct.length = 0 then none else some (ct.take (ct.length - 1)) }
    12 1 (fun _ p => p ++ [UInt8.ofNat p.length]) :=
  ⟨rfl, fun _ p => by simp, fun _ p => by simp⟩

/-- the cipher hypotheses are satisfiable with a concrete block function (C08's toy cipher) -/
example (key : Bytes) : C01_BlockCipherLaws
    { kind := .block, dec := cfbDec (toyE key) 16 (iv 16), crc := Crc32.crc32, aopen := fun _ _ => none }
    (cfbEnc (toyE key) 16 (iv 16)) :=
  C01_cfb_laws 16 (Or.inr rfl) (toyE key) (C08_toy_blockFn key 16) Crc32.crc32

set_option maxRecDepth 1000000 in
/-- a concrete run through the gate with the `none` cipher and the real CRC-32: a genuine datagram
(zero nonce), a corrupted copy (one flipped bit — caught), a replay; `kcpInput` = "append the frame" -/
example :
    let c : SessIn.Cipher := { kind := .block, dec := id, crc := Crc32.crc32, aopen := fun _ _ => none }
    let f : Bytes := List.replicate 24 5
    let good := Wire.cryptFrame Crc32.crc32 (List.replicate 16 0) f
    let bad := good.set 30 4
    C01_NetDatagramOk c id [f] good ∧ C01_NetDatagramOk c id [f] bad ∧
      C01_cipherFeed c (fun (s : List Bytes) p => s ++ [p]) [] [good, bad, good] = ([f, f], [f, f]) := by
  refine ⟨Or.inl ⟨_, List.mem_singleton.mpr rfl, List.replicate 16 0, rfl, rfl⟩, Or.inr (Or.inr ?_), ?_⟩
  · decide
  · decide

end KcpVerif.Props
