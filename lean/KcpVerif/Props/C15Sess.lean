/-
C15, ownership half, for the session layer's own buffers (sess.go: output callback, `SendOOB`,
`chPostProcessing`, `postProcess` / `txqueue`) on the ownership LTS `Model/SessOwn`.

For every sequence of labels (any fates of the `select`s, any number of dup / parity copies, any
flush decisions, `postProcess` returning at any time) the pool event log is `Disciplined`, a buffer
is in at most one of `chPostProcessing`, `txqueue`, and what is there is owned; the buffers that are
never recycled are exactly those of the two places found in the code: the die arm of the output
callback's `select`, and requests still queued when `postProcess` returns — both are DROPS (left to
the garbage collector), never double puts.  The step lemma carries a frame `F`, so the session layer
composes with cores and decoders by the rule of `Props/C15Sys`.

Unlike `C15Core` / `C15Fec` this LTS is hand-written from the code and has no differential tie of
its own: on the real sessions the discipline is checked by the sanitizer (component `pool`).
-/
import KcpVerif.Props.C15Sys
import KcpVerif.Model.SessOwn

namespace KcpVerif.Props
open KcpVerif KcpVerif.Own KcpVerif.Pool KcpVerif.FecOwn KcpVerif.SessOwn

theorem C15_aux_forget {g : Ghost} {c : Nat → Nat} {id : Nat} (h : W g (fun x => oc (some id) x + c x)) :
    W (forget g id) c := by
  refine ⟨h.ok, h.fresh, ?_⟩
  intro x
  have hb := h.bal x
  show c x + (id :: g.lost).count x = if x ∈ owned g then 1 else 0
  rw [← hb]
  by_cases hx : id = x
  · subst hx; simp only [oc_some_self, List.count_cons_self]; omega
  · simp only [oc_some_ne hx, List.count_cons_of_ne hx]; omega

theorem C15_aux_forgetAll (l : List Nat) (g : Ghost) (F : Nat → Nat) (h : W g (fun x => cntI x l + F x)) :
    W (forgetAll l g) F := by
  induction l generalizing g with
  | nil => exact h.congr (fun x => by simp [cntI])
  | cons id rest ih =>
    unfold forgetAll
    have h1 : W g (fun x => oc (some id) x + (cntI x rest + F x)) := h.congr (fun x => by simp only [cntI]; omega)
    exact ih _ (C15_aux_forget h1)

theorem C15_aux_useAll (l : List Nat) (g : Ghost) (F : Nat → Nat) (h : W g (fun x => cntI x l + F x)) :
    W (useAll l g) (fun x => cntI x l + F x) := by
  induction l generalizing g F with
  | nil => exact h
  | cons id rest ih =>
    unfold useAll
    have h1 : W g (fun x => oc (some id) x + (cntI x rest + F x)) := h.congr (fun x => by simp only [cntI]; omega)
    have h2 : W (g.use (some id)) (fun x => cntI x rest + (oc (some id) x + F x)) := h1.use.congr (fun x => by omega)
    exact (ih _ _ h2).congr (fun x => by simp only [cntI]; omega)

/-- the buffers of the session layer: those of the queued requests and of `txqueue` -/
def sessHeld (s : OutSt) (id : Nat) : Nat := cntI id s.q + cntI id s.tx

/-- one label, any frame -/
theorem C15_aux_sess_step (F : Nat → Nat) {s : OutSt} (h : W s.gh (fun id => sessHeld s id + F id)) (l : Lbl) :
    W (SessOwn.step s l).gh (fun id => sessHeld (SessOwn.step s l) id + F id) := by
  have henq : W s.gh.get (fun id => sessHeld { s with q := s.q ++ [s.gh.next], gh := s.gh.get } id + F id) :=
    h.get.congr (fun id => by unfold sessHeld; simp only []; rw [C15_aux_cntI_append]; simp only [cntI]; omega)
  have hput : W (s.gh.get.recycle (some s.gh.next)) (fun id => sessHeld s id + F id) := h.get.recycle
  cases l with
  | output f =>
    cases f with
    | enq => exact henq
    | dflt => exact hput
    | dieArm => exact C15_aux_forget h.get
  | sendOOB f =>
    cases f with
    | enq => exact henq
    | dflt => exact hput
    | dieArm => exact hput
  | ppRecv dups parity flush =>
    simp only [SessOwn.step]
    split
    · exact h
    · rename_i id rest hq
      have h1 : W s.gh (fun x => oc (some id) x + (cntI x rest + cntI x s.tx + F x)) :=
        h.congr (fun x => by unfold sessHeld; rw [hq]; simp only [cntI]; omega)
      have h2 := getN_W (dups + parity) _ _ h1.use
      have h3 : W (getN (dups + parity) (s.gh.use (some id))).g
          (fun x => cntI x (s.tx ++ id :: (getN (dups + parity) (s.gh.use (some id))).ids) + (cntI x rest + F x)) :=
        h2.congr (fun x => by rw [C15_aux_cntI_append]; simp only [cntI]; omega)
      split
      · exact (putIds_W _ _ _ (C15_aux_useAll _ _ _ h3)).congr (fun x => by unfold sessHeld; simp [cntI])
      · exact h3.congr (fun x => by unfold sessHeld; simp only []; omega)
  | ppExit =>
    have h1 : W s.gh (fun x => cntI x s.q + (cntI x s.tx + F x)) := h.congr (fun x => by unfold sessHeld; omega)
    exact (C15_aux_forgetAll _ _ _ (C15_aux_forgetAll _ _ _ h1)).congr (fun x => by unfold sessHeld; simp [SessOwn.step, cntI])

theorem C15_aux_sess_run {s : OutSt} (h : W s.gh (fun id => sessHeld s id + 0)) (ls : List Lbl) :
    W (run s ls).gh (fun id => sessHeld (run s ls) id + 0) := by
  induction ls generalizing s with
  | nil => exact h
  | cons l ls ih => exact ih (C15_aux_sess_step (fun _ => 0) h l)

/-- **The session layer's buffers are disciplined**: whatever the `select`s choose, however many
copies `postProcess` makes, whenever it flushes or returns. -/
theorem C15_sess_disciplined (ls : List Lbl) : Disciplined (run {} ls).gh.log :=
  (C15_sanitizer_sound _).mp (C15_aux_sess_run (s := {}) (W.init.congr (fun _ => rfl)) ls).ok

/-- a buffer is in at most one of `chPostProcessing` / `txqueue`, once, and it is owned; conversely
an owned buffer is there or was dropped (die arm of the output callback, `postProcess` returned) -/
theorem C15_sess_held (ls : List Lbl) (id : Nat) :
    sessHeld (run {} ls) id ≤ 1 ∧
    (sessHeld (run {} ls) id = 1 → holds (run {} ls).gh.log.reverse id = true) ∧
    (holds (run {} ls).gh.log.reverse id = true → sessHeld (run {} ls) id + (run {} ls).gh.lost.count id = 1) := by
  have hw := C15_aux_sess_run (s := {}) (W.init.congr (fun _ => rfl)) ls
  have hag := C15_aux_replay_agree _ St.init [] C15_aux_agree_init hw.ok
  rw [List.append_nil] at hag
  have hb := hw.bal id
  refine ⟨by split at hb <;> omega, ?_, ?_⟩
  · intro h1
    apply (hag id).mp
    by_cases hm : id ∈ owned (run {} ls).gh
    · exact hm
    · simp only [hm, if_false] at hb; omega
  · intro hh
    have hm : id ∈ owned (run {} ls).gh := (hag id).mpr hh
    simp only [hm, if_true] at hb
    omega

/-- **Source pin**: the `defaultBufferPool.Get/Put` call sites the extractor finds in the repository
(regenerated into `Gen.poolSites` on every check) are exactly the sites the instrumented models cover —
kcp.go by `Model/KcpOwn` (`newSegment`, `parse_data`, `recycleSegment`), fec.go by `Model/FecOwn`
(`decode`: packet copy, new buffers, re-tune, failed reconstruction, popped packets; `discardShards`)
with the caller's `Put(r)` in `kcpInput`, sess.go by `Model/SessOwn` (output callback in
`newUDPSession`, `SendOOB`, `postProcess`).  A new or removed site in the code breaks this theorem. -/
theorem C15_pool_sites_covered :
    Gen.poolSites.map (fun s => (s.fn, s.op, s.idx)) =
      [("KCP.newSegment", "Get", 0), ("KCP.parse_data", "Get", 0), ("KCP.recycleSegment", "Put", 0),
       ("UDPSession.SendOOB", "Get", 0), ("UDPSession.SendOOB", "Put", 0), ("UDPSession.SendOOB", "Put", 1),
       ("UDPSession.kcpInput", "Put", 0),
       ("UDPSession.postProcess", "Get", 0), ("UDPSession.postProcess", "Get", 1), ("UDPSession.postProcess", "Put", 0),
       ("fecDecoder.decode", "Get", 0), ("fecDecoder.decode", "Get", 1), ("fecDecoder.decode", "Put", 0),
       ("fecDecoder.decode", "Put", 1), ("fecDecoder.decode", "Put", 2), ("fecDecoder.discardShards", "Put", 0),
       ("newUDPSession", "Get", 0), ("newUDPSession", "Put", 0)] := by decide

-- two datagrams queued, the first transmitted with one dup and two parity copies in a batch with the
-- second; a third is dropped in the die arm; an OOB packet refused by the full channel
example : (run {} [.output .enq, .output .enq, .ppRecv 1 2 false, .ppRecv 0 0 true, .output .dieArm,
    .sendOOB .dflt]).gh.log =
    [.get 0, .get 1, .use 0, .get 2, .get 3, .get 4, .use 1, .use 0, .use 2, .use 3, .use 4, .use 1,
     .put 0, .put 2, .put 3, .put 4, .put 1, .get 5, .get 6, .put 6] := by decide
example : (run {} [.output .enq, .output .dieArm, .ppExit]).gh.lost = [0, 1] := by decide

end KcpVerif.Props
