import KcpVerif.Model.Kcp
import KcpVerif.Lemmas.KcpLive
import KcpVerif.Lemmas.KcpProbe
import KcpVerif.Lemmas.SysDrainSnd
import KcpVerif.Lemmas.SysDrainProbe4
import KcpVerif.Lemmas.SysDrainFull
import KcpVerif.Lemmas.SysDrainFull2
import KcpVerif.Lemmas.SysDrainFair2
/-! C03 — a stalled reader throttles the sender and transfer resumes afterwards. -/
namespace KcpVerif.Props
open KcpVerif KcpVerif.Gen KcpVerif.Kcp KcpVerif.Live

/-- the probe back-off stays between `IKCP_PROBE_INIT` and `IKCP_PROBE_LIMIT` -/
theorem C03_nextProbeWait_bounds (w : U32) (hlim : w ≤ u32 IKCP_PROBE_LIMIT) :
    u32 IKCP_PROBE_INIT ≤ nextProbeWait w ∧ nextProbeWait w ≤ u32 IKCP_PROBE_LIMIT := by
  unfold nextProbeWait
  simp only [u32, IKCP_PROBE_INIT, IKCP_PROBE_LIMIT] at *
  by_cases h1 : w < BitVec.ofNat 32 500
  · simp only [h1, ↓reduceIte]; decide
  · simp only [h1, ↓reduceIte]
    have hd : (w / 2).toNat = w.toNat / 2 := by
      show (w / BitVec.ofNat 32 2).toNat = _
      simp [BitVec.toNat_udiv]
    generalize w / 2 = d at hd ⊢
    by_cases h2 : w + d > BitVec.ofNat 32 120000
    · simp only [h2, ↓reduceIte]; decide
    · simp only [h2, ↓reduceIte]
      have hw : w.toNat ≤ 120000 := by bv_omega
      have hw' : 500 ≤ w.toNat := by bv_omega
      have hsum : (w + d).toNat = w.toNat + d.toNat := by rw [BitVec.toNat_add]; omega
      constructor
      · rw [BitVec.le_def, hsum]; simp; omega
      · bv_omega

/-- while the peer advertises a zero window the probe timer is armed: either it was (re)armed by
this flush with a wait in `[IKCP_PROBE_INIT, IKCP_PROBE_LIMIT]`, or it is still pending -/
theorem C03_probe_armed (k : Kcp) (now : U32) (h0 : k.rmt_wnd = 0)
    (hlim : k.probe_wait ≤ u32 IKCP_PROBE_LIMIT) :
    (u32 IKCP_PROBE_INIT ≤ (probePhase k now).probe_wait ∧
      (probePhase k now).probe_wait ≤ u32 IKCP_PROBE_LIMIT ∧
      (probePhase k now).ts_probe = now + (probePhase k now).probe_wait) ∨
    ((probePhase k now) = k ∧ k.probe_wait ≠ 0 ∧ ¬ itimediff now k.ts_probe ≥ 0) := by
  unfold probePhase
  rw [if_pos h0]
  by_cases h1 : k.probe_wait = 0
  · rw [if_pos h1]; left
    refine ⟨?_, ?_, rfl⟩ <;> simp only [u32, IKCP_PROBE_INIT, IKCP_PROBE_LIMIT] <;> decide
  · rw [if_neg h1]
    by_cases h2 : itimediff now k.ts_probe ≥ 0
    · rw [if_pos h2]; left
      exact ⟨(C03_nextProbeWait_bounds _ hlim).1, (C03_nextProbeWait_bounds _ hlim).2, rfl⟩
    · rw [if_neg h2]; right; exact ⟨rfl, h1, h2⟩

/-- a due probe timer schedules a WASK in the same flush -/
theorem C03_probe_fires (k : Kcp) (now : U32) (h0 : k.rmt_wnd = 0) (h1 : k.probe_wait ≠ 0)
    (h2 : itimediff now k.ts_probe ≥ 0) :
    (probePhase k now).probe = k.probe ||| u32 IKCP_ASK_SEND := by
  unfold probePhase
  rw [if_pos h0, if_neg h1, if_pos h2]

/-- once a non-zero window is known the probe state is reset -/
theorem C03_probe_reset (k : Kcp) (now : U32) (h : k.rmt_wnd ≠ 0) :
    (probePhase k now).probe_wait = 0 ∧ (probePhase k now).ts_probe = 0 := by
  unfold probePhase; rw [if_neg h]; exact ⟨rfl, rfl⟩

/-! ### `wask_answered`

`inStep` (Lemmas/KcpInput.lean) is the body of one iteration of `inputLoop` for a segment that passed
the header checks; `inSt`/`inK2` are the loop result and the connection before the closing flush of
`input` (`input_eq`, `inputLoop_succ` are proved by `rfl`). -/

/-- A WASK processed by `inputLoop` sets the ASK_TELL bit of `probe` (whatever `una`, `wnd`, packet
type); later segments of the same datagram and the rest of `Input` never clear it; the next flush
of EITHER type writes a WINS header carrying `wnd_unused` as computed at that flush and
`una = rcv_nxt`, and clears `probe` (the header is in the output unless the flush panics). -/
theorem C03_wask_answered (regular : Bool) (conv : U32) (cmd frg : BitVec 8) (wnd : BitVec 16) (ts sn una : U32)
    (payload : Bytes) (st : InLoop) (hc : cmd.toNat = IKCP_CMD_WASK) :
    (inStep regular conv cmd frg wnd ts sn una payload st).k.probe = st.k.probe ||| u32 IKCP_ASK_TELL ∧
    (inStep regular conv cmd frg wnd ts sn una payload st).k.probe &&& u32 IKCP_ASK_TELL ≠ 0 ∧
    (∀ (st' : InLoop) fuel data, st'.k.probe &&& u32 IKCP_ASK_TELL ≠ 0 →
      (inputLoop regular fuel data st').k.probe &&& u32 IKCP_ASK_TELL ≠ 0) ∧
    (∀ (k : Kcp) full now, k.probe &&& u32 IKCP_ASK_TELL ≠ 0 →
      (flush k full now).k.probe = 0 ∧
      ((flush k full now).panic = false → ∃ pre post, (flush k full now).outs.flatten =
        pre ++ encodeHdr k.conv (BitVec.ofNat 8 IKCP_CMD_WINS) 0 (wndUnused k) (flAck k).sc.ts (flAck k).sc.sn
          k.rcv_nxt 0 ++ post)) := by
  have h1 : (inStep regular conv cmd frg wnd ts sn una payload st).k.probe = st.k.probe ||| u32 IKCP_ASK_TELL := by
    rw [inStep_probe, if_pos hc]
  exact ⟨h1, by rw [h1]; exact tell_or _, fun st' fuel data h => inputLoop_tell_mono regular fuel data st' h,
    fun k full now h => flush_wins k full now h⟩

/-- non-vacuity: a WASK datagram through `Input`, then an ack-only flush: exactly one WINS header -/
example : (input (Kcp.new 7) [7,0,0,0, 83,0, 32,0, 0,0,0,0, 0,0,0,0, 0,0,0,0, 0,0,0,0] true false 0).k.probe = 2 ∧
    (flush (input (Kcp.new 7) [7,0,0,0, 83,0, 32,0, 0,0,0,0, 0,0,0,0, 0,0,0,0, 0,0,0,0] true false 0).k false 5).outs =
      [encodeHdr 7 84 0 32 0 0 0 0] := by decide

/-- the same at the level of `Input`: if the parse loop ends with ASK_TELL set (e.g. the datagram
contained a WASK) and `Input` returns 0, then either `Input` flushed and the WINS is in ITS output
(and `probe` is clear), or the bit is still set in the resulting state for the next flush. -/
theorem C03_wask_answered_input (k : Kcp) (data : Bytes) (regular ackNoDelay : Bool) (now : U32)
    (ht : (inSt k data regular).k.probe &&& u32 IKCP_ASK_TELL ≠ 0)
    (hr : (input k data regular ackNoDelay now).ret = 0) (hp : (input k data regular ackNoDelay now).panic = false) :
    (input k data regular ackNoDelay now).k.probe &&& u32 IKCP_ASK_TELL ≠ 0 ∨
    ((input k data regular ackNoDelay now).k.probe = 0 ∧
      ∃ pre post, (input k data regular ackNoDelay now).outs.flatten =
        pre ++ encodeHdr k.conv (BitVec.ofNat 8 IKCP_CMD_WINS) 0 (wndUnused (inK2 k data regular now))
          (flAck (inK2 k data regular now)).sc.ts (flAck (inK2 k data regular now)).sc.sn
          (inK2 k data regular now).rcv_nxt 0 ++ post) := by
  have h2 : (inK2 k data regular now).probe &&& u32 IKCP_ASK_TELL ≠ 0 ∧ (inK2 k data regular now).conv = k.conv := by
    unfold inK2
    have hcw : ∀ a old, (cwndOnAck a old).probe = a.probe ∧ (cwndOnAck a old).conv = a.conv := by
      intro a old; unfold cwndOnAck; simp only []; repeat' split
      all_goals exact ⟨rfl, rfl⟩
    have hua : ∀ a rtt, (updateAck a rtt).probe = a.probe ∧ (updateAck a rtt).conv = a.conv := by
      intro a rtt; unfold updateAck smoothRtt; simp only []; repeat' split
      all_goals exact ⟨rfl, rfl⟩
    have hconv : (inSt k data regular).k.conv = k.conv := by
      unfold inSt
      apply inputLoop_induct regular (fun x => x.k.conv = k.conv)
      · intro st r h; exact h
      · intro conv cmd frg wnd ts sn una payload st _ _ _ h
        obtain ⟨_, _, _, _, _, _, _, hf⟩ := inStep_frame regular conv cmd frg wnd ts sn una payload st
        rw [hf]; exact h
      · rfl
    rw [(hcw _ _).1, (hcw _ _).2]
    split
    · rw [(hua _ _).1, (hua _ _).2]; exact ⟨ht, hconv⟩
    · exact ⟨ht, hconv⟩
  rw [input_eq] at hr hp ⊢
  by_cases c1 : data.length < IKCP_OVERHEAD
  · rw [if_pos c1] at hr; simp at hr
  · rw [if_neg c1] at hr hp ⊢
    by_cases c2 : (inSt k data regular).panic = true
    · rw [if_pos c2] at hp; simp at hp
    · rw [if_neg c2] at hr hp ⊢
      by_cases c3 : (inSt k data regular).ret < 0
      · rw [if_pos c3] at hr; simp only [] at hr; omega
      · rw [if_neg c3] at hp ⊢
        have hfl : ∀ full, (flush (inK2 k data regular now) full now).panic = false →
            (flush (inK2 k data regular now) full now).k.probe = 0 ∧
            ∃ pre post, (flush (inK2 k data regular now) full now).outs.flatten =
              pre ++ encodeHdr k.conv (BitVec.ofNat 8 IKCP_CMD_WINS) 0 (wndUnused (inK2 k data regular now))
                (flAck (inK2 k data regular now)).sc.ts (flAck (inK2 k data regular now)).sc.sn
                (inK2 k data regular now).rcv_nxt 0 ++ post := by
          intro full hpf
          have := flush_wins (inK2 k data regular now) full now h2.1
          rw [h2.2] at this
          exact ⟨this.1, this.2 hpf⟩
        by_cases c4 : (inSt k data regular).flushSeg = true
        · rw [if_pos c4] at hp ⊢; exact Or.inr (hfl true hp)
        · rw [if_neg c4] at hp ⊢
          by_cases c5 : (inK2 k data regular now).acklist.length ≥ ((inK2 k data regular now).mtu / u32 IKCP_OVERHEAD).toNat
          · rw [if_pos c5] at hp ⊢; exact Or.inr (hfl false hp)
          · rw [if_neg c5] at hp ⊢
            by_cases c6 : ackNoDelay = true ∧ (inK2 k data regular now).acklist.length > 0
            · rw [if_pos c6] at hp ⊢; exact Or.inr (hfl false hp)
            · rw [if_neg c6]; exact Or.inl h2.1

/-! ### `reopen_announced` -/

/-- A successful `Recv` that starts with a full delivery queue (`|rcv_queue| ≥ rcv_wnd`, the
advertised window was 0) and ends below `rcv_wnd` sets ASK_TELL, so the next flush announces the
re-opened window without waiting for a probe. -/
theorem C03_reopen_announced (k : Kcp) (buflen : Nat) (hok : (recv k buflen).n ≥ 0)
    (hfull : k.rcv_queue.length ≥ k.rcv_wnd.toNat)
    (hopen : (recv k buflen).k.rcv_queue.length < (recv k buflen).k.rcv_wnd.toNat) :
    (recv k buflen).k.probe = k.probe ||| u32 IKCP_ASK_TELL ∧
    (recv k buflen).k.probe &&& u32 IKCP_ASK_TELL ≠ 0 := by
  have h : (recv k buflen).k.probe = k.probe ||| u32 IKCP_ASK_TELL := by
    unfold recv at hok hopen ⊢
    simp only [] at hok hopen ⊢
    by_cases c1 : k.peekSize < 0
    · rw [if_pos c1] at hok; simp at hok
    · rw [if_neg c1] at hok hopen ⊢
      by_cases c2 : k.peekSize > (buflen : Int)
      · rw [if_pos c2] at hok; simp at hok
      · rw [if_neg c2] at hopen ⊢
        by_cases c3 : (moveReady { k with rcv_queue := (popMsg k.rcv_queue).rest }).rcv_queue.length <
            (moveReady { k with rcv_queue := (popMsg k.rcv_queue).rest }).rcv_wnd.toNat ∧
            decide (k.rcv_queue.length ≥ k.rcv_wnd.toNat) = true
        · rw [if_pos c3]; rfl
        · rw [if_neg c3] at hopen
          exact absurd ⟨hopen, by simpa using hfull⟩ c3
  exact ⟨h, by rw [h]; exact tell_or _⟩

/-- non-vacuity: window 1, one queued message; reading it re-opens the window -/
example : (recv { Kcp.new 1 with rcv_wnd := 1, rcv_queue := [{ data := [1] }] } 10).k.probe = 2 := by decide

/-! ### `window_learned` -/

/-- Every segment of a REGULAR datagram that passes the header checks — any of the four commands,
any `una`, `sn`, window state, duplicate or not — sets `rmt_wnd := wnd`; segments recovered by FEC
(`regular = false`) never touch `rmt_wnd`. -/
theorem C03_window_learned (regular : Bool) (conv : U32) (cmd frg : BitVec 8) (wnd : BitVec 16) (ts sn una : U32)
    (payload : Bytes) (st : InLoop) :
    (inStep regular conv cmd frg wnd ts sn una payload st).k.rmt_wnd =
      if regular then wnd.setWidth 32 else st.k.rmt_wnd := by
  obtain ⟨_, _, _, _, _, _, _, hf⟩ := inStep_frame regular conv cmd frg wnd ts sn una payload st
  rw [hf]

/-! ### `throttled_admits_nothing` -/

/-- With `rmt_wnd = 0` the effective window of phase 4 is 0 whatever `snd_wnd`, `cwnd`, `nocwnd`
are, and a flush of either type admits nothing: `snd_queue` and `snd_nxt` are unchanged, no segment
is appended to `snd_buf`, and an ack-only flush leaves `snd_buf` itself unchanged.  Explicit
hypothesis: `snd_nxt` is not behind `snd_una` in the signed comparison the code uses (fewer than
2^31 segments in flight). -/
theorem C03_throttled_admits_nothing (k : Kcp) (full : Bool) (now : U32) (h0 : k.rmt_wnd = 0)
    (hfl : itimediff k.snd_nxt k.snd_una ≥ 0) :
    (∀ conv q buf c, admitSegs conv k.snd_una 0 now q buf k.snd_nxt c = ⟨q, buf, k.snd_nxt, c⟩) ∧
    flAd k now = ⟨k.snd_queue, k.snd_buf, k.snd_nxt, 0⟩ ∧
    (flush k full now).k.snd_queue = k.snd_queue ∧ (flush k full now).k.snd_nxt = k.snd_nxt ∧
    (flush k full now).k.snd_buf.length = k.snd_buf.length ∧
    (flush k false now).k.snd_buf = k.snd_buf := by
  have hz : ∀ conv q buf c, admitSegs conv k.snd_una 0 now q buf k.snd_nxt c = ⟨q, buf, k.snd_nxt, c⟩ := by
    intro conv q buf c
    exact admitSegs_closed conv k.snd_una 0 now q buf k.snd_nxt c (by rw [show k.snd_una + 0 = k.snd_una from by bv_omega]; exact hfl)
  have had : flAd k now = ⟨k.snd_queue, k.snd_buf, k.snd_nxt, 0⟩ := by
    obtain ⟨pw, tp, h3⟩ := flF3_frame k now
    unfold flAd
    have he : effWnd (flF3 k now).k = 0 := effWnd_zero _ (by rw [h3]; exact h0)
    rw [he, h3]
    exact hz _ _ _ _
  obtain ⟨_, _, _, _, _, _, hk⟩ := flush_frame k full now
  obtain ⟨_, _, _, _, _, _, hk'⟩ := flush_frame k false now
  obtain ⟨pw, tp, h4⟩ := flF4_frame k now
  refine ⟨hz, had, by rw [hk, had], by rw [hk, had], ?_, ?_⟩
  · rw [hk]
    show (flX k full now).done.length = _
    cases full
    · rw [flX_ackonly, h4, had]
    · have hd := (flX_full k now).done
      rw [hd, h4, had]; simp
  · rw [hk']
    show (flX k false now).done = _
    rw [flX_ackonly, h4, had]

/-- non-vacuity: a throttled sender with queued data -/
example : (flush { Kcp.new 1 with rmt_wnd := 0, snd_queue := [{ data := [1] }] } true 0).k.snd_queue.length = 1 := by
  decide

/-! ### `no_ack_without_store` -/

/-- For every PUSH that passes the header checks (so `payload.length ≤ mtuLimit`), in every state:
* at or beyond the top of the window: NOT acknowledged, receive side untouched;
* otherwise acknowledged, and exactly one of
  - already delivered (`sn` before `rcv_nxt`): receive side untouched,
  - already held in `rcv_buf`: buffered ∪ queued segments unchanged,
  - new: the segment is stored — `rcv_queue ++ rcv_buf` afterwards is the old `rcv_queue` followed
    by `rcv_buf` with the segment inserted — and there is no panic.
There is no branch that acknowledges and drops a new in-window segment. -/
theorem C03_no_ack_without_store (regular : Bool) (conv : U32) (cmd frg : BitVec 8) (wnd : BitVec 16) (ts sn una : U32)
    (payload : Bytes) (st : InLoop) (hc : cmd.toNat = IKCP_CMD_PUSH) (hlen : payload.length ≤ mtuLimit) :
    let k' := (inStep regular conv cmd frg wnd ts sn una payload st).k
    (¬ itimediff sn (st.k.rcv_nxt + st.k.rcv_wnd) < 0 ∧ k'.acklist = st.k.acklist ∧
      k'.rcv_buf = st.k.rcv_buf ∧ k'.rcv_queue = st.k.rcv_queue ∧ k'.rcv_nxt = st.k.rcv_nxt) ∨
    (itimediff sn (st.k.rcv_nxt + st.k.rcv_wnd) < 0 ∧ k'.acklist = st.k.acklist ++ [⟨sn, ts⟩] ∧
      ((itimediff sn st.k.rcv_nxt < 0 ∧ k'.rcv_buf = st.k.rcv_buf ∧ k'.rcv_queue = st.k.rcv_queue) ∨
       (itimediff sn st.k.rcv_nxt ≥ 0 ∧ st.k.rcv_buf.any (fun x => x.sn = sn) = true ∧
          k'.rcv_queue ++ k'.rcv_buf = st.k.rcv_queue ++ st.k.rcv_buf) ∨
       (itimediff sn st.k.rcv_nxt ≥ 0 ∧ st.k.rcv_buf.any (fun x => x.sn = sn) = false ∧
          (inStep regular conv cmd frg wnd ts sn una payload st).panic = false ∧
          pushSeg conv cmd frg wnd ts sn una payload ∈ k'.rcv_queue ++ k'.rcv_buf ∧
          k'.rcv_queue ++ k'.rcv_buf =
            st.k.rcv_queue ++ heapInsert (pushSeg conv cmd frg wnd ts sn una payload) st.k.rcv_buf))) := by
  intro k'
  have hp := inPre_rcv regular wnd una st.k
  have hne : ¬ cmd.toNat = IKCP_CMD_ACK := by rw [hc]; decide
  by_cases hw : itimediff sn (st.k.rcv_nxt + st.k.rcv_wnd) < 0
  · right
    refine ⟨hw, inStep_push_acklist regular conv cmd frg wnd ts sn una payload st hc hw, ?_⟩
    have hk : k' = if itimediff sn (inPre regular wnd una st.k).rcv_nxt ≥ 0 then
        (parseData { inPre regular wnd una st.k with acklist := (inPre regular wnd una st.k).acklist ++ [⟨sn, ts⟩] }
          (pushSeg conv cmd frg wnd ts sn una payload)).k
        else { inPre regular wnd una st.k with acklist := (inPre regular wnd una st.k).acklist ++ [⟨sn, ts⟩] } := by
      show (inStep regular conv cmd frg wnd ts sn una payload st).k = _
      rw [inStep_k, if_neg hne, if_pos hc, hp.1, hp.2.1, if_pos hw]
    rw [hp.1] at hk
    by_cases hn : itimediff sn st.k.rcv_nxt ≥ 0
    · rw [if_pos hn] at hk
      have hw' : itimediff (pushSeg conv cmd frg wnd ts sn una payload).sn
          (({ inPre regular wnd una st.k with acklist := (inPre regular wnd una st.k).acklist ++ [⟨sn, ts⟩] } : Kcp).rcv_nxt +
           ({ inPre regular wnd una st.k with acklist := (inPre regular wnd una st.k).acklist ++ [⟨sn, ts⟩] } : Kcp).rcv_wnd) < 0 := by
        show itimediff sn ((inPre regular wnd una st.k).rcv_nxt + (inPre regular wnd una st.k).rcv_wnd) < 0
        rw [hp.1, hp.2.1]; exact hw
      have hn' : itimediff (pushSeg conv cmd frg wnd ts sn una payload).sn
          ({ inPre regular wnd una st.k with acklist := (inPre regular wnd una st.k).acklist ++ [⟨sn, ts⟩] } : Kcp).rcv_nxt ≥ 0 := by
        show itimediff sn (inPre regular wnd una st.k).rcv_nxt ≥ 0
        rw [hp.1]; exact hn
      cases hd : st.k.rcv_buf.any (fun x => x.sn = sn) with
      | true =>
        right; left
        have hd' : ({ inPre regular wnd una st.k with acklist := (inPre regular wnd una st.k).acklist ++ [⟨sn, ts⟩] } : Kcp).rcv_buf.any
            (fun x => x.sn = (pushSeg conv cmd frg wnd ts sn una payload).sn) = true := by
          show (inPre regular wnd una st.k).rcv_buf.any (fun x => x.sn = sn) = true
          rw [hp.2.2.2.2.1]; exact hd
        have := parseData_dup _ _ hw' hn' hd'
        refine ⟨hn, rfl, ?_⟩
        rw [hk, this.2.2]
        show (inPre regular wnd una st.k).rcv_queue ++ (inPre regular wnd una st.k).rcv_buf = _
        rw [hp.2.2.2.2.1, hp.2.2.2.2.2]
      | false =>
        right; right
        have hd' : ({ inPre regular wnd una st.k with acklist := (inPre regular wnd una st.k).acklist ++ [⟨sn, ts⟩] } : Kcp).rcv_buf.any
            (fun x => x.sn = (pushSeg conv cmd frg wnd ts sn una payload).sn) = false := by
          show (inPre regular wnd una st.k).rcv_buf.any (fun x => x.sn = sn) = false
          rw [hp.2.2.2.2.1]; exact hd
        have := parseData_store _ (pushSeg conv cmd frg wnd ts sn una payload) hw' hn' hd' hlen
        have hcat : k'.rcv_queue ++ k'.rcv_buf =
            st.k.rcv_queue ++ heapInsert (pushSeg conv cmd frg wnd ts sn una payload) st.k.rcv_buf := by
          rw [hk, this.2.2]
          show (inPre regular wnd una st.k).rcv_queue ++ heapInsert _ (inPre regular wnd una st.k).rcv_buf = _
          rw [hp.2.2.2.2.1, hp.2.2.2.2.2]
        refine ⟨hn, rfl, ?_, ?_, hcat⟩
        · rw [inStep_eq, if_neg hne, if_pos hc, hp.1, hp.2.1, if_pos hw, if_pos hn]
          simp only []
          rw [this.1]
        · rw [hcat]; exact List.mem_append_right _ (mem_heapInsert _ _)
    · rw [if_neg hn] at hk
      left
      refine ⟨Int.not_le.mp hn, ?_, ?_⟩
      · rw [hk]; exact hp.2.2.2.2.1
      · rw [hk]; exact hp.2.2.2.2.2
  · left
    have hk : k' = inPre regular wnd una st.k := inStep_push_refused regular conv cmd frg wnd ts sn una payload st hc hw
    refine ⟨hw, ?_, ?_, ?_, ?_⟩
    · rw [hk]; exact hp.2.2.1
    · rw [hk]; exact hp.2.2.2.2.1
    · rw [hk]; exact hp.2.2.2.2.2
    · rw [hk]; exact hp.1

/-- non-vacuity: an out-of-order PUSH (sn 1) is acknowledged AND stored; with `rcv_wnd = 1` the same
PUSH is beyond the window: not acknowledged, not stored -/
example :
    (input (Kcp.new 7) [7,0,0,0, 81,0, 32,0, 9,0,0,0, 1,0,0,0, 0,0,0,0, 1,0,0,0, 0xAA] true false 0).k.acklist = [⟨1, 9⟩] ∧
    (input (Kcp.new 7) [7,0,0,0, 81,0, 32,0, 9,0,0,0, 1,0,0,0, 0,0,0,0, 1,0,0,0, 0xAA] true false 0).k.rcv_buf.map
      (fun s => s.sn) = [1] ∧
    (input { Kcp.new 7 with rcv_wnd := 1 } [7,0,0,0, 81,0, 32,0, 9,0,0,0, 1,0,0,0, 0,0,0,0, 1,0,0,0, 0xAA] true false 0
      ).k.acklist = [] := by
  decide

/-! ### `probe_armed` at the level of `flush` and of reachable states -/

/-- With `rmt_wnd = 0`, an armed probe timer that is due makes the SAME flush (either type) write a
WASK header, multiplies `probe_wait` by 3/2 (capped, `nextProbeWait`) and re-arms the timer at
`now + probe_wait`: probing never stops while the remote window is 0, whatever was lost. -/
theorem C03_probe_wask_emitted (k : Kcp) (full : Bool) (now : U32) (h0 : k.rmt_wnd = 0) (h1 : k.probe_wait ≠ 0)
    (h2 : itimediff now k.ts_probe ≥ 0) :
    (flush k full now).k.probe_wait = nextProbeWait k.probe_wait ∧
    (flush k full now).k.ts_probe = now + nextProbeWait k.probe_wait ∧
    ((flush k full now).panic = false → ∃ pre post, (flush k full now).outs.flatten =
      pre ++ encodeHdr k.conv (BitVec.ofNat 8 IKCP_CMD_WASK) 0 (wndUnused k) (flAck k).sc.ts (flAck k).sc.sn k.rcv_nxt 0
        ++ post) :=
  flush_wask k full now h0 h1 h2

/-- `probe_wait ≤ IKCP_PROBE_LIMIT` (the hypothesis of `C03_probe_armed`) is kept by every operation
with arbitrary arguments and holds in every state reachable from `NewKCP`. -/
theorem C03_probe_wait_reachable (conv : U32) (ops : List Op) (k : Kcp) (op : Op) :
    (k.probe_wait ≤ u32 IKCP_PROBE_LIMIT → (step k op).probe_wait ≤ u32 IKCP_PROBE_LIMIT) ∧
    (run (Kcp.new conv) ops).probe_wait ≤ u32 IKCP_PROBE_LIMIT := by
  have hfl : ∀ (k : Kcp) full now, k.probe_wait ≤ u32 IKCP_PROBE_LIMIT →
      (flush k full now).k.probe_wait ≤ u32 IKCP_PROBE_LIMIT := by
    intro k full now h
    rcases flush_pw k full now with e | e | e | e
    · rw [e]; simp only [u32, IKCP_PROBE_LIMIT]; decide
    · rw [e]; simp only [u32, IKCP_PROBE_LIMIT, IKCP_PROBE_INIT]; decide
    · rw [e]; exact (C03_nextProbeWait_bounds _ h).2
    · rw [e]; exact h
  have hstep : ∀ (k : Kcp) (op : Op), k.probe_wait ≤ u32 IKCP_PROBE_LIMIT →
      (step k op).probe_wait ≤ u32 IKCP_PROBE_LIMIT := by
    intro k op h
    cases op with
    | send b => show (send k b).k.probe_wait ≤ _; rw [send_pw]; exact h
    | recv n => show (recv k n).k.probe_wait ≤ _; rw [recv_pw]; exact h
    | input d r a now => exact input_pw (fun w => w ≤ u32 IKCP_PROBE_LIMIT) hfl k d r a now h
    | flush full now => exact hfl k full now h
    | update now => exact update_pw (fun w => w ≤ u32 IKCP_PROBE_LIMIT) hfl k now h
    | setMtu m => show (setMtu k m).1.probe_wait ≤ _; rw [setMtu_pw]; exact h
    | noDelay nd iv rs nc => show (noDelay k nd iv rs nc).probe_wait ≤ _; rw [noDelay_pw]; exact h
    | wndSize s r => show (wndSize k s r).probe_wait ≤ _; rw [wndSize_pw]; exact h
  refine ⟨hstep k op, ?_⟩
  have h0 : (Kcp.new conv).probe_wait ≤ u32 IKCP_PROBE_LIMIT := by
    unfold Kcp.new; simp only [u32, IKCP_PROBE_LIMIT]; decide
  generalize Kcp.new conv = k0 at h0
  induction ops generalizing k0 with
  | nil => exact h0
  | cons op rest ih => rw [run_cons]; exact ih _ (hstep k0 op h0)

/-! ### Tier 2, the safety half in the closed system (Model/Sys.lean), arbitrary histories

`SysC.Cons` (Lemmas/SysDrainCons.lean) is the cross-endpoint consistency invariant for ARBITRARY
histories of the one-directional system: genuine frames in flight, A's send buffer contiguous, B's
`rcv_nxt` not beyond A's `snd_nxt`, B HAS (delivered, or holds in its reorder buffer) every segment
below A's `snd_una`, every segment flagged `acked` at A, every entry of its own ack list and every ACK
in flight.  It is preserved by the unfair network (`SysC.cons_shuffle`: any drop / duplication /
reordering of what is in flight), by B's `Input` of any genuine datagram (`SysC.cons_dlvB`), by both
flushes, `Send`, `Recv` and `tick`; the one event still open is A's `Input` on the repaired model
(its per-frame core is `SysC.shrink_gen`). -/

open KcpVerif.Sys KcpVerif.SysC in
/-- **A throttled sender puts no new sequence number on the wire.**  In any consistent state in which A
has learned a zero window (`rmt_wnd = 0`), a FULL flush of A admits nothing — `snd_nxt` and the send
queue are unchanged — and every PUSH frame it writes carries a sequence number below the old
`snd_nxt`: a retransmission.  (`NoWrap`: fewer than 2^31 segments so far.) -/
theorem C03_closed_throttled_no_new_sn {p : Par} {s : State} {gab gba : GLink} (h : Cons p s gab gba)
    (hnw : NoWrap p.base s) (h0 : s.A.rmt_wnd = 0) :
    (Sys.step s .flushA).A.snd_nxt = s.A.snd_nxt ∧ (Sys.step s .flushA).A.snd_queue = s.A.snd_queue ∧
    ∀ fr ∈ SysW.flushFrs s.A true (clk s.now), fr.cmd.toNat = IKCP_CMD_PUSH → o p.base fr.sn < o p.base s.A.snd_nxt := by
  have hc := h.acon
  have hfl : itimediff s.A.snd_nxt s.A.snd_una ≥ 0 := by
    unfold NoWrap at hnw
    have := itd p.base s.A.snd_nxt s.A.snd_una (by omega) (by have := hc.2; omega)
    have := hc.2
    omega
  obtain ⟨_, _, t3, t4, _, _⟩ := C03_throttled_admits_nothing s.A true (clk s.now) h0 hfl
  obtain ⟨_, _, _, _, _, _, g7⟩ := flush_gen p.base s.A (clk s.now) h.aK h.aack h.acon
    (by rw [h.aconv]; exact h.atag) h.aq hnw
  refine ⟨t4, t3, fun fr hfr hp => ?_⟩
  have := (g7 fr hfr).2.2 hp
  rw [t4] at this
  exact this

open KcpVerif.Sys KcpVerif.SysC in
/-- **Nothing B has is ever dropped, and B acknowledges only what it has.**  For a receiver with nothing
to send and ANY datagram of genuine frames from the sender (new, duplicate, old, out of order, beyond
the window; `N` = the sender's `snd_nxt` as an offset): after `Input`'s parse loop `rcv_nxt` has not
gone back and is not beyond `N`, every segment the receiver had (delivered or in the reorder buffer)
it still has, and every entry of the ack list is an old entry or is for a segment it has now.  The
same holds for `Recv` (`SysC.recv_rcvStep`). -/
theorem C03_receiver_keeps_what_it_has (base : U32) (N : Nat) (hN : N < 2 ^ 31) (frs : List Wire.Frm) (k : Kcp)
    (hsb : k.snd_buf = []) (hfr : ∀ fr ∈ frs, DataLike fr ∧ (fr.cmd.toNat = IKCP_CMD_PUSH → o base fr.sn < N))
    (h2 : o base k.rcv_nxt ≤ N) (h3 : ∀ x ∈ k.rcv_buf, o base x.sn < N) :
    RcvStep base N k (SysW.inFrs true frs { k := k }).k ∧ (SysW.inFrs true frs { k := k }).panic = false :=
  ⟨(inFrs_rcv_gen base N hN frs { k := k } hsb hfr h2 h3 rfl).1, (inFrs_rcv_gen base N hN frs { k := k } hsb hfr h2 h3 rfl).2.1⟩

/-- the full statement of the resume half (not proved): the reader of B pauses for any duration, every
WASK / WINS / ACK datagram of a finite period is lost, then the reader resumes and the network is fair:
A's backlog drains.  `Old.run` would refute it (the acked-head wedge); on the repaired model it is the
general drain theorem restricted to histories of this shape. -/
def C03_resume_full : Prop :=
  ∀ (p : SysC.Par) (s : Sys.State) (gab gba : SysC.GLink), SysC.Cons p s gab gba →
    ∃ T : Nat, ∀ evs : List Sys.Ev, (∀ ev ∈ evs, SysC.isSend ev = false) →
      s.now + T ≤ (Sys.run s evs).now → (Sys.run s evs).A.waitSnd = 0

/-! ### Tier 2, zero-window probing in the closed system (repaired model, arbitrary histories)

One probe round as a chain of five phases with deadlines (Lemmas/SysDrainProbe*.lean), each preserved
or advanced by every event of the fair system, from ANY consistent state — whatever was lost before:

* `Z0` — A's `rmt_wnd` is 0 and the probe timer is not armed: A's next full flush (by `T0`) arms it
  `IKCP_PROBE_INIT` ahead;
* `ZA` — armed for `P`: flushes before `P` leave it alone, the first flush at or after `P` (by
  `T1 ≥ P + interval_A`) writes a WASK and re-arms with the backed-off wait (≤ `IKCP_PROBE_LIMIT`);
* `ZW` — the WASK is on its way, at B by `T1 + D`; B's `Input` sets ASK_TELL;
* `ZT` — B owes the answer: its next flush of either kind (by `T1 + D + interval_B`) writes a WINS, and
  every frame of that flush carries the window computed at that flush;
* `ZR` — that datagram is on its way, at A by `T1 + D + interval_B + D`; A takes over its window.

Run hypothesis (`SysC.ProbeHyp`, a check on single states): fewer than 2^30 segments, and B's receive
queue is not full and `rcv_wnd < 65536` (else the answer is again 0 — correctly — and the round
repeats).  `PInv` (an invariant of every event): an armed timer is at most `IKCP_PROBE_LIMIT` = 120 s
ahead of the clock and at most one interval behind A's next flush. -/

open KcpVerif.Sys KcpVerif.SysC in
/-- **the flush of a sender with a closed remote window** at time `t`: arms the probe timer, leaves it
alone before its time, or writes a WASK frame -/
theorem C03_closed_probe_flush (K : Kcp) (t IA T0 T1 : Nat) (h0 : K.rmt_wnd = 0) (hiv : K.interval.toNat = IA)
    (hz : (K.probe_wait = 0 ∧ t ≤ T0 ∧ T0 + IKCP_PROBE_INIT + IA ≤ T1 ∧ T1 < t + IKCP_PROBE_INIT + 2 ^ 31) ∨
      (K.probe_wait ≠ 0 ∧ t ≤ T1 ∧ ∃ P, K.ts_probe = clk P ∧ P + IA ≤ T1 ∧ T1 < P + 2 ^ 31)) :
    ((flush K true (clk t)).k.probe_wait ≠ 0 ∧ t + (flush K true (clk t)).interval.toNat ≤ T1 ∧
      ∃ P, (flush K true (clk t)).k.ts_probe = clk P ∧ P + IA ≤ T1 ∧ T1 < P + 2 ^ 31) ∨
    (∃ fr ∈ SysW.flushFrs K true (clk t), fr.cmd.toNat = IKCP_CMD_WASK) :=
  zA_flush K t IA T0 T1 h0 hiv hz

open KcpVerif.Sys KcpVerif.SysC in
/-- **the phases on B's side and on the way back** (`ZW`, `ZT`, `ZR`): every event keeps the phase, moves
to a later one within its deadline, or opens A's remote window -/
theorem C03_closed_probe_answer {p : Par} {s : State} {gab gba : GLink} (h : Cons p s gab gba) (hnw : NoWrap p.base s)
    (T2 T3 T4 IB : Nat) (ht : Tm IB s) (hT3 : T2 + IB ≤ T3) (hT4 : T3 + s.D ≤ T4) (hQ : QB s) (ev : Ev)
    (hQ' : QB (Sys.step s ev)) (hp' : (Sys.step s ev).panic = false) (hz : ZW T2 s ∨ ZT T3 s ∨ ZR T4 s) :
    (ZW T2 (Sys.step s ev) ∨ ZT T3 (Sys.step s ev) ∨ ZR T4 (Sys.step s ev)) ∨ (Sys.step s ev).A.rmt_wnd ≠ 0 :=
  zB_step h hnw T2 T3 T4 IB ht hT3 hT4 hQ ev hQ' hp' hz

open KcpVerif.Sys KcpVerif.SysC in
/-- **the probe timer is bounded in reachable states**: `PInv` is kept by every event -/
theorem C03_closed_probe_timer_bounded {p : Par} {s : State} {gab gba : GLink} (h : Cons p s gab gba)
    (hnw : NoWrap p.base s) (IA : Nat) (hIA : IA < 2 ^ 30) (hta : TmA IA s) (hpi : PInv IA s) (ev : Ev) :
    PInv IA (Sys.step s ev) :=
  pinv_step h hnw IA hIA hta hpi ev

open KcpVerif.Sys KcpVerif.SysC in
/-- **one probe round, bound by phase**: from a consistent state in phase `Z0` or `ZA`, in every run
whose clock passes `T1 + D + interval_B + D`, A's `rmt_wnd` is non-zero in some state of the run -/
theorem C03_probe_round {p : Par} {IA IB : Nat} {s : State} (hi : Inv p IA IB s) (T0 T1 : Nat)
    (hz : Z0 IA T0 T1 s ∨ ZA IA T1 s) (evs : List Ev) (hr : RunP (ProbeHyp p) s evs)
    (hnow : T1 + s.D + IB + s.D < (Sys.run s evs).now) :
    ∃ a b, evs = a ++ b ∧ (Sys.run s a).A.rmt_wnd ≠ 0 :=
  probe_round hi T0 T1 hz evs hr hnow

open KcpVerif.Sys KcpVerif.SysC in
/-- **zero-window probing, with the 120 s cap**: two fresh endpoints, ANY history `pre` of writes, reads,
events and network faults (every WASK and WINS of the past may have been lost); from the state it
leaves, over fair links, in every run whose clock advances by more than
`IKCP_PROBE_LIMIT + 2·interval_A + D + interval_B + D` ms there is a state in which A's `rmt_wnd` is
non-zero — the sender has learned a window that B computed when its receive queue was not full. -/
theorem C03_zero_window_probe_bound (A B : Kcp) (D t0 : Nat) (ndA ndB : Bool) (hinit : ConsInit A B)
    (hpw : A.probe_wait = 0) (hIA : A.interval.toNat < 2 ^ 29) (pre : List NetEv)
    (hpre : NetNoWrap A.snd_nxt (Sys.init A B D t0 ndA ndB) pre) (evs : List Ev)
    (hr : RunP (ProbeHyp ⟨A.snd_nxt, A.conv, 0, 0, 0⟩) (netRun (Sys.init A B D t0 ndA ndB) pre) evs)
    (hnow : (netRun (Sys.init A B D t0 ndA ndB) pre).now + IKCP_PROBE_LIMIT + 2 * A.interval.toNat +
      (netRun (Sys.init A B D t0 ndA ndB) pre).D + B.interval.toNat + (netRun (Sys.init A B D t0 ndA ndB) pre).D <
      (Sys.run (netRun (Sys.init A B D t0 ndA ndB) pre) evs).now) :
    ∃ a b, evs = a ++ b ∧ (Sys.run (netRun (Sys.init A B D t0 ndA ndB) pre) a).A.rmt_wnd ≠ 0 := by
  obtain ⟨hi, hpi⟩ := inv_pinv_netRun (by omega) pre _ (inv_init A B D t0 ndA ndB hinit)
    (pinv_init A B D t0 ndA ndB hpw) hpre
  exact probe_opens hi hpi hIA evs hr hnow

/-! non-vacuity of `C03_probe_round` (and of the invariants behind `C03_zero_window_probe_bound`): B has
a receive window of one segment (`wedgeB`); A writes two messages and flushes, B takes the first into
its queue (now full) and the second into the reorder buffer and acknowledges both with `wnd = 0`; A
processes the ACKs (`rmt_wnd = 0`, its ACK-triggered flush arms the probe timer: `ts_probe = 1500`); the
reader returns and reads both; the WINS that B's `Recv` schedules is flushed and LOST (`shuffle [] []`).
In the state this leaves: `rmt_wnd = 0`, phase `ZA` with `P = 1500`, `T1 = 1510`.  Then 53 rounds of
"10 ticks, flushes, deliveries, read": the run hypotheses hold and the clock reaches 1530 > 1520. -/

def c03ProbePre : List SysC.NetEv :=
  [.fair (.send [1]), .fair (.send [2]), .fair .flushA, .fair .dlvB, .fair .flushB, .fair .dlvA,
   .fair .read, .fair .read, .fair .flushB, .shuffle [] []]
def c03ProbeRound : List Sys.Ev := List.replicate 10 .tick ++ [.flushA, .dlvB, .flushB, .dlvA, .read]
def c03ProbeEvs : List Sys.Ev := (List.replicate 53 c03ProbeRound).flatten

set_option maxRecDepth 1000000 in
example : SysC.ConsInit SysC.wedgeA SysC.wedgeB ∧ SysC.wedgeA.probe_wait = 0 ∧
    SysC.NetNoWrap SysC.wedgeA.snd_nxt (Sys.init SysC.wedgeA SysC.wedgeB 0 1000) c03ProbePre ∧
    (SysC.netRun (Sys.init SysC.wedgeA SysC.wedgeB 0 1000) c03ProbePre).A.rmt_wnd = 0 ∧
    (SysC.netRun (Sys.init SysC.wedgeA SysC.wedgeB 0 1000) c03ProbePre).ba = [] ∧
    (SysC.netRun (Sys.init SysC.wedgeA SysC.wedgeB 0 1000) c03ProbePre).got = [1, 2] ∧
    SysC.ZA 10 1510 (SysC.netRun (Sys.init SysC.wedgeA SysC.wedgeB 0 1000) c03ProbePre) ∧
    1510 + 0 + 10 + 0 < (Sys.run (SysC.netRun (Sys.init SysC.wedgeA SysC.wedgeB 0 1000) c03ProbePre) c03ProbeEvs).now :=
  ⟨by decide, by decide, by decide, by decide, by decide, by decide,
   ⟨by decide, by decide, by decide, 1500, by decide, by decide, by decide⟩, by decide⟩
set_option maxRecDepth 1000000 in
example : SysC.RunP (SysC.ProbeHyp ⟨SysC.wedgeA.snd_nxt, SysC.wedgeA.conv, 0, 0, 0⟩)
    (SysC.netRun (Sys.init SysC.wedgeA SysC.wedgeB 0 1000) c03ProbePre) c03ProbeEvs := by decide

/-! ### `resume`: the reader was away, every WASK / WINS of that period may be lost, it returns

The history `pre` is arbitrary (`netRun`): it contains the period in which nobody reads at B — B's
queue fills, it advertises `wnd = 0`, A stops numbering segments (`C03_closed_throttled_no_new_sn`, the
standstill half) — and any loss of probes and answers.  In the state it leaves the reader is back: from
now on it reads whenever there is something to read (`QOk`), the links are fair, the writer has stopped.  Then the transfer completes: the window is re-opened by a probe
round (`C03_zero_window_probe_bound`), the queued segments are numbered and acknowledged one stage after
the other (Lemmas/SysDrainFair2.lean).  Hypotheses as in `C02_drain_general_partial` (Props/C02.lean):
`SysC.FairHyp` in every state of the run — head timers within `Rmax`, a send window at A,
`0 < rcv_wnd < 65536`, the reader condition; congestion control may be on or off; stale `wnd = 0`
frames still on their way to A at the return are covered (they arrive within `D`); B's queue may fill
up between two reads. -/

open KcpVerif.Sys KcpVerif.SysC in
theorem C03_resume_partial (A B : Kcp) (D t0 : Nat) (ndA ndB : Bool) (hinit : ConsInit A B)
    (hpw : A.probe_wait = 0) (hIA : A.interval.toNat < 2 ^ 29) (pre : List NetEv)
    (hpre : NetNoWrap A.snd_nxt (Sys.init A B D t0 ndA ndB) pre) (Rmax : Nat) (hR : Rmax + A.interval.toNat < 2 ^ 31)
    (evs : List Ev) (hns : ∀ ev ∈ evs, isSend ev = false)
    (hr : RunP (FairHyp ⟨A.snd_nxt, A.conv, 0, 0, 0⟩ Rmax A.interval.toNat) (netRun (Sys.init A B D t0 ndA ndB) pre) evs)
    (hnow : (netRun (Sys.init A B D t0 ndA ndB) pre).now + 1 + (netRun (Sys.init A B D t0 ndA ndB) pre).A.waitSnd *
      (fairStage Rmax A.interval.toNat B.interval.toNat (netRun (Sys.init A B D t0 ndA ndB) pre).D + 2) ≤
      (Sys.run (netRun (Sys.init A B D t0 ndA ndB) pre) evs).now) :
    (Sys.run (netRun (Sys.init A B D t0 ndA ndB) pre) evs).A.waitSnd = 0 := by
  obtain ⟨hi, hpi⟩ := inv_pinv_netRun (by omega) pre _ (inv_init A B D t0 ndA ndB hinit)
    (pinv_init A B D t0 ndA ndB hpw) hpre
  exact drain_fair_any hIA hR hi hpi (arrOk_netRun pre _ (arrOk_init A B D t0 ndA ndB)) evs hns hr hnow

/-! what `C03_resume_partial` does not cover (the full statement stays `C03_resume_full` above): the
derivation of `TmrOk` from the number of earlier timeouts (the RTO backoff of a segment is not capped in
kcp-go, so a bound on the head's timer is a hypothesis), and a writer that goes on writing. -/

/-! non-vacuity of `C03_resume_partial`, and three scenarios evaluated (the run hypotheses hold in
every state: `runFairChk_sound`, `Rmax = 300`; the length hypothesis `hnow` of the theorem asks for
`WaitSnd · (fairStage + 2)` > 120 s of clock per waiting segment, which only needs more idle rounds —
the worst-case bound is dominated by the 120 s probe back-off cap).

1. B has a receive window of 4; A writes six one-byte messages and flushes while nobody reads: B queues
   four, buffers two, acknowledges all six with `wnd = 0`; A processes the ACKs (`rmt_wnd = 0`, probe
   timer armed for t = 1500) and the writer writes three more messages, which stay in the queue.  The
   reader returns and reads six messages; the WINS this schedules is flushed and LOST.  State:
   `rmt_wnd = 0`, three segments queued, nothing in flight.  Then 55 rounds of "10 ticks, flushes,
   deliveries, four reads": the WASK goes out at t = 1500, the window re-opens, the three segments are
   numbered, delivered, read and acknowledged by t = 1510. -/

def c03ResA : Kcp := Kcp.noDelay (Kcp.new 7) 1 10 2 1
def c03ResB : Kcp := Kcp.wndSize (Kcp.noDelay (Kcp.new 7) 1 10 2 1) 32 4
def c03ResPre : List SysC.NetEv :=
  [.fair (.send [1]), .fair (.send [2]), .fair (.send [3]), .fair (.send [4]), .fair (.send [5]), .fair (.send [6]),
   .fair .flushA, .fair .dlvB, .fair .flushB, .fair .dlvA,
   .fair (.send [7]), .fair (.send [8]), .fair (.send [9]),
   .fair .read, .fair .read, .fair .read, .fair .read, .fair .read, .fair .read, .fair .flushB, .shuffle [] []]
def c03ResRound : List Sys.Ev := List.replicate 10 .tick ++ [.flushA, .dlvB, .flushB, .dlvA, .read, .read, .read, .read]
def c03ResEvs : List Sys.Ev := (List.replicate 55 c03ResRound).flatten

set_option maxRecDepth 1000000 in
example : SysC.ConsInit c03ResA c03ResB ∧ c03ResA.probe_wait = 0 ∧ c03ResA.interval.toNat = 10 ∧
    SysC.NetNoWrap c03ResA.snd_nxt (Sys.init c03ResA c03ResB 0 1000) c03ResPre ∧
    (SysC.netRun (Sys.init c03ResA c03ResB 0 1000) c03ResPre).A.rmt_wnd = 0 ∧
    (SysC.netRun (Sys.init c03ResA c03ResB 0 1000) c03ResPre).A.snd_buf = [] ∧
    (SysC.netRun (Sys.init c03ResA c03ResB 0 1000) c03ResPre).A.snd_queue.length = 3 ∧
    (SysC.netRun (Sys.init c03ResA c03ResB 0 1000) c03ResPre).B.rcv_queue = [] ∧
    (SysC.netRun (Sys.init c03ResA c03ResB 0 1000) c03ResPre).got = [1, 2, 3, 4, 5, 6] ∧
    (∀ ev ∈ c03ResEvs, SysC.isSend ev = false) ∧
    (Sys.run (SysC.netRun (Sys.init c03ResA c03ResB 0 1000) c03ResPre) c03ResEvs).A.waitSnd = 0 ∧
    (Sys.run (SysC.netRun (Sys.init c03ResA c03ResB 0 1000) c03ResPre) c03ResEvs).got = [1, 2, 3, 4, 5, 6, 7, 8, 9] := by
  decide
set_option maxRecDepth 1000000 in
example : SysC.RunP (SysC.FairHyp ⟨c03ResA.snd_nxt, c03ResA.conv, 0, 0, 0⟩ 300 10)
    (SysC.netRun (Sys.init c03ResA c03ResB 0 1000) c03ResPre) c03ResEvs :=
  SysC.runFairChk_sound ⟨c03ResA.snd_nxt, c03ResA.conv, 0, 0, 0⟩ 300 10 _ _ (by decide)

/-! 2. the same with congestion control ON (`nocwnd = 0`, fresh `cwnd = 0`): the history first lets the
congestion window open to 2, the reader stays away until B's queue of four is full and A has learned
`wnd = 0` with five messages still queued; the reader returns, the WINS is lost; along 58 rounds the
window re-opens at t = 1500 and everything is delivered, read and acknowledged. -/

def c03CcA : Kcp := Kcp.noDelay (Kcp.new 7) 1 10 2 0
def c03CcB : Kcp := Kcp.wndSize (Kcp.noDelay (Kcp.new 7) 1 10 2 0) 32 4
def c03CcPre : List SysC.NetEv :=
  [.fair (.send [1]), .fair (.send [2]), .fair (.send [3]), .fair (.send [4]), .fair (.send [5]), .fair (.send [6]),
   .fair .flushA, .fair .flushA, .fair .dlvB, .fair .flushB, .fair .dlvA, .fair .flushA, .fair .dlvB, .fair .flushB,
   .fair .dlvA, .fair .flushA, .fair .dlvB, .fair .flushB, .fair .dlvA,
   .fair (.send [7]), .fair (.send [8]), .fair (.send [9]),
   .fair .read, .fair .read, .fair .read, .fair .read, .fair .read, .fair .read, .fair .flushB, .shuffle [] []]
def c03CcEvs : List Sys.Ev := (List.replicate 58 c03ResRound).flatten

set_option maxRecDepth 1000000 in
example : SysC.ConsInit c03CcA c03CcB ∧ c03CcA.probe_wait = 0 ∧ c03CcA.nocwnd = 0 ∧ c03CcA.cwnd = 0 ∧
    SysC.NetNoWrap c03CcA.snd_nxt (Sys.init c03CcA c03CcB 0 1000) c03CcPre ∧
    (SysC.netRun (Sys.init c03CcA c03CcB 0 1000) c03CcPre).A.rmt_wnd = 0 ∧
    (SysC.netRun (Sys.init c03CcA c03CcB 0 1000) c03CcPre).A.snd_buf = [] ∧
    (SysC.netRun (Sys.init c03CcA c03CcB 0 1000) c03CcPre).A.snd_queue.length = 5 ∧
    (SysC.netRun (Sys.init c03CcA c03CcB 0 1000) c03CcPre).B.rcv_queue = [] ∧
    (∀ ev ∈ c03CcEvs, SysC.isSend ev = false) ∧
    (Sys.run (SysC.netRun (Sys.init c03CcA c03CcB 0 1000) c03CcPre) c03CcEvs).A.waitSnd = 0 ∧
    (Sys.run (SysC.netRun (Sys.init c03CcA c03CcB 0 1000) c03CcPre) c03CcEvs).got = [1, 2, 3, 4, 5, 6, 7, 8, 9] := by
  decide
set_option maxRecDepth 1000000 in
example : SysC.RunP (SysC.FairHyp ⟨c03CcA.snd_nxt, c03CcA.conv, 0, 0, 0⟩ 300 10)
    (SysC.netRun (Sys.init c03CcA c03CcB 0 1000) c03CcPre) c03CcEvs :=
  SysC.runFairChk_sound ⟨c03CcA.snd_nxt, c03CcA.conv, 0, 0, 0⟩ 300 10 _ _ (by decide)

/-! 3. a receive window of ONE segment (`wedgeB`): every arrival fills B's queue until the next read, so
"B's queue is never full" (`SysC.runFullChk`) fails along this run while the reader condition holds.  A
writes three messages and flushes, B takes the first and drops the other two (out of window), its ACK
carries `wnd = 0`; a fourth message is queued; the reader reads; the WINS is lost.  State: `rmt_wnd = 0`,
one segment outstanding, one queued.  Along 25 rounds the timer of the outstanding segment fires at
t = 1200 and everything is delivered, read and acknowledged. -/

def c03W1Pre : List SysC.NetEv :=
  [.fair (.send [1]), .fair (.send [2]), .fair (.send [3]), .fair .flushA, .fair .dlvB, .fair .flushB, .fair .dlvA,
   .fair (.send [4]), .fair .read, .fair .read, .fair .flushB, .shuffle [] []]
def c03W1Round : List Sys.Ev :=
  List.replicate 10 .tick ++ [.flushA, .dlvB, .read, .flushB, .dlvA, .read, .flushA, .dlvB, .read, .flushB, .dlvA]
def c03W1Evs : List Sys.Ev := (List.replicate 25 c03W1Round).flatten

set_option maxRecDepth 1000000 in
example : SysC.ConsInit SysC.wedgeA SysC.wedgeB ∧ SysC.wedgeB.rcv_wnd.toNat = 1 ∧
    SysC.NetNoWrap SysC.wedgeA.snd_nxt (Sys.init SysC.wedgeA SysC.wedgeB 0 1000) c03W1Pre ∧
    (SysC.netRun (Sys.init SysC.wedgeA SysC.wedgeB 0 1000) c03W1Pre).A.rmt_wnd = 0 ∧
    (SysC.netRun (Sys.init SysC.wedgeA SysC.wedgeB 0 1000) c03W1Pre).A.waitSnd = 2 ∧
    (SysC.netRun (Sys.init SysC.wedgeA SysC.wedgeB 0 1000) c03W1Pre).B.rcv_queue = [] ∧
    (∀ ev ∈ c03W1Evs, SysC.isSend ev = false) ∧
    SysC.runFullChk SysC.wedgeA.snd_nxt 300 10 (SysC.netRun (Sys.init SysC.wedgeA SysC.wedgeB 0 1000) c03W1Pre) c03W1Evs = false ∧
    (Sys.run (SysC.netRun (Sys.init SysC.wedgeA SysC.wedgeB 0 1000) c03W1Pre) c03W1Evs).A.waitSnd = 0 ∧
    (Sys.run (SysC.netRun (Sys.init SysC.wedgeA SysC.wedgeB 0 1000) c03W1Pre) c03W1Evs).got = [1, 2, 3, 4] := by
  decide
set_option maxRecDepth 1000000 in
example : SysC.RunP (SysC.FairHyp ⟨SysC.wedgeA.snd_nxt, SysC.wedgeA.conv, 0, 0, 0⟩ 300 10)
    (SysC.netRun (Sys.init SysC.wedgeA SysC.wedgeB 0 1000) c03W1Pre) c03W1Evs :=
  SysC.runFairChk_sound ⟨SysC.wedgeA.snd_nxt, SysC.wedgeA.conv, 0, 0, 0⟩ 300 10 _ _ (by decide)

/-! 4. ALL hypotheses of `C03_resume_partial` at once, the length included — by evaluation only (`#guard`,
not a kernel proof: the run has 170 000 events): flush interval 5000 ms at both ends, one segment written,
flushed and lost; 34 rounds of "5000 ticks, flushes, deliveries, read" take the clock to t = 161 500,
beyond `1 + 1 · (fairStage 300 5000 5000 0 + 2) = 155 306` ms after the start; `FairHyp` holds in every
state, and the segment is delivered and acknowledged. -/

def c03LongA : Kcp := Kcp.noDelay (Kcp.new 7) 1 5000 2 1
def c03LongPre : List SysC.NetEv := [.fair (.send [1]), .fair .flushA, .shuffle [] []]
def c03LongRound : List Sys.Ev := List.replicate 5000 .tick ++ [.flushA, .dlvB, .read, .flushB, .dlvA]
def c03LongEvs : List Sys.Ev := (List.replicate 34 c03LongRound).flatten

#guard decide (SysC.ConsInit c03LongA c03LongA ∧ c03LongA.probe_wait = 0 ∧ c03LongA.interval.toNat = 5000 ∧
    SysC.NetNoWrap c03LongA.snd_nxt (Sys.init c03LongA c03LongA 0 1000) c03LongPre ∧ (∀ ev ∈ c03LongEvs, SysC.isSend ev = false))
#guard SysC.runFairChk c03LongA.snd_nxt 300 5000 (SysC.netRun (Sys.init c03LongA c03LongA 0 1000) c03LongPre) c03LongEvs
#guard decide ((SysC.netRun (Sys.init c03LongA c03LongA 0 1000) c03LongPre).now + 1 +
    (SysC.netRun (Sys.init c03LongA c03LongA 0 1000) c03LongPre).A.waitSnd * (SysC.fairStage 300 5000 5000 0 + 2) ≤
    (Sys.run (SysC.netRun (Sys.init c03LongA c03LongA 0 1000) c03LongPre) c03LongEvs).now)
#guard (Sys.run (SysC.netRun (Sys.init c03LongA c03LongA 0 1000) c03LongPre) c03LongEvs).A.waitSnd == 0

end KcpVerif.Props
