import KcpVerif.Model.Kcp
/-! C03 — a stalled reader throttles the sender and transfer resumes afterwards. -/
namespace KcpVerif.Props
open KcpVerif KcpVerif.Gen KcpVerif.Kcp

/-- the probe back-off stays between `IKCP_PROBE_INIT` and `IKCP_PROBE_LIMIT` -/
theorem C03_nextProbeWait_bounds (w : U32) (hlim : w ≤ u32 IKCP_PROBE_LIMIT) :
    u32 IKCP_PROBE_INIT ≤ nextProbeWait w ∧ nextProbeWait w ≤ u32 IKCP_PROBE_LIMIT := by
  unfold nextProbeWait
  simp only [u32, IKCP_PROBE_INIT, IKCP_PROBE_LIMIT] at *
  by_cases h1 : w < BitVec.ofNat 32 500
  · simp only [h1, ↓reduceIte]; decide
  · simp only [h1, ↓reduceIte]
    have hd : (w / 2).toNat = w.toNat / 2 := by
      show (w / BitVec.ofNat 32 2).toNat = _
      simp [BitVec.toNat_udiv]
    generalize w / 2 = d at hd ⊢
    by_cases h2 : w + d > BitVec.ofNat 32 120000
    · simp only [h2, ↓reduceIte]; decide
    · simp only [h2, ↓reduceIte]
      have hw : w.toNat ≤ 120000 := by bv_omega
      have hw' : 500 ≤ w.toNat := by bv_omega
      have hsum : (w + d).toNat = w.toNat + d.toNat := by rw [BitVec.toNat_add]; omega
      constructor
      · rw [BitVec.le_def, hsum]; simp; omega
      · bv_omega

/-- while the peer advertises a zero window the probe timer is armed: either it was (re)armed by
this flush with a wait in `[IKCP_PROBE_INIT, IKCP_PROBE_LIMIT]`, or it is still pending -/
theorem C03_probe_armed (k : Kcp) (now : U32) (h0 : k.rmt_wnd = 0)
    (hlim : k.probe_wait ≤ u32 IKCP_PROBE_LIMIT) :
    (u32 IKCP_PROBE_INIT ≤ (probePhase k now).probe_wait ∧
      (probePhase k now).probe_wait ≤ u32 IKCP_PROBE_LIMIT ∧
      (probePhase k now).ts_probe = now + (probePhase k now).probe_wait) ∨
    ((probePhase k now) = k ∧ k.probe_wait ≠ 0 ∧ ¬ itimediff now k.ts_probe ≥ 0) := by
  unfold probePhase
  rw [if_pos h0]
  by_cases h1 : k.probe_wait = 0
  · rw [if_pos h1]; left
    refine ⟨?_, ?_, rfl⟩ <;> simp only [u32, IKCP_PROBE_INIT, IKCP_PROBE_LIMIT] <;> decide
  · rw [if_neg h1]
    by_cases h2 : itimediff now k.ts_probe ≥ 0
    · rw [if_pos h2]; left
      exact ⟨(C03_nextProbeWait_bounds _ hlim).1, (C03_nextProbeWait_bounds _ hlim).2, rfl⟩
    · rw [if_neg h2]; right; exact ⟨rfl, h1, h2⟩

/-- a due probe timer schedules a WASK in the same flush -/
theorem C03_probe_fires (k : Kcp) (now : U32) (h0 : k.rmt_wnd = 0) (h1 : k.probe_wait ≠ 0)
    (h2 : itimediff now k.ts_probe ≥ 0) :
    (probePhase k now).probe = k.probe ||| u32 IKCP_ASK_SEND := by
  unfold probePhase
  rw [if_pos h0, if_neg h1, if_pos h2]

/-- once a non-zero window is known the probe state is reset -/
theorem C03_probe_reset (k : Kcp) (now : U32) (h : k.rmt_wnd ≠ 0) :
    (probePhase k now).probe_wait = 0 ∧ (probePhase k now).ts_probe = 0 := by
  unfold probePhase; rw [if_neg h]; exact ⟨rfl, rfl⟩

end KcpVerif.Props
