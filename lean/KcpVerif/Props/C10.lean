import KcpVerif.Model.Kcp
/-! C10 — no datagram exceeds the configured MTU; accepted MTUs are safe (core half). -/
namespace KcpVerif.Props
open KcpVerif KcpVerif.Gen KcpVerif.Kcp

/-- `makeSpace` keeps the pending bytes within the MTU whenever the request fits one -/
theorem C10_makeSpace_fits (f : Fl) (space : Nat) (hs : space ≤ f.k.mtu.toNat) (hc : f.cur.length ≤ f.k.mtu.toNat) :
    (f.makeSpace space).cur.length + space ≤ f.k.mtu.toNat ∧ (f.makeSpace space).k = f.k := by
  unfold Fl.makeSpace
  split
  · simp; exact hs
  · constructor
    · omega
    · rfl

/-- a value at or below the header size is refused and changes nothing -/
theorem C10_setMtu_refuses_small (k : Kcp) (m : Int) (h : m ≤ (IKCP_OVERHEAD : Int)) : setMtu k m = (k, -1) := by
  unfold setMtu; simp [h]

end KcpVerif.Props
