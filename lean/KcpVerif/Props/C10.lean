import KcpVerif.Lemmas.SessOut
/-!
C10 (session half) — no datagram exceeds the configured MTU; accepted MTUs are safe.

The core half (`flush` never hands the output callback more than the core's mtu, nor an empty
packet) is proved on the core model elsewhere; here it is the hypothesis `size ≤ core mtu` /
`body.length ≤ core mtu`.  External primitives enter through `LenLaws` (block ciphers keep the
length, AEAD Seal adds exactly `Overhead()`, an entropy Read yields 16 bytes).
-/
namespace KcpVerif.Props
open KcpVerif KcpVerif.Gen KcpVerif.Wire KcpVerif.SessOut

/-- `UDPSession.SetMtu m` hands the core `min 1500 m − headerSize − aeadOverhead` and is accepted iff
the core accepts; every core accepts only values above `IKCP_OVERHEAD`.  For an accepted `m`, whatever
the cipher/FEC combination: the core MTU exceeds 24; every output of `size ≤ core mtu` bytes becomes a
datagram of `size + headerSize + overhead ≤ min 1500 m` bytes; the pooled buffer `Get()[:size+headerSize]`
(capacity `mtuLimit`) is never exceeded and leaves room for the AEAD tag (the capacity test of the
AEAD wrapper succeeds). -/
theorem C10_session_mtu_arith (c : Cfg) (coreOk : Int → Bool)
    (hcore : ∀ x, coreOk x = true → (IKCP_OVERHEAD : Int) < x) (cur : Nat) (m : Int)
    (hacc : (setMtu c coreOk cur m).ok = true) :
    let mtu := (setMtu c coreOk cur m).coreMtu
    IKCP_OVERHEAD < mtu ∧ (mtu : Int) = min (mtuLimit : Int) m - c.headerSize - c.overhead ∧
    ∀ size, size ≤ mtu →
      ((size + c.headerSize + c.overhead : Nat) : Int) ≤ min (mtuLimit : Int) m ∧
      size + c.headerSize + c.overhead ≤ mtuLimit ∧ outputCb c size ≠ .panic := by
  intro mtu
  have hk : coreOk (coreMtuArg c m) = true := by
    by_cases h : coreOk (coreMtuArg c m) = true
    · exact h
    · simp [setMtu, h] at hacc
  have hgt := hcore _ hk
  have hm : mtu = (coreMtuArg c m).toNat := by simp only [mtu, setMtu, hk, if_true]
  have harg : coreMtuArg c m = min (mtuLimit : Int) m - c.headerSize - c.overhead := rfl
  have hcast : ((coreMtuArg c m).toNat : Int) = coreMtuArg c m := Int.toNat_of_nonneg (by simp only [IKCP_OVERHEAD] at hgt; omega)
  have hmin : min (mtuLimit : Int) m ≤ mtuLimit := Int.min_le_left _ _
  refine ⟨?_, by rw [hm, hcast, harg], ?_⟩
  · rw [hm]; simp only [IKCP_OVERHEAD] at hgt ⊢; omega
  · intro size hs
    have h1 : ((size + c.headerSize + c.overhead : Nat) : Int) ≤ min (mtuLimit : Int) m := by
      rw [hm] at hs; omega
    have hle : size + c.headerSize + c.overhead ≤ mtuLimit := by have := Int.le_trans h1 hmin; omega
    refine ⟨h1, hle, ?_⟩
    simp only [outputCb]
    split
    · intro h; cases h
    · rw [if_neg (by omega)]; intro h; cases h

/-- with the original core, acceptance is exactly `min 1500 m − headerSize − overhead > 24`; a refused
value leaves the core MTU unchanged -/
theorem C10_session_mtu_accept_iff (c : Cfg) (cur : Nat) (m : Int) :
    ((setMtu c coreAcceptsOrig cur m).ok = true ↔
      (IKCP_OVERHEAD : Int) < min (mtuLimit : Int) m - c.headerSize - c.overhead) ∧
    ((setMtu c coreAcceptsOrig cur m).ok = false → (setMtu c coreAcceptsOrig cur m).coreMtu = cur) := by
  simp only [setMtu, coreAcceptsOrig, coreMtuArg]
  by_cases h : (IKCP_OVERHEAD : Int) < min (mtuLimit : Int) m - c.headerSize - c.overhead
  · simp [h]
  · simp [h]

/-- the repaired core refuses more values, never accepts new ones, so the previous theorem's
hypothesis `hcore` holds for both -/
theorem C10_session_core_rules (maxq : Nat) (x : Int) :
    (coreAcceptsOrig x = true → (IKCP_OVERHEAD : Int) < x) ∧
    (coreAcceptsFixed maxq x = true → (IKCP_OVERHEAD : Int) < x) := by
  simp only [coreAcceptsOrig, coreAcceptsFixed, Bool.and_eq_true, decide_eq_true_eq]
  exact ⟨id, fun h => h.1.1⟩

/-- the default MTU is accepted for every cipher with header + overhead < 1376, in particular for all
configurations the package can build (non-vacuity: `panic("Overhead too large")` is unreachable) -/
example : ∀ ci ∈ [Cipher.none, .block, .aead 12 16], ∀ fec ∈ [(0, 0), (10, 3)],
    (setMtu { cipher := ci, d := fec.1, p := fec.2 } coreAcceptsOrig 0 IKCP_MTU_DEF).ok = true := by decide

/-! ### datagram lengths -/

/-- a session's `headerSize` counts the FEC header iff it has an encoder -/
def Consistent {γ : Type} (c : Cfg) (st : PP γ) : Prop := st.enc.isSome = c.fecOn

/-- every original (non-parity) datagram of a request has length `headerSize + |body| + overhead`;
every parity datagram has the length of the longest data packet of its group (+ overhead) -/
theorem C10_session_dgram_len {γ : Type} (P : Prims γ) (c : Cfg) (L : LenLaws P c) (st : PP γ) (r : Req)
    (hcons : Consistent c st) :
    ∀ em ∈ (ppStep P c st r).emits,
      (em.pkt.kind ≠ .parity → em.wire.length = c.headerSize + r.body.length + c.overhead) ∧
      (em.pkt.kind = .parity → ∃ e, st.enc = some e ∧ r.oob = false ∧
         em.wire.length = newMax c.cryptBase e r.body + c.overhead) := by
  intro em hem
  obtain ⟨g', pkt, hp, rfl⟩ := mem_cryptAll P c _ _ em hem
  rw [crypt_wire_length P c L, crypt_pkt]
  cases henc : st.enc with
  | none =>
    have hf : c.fecOn = false := by simpa [Consistent, henc] using hcons.symm
    simp only [fecStage, henc, List.mem_singleton] at hp
    subst hp
    simp only [Cfg.headerSize, hf]
    exact ⟨fun _ => by simp, fun h => by cases h⟩
  | some e =>
    have hf : c.fecOn = true := by simpa [Consistent, henc] using hcons.symm
    simp only [fecStage, henc] at hp
    by_cases hoob : r.oob = true
    · simp only [hoob, if_true, List.mem_singleton] at hp
      subst hp
      refine ⟨fun _ => ?_, fun h => by cases h⟩
      simp only [encodeOOB, Cfg.headerSize, hf, if_true, List.length_append, fecHeader_length, sizeField_length,
        fecHeaderSize, fecHeaderSizePlus2]
      omega
    · have hoob' : r.oob = false := by simpa using hoob
      simp only [hoob', Bool.false_eq_true, if_false, List.mem_cons] at hp
      have hl := encode_lengths P.parity c.cryptBase e r.body r.now maxFECEncodeLatency
      rcases hp with hp | hp
      · subst hp
        refine ⟨fun _ => ?_, fun h => ?_⟩
        · rw [hl.1]; simp only [Cfg.headerSize, hf, if_true, fecHeaderSizePlus2]; omega
        · rw [encode_pkt] at h; cases h
      · have hk : pkt.kind = .parity := by
          by_cases hfull : e.cache.length + 1 = e.d
          · by_cases hg : r.now - e.tsLatest < maxFECEncodeLatency
            · rw [(encode_full_ok _ _ e r.body r.now _ hfull hg).2] at hp
              obtain ⟨_, _, _, h1, _⟩ := mem_sealParities _ _ _ hp
              exact h1
            · rw [(encode_full_skip _ _ e r.body r.now _ hfull hg).2] at hp; cases hp
          · rw [(encode_mid _ _ e r.body r.now _ hfull).2] at hp; cases hp
        refine ⟨fun h => absurd hk h, fun _ => ⟨e, rfl, by simpa using hoob, ?_⟩⟩
        have := hl.2 pkt hp
        omega

/-- the bound over a whole request sequence, MTU constant: if every request's packet fits the bound
`B` (`headerSize + |body| ≤ B`) and so does the longest packet of the group that is open at the start
("the MTU did not shrink since the first data packet of the group"), then EVERY datagram — data,
OOB and parity — is at most `B + overhead` bytes. -/
theorem C10_session_sizes {γ : Type} (P : Prims γ) (c : Cfg) (L : LenLaws P c) (B : Nat) :
    ∀ (reqs : List Req) (st : PP γ), Consistent c st →
      (∀ e, st.enc = some e → e.maxSize ≤ B) →
      (∀ r ∈ reqs, c.headerSize + r.body.length ≤ B) →
      ∀ em ∈ (postProcess P c st reqs).emits, em.wire.length ≤ B + c.overhead := by
  intro reqs
  induction reqs with
  | nil => intro st _ _ _ em hem; cases hem
  | cons r rs ih =>
    intro st hcons hmax hreq em hem
    have hr := hreq r (by simp)
    simp only [postProcess, List.mem_append] at hem
    rcases hem with hem | hem
    · have := C10_session_dgram_len P c L st r hcons em hem
      by_cases hk : em.pkt.kind = .parity
      · obtain ⟨e, he, _, hlen⟩ := this.2 hk
        have hf : c.fecOn = true := by simpa [Consistent, he] using hcons.symm
        have : newMax c.cryptBase e r.body ≤ B :=
          newMax_le _ _ _ _ (hmax e he) (by simp only [Cfg.headerSize, hf, if_true] at hr; omega)
        omega
      · rw [this.1 hk]; omega
    · refine ih (ppStep P c st r).st ?_ ?_ (fun r' hr' => hreq r' (by simp [hr'])) em hem
      · -- the encoder stays present / absent
        show (fecStage P c st.enc r).1.isSome = c.fecOn
        rw [← hcons]
        cases st.enc with
        | none => rfl
        | some e => simp only [fecStage]; split <;> rfl
      · intro e' he'
        simp only [ppStep, fecStage] at he'
        cases henc : st.enc with
        | none => rw [henc] at he'; cases he'
        | some e =>
          rw [henc] at he'
          have hf : c.fecOn = true := by simpa [Consistent, henc] using hcons.symm
          by_cases hoob : r.oob = true
          · simp only [hoob, if_true, Option.some.injEq] at he'
            rw [← he']; exact hmax e henc
          · have hoob' : r.oob = false := by simpa using hoob
            simp only [hoob', Bool.false_eq_true, if_false, Option.some.injEq] at he'
            rw [← he']
            have hB : newMax c.cryptBase e r.body ≤ B :=
              newMax_le _ _ _ _ (hmax e henc) (by simp only [Cfg.headerSize, hf, if_true] at hr; omega)
            rcases encode_maxSize P.parity c.cryptBase e r.body r.now maxFECEncodeLatency with h | h <;> omega

/-- composition with `C10_session_mtu_arith`: under an accepted MTU `m`, constant over the request
sequence, with the core's outputs at most the core MTU, no datagram exceeds `min 1500 m`. -/
theorem C10_session_no_datagram_exceeds_mtu {γ : Type} (P : Prims γ) (c : Cfg) (L : LenLaws P c) (coreOk : Int → Bool)
    (hcore : ∀ x, coreOk x = true → (IKCP_OVERHEAD : Int) < x) (cur : Nat) (m : Int)
    (hacc : (setMtu c coreOk cur m).ok = true) (reqs : List Req) (st : PP γ) (hcons : Consistent c st)
    (hgroup : ∀ e, st.enc = some e → e.maxSize ≤ c.headerSize + (setMtu c coreOk cur m).coreMtu)
    (hreq : ∀ r ∈ reqs, r.body.length ≤ (setMtu c coreOk cur m).coreMtu) :
    ∀ em ∈ (postProcess P c st reqs).emits, (em.wire.length : Int) ≤ min (mtuLimit : Int) m := by
  intro em hem
  have ha := C10_session_mtu_arith c coreOk hcore cur m hacc
  have := C10_session_sizes P c L (c.headerSize + (setMtu c coreOk cur m).coreMtu) reqs st hcons hgroup
    (fun r hr => by have := hreq r hr; omega) em hem
  have h2 := (ha.2.2 _ (Nat.le_refl _)).1
  omega

/-! ### D11: parity after a shrink in mid group -/

def d11Prims : Prims Nat :=
  { crc := fun _ => 0, parity := fun _ _ => [], draw := fun g => { g := g + 1, out := List.replicate 16 0 },
    encB := id, decB := id, aseal := fun _ x => x, aopen := fun _ x => some x }

/-- WITHOUT the hypothesis "the MTU did not shrink since the first data packet of the group" the
bound is false: FEC 2/1 without cipher, `SetMtu(100)` (core 92), a full-size packet (datagram of
100 bytes), then `SetMtu(60)` — accepted, nothing is queued in the core — and a full-size packet
for the new MTU (60 bytes) closes the group: the parity datagram is 100 bytes > 60. -/
theorem C10_session_parity_after_shrink_counterexample :
    let c : Cfg := { cipher := .none, d := 2, p := 1 }
    let m1 := setMtu c coreAcceptsOrig 0 100
    let o1 := ppStep d11Prims c { enc := newEnc c, gen := 0 } { oob := false, body := List.replicate m1.coreMtu 7, now := 1000 }
    let m2 := setMtu c coreAcceptsOrig m1.coreMtu 60
    let o2 := ppStep d11Prims c o1.st { oob := false, body := List.replicate m2.coreMtu 7, now := 1001 }
    m1.ok = true ∧ m2.ok = true ∧ (∀ em ∈ o1.emits, em.wire.length ≤ 100) ∧
    ∃ em ∈ o2.emits, em.pkt.kind = .parity ∧ em.wire.length = 100 ∧ 60 < em.wire.length := by
  decide

/-! ### out-of-band sizes -/

/-- `SendOOB` accepts iff `4 + |data| ≤ core mtu` (FEC on); `GetOOBMaxSize = core mtu − 4`; the
queued body is `conv ‖ data` -/
theorem C10_session_oob_size (c : Cfg) (coreMtu : Nat) (conv : BitVec 32) (data : Bytes) (hf : c.fecOn = true) :
    ((∃ b, sendOOB c coreMtu conv data = .queued b) ↔ convSize + data.length ≤ coreMtu) ∧
    (sendOOB c coreMtu conv data = .errTooLarge ↔ coreMtu < convSize + data.length) ∧
    getOOBMaxSize c coreMtu = (coreMtu : Int) - convSize ∧
    (∀ b, sendOOB c coreMtu conv data = .queued b → b = le32 conv ++ data ∧ b.length = convSize + data.length) := by
  simp only [sendOOB, getOOBMaxSize, hf, Bool.not_true, Bool.false_eq_true, if_false]
  refine ⟨?_, ?_, trivial, ?_⟩
  · split <;> simp <;> omega
  · split <;> simp <;> omega
  · intro b; split
    · intro h; cases h
    · intro h; cases h; exact ⟨rfl, by simp [le32_length, convSize]⟩

/-- the datagram of an accepted out-of-band message is at most `min 1500 m` bytes -/
theorem C10_session_oob_dgram {γ : Type} (P : Prims γ) (c : Cfg) (L : LenLaws P c) (coreOk : Int → Bool)
    (hcore : ∀ x, coreOk x = true → (IKCP_OVERHEAD : Int) < x) (cur : Nat) (m : Int)
    (hacc : (setMtu c coreOk cur m).ok = true) (st : PP γ) (hcons : Consistent c st) (conv : BitVec 32) (data b : Bytes)
    (now : Int) (hq : sendOOB c (setMtu c coreOk cur m).coreMtu conv data = .queued b) :
    ∀ em ∈ (ppStep P c st { oob := true, body := b, now := now }).emits,
      em.wire.length = c.headerSize + convSize + data.length + c.overhead ∧
      (em.wire.length : Int) ≤ min (mtuLimit : Int) m := by
  intro em hem
  have hf : c.fecOn = true := by
    by_cases h : c.fecOn = true
    · exact h
    · simp [sendOOB, h] at hq
  have hs := C10_session_oob_size c (setMtu c coreOk cur m).coreMtu conv data hf
  have hle := hs.1.1 ⟨b, hq⟩
  have hb := (hs.2.2.2 b hq).2
  have hd := C10_session_dgram_len P c L st _ hcons em hem
  have hk : em.pkt.kind ≠ .parity := by
    intro hk
    obtain ⟨_, _, ho, _⟩ := hd.2 hk
    cases ho
  have hlen := hd.1 hk
  simp only [hb] at hlen
  have ha := C10_session_mtu_arith c coreOk hcore cur m hacc
  have h2 := (ha.2.2 _ hle).1
  exact ⟨by omega, by omega⟩

end KcpVerif.Props
