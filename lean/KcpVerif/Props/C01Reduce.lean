import KcpVerif.Props.C01Session
import KcpVerif.Props.C06
import KcpVerif.Lemmas.Wire
import KcpVerif.Lemmas.FecDec
import KcpVerif.Lemmas.FecEnc
/-!
C01 — reductions for the configurations with a cipher and with FEC (`C01_session_reductions`,
DESIGN.md 7.1 items 6–7 and 13).  Core Lean only; the hypotheses that are conclusions of theorems
living in Mathlib-dependent modules are explicit and named after the theorem that discharges them
(`Props/C01Full.lean` does the discharging).

(a) **Cipher.**  The receive entry point is `SessIn.sessionPacketInput` (the model of
`UDPSession.packetInput` the gate theorems of C06 are about), the sender's datagram is
`enc (nonce ‖ le32 (crc frame) ‖ frame)` (`Wire.cryptFrame`, what `C09_crypt_header` proves
`postProcess` emits).  A network that replays, drops, duplicates, reorders AND corrupts ciphertext
datagrams — any corruption the integrity check catches — is, behind the gate, a replay-only network
on plaintext frames: every frame reaching `kcpInput` is a frame the peer emitted, and the session
state is the one obtained by feeding `kcpInput` exactly those frames (`C01_cipher_reduction`).
Composed with `C01_session_plain`: `C01_session_cipher`.

(b) **FEC.**  `fecInputCalls` transcribes the FEC branch of `UDPSession.kcpInput`: a data packet's
payload goes to `Input` with `regular = true`, every recovered shard that passes the size check
(`Fec.trim`) goes to `Input` with `regular = false`.  Given `C07_dec_sound`, every payload handed to
`Input` — with either flag — is byte-equal to a KCP datagram the peer's FEC encoder was handed
(`C01_fec_reduction`): FEC-recovered input is a REPLAY of genuine datagrams, which the network of
`C01_core` already contains with any `regular` flag (`C01_fec_calls_are_replays`).
-/
namespace KcpVerif.Props
open KcpVerif KcpVerif.Gen KcpVerif.C01

/-! ## (a) cipher -/

/-- what the reduction needs of a CRC-style cipher (`enc` = `BlockCrypt.Encrypt` on the whole frame);
each field is the conclusion of a proved theorem -/
structure C01_BlockCipherLaws (c : SessIn.Cipher) (enc : Bytes → Bytes) : Prop where
  /-- the session uses the CRC branch of `packetInput` -/
  kind : c.kind = .block
  /-- `C08_cfb_roundtrip` / `C08_stream_roundtrip`: decryption undoes encryption -/
  C08_roundtrip : ∀ x : Bytes, c.dec (enc x) = x
  /-- `C08_cfb_length`: encryption preserves the length -/
  C08_length : ∀ x : Bytes, (enc x).length = x.length

theorem C01_le32_read (v : BitVec 32) (rest : Bytes) : SessIn.le32 (Wire.le32 v ++ rest) 0 = v := by
  have h := Wire.u32_le32_bytes v
  simp only [Wire.u32] at h
  simp only [SessIn.le32, Wire.le32, List.cons_append, List.nil_append, List.getD_cons_zero, List.getD_cons_succ,
    Nat.zero_add]
  exact h

/-- a genuine ciphertext passes the gate and yields exactly the frame that was sealed -/
theorem C01_gate_genuine (c : SessIn.Cipher) (enc : Bytes → Bytes) (hc : C01_BlockCipherLaws c enc)
    (nonce f : Bytes) (hn : nonce.length = nonceSize) :
    SessIn.cryptGate c (enc (Wire.cryptFrame c.crc nonce f)) = .ok f := by
  have hdec : c.dec (enc (Wire.cryptFrame c.crc nonce f)) = nonce ++ Wire.le32 (c.crc f) ++ f := hc.C08_roundtrip _
  have hcov : covered c (enc (Wire.cryptFrame c.crc nonce f)) = f := by
    unfold covered
    rw [hdec]
    exact List.drop_left' (by simp [hn, Wire.le32_length, nonceSize, cryptHeaderSize])
  have hst : storedCrc c (enc (Wire.cryptFrame c.crc nonce f)) = c.crc f := by
    unfold storedCrc
    rw [hdec, ← C06_le32_drop, List.append_assoc, List.drop_left' hn]
    exact C01_le32_read _ _
  rw [C06_cryptGate_block c _ hc.kind, hcov, hst]
  have hl : ¬ (enc (Wire.cryptFrame c.crc nonce f)).length < cryptHeaderSize := by
    rw [hc.C08_length]
    simp only [Wire.cryptFrame, List.length_append, Wire.le32_length, hn, nonceSize, cryptHeaderSize]
    omega
  rw [if_neg hl, if_neg (by simp)]

/-- the network's power over one ciphertext datagram: it is the encryption — under any nonce — of a
frame the peer emitted (replay of a genuine datagram, at any time, any number of times), or it is
anything the integrity check catches (too short, or checksum mismatch after decryption) -/
def C01_NetDatagramOk (c : SessIn.Cipher) (enc : Bytes → Bytes) (frames : List Bytes) (d : Bytes) : Prop :=
  (∃ f ∈ frames, ∃ nonce : Bytes, nonce.length = nonceSize ∧ d = enc (Wire.cryptFrame c.crc nonce f)) ∨
  d.length < cryptHeaderSize ∨ c.crc (covered c d) ≠ storedCrc c d

/-- soundness of the gate against a network whose power over one datagram is `Ok frames d`
(`frames` = what the peer has emitted): for ANY core behind `kcpInput`, one datagram through
`packetInput` either has no effect at all or hands `kcpInput` an emitted frame -/
def C01_GateSound (c : SessIn.Cipher) (Ok : List Bytes → Bytes → Prop) : Prop :=
  ∀ (σ : Type) (kcpInput : σ → Bytes → σ) (s : σ) (frames : List Bytes) (d : Bytes), Ok frames d →
    ((SessIn.sessionPacketInput c kcpInput s d).delivered = none ∧ (SessIn.sessionPacketInput c kcpInput s d).st = s) ∨
    (∃ f ∈ frames, (SessIn.sessionPacketInput c kcpInput s d).delivered = some f ∧
      (SessIn.sessionPacketInput c kcpInput s d).st = kcpInput s f)

/-- CRC-style ciphers: the gate is sound (`C06_gate_session` for what the check catches, the round
trip for genuine ciphertexts) -/
theorem C01_gate_step (c : SessIn.Cipher) (enc : Bytes → Bytes) (hc : C01_BlockCipherLaws c enc) :
    C01_GateSound c (C01_NetDatagramOk c enc) := by
  intro σ kcpInput s frames d hd
  rcases hd with ⟨f, hf, nonce, hn, rfl⟩ | hbad
  · have hg := C01_gate_genuine c enc hc nonce f hn
    unfold SessIn.sessionPacketInput
    rw [hg]
    simp only []
    by_cases hm : f.length < SessIn.minPacket
    · rw [if_pos hm]; left; exact ⟨rfl, rfl⟩
    · rw [if_neg hm]; right; exact ⟨f, hf, rfl, rfl⟩
  · left
    have h := C06_gate_session c kcpInput s d hc.kind hbad
    exact ⟨h.2.1, h.1⟩

/-! ### AEAD -/

/-- what the reduction needs of an AEAD (`aseal nonce plaintext` = `aead.Seal`): the two laws that
`C08_aead_in_buffer` assumes of the primitive -/
structure C01_AeadLaws (c : SessIn.Cipher) (ns ov : Nat) (aseal : Bytes → Bytes → Bytes) : Prop where
  kind : c.kind = .aead ns ov
  /-- `Open` undoes `Seal` under the same nonce -/
  open_seal : ∀ n p : Bytes, c.aopen n (aseal n p) = some p
  /-- `Seal` adds exactly `Overhead()` bytes -/
  seal_length : ∀ n p : Bytes, (aseal n p).length = p.length + ov

/-- AEAD: the datagram is `nonce ‖ Seal(nonce, frame)` for an emitted frame (`C09_crypt_header`), or
too short, or `Open` rejects it (unforgeability is the cryptographic assumption) -/
def C01_NetDatagramOkAead (c : SessIn.Cipher) (ns ov : Nat) (aseal : Bytes → Bytes → Bytes)
    (frames : List Bytes) (d : Bytes) : Prop :=
  (∃ f ∈ frames, ∃ nonce : Bytes, nonce.length = ns ∧ d = nonce ++ aseal nonce f) ∨
  d.length < ns + ov ∨ c.aopen (d.take ns) (d.drop ns) = none

theorem C01_gate_step_aead (c : SessIn.Cipher) (ns ov : Nat) (aseal : Bytes → Bytes → Bytes)
    (hc : C01_AeadLaws c ns ov aseal) : C01_GateSound c (C01_NetDatagramOkAead c ns ov aseal) := by
  intro σ kcpInput s frames d hd
  rcases hd with ⟨f, hf, nonce, hn, rfl⟩ | hbad
  · have hg : SessIn.cryptGate c (nonce ++ aseal nonce f) = .ok f := by
      unfold SessIn.cryptGate
      rw [hc.kind]
      simp only []
      have hl : ¬ (nonce ++ aseal nonce f).length < ns + ov := by
        rw [List.length_append, hc.seal_length, hn]; omega
      rw [if_neg hl, List.take_left' hn, List.drop_left' hn, hc.open_seal]
    unfold SessIn.sessionPacketInput
    rw [hg]
    simp only []
    by_cases hm : f.length < SessIn.minPacket
    · rw [if_pos hm]; left; exact ⟨rfl, rfl⟩
    · rw [if_neg hm]; right; exact ⟨f, hf, rfl, rfl⟩
  · left
    have h := C06_gate_aead c kcpInput s d ns ov hc.kind hbad
    exact ⟨h.2.1, h.1⟩

/-- feed a list of ciphertext datagrams through `packetInput`: final state and the frames that
reached `kcpInput`, in order -/
def C01_cipherFeed {σ : Type} (c : SessIn.Cipher) (kcpInput : σ → Bytes → σ) : σ → List Bytes → σ × List Bytes
  | s, [] => (s, [])
  | s, d :: rest =>
    ((C01_cipherFeed c kcpInput (SessIn.sessionPacketInput c kcpInput s d).st rest).1,
     (SessIn.sessionPacketInput c kcpInput s d).delivered.toList ++
       (C01_cipherFeed c kcpInput (SessIn.sessionPacketInput c kcpInput s d).st rest).2)

/-- **Cipher reduction.**  For ANY core behind `kcpInput` (`σ` is everything behind the gate), a
cipher whose gate is sound against the network `Ok` (`C01_gate_step`: CRC-style ciphers;
`C01_gate_step_aead`: AEAD) and any sequence of datagrams each of which is a replayed genuine
ciphertext or a corruption the check catches: every frame that reaches `kcpInput` is a frame the peer emitted, and the final state is the
state obtained by calling `kcpInput` on exactly those frames in that order — the corrupting network
on ciphertext IS a replay-only (drop / duplicate / reorder) network on plaintext frames. -/
theorem C01_cipher_reduction {σ : Type} (c : SessIn.Cipher) (Ok : List Bytes → Bytes → Prop)
    (hg : C01_GateSound c Ok) (kcpInput : σ → Bytes → σ) (frames : List Bytes) :
    ∀ (ds : List Bytes) (s : σ), (∀ d ∈ ds, Ok frames d) →
      (∀ p ∈ (C01_cipherFeed c kcpInput s ds).2, p ∈ frames) ∧
      (C01_cipherFeed c kcpInput s ds).1 = (C01_cipherFeed c kcpInput s ds).2.foldl kcpInput s := by
  intro ds
  induction ds with
  | nil => intro s _; exact ⟨fun p hp => (by cases hp), rfl⟩
  | cons d rest ih =>
    intro s hds
    have hrest := fun x hx => hds x (List.mem_cons_of_mem _ hx)
    obtain ⟨ih1, ih2⟩ := ih (SessIn.sessionPacketInput c kcpInput s d).st hrest
    show (∀ p ∈ (SessIn.sessionPacketInput c kcpInput s d).delivered.toList ++ _, p ∈ frames) ∧
      (C01_cipherFeed c kcpInput (SessIn.sessionPacketInput c kcpInput s d).st rest).1 =
        ((SessIn.sessionPacketInput c kcpInput s d).delivered.toList ++
          (C01_cipherFeed c kcpInput (SessIn.sessionPacketInput c kcpInput s d).st rest).2).foldl kcpInput s
    rcases hg σ kcpInput s frames d (hds d (List.mem_cons_self ..)) with ⟨h1, h2⟩ | ⟨f, hf, h1, h2⟩
    · rw [h1]
      refine ⟨fun p hp => ih1 p (by simpa using hp), ?_⟩
      rw [ih2, h2]; rfl
    · rw [h1]
      refine ⟨fun p hp => ?_, ?_⟩
      · rcases List.mem_append.mp hp with h | h
        · have : p = f := by simpa using h
          rw [this]; exact hf
        · exact ih1 p h
      · rw [ih2, h2]; rfl

/-! ### composed with `C01_session_plain` -/

/-- operations of the two-session system with a cipher on the path `A → B` -/
inductive C01_COp where
  | a (op : SessOp)
  | b (op : SessOp)
  /-- the network hands `B.packetInput` an arbitrary datagram -/
  | net (data : Bytes) (now : U32)

/-- `B`'s receive path is `SessIn.sessionPacketInput` (decrypt, verify, size check) in front of the
plain `packetInput` of `Model/Sess.lean` -/
def C01_cstep (c : SessIn.Cipher) (s : SessSys) : C01_COp → SessSys
  | .a op => { s with A := sessStep s.A op }
  | .b op => if isSessInput op then s else { s with B := sessStep s.B op }
  | .net data now =>
    { s with B := (SessIn.sessionPacketInput c (fun x p => sessStep x (.input p now)) s.B data).st }

def C01_crun (c : SessIn.Cipher) (s : SessSys) (ops : List C01_COp) : SessSys := ops.foldl (C01_cstep c) s

/-- every datagram the network delivers is, at the time of delivery, the encryption of a frame `A`
has emitted so far or a corruption the check catches -/
def C01_CRunOk (c : SessIn.Cipher) (Ok : List Bytes → Bytes → Prop) : SessSys → List C01_COp → Prop
  | _, [] => True
  | s, .net data now :: rest =>
    Ok s.A.wire data ∧ C01_CRunOk c Ok (C01_cstep c s (.net data now)) rest
  | s, op :: rest => C01_CRunOk c Ok (C01_cstep c s op) rest

/-- a run with cipher under the corrupting network is a run of the plain system under the
replay-only network -/
theorem C01_crun_is_plain (c : SessIn.Cipher) (Ok : List Bytes → Bytes → Prop) (hg : C01_GateSound c Ok) :
    ∀ (ops : List C01_COp) (s : SessSys), C01_CRunOk c Ok s ops →
      ∃ plain : List SSOp, C01_crun c s ops = ssrun s plain := by
  intro ops
  induction ops with
  | nil => intro s _; exact ⟨[], rfl⟩
  | cons op rest ih =>
    intro s hok
    cases op with
    | a op =>
      obtain ⟨pl, h⟩ := ih (C01_cstep c s (.a op)) hok
      exact ⟨.a op :: pl, h⟩
    | b op =>
      obtain ⟨pl, h⟩ := ih (C01_cstep c s (.b op)) hok
      exact ⟨.b op :: pl, h⟩
    | net data now =>
      obtain ⟨hd, hrest⟩ := hok
      obtain ⟨pl, h⟩ := ih (C01_cstep c s (.net data now)) hrest
      rcases hg SessG (fun x p => sessStep x (.input p now)) s.B s.A.wire data hd with
        ⟨_, h2⟩ | ⟨f, hf, _, h2⟩
      · refine ⟨pl, ?_⟩
        show C01_crun c (C01_cstep c s (.net data now)) rest = _
        rw [h]
        have : C01_cstep c s (.net data now) = s := by
          show { s with B := _ } = s
          rw [h2]
        rw [this]
      · obtain ⟨i, hi⟩ := List.getElem?_of_mem hf
        refine ⟨.dlv i now :: pl, ?_⟩
        show C01_crun c (C01_cstep c s (.net data now)) rest = ssrun (ssstep s (.dlv i now)) pl
        rw [h]
        have : C01_cstep c s (.net data now) = ssstep s (.dlv i now) := by
          show { s with B := _ } = _
          rw [h2]
          simp [ssstep, hi]
        rw [this]

/-- **`C01_session_cipher`.**  Two sessions with a cipher on the path `A → B` whose gate is sound
against the network `Ok` (instances: `C01_gate_step` for CRC-style ciphers with
`Ok = C01_NetDatagramOk c enc`, `C01_gate_step_aead` for AEAD); the network
may drop, duplicate, reorder, delay, replay and CORRUPT ciphertext datagrams, as long as every
corruption is one the integrity check catches (`C01_CRunOk`; which corruptions CRC-32 is guaranteed to
catch is C06's subject: `C06_crc32_burst`).  Otherwise as `C01_session_plain`.  The bytes `B.Read`
has returned are a prefix of the bytes `A.WriteBuffers` has accepted. -/
theorem C01_session_cipher (c : SessIn.Cipher) (Ok : List Bytes → Bytes → Prop) (hg : C01_GateSound c Ok)
    (sA sB : Sess) (hA : Fresh sA.k) (hB : Fresh sB.k) (hbB : sB.bufptr = [])
    (hsn : sB.k.rcv_nxt = sA.k.snd_nxt) (hm : 0 < sA.k.mss.toNat) (ops : List C01_COp)
    (hnet : C01_CRunOk c Ok ⟨{ s := sA }, { s := sB }⟩ ops)
    (hL : (C01_crun c ⟨{ s := sA }, { s := sB }⟩ ops).A.log.length < 2 ^ 32) :
    (C01_crun c ⟨{ s := sA }, { s := sB }⟩ ops).B.rd <+: (C01_crun c ⟨{ s := sA }, { s := sB }⟩ ops).A.wr := by
  obtain ⟨plain, h⟩ := C01_crun_is_plain c Ok hg ops _ hnet
  rw [h] at hL ⊢
  exact C01_session_plain sA sB hA hB hbB hsn hm plain hL

/-! ## (b) FEC -/

section fec
open KcpVerif.Fec KcpVerif.Lemmas.FecSpec KcpVerif.Lemmas

/-- the calls the FEC branch of `UDPSession.kcpInput` makes to the core's `Input` for one FEC packet
`pkt` (from the FEC header on), as pairs (payload, `regular`): `decode` first; a data packet's own
payload `data[fecHeaderSizePlus2:]` with `IKCP_PACKET_REGULAR`; then every recovered shard `r` that
passes the size check, `r[2:sz]`, with `IKCP_PACKET_FEC` -/
def C01_fecInputCalls (C : CodecNew) (dec : Decoder) (pkt : Bytes) : List (Bytes × Bool) :=
  (if flag pkt = typeData then [(pkt.drop fecHeaderSizePlus2, true)] else []) ++
    ((dec.decode C pkt).recovered.filterMap trim).map (fun pl => (pl, false))

/-- one received FEC packet: new decoder state, all `Input` calls so far -/
def C01_fecStep (C : CodecNew) (acc : Decoder × List (Bytes × Bool)) (q : Bytes) : Decoder × List (Bytes × Bool) :=
  ((acc.1.decode C q).st, acc.2 ++ C01_fecInputCalls C acc.1 q)

def C01_fecRun (C : CodecNew) (dec : Decoder) (pkts : List Bytes) : Decoder × List (Bytes × Bool) :=
  pkts.foldl (C01_fecStep C) (dec, [])

/-- where an `Input` call comes from: a data packet that arrived, or a shard `decode` returned -/
def C01_CallOk (seen recd : List Bytes) (c : Bytes × Bool) : Prop :=
  (c.2 = true ∧ ∃ q ∈ seen, flag q = typeData ∧ c.1 = q.drop fecHeaderSizePlus2) ∨
  (c.2 = false ∧ ∃ r ∈ recd, trim r = some c.1)

theorem C01_CallOk.mono {seen recd : List Bytes} {c : Bytes × Bool} (h : C01_CallOk seen recd c)
    (s2 r2 : List Bytes) : C01_CallOk (seen ++ s2) (recd ++ r2) c := by
  rcases h with ⟨h1, q, hq, h2⟩ | ⟨h1, r, hr, h2⟩
  · exact Or.inl ⟨h1, q, List.mem_append_left _ hq, h2⟩
  · exact Or.inr ⟨h1, r, List.mem_append_left _ hr, h2⟩

/-- the `Input` calls of the FEC receive path run in lock step with `FecDec.feed` (the run
`C07_dec_sound` is about): same decoder states, and every call is a data packet's payload or the
trimmed form of a shard `decode` returned -/
theorem C01_fecRun_calls (C : CodecNew) :
    ∀ (pkts : List Bytes) (a : Decoder × List (Bytes × Bool)) (b : Decoder × List Bytes) (seen : List Bytes),
      a.1 = b.1 → (∀ c ∈ a.2, C01_CallOk seen b.2 c) →
      (pkts.foldl (C01_fecStep C) a).1 = (pkts.foldl (FecDec.feedStep C) b).1 ∧
      ∀ c ∈ (pkts.foldl (C01_fecStep C) a).2, C01_CallOk (seen ++ pkts) (pkts.foldl (FecDec.feedStep C) b).2 c := by
  intro pkts
  induction pkts with
  | nil => intro a b seen h1 h2; exact ⟨h1, by simpa using h2⟩
  | cons q rest ih =>
    intro a b seen h1 h2
    rw [List.foldl_cons, List.foldl_cons]
    have e : seen ++ q :: rest = (seen ++ [q]) ++ rest := by simp
    rw [e]
    apply ih
    · show (a.1.decode C q).st = (b.1.decode C q).st
      rw [h1]
    · intro c hc
      show C01_CallOk (seen ++ [q]) (b.2 ++ (b.1.decode C q).recovered) c
      have hc' : c ∈ a.2 ++ C01_fecInputCalls C a.1 q := hc
      rcases List.mem_append.mp hc' with h | h
      · exact (h2 c h).mono _ _
      · unfold C01_fecInputCalls at h
        rcases List.mem_append.mp h with h | h
        · by_cases hf : flag q = typeData
          · rw [if_pos hf] at h
            have : c = (q.drop fecHeaderSizePlus2, true) := by simpa using h
            rw [this]
            exact Or.inl ⟨rfl, q, by simp, hf, rfl⟩
          · rw [if_neg hf] at h; cases h
        · obtain ⟨pl, hpl, rfl⟩ := List.mem_map.mp h
          obtain ⟨r, hr, htr⟩ := List.mem_filterMap.mp hpl
          rw [h1] at hr
          exact Or.inr ⟨rfl, r, List.mem_append_right _ hr, htr⟩

/-- the payload of a genuine data packet, as `kcpInput` slices it -/
theorem C01_packet_payload (C : CodecNew) (G : Group) (hG : G.WF) (j : Nat) (hj : j < G.d) :
    (G.packet C j).drop fecHeaderSizePlus2 = G.payloads.getD j [] := by
  have hjl : j < G.payloads.length := by rw [hG.count]; exact hj
  rw [FecEnc.packet_data C G hj]
  have hb : G.bodies.getD j [] = bodyOf (G.payloads.getD j []) := by
    unfold Group.bodies
    rw [List.getD_eq_getElem?_getD, List.getD_eq_getElem?_getD, List.getElem?_map,
      List.getElem?_eq_getElem hjl]
    rfl
  rw [hb]
  unfold bodyOf
  rw [← List.append_assoc]
  exact List.drop_left' (by simp [Fec.le32, Fec.le16, fecHeaderSizePlus2])

/-- **FEC reduction.**  A decoder is fed ANY list of genuine packets of the sender's ratio (any
order, duplicates, losses, late arrivals…: the premise of `C07_dec_sound`).  Given the conclusion of
`C07_dec_sound` for that run, EVERY payload the FEC branch of `kcpInput` hands to the core's `Input`
— with `regular = true` (a data packet that arrived) or `regular = false` (recovered) — is byte-equal
to a payload the peer's FEC encoder was handed, i.e. to a KCP datagram the peer's core emitted.
FEC-recovered input is a replay of genuine datagrams; nothing else ever reaches the core. -/
theorem C01_fec_reduction {C : CodecNew} (grp : FecDec.Family) (d p : Nat) (dec : Decoder) (pkts : List Bytes)
    (hgen : ∀ q ∈ pkts, FecDec.GenuinePkt C grp d p q)
    (C07_dec_sound : ∀ r ∈ (FecDec.feed C dec pkts).2,
      ∃ G : Group, grp (G.base / u32 G.n) = some G ∧ G.WF ∧ G.d = d ∧ G.p = p ∧
        (∃ j, j < G.n ∧ G.packet C j ∈ pkts) ∧
        ∃ k, k < G.d ∧ r = pad G.maxLen (G.bodies.getD k []) ∧ trim r = some (G.payloads.getD k [])) :
    ∀ c ∈ (C01_fecRun C dec pkts).2,
      ∃ (G : Group) (k : Nat), grp (G.base / u32 G.n) = some G ∧ G.WF ∧ k < G.d ∧
        c.1 = G.payloads.getD k [] ∧ (c.2 = true → G.packet C k ∈ pkts) := by
  intro c hc
  have h := (C01_fecRun_calls C pkts (dec, []) (dec, []) [] rfl (fun c hc => by cases hc)).2 c hc
  rcases h with ⟨h1, q, hq, hf, hpl⟩ | ⟨h1, r, hr, htr⟩
  · have hq' : q ∈ pkts := by simpa using hq
    obtain ⟨G, j, hgrp, hG, _, _, hj, rfl⟩ := hgen q hq'
    have hjd : j < G.d := by
      rw [FecDec.flag_packet] at hf
      by_cases hlt : j < G.d
      · exact hlt
      · rw [if_neg hlt] at hf
        exact absurd hf (by decide)
    exact ⟨G, j, hgrp, hG, hjd, by rw [hpl, C01_packet_payload C G hG j hjd], fun _ => hq'⟩
  · obtain ⟨G, hgrp, hG, _, _, _, k, hk, _, hk2⟩ := C07_dec_sound r hr
    refine ⟨G, k, hgrp, hG, hk, ?_, fun ht => ?_⟩
    · rw [hk2] at htr
      exact (Option.some.inj htr).symm
    · rw [h1] at ht; cases ht

end fec

/-- **Replays with either flag are already in the network of `C01_core`.**  Handing `B`'s `Input` a
datagram `A` has emitted, with ANY `regular` flag (`false` for FEC-recovered input: `Input` then only
skips the `rmt_wnd` / RTT updates), any `ackNoDelay`, any clock, IS the delivery step `dlv` of the
two-core system — so `C01_core`, `C01_core_msg` and the invariants `InvR`/`InvS` (proved for all flags)
cover FEC-recovered input without change. -/
theorem C01_fec_calls_are_replays (S : Sys) (pl : Bytes) (reg a : Bool) (now : U32) (h : pl ∈ S.A.wire) :
    ∃ i, sstep S (.dlv i reg a now) = { S with B := step S.B (.input pl reg a now) } := by
  obtain ⟨i, hi⟩ := List.getElem?_of_mem h
  exact ⟨i, by simp [sstep, hi]⟩

end KcpVerif.Props
