import KcpVerif.Props.C01Session
import KcpVerif.Props.C06
import KcpVerif.Lemmas.Wire
import KcpVerif.Lemmas.FecDec
import KcpVerif.Lemmas.FecEnc
/-!
C01 — reductions for the configurations with a cipher and with FEC (`C01_session_reductions`,
DESIGN.md 7.1 items 6–7 and 13).  Core Lean only; the hypotheses that are conclusions of theorems
living in Mathlib-dependent modules are explicit and named after the theorem that discharges them
(`Props/C01Full.lean` does the discharging).

(a) **Cipher.**  The receive entry point is `SessIn.sessionPacketInput` (the model of
`UDPSession.packetInput` the gate theorems of C06 are about), the sender's datagram is
`enc (nonce ‖ le32 (crc frame) ‖ frame)` (`Wire.cryptFrame`, what `C09_crypt_header` proves
`postProcess` emits).  A network that replays, drops, duplicates, reorders AND corrupts ciphertext
datagrams — any corruption the integrity check catches — is, behind the gate, a replay-only network
on plaintext frames: every frame reaching `kcpInput` is a frame the peer emitted, and the session
state is the one obtained by feeding `kcpInput` exactly those frames (`C01_cipher_reduction`).
Composed with `C01_session_plain`: `C01_session_cipher`.

(b) **FEC.**  `fecInputCalls` transcribes the FEC branch of `UDPSession.kcpInput`: a data packet's
payload goes to `Input` with `regular = true`, every recovered shard that passes the size check
(`Fec.trim`) goes to `Input` with `regular = false`.  Given `C07_dec_sound`, every payload handed to
`Input` — with either flag — is byte-equal to a KCP datagram the peer's FEC encoder was handed
(`C01_fec_reduction`): FEC-recovered input is a REPLAY of genuine datagrams, which the network of
`C01_core` already contains with any `regular` flag (`C01_fec_calls_are_replays`).
-/
namespace KcpVerif.Props
open KcpVerif KcpVerif.Gen KcpVerif.C01

/-! ## (a) cipher -/

/-- what the reduction needs of a CRC-style cipher (`enc` = `BlockCrypt.Encrypt` on the whole frame);
each field is the conclusion of a proved theorem -/
structure C01_BlockCipherLaws (c : SessIn.Cipher) (enc : Bytes → Bytes) : Prop where
  /-- the session uses the CRC branch of `packetInput` -/
  kind : c.kind = .block
  /-- `C08_cfb_roundtrip` / `C08_stream_roundtrip`: decryption undoes encryption -/
  C08_roundtrip : ∀ x : Bytes, c.dec (enc x) = x
  /-- `C08_cfb_length`: encryption preserves the length -/
  C08_length : ∀ x : Bytes, (enc x).length = x.length

theorem C01_le32_read (v : BitVec 32) (rest : Bytes) : SessIn.le32 (Wire.le32 v ++ rest) 0 = v := by
  have h := Wire.u32_le32_bytes v
  simp only [Wire.u32] at h
  simp only [SessIn.le32, Wire.le32, List.cons_append, List.nil_append, List.getD_cons_zero, List.getD_cons_succ,
    Nat.zero_add]
  exact h

/-- a genuine ciphertext passes the gate and yields exactly the frame that was sealed -/
theorem C01_gate_genuine (c : SessIn.Cipher) (enc : Bytes → Bytes) (hc : C01_BlockCipherLaws c enc)
    (nonce f : Bytes) (hn : nonce.length = nonceSize) :
    SessIn.cryptGate c (enc (Wire.cryptFrame c.crc nonce f)) = .ok f := by
  have hdec : c.dec (enc (Wire.cryptFrame c.crc nonce f)) = nonce ++ Wire.le32 (c.crc f) ++ f := hc.C08_roundtrip _
  have hcov : covered c (enc (Wire.cryptFrame c.crc nonce f)) = f := by
    unfold covered
    rw [hdec]
    exact List.drop_left' (by simp [hn, Wire.le32_length, nonceSize, cryptHeaderSize])
  have hst : storedCrc c (enc (Wire.cryptFrame c.crc nonce f)) = c.crc f := by
    unfold storedCrc
    rw [hdec, ← C06_le32_drop, List.append_assoc, List.drop_left' hn]
    exact C01_le32_read _ _
  rw [C06_cryptGate_block c _ hc.kind, hcov, hst]
  have hl : ¬ (enc (Wire.cryptFrame c.crc nonce f)).length < cryptHeaderSize := by
    rw [hc.C08_length]
    simp only [Wire.cryptFrame, List.length_append, Wire.le32_length, hn, nonceSize, cryptHeaderSize]
    omega
  rw [if_neg hl, if_neg (by simp)]

/-- the network's power over one ciphertext datagram: it is the encryption — under any nonce — of a
frame the peer emitted (replay of a genuine datagram, at any time, any number of times), or it is
anything the integrity check catches (too short, or checksum mismatch after decryption) -/
def C01_NetDatagramOk (c : SessIn.Cipher) (enc : Bytes → Bytes) (frames : List Bytes) (d : Bytes) : Prop :=
  (∃ f ∈ frames, ∃ nonce : Bytes, nonce.length = nonceSize ∧ d = enc (Wire.cryptFrame c.crc nonce f)) ∨
  d.length < cryptHeaderSize ∨ c.crc (covered c d) ≠ storedCrc c d

/-- one datagram through the gate: either nothing happens, or `kcpInput` is called with an emitted frame -/
theorem C01_gate_step {σ : Type} (c : SessIn.Cipher) (enc : Bytes → Bytes) (hc : C01_BlockCipherLaws c enc)
    (kcpInput : σ → Bytes → σ) (s : σ) (frames : List Bytes) (d : Bytes) (hd : C01_NetDatagramOk c enc frames d) :
    ((SessIn.sessionPacketInput c kcpInput s d).delivered = none ∧ (SessIn.sessionPacketInput c kcpInput s d).st = s) ∨
    (∃ f ∈ frames, (SessIn.sessionPacketInput c kcpInput s d).delivered = some f ∧
      (SessIn.sessionPacketInput c kcpInput s d).st = kcpInput s f) := by
  rcases hd with ⟨f, hf, nonce, hn, rfl⟩ | hbad
  · have hg := C01_gate_genuine c enc hc nonce f hn
    unfold SessIn.sessionPacketInput
    rw [hg]
    simp only []
    by_cases hm : f.length < SessIn.minPacket
    · rw [if_pos hm]; left; exact ⟨rfl, rfl⟩
    · rw [if_neg hm]; right; exact ⟨f, hf, rfl, rfl⟩
  · left
    have h := C06_gate_session c kcpInput s d hc.kind hbad
    exact ⟨h.2.1, h.1⟩

/-- feed a list of ciphertext datagrams through `packetInput`: final state and the frames that
reached `kcpInput`, in order -/
def C01_cipherFeed {σ : Type} (c : SessIn.Cipher) (kcpInput : σ → Bytes → σ) : σ → List Bytes → σ × List Bytes
  | s, [] => (s, [])
  | s, d :: rest =>
    ((C01_cipherFeed c kcpInput (SessIn.sessionPacketInput c kcpInput s d).st rest).1,
     (SessIn.sessionPacketInput c kcpInput s d).delivered.toList ++
       (C01_cipherFeed c kcpInput (SessIn.sessionPacketInput c kcpInput s d).st rest).2)

/-- **Cipher reduction.**  For ANY core behind `kcpInput` (`σ` is everything behind the gate) and
any sequence of datagrams each of which is a replayed genuine ciphertext or a corruption the check
catches: every frame that reaches `kcpInput` is a frame the peer emitted, and the final state is the
state obtained by calling `kcpInput` on exactly those frames in that order — the corrupting network
on ciphertext IS a replay-only (drop / duplicate / reorder) network on plaintext frames. -/
theorem C01_cipher_reduction {σ : Type} (c : SessIn.Cipher) (enc : Bytes → Bytes) (hc : C01_BlockCipherLaws c enc)
    (kcpInput : σ → Bytes → σ) (frames : List Bytes) :
    ∀ (ds : List Bytes) (s : σ), (∀ d ∈ ds, C01_NetDatagramOk c enc frames d) →
      (∀ p ∈ (C01_cipherFeed c kcpInput s ds).2, p ∈ frames) ∧
      (C01_cipherFeed c kcpInput s ds).1 = (C01_cipherFeed c kcpInput s ds).2.foldl kcpInput s := by
  intro ds
  induction ds with
  | nil => intro s _; exact ⟨fun p hp => (by cases hp), rfl⟩
  | cons d rest ih =>
    intro s hds
    have hrest := fun x hx => hds x (List.mem_cons_of_mem _ hx)
    obtain ⟨ih1, ih2⟩ := ih (SessIn.sessionPacketInput c kcpInput s d).st hrest
    show (∀ p ∈ (SessIn.sessionPacketInput c kcpInput s d).delivered.toList ++ _, p ∈ frames) ∧
      (C01_cipherFeed c kcpInput (SessIn.sessionPacketInput c kcpInput s d).st rest).1 =
        ((SessIn.sessionPacketInput c kcpInput s d).delivered.toList ++
          (C01_cipherFeed c kcpInput (SessIn.sessionPacketInput c kcpInput s d).st rest).2).foldl kcpInput s
    rcases C01_gate_step c enc hc kcpInput s frames d (hds d (List.mem_cons_self ..)) with ⟨h1, h2⟩ | ⟨f, hf, h1, h2⟩
    · rw [h1]
      refine ⟨fun p hp => ih1 p (by simpa using hp), ?_⟩
      rw [ih2, h2]; rfl
    · rw [h1]
      refine ⟨fun p hp => ?_, ?_⟩
      · rcases List.mem_append.mp hp with h | h
        · have : p = f := by simpa using h
          rw [this]; exact hf
        · exact ih1 p h
      · rw [ih2, h2]; rfl

/-! ### composed with `C01_session_plain` -/

/-- operations of the two-session system with a cipher on the path `A → B` -/
inductive C01_COp where
  | a (op : SessOp)
  | b (op : SessOp)
  /-- the network hands `B.packetInput` an arbitrary datagram -/
  | net (data : Bytes) (now : U32)

/-- `B`'s receive path is `SessIn.sessionPacketInput` (decrypt, verify, size check) in front of the
plain `packetInput` of `Model/Sess.lean` -/
def C01_cstep (c : SessIn.Cipher) (s : SessSys) : C01_COp → SessSys
  | .a op => { s with A := sessStep s.A op }
  | .b op => if isSessInput op then s else { s with B := sessStep s.B op }
  | .net data now =>
    { s with B := (SessIn.sessionPacketInput c (fun x p => sessStep x (.input p now)) s.B data).st }

def C01_crun (c : SessIn.Cipher) (s : SessSys) (ops : List C01_COp) : SessSys := ops.foldl (C01_cstep c) s

/-- every datagram the network delivers is, at the time of delivery, the encryption of a frame `A`
has emitted so far or a corruption the check catches -/
def C01_CRunOk (c : SessIn.Cipher) (enc : Bytes → Bytes) : SessSys → List C01_COp → Prop
  | _, [] => True
  | s, .net data now :: rest =>
    C01_NetDatagramOk c enc s.A.wire data ∧ C01_CRunOk c enc (C01_cstep c s (.net data now)) rest
  | s, op :: rest => C01_CRunOk c enc (C01_cstep c s op) rest

/-- a run with cipher under the corrupting network is a run of the plain system under the
replay-only network -/
theorem C01_crun_is_plain (c : SessIn.Cipher) (enc : Bytes → Bytes) (hc : C01_BlockCipherLaws c enc) :
    ∀ (ops : List C01_COp) (s : SessSys), C01_CRunOk c enc s ops →
      ∃ plain : List SSOp, C01_crun c s ops = ssrun s plain := by
  intro ops
  induction ops with
  | nil => intro s _; exact ⟨[], rfl⟩
  | cons op rest ih =>
    intro s hok
    cases op with
    | a op =>
      obtain ⟨pl, h⟩ := ih (C01_cstep c s (.a op)) hok
      exact ⟨.a op :: pl, h⟩
    | b op =>
      obtain ⟨pl, h⟩ := ih (C01_cstep c s (.b op)) hok
      exact ⟨.b op :: pl, h⟩
    | net data now =>
      obtain ⟨hd, hrest⟩ := hok
      obtain ⟨pl, h⟩ := ih (C01_cstep c s (.net data now)) hrest
      rcases C01_gate_step c enc hc (fun x p => sessStep x (.input p now)) s.B s.A.wire data hd with
        ⟨_, h2⟩ | ⟨f, hf, _, h2⟩
      · refine ⟨pl, ?_⟩
        show C01_crun c (C01_cstep c s (.net data now)) rest = _
        rw [h]
        have : C01_cstep c s (.net data now) = s := by
          show { s with B := _ } = s
          rw [h2]
        rw [this]
      · obtain ⟨i, hi⟩ := List.getElem?_of_mem hf
        refine ⟨.dlv i now :: pl, ?_⟩
        show C01_crun c (C01_cstep c s (.net data now)) rest = ssrun (ssstep s (.dlv i now)) pl
        rw [h]
        have : C01_cstep c s (.net data now) = ssstep s (.dlv i now) := by
          show { s with B := _ } = _
          rw [h2]
          simp [ssstep, hi]
        rw [this]

/-- **`C01_session_cipher`.**  Two sessions with a CRC-style cipher on the path `A → B`; the network
may drop, duplicate, reorder, delay, replay and CORRUPT ciphertext datagrams, as long as every
corruption is one the integrity check catches (`C01_CRunOk`; which corruptions CRC-32 is guaranteed to
catch is C06's subject: `C06_crc32_burst`).  Otherwise as `C01_session_plain`.  The bytes `B.Read`
has returned are a prefix of the bytes `A.WriteBuffers` has accepted. -/
theorem C01_session_cipher (c : SessIn.Cipher) (enc : Bytes → Bytes) (hc : C01_BlockCipherLaws c enc)
    (sA sB : Sess) (hA : Fresh sA.k) (hB : Fresh sB.k) (hbB : sB.bufptr = [])
    (hsn : sB.k.rcv_nxt = sA.k.snd_nxt) (hm : 0 < sA.k.mss.toNat) (ops : List C01_COp)
    (hnet : C01_CRunOk c enc ⟨{ s := sA }, { s := sB }⟩ ops)
    (hL : (C01_crun c ⟨{ s := sA }, { s := sB }⟩ ops).A.log.length < 2 ^ 32) :
    (C01_crun c ⟨{ s := sA }, { s := sB }⟩ ops).B.rd <+: (C01_crun c ⟨{ s := sA }, { s := sB }⟩ ops).A.wr := by
  obtain ⟨plain, h⟩ := C01_crun_is_plain c enc hc ops _ hnet
  rw [h] at hL ⊢
  exact C01_session_plain sA sB hA hB hbB hsn hm plain hL

end KcpVerif.Props
