import KcpVerif.Lemmas.RingIter
/-!
C20 — the ring buffer is a FIFO queue for every operation sequence.

Property theorems only; the vocabulary (`Ring.WF`, `Ring.abs`, `Ring.Live`, `Ring.mapUntil`,
`Ring.Lifts`, the op language `Ring.Op`/`stepRing`/`stepList`) and the helper lemmas live in
`KcpVerif/Lemmas/Ring.lean` and `KcpVerif/Lemmas/RingIter.lean`.

All theorems quantify over every well-formed ring `WF r` — every capacity ≥ 2, every head/tail
position, wrapped or not — which is a superset of the states reachable from `NewRingBuffer`.
The element type `α` and the closure-state type `σ` are arbitrary.
-/
namespace KcpVerif.Props
open KcpVerif KcpVerif.Gen KcpVerif.Ring

variable {α σ : Type}

/-! ### construction -/

/-- `NewRingBuffer(n)` is well formed, empty, and has the documented capacity.  Uses
`2 ≤ RINGBUFFER_MIN` from the regenerated constants. -/
theorem C20_new_wf (n : Int) :
    WF (Ring.new n : Ring α) ∧ (Ring.new n : Ring α).abs = [] ∧
    (Ring.new n : Ring α).size = if n ≤ (RINGBUFFER_MIN : Int) then RINGBUFFER_MIN else n.toNat :=
  ⟨(rep_new n).wf, (rep_new n).abs, size_new n⟩

/-! ### every operation preserves well-formedness and refines the list operation -/

/-- `Push` appends at the back, whether or not it has to grow first. -/
theorem C20_push {r : Ring α} (h : WF r) (x : α) :
    WF (r.push x) ∧ (r.push x).abs = r.abs ++ [x] :=
  ⟨(h.rep.push x).wf, (h.rep.push x).abs⟩

/-- `Pop` returns the head (`none` = "empty") and leaves the tail of the queue. -/
theorem C20_pop {r : Ring α} (h : WF r) :
    r.pop.1 = r.abs.head?.map some ∧ WF r.pop.2 ∧ r.pop.2.abs = r.abs.tail :=
  ⟨h.rep.pop_fst, h.rep.pop_snd.wf, h.rep.pop_snd.abs⟩

/-- `Peek` returns the head without changing anything. -/
theorem C20_peek {r : Ring α} (h : WF r) : r.peek = r.abs.head?.map some :=
  h.rep.peek

/-- `Discard(n)` drops `n` elements from the front (all of them if `n ≥ len`) and returns how
many it dropped — through the `Clear` shortcut, the contiguous branch and the wrapping branch. -/
theorem C20_discard {r : Ring α} (h : WF r) (n : Nat) :
    (r.discard n).1 = min n r.abs.length ∧ WF (r.discard n).2 ∧ (r.discard n).2.abs = r.abs.drop n :=
  ⟨h.rep.discard_fst n, (h.rep.discard_snd n).wf, (h.rep.discard_snd n).abs⟩

/-- `Clear` empties the queue. -/
theorem C20_clear {r : Ring α} (h : WF r) : WF r.clear ∧ r.clear.abs = [] :=
  ⟨h.rep.clear.wf, h.rep.clear.abs⟩

/-- `Len` is the length of the queue. -/
theorem C20_len {r : Ring α} (h : WF r) : r.len = r.abs.length :=
  h.rep.len_eq

/-- `IsEmpty` -/
theorem C20_isEmpty {r : Ring α} (h : WF r) : r.isEmpty = r.abs.isEmpty :=
  h.rep.isEmpty

/-- `IsFull` holds exactly when `Len() == MaxLen()`, i.e. one slot is left empty. -/
theorem C20_isFull {r : Ring α} (h : WF r) : r.isFull = true ↔ r.abs.length + 1 = r.size :=
  h.rep.isFull_iff

/-- `MaxLen` is the capacity minus the one slot kept empty, and the queue never exceeds it. -/
theorem C20_maxLen {r : Ring α} (h : WF r) :
    r.maxLen = (r.size : Int) - 1 ∧ (r.abs.length : Int) ≤ r.maxLen := by
  refine ⟨rfl, ?_⟩
  have h1 := len_spec r
  have h2 := h.rep.len_eq
  have h3 := h.head_lt
  have h4 := h.tail_lt
  unfold Ring.maxLen
  omega

/-- `grow` keeps the queue, normalises the layout to `head = 0`, `tail = len`, and chooses the new
capacity by regime: below `RINGBUFFER_MIN` → `RINGBUFFER_MIN`; below `RINGBUFFER_EXP` → doubled;
otherwise +10 % rounded up.  The capacity strictly increases. -/
theorem C20_grow_preserves {r : Ring α} (h : WF r) :
    WF r.grow ∧ r.grow.abs = r.abs ∧ r.grow.head = 0 ∧ r.grow.tail = r.len ∧
    r.grow.size =
      (if r.size < RINGBUFFER_MIN then RINGBUFFER_MIN
       else if r.size < RINGBUFFER_EXP then r.size * 2
       else r.size + (r.size + 9) / 10) ∧
    r.size < r.grow.size :=
  ⟨h.rep.grow.wf, h.rep.grow.abs, rfl, rfl, size_grow r,
    by rw [size_grow]; exact lt_growSize (by have := h.size_ge; omega)⟩

/-- capacity after `Push`: it grows exactly when the ring was full -/
theorem C20_push_size (r : Ring α) (x : α) :
    (r.push x).size = if r.isFull then r.grow.size else r.size := by
  rw [size_push, size_grow]

/-! ### iterators -/

/-- `ForEach` visits the elements head first, threads the closure state, writes back what the
callback leaves in each visited element, and stops after (and including) the first element on
which the callback returns `false`: final closure state and resulting queue are those of
`mapUntil`.  `f` is any slot-level callback that acts on stored elements as `g` does. -/
theorem C20_forEach_spec {r : Ring α} (h : WF r) {f : σ → Option α → CbRes σ α}
    {g : σ → α → σ × α × Bool} (hfg : Lifts f g) (s : σ) :
    (r.forEach f s).1 = (mapUntil g s r.abs).1 ∧ WF (r.forEach f s).2 ∧
    (r.forEach f s).2.abs = (mapUntil g s r.abs).2 :=
  ⟨(h.rep.forEach hfg s).1, (h.rep.forEach hfg s).2.wf, (h.rep.forEach hfg s).2.abs⟩

/-- `ForEachReverse` does the same from the back: `mapUntil` on the reversed queue. -/
theorem C20_forEachReverse_spec {r : Ring α} (h : WF r) {f : σ → Option α → CbRes σ α}
    {g : σ → α → σ × α × Bool} (hfg : Lifts f g) (s : σ) :
    (r.forEachReverse f s).1 = (mapUntil g s r.abs.reverse).1 ∧ WF (r.forEachReverse f s).2 ∧
    (r.forEachReverse f s).2.abs = (mapUntil g s r.abs.reverse).2.reverse :=
  ⟨(h.rep.forEachReverse hfg s).1, (h.rep.forEachReverse hfg s).2.wf, (h.rep.forEachReverse hfg s).2.abs⟩

/-- `mapUntil` keeps the length (iterators never add or remove elements) … -/
theorem C20_mapUntil_length (g : σ → α → σ × α × Bool) (s : σ) (q : List α) :
    (mapUntil g s q).2.length = q.length :=
  mapUntil_length g s q

/-- … and with a callback that always continues it is `List.map` (sanity of the specification) -/
theorem C20_mapUntil_map (h : α → α) (s : σ) (q : List α) :
    mapUntil (fun s a => (s, h a, true)) s q = (s, q.map h) :=
  mapUntil_map h s q

/-! ### no out-of-range access -/

/-- On a well-formed ring every index and slice expression of every method is in range
(`Ring.AccessesInRange` lists them site by site): no method panics, and the clamping of the
model's `List` operations never takes effect. -/
theorem C20_no_out_of_range {r : Ring α} (h : WF r) : AccessesInRange r :=
  h.rep.accessesInRange

/-! ### no retained elements -/

/-- Every slot that still holds an element lies in the live range; since `WF` is preserved by
`Pop`, `Discard` and `Clear` (above), the slots they vacate hold the zero value afterwards. -/
theorem C20_freed_slots_cleared {r : Ring α} (h : WF r) (i : Nat) (a : α)
    (hi : r.elems[i]? = some (some a)) : i < r.size ∧ r.Live i := by
  have hlt : i < r.size := by
    by_cases hc : i < r.elems.length
    · exact hc
    · rw [List.getElem?_eq_none (by omega)] at hi; cases hi
  refine ⟨hlt, ?_⟩
  apply Classical.byContradiction
  intro hn
  rw [h.dead i hlt hn] at hi
  cases hi

/-- in particular: the slot a successful `Pop` read from is zeroed -/
theorem C20_pop_clears_slot {r : Ring α} (h : WF r) (hne : r.abs ≠ []) :
    r.pop.2.elems[r.head]? = some none := by
  have h0 : r.len ≠ 0 := fun hc => hne (h.rep.len_zero_iff.1 hc)
  have hh : r.head < r.elems.length := h.head_lt
  simp [Ring.pop, h0, hh]

/-- and after `Clear` every slot is zero -/
theorem C20_clear_all_slots {r : Ring α} (h : WF r) (i : Nat) (hi : i < r.size) :
    r.clear.elems[i]? = some none := by
  have hc := h.rep.clear
  apply hc.dead i (by rw [size_clear]; exact hi)
  rw [live_iff]
  show ¬((0 : Nat) ≤ 0 ∧ 0 ≤ i ∧ i < 0 ∨ (0 : Nat) < 0 ∧ (0 ≤ i ∨ i < 0))
  omega

/-! ### the ring is a queue -/

/-- For every op sequence from every well-formed start, all outputs of the ring equal those of
the list queue started from `abs r`, the final ring is well formed and represents the final
queue. -/
theorem C20_ring_is_queue {r : Ring α} (h : WF r) (ops : List (Op σ α)) :
    (runRing r ops).1 = (runList r.abs ops).1 ∧ WF (runRing r ops).2 ∧
    (runRing r ops).2.abs = (runList r.abs ops).2 :=
  ⟨(h.rep.run ops).1, (h.rep.run ops).2.wf, (h.rep.run ops).2.abs⟩

/-- from a fresh buffer of any requested size: the ring is the queue started empty -/
theorem C20_ring_is_queue_from_new (n : Int) (ops : List (Op σ α)) :
    (runRing (Ring.new n : Ring α) ops).1 = (runList [] ops).1 :=
  ((rep_new n).run ops).1

/-! ### non-vacuity: the hypotheses `WF r` / `Lifts f g` are satisfied by concrete non-trivial
states (wrapped, full, about to grow), and the theorems say what one computes there -/

/-- capacity 8, wrapped: the live range is slots 6,7,0,1 -/
def exWrapped : Ring Nat := ⟨6, 2, [some 5, some 6, none, none, none, none, some 3, some 4]⟩

/-- capacity 8, wrapped and full (7 elements, tail + 1 = head) -/
def exFull : Ring Nat := ⟨5, 4, [some 4, some 5, some 6, some 7, none, some 1, some 2, some 3]⟩

/-- both layouts are reached through the public operations from `NewRingBuffer(0)` -/
theorem C20_exWrapped_eq :
    exWrapped = (runRing (σ := Unit) (Ring.new 0)
      [.push 0, .push 0, .push 0, .push 0, .push 1, .push 2, .discard 4, .pop, .pop,
       .push 3, .push 4, .push 5, .push 6]).2 := by decide

theorem C20_exFull_eq :
    exFull = (runRing (σ := Unit) (Ring.new 8)
      [.push 0, .push 0, .push 0, .push 0, .push 0, .discard 4, .pop,
       .push 1, .push 2, .push 3, .push 4, .push 5, .push 6, .push 7]).2 := by decide

theorem C20_exWrapped_wf : WF exWrapped := by
  rw [C20_exWrapped_eq]; exact (C20_ring_is_queue (C20_new_wf 0).1 _).2.1

theorem C20_exFull_wf : WF exFull := by
  rw [C20_exFull_eq]; exact (C20_ring_is_queue (C20_new_wf 8).1 _).2.1

example : exWrapped.tail < exWrapped.head ∧ exWrapped.abs = [3, 4, 5, 6] := by decide
example : exFull.isFull = true ∧ exFull.abs = [1, 2, 3, 4, 5, 6, 7] := by decide

-- push on the full wrapped ring grows 8 → 16 and re-bases the layout (C20_push, C20_grow_preserves)
example : (exFull.push 8).size = 16 ∧ (exFull.push 8).head = 0 ∧ (exFull.push 8).tail = 8 ∧
    (exFull.push 8).abs = [1, 2, 3, 4, 5, 6, 7, 8] := by decide
-- pop / peek at the wrap point (C20_pop, C20_peek, C20_pop_clears_slot)
example : exWrapped.pop.1 = some (some 3) ∧ exWrapped.peek = some (some 3) ∧
    exWrapped.pop.2.elems[6]? = some none ∧ exWrapped.pop.2.abs = [4, 5, 6] := by decide
-- Discard across the array end (wrapping branch), exactly to the array end, and beyond len (C20_discard)
example : (exWrapped.discard 3).1 = 3 ∧ (exWrapped.discard 3).2.head = 1 ∧ (exWrapped.discard 3).2.abs = [6] := by decide
example : (exWrapped.discard 2).2.head = 0 ∧ (exWrapped.discard 2).2.abs = [5, 6] := by decide
example : (exWrapped.discard 9).1 = 4 ∧ (exWrapped.discard 9).2.abs = [] := by decide

/-- a closure that records what it is shown (state: checksum), adds 10 to each element, and
stops after the first element ≡ 1 (mod 3) -/
def exCb (s : Nat) (a : Nat) : Nat × Nat × Bool := (s * 31 + a, a + 10, a % 3 != 1)

example : Lifts (liftCb exCb) exCb := lifts_liftCb exCb
-- the list-level specification itself: 3 continues, 4 stops (and is still updated), 5 and 6 untouched
example : mapUntil exCb 0 [3, 4, 5, 6] = (3 * 31 + 4, [13, 14, 5, 6]) := by decide
-- ForEach over the wrapped ring (C20_forEach_spec) …
example : (exWrapped.forEach (liftCb exCb) 0).1 = 3 * 31 + 4 ∧
    (exWrapped.forEach (liftCb exCb) 0).2.abs = [13, 14, 5, 6] := by decide
-- … and ForEachReverse: 6, 5 continue, 4 stops (C20_forEachReverse_spec)
example : (exWrapped.forEachReverse (liftCb exCb) 0).1 = (6 * 31 + 5) * 31 + 4 ∧
    (exWrapped.forEachReverse (liftCb exCb) 0).2.abs = [3, 14, 15, 16] := by decide
-- a whole sequence with outputs (C20_ring_is_queue)
example : (runRing exFull [Op.pop, .push 8, .push 9, .forEachReverse exCb 0, .discard 3, .len, .isEmpty]).1 =
    [.slot (some (some 1)), .unit, .unit, .st ((9 * 31 + 8) * 31 + 7), .num 3, .num 5, .bool false] := by decide

end KcpVerif.Props
