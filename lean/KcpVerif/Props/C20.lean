import KcpVerif.Model.Ring
/-!
C20 — the ring buffer is a FIFO queue for every operation sequence.
Property theorems only (helper lemmas live in `KcpVerif/Lemmas/`).
-/
namespace KcpVerif.Props
open KcpVerif KcpVerif.Gen

theorem C20_new_len (n : Int) : (Ring.new n : Ring Nat).len = 0 := by
  simp [Ring.new, Ring.len]

end KcpVerif.Props
