import KcpVerif.Lemmas.KcpWindow
/-!
C04 — window discipline: bounded buffering, truthful window, backpressure.

All theorems are about the executable model `Model/Kcp.lean` of `kcp.go`.  "Every reachable state"
means: `run (start conv snd0 rcv0) ops` for an arbitrary list `ops : List Op` of operations with
ARBITRARY arguments (`Lemmas/KcpOps.lean`: `send recv input flush update setMtu noDelay wndSize
setStream`; every byte string for `input` — forged `una`/`sn`/`wnd`/`len` included —, every clock
value, every buffer length), starting from a fresh core whose sequence numbers start anywhere
(`start`; the real code is `start conv 0 0`).

The only hypothesis is `okRun`: every `wndSize` of the run leaves both windows below `2^31` and
EITHER shrinks no window (growing mid-traffic is allowed) OR happens while nothing is buffered
(windows set before traffic).  Shrinking a window under buffered traffic is excluded — and has to be:
it makes `rcv_queue.length ≤ rcv_wnd` false immediately.  `okRun` is decidable.
-/
namespace KcpVerif.Props
open KcpVerif KcpVerif.Gen KcpVerif.Kcp

/-- the only place that appends to the delivery queue never exceeds the receive window -/
theorem C04_moveLoop_bound (wnd : Nat) (buf q : List Seg) (nxt : U32) (h : q.length ≤ wnd) :
    (moveLoop wnd buf q nxt).q.length ≤ wnd := moveLoop_q_le wnd buf q nxt h

/-! ### the invariant is inductive over every operation -/

/-- `Inv` (receive window, delivery-queue bound, send window — `Lemmas/KcpWindow.lean`) is preserved
by EVERY operation with arbitrary arguments; the side condition `Op.ok` is `True` except for
`wndSize`, where it is `WndChangeOK`. -/
theorem C04_inv_step (k : Kcp) (op : Op) (hok : op.ok k) (h : Inv k) : Inv (step k op) :=
  step_inv k op hok h

/-- … in particular by `Input` of ANY byte string, without side condition -/
theorem C04_inv_input (k : Kcp) (data : Bytes) (regular ackNoDelay : Bool) (now : U32) (h : Inv k) :
    Inv (input k data regular ackNoDelay now).k := input_inv k data regular ackNoDelay now h

theorem C04_inv_reachable (conv snd0 rcv0 : U32) (ops : List Op) (hok : okRun (start conv snd0 rcv0) ops) :
    Inv (run (start conv snd0 rcv0) ops) := reachable_inv conv snd0 rcv0 ops hok

/-- shrinking is excluded for a reason: one `wndSize` below the queue length breaks the bound -/
example : ∃ k : Kcp, Inv k ∧ ¬ (k.wndSize 1 1).rcv_queue.length ≤ (k.wndSize 1 1).rcv_wnd.toNat :=
  ⟨{ Kcp.new 1 with rcv_queue := [{}, {}] },
   ⟨⟨by decide, fun _ hx => absurd hx List.not_mem_nil, List.Pairwise.nil⟩, by decide,
    ⟨by decide, trivial, by decide, by decide⟩⟩, by decide⟩

/-! ### 1. delivery queue -/

/-- in every reachable state at most one receive window of segments awaits the reader -/
theorem C04_rcvq_bound (conv snd0 rcv0 : U32) (ops : List Op) (hok : okRun (start conv snd0 rcv0) ops) :
    (run (start conv snd0 rcv0) ops).rcv_queue.length ≤ (run (start conv snd0 rcv0) ops).rcv_wnd.toNat :=
  (reachable_inv conv snd0 rcv0 ops hok).rq

/-! ### 2. out-of-order buffer -/

/-- `InvWin`: in every reachable state the sequence numbers in `rcv_buf` are pairwise distinct and lie in
`[rcv_nxt, rcv_nxt + rcv_wnd)` (wrap-around order), with `rcv_wnd < 2^31`; hence (pigeonhole on an
interval of `BitVec 32`) at most one receive window of segments is buffered out of order. -/
theorem C04_rcvbuf_bound (conv snd0 rcv0 : U32) (ops : List Op) (hok : okRun (start conv snd0 rcv0) ops) :
    let k := run (start conv snd0 rcv0) ops
    k.rcv_wnd.toNat < 2^31 ∧
    (∀ s ∈ k.rcv_buf, 0 ≤ itimediff s.sn k.rcv_nxt ∧ itimediff s.sn k.rcv_nxt < (k.rcv_wnd.toNat : Int)) ∧
    k.rcv_buf.Pairwise (fun a b => a.sn ≠ b.sn) ∧
    k.rcv_buf.length ≤ k.rcv_wnd.toNat := by
  intro k
  have h := (reachable_inv conv snd0 rcv0 ops hok).win
  exact ⟨h.small, h.inwin, h.distinct, h.length_le⟩

/-- the pigeonhole step on its own: ANY list of segments with distinct numbers inside a window of
`wnd < 2^31` values has at most `wnd` elements -/
theorem C04_window_pigeonhole (nxt wnd : U32) (buf : List Seg) (hw : wnd.toNat < 2^31)
    (hin : ∀ s ∈ buf, 0 ≤ itimediff s.sn nxt ∧ itimediff s.sn nxt < (wnd.toNat : Int))
    (hd : buf.Pairwise (fun a b => a.sn ≠ b.sn)) : buf.length ≤ wnd.toNat :=
  WinOK.length_le ⟨hw, hin, hd⟩

/-! ### 4. segments in flight -/

/-- in every reachable state `snd_buf` holds exactly the consecutive sequence numbers
`snd_una, …, snd_nxt - 1`, so the in-flight count `snd_nxt - snd_una` (32-bit) IS its length, and it
never exceeds the send window — whatever `una`/`sn` a peer forges. -/
theorem C04_inflight_bound (conv snd0 rcv0 : U32) (ops : List Op) (hok : okRun (start conv snd0 rcv0) ops) :
    let k := run (start conv snd0 rcv0) ops
    k.snd_wnd.toNat < 2^31 ∧
    Consec k.snd_una k.snd_buf ∧
    (k.snd_nxt - k.snd_una).toNat = k.snd_buf.length ∧
    k.snd_buf.length ≤ k.snd_wnd.toNat := by
  intro k
  have h := (reachable_inv conv snd0 rcv0 ops hok).snd
  exact ⟨h.small, h.consec, h.inflight, h.len_le⟩

/-! ### non-vacuity: a concrete run across the 32-bit wrap with forged and out-of-order input -/

/-- PUSH segments for conv 7 (`sn` = FFFFFFFF / FFFFFFFE / 0), one payload byte each -/
def pushFF : Bytes := [7,0,0,0, 81,0, 32,0, 0,0,0,0, 0xFF,0xFF,0xFF,0xFF, 0xF0,0xFF,0xFF,0xFF, 1,0,0,0, 0xAA]
def pushFE : Bytes := [7,0,0,0, 81,0, 32,0, 0,0,0,0, 0xFE,0xFF,0xFF,0xFF, 0xF0,0xFF,0xFF,0xFF, 1,0,0,0, 0xBB]
def push00 : Bytes := [7,0,0,0, 81,0, 32,0, 0,0,0,0, 0,0,0,0, 0xF0,0xFF,0xFF,0xFF, 1,0,0,0, 0xCC]
/-- an ACK for sn FFFFFFF1 whose `una` (FFFFFFF1) acknowledges the first segment -/
def ackF1 : Bytes := [7,0,0,0, 82,0, 32,0, 100,0,0,0, 0xF1,0xFF,0xFF,0xFF, 0xF1,0xFF,0xFF,0xFF, 0,0,0,0]
/-- a forged ACK whose `una` is 2^31 - 1 ahead -/
def ackForged : Bytes := [7,0,0,0, 82,0, 0xFF,0xFF, 100,0,0,0, 0x00,0,0,0x70, 0xEF,0xFF,0xFF,0x7F, 0,0,0,0]

def demoOps : List Op :=
  [.wndSize 2 2, .noDelay 1 10 2 1, .send [1,2,3], .send [4], .send [5], .flush true 100,
   .input pushFF true false 120, .input push00 true false 121, .wndSize 3 4, .input pushFE true false 125,
   .input ackF1 true false 130, .update 300, .recv 10, .input ackForged true true 310, .update 400]

def demo : Kcp := run (start 7 0xFFFFFFF0#32 0xFFFFFFFE#32) demoOps

/-- the hypothesis of the reachable-state theorems holds for the demo run (it contains a window set
before traffic, a window grown mid-traffic, an out-of-window segment and forged acknowledgements) -/
example : okRun (start 7 0xFFFFFFF0#32 0xFFFFFFFE#32) demoOps := by decide

/-- … and the run visits non-trivial states: after 8 operations the send window is exactly full (the
bound of `C04_inflight_bound` is tight), one segment is buffered out of order at sequence number
FFFFFFFF and the out-of-window segment 0 was refused; after 10 the delivery queue holds two segments
and `rcv_nxt` has wrapped to 0. -/
example :
    let k := run (start 7 0xFFFFFFF0#32 0xFFFFFFFE#32) (demoOps.take 8)
    k.snd_buf.map (·.sn) = [0xFFFFFFF0#32, 0xFFFFFFF1#32] ∧ k.snd_wnd = 2 ∧ k.snd_queue.length = 1 ∧
    k.rcv_buf.map (·.sn) = [0xFFFFFFFF#32] ∧ k.rcv_wnd = 2 := by decide
example :
    let k := run (start 7 0xFFFFFFF0#32 0xFFFFFFFE#32) (demoOps.take 10)
    k.rcv_queue.map (·.sn) = [0xFFFFFFFE#32, 0xFFFFFFFF#32] ∧ k.rcv_nxt = 0 ∧ k.rcv_buf = [] := by decide

end KcpVerif.Props
