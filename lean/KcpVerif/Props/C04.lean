import KcpVerif.Lemmas.KcpWindow
import KcpVerif.Lemmas.KcpWndWire
import KcpVerif.Lemmas.KcpAdmit
import KcpVerif.Lemmas.KcpCwnd
import KcpVerif.Lemmas.KcpClosed
import KcpVerif.Lemmas.KcpCwndArith
/-!
C04 — window discipline: bounded buffering, truthful window, backpressure.

All theorems are about the executable model `Model/Kcp.lean` of `kcp.go`.  "Every reachable state"
means: `run (start conv snd0 rcv0) ops` for an arbitrary list `ops : List Op` of operations with
ARBITRARY arguments (`Lemmas/KcpOps.lean`: `send recv input flush update setMtu noDelay wndSize
setStream`; every byte string for `input` — forged `una`/`sn`/`wnd`/`len` included —, every clock
value, every buffer length), starting from a fresh core whose sequence numbers start anywhere
(`start`; the real code is `start conv 0 0`).

The only hypothesis is `okRun`: every `wndSize` of the run leaves both windows below `2^31` and
EITHER shrinks no window (growing mid-traffic is allowed) OR happens while nothing is buffered
(windows set before traffic).  Shrinking a window under buffered traffic is excluded — and has to be:
it makes `rcv_queue.length ≤ rcv_wnd` false immediately.  `okRun` is decidable.
-/
namespace KcpVerif.Props
open KcpVerif KcpVerif.Gen KcpVerif.Kcp

/-- the only place that appends to the delivery queue never exceeds the receive window -/
theorem C04_moveLoop_bound (wnd : Nat) (buf q : List Seg) (nxt : U32) (h : q.length ≤ wnd) :
    (moveLoop wnd buf q nxt).q.length ≤ wnd := moveLoop_q_le wnd buf q nxt h

/-! ### the invariant is inductive over every operation -/

/-- `Inv` (receive window, delivery-queue bound, send window — `Lemmas/KcpWindow.lean`) is preserved
by EVERY operation with arbitrary arguments; the side condition `Op.ok` is `True` except for
`wndSize`, where it is `WndChangeOK`. -/
theorem C04_inv_step (k : Kcp) (op : Op) (hok : op.ok k) (h : Inv k) : Inv (step k op) :=
  step_inv k op hok h

/-- … in particular by `Input` of ANY byte string, without side condition -/
theorem C04_inv_input (k : Kcp) (data : Bytes) (regular ackNoDelay : Bool) (now : U32) (h : Inv k) :
    Inv (input k data regular ackNoDelay now).k := input_inv k data regular ackNoDelay now h

theorem C04_inv_reachable (conv snd0 rcv0 : U32) (ops : List Op) (hok : okRun (start conv snd0 rcv0) ops) :
    Inv (run (start conv snd0 rcv0) ops) := reachable_inv conv snd0 rcv0 ops hok

/-- shrinking is excluded for a reason: one `wndSize` below the queue length breaks the bound -/
example : ∃ k : Kcp, Inv k ∧ ¬ (k.wndSize 1 1).rcv_queue.length ≤ (k.wndSize 1 1).rcv_wnd.toNat :=
  ⟨{ Kcp.new 1 with rcv_queue := [{}, {}] },
   ⟨⟨by decide, fun _ hx => absurd hx List.not_mem_nil, List.Pairwise.nil⟩, by decide,
    ⟨by decide, trivial, by decide, by decide⟩⟩, by decide⟩

/-! ### 1. delivery queue -/

/-- in every reachable state at most one receive window of segments awaits the reader -/
theorem C04_rcvq_bound (conv snd0 rcv0 : U32) (ops : List Op) (hok : okRun (start conv snd0 rcv0) ops) :
    (run (start conv snd0 rcv0) ops).rcv_queue.length ≤ (run (start conv snd0 rcv0) ops).rcv_wnd.toNat :=
  (reachable_inv conv snd0 rcv0 ops hok).rq

/-! ### 2. out-of-order buffer -/

/-- `InvWin`: in every reachable state the sequence numbers in `rcv_buf` are pairwise distinct and lie in
`[rcv_nxt, rcv_nxt + rcv_wnd)` (wrap-around order), with `rcv_wnd < 2^31`; hence (pigeonhole on an
interval of `BitVec 32`) at most one receive window of segments is buffered out of order. -/
theorem C04_rcvbuf_bound (conv snd0 rcv0 : U32) (ops : List Op) (hok : okRun (start conv snd0 rcv0) ops) :
    let k := run (start conv snd0 rcv0) ops
    k.rcv_wnd.toNat < 2^31 ∧
    (∀ s ∈ k.rcv_buf, 0 ≤ itimediff s.sn k.rcv_nxt ∧ itimediff s.sn k.rcv_nxt < (k.rcv_wnd.toNat : Int)) ∧
    k.rcv_buf.Pairwise (fun a b => a.sn ≠ b.sn) ∧
    k.rcv_buf.length ≤ k.rcv_wnd.toNat := by
  intro k
  have h := (reachable_inv conv snd0 rcv0 ops hok).win
  exact ⟨h.small, h.inwin, h.distinct, h.length_le⟩

/-- the pigeonhole step on its own: ANY list of segments with distinct numbers inside a window of
`wnd < 2^31` values has at most `wnd` elements -/
theorem C04_window_pigeonhole (nxt wnd : U32) (buf : List Seg) (hw : wnd.toNat < 2^31)
    (hin : ∀ s ∈ buf, 0 ≤ itimediff s.sn nxt ∧ itimediff s.sn nxt < (wnd.toNat : Int))
    (hd : buf.Pairwise (fun a b => a.sn ≠ b.sn)) : buf.length ≤ wnd.toNat :=
  WinOK.length_le ⟨hw, hin, hd⟩

/-! ### 4. segments in flight -/

/-- in every reachable state `snd_buf` holds exactly the consecutive sequence numbers
`snd_una, …, snd_nxt - 1`, so the in-flight count `snd_nxt - snd_una` (32-bit) IS its length, and it
never exceeds the send window — whatever `una`/`sn` a peer forges. -/
theorem C04_inflight_bound (conv snd0 rcv0 : U32) (ops : List Op) (hok : okRun (start conv snd0 rcv0) ops) :
    let k := run (start conv snd0 rcv0) ops
    k.snd_wnd.toNat < 2^31 ∧
    Consec k.snd_una k.snd_buf ∧
    (k.snd_nxt - k.snd_una).toNat = k.snd_buf.length ∧
    k.snd_buf.length ≤ k.snd_wnd.toNat := by
  intro k
  have h := (reachable_inv conv snd0 rcv0 ops hok).snd
  exact ⟨h.small, h.consec, h.inflight, h.len_le⟩

/-! ### 3. truthful window -/

/-- the value `wnd_unused()` never exceeds the free space of the delivery queue (the `uint16`
truncation can only lower it) and is exact whenever that space fits 16 bits -/
theorem C04_wnd_value (k : Kcp) :
    (wndUnused k).toNat ≤ k.rcv_wnd.toNat - k.rcv_queue.length ∧
    (k.rcv_wnd.toNat - k.rcv_queue.length < 2^16 → (wndUnused k).toNat = k.rcv_wnd.toNat - k.rcv_queue.length) :=
  ⟨wndUnused_le k, wndUnused_eq k⟩

/-- every datagram handed to `output` by ANY operation from ANY state (`Input` included, whatever it
was fed) is a concatenation of whole encoded segments `l` — ACK, WASK, WINS, PUSH alike — and every one
of them carries in its `wnd` field exactly `wnd_unused()` of the state the operation leaves behind,
hence at most the free space of the delivery queue.  (`stepPanic`: the model recorded a slice-bounds
panic of the real code, after which nothing is modelled.) -/
theorem C04_wnd_truthful (k : Kcp) (op : Op) (hp : stepPanic k op = false) :
    ∀ o ∈ stepOuts k op, ∃ l : List WireSeg, o = encSegs l ∧
      ∀ w ∈ l, w.wnd = wndUnused (step k op) ∧
               w.wnd.toNat ≤ (step k op).rcv_wnd.toNat - (step k op).rcv_queue.length := by
  intro o hm
  obtain ⟨l, e, hw⟩ := step_allWnd k op hp o hm
  exact ⟨l, e, fun w hwl => ⟨hw w hwl, by rw [hw w hwl]; exact wndUnused_le _⟩⟩

/-- read from the receiving end: walk any emitted datagram the way the parse loop of `Input` does
(`wndFields`: 24-byte header, `wnd` at offset 6, skip `len` payload bytes, same fuel) — every `wnd`
field found is `wnd_unused()` of the state the operation left behind, at most the free space of the
delivery queue.  (`o.length < 2^32`: the length field cannot wrap; every real datagram is below 64 KiB.) -/
theorem C04_wnd_truthful_parsed (k : Kcp) (op : Op) (hp : stepPanic k op = false) :
    ∀ o ∈ stepOuts k op, o.length < 2^32 →
      ∀ x ∈ wndFields (o.length / IKCP_OVERHEAD + 1) o,
        x = wndUnused (step k op) ∧ x.toNat ≤ (step k op).rcv_wnd.toNat - (step k op).rcv_queue.length := by
  intro o hm hlen x hx
  have := allWnd_fields (step_allWnd k op hp o hm) hlen x hx
  exact ⟨this, by rw [this]; exact wndUnused_le _⟩

/-- the same for `flush` alone, against the state it started from (the value is computed once, at the
start, and stamped on every header: ACK/WASK/WINS through the scratch header, PUSH by `xmitOne`) -/
theorem C04_wnd_truthful_flush (k : Kcp) (full : Bool) (now : U32) (hp : (flush k full now).panic = false) :
    ∀ o ∈ (flush k full now).outs, AllWnd (wndUnused k) o := flush_allWnd k full now hp

/-- a forged acknowledgement whose `sn` is outside `[snd_una, snd_nxt)` is ignored altogether -/
theorem C04_forged_ack_ignored (k : Kcp) (sn ts : U32)
    (h : itimediff sn k.snd_una < 0 ∨ itimediff sn k.snd_nxt ≥ 0) :
    parseAck k sn = k ∧ parseFastack k sn ts = (k, false) := by
  unfold parseAck parseFastack
  rw [if_pos h, if_pos h]
  exact ⟨rfl, rfl⟩

/-- a forged `una` can only remove a prefix of `snd_buf` (the segments below `una`, then — `shrink_buf` —
the head segments already acknowledged one by one; `shrink_buf` re-establishes `snd_una` from the new head) -/
theorem C04_forged_una_prefix (k : Kcp) (una : U32) :
    ∃ c, c ≤ k.snd_buf.length ∧ (shrinkBuf (parseUna k una).1).snd_buf = k.snd_buf.drop c ∧
      (shrinkBuf (parseUna k una).1).snd_nxt = k.snd_nxt :=
  ⟨unaDrop una k.snd_buf, unaDrop_le _ _, shrinkUna_buf k una, shrinkUna_nxt k una⟩

/-! ### 5. admission rule -/

/-- phase 4, one segment: the head of `snd_queue` receives the sequence number `nxt` ONLY in the branch
where the window test succeeded … -/
theorem C04_admission_step (conv una cwnd now : U32) (s : Seg) (rest buf : List Seg) (nxt : U32) (c : Nat) :
    admitSegs conv una cwnd now (s :: rest) buf nxt c =
      if itimediff nxt (una + cwnd) ≥ 0 then ⟨s :: rest, buf, nxt, c⟩
      else admitSegs conv una cwnd now rest
        (buf ++ [{ s with conv := conv, cmd := BitVec.ofNat 8 IKCP_CMD_PUSH, sn := nxt, ts := now, resendts := now }])
        (nxt + 1) (c + 1) := rfl

/-- … and under the send invariant that test IS "in flight `< cwnd_eff`" (unsigned), where
`cwnd_eff = effCwnd k = min snd_wnd rmt_wnd` and, when `nocwnd = 0`, also `≤ cwnd` -/
theorem C04_admission_guard (k : Kcp) (h : Inv k) :
    ¬ (itimediff k.snd_nxt (k.snd_una + effCwnd k) ≥ 0) ↔
      ((k.snd_nxt - k.snd_una) < k.snd_wnd ∧ (k.snd_nxt - k.snd_una) < k.rmt_wnd ∧
       (k.nocwnd = 0 → (k.snd_nxt - k.snd_una) < k.cwnd)) := by
  rw [admit_guard_bv h.snd (effCwnd_le k), lt_effCwnd_iff]

/-- the admission rule for a whole `flush` from any state with the window invariant (in particular
every reachable one): afterwards `snd_buf` holds the old sequence numbers followed by `new`, taken from the
front of `snd_queue`; and every `sn ∈ new` was assigned at a moment when the in-flight count — which at
that moment is `sn - snd_una`, `sn` being `snd_nxt` — was `< snd_wnd`, `< rmt_wnd` and, with congestion
control on, `< cwnd`. -/
theorem C04_admission_rule (k : Kcp) (full : Bool) (now : U32) (h : Inv k) :
    ∃ new : List U32,
      (flush k full now).k.snd_buf.map (·.sn) = k.snd_buf.map (·.sn) ++ new ∧
      (flush k full now).k.snd_nxt = k.snd_nxt + BitVec.ofNat 32 new.length ∧
      (flush k full now).k.snd_queue = k.snd_queue.drop new.length ∧
      (flush k full now).k.snd_una = k.snd_una ∧
      ∀ sn ∈ new, (k.snd_nxt - k.snd_una) ≤ (sn - k.snd_una) ∧
        (sn - k.snd_una) < k.snd_wnd ∧ (sn - k.snd_una) < k.rmt_wnd ∧ (k.nocwnd = 0 → (sn - k.snd_una) < k.cwnd) :=
  flush_admission k full now h

/-- backpressure: while the effective window is full a flush admits nothing -/
theorem C04_backpressure (k : Kcp) (full : Bool) (now : U32) (h : Inv k)
    (hfull : ¬ (k.snd_nxt - k.snd_una) < effCwnd k) :
    (flush k full now).k.snd_nxt = k.snd_nxt ∧ (flush k full now).k.snd_queue = k.snd_queue ∧
    (flush k full now).k.snd_buf.length = k.snd_buf.length := flush_window_full k full now h hfull

/-! ### 6. congestion window -/

/-- a full flush that retransmits at least one segment by timeout (`flushLost` counts the segments of
`snd_buf` that phase 5 resends because `resendts` was reached — `RtoDue`) leaves `cwnd = 1` -/
theorem C04_rto_collapse (k : Kcp) (now : U32) (hn : k.nocwnd = 0) (hl : flushLost k now > 0) :
    (flush k true now).k.cwnd = 1 := flush_rto_collapse k now hn hl

/-- the hypothesis in terms of the state before the flush: some unacknowledged, already transmitted
segment without pending fast-ack count is overdue -/
theorem C04_rto_collapse_overdue (k : Kcp) (now : U32) (hn : k.nocwnd = 0) (s : Seg) (hs : s ∈ k.snd_buf)
    (ha : s.acked = false) (hx : s.xmit ≠ 0) (hf : s.fastack = 0 ∨ s.fastack = 0xFFFFFFFF#32)
    (hd : itimediff now s.resendts ≥ 0) : (flush k true now).k.cwnd = 1 :=
  flush_rto_collapse k now hn (flushLost_pos k now s hs ha hx hf hd)

/-- hence, with one segment or more in flight afterwards, nothing new is admitted by a later flush until
`cwnd` grows again — which only `Input` does, and only when `snd_una` advanced (`cwndOnAck`) -/
theorem C04_after_collapse_no_admission (k : Kcp) (full : Bool) (now : U32) (h : Inv k) (hn : k.nocwnd = 0)
    (hc : k.cwnd = 1) (hin : k.snd_buf ≠ []) :
    (flush k full now).k.snd_nxt = k.snd_nxt ∧ (flush k full now).k.snd_queue = k.snd_queue := by
  have hfl := h.snd.inflight
  have hlen : 0 < k.snd_buf.length := List.length_pos_iff.2 hin
  have := flush_window_full k full now h (by
    intro hlt
    have := ((lt_effCwnd_iff k _).1 hlt).2.2 hn
    rw [hc] at this
    bv_omega)
  exact ⟨this.1, this.2.1⟩

/-! #### "nothing new after a timeout loss until the oldest outstanding segment is acknowledged" -/

/-- the clause as the property has it: from any reachable state with congestion control on, after a full
flush at `now` that retransmits by timeout, along ANY further run `ops2` (any operations, any input)
during which congestion control stays on and `snd_una` does not move, `snd_nxt` does not move either. -/
def C04_no_admission_until_ack_full : Prop :=
  ∀ (conv snd0 rcv0 : U32) (ops1 : List Op) (now : U32) (ops2 : List Op),
    okRun (start conv snd0 rcv0) ops1 →
    (run (start conv snd0 rcv0) ops1).nocwnd = 0 →
    flushLost (run (start conv snd0 rcv0) ops1) now > 0 →
    okRun (flush (run (start conv snd0 rcv0) ops1) true now).k ops2 →
    allAfter (fun x => x.nocwnd = 0 ∧
        x.snd_una = (flush (run (start conv snd0 rcv0) ops1) true now).k.snd_una)
      (flush (run (start conv snd0 rcv0) ops1) true now).k ops2 →
    (run (flush (run (start conv snd0 rcv0) ops1) true now).k ops2).snd_nxt =
      (flush (run (start conv snd0 rcv0) ops1) true now).k.snd_nxt

/-- PROVED PART: the clause holds whenever no fast-resend threshold is configured (`fastresend ≤ 0` as
int32 — the default; only `NoDelay(_, _, resend, _)` with `resend > 0` changes it) in every state of the run.
Missing for the full statement: `fastresend > 0`, where the statement is FALSE (next theorem). -/
theorem C04_no_admission_until_ack_partial
    (conv snd0 rcv0 : U32) (ops1 : List Op) (now : U32) (ops2 : List Op)
    (hok1 : okRun (start conv snd0 rcv0) ops1)
    (hn : (run (start conv snd0 rcv0) ops1).nocwnd = 0)
    (hf : (run (start conv snd0 rcv0) ops1).fastresend.sle 0 = true)
    (hl : flushLost (run (start conv snd0 rcv0) ops1) now > 0)
    (hok2 : okRun (flush (run (start conv snd0 rcv0) ops1) true now).k ops2)
    (hq : allAfter (fun x => x.nocwnd = 0 ∧ x.fastresend.sle 0 = true ∧
        x.snd_una = (flush (run (start conv snd0 rcv0) ops1) true now).k.snd_una)
      (flush (run (start conv snd0 rcv0) ops1) true now).k ops2) :
    (run (flush (run (start conv snd0 rcv0) ops1) true now).k ops2).snd_nxt =
      (flush (run (start conv snd0 rcv0) ops1) true now).k.snd_nxt := by
  have hi := reachable_inv conv snd0 rcv0 ops1 hok1
  have hi' := flush_inv _ true now hi
  have hc := closed_after_rto _ now hn hf hl
  exact (closed_run _ ops2 hok2 hi' hc hq).2

/-- the same from ANY state with the window invariant and a closed congestion window
(`Closed`: `nocwnd = 0`, `fastresend ≤ 0`, something in flight, `cwnd ≤` in flight) -/
theorem C04_closed_window_stays_closed (k : Kcp) (ops : List Op) (hok : okRun k ops) (hi : Inv k) (hc : Closed k)
    (hq : allAfter (fun k' => k'.nocwnd = 0 ∧ k'.fastresend.sle 0 = true ∧ k'.snd_una = k.snd_una) k ops) :
    Closed (run k ops) ∧ (run k ops).snd_nxt = k.snd_nxt := closed_run k ops hok hi hc hq

/-- ACK segments for conv 9: `ackS0` acknowledges sn 0 with una 1; `ackS2` acknowledges sn 2, una still 1 -/
def ackS0 : Bytes := [9,0,0,0, 82,0, 32,0, 110,0,0,0, 0,0,0,0, 1,0,0,0, 0,0,0,0]
def ackS2 : Bytes := [9,0,0,0, 82,0, 32,0, 0xE8,3,0,0, 2,0,0,0, 1,0,0,0, 0,0,0,0]

/-- congestion control on, fast resend after 2 duplicate acks (`NoDelay(0, 100, 2, 0)`); segment 0 is sent
and acknowledged (`cwnd` 1 → 2), segments 1 and 2 are sent -/
def frOps1 : List Op :=
  [.noDelay 0 100 2 0, .send [1], .send [2], .send [3], .send [4], .send [5], .flush true 100, .flush true 110,
   .input ackS0 true false 120]
/-- two duplicate acknowledgements of segment 2, then a flush -/
def frOps2 : List Op := [.input ackS2 true false 1010, .input ackS2 true false 1011, .flush true 1020]

/-- THE FULL CLAUSE IS FALSE for the model (and, by the same run, for kcp.go — confirmed on the real
code): with `fastresend = 2` the timeout flush at t = 1000 collapses `cwnd` to 1, the two duplicate
acknowledgements make the next flush fast-retransmit segment 1, phase 6 sets
`cwnd = max(inflight/2, 2) + fastresend = 4 > 2` segments in flight, and the flush after that admits
segments 3 and 4 — `snd_nxt` 3 → 5 — while `snd_una = 1` has not moved (classic fast recovery). -/
theorem C04_no_admission_until_ack_full_false : ¬ C04_no_admission_until_ack_full := by
  intro h
  have := h 9 0 0 frOps1 1000 frOps2 (by decide) (by decide) (by decide) (by decide) (by decide)
  revert this
  decide

set_option maxRecDepth 4096 in
/-- the states of the counterexample, spelled out -/
example :
    let k1 := (flush (run (start 9 0 0) frOps1) true 1000).k
    k1.cwnd = 1 ∧ k1.snd_una = 1 ∧ k1.snd_nxt = 3 ∧
    (run k1 (frOps2.take 2)).cwnd = 4 ∧ (run k1 (frOps2.take 2)).snd_una = 1 ∧
    (run k1 frOps2).snd_una = 1 ∧ (run k1 frOps2).snd_nxt = 5 := by decide

/-- `C04_no_admission_until_ack_partial` is not vacuous: the same traffic with the default `fastresend = 0`
satisfies every hypothesis (and `snd_nxt` indeed stays at 3) -/
def slOps1 : List Op :=
  [.send [1], .send [2], .send [3], .send [4], .send [5], .flush true 100, .flush true 110, .input ackS0 true false 120]
example :
    okRun (start 9 0 0) slOps1 ∧ (run (start 9 0 0) slOps1).nocwnd = 0 ∧
    (run (start 9 0 0) slOps1).fastresend.sle 0 = true ∧ flushLost (run (start 9 0 0) slOps1) 1000 > 0 ∧
    okRun (flush (run (start 9 0 0) slOps1) true 1000).k frOps2 ∧
    allAfter (fun x => x.nocwnd = 0 ∧ x.fastresend.sle 0 = true ∧
        x.snd_una = (flush (run (start 9 0 0) slOps1) true 1000).k.snd_una)
      (flush (run (start 9 0 0) slOps1) true 1000).k frOps2 ∧
    (run (flush (run (start 9 0 0) slOps1) true 1000).k frOps2).snd_queue.length = 2 := by decide

/-- `cwnd` is touched by nothing but `Input` and the flushes (`flush`, `Update`) -/
theorem C04_cwnd_changes_only (k : Kcp) (op : Op) (h : (step k op).cwnd ≠ k.cwnd) :
    (∃ d reg nd now, op = .input d reg nd now) ∨ (∃ full now, op = .flush full now) ∨ (∃ now, op = .update now) := by
  cases op with
  | input d reg nd now => exact Or.inl ⟨d, reg, nd, now, rfl⟩
  | flush full now => exact Or.inr (Or.inl ⟨full, now, rfl⟩)
  | update now => exact Or.inr (Or.inr ⟨now, rfl⟩)
  | send b => exfalso; apply h; obtain ⟨q, e⟩ := send_shape k b; show (send k b).k.cwnd = _; rw [e]
  | recv n => exfalso; apply h; obtain ⟨q, b, x, p, e⟩ := recv_shape k n; show (recv k n).k.cwnd = _; rw [e]
  | setMtu m => exfalso; apply h; obtain ⟨a, b, c, e⟩ := setMtu_shape k m; show (setMtu k m).1.cwnd = _; rw [e]
  | noDelay a b c d =>
    exfalso; apply h; obtain ⟨_, _, _, _, _, e⟩ := noDelay_shape k a b c d; show (noDelay k a b c d).cwnd = _; rw [e]
  | wndSize s r => exfalso; apply h; obtain ⟨_, _, e⟩ := wndSize_shape k s r; show (wndSize k s r).cwnd = _; rw [e]
  | setStream v => exact absurd rfl h

/-- … and inside `Input` the parse loop and the RTT update leave it alone: only the ack-driven update
(which needs `snd_una` to have advanced) and phase 6 of a flush write it -/
theorem C04_cwnd_input_loop (regular : Bool) (fuel : Nat) (data : Bytes) (st : InLoop) :
    (inputLoop regular fuel data st).k.cwnd = st.k.cwnd := by
  obtain ⟨_, _, _, _, _, _, _, _, e⟩ := inputLoop_shape regular fuel data st
  rw [e]

theorem C04_cwnd_unchanged_without_advance (k : Kcp) (oldUna : U32) (h : ¬ itimediff k.snd_una oldUna > 0) :
    cwndOnAck k oldUna = k := by
  rw [cwndOnAck_eq, if_neg (fun hc => h hc.2.1)]

/-- `1 ≤ cwnd` after ANY flush with congestion control on -/
theorem C04_cwnd_sane (k : Kcp) (full : Bool) (now : U32) (hn : k.nocwnd = 0) :
    1 ≤ (flush k full now).k.cwnd := flush_cwnd_ge k full now hn

/-- `cwnd ≤ rmt_wnd` after the ack-driven update of `Input` whenever it changed `cwnd`
(and `rmt_wnd` is the value the peer advertised: the update does not touch it) -/
theorem C04_cwnd_le_rmt (k : Kcp) (oldUna : U32) (hch : (cwndOnAck k oldUna).cwnd ≠ k.cwnd) :
    (cwndOnAck k oldUna).cwnd ≤ k.rmt_wnd := by
  have := cwndOnAck_changed k oldUna hch
  rwa [cwndOnAck_rmt] at this

/-- the arithmetic of the ack-driven growth is sound in EVERY reachable state (no side condition at all:
any operations, any arguments): `rmt_wnd < 2^16`, `1 ≤ mss ≤ mtuLimit`; hence the divisor of
`mss*mss/incr` is not zero (the model's `BitVec` division would silently return 0 where Go panics — it
never gets there), the guard `mss > 0` is always true, and `(cwnd+1)*mss` does not wrap whenever the
growth step runs (`cwnd < rmt_wnd`). -/
theorem C04_cwnd_arith (conv snd0 rcv0 : U32) (ops : List Op) :
    let k := run (start conv snd0 rcv0) ops
    k.rmt_wnd.toNat < 2^16 ∧ 1 ≤ k.mss.toNat ∧ k.mss.toNat ≤ mtuLimit ∧
    (if k.incr < k.mss then k.mss else k.incr) ≠ 0 ∧ k.mss > 0 ∧
    (k.cwnd < k.rmt_wnd → ((k.cwnd + 1) * k.mss).toNat = (k.cwnd.toNat + 1) * k.mss.toNat) := by
  intro k
  have h : CwOK k := run_cw _ ops (start_cw conv snd0 rcv0)
  exact ⟨h.1, h.2.1, h.2.2, cwGrow_divisor_pos k h, cwGrow_mss_pos k h, cwGrow_no_wrap k h⟩

/-! ### non-vacuity: a concrete run across the 32-bit wrap with forged and out-of-order input -/

/-- PUSH segments for conv 7 (`sn` = FFFFFFFF / FFFFFFFE / 0), one payload byte each -/
def pushFF : Bytes := [7,0,0,0, 81,0, 32,0, 0,0,0,0, 0xFF,0xFF,0xFF,0xFF, 0xF0,0xFF,0xFF,0xFF, 1,0,0,0, 0xAA]
def pushFE : Bytes := [7,0,0,0, 81,0, 32,0, 0,0,0,0, 0xFE,0xFF,0xFF,0xFF, 0xF0,0xFF,0xFF,0xFF, 1,0,0,0, 0xBB]
def push00 : Bytes := [7,0,0,0, 81,0, 32,0, 0,0,0,0, 0,0,0,0, 0xF0,0xFF,0xFF,0xFF, 1,0,0,0, 0xCC]
/-- an ACK for sn FFFFFFF1 whose `una` (FFFFFFF1) acknowledges the first segment -/
def ackF1 : Bytes := [7,0,0,0, 82,0, 32,0, 100,0,0,0, 0xF1,0xFF,0xFF,0xFF, 0xF1,0xFF,0xFF,0xFF, 0,0,0,0]
/-- a forged ACK whose `una` is 2^31 - 1 ahead -/
def ackForged : Bytes := [7,0,0,0, 82,0, 0xFF,0xFF, 100,0,0,0, 0x00,0,0,0x70, 0xEF,0xFF,0xFF,0x7F, 0,0,0,0]

def demoOps : List Op :=
  [.wndSize 2 2, .noDelay 1 10 2 1, .send [1,2,3], .send [4], .send [5], .flush true 100,
   .input pushFF true false 120, .input push00 true false 121, .wndSize 3 4, .input pushFE true false 125,
   .input ackF1 true false 130, .update 300, .recv 10, .input ackForged true true 310, .update 400]

def demo : Kcp := run (start 7 0xFFFFFFF0#32 0xFFFFFFFE#32) demoOps

/-- the hypothesis of the reachable-state theorems holds for the demo run (it contains a window set
before traffic, a window grown mid-traffic, an out-of-window segment and forged acknowledgements) -/
example : okRun (start 7 0xFFFFFFF0#32 0xFFFFFFFE#32) demoOps := by decide

/-- … and the run visits non-trivial states: after 8 operations the send window is exactly full (the
bound of `C04_inflight_bound` is tight), one segment is buffered out of order at sequence number
FFFFFFFF and the out-of-window segment 0 was refused; after 10 the delivery queue holds two segments
and `rcv_nxt` has wrapped to 0. -/
example :
    let k := run (start 7 0xFFFFFFF0#32 0xFFFFFFFE#32) (demoOps.take 8)
    k.snd_buf.map (·.sn) = [0xFFFFFFF0#32, 0xFFFFFFF1#32] ∧ k.snd_wnd = 2 ∧ k.snd_queue.length = 1 ∧
    k.rcv_buf.map (·.sn) = [0xFFFFFFFF#32] ∧ k.rcv_wnd = 2 := by decide
example :
    let k := run (start 7 0xFFFFFFF0#32 0xFFFFFFFE#32) (demoOps.take 10)
    k.rcv_queue.map (·.sn) = [0xFFFFFFFE#32, 0xFFFFFFFF#32] ∧ k.rcv_nxt = 0 ∧ k.rcv_buf = [] := by decide

/-- `C04_wnd_truthful` is not vacuous: operation 12 of the demo run (`update 300`) emits one datagram
without panic, operation 6 (`flush`) emits the two PUSH segments -/
example :
    let k := run (start 7 0xFFFFFFF0#32 0xFFFFFFFE#32) (demoOps.take 11)
    stepPanic k (.update 300) = false ∧ (stepOuts k (.update 300)).length = 1 := by decide
example :
    let k := run (start 7 0xFFFFFFF0#32 0xFFFFFFFE#32) (demoOps.take 5)
    stepPanic k (.flush true 100) = false ∧ (stepOuts k (.flush true 100)).map List.length = [24 + 3 + 24 + 1] := by
  decide

/-- … and a receiver parses two `wnd` fields out of that datagram, both equal to 2 (= `rcv_wnd`, queue empty) -/
example :
    let k := run (start 7 0xFFFFFFF0#32 0xFFFFFFFE#32) (demoOps.take 5)
    (stepOuts k (.flush true 100)).map (fun o => wndFields (o.length / IKCP_OVERHEAD + 1) o) = [[2, 2]] := by
  decide

/-- `C04_backpressure` is not vacuous: after 6 operations the window (2) is full with one segment queued -/
example :
    let k := run (start 7 0xFFFFFFF0#32 0xFFFFFFFE#32) (demoOps.take 6)
    ¬ (k.snd_nxt - k.snd_una) < effCwnd k ∧ k.snd_queue.length = 1 := by decide

/-- a sender with congestion control on: three messages, the first flush opens `cwnd` to 1, the second
sends segment 0 at t = 110 (due again at 310) -/
def rtoOps : List Op := [.send [1], .send [2], .send [3], .flush true 100, .flush true 110]
def rtoState : Kcp := { run (start 9 0 0) rtoOps with cwnd := 5, rmt_wnd := 5 }

/-- `C04_rto_collapse` / `C04_after_collapse_no_admission` are not vacuous: at t = 1000 the segment is
overdue; the flush resends it, admits up to the (still open) window first, and collapses `cwnd` from 5 to 1 -/
example : rtoState.nocwnd = 0 ∧ flushLost rtoState 1000 > 0 ∧ rtoState.cwnd = 5 ∧
    (flush rtoState true 1000).k.cwnd = 1 ∧ (flush rtoState true 1000).k.snd_buf ≠ [] := by decide

/-- `C04_cwnd_le_rmt` is not vacuous: an acknowledged segment grows `cwnd` from 1 to 2 -/
example :
    let k := { run (start 9 0 0) rtoOps with snd_una := 1, snd_buf := [] }
    (cwndOnAck k 0).cwnd = 2 ∧ k.cwnd = 1 := by decide

end KcpVerif.Props
