import KcpVerif.Model.Kcp
/-! C04 — window discipline: bounded buffering, truthful window, backpressure. -/
namespace KcpVerif.Props
open KcpVerif KcpVerif.Gen KcpVerif.Kcp

/-- the only place that appends to the delivery queue never exceeds the receive window -/
theorem C04_moveLoop_bound (wnd : Nat) (buf q : List Seg) (nxt : U32) (h : q.length ≤ wnd) :
    (moveLoop wnd buf q nxt).q.length ≤ wnd := by
  induction buf generalizing q nxt with
  | nil => simpa [moveLoop] using h
  | cons s rest ih =>
    unfold moveLoop
    split
    · rename_i hc
      apply ih
      simp only [List.length_append, List.length_cons, List.length_nil]
      omega
    · exact h

end KcpVerif.Props
