import KcpVerif.Model.Cfb
namespace KcpVerif.Props
open KcpVerif KcpVerif.Cfb

theorem C08_placeholder : xorB [] [] = [] := rfl

end KcpVerif.Props
