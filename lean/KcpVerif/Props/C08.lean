import KcpVerif.Lemmas.CfbShell
/-!
C08 — ciphers round-trip every length and equal textbook CFB.

Model: `KcpVerif/Model/Cfb.lean` (the unrolled helpers of crypt.go over an explicit two-slice
memory).  All statements are for EVERY packet length (no bound), every block function `E` that
maps blocks to blocks, both block sizes, and both memory layouts (`alias = true`: the call
`Encrypt(buf, buf)`; `alias = false`: a separate destination with arbitrary contents, possibly
longer than the packet).  Helper lemmas: `KcpVerif/Lemmas/Cfb*.lean`.
-/
namespace KcpVerif.Props
open KcpVerif KcpVerif.Cfb

/-- contract of `cipher.Block.Encrypt` as far as CFB needs it: a block maps to a block -/
def BlockFn (bs : Nat) (E : Bytes → Bytes) : Prop := ∀ x : Bytes, x.length = bs → (E x).length = bs

/-- the IV a cipher of block size `bs` sees: `block.Encrypt(tbl, initialVector)` reads the first
block; `crypto/cipher.NewCFBEncrypter(block, initialVector[:bs])` -/
def iv (bs : Nat) : Bytes := Gen.initialVector.take bs

/-- wire compatibility: the IV in the source is the one every deployed peer uses (the value is
pinned here and in the harness; `Gen.initialVector` is regenerated from crypt.go on every run) -/
theorem C08_iv_pinned :
    Gen.initialVector = [167, 115, 79, 156, 18, 172, 27, 1, 164, 21, 242, 193, 252, 120, 230, 107] := by
  decide

theorem C08_iv_fits (bs : Nat) (h : bs = 8 ∨ bs = 16) : bs ≤ Gen.initialVector.length := by
  rcases h with rfl | rfl <;> decide

/-- **unrolled encrypt = textbook CFB.**  The call does not panic, `dst[0:len(src)]` holds the
textbook ciphertext, the rest of `dst` is untouched, and `src` is untouched unless it is the
same memory. -/
theorem C08_enc_unrolled_eq_textbook (bs : Nat) (hbs : bs = 8 ∨ bs = 16) (E : Bytes → Bytes)
    (hE : BlockFn bs E) (src dst : Bytes) (alias : Bool) (hlen : src.length ≤ dst.length)
    (hal : alias = true → dst = src) :
    ∃ r, encrypt E bs src dst alias = some r ∧
      r.dst = cfbEnc E bs (iv bs) src ++ dst.drop src.length ∧
      r.src = (if alias then r.dst else src) := by
  have hiv := C08_iv_fits bs hbs
  rcases hbs with rfl | rfl
  · refine ⟨_, rfl, ?_⟩
    rw [encrypt8_eq_steps]
    obtain ⟨h1, h2, h3, h4⟩ := enc_start E 8 (by decide) hiv hE true src dst alias [] hlen
      (fun h => (hal h).symm)
    refine ⟨h1, ?_⟩
    cases alias
    · exact h3 rfl
    · exact h4 rfl
  · refine ⟨_, rfl, ?_⟩
    rw [encrypt16_eq_steps]
    obtain ⟨h1, h2, h3, h4⟩ := enc_start E 16 (by decide) hiv hE false src dst alias [] hlen
      (fun h => (hal h).symm)
    refine ⟨h1, ?_⟩
    cases alias
    · exact h3 rfl
    · exact h4 rfl

/-- **unrolled decrypt = textbook CFB**, in place and out of place; the result does not depend
on what the working buffer held (`next0`). -/
theorem C08_dec_unrolled_eq_textbook (bs : Nat) (hbs : bs = 8 ∨ bs = 16) (E : Bytes → Bytes)
    (hE : BlockFn bs E) (src dst : Bytes) (alias : Bool) (next0 : Bytes)
    (hlen : src.length ≤ dst.length) (hal : alias = true → dst = src) :
    ∃ r, decrypt E bs src dst alias next0 = some r ∧
      r.dst = cfbDec E bs (iv bs) src ++ dst.drop src.length ∧
      r.src = (if alias then r.dst else src) := by
  have hiv := C08_iv_fits bs hbs
  rcases hbs with rfl | rfl
  · refine ⟨_, rfl, ?_⟩
    rw [decrypt8_eq_steps]
    obtain ⟨h1, h2, h3, h4⟩ := dec_start E 8 (by decide) hiv hE true src dst alias next0 hlen
      (fun h => (hal h).symm)
    refine ⟨h1, ?_⟩
    cases alias
    · exact h3 rfl
    · exact h4 rfl
  · refine ⟨_, rfl, ?_⟩
    rw [decrypt16_eq_steps]
    obtain ⟨h1, h2, h3, h4⟩ := dec_start E 16 (by decide) hiv hE false src dst alias next0 hlen
      (fun h => (hal h).symm)
    refine ⟨h1, ?_⟩
    cases alias
    · exact h3 rfl
    · exact h4 rfl

/-- textbook CFB preserves the length -/
theorem C08_cfb_length (bs : Nat) (hbs : bs = 8 ∨ bs = 16) (E : Bytes → Bytes) (hE : BlockFn bs E)
    (x : Bytes) : (cfbEnc E bs (iv bs) x).length = x.length := by
  have hiv := C08_iv_fits bs hbs
  have h0 : 0 < bs := by rcases hbs with rfl | rfl <;> decide
  exact length_cfbEnc E bs h0 hE x.length x (iv bs) (Nat.le_refl _)
    (by rw [iv, List.length_take]; omega)

/-- **CFB round trip**, every length, all four combinations of in-place / out-of-place
encryption and decryption, no property of `E` beyond "blocks to blocks". -/
theorem C08_cfb_roundtrip (bs : Nat) (hbs : bs = 8 ∨ bs = 16) (E : Bytes → Bytes)
    (hE : BlockFn bs E) (next0 x d1 d2 : Bytes) (a1 a2 : Bool)
    (h1 : x.length ≤ d1.length) (h2 : x.length ≤ d2.length) :
    RoundTripAt (encrypt E bs) (fun s d a => decrypt E bs s d a next0) x d1 d2 a1 a2 := by
  have hiv := C08_iv_fits bs hbs
  have h0 : 0 < bs := by rcases hbs with rfl | rfl <;> decide
  have hl := C08_cfb_length bs hbs E hE x
  refine RoundTripAt.of_spec (F := cfbEnc E bs (iv bs)) (G := cfbDec E bs (iv bs)) ?_ ?_ hl ?_ h1 h2
  · intro d a hd ha
    obtain ⟨r, e, hr, _⟩ := C08_enc_unrolled_eq_textbook bs hbs E hE x d a hd ha
    refine ⟨r, e, ?_⟩
    rw [hr, ← hl, List.take_left' rfl]
  · intro d a hd ha
    obtain ⟨r, e, hr, _⟩ := C08_dec_unrolled_eq_textbook bs hbs E hE _ d a next0 hd ha
    refine ⟨r, e, ?_⟩
    rw [hr]
    have : (cfbDec E bs (iv bs) (cfbEnc E bs (iv bs) x)).length = (cfbEnc E bs (iv bs) x).length := by
      rw [cfb_roundtrip E bs h0 hE x.length x (iv bs) (Nat.le_refl _)
        (by rw [iv, List.length_take]; omega), hl]
    rw [← this, List.take_left' rfl]
  · exact cfb_roundtrip E bs h0 hE x.length x (iv bs) (Nat.le_refl _)
      (by rw [iv, List.length_take]; omega)

/-! ### stream / xor / none -/

/-- none: round trip for every length, every layout -/
theorem C08_stream_roundtrip_none (x d1 d2 : Bytes) (a1 a2 : Bool)
    (h1 : x.length ≤ d1.length) (h2 : x.length ≤ d2.length) :
    RoundTripAt (fun s d a => some (noneCrypt s d a)) (fun s d a => some (noneCrypt s d a))
      x d1 d2 a1 a2 := by
  refine RoundTripAt.of_spec (F := id) (G := id) ?_ ?_ rfl rfl h1 h2
  · intro d a _ ha; exact ⟨_, rfl, none_spec x d a ha⟩
  · intro d a _ ha; exact ⟨_, rfl, none_spec x d a ha⟩

/-- xor with a table at least as long as the packet (the package's table has `mtuLimit`
bytes): round trip for every such length, every layout -/
theorem C08_stream_roundtrip_xor (tbl x d1 d2 : Bytes) (a1 a2 : Bool)
    (ht : tbl.length = Gen.mtuLimit) (hx : x.length ≤ Gen.mtuLimit)
    (h1 : x.length ≤ d1.length) (h2 : x.length ≤ d2.length) :
    RoundTripAt (fun s d a => some (xorCrypt tbl s d a)) (fun s d a => some (xorCrypt tbl s d a))
      x d1 d2 a1 a2 := by
  have hl : (xorB x tbl).length = x.length := by rw [length_xorB]; omega
  refine RoundTripAt.of_spec (F := fun s => xorB s tbl) (G := fun s => xorB s tbl) ?_ ?_ hl ?_ h1 h2
  · intro d a _ _; exact ⟨_, rfl, xor_spec tbl x d a (by omega)⟩
  · intro d a _ _; exact ⟨_, rfl, xor_spec tbl _ d a (by show (xorB x tbl).length ≤ _; omega)⟩
  · exact xorB_cancel _ _ (by omega)

/-- what the salsa20 shell computes on a packet -/
def salsaF (ks : Bytes → Nat → UInt8) (x : Bytes) : Bytes :=
  if x.length < 8 then x else salsaLong ks x

theorem C08_salsa_spec (ks : Bytes → Nat → UInt8) (src dst : Bytes) (alias : Bool)
    (hlen : src.length ≤ dst.length) (hal : alias = true → dst = src) :
    (salsaEncrypt ks src dst alias).dst.take src.length = salsaF ks src ∧
    (salsaDecrypt ks src dst alias).dst.take src.length = salsaF ks src := by
  by_cases h : src.length < 8
  · simp only [salsaEncrypt, salsaDecrypt, salsaF, if_pos h, write0_dst]
    simp
  · have := salsa_body_spec ks src dst alias (by omega) hlen hal
    simp only [salsaEncrypt, salsaDecrypt, salsaF, if_neg h]
    exact ⟨this, this⟩

/-- salsa20 shell (first 8 bytes = nonce, copied; rest XOR keystream(nonce)): round trip for
EVERY length, every layout, every keystream function.  Holds since the repair of D4
(`copy(dst, src)` in the short branch); before it the statement failed for 1..7 bytes out of
place, see `C08_salsa_short_counterexample_prerepair`. -/
theorem C08_stream_roundtrip_salsa20 (ks : Bytes → Nat → UInt8) (x d1 d2 : Bytes)
    (a1 a2 : Bool) (h1 : x.length ≤ d1.length) (h2 : x.length ≤ d2.length) :
    RoundTripAt (fun s d a => some (salsaEncrypt ks s d a)) (fun s d a => some (salsaDecrypt ks s d a))
      x d1 d2 a1 a2 := by
  have hl : (salsaF ks x).length = x.length := by
    unfold salsaF; split
    · rfl
    · exact length_salsaLong ks x (by omega)
  have hinv : salsaF ks (salsaF ks x) = x := by
    by_cases h : x.length < 8
    · simp only [salsaF, if_pos h]
    · have h8 : 8 ≤ x.length := by omega
      have : ¬ (salsaLong ks x).length < 8 := by rw [length_salsaLong ks x h8]; exact h
      simp only [salsaF, if_neg h, if_neg this]
      exact salsaLong_involutive ks x h8
  refine RoundTripAt.of_spec (F := salsaF ks) (G := salsaF ks) ?_ ?_ hl hinv h1 h2
  · intro d a hd ha; exact ⟨_, rfl, (C08_salsa_spec ks x d a hd ha).1⟩
  · intro d a hd ha; exact ⟨_, rfl, (C08_salsa_spec ks _ d a hd ha).2⟩

/-- D4 as it was: with the pre-repair body a 1-byte packet encrypted into a separate buffer is
not written at all, so the round trip returns whatever the destination held.  The oracle
`salsa20-short-outofplace` replays exactly this on the real code and reports it should the
defect come back. -/
theorem C08_salsa_short_counterexample_prerepair :
    ¬ ∀ (ks : Bytes → Nat → UInt8) (x d1 d2 : Bytes) (a1 a2 : Bool),
      x.length ≤ d1.length → x.length ≤ d2.length →
      RoundTripAt (fun s d a => some (salsaCryptPreRepair ks s d a))
        (fun s d a => some (salsaCryptPreRepair ks s d a)) x d1 d2 a1 a2 := by
  intro h
  obtain ⟨m1, e1, m2, e2, r⟩ := h (fun _ _ => 0) [1] [9] [7] false false (by decide) (by decide)
  simp only [salsaCryptPreRepair, Bool.false_eq_true, if_false, List.length_cons,
    List.length_nil, Option.some.injEq] at e1 e2
  subst e1
  simp at e2
  subst e2
  simp at r

/-- **stream / xor / none round trip**: for every packet of at most `mtuLimit` bytes (the
xor table's length; salsa20 and none need no bound), in place and out of place in all four
combinations. -/
theorem C08_stream_roundtrip (ks : Bytes → Nat → UInt8) (tbl : Bytes) (ht : tbl.length = Gen.mtuLimit)
    (x d1 d2 : Bytes) (a1 a2 : Bool) (hx : x.length ≤ Gen.mtuLimit)
    (h1 : x.length ≤ d1.length) (h2 : x.length ≤ d2.length) :
    RoundTripAt (fun s d a => some (salsaEncrypt ks s d a)) (fun s d a => some (salsaDecrypt ks s d a))
        x d1 d2 a1 a2 ∧
    RoundTripAt (fun s d a => some (xorCrypt tbl s d a)) (fun s d a => some (xorCrypt tbl s d a))
        x d1 d2 a1 a2 ∧
    RoundTripAt (fun s d a => some (noneCrypt s d a)) (fun s d a => some (noneCrypt s d a))
        x d1 d2 a1 a2 :=
  ⟨C08_stream_roundtrip_salsa20 ks x d1 d2 a1 a2 h1 h2,
   C08_stream_roundtrip_xor tbl x d1 d2 a1 a2 ht hx h1 h2,
   C08_stream_roundtrip_none x d1 d2 a1 a2 h1 h2⟩

/-! ### AEAD wrapper -/

/-- **AEAD inside the packet buffer.**  Given the two laws of an AEAD (`Seal` adds exactly
`overhead` bytes; `Open` undoes `Seal` under the same nonce), the wrapper `aeadCrypt.Seal`
called with a destination prefix `dst` inside a buffer of capacity `cap`
* returns (no panic) exactly when the sealed packet fits the capacity — so Go's `append` inside
  `aead.Seal` never reallocates: the result is `dst` followed by the ciphertext and is at most
  `cap` long — and opening what follows `dst` gives back the plaintext;
* refuses (panics, `none`) exactly when it would not fit.
(`dst == nil` is the other refusal of the Go code; sessions pass `buf[:nonceSize]`.) -/
theorem C08_aead_in_buffer (sealF : Bytes → Bytes → Bytes) (openF : Bytes → Bytes → Option Bytes)
    (overhead cap : Nat)
    (hseal : ∀ n p, (sealF n p).length = p.length + overhead)
    (hopen : ∀ n p, openF n (sealF n p) = some p)
    (dst nonce pt : Bytes) (hcap : dst.length ≤ cap) :
    (dst.length + pt.length + overhead ≤ cap →
      ∃ out, aeadSeal sealF overhead cap dst nonce pt = some out ∧
        out.length = dst.length + pt.length + overhead ∧ out.length ≤ cap ∧
        out.take dst.length = dst ∧ openF nonce (out.drop dst.length) = some pt) ∧
    (cap < dst.length + pt.length + overhead → aeadSeal sealF overhead cap dst nonce pt = none) := by
  constructor
  · intro h
    refine ⟨dst ++ sealF nonce pt, ?_, ?_, ?_, ?_, ?_⟩
    · simp only [aeadSeal]; rw [if_neg (by omega)]
    · rw [List.length_append, hseal]; omega
    · rw [List.length_append, hseal]; omega
    · rw [List.take_left' rfl]
    · rw [List.drop_left' rfl, hopen]
  · intro h
    simp only [aeadSeal]; rw [if_pos (by omega)]

/-- the way sess.go calls it: `Seal(buf[:ns], buf[:ns], buf[ns:], nil)` on a pooled buffer of
capacity `mtuLimit`; a packet (nonce + plaintext) of at most `mtuLimit - overhead` bytes —
which is what `SetMtu` reserves (`mtu -= aead.Overhead()`) — is never refused -/
theorem C08_aead_session_fits (sealF : Bytes → Bytes → Bytes) (overhead : Nat) (nonce pt : Bytes)
    (h : nonce.length + pt.length + overhead ≤ Gen.mtuLimit) :
    aeadSeal sealF overhead Gen.mtuLimit nonce nonce pt = some (nonce ++ sealF nonce pt) := by
  simp only [aeadSeal]; rw [if_neg (by omega)]

/-! ### non-vacuity -/

theorem C08_toy_blockFn (key : Bytes) (bs : Nat) : BlockFn bs (toyE key) := by
  intro x hx; simp [toyE, hx]

/-- the hypotheses of the CFB theorems are satisfiable by a non-trivial state: a 301-byte packet
(2 groups, 2 leftover blocks, 13 tail bytes for 16-byte blocks), separate longer destination -/
example := C08_enc_unrolled_eq_textbook 16 (Or.inr rfl) (toyE [7, 1]) (C08_toy_blockFn _ _)
  (List.replicate 301 5) (List.replicate 310 9) false
  (by rw [List.length_replicate, List.length_replicate]; omega) (by intro h; cases h)

example := C08_dec_unrolled_eq_textbook 8 (Or.inl rfl) (toyE [7, 1]) (C08_toy_blockFn _ _)
  (List.replicate 301 5) (List.replicate 301 5) true [0xaa] (Nat.le_refl _) (fun _ => rfl)

example : RoundTripAt (encrypt (toyE [3]) 8) (fun s d a => decrypt (toyE [3]) 8 s d a [1, 2])
    (List.replicate 77 200) (List.replicate 80 1) (List.replicate 77 2) true false :=
  C08_cfb_roundtrip 8 (Or.inl rfl) (toyE [3]) (C08_toy_blockFn _ _) [1, 2] _ _ _ true false
    (by rw [List.length_replicate, List.length_replicate]; omega)
    (by rw [List.length_replicate, List.length_replicate]; omega)

/-- a concrete run of the model (the values the real `encrypt8` produces with the same toy
cipher are compared on every check by the component `cfb`) -/
example : (encrypt8 (toyE [1, 2, 3]) [0, 1, 2, 3, 4, 5, 6, 7, 8, 9] [0, 0, 0, 0, 0, 0, 0, 0, 0, 0, 0xee] false).m.dst.length = 11 := by
  decide

/-- an AEAD satisfying both laws exists (tag = `overhead` zero bytes) -/
example : ∃ (sealF : Bytes → Bytes → Bytes) (openF : Bytes → Bytes → Option Bytes),
    (∀ n p, (sealF n p).length = p.length + 16) ∧ (∀ n p, openF n (sealF n p) = some p) :=
  ⟨fun _ p => p ++ List.replicate 16 0, fun _ c => some (c.take (c.length - 16)),
    by intro n p; simp, by intro n p; simp⟩

end KcpVerif.Props
