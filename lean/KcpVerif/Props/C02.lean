import KcpVerif.Model.Kcp
/-! C02 — eventual delivery: a healed network always drains the backlog. -/
namespace KcpVerif.Props
open KcpVerif KcpVerif.Gen KcpVerif.Kcp

/-- cumulative acknowledgement: `una` removes exactly the leading segments it covers, so the
send buffer only ever shrinks from the front and what remains is a suffix -/
theorem C02_parseUna_suffix (k : Kcp) (una : U32) :
    (parseUna k una).1.snd_buf = k.snd_buf.drop (parseUna k una).2 ∧ (parseUna k una).2 ≤ k.snd_buf.length := by
  unfold parseUna
  refine ⟨rfl, ?_⟩
  simp only []
  generalize k.snd_buf = l
  induction l with
  | nil => simp [unaCount]
  | cons s rest ih => unfold unaCount; split <;> simp <;> omega

end KcpVerif.Props
