import KcpVerif.Model.Kcp
import KcpVerif.Lemmas.KcpLiveFlush
import KcpVerif.Lemmas.KcpLive
import KcpVerif.Lemmas.KcpState
import KcpVerif.Lemmas.KcpTimer
import KcpVerif.Lemmas.KcpMove
import KcpVerif.Lemmas.KcpHead
import KcpVerif.Lemmas.SysCleanRun
import KcpVerif.Lemmas.SysProgress
import KcpVerif.Lemmas.SysProgress2
import KcpVerif.Lemmas.SysDrainCex
import KcpVerif.Lemmas.SysDrainCons2
import KcpVerif.Lemmas.SysWedgeRepaired
import KcpVerif.Lemmas.SysDrainReturn
import KcpVerif.Lemmas.SysDrainReturn2
import KcpVerif.Lemmas.SysDrainTimer2
import KcpVerif.Lemmas.SysDrainHead3
import KcpVerif.Lemmas.SysDrainOrder
import KcpVerif.Lemmas.SysDrainHead4
import KcpVerif.Lemmas.SysDrainAll
import KcpVerif.Lemmas.SysDrainFull
import KcpVerif.Lemmas.SysDrainFull2
import KcpVerif.Lemmas.SysDrainFair2
/-! C02 — eventual delivery: a healed network always drains the backlog. -/
namespace KcpVerif.Props
open KcpVerif KcpVerif.Gen KcpVerif.Kcp KcpVerif.Live

/-- cumulative acknowledgement: `una` removes exactly the leading segments it covers, so the
send buffer only ever shrinks from the front and what remains is a suffix -/
theorem C02_parseUna_suffix (k : Kcp) (una : U32) :
    (parseUna k una).1.snd_buf = k.snd_buf.drop (parseUna k una).2 ∧ (parseUna k una).2 ≤ k.snd_buf.length := by
  unfold parseUna
  refine ⟨rfl, ?_⟩
  simp only []
  generalize k.snd_buf = l
  induction l with
  | nil => simp [unaCount]
  | cons s rest ih => unfold unaCount; split <;> simp <;> omega

/-! ### `fastack_cleared`: branch analysis of phase 5 (`xmitOne`) for a segment sent before

`cause`, `segAfter`, `emit` (Lemmas/KcpXmit.lean) are the decision cascade, the segment left in
`snd_buf` and the write into the output buffer; `xmitOne_eq` proves `xmitOne` equal to them. -/

/-- For an un-acked segment that was sent before (`xmit > 0`) and whose timer is due, for EVERY
fast-resend setting, `fastack` value and admission count: the segment is sent (by the fast, early or
timeout branch; `f := emit …`, `xmit` incremented); if it is the timeout branch, `fastack` is reset
to 0 and the loss is counted; and the sentinel `fastack = 0xFFFFFFFF` always ends in the timeout
branch — it never suppresses the retransmission. -/
theorem C02_fastack_cleared (now resent : U32) (wnd : BitVec 16) (una : U32) (newSegs : Nat) (st : XmitSt) (s : Seg)
    (ha : s.acked = false) (hx : s.xmit ≠ 0) (hd : itimediff now s.resendts ≥ 0) :
    ∃ s', (xmitOne now resent wnd una newSegs st s).done = st.done ++ [s'] ∧
      (xmitOne now resent wnd una newSegs st s).f = emit st.f s' ∧
      s'.xmit = s.xmit + 1 ∧ s'.ts = now ∧ s'.sn = s.sn ∧ s'.data = s.data ∧ s'.acked = false ∧
      (cause now resent newSegs s = .fast ∨ cause now resent newSegs s = .early ∨ cause now resent newSegs s = .timeout) ∧
      (cause now resent newSegs s = .timeout →
        s'.fastack = 0 ∧ (xmitOne now resent wnd una newSegs st s).lost = st.lost + 1) ∧
      (s.fastack = 0xFFFFFFFF#32 → cause now resent newSegs s = .timeout) := by
  have hc := cause_due now resent newSegs s hx hd
  have hne : cause now resent newSegs s ≠ .none := by
    rcases hc with h | h | h <;> rw [h] <;> exact fun c => by cases c
  refine ⟨segAfter now resent wnd una newSegs st.f.k.rx_rto st.f.k.nodelay s, xmitOne_done _ _ _ _ _ _ _, ?_, ?_, ?_,
    (segAfter_id _ _ _ _ _ _ _ _).1, (segAfter_id _ _ _ _ _ _ _ _).2.1, ?_, hc, ?_, fun hf => cause_sentinel _ _ _ _ hx hf hd⟩
  · rw [xmitOne_f, if_neg (fun h => h.elim (by simp [ha]) hne)]
  · rw [segAfter_sent _ _ _ _ _ _ _ _ ha hne]
    rcases hc with h | h | h <;> rw [h] <;> rfl
  · rw [segAfter_sent _ _ _ _ _ _ _ _ ha hne]; rfl
  · rw [segAfter_acked, ha]
  · intro h
    constructor
    · rw [segAfter_sent _ _ _ _ _ _ _ _ ha hne, h]; rfl
    · rw [xmitOne_eq, if_neg (by simp [ha])]
      simp only [h, ↓reduceIte]

/-- non-vacuity: a segment carrying the sentinel whose timer is due -/
example : ∃ s : Seg, s.acked = false ∧ s.xmit ≠ 0 ∧ itimediff 1000 s.resendts ≥ 0 ∧ s.fastack = 0xFFFFFFFF#32 :=
  ⟨{ xmit := 2, resendts := 900, fastack := 0xFFFFFFFF#32 }, by decide⟩

/-! ### `retx_armed` -/

/-- A full flush at `now`, any state.  Let `buf` be the send buffer after admission (phase 4; it
extends the old `snd_buf`).
1. the new `snd_buf` is `buf` with `segAfter` applied to every element (same order, same `sn`s);
2. every un-acked segment sent before whose timer is due takes a sending branch — whatever the
   windows (`rmt_wnd`, `cwnd`, `snd_wnd`) are — and, if the flush does not panic, its bytes
   (header with the new `ts`/`wnd`/`una`, then data) are in the output;
3. after the flush no un-acked segment is due: `itimediff now s'.resendts < 0`, and the ones
   transmitted by this flush have `itimediff s'.resendts now = s'.rto` exactly, provided
   `0 < s'.rto < 2^31` (explicit side condition: beyond it the signed comparison is meaningless);
4. the returned interval is at most `interval` and at most every positive `resendts − now`. -/
theorem C02_retx_armed (k : Kcp) (now : U32) :
    (∃ t, (flAd k now).buf = k.snd_buf ++ t) ∧
    (flush k true now).k.snd_buf =
      (flAd k now).buf.map (segAfter now (resentOf k) (wndUnused k) k.rcv_nxt (flAd k now).count k.rx_rto k.nodelay) ∧
    (∀ s ∈ (flAd k now).buf, s.acked = false → s.xmit ≠ 0 → itimediff now s.resendts ≥ 0 →
      cause now (resentOf k) (flAd k now).count s ≠ .none ∧
      ((flush k true now).panic = false → ∃ pre post, (flush k true now).outs.flatten =
        pre ++ segBytes (segAfter now (resentOf k) (wndUnused k) k.rcv_nxt (flAd k now).count k.rx_rto k.nodelay s) ++ post)) ∧
    (∀ s' ∈ (flush k true now).k.snd_buf, s'.acked = false → 0 < s'.rto.toNat → s'.rto.toNat < 2 ^ 31 →
      itimediff now s'.resendts < 0 ∧
      (s'.ts = now ∧ s'.xmit ≠ 0 → s'.resendts = now + s'.rto → itimediff s'.resendts now = s'.rto.toNat)) ∧
    (flush k true now).interval ≤ k.interval ∧
    (∀ s' ∈ (flush k true now).k.snd_buf, s'.acked = false → itimediff s'.resendts now > 0 →
      ((flush k true now).interval.toNat : Int) ≤ itimediff s'.resendts now) := by
  obtain ⟨pw, tp, h4⟩ := flF4_frame k now
  have hX := flX_full k now
  have hres : resentOf (flF4 k now).k = resentOf k := by rw [h4]; rfl
  have hrto : (flF4 k now).k.rx_rto = k.rx_rto := by rw [h4]
  have hnd : (flF4 k now).k.nodelay = k.nodelay := by rw [h4]
  have hbuf : (flF4 k now).k.snd_buf = (flAd k now).buf := by rw [h4]
  have hint : (flF4 k now).k.interval = k.interval := by rw [h4]
  have hdone := hX.done
  have hnear := hX.next_near
  have hsent := hX.sent
  have hle := hX.next_le
  simp only [hres, hrto, hnd, hbuf, hint, List.nil_append] at hdone hnear hsent hle
  obtain ⟨_, _, st, ss, cw, inc, hk⟩ := flush_frame k true now
  have hsb : (flush k true now).k.snd_buf = (flX k true now).done := by rw [hk]
  have hiv : (flush k true now).interval = (flX k true now).next := by rw [flush_eq]
  refine ⟨flAd_prefix k now, by rw [hsb, hdone], ?_, ?_, by rw [hiv]; exact hle, ?_⟩
  · intro s hs ha hx hd
    have hne : cause now (resentOf k) (flAd k now).count s ≠ .none := by
      rcases cause_due now (resentOf k) (flAd k now).count s hx hd with h | h | h <;> rw [h] <;>
        exact fun c => by cases c
    refine ⟨hne, fun hp => ?_⟩
    rw [flush_panic] at hp
    obtain ⟨pre, post, hw⟩ := hsent s hs ha hne ((grow_F5 k true now).noPanic hp)
    obtain ⟨t, ht⟩ := (grow_F5 k true now).liveWire
    exact ⟨pre, post ++ t, by rw [flush_wire, ht, hw]; simp⟩
  · intro s' hs' ha' h0 h31
    rw [hsb, hdone] at hs'
    obtain ⟨s, hs, rfl⟩ := List.mem_map.mp hs'
    rw [segAfter_acked] at ha'
    by_cases hc : cause now (resentOf k) (flAd k now).count s = .none
    · rw [segAfter_none _ _ _ _ _ _ _ _ (Or.inr hc)]
      refine ⟨(cause_none _ _ _ _ hc).2, fun _ hr => ?_⟩
      rw [segAfter_none _ _ _ _ _ _ _ _ (Or.inr hc)] at h0 h31
      rw [hr]; exact (itimediff_add_self now s.rto h31).1
    · have hr : (segAfter now (resentOf k) (wndUnused k) k.rcv_nxt (flAd k now).count k.rx_rto k.nodelay s).resendts =
          now + (segAfter now (resentOf k) (wndUnused k) k.rcv_nxt (flAd k now).count k.rx_rto k.nodelay s).rto := by
        rw [segAfter_sent _ _ _ _ _ _ _ _ ha' hc]
        exact retimed_resendts _ _ _ _ _ hc
      rw [hr]
      have := itimediff_add_self now _ h31
      exact ⟨by rw [this.2]; omega, fun _ _ => this.1⟩
  · intro s' hs' ha' hd
    rw [hsb, hdone] at hs'
    obtain ⟨s, hs, rfl⟩ := List.mem_map.mp hs'
    rw [segAfter_acked] at ha'
    have h := hnear s hs ha' hd
    rw [ofInt_itimediff, BitVec.le_def] at h
    rw [hiv, ← itimediff_pos_toNat _ _ hd]
    exact Int.ofNat_le.mpr h

/-- a segment transmitted by a full flush has its timer exactly `rto` ahead (the part of 3 that
identifies "transmitted by this flush" through `segAfter`) -/
theorem C02_retx_armed_sent_timer (k : Kcp) (now : U32) (s : Seg) (hs : s ∈ (flAd k now).buf) (ha : s.acked = false)
    (hc : cause now (resentOf k) (flAd k now).count s ≠ .none) :
    (segAfter now (resentOf k) (wndUnused k) k.rcv_nxt (flAd k now).count k.rx_rto k.nodelay s) ∈ (flush k true now).k.snd_buf ∧
    (segAfter now (resentOf k) (wndUnused k) k.rcv_nxt (flAd k now).count k.rx_rto k.nodelay s).resendts =
      now + (segAfter now (resentOf k) (wndUnused k) k.rcv_nxt (flAd k now).count k.rx_rto k.nodelay s).rto := by
  refine ⟨?_, ?_⟩
  · rw [(C02_retx_armed k now).2.1]; exact List.mem_map.mpr ⟨s, hs, rfl⟩
  · rw [segAfter_sent _ _ _ _ _ _ _ _ ha hc]; exact retimed_resendts _ _ _ _ _ hc

/-! ### `ack_owed_sent`

`inStep` (Lemmas/KcpInput.lean) is the body of one iteration of `inputLoop` for a segment that passed
the header checks (`inputLoop_succ` proves the unrolling by `rfl`). -/

/-- Every PUSH whose `sn` is below the top of the receive window — new, duplicate, or already
delivered (`sn < rcv_nxt`) — is put on the ack list, whatever else the step does; a PUSH at or
above the top is not (and leaves the whole receive side alone); no later step of the same `Input`
removes an entry. -/
theorem C02_ack_owed_listed (regular : Bool) (conv : U32) (cmd frg : BitVec 8) (wnd : BitVec 16) (ts sn una : U32)
    (payload : Bytes) (st : InLoop) (hc : cmd.toNat = IKCP_CMD_PUSH) :
    (itimediff sn (st.k.rcv_nxt + st.k.rcv_wnd) < 0 →
      (inStep regular conv cmd frg wnd ts sn una payload st).k.acklist = st.k.acklist ++ [⟨sn, ts⟩]) ∧
    (¬ itimediff sn (st.k.rcv_nxt + st.k.rcv_wnd) < 0 →
      (inStep regular conv cmd frg wnd ts sn una payload st).k.acklist = st.k.acklist) ∧
    (∀ fuel data, ∃ t, (inputLoop regular fuel data st).k.acklist = st.k.acklist ++ t) := by
  refine ⟨inStep_push_acklist regular conv cmd frg wnd ts sn una payload st hc, fun hw => ?_,
    fun fuel data => inputLoop_acklist_mono regular fuel data st⟩
  rw [inStep_push_refused regular conv cmd frg wnd ts sn una payload st hc hw]
  exact (inPre_rcv regular wnd una st.k).2.2.1

/-- A flush of either type with a non-empty ack list empties it and — the jitter filter always
keeps the LAST entry (`total − 1 = i`) — writes at least the ACK header of the last entry, carrying
`una = rcv_nxt` and the current `wnd_unused`; unless the flush panics (buffer too small, C05/C10)
that header is in the output. -/
theorem C02_ack_owed_sent (k : Kcp) (full : Bool) (now : U32) (a : Ack) (hl : k.acklist.getLast? = some a) :
    (flush k full now).k.acklist = [] ∧
    ((flush k full now).panic = false → ∃ pre post, (flush k full now).outs.flatten =
      pre ++ encodeHdr k.conv (BitVec.ofNat 8 IKCP_CMD_ACK) 0 (wndUnused k) a.ts a.sn k.rcv_nxt 0 ++ post) := by
  constructor
  · obtain ⟨_, _, _, _, _, _, h⟩ := flush_frame k full now
    rw [h]
  · intro hp
    rw [flush_panic] at hp
    have hg := grow_ack_end k full now
    have hl' := ackFlush_last (wndUnused k) k.rcv_nxt k.acklist.length k.acklist 0
      ⟨{ k := k }, { cmd := BitVec.ofNat 8 IKCP_CMD_ACK }⟩ a hl (by omega) (hg.noPanic hp)
    obtain ⟨pre, hw⟩ := hl'.1
    obtain ⟨post, hpost⟩ := hg.keeps hw
    exact ⟨pre, post, by rw [flush_wire, hpost]⟩

/-- non-vacuity: two owed acks, the first one stale (`sn 4 < rcv_nxt 6`) and dropped by the filter,
the last one always sent, with `una = rcv_nxt = 6` -/
example : (flush { Kcp.new 1 with acklist := [⟨4, 8⟩, ⟨5, 9⟩], rcv_nxt := 6 } false 0).outs =
    [encodeHdr 1 82 0 32 9 5 6 0] := by decide

/-- the ack list is always flushed, even with an empty list nothing remains -/
theorem C02_flush_empties_acklist (k : Kcp) (full : Bool) (now : U32) : (flush k full now).k.acklist = [] := by
  obtain ⟨_, _, _, _, _, _, h⟩ := flush_frame k full now
  rw [h]

/-- `Input` itself flushes as soon as the ack list reaches `mtu / 24` entries (and at once with
`ackNoDelay`): after every `Input` that parsed its datagram to the end (`ret = 0`, no panic) the
list is empty or shorter than `mtu / 24`. -/
theorem C02_ack_owed_input_flushes (k : Kcp) (data : Bytes) (regular ackNoDelay : Bool) (now : U32)
    (hr : (input k data regular ackNoDelay now).ret = 0) (hp : (input k data regular ackNoDelay now).panic = false) :
    (input k data regular ackNoDelay now).k.acklist = [] ∨
    ((input k data regular ackNoDelay now).k.acklist.length <
        ((input k data regular ackNoDelay now).k.mtu / u32 IKCP_OVERHEAD).toNat ∧
      (ackNoDelay = true → False)) := by
  rw [input_eq] at hr hp ⊢
  by_cases h1 : data.length < IKCP_OVERHEAD
  · rw [if_pos h1] at hr; simp at hr
  · rw [if_neg h1] at hr hp ⊢
    by_cases h2 : (inSt k data regular).panic = true
    · rw [if_pos h2] at hp; simp at hp
    · rw [if_neg h2] at hr hp ⊢
      by_cases h3 : (inSt k data regular).ret < 0
      · rw [if_pos h3] at hr; simp only [] at hr; omega
      · rw [if_neg h3]
        by_cases h4 : (inSt k data regular).flushSeg = true
        · rw [if_pos h4]; exact Or.inl (C02_flush_empties_acklist _ _ _)
        · rw [if_neg h4]
          by_cases h5 : (inK2 k data regular now).acklist.length ≥ ((inK2 k data regular now).mtu / u32 IKCP_OVERHEAD).toNat
          · rw [if_pos h5]; exact Or.inl (C02_flush_empties_acklist _ _ _)
          · rw [if_neg h5]
            by_cases h6 : ackNoDelay = true ∧ (inK2 k data regular now).acklist.length > 0
            · rw [if_pos h6]; exact Or.inl (C02_flush_empties_acklist _ _ _)
            · rw [if_neg h6]
              by_cases hl : (inK2 k data regular now).acklist = []
              · exact Or.inl hl
              · exact Or.inr ⟨Nat.lt_of_not_le h5, fun hnd => h6 ⟨hnd, List.length_pos_iff.mpr hl⟩⟩

/-! ### `una_cumulative` -/

/-- `parse_una(u)` + `shrink_buf`: the leading segments with `itimediff u sn > 0` are removed (the
first remaining one is not covered by `u`), then `shrink_buf` also removes every leading segment that
was already acknowledged individually (`acked`, the lazy-delete flag of `parse_ack`); the new head
(if any) is therefore NOT flagged and `snd_una` becomes its `sn`, or `snd_nxt` for an empty buffer.
Every valid incoming segment of ANY command does this first (`inPre` is the common prologue of
`inStep`), so a lost final ACK is repaired by the `una` of any later segment.  Individually
acknowledged heads are covered too: an ACK for the head's own `sn` (inside `[snd_una, snd_nxt)`)
followed by the second `shrink_buf` of the ACK path removes the head — and every flagged segment
behind it — at once, and `snd_una` advances to the next live segment (or `snd_nxt`).  Flagged
segments stay in `snd_buf` only while an un-acknowledged segment is in front of them. -/
theorem C02_una_cumulative (k : Kcp) (u : U32) :
    (shrinkBuf (parseUna k u).1).snd_buf =
      (k.snd_buf.dropWhile (fun s => decide (itimediff u s.sn > 0))).dropWhile (fun s => s.acked) ∧
    (match k.snd_buf.dropWhile (fun s => decide (itimediff u s.sn > 0)) with
      | s :: _ => ¬ itimediff u s.sn > 0
      | [] => True) ∧
    (match (shrinkBuf (parseUna k u).1).snd_buf with
      | s :: _ => s.acked = false ∧ (shrinkBuf (parseUna k u).1).snd_una = s.sn
      | [] => (shrinkBuf (parseUna k u).1).snd_una = k.snd_nxt) ∧
    (∀ regular wnd, (inPre regular wnd u k).snd_buf =
      (k.snd_buf.dropWhile (fun s => decide (itimediff u s.sn > 0))).dropWhile (fun s => s.acked)) ∧
    (∀ s rest, k.snd_buf = s :: rest → itimediff s.sn k.snd_una ≥ 0 → itimediff s.sn k.snd_nxt < 0 →
      (shrinkBuf (parseAck k s.sn)).snd_buf = rest.dropWhile (fun s => s.acked) ∧
      (match rest.dropWhile (fun s => s.acked) with
        | t :: _ => t.acked = false ∧ (shrinkBuf (parseAck k s.sn)).snd_una = t.sn
        | [] => (shrinkBuf (parseAck k s.sn)).snd_una = k.snd_nxt)) := by
  have hb : (shrinkBuf (parseUna k u).1).snd_buf =
      (k.snd_buf.dropWhile (fun s => decide (itimediff u s.sn > 0))).dropWhile (fun s => s.acked) := by
    rw [shrinkBuf_eq]; unfold parseUna; simp only []
    rw [drop_unaCount, dropAcked_eq_dropWhile]
  refine ⟨hb, ?_, ?_, ?_, ?_⟩
  · cases hd : k.snd_buf.dropWhile (fun s => decide (itimediff u s.sn > 0)) with
    | nil => trivial
    | cons s rest =>
      have := List.head?_dropWhile_not (fun s : Seg => decide (itimediff u s.sn > 0)) k.snd_buf
      rw [hd] at this
      simpa using this
  · have hl := shrinkBuf_headLive (parseUna k u).1
    unfold HeadLive at hl
    have hn : (shrinkBuf (parseUna k u).1).snd_nxt = k.snd_nxt := by rw [shrinkBuf_eq]; rfl
    rw [hn] at hl
    exact hl
  · intro regular wnd
    unfold inPre
    rw [shrinkBuf_eq]; unfold parseUna; simp only []
    rw [drop_unaCount, dropAcked_eq_dropWhile]
    cases regular <;> rfl
  · intro s rest hk h1 h2
    have hsb : (shrinkBuf (parseAck k s.sn)).snd_buf = rest.dropWhile (fun s => s.acked) := by
      rw [parseAck_head_leaves k s rest hk h1 h2, dropAcked_eq_dropWhile]
    refine ⟨hsb, ?_⟩
    have hl := shrinkBuf_headLive (parseAck k s.sn)
    unfold HeadLive at hl
    rw [hsb] at hl
    have hn : (shrinkBuf (parseAck k s.sn)).snd_nxt = k.snd_nxt := by
      obtain ⟨b, hf⟩ := parseAck_frame k s.sn
      rw [shrinkBuf_eq, hf]
    rw [hn] at hl
    exact hl

/-- The theorem that excludes the acked-head wedge.  After `shrink_buf` — in any state — the head
of `snd_buf`, if any, is NOT flagged `acked` and `snd_una` is its `sn` (`snd_nxt` for an empty
buffer): `HeadLive` (Lemmas/KcpLive.lean).  `shrink_buf` runs in the prologue of every step of the
parse loop and again after `parse_ack`, so EVERY valid segment of ANY command leaves the
connection `HeadLive`, the rest of the parse loop keeps it, and so does the remainder of `Input`
up to its closing flush (`inK2`: RTT sample and cwnd update).  An individually acknowledged segment
can therefore never again be the head that pins `snd_una`. -/
theorem C02_acked_head_leaves (k : Kcp) :
    (shrinkBuf k).snd_buf = k.snd_buf.dropWhile (fun s => s.acked) ∧
    (match (shrinkBuf k).snd_buf with
      | s :: _ => s.acked = false ∧ (shrinkBuf k).snd_una = s.sn
      | [] => (shrinkBuf k).snd_una = k.snd_nxt) ∧
    (∀ regular conv cmd frg wnd ts sn una payload (st : InLoop),
      HeadLive (inStep regular conv cmd frg wnd ts sn una payload st).k) ∧
    (∀ regular fuel data (st : InLoop), HeadLive st.k → HeadLive (inputLoop regular fuel data st).k) ∧
    (∀ data regular now, HeadLive k → HeadLive (inK2 k data regular now)) := by
  refine ⟨by rw [shrinkBuf_eq, dropAcked_eq_dropWhile], ?_, inStep_headLive, inputLoop_headLive, ?_⟩
  · have hl := shrinkBuf_headLive k
    unfold HeadLive at hl
    have hn : (shrinkBuf k).snd_nxt = k.snd_nxt := by rw [shrinkBuf_eq]
    rw [hn] at hl
    exact hl
  · intro data regular now h
    have hst : HeadLive (inSt k data regular).k := inputLoop_headLive regular _ data { k := k } h
    have hcw : ∀ a old, (cwndOnAck a old).snd_buf = a.snd_buf ∧ (cwndOnAck a old).snd_una = a.snd_una ∧
        (cwndOnAck a old).snd_nxt = a.snd_nxt := by
      intro a old; unfold cwndOnAck; simp only []; repeat' split
      all_goals exact ⟨rfl, rfl, rfl⟩
    have hua : ∀ a rtt, (updateAck a rtt).snd_buf = a.snd_buf ∧ (updateAck a rtt).snd_una = a.snd_una ∧
        (updateAck a rtt).snd_nxt = a.snd_nxt := by
      intro a rtt; unfold updateAck smoothRtt; simp only []; repeat' split
      all_goals exact ⟨rfl, rfl, rfl⟩
    unfold inK2
    refine HeadLive.of_same (hcw _ _).1 (hcw _ _).2.1 (hcw _ _).2.2 ?_
    split
    · exact HeadLive.of_same (hua _ _).1 (hua _ _).2.1 (hua _ _).2.2 hst
    · exact hst

/-- `HeadLive` as an invariant of reachable states: together with "no queued segment carries the
acked flag" (`LiveInv`, Lemmas/KcpHead.lean) it is kept by every operation with arbitrary arguments —
also by the flushes (admission into an empty buffer makes a fresh, un-flagged segment numbered
`snd_nxt = snd_una` the head; phase 5 never touches `acked` or `sn`) — and holds in every state
reachable from `NewKCP`: `snd_una` is ALWAYS the `sn` of a live head (or `snd_nxt`). -/
theorem C02_acked_head_leaves_reachable (conv : U32) (ops : List Op) (k : Kcp) (op : Op) :
    (LiveInv k → LiveInv (step k op)) ∧ LiveInv (Kcp.new conv) ∧ HeadLive (run (Kcp.new conv) ops) :=
  ⟨step_live k op, new_live conv, (run_live _ ops (new_live conv)).1⟩

/-- the wedge scenario: sn 5 (head) and sn 6 are outstanding, sn 6 was acknowledged first (flagged,
kept behind the live head); the reordered ACK for sn 5 now removes BOTH and `snd_una` reaches
`snd_nxt = 7` (before the repair the flagged segment 6 stayed at the head and pinned `snd_una`) -/
example :
    (shrinkBuf (parseAck
      { Kcp.new 1 with snd_una := 5, snd_nxt := 7, snd_buf := [{ sn := 5 }, { sn := 6, acked := true }] } 5)).snd_buf = [] ∧
    (shrinkBuf (parseAck
      { Kcp.new 1 with snd_una := 5, snd_nxt := 7, snd_buf := [{ sn := 5 }, { sn := 6, acked := true }] } 5)).snd_una = 7 := by
  decide

/-! ### `heap_top_advances` -/

/-- The move loop runs to a fixpoint: afterwards the head of `rcv_buf`, if it is the next expected
segment, is blocked only by a full delivery queue.  `MoveFix` (Lemmas/KcpLive.lean) is that
statement about a connection; it is established by `moveReady`, hence by every successful `Recv`
and by every `parse_data` that stores or sees a duplicate, and kept by the remaining branches. -/
theorem C02_heap_top_advances (wnd : Nat) (buf q : List Seg) (nxt : U32) (k : Kcp) (s : Seg) (buflen : Nat) :
    (∀ h rest, (moveLoop wnd buf q nxt).buf = h :: rest → h.sn = (moveLoop wnd buf q nxt).nxt →
        (moveLoop wnd buf q nxt).q.length ≥ wnd) ∧
    MoveFix (moveReady k) ∧
    (MoveFix k → MoveFix (parseData k s).k) ∧
    ((parseData k s).rep = false → (parseData k s).panic = false → MoveFix (parseData k s).k) ∧
    (MoveFix k → MoveFix (recv k buflen).k) ∧
    ((recv k buflen).n ≥ 0 → MoveFix (recv k buflen).k) := by
  refine ⟨moveLoop_fix wnd buf q nxt, moveReady_fix k, parseData_fix k s, ?_, recv_fix k buflen, recv_ok_fix k buflen⟩
  intro hr hp
  unfold parseData at hr hp ⊢
  split
  · rename_i h; rw [if_pos h] at hr; simp at hr
  · rename_i h1; rw [if_neg h1] at hr hp
    split
    · exact moveReady_fix _
    · rename_i h2; rw [if_neg h2] at hr hp
      split
      · rename_i h; rw [if_pos h] at hp; simp at hp
      · exact moveReady_fix _

/-- non-vacuity: a blocked head (queue full) and a moved head -/
example : (moveLoop 1 [{ sn := 5 }, { sn := 6 }] [] 5).buf = [{ sn := 6 }] ∧
    (moveLoop 1 [{ sn := 5 }, { sn := 6 }] [] 5).nxt = 6 := by decide

/-! ### `dead_link_only_flag` -/

/-- The dead-link flag `state` is written by phase 5 but read by nothing: changing it in the input
state changes nothing but `state` in the result of `flush`, `input`, `recv`, `send`, the setters,
`update`, and nothing at all in what they return or send. -/
theorem C02_dead_link_only_flag (k : Kcp) (v : U32) :
    (∀ full now,
      (∃ w, (flush { k with state := v } full now).k = { (flush k full now).k with state := w }) ∧
      (flush { k with state := v } full now).outs = (flush k full now).outs ∧
      (flush { k with state := v } full now).interval = (flush k full now).interval ∧
      (flush { k with state := v } full now).panic = (flush k full now).panic) ∧
    (∀ data regular ackNoDelay now,
      (∃ w, (input { k with state := v } data regular ackNoDelay now).k =
        { (input k data regular ackNoDelay now).k with state := w }) ∧
      (input { k with state := v } data regular ackNoDelay now).ret = (input k data regular ackNoDelay now).ret ∧
      (input { k with state := v } data regular ackNoDelay now).outs = (input k data regular ackNoDelay now).outs ∧
      (input { k with state := v } data regular ackNoDelay now).panic = (input k data regular ackNoDelay now).panic) ∧
    (∀ buflen,
      (∃ w, (recv { k with state := v } buflen).k = { (recv k buflen).k with state := w }) ∧
      (recv { k with state := v } buflen).n = (recv k buflen).n ∧
      (recv { k with state := v } buflen).data = (recv k buflen).data) ∧
    (∀ buffer,
      (∃ w, (send { k with state := v } buffer).k = { (send k buffer).k with state := w }) ∧
      (send { k with state := v } buffer).ret = (send k buffer).ret ∧
      (send { k with state := v } buffer).panic = (send k buffer).panic) ∧
    (∀ now,
      (∃ w, (update { k with state := v } now).k = { (update k now).k with state := w }) ∧
      (update { k with state := v } now).outs = (update k now).outs ∧
      (update { k with state := v } now).interval = (update k now).interval ∧
      (update { k with state := v } now).panic = (update k now).panic) ∧
    peekSize { k with state := v } = peekSize k ∧ waitSnd { k with state := v } = waitSnd k ∧
    (∀ now, check { k with state := v } now = check k now) ∧
    (∀ m, (∃ w, (setMtu { k with state := v } m).1 = { (setMtu k m).1 with state := w }) ∧
      (setMtu { k with state := v } m).2 = (setMtu k m).2) ∧
    (∀ s r, ∃ w, wndSize { k with state := v } s r = { wndSize k s r with state := w }) ∧
    (∀ nd iv rs nc, ∃ w, noDelay { k with state := v } nd iv rs nc = { noDelay k nd iv rs nc with state := w }) := by
  have h : KSE { k with state := v } k := ⟨v, rfl⟩
  exact ⟨fun full now => flush_se h full now, fun data regular ackNoDelay now => input_se h data regular ackNoDelay now,
    fun n => recv_se h n, fun b => send_se h b, fun now => update_se h now, (misc_se h).1, (misc_se h).2.1, (misc_se h).2.2.1,
    (misc_se h).2.2.2.1, (misc_se h).2.2.2.2.1, (misc_se h).2.2.2.2.2⟩

/-- non-vacuity: `state` IS written — a segment at the dead-link threshold sets it -/
example : (emit { k := Kcp.new 1 } { xmit := 20 }).k.state = 0xFFFFFFFF#32 := by decide

/-! ### `retx_armed` as an invariant of reachable states

`Op`, `step`, `run` (Lemmas/KcpLiveOps.lean): the state-changing operations with all their arguments.
`TimerInv k` (Lemmas/KcpTimer.lean): every segment of `snd_buf` that has been sent (`xmit ≠ 0`) has
`resendts = ts + rto`, and no segment of `snd_queue` has been sent. -/

/-- `TimerInv` is kept by every operation with arbitrary arguments (any datagram bytes, any clock
value, any buffer) and holds in every state reachable from `NewKCP`. -/
theorem C02_retx_timer_invariant (conv : U32) (ops : List Op) (k : Kcp) (op : Op) :
    (TimerInv k → TimerInv (step k op)) ∧ TimerInv (Kcp.new conv) ∧ TimerInv (run (Kcp.new conv) ops) :=
  ⟨step_timer k op, new_timer conv, run_timer _ ops (new_timer conv)⟩

/-- Hence in every reachable state, for every sent segment of `snd_buf` — un-acked or not — and every
clock value `now` that is not before the segment's last transmission: the time left on its timer
is `rto − (now − ts)`, so `itimediff resendts now ≤ rto`: a retransmission is never further away
than the segment's own rto.  Side condition explicit: `rto < 2^31`. -/
theorem C02_retx_armed_reachable (conv : U32) (ops : List Op) (s : Seg) (now : U32)
    (hs : s ∈ (run (Kcp.new conv) ops).snd_buf) (hx : s.xmit ≠ 0) (hr : s.rto.toNat < 2 ^ 31)
    (hn : itimediff now s.ts ≥ 0) :
    s.resendts = s.ts + s.rto ∧
    itimediff s.resendts now = (s.rto.toNat : Int) - itimediff now s.ts ∧
    itimediff s.resendts now ≤ s.rto.toNat := by
  have ht := (run_timer _ ops (new_timer conv)).1 s hs hx
  exact ⟨ht, timer_remaining s now ht hr hn⟩

/-- non-vacuity: Send, a first flush (cwnd is still 0: nothing admitted), a second full flush at 200:
the segment is in `snd_buf` with `xmit = 1`, `ts = 200`, `rto = 200`, `resendts = 400` -/
example : (run (Kcp.new 1) [.send [1, 2, 3], .flush true 100, .flush true 200]).snd_buf.map
    (fun s => (s.xmit, s.ts, s.rto, s.resendts)) = [(1, 200, 200, 400)] := by decide

/-- The `retx_armed` statement in full for reachable states: after a full flush at `now` of any state
reachable from `NewKCP`, every un-acked segment of `snd_buf` that has been sent has
`0 < itimediff resendts now ≤ rto` — its retransmission is pending and at most one `rto` away.
Explicit side conditions: `0 < rto < 2^31`; the clock value `now` is not before the segment's last
transmission time `ts` in the signed 32-bit comparison (no other assumption on clock values in
the history); `xmit` has not wrapped to 0. -/
theorem C02_retx_armed_after_flush (conv : U32) (ops : List Op) (now : U32) (s' : Seg)
    (hs : s' ∈ (flush (run (Kcp.new conv) ops) true now).k.snd_buf) (ha : s'.acked = false) (hx : s'.xmit ≠ 0)
    (h0 : 0 < s'.rto.toNat) (hr : s'.rto.toNat < 2 ^ 31) (hn : itimediff now s'.ts ≥ 0) :
    0 < itimediff s'.resendts now ∧ itimediff s'.resendts now ≤ s'.rto.toNat := by
  have hreach : (flush (run (Kcp.new conv) ops) true now).k = run (Kcp.new conv) (ops ++ [.flush true now]) := by
    rw [run_append]; rfl
  have ht : s'.resendts = s'.ts + s'.rto := by
    rw [hreach] at hs
    exact (run_timer _ _ (new_timer conv)).1 s' hs hx
  have hnd := ((C02_retx_armed (run (Kcp.new conv) ops) now).2.2.2.1 s' hs ha h0 hr).1
  have hrem := timer_remaining s' now ht hr hn
  have hanti := timer_antisymm s' now ht hr hn
  refine ⟨?_, hrem.2⟩
  omega

/-! ### `heap_top_advances` as an invariant of reachable states -/

/-- `MoveFix` — a deliverable head of `rcv_buf` is blocked only by a full delivery queue — is kept by
every operation with arbitrary arguments and holds in every state reachable from `NewKCP`.  The
only hypothesis (`wndOk`, `True` for all other operations): `WndSize` does not ENLARGE `rcv_wnd`
while segments are buffered (settings before traffic); after such a call the head stays in
`rcv_buf` until the next `Recv`/`parse_data` runs the move loop. -/
theorem C02_heap_top_reachable (conv : U32) (ops : List Op) (k : Kcp) (op : Op) :
    (MoveFix k → wndOk k op → MoveFix (step k op)) ∧
    (runWndOk (Kcp.new conv) ops → MoveFix (run (Kcp.new conv) ops)) :=
  ⟨step_fix k op, run_fix _ ops (new_fix conv)⟩

/-- the hypothesis is needed: enlarging the window with a deliverable head in `rcv_buf` -/
example : ¬ MoveFix (wndSize
    { Kcp.new 1 with rcv_wnd := 1, rcv_nxt := 1, rcv_queue := [{ sn := 0 }], rcv_buf := [{ sn := 1 }] } 0 2) := by
  intro h
  have := h { sn := 1 } [] rfl rfl
  revert this
  decide

/-! ### Tier 2: the closed two-endpoint system (Model/Sys.lean)

What is proved here is the bounded acknowledgement latency on a path that is clean from the start
(`C02_clean_ack_latency`); the drain theorem from an arbitrary state is stated (`C02_drain_full`). -/

/-- **Bounded acknowledgement latency.**  On the closed system with loss-free in-order links of
one-way delay `D`, started with the settings `CleanInit` (in particular `2 D + interval_B <
rx_minrto_A`), in every reachable state every segment still waiting in A's send buffer was
transmitted at a time `t` with `now ≤ t + 2 D + interval_B`: its PUSH is still on the way, or its ACK
is listed at B with B's next flush at most `D + interval_B` after `t`, or a frame whose `una` covers
it is on the way back.  Time cannot pass `t + 2 D + interval_B` with the segment un-acknowledged
(a `tick` is refused while a datagram or a flush is due), so the send buffer drains with this delay.
Same run hypotheses as `C18_clean_path_partial` (`RunOk`: room in B's receive queue, fewer than 2^31
segments). -/
theorem C02_clean_ack_latency (A B : Kcp) (D t0 : Nat) (ndA ndB : Bool) (hinit : SysC.CleanInit A B D)
    (evs : List Sys.Ev) (hrun : SysC.RunOk A.snd_nxt (Sys.init A B D t0 ndA ndB) evs) :
    ∀ x ∈ (Sys.run (Sys.init A B D t0 ndA ndB) evs).A.snd_buf, x.acked = false ∧
      ∃ t, x.ts = Sys.clk t ∧ t ≤ (Sys.run (Sys.init A B D t0 ndA ndB) evs).now ∧
        (Sys.run (Sys.init A B D t0 ndA ndB) evs).now ≤ t + 2 * D + B.interval.toNat := by
  obtain ⟨gab, gba, hc, _⟩ := SysC.clean_run (p := SysC.parOf A B) evs _ [] []
    (SysC.clean_init A B D t0 ndA ndB hinit) hrun
  have hD : ∀ (evs : List Sys.Ev) (s : Sys.State), (Sys.run s evs).D = s.D := by
    intro evs
    induction evs with
    | nil => intro s; rfl
    | cons ev rest ih =>
      intro s
      show (Sys.run (Sys.step s ev) rest).D = s.D
      rw [ih]
      cases ev <;> simp only [Sys.step] <;> repeat' split
      all_goals rfl
  intro x hx
  obtain ⟨h1, _, _, _, _, _, t, ht, htn, hloc⟩ := hc.aseg x hx
  refine ⟨h1, t, ht, htn, ?_⟩
  have hDD : (Sys.run (Sys.init A B D t0 ndA ndB) evs).D = D := hD evs _
  show _ ≤ t + 2 * D + (SysC.parOf A B).I
  unfold SysC.Loc at hloc
  rw [hDD] at hloc
  rcases hloc with ⟨d, hd, hd1, _⟩ | ⟨_, hn⟩ | ⟨d, hd, hd1, _⟩
  · have := hc.tab d hd; omega
  · have := hc.tnf.1; omega
  · have := hc.tba d hd; omega

/-- the Tier-1 invariants of one endpoint, as far as the drain theorem needs them -/
def C02_EndpointOk (k : Kcp) : Prop := Total.InvK k ∧ TimerInv k ∧ 0 < k.rcv_wnd.toNat ∧ k.rcv_wnd.toNat < 2 ^ 31

/-- **the drain theorem (full statement, not proved)**: from ANY pair of endpoint states that satisfy
the per-endpoint invariants (arbitrary history of losses, duplicates and reorderings before `T0`),
with ANY datagrams still in flight (arbitrary bytes — whatever the past left behind), if from now on
the links are the fair FIFO links of `Sys` (every datagram delivered after `D`) and the reader keeps
reading, then for every number of writer bytes already queued there is a schedule-independent bound
after which `A.WaitSnd = 0`: every sufficiently long run whose clock has advanced far enough has an
empty send side.  (`fragments ≤ rcv_wnd` — finding O1 — is needed in message mode.) -/
def C02_drain_full : Prop :=
  ∀ (s : Sys.State), C02_EndpointOk s.A → C02_EndpointOk s.B → s.A.conv = s.B.conv →
    (∀ x ∈ s.A.snd_queue ++ s.A.snd_buf, x.frg.toNat < s.B.rcv_wnd.toNat) →
    ∃ T : Nat, ∀ evs : List Sys.Ev, (∀ ev ∈ evs, ∀ b, ev ≠ .send b) →
      s.now + T ≤ (Sys.run s evs).now → (Sys.run s evs).A.waitSnd = 0

/-- non-vacuity of the latency theorem: the run of `Props/C18.lean` (nodelay, `D = 3`), stopped while
the segment is un-acknowledged at `now = 1003 ≤ 1000 + 2·3 + 10` -/
example : SysC.RunOk (Kcp.noDelay (Kcp.new 7) 1 10 2 1).snd_nxt
    (Sys.init (Kcp.noDelay (Kcp.new 7) 1 10 2 1) (Kcp.noDelay (Kcp.new 7) 1 10 2 1) 3 1000)
    [.send [1, 2, 3], .flushA, .tick, .tick, .tick] := by decide
example : ((Sys.run (Sys.init (Kcp.noDelay (Kcp.new 7) 1 10 2 1) (Kcp.noDelay (Kcp.new 7) 1 10 2 1) 3 1000)
    [.send [1, 2, 3], .flushA, .tick, .tick, .tick]).A.snd_buf.map (fun x => (x.sn, x.ts, x.acked))) =
    [(0, 1000, false)] := by decide

/-! ### progress and drain on the closed system, clean history

`SysC.Keep` (Lemmas/SysProgress.lean): no event modifies a segment in A's send buffer or brings an old
sequence number back.  Together with the latency bound of the invariant this gives a progress step
with an explicit bound and, once the writer has stopped, the drain.  What these theorems do NOT cover
is the general statement `C02_drain_full` / `C02_progress_step_full` below: arbitrary endpoint states
with arbitrary datagrams in flight (retransmissions, duplicate and out-of-order arrivals,
acknowledged-but-not-removed segments, zero-window probing). -/

open KcpVerif.Sys KcpVerif.SysC in
/-- **Progress step (clean history).**  Let `s₁` be any state reached from a clean start
(`CleanInit`, `WinInit`) and `s₂` any state reached from `s₁` by any events (more `Send`s included)
after more than `2 D + interval_B` and less than 2^31 milliseconds.  Then `snd_una` of A at `s₂` is at
or beyond `snd_nxt` of A at `s₁`: every segment that had been admitted at `s₁` — the segment `snd_una`
in particular — has been delivered to B and its acknowledgement has reached A.  Only run hypothesis:
`NoWrap` (fewer than 2^31 segments queued over the run). -/
theorem C02_clean_progress_step (A B : Kcp) (D t0 : Nat) (ndA ndB : Bool) (hinit : CleanInit A B D) (hwin : WinInit A B)
    (evs1 evs2 : List Ev) (hrun : RunNoWrap A.snd_nxt (Sys.init A B D t0 ndA ndB) (evs1 ++ evs2))
    (ht1 : (Sys.run (Sys.init A B D t0 ndA ndB) evs1).now + 2 * D + B.interval.toNat <
      (Sys.run (Sys.init A B D t0 ndA ndB) (evs1 ++ evs2)).now)
    (ht2 : (Sys.run (Sys.init A B D t0 ndA ndB) (evs1 ++ evs2)).now <
      (Sys.run (Sys.init A B D t0 ndA ndB) evs1).now + 2 ^ 31) :
    o A.snd_nxt (Sys.run (Sys.init A B D t0 ndA ndB) evs1).A.snd_nxt ≤
      o A.snd_nxt (Sys.run (Sys.init A B D t0 ndA ndB) (evs1 ++ evs2)).A.snd_una := by
  obtain ⟨hr1, hr2⟩ := (runNoWrap_append A.snd_nxt evs1 evs2 _).mp hrun
  obtain ⟨gab, gba, hc, hw, _⟩ := cleanwin_run (p := parOf A B) evs1 _ [] []
    (clean_init A B D t0 ndA ndB hinit) (win_init A B D t0 ndA ndB hinit hwin) hr1
  have hrun2 : Sys.run (Sys.init A B D t0 ndA ndB) (evs1 ++ evs2) =
      Sys.run (Sys.run (Sys.init A B D t0 ndA ndB) evs1) evs2 := by
    unfold Sys.run; rw [List.foldl_append]
  rw [hrun2] at ht1 ht2 ⊢
  exact clean_progress_una hc hw evs2 hr2 (by rw [run_D]; exact ht1) ht2

open KcpVerif.Sys KcpVerif.SysC in
/-- **Drain (clean history).**  If moreover the send queue of A is empty at `s₁` and the writer does
not `Send` afterwards, then at `s₂` nothing is waiting to be sent or acknowledged:
`A.WaitSnd = 0`, `2 D + interval_B` after the writer stopped. -/
theorem C02_clean_drain (A B : Kcp) (D t0 : Nat) (ndA ndB : Bool) (hinit : CleanInit A B D) (hwin : WinInit A B)
    (evs1 evs2 : List Ev) (hrun : RunNoWrap A.snd_nxt (Sys.init A B D t0 ndA ndB) (evs1 ++ evs2))
    (hq : (Sys.run (Sys.init A B D t0 ndA ndB) evs1).A.snd_queue = []) (hns : ∀ ev ∈ evs2, isSend ev = false)
    (ht1 : (Sys.run (Sys.init A B D t0 ndA ndB) evs1).now + 2 * D + B.interval.toNat <
      (Sys.run (Sys.init A B D t0 ndA ndB) (evs1 ++ evs2)).now)
    (ht2 : (Sys.run (Sys.init A B D t0 ndA ndB) (evs1 ++ evs2)).now <
      (Sys.run (Sys.init A B D t0 ndA ndB) evs1).now + 2 ^ 31) :
    (Sys.run (Sys.init A B D t0 ndA ndB) (evs1 ++ evs2)).A.waitSnd = 0 := by
  obtain ⟨hr1, hr2⟩ := (runNoWrap_append A.snd_nxt evs1 evs2 _).mp hrun
  obtain ⟨gab, gba, hc, hw, _⟩ := cleanwin_run (p := parOf A B) evs1 _ [] []
    (clean_init A B D t0 ndA ndB hinit) (win_init A B D t0 ndA ndB hinit hwin) hr1
  have hrun2 : Sys.run (Sys.init A B D t0 ndA ndB) (evs1 ++ evs2) =
      Sys.run (Sys.run (Sys.init A B D t0 ndA ndB) evs1) evs2 := by
    unfold Sys.run; rw [List.foldl_append]
  rw [hrun2] at ht1 ht2 ⊢
  exact clean_drain hc hw evs2 hr2 hq hns (by rw [run_D]; exact ht1) ht2

/-- **the progress step from an arbitrary state (full statement, not proved)**: in `Sys`, from ANY
pair of endpoint states satisfying the per-endpoint invariants, with any datagrams in flight, the
segment `snd_una` of A is delivered and its acknowledgement reaches A within the time to its next
retransmission plus `2 D + interval_A + interval_B`: whenever the clock has advanced that far,
`snd_una` has moved -/
def C02_progress_step_full : Prop :=
  ∀ (s : Sys.State) (x : Seg), C02_EndpointOk s.A → C02_EndpointOk s.B → s.A.conv = s.B.conv →
    s.A.snd_buf.head? = some x → x.sn = s.A.snd_una → x.xmit ≠ 0 →
    ∀ evs : List Sys.Ev,
      s.now + (itimediff x.resendts (Sys.clk s.now)).toNat + 2 * s.D + s.A.interval.toNat + s.B.interval.toNat <
        (Sys.run s evs).now →
      (Sys.run s evs).A.snd_una ≠ s.A.snd_una

/-! non-vacuity of the two theorems: nodelay mode, `D = 3`, interval 10; 3 bytes are queued and flushed
at t = 1000 (`evs1`); `evs2` is the canonical schedule up to t = 1017 > 1000 + 2·3 + 10 -/

def c02A : Kcp := Kcp.noDelay (Kcp.new 7) 1 10 2 1
def c02Evs1 : List Sys.Ev := [.send [1, 2, 3], .flushA]
def c02Evs2 : List Sys.Ev :=
  [.tick, .tick, .tick, .dlvB, .read, .flushB, .tick, .tick, .tick, .dlvA, .tick, .tick, .tick, .tick, .flushA,
   .tick, .tick, .tick, .flushB, .tick, .tick, .tick, .tick]

example : SysC.CleanInit c02A c02A 3 ∧ SysC.WinInit c02A c02A := by decide
set_option maxRecDepth 100000 in
example : SysC.RunNoWrap c02A.snd_nxt (Sys.init c02A c02A 3 1000) (c02Evs1 ++ c02Evs2) := by decide
set_option maxRecDepth 100000 in
example : (Sys.run (Sys.init c02A c02A 3 1000) c02Evs1).now = 1000 ∧
    (Sys.run (Sys.init c02A c02A 3 1000) c02Evs1).A.snd_queue = [] ∧
    (Sys.run (Sys.init c02A c02A 3 1000) c02Evs1).A.snd_buf.length = 1 ∧
    (Sys.run (Sys.init c02A c02A 3 1000) (c02Evs1 ++ c02Evs2)).now = 1017 ∧
    (∀ ev ∈ c02Evs2, SysC.isSend ev = false) := by decide

/-! ### the same two theorems without the upper bound on the elapsed time

The clock passes through every value (`SysC.run_reaches`); the bounded statements apply at the first
moment past `2 D + interval_B`, and `SysC.Keep` carries the conclusion to every later state. -/

open KcpVerif.Sys KcpVerif.SysC in
/-- **Progress step (clean history), any later time**: as `C02_clean_progress_step`, for EVERY state
reached more than `2 D + interval_B` ms after `s₁`. -/
theorem C02_progress_step_clean (A B : Kcp) (D t0 : Nat) (ndA ndB : Bool) (hinit : CleanInit A B D) (hwin : WinInit A B)
    (evs1 evs2 : List Ev) (hrun : RunNoWrap A.snd_nxt (Sys.init A B D t0 ndA ndB) (evs1 ++ evs2))
    (ht1 : (Sys.run (Sys.init A B D t0 ndA ndB) evs1).now + 2 * D + B.interval.toNat <
      (Sys.run (Sys.init A B D t0 ndA ndB) (evs1 ++ evs2)).now) :
    o A.snd_nxt (Sys.run (Sys.init A B D t0 ndA ndB) evs1).A.snd_nxt ≤
      o A.snd_nxt (Sys.run (Sys.init A B D t0 ndA ndB) (evs1 ++ evs2)).A.snd_una := by
  obtain ⟨hr1, hr2⟩ := (runNoWrap_append A.snd_nxt evs1 evs2 _).mp hrun
  obtain ⟨gab, gba, hc, hw, _⟩ := cleanwin_run (p := parOf A B) evs1 _ [] []
    (clean_init A B D t0 ndA ndB hinit) (win_init A B D t0 ndA ndB hinit hwin) hr1
  rw [SysC.run_append] at ht1 ⊢
  exact (clean_progress_ever hc hw evs2 hr2 (by rw [run_D]; exact ht1)).2

open KcpVerif.Sys KcpVerif.SysC in
/-- **Drain (clean history), any later time**: the writer has stopped with an empty send queue at
`s₁`; in EVERY state reached more than `2 D + interval_B` ms later, `A.WaitSnd = 0`. -/
theorem C02_drain_clean (A B : Kcp) (D t0 : Nat) (ndA ndB : Bool) (hinit : CleanInit A B D) (hwin : WinInit A B)
    (evs1 evs2 : List Ev) (hrun : RunNoWrap A.snd_nxt (Sys.init A B D t0 ndA ndB) (evs1 ++ evs2))
    (hq : (Sys.run (Sys.init A B D t0 ndA ndB) evs1).A.snd_queue = []) (hns : ∀ ev ∈ evs2, isSend ev = false)
    (ht1 : (Sys.run (Sys.init A B D t0 ndA ndB) evs1).now + 2 * D + B.interval.toNat <
      (Sys.run (Sys.init A B D t0 ndA ndB) (evs1 ++ evs2)).now) :
    (Sys.run (Sys.init A B D t0 ndA ndB) (evs1 ++ evs2)).A.waitSnd = 0 := by
  obtain ⟨hr1, hr2⟩ := (runNoWrap_append A.snd_nxt evs1 evs2 _).mp hrun
  obtain ⟨gab, gba, hc, hw, _⟩ := cleanwin_run (p := parOf A B) evs1 _ [] []
    (clean_init A B D t0 ndA ndB hinit) (win_init A B D t0 ndA ndB hinit hwin) hr1
  rw [SysC.run_append] at ht1 ⊢
  exact clean_drain_ever hc hw evs2 hr2 hq hns (by rw [run_D]; exact ht1)

/-! ### the drain statement from an arbitrary consistent state was FALSE: the acked-head wedge

Found by the attempt to prove `C02_drain_full`; confirmed on the real code
(`notes/C02_wedge_test.go.txt`).  Before the repair, `parse_ack` only FLAGGED a segment
(`acked := true`), it left the send buffer when a later `una` passed it, and `shrink_buf` put
`snd_una` on the head of the buffer even if the head was flagged.  If B acknowledges a segment it
could not yet deliver (receive queue full: the ACK carries `una = sn` and `wnd = 0`), the only
carriers of the `una` that releases it are B's later frames — and when there is no later data, that is
the single window update sent after the reader drained the queue.  Lose it, and let a stale frame (a
reordered or duplicated earlier datagram with `wnd > 0`) disarm A's zero-window probe: both sides are
silent for ever, A's `WaitSnd` stays positive, and — when the flagged segments fill
`min(snd_wnd, rmt_wnd)` — nothing written afterwards is ever put on the wire.

Everything in this section is about the PRE-REPAIR `Input` (`Old.input`, `Old.step`, `Old.run` of
Model/SysOld.lean: a verbatim copy of the definitions at the time the defect was found), so that it
stays valid when the model follows the repaired code.  `SysC.wedgeState` is reached by the fault
history `wedge1 … wedge3` (one reordering, one loss; `rcv_wnd = 1`, `D = 0`). -/

/-- the state after the fault history is stuck -/
theorem C02_wedge_stuck_prerepair : SysC.Stuck SysC.wedgeState := by
  refine ⟨by decide, by decide, ⟨by decide, by decide, by decide, by decide, by decide, by decide⟩,
    ⟨by decide, by decide, by decide, by decide, by decide, by decide⟩, by decide, by decide⟩

/-- **the wedge (pre-repair)**: from `wedgeState`, for EVERY continuation on the perfect network — any
schedule, any further `Send`s — A's send buffer still holds the flagged segment 2 (`WaitSnd ≥ 1`),
nothing is ever admitted (`snd_nxt = 3`), no datagram is in flight and the reader has received nothing
beyond the three bytes it already had -/
theorem C02_wedge_forever_prerepair (evs : List Sys.Ev) :
    (Old.run SysC.wedgeState evs).A.snd_buf.map (fun x => (x.sn, x.acked)) = [(2, true)] ∧
    1 ≤ (Old.run SysC.wedgeState evs).A.waitSnd ∧ (Old.run SysC.wedgeState evs).A.snd_nxt = 3 ∧
    (Old.run SysC.wedgeState evs).ab = [] ∧ (Old.run SysC.wedgeState evs).ba = [] ∧
    (Old.run SysC.wedgeState evs).got = [0, 1, 2] := by
  obtain ⟨h1, h2, h3, h4⟩ := SysC.stuck_run evs _ C02_wedge_stuck_prerepair
  refine ⟨by rw [h2]; decide, ?_, by rw [h4]; decide, h1.ab, h1.ba, by rw [h3]; decide⟩
  unfold waitSnd
  rw [h2]
  have : SysC.wedgeState.A.snd_buf.length = 1 := by decide
  omega

/-- `C02_drain_full` with the pre-repair `Input` -/
def C02_drain_full_prerepair : Prop :=
  ∀ (s : Sys.State), C02_EndpointOk s.A → C02_EndpointOk s.B → s.A.conv = s.B.conv →
    (∀ x ∈ s.A.snd_queue ++ s.A.snd_buf, x.frg.toNat < s.B.rcv_wnd.toNat) →
    ∃ T : Nat, ∀ evs : List Sys.Ev, (∀ ev ∈ evs, ∀ b, ev ≠ .send b) →
      s.now + T ≤ (Old.run s evs).now → (Old.run s evs).A.waitSnd = 0

/-- its hypotheses hold in the wedge state … -/
theorem C02_wedge_endpoints_ok : C02_EndpointOk SysC.wedgeState.A ∧ C02_EndpointOk SysC.wedgeState.B ∧
    SysC.wedgeState.A.conv = SysC.wedgeState.B.conv ∧
    (∀ x ∈ SysC.wedgeState.A.snd_queue ++ SysC.wedgeState.A.snd_buf, x.frg.toNat < SysC.wedgeState.B.rcv_wnd.toNat) := by
  unfold C02_EndpointOk TimerInv SegTimer
  decide

/-- … so **the drain statement was false before the repair**: no bound `T` works, because the clock of
the stuck system runs on (`SysC.stuck_rounds_now`) while `WaitSnd` stays 1 -/
theorem C02_drain_refuted_prerepair : ¬ C02_drain_full_prerepair := by
  intro h
  obtain ⟨a, b, c, d⟩ := C02_wedge_endpoints_ok
  obtain ⟨T, hT⟩ := h SysC.wedgeState a b c d
  have hnow := SysC.stuck_rounds_now T SysC.wedgeState C02_wedge_stuck_prerepair (by decide) (by decide)
  have := hT (SysC.stuckRounds T) (SysC.stuckRounds_nosend T) (by rw [hnow]; exact Nat.le_refl _)
  have := (C02_wedge_forever_prerepair (SysC.stuckRounds T)).2.1
  omega

/-! ### the cross-endpoint consistency invariant, any history (repaired model)

`SysC.Cons` (Lemmas/SysDrainCons.lean, SysDrainCons2.lean) is preserved by every event of the closed
system (`SysC.cons_step`) and by every fault of the network that does not forge
(`SysC.cons_shuffle`: any drop, duplication, reordering of what is in flight). -/

open KcpVerif.Sys KcpVerif.SysC in
/-- **Consistency after ANY history.**  Two fresh cores with one conversation id (`ConsInit`), data
from A to B, any sequence of fair events and network faults (`NetEv`), fewer than 2^31 segments
(`NetNoWrap`).  In the state reached: nothing panicked; A's send buffer holds exactly the sequence
numbers `snd_una … snd_nxt − 1`; B's `rcv_nxt` is not beyond A's `snd_nxt`; and B HAS — delivered to
its queue, or waiting in its reorder buffer — every segment A has released (below `snd_una`), every
segment flagged `acked` in A's send buffer, and every entry of its own ack list.  So no fault pattern
makes A forget a segment B does not have, and no acknowledgement is ever sent for a segment that is
then dropped. -/
theorem C02_consistency_any_history (A B : Kcp) (D t0 : Nat) (ndA ndB : Bool) (hinit : ConsInit A B)
    (evs : List NetEv) (hrun : NetNoWrap A.snd_nxt (Sys.init A B D t0 ndA ndB) evs) :
    (netRun (Sys.init A B D t0 ndA ndB) evs).panic = false ∧
    Contig A.snd_nxt (netRun (Sys.init A B D t0 ndA ndB) evs).A ∧
    o A.snd_nxt (netRun (Sys.init A B D t0 ndA ndB) evs).B.rcv_nxt ≤ o A.snd_nxt (netRun (Sys.init A B D t0 ndA ndB) evs).A.snd_nxt ∧
    (∀ sn, o A.snd_nxt sn < o A.snd_nxt (netRun (Sys.init A B D t0 ndA ndB) evs).A.snd_una →
      Has A.snd_nxt (netRun (Sys.init A B D t0 ndA ndB) evs).B.rcv_nxt (netRun (Sys.init A B D t0 ndA ndB) evs).B.rcv_buf sn) ∧
    (∀ x ∈ (netRun (Sys.init A B D t0 ndA ndB) evs).A.snd_buf, x.acked = true →
      Has A.snd_nxt (netRun (Sys.init A B D t0 ndA ndB) evs).B.rcv_nxt (netRun (Sys.init A B D t0 ndA ndB) evs).B.rcv_buf x.sn) ∧
    (∀ a ∈ (netRun (Sys.init A B D t0 ndA ndB) evs).B.acklist,
      Has A.snd_nxt (netRun (Sys.init A B D t0 ndA ndB) evs).B.rcv_nxt (netRun (Sys.init A B D t0 ndA ndB) evs).B.rcv_buf a.sn) := by
  obtain ⟨gab, gba, hc⟩ := cons_netRun (p := ⟨A.snd_nxt, A.conv, 0, 0, 0⟩) evs _ [] []
    (cons_init A B D t0 ndA ndB hinit) hrun
  exact ⟨hc.np, hc.acon, hc.bub, hc.arel, hc.ahas, hc.back⟩

/-- non-vacuity: the fault history of the wedge, replayed on the repaired model as a `NetEv` history
(the held-back datagram is removed by one `shuffle` and re-inserted by another, the window update is
dropped by a third) -/
example : SysC.ConsInit SysC.wedgeA SysC.wedgeB := by decide

/-! ### the wedge regression on the repaired model -/

set_option maxRecDepth 200000 in
/-- **The repaired system does not wedge on that history.**  The fault history of
`C02_wedge_forever_prerepair`, event for event, on the repaired model (`SysC.rep1 … repState`): when
A inputs `[ACK 2, una 2, wnd 0]` the flagged segment 2 is at the head of the send buffer and leaves it
at once (`snd_una = 3`, send buffer empty), so after the history `WaitSnd = 0` although the window
update was lost; and a byte written afterwards is admitted, delivered and acknowledged within 49 ms of
the canonical schedule. -/
theorem C02_wedge_repaired :
    SysC.rep2.A.snd_buf = [] ∧ SysC.rep2.A.snd_una = 3 ∧
    SysC.repState.A.waitSnd = 0 ∧ SysC.repState.got = [0, 1, 2] ∧ SysC.repState.ba = [] ∧
    SysC.repAfter.A.waitSnd = 0 ∧ SysC.repAfter.got = [0, 1, 2, 3] ∧ SysC.repAfter.now = 1049 := by
  decide

/-! ### the phases of the progress step, arbitrary consistent states (repaired model)

Each theorem is about ANY state satisfying `SysC.Cons` (which `C02_consistency_any_history` establishes
after any fault history) and the fair system from there on. -/

open KcpVerif.Sys KcpVerif.SysC in
/-- **Phase D — the cumulative acknowledgement arrives.**  When A inputs the head datagram of the link
B → A, its `snd_una` ends at or beyond the `una` of every frame in it. -/
theorem C02_phase_una_arrives {p : Par} {s : State} {t0 : Nat} {frs : List Wire.Frm} {gab grest : GLink}
    (h : Cons p s gab ((t0, frs) :: grest)) (hnw : NoWrap p.base s) (hdue : t0 ≤ s.now) :
    ∀ fr ∈ frs, o p.base fr.una ≤ o p.base (Sys.step s .dlvA).A.snd_una := phase_D h hnw hdue

open KcpVerif.Sys KcpVerif.SysC in
/-- **Phase C — an owed acknowledgement is flushed.**  B's scheduled flush with a non-empty ack list
puts a datagram on the link that arrives `D` later and contains a frame with `una = rcv_nxt`. -/
theorem C02_phase_ack_flushed {p : Par} {s : State} {gab gba : GLink} (h : Cons p s gab gba) (hack : s.B.acklist ≠ []) :
    ∃ fr0 frs0 pre post, (Sys.step s .flushB).ba = s.ba ++ pre ++ [⟨s.now + s.D, Wire.encFrames frs0⟩] ++ post ∧
      fr0 ∈ frs0 ∧ fr0.una = s.B.rcv_nxt := phase_C h hack

open KcpVerif.Sys KcpVerif.SysC in
/-- **The return path, composed, with its bound.**  In any consistent state in which B has passed the
sequence number with offset `U`, owes an acknowledgement and has its next flush at or before `T`
(`now ≤ T`), in EVERY later state of the fair system whose clock is past `T + D` A's `snd_una` is
beyond `U` — whatever datagrams (genuine, stale, duplicated) are still in flight in both directions,
whatever A and B send and receive in between, whether the acknowledgement leaves with the scheduled
flush or with an ACK-only flush at the end of an `Input`.  (`Ret`, `ret_step`: the acknowledgement
is owed by B, or on its way in a datagram arriving by `T + D`, or has arrived; each event keeps it on
that path, and a `tick` is refused while a flush or a datagram is due.) -/
theorem C02_phase_return {p : Par} {s : State} {gab gba : GLink} (h : Cons p s gab gba) (U T : Nat)
    (hB : U < o p.base s.B.rcv_nxt) (hack : s.B.acklist ≠ []) (hnf : s.nfB ≤ T) (hnow : s.now ≤ T)
    (evs : List Ev) (hnw : RunNoWrap p.base s evs) (ht : T + s.D < (Sys.run s evs).now) :
    U < o p.base (Sys.run s evs).A.snd_una :=
  ret_done h U T (Or.inr (Or.inl ⟨hB, hack, hnf, hnow⟩)) evs hnw ht

open KcpVerif.Sys KcpVerif.SysC in
/-- **Phase A — the retransmission is emitted.**  In any consistent state, a FULL flush of A at a time
when the timer of an un-acknowledged segment of its send buffer is due (or the segment has never been
sent) puts a datagram on the link that arrives `D` later and contains the PUSH of that segment: no
window, no counter and no other segment can prevent it. -/
theorem C02_phase_retx_emitted {p : Par} {s : State} {gab gba : GLink} (h : Cons p s gab gba) (x : Seg)
    (hx : x ∈ s.A.snd_buf) (hna : x.acked = false) (hdue : x.xmit = 0 ∨ itimediff (clk s.now) x.resendts ≥ 0) :
    ∃ fr0 frs0 pre post, (Sys.step s .flushA).ab = s.ab ++ pre ++ [⟨s.now + s.D, Wire.encFrames frs0⟩] ++ post ∧
      fr0 ∈ frs0 ∧ fr0.cmd.toNat = IKCP_CMD_PUSH ∧ fr0.sn = x.sn := phase_A h x hx hna hdue

open KcpVerif.Sys KcpVerif.SysC in
/-- **Phases B + C + D composed: a retransmission whose ACK was lost.**  In any consistent state in
which a PUSH of a segment B has already delivered is on its way to B, arriving by `T2`, and B flushes at
least every `I` ms (`Tm`): B re-acknowledges it (it is inside the window whatever the window is), the
ACK leaves with B's next flush or with the ACK-only flush of that `Input`, and in EVERY later state of
the fair system whose clock is past `T2 + I + D` A's `snd_una` is beyond `U` (any offset below B's
`rcv_nxt`): A has released everything B had delivered.  Run hypothesis `RunSmall`: fewer than 2^30
segments, receive window below 2^30. -/
theorem C02_phase_lost_ack {p : Par} {s : State} {gab gba : GLink} (h : Cons p s gab gba) (U T2 I : Nat) (ht : Tm I s)
    (hpush : PushOld p.base U T2 s) (evs : List Ev) (hsm : RunSmall p.base s evs)
    (hnow : T2 + I + s.D < (Sys.run s evs).now) :
    U < o p.base (Sys.run s evs).A.snd_una :=
  ret2_done h U T2 I ht (Or.inr hpush) evs hsm hnow

/-! ### what remained of `C02_progress_step_full` / `C02_drain_full` on the repaired model at this point

(All three items below are closed further down: `C02_progress_step_every_head`, `C02_drain_general_partial`,
and `C03_zero_window_probe_bound` in Props/C03.lean.)

Proved, for arbitrary consistent states: the invariant after any fault history
(`C02_consistency_any_history`); phase A as a single event (`C02_phase_retx_emitted`); phases B (for a
segment B has delivered), C and D composed with their deadlines (`C02_phase_lost_ack`,
`C02_phase_return`).  Not proved:

1. the deadline of phase A — that A's scheduled flush falls between `resendts` and
   `resendts + interval_A` with the head still un-acknowledged and its timer un-touched (needs an
   element-wise relation of `parse_fastack` that keeps `resendts`/`xmit`, and `nfA ≤ now + interval_A`
   as `Tm` for A);
2. phase B for a segment B has NOT yet delivered: in order with room in the queue it is delivered at
   once (`SysC.inFr_push`), but with the queue full it waits in the reorder buffer, `Recv` moves it and
   announces the re-opened window (`C03_reopen_announced`), and the carrier is then the WINS — this needs
   the order of `rcv_buf` in `Cons` and the `TELL` flag as a further way to owe a frame in `Ret`;
3. zero-window probing for the queue (`C03_probe_*`), and the induction on outstanding + queued
   segments that turns the progress step into the drain. -/

/-! non-vacuity of the hypotheses of `C02_phase_return`: after `Send`, A's flush and B's `Input` (`D = 0`)
the state is consistent (by `cons_netRun`), B has passed offset 0, owes an ACK, and flushes by t = 1010 -/

instance netNoWrapDec (base : U32) : (s : Sys.State) → (evs : List SysC.NetEv) → Decidable (SysC.NetNoWrap base s evs)
  | s, [] => by unfold SysC.NetNoWrap; infer_instance
  | s, ev :: rest => by
    unfold SysC.NetNoWrap
    have := netNoWrapDec base (SysC.netStep s ev) rest
    infer_instance

def c02RetEvs : List SysC.NetEv := [.fair (.send [0]), .fair .flushA, .fair .dlvB]

example : (∃ gab gba, SysC.Cons ⟨SysC.wedgeA.snd_nxt, SysC.wedgeA.conv, 0, 0, 0⟩
      (SysC.netRun (Sys.init SysC.wedgeA SysC.wedgeB 0 1000) c02RetEvs) gab gba) ∧
    (SysC.netRun (Sys.init SysC.wedgeA SysC.wedgeB 0 1000) c02RetEvs).B.acklist ≠ [] ∧
    0 < SysC.o SysC.wedgeA.snd_nxt (SysC.netRun (Sys.init SysC.wedgeA SysC.wedgeB 0 1000) c02RetEvs).B.rcv_nxt ∧
    (SysC.netRun (Sys.init SysC.wedgeA SysC.wedgeB 0 1000) c02RetEvs).nfB ≤ 1010 ∧
    (SysC.netRun (Sys.init SysC.wedgeA SysC.wedgeB 0 1000) c02RetEvs).now ≤ 1010 :=
  ⟨SysC.cons_netRun c02RetEvs _ [] [] (SysC.cons_init _ _ 0 1000 false false (by decide)) (by decide),
   by decide, by decide, by decide, by decide⟩

/-! ### phase A with its deadline, and the whole chain for a lost ACK

`SysC.Keeps`: no `Input` touches `resendts` or `xmit` of a segment that stays in the send buffer;
`Live.LiveInv` (kc02): the head of the send buffer is never flagged; `SysC.P1`: the head waits for its
timer and A's next flush is at or before `T1`. -/

open KcpVerif.Sys KcpVerif.SysC in
/-- **The progress step for a head segment whose ACK was lost — all phases, with the bound.**  Any
consistent state (`Cons`, after any fault history), A's head live (`LiveInv`), B flushing at least every
`IB` ms (`Tm`), A every `IA` ms.  The head of A's send buffer has offset `U`, was sent before, its timer
is at `R`, B has already delivered it (`P1`; `T1 ≥ R + IA` bounds A's next flush, e.g.
`T1 = max(R, now) + IA`).  Then in EVERY later state of the fair system whose clock is past
`T1 + D + IB + D`, A's `snd_una` is beyond `U`: the segment was retransmitted by A's first flush at or
after `R` (earlier if a fast retransmission fired), re-acknowledged by B, and released — whatever
datagrams were in flight, whatever else both sides did in between.  This is
`resendts − now + interval_A + 2 D + interval_B` of the full statement.  `RunSmall`: fewer than 2^30
segments, receive window below 2^30. -/
theorem C02_progress_step_lost_ack {p : Par} {s : State} {gab gba : GLink} (h : Cons p s gab gba) (hl : Live.LiveInv s.A)
    (U R T1 IA IB : Nat) (hT : R + IA ≤ T1 ∧ T1 < R + 2 ^ 31) (ht : Tm IB s) (h1 : P1 p U R T1 IA s)
    (evs : List Ev) (hsm : RunSmall p.base s evs) (hnow : T1 + s.D + IB + s.D < (Sys.run s evs).now) :
    U < o p.base (Sys.run s evs).A.snd_una :=
  ret3_done h hl U R T1 IA IB hT ht h1 evs hsm hnow

/-! ### the progress step for the head segment in general

On the repaired model an individual ACK for the HEAD of the send buffer releases it, so the frame that
lets `snd_una` pass `U` is any frame with `una` beyond `U` or an ACK for `U` itself (`SysC.Rel`), and B
owes one as soon as its ack list holds an entry for `U` — whether or not it could move the segment to
its delivery queue (`SysC.Owe`; the jitter filter keeps entries at or beyond `rcv_nxt`,
`SysC.owe_flush`).  Hence the queue-full case needs no detour over `Recv` and WINS for the head. -/

open KcpVerif.Sys KcpVerif.SysC in
/-- **`C02_progress_step` for the head segment.**  Any consistent state (`Cons`: after any fault
history), A's head live (`LiveInv`), B flushing at least every `IB` ms (`Tm`), A every `IA` ms.  The head
of A's send buffer has offset `U`, was sent before, its timer is at `R`; B is not behind it
(`U ≤ rcv_nxt` — B has delivered everything below A's head; it need NOT have the segment `U`, its queue
may be full when the segment arrives); `T1 ≥ R + IA` bounds A's next flush (`P1H`).  Then in EVERY later
state of the fair system whose clock is past `T1 + D + IB + D`, A's `snd_una` is beyond `U`:
retransmitted by the first flush at or after `R`, accepted or re-acknowledged by B (the ACK entry for
`U` is listed even if the delivery queue is full), the releasing frame flushed within `IB`, input by A
within `D`.  Run hypothesis `RunSmallH`: fewer than 2^30 segments, `1 ≤ rcv_wnd < 2^30`. -/
theorem C02_progress_step_head {p : Par} {s : State} {gab gba : GLink} (h : Cons p s gab gba) (hl : Live.LiveInv s.A)
    (U R T1 IA IB : Nat) (hT : R + IA ≤ T1 ∧ T1 < R + 2 ^ 31) (ht : Tm IB s) (h1 : P1H p U R T1 IA s)
    (evs : List Ev) (hsm : RunSmallH p.base s evs) (hnow : T1 + s.D + IB + s.D < (Sys.run s evs).now) :
    U < o p.base (Sys.run s evs).A.snd_una :=
  retH3_done h hl U R T1 IA IB hT ht h1 evs hsm hnow

open KcpVerif.Sys KcpVerif.SysC in
/-- **Phase D, general**: a frame that releases `U` (`una` beyond `U`, or an ACK for the head `U`) input by
A moves `snd_una` beyond `U`. -/
theorem C02_phase_release_arrives {p : Par} {s : State} {t0 : Nat} {frs : List Wire.Frm} {gab grest : GLink}
    (h : Cons p s gab ((t0, frs) :: grest)) (hnw : NoWrap p.base s) (hdue : t0 ≤ s.now) (U : Nat)
    (hU : U ≤ o p.base s.A.snd_una) (hrel : ∃ fr ∈ frs, Rel p.base U fr) :
    U < o p.base (Sys.step s .dlvA).A.snd_una := phase_D_rel h hnw hdue U hU hrel

/-! what remained of `C02_progress_step_full` / `C02_drain_full` after this (closed further down):
* the hypothesis `U ≤ rcv_nxt(B)` of `P1H` follows from `Cons.arel`, the fixpoint of the move loop
  (`MoveFix`) and "the delivery queue is not full" (true at every `tick` under the fair reader) ONCE the
  order of `rcv_buf` is part of the invariant — not done;
* a head that has never been sent (`xmit = 0`, admitted by an ACK-only flush): phase A emits it at the
  next flush (`C02_phase_retx_emitted`), the chain is the same with `R = now`;
* zero-window probing for the send QUEUE, and the induction on outstanding + queued segments. -/

/-! ### B is not behind A's head; the progress step without that hypothesis

`SysC.SortedB` (B's reorder buffer sorted, at or after `rcv_nxt`) and `Live.MoveFix` are kept by every
event (`SysC.sortedB_step`, `SysC.fix_step`); with `Live.LiveInv` for A they form `SysC.Side`, which
holds together with `Cons` after ANY fault history from two fresh cores (`SysC.cons_side_netRun`,
`SysC.side_init`). -/

open KcpVerif.Sys KcpVerif.SysC in
/-- **B is not behind A's head whenever its delivery queue is not full** — in particular at every
`tick` of the system with a fair reader (a `tick` is refused while something is readable).  From
`Cons.arel` (B has everything below `snd_una`), the order of the reorder buffer and the fixpoint of the
move loop. -/
theorem C02_receiver_not_behind {p : Par} {s : State} {gab gba : GLink} (h : Cons p s gab gba) (hs : Side p.base s)
    (hq : s.B.rcv_queue.length < s.B.rcv_wnd.toNat) :
    o p.base s.A.snd_una ≤ o p.base s.B.rcv_nxt := not_behind h hs.srt hs.fix hq

open KcpVerif.Sys KcpVerif.SysC in
/-- **`C02_progress_step`** — the head segment, arbitrary reachable state, fair network and fair reader
from now on.  Hypotheses: `Cons` and `Side` (both hold after ANY fault history, see above); B's delivery
queue is not full now (true at every `tick`); B flushes at least every `IB` ms (`Tm`), A every `IA` ms
with its next flush at or before `T1 ≥ R + IA` (e.g. `T1 = max(R, now) + IA`); the head `x` of A's send
buffer has been sent before and its timer is at `R`.  Conclusion: in EVERY later state of the fair
system whose clock is past `T1 + D + IB + D`, `snd_una` is beyond `x.sn` — the segment has been
retransmitted, accepted or re-acknowledged, and released.  Bound: `resendts − now + interval_A + 2 D +
interval_B` as in `C02_progress_step_full`.  Run hypothesis `RunSmallH` (fewer than 2^30 segments,
`1 ≤ rcv_wnd < 2^30`); data from A to B only. -/
theorem C02_progress_step {p : Par} {s : State} {gab gba : GLink} (h : Cons p s gab gba) (hs : Side p.base s)
    (hq : s.B.rcv_queue.length < s.B.rcv_wnd.toNat) (x : Seg) (rest : List Seg) (hb : s.A.snd_buf = x :: rest)
    (hxm : x.xmit ≠ 0) (R T1 IA IB : Nat) (hxr : x.resendts = clk R) (hT : R + IA ≤ T1 ∧ T1 < R + 2 ^ 31)
    (hiv : s.A.interval.toNat = IA) (hnf : s.nfA ≤ T1) (hnw : s.now ≤ T1) (ht : Tm IB s)
    (evs : List Ev) (hsm : RunSmallH p.base s evs) (hnow : T1 + s.D + IB + s.D < (Sys.run s evs).now) :
    o p.base x.sn < o p.base (Sys.run s evs).A.snd_una := by
  have hhl : s.A.snd_una = x.sn := by
    have := hs.live.1
    unfold Live.HeadLive at this
    rw [hb] at this
    exact this.2
  have hrb : o p.base x.sn ≤ o p.base s.B.rcv_nxt := by
    rw [← hhl]; exact not_behind h hs.srt hs.fix hq
  exact retH3_done h hs.live (o p.base x.sn) R T1 IA IB hT ht
    ⟨⟨x, rest, hb, rfl, hxm, hxr⟩, hiv, hnf, hnw, hrb⟩ evs hsm hnow

/-! non-vacuity of `C02_progress_step`: A sends one byte and flushes, the network loses the datagram
(`shuffle [] []`).  The state is consistent (`cons_side_netRun`), the head has `xmit = 1` and its timer at
t = 1200 (`rx_rto = 200`), A's next flush is at 1010 ≤ T1 = 1210, B flushes every 10 ms, its queue is
empty: every hypothesis holds with `R = 1200`, `IA = IB = 10`, `T1 = 1210`. -/

def c02LostPush : List SysC.NetEv := [.fair (.send [0]), .fair .flushA, .shuffle [] []]

example : (∃ gab gba, SysC.Cons ⟨SysC.wedgeA.snd_nxt, SysC.wedgeA.conv, 0, 0, 0⟩
      (SysC.netRun (Sys.init SysC.wedgeA SysC.wedgeB 0 1000) c02LostPush) gab gba ∧
      SysC.Side SysC.wedgeA.snd_nxt (SysC.netRun (Sys.init SysC.wedgeA SysC.wedgeB 0 1000) c02LostPush)) ∧
    (SysC.netRun (Sys.init SysC.wedgeA SysC.wedgeB 0 1000) c02LostPush).ab = [] ∧
    (SysC.netRun (Sys.init SysC.wedgeA SysC.wedgeB 0 1000) c02LostPush).A.snd_buf.map
      (fun x => (x.xmit, x.resendts)) = [(1, Sys.clk 1200)] ∧
    (SysC.netRun (Sys.init SysC.wedgeA SysC.wedgeB 0 1000) c02LostPush).A.interval.toNat = 10 ∧
    (SysC.netRun (Sys.init SysC.wedgeA SysC.wedgeB 0 1000) c02LostPush).nfA ≤ 1210 ∧
    (SysC.netRun (Sys.init SysC.wedgeA SysC.wedgeB 0 1000) c02LostPush).B.rcv_queue.length <
      (SysC.netRun (Sys.init SysC.wedgeA SysC.wedgeB 0 1000) c02LostPush).B.rcv_wnd.toNat ∧
    SysC.Tm 10 (SysC.netRun (Sys.init SysC.wedgeA SysC.wedgeB 0 1000) c02LostPush) :=
  ⟨SysC.cons_side_netRun c02LostPush _ [] [] (SysC.cons_init _ _ 0 1000 false false (by decide))
      (SysC.side_init _ _ 0 1000 false false (by decide)) (by decide),
   by decide, by decide, by decide, by decide, by decide, ⟨by decide, by decide⟩⟩

open KcpVerif.Sys KcpVerif.SysC in
/-- **`C02_progress_step` for EVERY head**: as `C02_progress_step`, but the head may also be a segment
that has never been sent (`xmit = 0`: admitted by an ACK-only flush) — the next FULL flush of A, at or
before `T1`, transmits it whatever the time (take `R = now`).  `P1G`, Lemmas/SysDrainHead4.lean. -/
theorem C02_progress_step_every_head {p : Par} {s : State} {gab gba : GLink} (h : Cons p s gab gba) (hs : Side p.base s)
    (hq : s.B.rcv_queue.length < s.B.rcv_wnd.toNat) (x : Seg) (rest : List Seg) (hb : s.A.snd_buf = x :: rest)
    (R T1 IA IB : Nat) (hx : x.xmit = 0 ∨ (x.xmit ≠ 0 ∧ x.resendts = clk R)) (hT : R + IA ≤ T1 ∧ T1 < R + 2 ^ 31)
    (hiv : s.A.interval.toNat = IA) (hnf : s.nfA ≤ T1) (hnw : s.now ≤ T1) (ht : Tm IB s)
    (evs : List Ev) (hsm : RunSmallH p.base s evs) (hnow : T1 + s.D + IB + s.D < (Sys.run s evs).now) :
    o p.base x.sn < o p.base (Sys.run s evs).A.snd_una := by
  have hhl : s.A.snd_una = x.sn := by
    have := hs.live.1
    unfold Live.HeadLive at this
    rw [hb] at this
    exact this.2
  have hrb : o p.base x.sn ≤ o p.base s.B.rcv_nxt := by
    rw [← hhl]; exact not_behind h hs.srt hs.fix hq
  exact retG3_done h hs.live (o p.base x.sn) R T1 IA IB hT ht
    ⟨⟨x, rest, hb, rfl, hx⟩, hiv, hnf, hnw, hrb⟩ evs hsm hnow

/-! ### the drain: induction over the outstanding segments (writer stopped, send queue empty)

The progress step is iterated: a stage starts at a clock tick (the scheduler ticks only when the reader
has nothing to read, so the receive queue is not full and B is not behind A's head — `SysC.QOk` is the
only thing asked of the reader), lasts `stageLen = Rmax + IA + D + IB + D + 1` ms, and releases the head.
Every numbered segment is acknowledged after `|snd_buf|` stages.  Run hypotheses, each a check on single
states (`SysC.DrainHyp`; Boolean form `SysC.runChk`): fewer than 2^30 segments and `1 ≤ rcv_wnd < 2^30`
(`Small`), the reader condition `QOk`, and `TmrOk Rmax`: the retransmission timer of the head is never
more than `Rmax` ms ahead of the clock — the place where the unbounded RTO backoff of a segment
(`rto += rx_rto` at every timeout, no cap in kcp-go) enters the bound.  What is NOT covered: a non-empty
send queue (needs the window/zero-window-probe chain, `C02_drain_full` below) and the derivation of
`TmrOk` from a bound on the number of earlier timeouts. -/

open KcpVerif.Sys KcpVerif.SysC in
/-- **drain, last segment**: one numbered segment outstanding, nothing queued, the writer has stopped —
after the progress-step bound `WaitSnd = 0`, for ever.  Any consistent state, no other run hypothesis
than `RunSmallH`. -/
theorem C02_drain_last {p : Par} {s : State} {gab gba : GLink} (h : Cons p s gab gba) (hs : Side p.base s)
    (hq : s.B.rcv_queue.length < s.B.rcv_wnd.toNat) (x : Seg) (hb : s.A.snd_buf = [x]) (hsq : s.A.snd_queue = [])
    (R T1 IA IB : Nat) (hx : x.xmit = 0 ∨ (x.xmit ≠ 0 ∧ x.resendts = clk R)) (hT : R + IA ≤ T1 ∧ T1 < R + 2 ^ 31)
    (hiv : s.A.interval.toNat = IA) (hnf : s.nfA ≤ T1) (hnw : s.now ≤ T1) (ht : Tm IB s)
    (evs : List Ev) (hns : ∀ ev ∈ evs, isSend ev = false) (hsm : RunSmallH p.base s evs)
    (hnow : T1 + s.D + IB + s.D < (Sys.run s evs).now) :
    (Sys.run s evs).A.waitSnd = 0 :=
  drain_last h hs hq x hb hsq R T1 IA IB hx hT hiv hnf hnw ht evs hns hsm hnow

open KcpVerif.Sys KcpVerif.SysC in
/-- **one stage of the drain**: from a consistent state whose receive queue is not full, whatever the
run does (the writer may go on writing), after `Rmax + IA + D + IB + D` ms the send buffer is one shorter
than it was, up to the segments numbered in the meantime. -/
theorem C02_drain_stage {p : Par} {IA IB Rmax : Nat} {s : State} (hi : Inv p IA IB s) (hR : Rmax + IA < 2 ^ 31)
    (hq : s.B.rcv_queue.length < s.B.rcv_wnd.toNat) (n : Nat) (hlen : s.A.snd_buf.length ≤ n + 1)
    (evs : List Ev) (hr : RunP (DrainHyp p Rmax IA) s evs)
    (hnow : s.now + Rmax + IA + s.D + IB + s.D < (Sys.run s evs).now) :
    (Sys.run s evs).A.snd_buf.length ≤ n + (o p.base (Sys.run s evs).A.snd_nxt - o p.base s.A.snd_nxt) :=
  drain_stage hi hR hq n hlen evs hr hnow

open KcpVerif.Sys KcpVerif.SysC in
/-- **`C02_drain`, send queue empty** (the induction): two fresh endpoints, ANY history `pre` of writes,
events and network faults (loss, duplication, reordering, delay — `netRun`); in the state `s` it leaves
the writer stops with nothing queued and the receive queue is not full.  From then on the links are fair
(no loss after `s`) and the reader is fair (`QOk`).  Then once the clock has advanced by
`|snd_buf| · (Rmax + IA + D + IB + D + 1)` ms, `WaitSnd = 0`, and whenever the receive queue is not full
the receiver has handed every numbered segment to the reader's queue (`rcv_nxt = snd_nxt`). -/
theorem C02_drain_partial (A B : Kcp) (D t0 : Nat) (ndA ndB : Bool) (hinit : ConsInit A B) (pre : List NetEv)
    (hpre : NetNoWrap A.snd_nxt (Sys.init A B D t0 ndA ndB) pre) (Rmax : Nat) (hR : Rmax + A.interval.toNat < 2 ^ 31)
    (hq : (netRun (Sys.init A B D t0 ndA ndB) pre).B.rcv_queue.length <
      (netRun (Sys.init A B D t0 ndA ndB) pre).B.rcv_wnd.toNat)
    (hsq : (netRun (Sys.init A B D t0 ndA ndB) pre).A.snd_queue = [])
    (evs : List Ev) (hns : ∀ ev ∈ evs, isSend ev = false)
    (hr : RunP (DrainHyp ⟨A.snd_nxt, A.conv, 0, 0, 0⟩ Rmax A.interval.toNat) (netRun (Sys.init A B D t0 ndA ndB) pre) evs)
    (hnow : (netRun (Sys.init A B D t0 ndA ndB) pre).now + (netRun (Sys.init A B D t0 ndA ndB) pre).A.snd_buf.length *
      stageLen Rmax A.interval.toNat B.interval.toNat (netRun (Sys.init A B D t0 ndA ndB) pre).D ≤
      (Sys.run (netRun (Sys.init A B D t0 ndA ndB) pre) evs).now) :
    (Sys.run (netRun (Sys.init A B D t0 ndA ndB) pre) evs).A.waitSnd = 0 ∧
    ((Sys.run (netRun (Sys.init A B D t0 ndA ndB) pre) evs).B.rcv_queue.length <
        (Sys.run (netRun (Sys.init A B D t0 ndA ndB) pre) evs).B.rcv_wnd.toNat →
      (Sys.run (netRun (Sys.init A B D t0 ndA ndB) pre) evs).B.rcv_nxt =
        (Sys.run (netRun (Sys.init A B D t0 ndA ndB) pre) evs).A.snd_nxt) := by
  have hi := inv_netRun pre _ (inv_init A B D t0 ndA ndB hinit) hpre
  have hw := drain_all hR _ _ hi hq (Nat.le_refl _) hsq evs hns hr hnow
  refine ⟨hw, fun hq' => ?_⟩
  have hsm : RunSmallH A.snd_nxt _ evs := runP_smallH A.snd_nxt evs _ (RunP.mono (fun _ h => h.1) evs _ hr)
  have hrn := runSmallH_noWrap A.snd_nxt evs _ hsm
  have hi' := inv_run evs _ hi hrn
  obtain ⟨g1, g2, hc'⟩ := hi'.cons
  unfold Kcp.waitSnd at hw
  generalize Sys.run (netRun (Sys.init A B D t0 ndA ndB) pre) evs = s' at *
  have hnb : o A.snd_nxt s'.A.snd_una ≤ o A.snd_nxt s'.B.rcv_nxt := not_behind hc' hi'.side.srt hi'.side.fix hq'
  have hcon : o A.snd_nxt s'.A.snd_una + s'.A.snd_buf.length = o A.snd_nxt s'.A.snd_nxt := hc'.acon.2
  have hbub : o A.snd_nxt s'.B.rcv_nxt ≤ o A.snd_nxt s'.A.snd_nxt := hc'.bub
  exact o_inj A.snd_nxt _ _ (by omega)

/-- the full statement of the drain on the repaired model: ANY reachable state (in particular a
non-empty send queue, a closed or zero remote window), fair links and a fair reader from now on ⇒ a
bound depending on the state only after which `WaitSnd = 0`.  `C02_drain_partial` is the case "send queue
empty"; `C02_drain_general_partial` (below) proves it for every send queue with the explicit bound
`1 + WaitSnd · (fairStage + 2)` under two more checks on the states of the run: `TmrOk Rmax` (the timer of
the head is never more than `Rmax` ahead — the RTO backoff of a segment is not capped in kcp-go, so a
bound in terms of the start state alone would have to count the timeouts of every later head) and the
window configuration `0 < snd_wnd < 2^31`, `rcv_wnd < 65536`. -/
def C02_drain_repaired_full : Prop :=
  ∀ (A B : Kcp) (D t0 : Nat) (ndA ndB : Bool), SysC.ConsInit A B → ∀ (pre : List SysC.NetEv),
    SysC.NetNoWrap A.snd_nxt (Sys.init A B D t0 ndA ndB) pre →
    ∃ T : Nat, ∀ evs : List Sys.Ev, (∀ ev ∈ evs, SysC.isSend ev = false) →
      SysC.RunP (fun s => (SysC.Small A.snd_nxt s ∧ 0 < s.B.rcv_wnd.toNat) ∧ SysC.QOk s)
        (SysC.netRun (Sys.init A B D t0 ndA ndB) pre) evs →
      (SysC.netRun (Sys.init A B D t0 ndA ndB) pre).now + T ≤
        (Sys.run (SysC.netRun (Sys.init A B D t0 ndA ndB) pre) evs).now →
      (Sys.run (SysC.netRun (Sys.init A B D t0 ndA ndB) pre) evs).A.waitSnd = 0

/-! non-vacuity of `C02_drain_partial`: two one-byte messages are written and flushed, the network loses
both datagrams (`shuffle [] []`); then 65 rounds of "10 ticks, A flushes, deliveries, B flushes,
deliveries, reads".  Both timers stand at t = 1200 (`rx_rto = 200`), after the timeout the RTO is 300:
`Rmax = 300`, `stageLen = 321`, and the run lasts 650 ≥ 2 · 321 ms.  Every hypothesis is checked by
evaluation (`runChk_sound`). -/

def c02DrainPre : List SysC.NetEv := [.fair (.send [1]), .fair (.send [2]), .fair .flushA, .shuffle [] []]
def c02DrainRound : List Sys.Ev :=
  List.replicate 10 .tick ++ [.flushA, .dlvB, .dlvB, .flushB, .dlvA, .dlvA, .read, .read]
def c02DrainEvs : List Sys.Ev := (List.replicate 65 c02DrainRound).flatten

set_option maxRecDepth 1000000 in
example : SysC.ConsInit c02A c02A ∧ SysC.NetNoWrap c02A.snd_nxt (Sys.init c02A c02A 0 1000) c02DrainPre ∧
    (SysC.netRun (Sys.init c02A c02A 0 1000) c02DrainPre).A.snd_buf.length = 2 ∧
    (SysC.netRun (Sys.init c02A c02A 0 1000) c02DrainPre).ab = [] ∧
    (SysC.netRun (Sys.init c02A c02A 0 1000) c02DrainPre).A.snd_queue = [] ∧
    (∀ ev ∈ c02DrainEvs, SysC.isSend ev = false) ∧
    (SysC.netRun (Sys.init c02A c02A 0 1000) c02DrainPre).now + 2 * SysC.stageLen 300 10 10 0 ≤
      (Sys.run (SysC.netRun (Sys.init c02A c02A 0 1000) c02DrainPre) c02DrainEvs).now := by decide
set_option maxRecDepth 1000000 in
example : SysC.RunP (SysC.DrainHyp ⟨c02A.snd_nxt, c02A.conv, 0, 0, 0⟩ 300 10)
    (SysC.netRun (Sys.init c02A c02A 0 1000) c02DrainPre) c02DrainEvs :=
  SysC.runChk_sound ⟨c02A.snd_nxt, c02A.conv, 0, 0, 0⟩ 300 10 _ _ (by decide)

/-! ### the drain with a non-empty send queue (congestion control on or off), reader condition only

The induction is over `WaitSnd = |snd_buf| + |snd_queue|`.  Without `Send`, `|snd_queue| + snd_nxt` is
constant (`SysC.qn_run`), so `WaitSnd` falls exactly by the advance of `snd_una` (`SysC.wait_run`).  A
stage starts at a clock tick — the scheduler ticks only when the reader has nothing to read, so B's
queue is not full (`QOk`) and B is not behind A's head — and makes `snd_una` advance within `fairStage`
(`SysC.stage_fair`):

* something is outstanding: the head of the send buffer is released (`C02_progress_step_every_head`);
* nothing is outstanding, something is queued: until A numbers a segment every PUSH still on its way
  to B is old, so nothing but the reader changes B's receive side and its queue stays not full
  (`SysC.qp_step`, `SysC.qp_prefix`).  Within `quietLen`: whatever was on its way to A at the start has
  arrived (`SysC.ArrOk`, `SysC.OF`: every datagram arrives within `D`, the clock cannot pass an
  undelivered one); one probe round makes A's `rmt_wnd` non-zero (`C03_zero_window_probe_bound`,
  Props/C03.lean) and it stays so, every datagram on its way to A now carrying a non-zero window
  (`SysC.freshBa_step`, `SysC.rmt_keep_step`); A numbers a segment within two flushes
  (`SysC.flush_admits`, `SysC.adm_run`): with congestion control on, `cwnd` may be 0 at the first one (a
  fresh core, or `cwnd` clamped to `rmt_wnd = 0` by an ACK), but every flush leaves `cwnd ≥ 1`
  (`SysC.flush_cwnd_pos`) and with nothing outstanding no ACK changes it (`SysC.inA_cwnd`)
  (`SysC.quiet_bounded`).  Then the new head is released.

Run hypotheses, all checks on single states (`SysC.FairHyp`; Boolean form `SysC.runFairChk`): `Small`;
`0 < rcv_wnd < 65536`; the reader condition `QOk` (a reader with nothing to read has not left the queue
full — B's queue MAY be full between two reads); `TmrOk Rmax`: the retransmission timer of the head is
never more than `Rmax` ms ahead — the place where the uncapped RTO backoff enters the bound; `CfgA`:
`0 < snd_wnd < 2^31`.  Nothing is asked of the start state beyond reachability. -/

open KcpVerif.Sys KcpVerif.SysC in
/-- **one stage of the general drain** -/
theorem C02_drain_stage_general {p : Par} {IA IB Rmax : Nat} (hIA : IA < 2 ^ 29) (hR : Rmax + IA < 2 ^ 31) {s : State}
    (hi : Inv p IA IB s) (hpi : PInv IA s) (ha : ArrOk s) (hqB : s.B.rcv_queue.length < s.B.rcv_wnd.toNat)
    (hw : 0 < s.A.waitSnd) (evs : List Ev) (hns : ∀ ev ∈ evs, isSend ev = false)
    (hr : RunP (FairHyp p Rmax IA) s evs) (hnow : s.now + fairStage Rmax IA IB s.D < (Sys.run s evs).now) :
    o p.base s.A.snd_una < o p.base (Sys.run s evs).A.snd_una :=
  stage_fair hIA hR hi hpi ha hqB hw evs hns hr hnow

open KcpVerif.Sys KcpVerif.SysC in
/-- **`C02_drain`, any send queue, congestion control on or off, fair reader**: two fresh endpoints, ANY
history `pre` of writes, reads, events and network faults (loss, duplication, reordering); from the
state it leaves the writer stops, the links are fair and the reader reads whenever there is something
to read.  Once the clock has advanced by `1 + WaitSnd · (fairStage + 2)` ms, with
`fairStage = quietLen + 1 + (Rmax + IA + 2·D + IB)` and
`quietLen = (D + 1) + (IKCP_PROBE_LIMIT + 2·IA + 2·D + IB + 1) + 2·IA`, `WaitSnd = 0`; and whenever B's
queue is not full the receiver has handed every numbered segment to the reader's queue. -/
theorem C02_drain_general_partial (A B : Kcp) (D t0 : Nat) (ndA ndB : Bool) (hinit : ConsInit A B)
    (hpw : A.probe_wait = 0) (hIA : A.interval.toNat < 2 ^ 29) (pre : List NetEv)
    (hpre : NetNoWrap A.snd_nxt (Sys.init A B D t0 ndA ndB) pre) (Rmax : Nat) (hR : Rmax + A.interval.toNat < 2 ^ 31)
    (evs : List Ev) (hns : ∀ ev ∈ evs, isSend ev = false)
    (hr : RunP (FairHyp ⟨A.snd_nxt, A.conv, 0, 0, 0⟩ Rmax A.interval.toNat) (netRun (Sys.init A B D t0 ndA ndB) pre) evs)
    (hnow : (netRun (Sys.init A B D t0 ndA ndB) pre).now + 1 + (netRun (Sys.init A B D t0 ndA ndB) pre).A.waitSnd *
      (fairStage Rmax A.interval.toNat B.interval.toNat (netRun (Sys.init A B D t0 ndA ndB) pre).D + 2) ≤
      (Sys.run (netRun (Sys.init A B D t0 ndA ndB) pre) evs).now) :
    (Sys.run (netRun (Sys.init A B D t0 ndA ndB) pre) evs).A.waitSnd = 0 ∧
    ((Sys.run (netRun (Sys.init A B D t0 ndA ndB) pre) evs).B.rcv_queue.length <
        (Sys.run (netRun (Sys.init A B D t0 ndA ndB) pre) evs).B.rcv_wnd.toNat →
      (Sys.run (netRun (Sys.init A B D t0 ndA ndB) pre) evs).B.rcv_nxt =
        (Sys.run (netRun (Sys.init A B D t0 ndA ndB) pre) evs).A.snd_nxt) := by
  obtain ⟨hi, hpi⟩ := inv_pinv_netRun (by omega) pre _ (inv_init A B D t0 ndA ndB hinit)
    (pinv_init A B D t0 ndA ndB hpw) hpre
  have ha := arrOk_netRun pre _ (arrOk_init A B D t0 ndA ndB)
  have hw := drain_fair_any hIA hR hi hpi ha evs hns hr hnow
  refine ⟨hw, fun hq' => ?_⟩
  have hi' := inv_run evs _ hi (fair_noWrap evs _ hr)
  obtain ⟨g1, g2, hc'⟩ := hi'.cons
  unfold Kcp.waitSnd at hw
  generalize Sys.run (netRun (Sys.init A B D t0 ndA ndB) pre) evs = s' at *
  have hnb : o A.snd_nxt s'.A.snd_una ≤ o A.snd_nxt s'.B.rcv_nxt := not_behind hc' hi'.side.srt hi'.side.fix hq'
  have hcon : o A.snd_nxt s'.A.snd_una + s'.A.snd_buf.length = o A.snd_nxt s'.A.snd_nxt := hc'.acon.2
  have hbub : o A.snd_nxt s'.B.rcv_nxt ≤ o A.snd_nxt s'.A.snd_nxt := hc'.bub
  exact o_inj A.snd_nxt _ _ (by omega)

end KcpVerif.Props
