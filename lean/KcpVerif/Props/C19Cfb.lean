import KcpVerif.Props.C19
import KcpVerif.Props.C08
/-!
C19 — the cipher hypothesis `CipherLaws` of `C19_oob_roundtrip` discharged for the CRC-style
ciphers: textbook CFB over ANY block function (which `C08_enc_unrolled_eq_textbook` /
`C08_dec_unrolled_eq_textbook` prove the unrolled code of crypt.go computes, for every length)
and the copying `none` cipher.  The entropy source, the CRC and the Reed-Solomon parity stay
arbitrary.  What remains a hypothesis after this file: the AEAD round trip
`Open(nonce, Seal(nonce, x)) = x` of the standard library's GCM.
-/
namespace KcpVerif.Props
open KcpVerif KcpVerif.Gen KcpVerif.Wire KcpVerif.SessOut KcpVerif.Cfb

/-- the primitives of a session that encrypts with CFB over the block function `E` -/
def cfbPrims {γ : Type} (E : Bytes → Bytes) (bs : Nat) (crc : Bytes → BitVec 32)
    (parity : List Bytes → Nat → Bytes) (draw : γ → Draw γ) : Prims γ :=
  { crc := crc, parity := parity, draw := draw,
    encB := cfbEnc E bs (iv bs), decB := cfbDec E bs (iv bs),
    aseal := fun _ x => x, aopen := fun _ x => some x }

/-- CFB with any block function of size 8 or 16 satisfies every cipher law the OOB round trip uses
(`aseal`/`aopen` are not reached for a block cipher; the identity pair satisfies their laws). -/
theorem C19_cfb_laws {γ : Type} (bs : Nat) (hbs : bs = 8 ∨ bs = 16) (E : Bytes → Bytes) (hE : BlockFn bs E)
    (crc : Bytes → BitVec 32) (parity : List Bytes → Nat → Bytes) (draw : γ → Draw γ)
    (hdraw : ∀ g, 16 ≤ (draw g).out.length) (d p : Nat) :
    CipherLaws (cfbPrims E bs crc parity draw) { cipher := .block, d := d, p := p } := by
  have hiv := C08_iv_fits bs hbs
  have h0 : 0 < bs := by rcases hbs with rfl | rfl <;> decide
  exact
    { encB := fun x => C08_cfb_length bs hbs E hE x
      aseal := fun _ x => by simp only [cfbPrims, Cfg.overhead]; omega
      draw := hdraw
      nonce := by simp only [Cfg.nonceLen, nonceSize]; omega
      decEnc := fun x =>
        cfb_roundtrip E bs h0 hE x.length x (iv bs) (Nat.le_refl _) (by rw [iv, List.length_take]; omega)
      openSeal := fun _ _ => rfl }

/-- **`C19_oob_roundtrip_cfb`**: `C19_oob_roundtrip` with no hypothesis on the cipher, for every
block cipher of the package in CFB mode (aes-128/192/256, blowfish, twofish, cast5, 3des, tea, xtea,
sm4 — any block function of size 8 or 16): an out-of-band message of any accepted size arrives
intact at the handler of the peer. -/
theorem C19_oob_roundtrip_cfb {γ σ : Type} (bs : Nat) (hbs : bs = 8 ∨ bs = 16) (E : Bytes → Bytes) (hE : BlockFn bs E)
    (crc : Bytes → BitVec 32) (parity : List Bytes → Nat → Bytes) (draw : γ → Draw γ)
    (hdraw : ∀ g, 16 ≤ (draw g).out.length) (d p : Nat) (st : PP γ) (e : Enc)
    (henc : st.enc = some e) (coreMtu : Nat) (conv : BitVec 32) (data : Bytes) (now : Int)
    (hsz : convSize + data.length ≤ coreMtu) (hf : ({ cipher := .block, d := d, p := p } : Cfg).fecOn = true)
    (onFec onKcp : σ → Bytes → σ) (rx : Rx σ) :
    ∃ b em, sendOOB { cipher := .block, d := d, p := p } coreMtu conv data = .queued b ∧
      (ppStep (cfbPrims E bs crc parity draw) { cipher := .block, d := d, p := p } st
        { oob := true, body := b, now := now }).emits = [em] ∧
      ∃ plain, rxStrip (cfbPrims E bs crc parity draw) { cipher := .block, d := d, p := p } em.wire = some plain ∧
        route plain = .oob data ∧
        kcpInput onFec onKcp true rx plain = { rx with handled := rx.handled ++ [data] } :=
  C19_oob_roundtrip _ _ (C19_cfb_laws bs hbs E hE crc parity draw hdraw d p) st e henc coreMtu conv data now hsz hf
    onFec onKcp rx

/-- the same without a cipher (`block == nil`): nothing is assumed at all -/
theorem C19_oob_roundtrip_plain {γ : Type} (P : Prims γ)
    (d p : Nat) (st : PP γ) (e : Enc)
    (henc : st.enc = some e) (coreMtu : Nat) (conv : BitVec 32) (data : Bytes) (now : Int)
    (hsz : convSize + data.length ≤ coreMtu) (hf : ({ cipher := .none, d := d, p := p } : Cfg).fecOn = true) :
    ∃ b em, sendOOB { cipher := .none, d := d, p := p } coreMtu conv data = .queued b ∧
      (ppStep P { cipher := .none, d := d, p := p } st { oob := true, body := b, now := now }).emits = [em] ∧
      ∃ plain, rxStrip P { cipher := .none, d := d, p := p } em.wire = some plain ∧ route plain = .oob data := by
  have hq : sendOOB { cipher := .none, d := d, p := p } coreMtu conv data = .queued (le32 conv ++ data) := by
    simp only [sendOOB, hf, Bool.not_true, Bool.false_eq_true, if_false]
    rw [if_neg (by omega)]
  refine ⟨_, (crypt P { cipher := .none, d := d, p := p } st.gen (encodeOOB e (le32 conv ++ data)).pkt).emit, hq, ?_, ?_⟩
  · simp only [ppStep, fecStage, henc, if_true, cryptAll]
  · refine ⟨(encodeOOB e (le32 conv ++ data)).pkt.rest, ?_, ?_⟩
    · simp only [rxStrip, crypt]
    · simp only [encodeOOB]
      exact route_oob _ conv data

/-- non-vacuity: the laws are met by a concrete block function (the identity on 8-byte blocks) and a
constant 16-byte entropy block -/
example : CipherLaws (γ := Nat)
    (cfbPrims (fun b => b) 8 (fun _ => 0) (fun _ _ => []) (fun g => { g := g + 1, out := List.replicate 16 0 }))
    { cipher := .block, d := 10, p := 3 } :=
  C19_cfb_laws 8 (Or.inl rfl) _ (fun _ h => h) _ _ _ (fun _ => by simp) 10 3

end KcpVerif.Props
