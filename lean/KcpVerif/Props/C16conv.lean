/-
C16 (continued) — the counting part of auto-tune convergence, for the phase after the sample ring
has been flushed (`C16_window_flushes`).

Setting: a sender with ratio d/p (`0 < d`, `0 < p`, `d + p < 256`) emits an in-order run of genuine
packets with ids `s, s+1, …`; packet number `k` is any `q` with `RunPkt d p s k q`.  The decoder's
ring is `feed t0 (run d p s L)` with `t0` well formed and `258 ≤ L + 1`, i.e. after the next sample
the window holds only ids of the run.  All ids fed are below the decoder's `paws` (hence `< 2^32`).

Step lemmas
* `C16_conv_aux_tune_step`      every non-panic `decode` samples the packet into the ring and does
                                 nothing else to it; `C16_conv_aux_tune_run`: feeding run packets
                                 `k0 … k0+m-1` turns the ring `t` into `feed t (run d p (s+k0) m)`.
* `C16_conv_aux_tuning_step`    tuning decoder, packet below `paws`, full window `run d p w 258`
                                 after sampling: the new state is `retune …`, and it has adopted
                                 (d, p) iff both complete pulses are inside the window
                                 (`C16_conv_BothPulses d p w`); otherwise it is still tuning with
                                 the same `d p n paws`.
Main theorems
* `C16_conv_when_tuning`        (A) tuning on a flushed ring: adoption within `d + p` run packets.
* `C16_conv_flushed`            (B) any consistent configuration, tuning or not, flushed ring:
                                 adoption within `3 (d + p)` run packets.
* `C16_conv_when_tuning_small`, `C16_conv_flushed_small`
                                (C) for `2 (d + p) ≤ 258` every window contains both pulses:
                                 a tuning decoder adopts at the next packet, any decoder within
                                 `2 (d + p)` packets.
-/
import KcpVerif.Props.C16

namespace KcpVerif.Props
open KcpVerif.Gen KcpVerif.AutoTune KcpVerif.Fec KcpVerif.Lemmas.AutoTune

/-! ## step lemmas -/

/-- packet number `k` of an in-order run of genuine packets of a d/p sender starting at id `s` -/
def RunPkt (d p s k : Nat) (q : Bytes) : Prop :=
  fecHeaderSize ≤ q.length ∧ seqid q = BitVec.ofNat 32 (s + k) ∧
  flag q = (if label d p (s + k) then typeData else typeParity)

theorem C16_conv_aux_retune_tune (C : CodecNew) (dec : Decoder) (seq : BitVec 32) :
    (retune C dec seq).tune = dec.tune := by
  unfold retune
  dsimp only
  split
  · split <;> rfl
  · rfl

theorem C16_conv_aux_tune_step (C : CodecNew) (dec : Decoder) (q : Bytes)
    (hlen : fecHeaderSize ≤ q.length) :
    (dec.decode C q).st.tune = dec.tune.sample (flag q == typeData) (seqid q) := by
  unfold Decoder.decode
  split
  · omega
  · dsimp only
    split
    · rfl
    · split
      · exact C16_conv_aux_retune_tune ..
      · split <;> rfl

theorem C16_conv_aux_runpkt_bit {d p s k : Nat} {q : Bytes} (h : RunPkt d p s k q) :
    (flag q == typeData) = label d p (s + k) := by
  obtain ⟨_, _, hf⟩ := h
  rw [hf]
  cases label d p (s + k)
  · simp only [Bool.false_eq_true, if_false]; decide
  · simp only [if_true, beq_self_eq_true]

theorem C16_conv_aux_tune_step_run (C : CodecNew) (dec : Decoder) {d p s k : Nat} {q : Bytes}
    (h : RunPkt d p s k q) :
    (dec.decode C q).st.tune = dec.tune.sample (label d p (s + k)) (BitVec.ofNat 32 (s + k)) := by
  rw [C16_conv_aux_tune_step C dec q h.1, C16_conv_aux_runpkt_bit h, h.2.1]

theorem C16_conv_aux_feedPackets_cons (C : CodecNew) (dec : Decoder) (q : Bytes) (rest : List Bytes) :
    feedPackets C dec (q :: rest) = feedPackets C (dec.decode C q).st rest := rfl

theorem C16_conv_aux_feedPackets_append (C : CodecNew) (dec : Decoder) (a b : List Bytes) :
    feedPackets C dec (a ++ b) = feedPackets C (feedPackets C dec a) b := by
  simp only [feedPackets, List.foldl_append]

theorem C16_conv_aux_tune_run (C : CodecNew) {d p s : Nat} :
    ∀ (pkts : List Bytes) (dec : Decoder) (k0 : Nat),
      (∀ i (h : i < pkts.length), RunPkt d p s (k0 + i) pkts[i]) →
      (feedPackets C dec pkts).tune = feed dec.tune (run d p (s + k0) pkts.length) := by
  intro pkts
  induction pkts with
  | nil => intro dec k0 _; rfl
  | cons q rest ih =>
    intro dec k0 h
    have h0 : RunPkt d p s k0 q := h 0 (by simp only [List.length_cons]; omega)
    have hr : ∀ i (hi : i < rest.length), RunPkt d p s (k0 + 1 + i) rest[i] := by
      intro i hi
      have := h (i + 1) (by simp only [List.length_cons]; omega)
      rw [show k0 + (i + 1) = k0 + 1 + i by omega] at this
      exact this
    rw [C16_conv_aux_feedPackets_cons, ih _ (k0 + 1) hr, C16_conv_aux_tune_step_run C dec h0,
      List.length_cons, run_succ, show s + k0 + 1 = s + (k0 + 1) by omega]
    rfl

/-- both complete pulses lie inside a full window that starts at id `w`
    (the two conditions of `C16_findPeriod_complete` with `count = maxAutoTuneSamples`) -/
def C16_conv_BothPulses (d p w : Nat) : Prop :=
  (w + ((d + p) - w % (d + p))) + d < w + maxAutoTuneSamples ∧
  (if w % (d + p) < d then w + (d - w % (d + p)) else w + ((d + p) - w % (d + p)) + d) + p
    < w + maxAutoTuneSamples

/-- a window start two ids before a group boundary always works (this needs `d + p + 2 ≤ 258`) -/
theorem C16_conv_aux_aligned {d p w : Nat} (hp : 0 < p)
    (hn : d + p + 2 ≤ maxAutoTuneSamples) (hal : w % (d + p) = d + p - 1) :
    C16_conv_BothPulses d p w := by
  unfold C16_conv_BothPulses
  refine ⟨by omega, ?_⟩
  have : ¬ w % (d + p) < d := by omega
  simp only [this, if_false]
  omega

/-- a decoder that is tuning sends every packet below `paws` to the tuning branch -/
theorem C16_conv_aux_tuning_enters (C : CodecNew) (dec : Decoder) (q : Bytes)
    (hlen : fecHeaderSize ≤ q.length) (hpaws : (seqid q).toNat < dec.paws.toNat)
    (ht : dec.shouldTune = true) :
    (dec.decode C q).st =
      retune C { dec with tune := dec.tune.sample (flag q == typeData) (seqid q) } (seqid q) := by
  unfold Decoder.decode
  split
  · omega
  · dsimp only
    split
    · rename_i h; exact absurd h (by simp only [ge_iff_le, Nat.not_le]; exact hpaws)
    · split
      · rfl
      · rename_i h
        exfalso
        apply h
        apply (Bool.or_eq_true _ _).mpr
        right
        exact ht

theorem C16_conv_aux_retune_fail (C : CodecNew) (dec : Decoder) (seq : BitVec 32)
    (h : ¬ (0 < dec.tune.findPeriod true ∧ 0 < dec.tune.findPeriod false ∧
            dec.tune.findPeriod true + dec.tune.findPeriod false < 256)) :
    retune C dec seq = { dec with shouldTune := true } := by
  unfold retune
  dsimp only
  rw [if_neg h]

/-- `retune` on a full window that is one run of a d/p sender: adoption iff both pulses are inside -/
theorem C16_conv_aux_retune_run (C : CodecNew) (dec : Decoder) (seq : BitVec 32) {d p w : Nat}
    (hd : 0 < d) (hp : 0 < p) (hn : d + p < 256)
    (hcnt : dec.tune.count = maxAutoTuneSamples)
    (hw : dec.tune.window = run d p w maxAutoTuneSamples) (h32 : w + maxAutoTuneSamples ≤ 2 ^ 32) :
    (C16_conv_BothPulses d p w ∧ (retune C dec seq).d = d ∧ (retune C dec seq).p = p ∧
      (retune C dec seq).shouldTune = false) ∨
    (¬ C16_conv_BothPulses d p w ∧ retune C dec seq = { dec with shouldTune := true }) := by
  have hM : 3 ≤ maxAutoTuneSamples := by decide
  have hc : 3 ≤ dec.tune.count := by omega
  have hl : dec.tune.count ≤ maxAutoTuneSamples := by omega
  have hw' : dec.tune.window = run d p w dec.tune.count := by rw [hcnt]; exact hw
  have h32' : w + dec.tune.count ≤ 2 ^ 32 := by omega
  by_cases hb : C16_conv_BothPulses d p w
  · left
    have r := C16_retune_adopts C dec seq hd hp hn hc hl hw' h32'
      (by rw [hcnt]; exact hb.1) (by rw [hcnt]; exact hb.2)
    exact ⟨hb, r.1, r.2.1, r.2.2.1⟩
  · right
    refine ⟨hb, C16_conv_aux_retune_fail C dec seq ?_⟩
    obtain ⟨c1, c2⟩ := C16_findPeriod_complete hd hp hc hl hw' h32'
    obtain ⟨s1, s2⟩ := C16_findPeriod_sound hd hp hc hl hw' h32'
    rw [hcnt] at c1 c2
    intro ⟨p1, p2, _⟩
    apply hb
    refine ⟨c1.mp ?_, c2.mp ?_⟩
    · rcases s1 with e | e
      · rw [e] at p1; omega
      · exact e
    · rcases s2 with e | e
      · rw [e] at p2; omega
      · exact e

/-- one packet in the tuning state, full window after sampling -/
theorem C16_conv_aux_tuning_step (C : CodecNew) (dec : Decoder) (q : Bytes) {d p w : Nat}
    (hd : 0 < d) (hp : 0 < p) (hn : d + p < 256)
    (ht : dec.shouldTune = true) (hlen : fecHeaderSize ≤ q.length)
    (hpaws : (seqid q).toNat < dec.paws.toNat)
    (hcnt : (dec.tune.sample (flag q == typeData) (seqid q)).count = maxAutoTuneSamples)
    (hw : (dec.tune.sample (flag q == typeData) (seqid q)).window = run d p w maxAutoTuneSamples)
    (h32 : w + maxAutoTuneSamples ≤ 2 ^ 32) :
    (dec.decode C q).st =
      retune C { dec with tune := dec.tune.sample (flag q == typeData) (seqid q) } (seqid q) ∧
    ((C16_conv_BothPulses d p w ∧ (dec.decode C q).st.d = d ∧ (dec.decode C q).st.p = p ∧
        (dec.decode C q).st.shouldTune = false) ∨
     (¬ C16_conv_BothPulses d p w ∧ (dec.decode C q).st.shouldTune = true ∧
        (dec.decode C q).st.d = dec.d ∧ (dec.decode C q).st.p = dec.p ∧
        (dec.decode C q).st.n = dec.n ∧ (dec.decode C q).st.paws = dec.paws)) := by
  have e := C16_conv_aux_tuning_enters C dec q hlen hpaws ht
  refine ⟨e, ?_⟩
  rw [e]
  rcases C16_conv_aux_retune_run C
      { dec with tune := dec.tune.sample (flag q == typeData) (seqid q) } (seqid q)
      hd hp hn hcnt hw h32 with h | ⟨hb, h⟩
  · exact Or.inl h
  · right
    rw [h]
    exact ⟨hb, rfl, rfl, rfl, rfl, rfl⟩

/-! ## A. tuning on a flushed ring -/

/-- one run packet into a decoder that is tuning and whose ring holds (after this sample) only
    the run: adoption iff both pulses are inside the window, otherwise still tuning, same
    configuration, ring one sample further -/
theorem C16_conv_aux_step (C : CodecNew) (st : Decoder) (q : Bytes) {d p s m : Nat} {t0 : Tune}
    (hd : 0 < d) (hp : 0 < p) (hn : d + p < 256) (hwf : t0.WF)
    (hm : maxAutoTuneSamples ≤ m + 1)
    (ht : st.shouldTune = true) (htune : st.tune = feed t0 (run d p s m))
    (hq : RunPkt d p s m q) (hpaws : s + m < st.paws.toNat) :
    (C16_conv_BothPulses d p (s + (m + 1 - maxAutoTuneSamples)) ∧ (st.decode C q).st.d = d ∧
        (st.decode C q).st.p = p ∧ (st.decode C q).st.shouldTune = false) ∨
    (¬ C16_conv_BothPulses d p (s + (m + 1 - maxAutoTuneSamples)) ∧
        (st.decode C q).st.shouldTune = true ∧ (st.decode C q).st.d = st.d ∧
        (st.decode C q).st.p = st.p ∧ (st.decode C q).st.n = st.n ∧
        (st.decode C q).st.paws = st.paws ∧
        (st.decode C q).st.tune = feed t0 (run d p s (m + 1))) := by
  have hlt := st.paws.isLt
  have hseq : (seqid q).toNat = s + m := by
    rw [hq.2.1, BitVec.toNat_ofNat, Nat.mod_eq_of_lt (by omega)]
  have hs : st.tune.sample (flag q == typeData) (seqid q) = feed t0 (run d p s (m + 1)) := by
    rw [C16_conv_aux_runpkt_bit hq, hq.2.1, htune, run_succ_right, feed_append]; rfl
  obtain ⟨hc, hw⟩ := C16_window_flushes hwf d p s (m + 1) hm
  have h := C16_conv_aux_tuning_step C st q (w := s + (m + 1 - maxAutoTuneSamples)) hd hp hn ht hq.1
    (by rw [hseq]; exact hpaws) (by rw [hs]; exact hc) (by rw [hs]; exact hw) (by omega)
  rcases h.2 with h | ⟨h1, h2, h3, h4, h5, h6⟩
  · exact Or.inl h
  · right
    refine ⟨h1, h2, h3, h4, h5, h6, ?_⟩
    rw [C16_conv_aux_tune_step C st q hq.1, hs]

theorem C16_conv_aux_take_succ (C : CodecNew) (dec : Decoder) (pkts : List Bytes) (j : Nat)
    (hj : j < pkts.length) :
    feedPackets C dec (pkts.take (j + 1)) =
      ((feedPackets C dec (pkts.take j)).decode C pkts[j]).st := by
  rw [List.take_succ_eq_append_getElem hj, C16_conv_aux_feedPackets_append]
  rfl

/-- the induction behind A: after `j` run packets a decoder that was tuning on a flushed ring has
    either adopted the sender's ratio, or is still tuning on the (flushed) ring and none of the
    `j` windows seen so far contained both complete pulses -/
theorem C16_conv_aux_tuning_prefix (C : CodecNew) (dec : Decoder) {d p s L : Nat} {t0 : Tune}
    (pkts : List Bytes) (hd : 0 < d) (hp : 0 < p) (hn : d + p < 256)
    (ht : dec.shouldTune = true) (hwf : t0.WF) (hL : maxAutoTuneSamples ≤ L + 1)
    (htune : dec.tune = feed t0 (run d p s L))
    (hpk : ∀ i (h : i < pkts.length), RunPkt d p s (L + i) pkts[i]) :
    ∀ j, j ≤ pkts.length → s + L + j ≤ dec.paws.toNat →
      (∃ k ≤ j, (feedPackets C dec (pkts.take k)).d = d ∧ (feedPackets C dec (pkts.take k)).p = p ∧
        (feedPackets C dec (pkts.take k)).shouldTune = false) ∨
      ((feedPackets C dec (pkts.take j)).shouldTune = true ∧
        (feedPackets C dec (pkts.take j)).d = dec.d ∧ (feedPackets C dec (pkts.take j)).p = dec.p ∧
        (feedPackets C dec (pkts.take j)).n = dec.n ∧
        (feedPackets C dec (pkts.take j)).paws = dec.paws ∧
        (feedPackets C dec (pkts.take j)).tune = feed t0 (run d p s (L + j)) ∧
        ∀ i, i < j → ¬ C16_conv_BothPulses d p (s + (L + i + 1 - maxAutoTuneSamples))) := by
  intro j
  induction j with
  | zero =>
    intro _ _
    right
    exact ⟨ht, rfl, rfl, rfl, rfl, htune, fun i hi => absurd hi (Nat.not_lt_zero i)⟩
  | succ j ih =>
    intro hj hpaws
    rcases ih (by omega) (by omega) with ⟨k, hk, h⟩ | ⟨i1, i2, i3, i4, i5, i6, i7⟩
    · exact Or.inl ⟨k, by omega, h⟩
    · have hjl : j < pkts.length := by omega
      rw [C16_conv_aux_take_succ C dec pkts j hjl]
      rcases C16_conv_aux_step C (feedPackets C dec (pkts.take j)) pkts[j] hd hp hn hwf
          (by omega) i1 i6 (hpk j hjl) (by rw [i5]; omega) with h | ⟨h0, h1, h2, h3, h4, h5, h6⟩
      · left
        refine ⟨j + 1, Nat.le_refl _, ?_⟩
        rw [C16_conv_aux_take_succ C dec pkts j hjl]
        exact h.2
      · right
        refine ⟨h1, h2.trans i2, h3.trans i3, h4.trans i4, h5.trans i5, h6, ?_⟩
        intro i hi
        rcases Nat.lt_or_ge i j with h | h
        · exact i7 i h
        · have : i = j := by omega
          rw [this]; exact h0

/-- A. A decoder that is tuning on a flushed ring (it holds only samples of the in-order run of a
    d/p sender) adopts the sender's ratio within `d + p` further run packets below `paws`. -/
theorem C16_conv_when_tuning (C : CodecNew) (dec : Decoder) {d p s L : Nat} {t0 : Tune}
    (pkts : List Bytes) (hd : 0 < d) (hp : 0 < p) (hn : d + p < 256)
    (ht : dec.shouldTune = true) (hwf : t0.WF) (hL : maxAutoTuneSamples ≤ L + 1)
    (htune : dec.tune = feed t0 (run d p s L))
    (hlen : d + p ≤ pkts.length)
    (hpk : ∀ i (h : i < pkts.length), RunPkt d p s (L + i) pkts[i])
    (hpaws : s + L + (d + p) ≤ dec.paws.toNat) :
    ∃ k ≤ d + p, (feedPackets C dec (pkts.take k)).d = d ∧ (feedPackets C dec (pkts.take k)).p = p ∧
      (feedPackets C dec (pkts.take k)).shouldTune = false := by
  rcases C16_conv_aux_tuning_prefix C dec pkts hd hp hn ht hwf hL htune hpk (d + p) hlen hpaws with
    h | ⟨_, _, _, _, _, _, h7⟩
  · exact h
  · exfalso
    have hM : 257 ≤ maxAutoTuneSamples := by decide
    have hr := Nat.mod_lt (s + (L + 1 - maxAutoTuneSamples)) (show 0 < d + p by omega)
    apply h7 (d + p - 1 - (s + (L + 1 - maxAutoTuneSamples)) % (d + p)) (by omega)
    apply C16_conv_aux_aligned hp (by omega)
    have e : s + (L + (d + p - 1 - (s + (L + 1 - maxAutoTuneSamples)) % (d + p)) + 1 - maxAutoTuneSamples)
        = s + (L + 1 - maxAutoTuneSamples) +
          (d + p - 1 - (s + (L + 1 - maxAutoTuneSamples)) % (d + p)) := by omega
    rw [e, add_mod_cases _ _ (d + p) (by omega) (by omega)]
    split <;> omega

/-! ## B. any configuration on a flushed ring -/

/-- for a run packet, "type matches position under the decoder's ratio" is "the two labellings
    agree on its id" -/
theorem C16_conv_aux_typeMatches_iff {dec : Decoder} {d p s k : Nat} {q : Bytes}
    (hq : RunPkt d p s k q) (hk : s + k < 2 ^ 32) (hn : dec.n = dec.d + dec.p) :
    TypeMatches dec q ↔ label dec.d dec.p (s + k) = label d p (s + k) := by
  obtain ⟨_, hs, hf⟩ := hq
  have hne : (typeData : Nat) ≠ typeParity := by decide
  have hpos : posOf dec.n q = (s + k) % (dec.d + dec.p) := by
    rw [posOf, hs, BitVec.toNat_ofNat, Nat.mod_eq_of_lt hk, hn]
  unfold TypeMatches
  rw [hpos, hf]
  unfold label
  cases hlab : decide ((s + k) % (d + p) < d)
  · simp only [Bool.false_eq_true, if_false, decide_eq_false_iff_not]
    constructor
    · rintro (⟨_, h⟩ | ⟨h, _⟩)
      · exact absurd h.symm hne
      · exact h
    · exact fun h => Or.inr ⟨h, trivial⟩
  · simp only [if_true, decide_eq_true_eq]
    constructor
    · rintro (⟨h, _⟩ | ⟨_, h⟩)
      · exact h
      · exact absurd h hne
    · exact fun h => Or.inl ⟨h, trivial⟩

theorem C16_conv_aux_take_add (C : CodecNew) (dec : Decoder) (pkts : List Bytes) (a b : Nat) :
    feedPackets C dec (pkts.take (a + b)) =
      feedPackets C (feedPackets C dec (pkts.take a)) ((pkts.drop a).take b) := by
  rw [List.take_add, C16_conv_aux_feedPackets_append]

/-- the induction behind B: a decoder that is not tuning, `j` run packets in: either adoption has
    happened (or will within `b` packets after the first contradicting one; `b = d + p` in
    general, `b = 0` when every window contains both pulses), or it is still in its old
    configuration and all `j` ids so far are labelled alike by both ratios -/
theorem C16_conv_aux_flushed_prefix (C : CodecNew) (dec : Decoder) {d p s L : Nat} {t0 : Tune}
    (pkts : List Bytes) (b : Nat) (hd : 0 < d) (hp : 0 < p) (hn : d + p < 256)
    (hb : (∀ w, C16_conv_BothPulses d p w) ∨ b = d + p)
    (hdn : dec.n = dec.d + dec.p)
    (ht : dec.shouldTune = false) (hwf : t0.WF) (hL : maxAutoTuneSamples ≤ L + 1)
    (htune : dec.tune = feed t0 (run d p s L))
    (hpk : ∀ i (h : i < pkts.length), RunPkt d p s (L + i) pkts[i]) :
    ∀ j, j + b ≤ pkts.length → s + L + j + b ≤ dec.paws.toNat →
      (∃ k ≤ j + b, (feedPackets C dec (pkts.take k)).d = d ∧
        (feedPackets C dec (pkts.take k)).p = p ∧
        (feedPackets C dec (pkts.take k)).shouldTune = false) ∨
      ((feedPackets C dec (pkts.take j)).shouldTune = false ∧
        (feedPackets C dec (pkts.take j)).d = dec.d ∧ (feedPackets C dec (pkts.take j)).p = dec.p ∧
        (feedPackets C dec (pkts.take j)).n = dec.n ∧
        (feedPackets C dec (pkts.take j)).paws = dec.paws ∧
        (feedPackets C dec (pkts.take j)).tune = feed t0 (run d p s (L + j)) ∧
        ∀ i, i < j → label d p (s + L + i) = label dec.d dec.p (s + L + i)) := by
  intro j
  induction j with
  | zero =>
    intro _ _
    right
    exact ⟨ht, rfl, rfl, rfl, rfl, htune, fun i hi => absurd hi (Nat.not_lt_zero i)⟩
  | succ j ih =>
    intro hj hpaws
    have hlt := dec.paws.isLt
    rcases ih (by omega) (by omega) with ⟨k, hk, h⟩ | ⟨i1, i2, i3, i4, i5, i6, i7⟩
    · exact Or.inl ⟨k, by omega, h⟩
    · have hjl : j < pkts.length := by omega
      have hq := hpk j hjl
      have hst := C16_conv_aux_take_succ C dec pkts j hjl
      have htm := C16_conv_aux_typeMatches_iff (dec := feedPackets C dec (pkts.take j)) hq
        (by omega) (by rw [i4, i2, i3]; exact hdn)
      rw [i2, i3] at htm
      have hsmp : (feedPackets C dec (pkts.take j)).tune.sample (flag pkts[j] == typeData)
          (seqid pkts[j]) = feed t0 (run d p s (L + j + 1)) := by
        rw [C16_conv_aux_runpkt_bit hq, hq.2.1, i6, run_succ_right, feed_append]; rfl
      by_cases hlab : label dec.d dec.p (s + (L + j)) = label d p (s + (L + j))
      · -- the packet does not contradict the old ratio: nothing changes
        right
        obtain ⟨e1, e2, e3, e4, e5⟩ :=
          C16_stable_step C (feedPackets C dec (pkts.take j)) pkts[j] i1 (htm.mpr hlab)
        rw [hst]
        refine ⟨e5.trans i1, e1.trans i2, e2.trans i3, e3.trans i4, e4.trans i5, ?_, ?_⟩
        · rw [C16_conv_aux_tune_step C _ _ hq.1, hsmp, Nat.add_assoc]
        · intro i hi
          rcases Nat.lt_or_ge i j with h | h
          · exact i7 i h
          · have : i = j := by omega
            rw [this, Nat.add_assoc]; exact hlab.symm
      · -- the packet contradicts the old ratio: tuning branch
        left
        have hseq : (seqid pkts[j]).toNat = s + (L + j) := by
          rw [hq.2.1, BitVec.toNat_ofNat, Nat.mod_eq_of_lt (by omega)]
        have hflag : flag pkts[j] = typeData ∨ flag pkts[j] = typeParity := by
          rw [hq.2.2]; cases label d p (s + (L + j))
          · exact Or.inr (by simp only [Bool.false_eq_true, if_false])
          · exact Or.inl (by simp only [if_true])
        have hent := (C16_mismatch_enters_tuning C (feedPackets C dec (pkts.take j)) pkts[j] hq.1
          (by rw [hseq, i5]; omega) hflag (fun h => hlab (htm.mp h))).2
        rw [hsmp] at hent
        obtain ⟨hc, hw⟩ := C16_window_flushes hwf d p s (L + j + 1) (by omega)
        rcases C16_conv_aux_retune_run C
            { feedPackets C dec (pkts.take j) with tune := feed t0 (run d p s (L + j + 1)) }
            (seqid pkts[j]) hd hp hn hc hw (by omega) with h | ⟨hnb, h⟩
        · refine ⟨j + 1, by omega, ?_⟩
          rw [hst, hent]; exact h.2
        · -- still tuning: A applies to the rest of the run
          rcases hb with hb | hb
          · exact absurd (hb _) hnb
          subst hb
          have hst' : feedPackets C dec (pkts.take (j + 1)) =
              { feedPackets C dec (pkts.take j) with
                  tune := feed t0 (run d p s (L + j + 1)), shouldTune := true } := by
            rw [hst, hent, h]
          obtain ⟨k, hk, hk'⟩ := C16_conv_when_tuning C (feedPackets C dec (pkts.take (j + 1)))
            (d := d) (p := p) (s := s) (L := L + j + 1) (t0 := t0) (pkts.drop (j + 1)) hd hp hn
            (by rw [hst']) hwf (by omega) (by rw [hst'])
            (by rw [List.length_drop]; omega)
            (by
              intro i hi
              rw [List.getElem_drop, show L + j + 1 + i = L + (j + 1 + i) by omega]
              exact hpk _ _)
            (by rw [hst']; dsimp only; rw [i5]; omega)
          refine ⟨j + 1 + k, by omega, ?_⟩
          rw [C16_conv_aux_take_add]
          exact hk'

/-- B. A decoder in ANY configuration (consistent: `n = d' + p'`, both positive) whose ring has
    been flushed by the run adopts the sender's ratio within `3 (d + p)` further run packets below
    `paws`: within `2 (d + p)` packets one contradicts the old ratio (or there is nothing to do),
    within `d + p` more the window is aligned. -/
theorem C16_conv_flushed (C : CodecNew) (dec : Decoder) {d p s L : Nat} {t0 : Tune}
    (pkts : List Bytes) (hd : 0 < d) (hp : 0 < p) (hn : d + p < 256)
    (hdn : dec.n = dec.d + dec.p) (hdd : 0 < dec.d) (hdp : 0 < dec.p)
    (hwf : t0.WF) (hL : maxAutoTuneSamples ≤ L + 1)
    (htune : dec.tune = feed t0 (run d p s L))
    (hlen : 3 * (d + p) ≤ pkts.length)
    (hpk : ∀ i (h : i < pkts.length), RunPkt d p s (L + i) pkts[i])
    (hpaws : s + L + 3 * (d + p) ≤ dec.paws.toNat) :
    ∃ k ≤ 3 * (d + p), (feedPackets C dec (pkts.take k)).d = d ∧
      (feedPackets C dec (pkts.take k)).p = p ∧
      (feedPackets C dec (pkts.take k)).shouldTune = false := by
  cases ht : dec.shouldTune with
  | true =>
    obtain ⟨k, hk, h⟩ := C16_conv_when_tuning C dec pkts hd hp hn ht hwf hL htune (by omega) hpk
      (by omega)
    exact ⟨k, by omega, h⟩
  | false =>
    rcases C16_conv_aux_flushed_prefix C dec pkts (d + p) hd hp hn (Or.inr rfl) hdn ht hwf hL htune
        hpk (2 * (d + p)) (by omega) (by omega) with ⟨k, hk, h⟩ | ⟨_, _, _, _, _, _, h7⟩
    · exact ⟨k, by omega, h⟩
    · by_cases heq : (dec.d, dec.p) = (d, p)
      · refine ⟨0, Nat.zero_le _, ?_⟩
        simp only [Prod.mk.injEq] at heq
        exact ⟨heq.1, heq.2, ht⟩
      · exfalso
        obtain ⟨k, hk1, hk2, hk3⟩ := C16_mismatch_detected hd hp hdd hdp heq (s + L)
        apply hk3
        have := h7 (k - (s + L)) (by omega)
        rw [show s + L + (k - (s + L)) = k by omega] at this
        exact this

/-! ## C. small shard sizes: every window contains both pulses -/

/-- for `2 (d + p) ≤ 258` every full window contains both complete pulses, whatever its start -/
theorem C16_conv_aux_small {d p : Nat} (hd : 0 < d) (hp : 0 < p)
    (hn : 2 * (d + p) ≤ maxAutoTuneSamples) (w : Nat) : C16_conv_BothPulses d p w := by
  have hr := Nat.mod_lt w (show 0 < d + p by omega)
  unfold C16_conv_BothPulses
  refine ⟨by omega, ?_⟩
  split <;> omega

/-- A for `d + p ≤ 129`: a decoder that is tuning on a flushed ring adopts at the next packet -/
theorem C16_conv_when_tuning_small (C : CodecNew) (dec : Decoder) {d p s L : Nat} {t0 : Tune}
    (pkts : List Bytes) (hd : 0 < d) (hp : 0 < p) (hn : 2 * (d + p) ≤ maxAutoTuneSamples)
    (ht : dec.shouldTune = true) (hwf : t0.WF) (hL : maxAutoTuneSamples ≤ L + 1)
    (htune : dec.tune = feed t0 (run d p s L))
    (hlen : 1 ≤ pkts.length)
    (hpk : ∀ i (h : i < pkts.length), RunPkt d p s (L + i) pkts[i])
    (hpaws : s + L + 1 ≤ dec.paws.toNat) :
    (feedPackets C dec (pkts.take 1)).d = d ∧ (feedPackets C dec (pkts.take 1)).p = p ∧
      (feedPackets C dec (pkts.take 1)).shouldTune = false := by
  have hM : maxAutoTuneSamples ≤ 258 := by decide
  have hsmall := C16_conv_aux_small hd hp hn
  rcases C16_conv_aux_tuning_prefix C dec pkts hd hp (by omega) ht hwf hL htune hpk 1 hlen hpaws with
    ⟨k, hk, h⟩ | ⟨_, _, _, _, _, _, h7⟩
  · have hk' : k = 0 ∨ k = 1 := by omega
    rcases hk' with rfl | rfl
    · exfalso
      have h3 : dec.shouldTune = false := h.2.2
      rw [ht] at h3
      exact Bool.noConfusion h3
    · exact h
  · exact absurd (hsmall _) (h7 0 (by omega))

/-- B for `d + p ≤ 129`: adoption within `2 (d + p)` run packets from any configuration -/
theorem C16_conv_flushed_small (C : CodecNew) (dec : Decoder) {d p s L : Nat} {t0 : Tune}
    (pkts : List Bytes) (hd : 0 < d) (hp : 0 < p) (hn : 2 * (d + p) ≤ maxAutoTuneSamples)
    (hdn : dec.n = dec.d + dec.p) (hdd : 0 < dec.d) (hdp : 0 < dec.p)
    (hwf : t0.WF) (hL : maxAutoTuneSamples ≤ L + 1)
    (htune : dec.tune = feed t0 (run d p s L))
    (hlen : 2 * (d + p) ≤ pkts.length)
    (hpk : ∀ i (h : i < pkts.length), RunPkt d p s (L + i) pkts[i])
    (hpaws : s + L + 2 * (d + p) ≤ dec.paws.toNat) :
    ∃ k ≤ 2 * (d + p), (feedPackets C dec (pkts.take k)).d = d ∧
      (feedPackets C dec (pkts.take k)).p = p ∧
      (feedPackets C dec (pkts.take k)).shouldTune = false := by
  have hM : maxAutoTuneSamples ≤ 258 := by decide
  cases ht : dec.shouldTune with
  | true =>
    exact ⟨1, by omega, C16_conv_when_tuning_small C dec pkts hd hp hn ht hwf hL htune (by omega) hpk
      (by omega)⟩
  | false =>
    rcases C16_conv_aux_flushed_prefix C dec pkts 0 hd hp (by omega)
        (Or.inl (C16_conv_aux_small hd hp hn)) hdn ht hwf hL htune
        hpk (2 * (d + p)) (by omega) (by omega) with ⟨k, hk, h⟩ | ⟨_, _, _, _, _, _, h7⟩
    · exact ⟨k, by omega, h⟩
    · by_cases heq : (dec.d, dec.p) = (d, p)
      · refine ⟨0, Nat.zero_le _, ?_⟩
        simp only [Prod.mk.injEq] at heq
        exact ⟨heq.1, heq.2, ht⟩
      · exfalso
        obtain ⟨k, hk1, hk2, hk3⟩ := C16_mismatch_detected hd hp hdd hdp heq (s + L)
        apply hk3
        have := h7 (k - (s + L)) (by omega)
        rw [show s + L + (k - (s + L)) = k by omega] at this
        exact this

/-! ## non-vacuity -/

example : RunPkt 1 1 0 0 [0, 0, 0, 0, 0xf1, 0, 2, 0] := by unfold RunPkt; decide +kernel

/-- six packets (ids 258 … 263) of a 1/1 sender whose run started at id 0 -/
def C16_conv_exPkts : List Bytes :=
  (List.range 6).map fun i =>
    le32 (BitVec.ofNat 32 (258 + i)) ++ le16 (if label 1 1 (258 + i) then typeData else typeParity)
      ++ [2, 0]

/-- a 2/1 decoder whose ring has just been flushed by 258 samples of that run -/
def C16_conv_exDec (tuning : Bool) : Decoder :=
  { d := 2, p := 1, n := 3, paws := pawsOf 3, newest := 0, shouldTune := tuning,
    tune := feed Tune.init (run 1 1 0 258), sets := [], codec := rsNew 2 1 }

theorem C16_conv_aux_exDec_tune (b : Bool) :
    (C16_conv_exDec b).tune = feed Tune.init (run 1 1 0 258) := by
  simp only [C16_conv_exDec]

theorem C16_conv_aux_exPkts : ∀ i (h : i < C16_conv_exPkts.length),
    RunPkt 1 1 0 (258 + i) C16_conv_exPkts[i] := by
  unfold RunPkt; decide +kernel

-- A: tuning, adopts 1/1 within 2 packets
example : ∃ k ≤ 1 + 1, (feedPackets rsNew (C16_conv_exDec true) (C16_conv_exPkts.take k)).d = 1 ∧
    (feedPackets rsNew (C16_conv_exDec true) (C16_conv_exPkts.take k)).p = 1 ∧
    (feedPackets rsNew (C16_conv_exDec true) (C16_conv_exPkts.take k)).shouldTune = false :=
  C16_conv_when_tuning rsNew (C16_conv_exDec true) (s := 0) (L := 258) (t0 := Tune.init)
    C16_conv_exPkts (by decide) (by decide) (by decide) rfl wf_init (by decide)
    (C16_conv_aux_exDec_tune _)
    (by decide +kernel) C16_conv_aux_exPkts (by decide +kernel)

-- B: not tuning, wrong ratio 2/1, adopts 1/1 within 6 packets
example : ∃ k ≤ 3 * (1 + 1),
    (feedPackets rsNew (C16_conv_exDec false) (C16_conv_exPkts.take k)).d = 1 ∧
    (feedPackets rsNew (C16_conv_exDec false) (C16_conv_exPkts.take k)).p = 1 ∧
    (feedPackets rsNew (C16_conv_exDec false) (C16_conv_exPkts.take k)).shouldTune = false :=
  C16_conv_flushed rsNew (C16_conv_exDec false) (s := 0) (L := 258) (t0 := Tune.init)
    C16_conv_exPkts (by decide) (by decide) (by decide) rfl (by decide) (by decide) wf_init
    (by decide) (C16_conv_aux_exDec_tune _) (by decide +kernel) C16_conv_aux_exPkts (by decide +kernel)

-- C: the same within 4 packets (`2 * (1 + 1) ≤ 258`)
example : ∃ k ≤ 2 * (1 + 1),
    (feedPackets rsNew (C16_conv_exDec false) (C16_conv_exPkts.take k)).d = 1 ∧
    (feedPackets rsNew (C16_conv_exDec false) (C16_conv_exPkts.take k)).p = 1 ∧
    (feedPackets rsNew (C16_conv_exDec false) (C16_conv_exPkts.take k)).shouldTune = false :=
  C16_conv_flushed_small rsNew (C16_conv_exDec false) (s := 0) (L := 258) (t0 := Tune.init)
    C16_conv_exPkts (by decide) (by decide) (by decide) rfl (by decide) (by decide) wf_init
    (by decide) (C16_conv_aux_exDec_tune _) (by decide +kernel) C16_conv_aux_exPkts (by decide +kernel)

end KcpVerif.Props
