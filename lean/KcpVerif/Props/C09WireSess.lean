import KcpVerif.Props.C09Wire
import KcpVerif.Lemmas.C09WireSess
/-!
C09 `wire_reassembles`, session level (DESIGN.md 7.9, section 13), configuration WITHOUT cipher and
FEC: the wire of a session is the wire of its core (`Model/Sess.lean`: the output callback of the
core is the session's `output`; `writeBuffers` / `update` / `packetInput` return the core's `outs`),
so everything `Props/C09Wire.lean` proves about the core's wire holds for the datagrams a session
emits, and the stream an independent decoder reassembles from them is a prefix of the bytes
`WriteBuffers` accepted (`wr`, the `A.wr` of `C01_session_plain`).  A session never fragments
(`C01_session_single_fragment`), so nothing is ever held back for an unfinished message.
-/
namespace KcpVerif.Props
open KcpVerif KcpVerif.Gen KcpVerif.Kcp KcpVerif.Recv KcpVerif.Send KcpVerif.C01 KcpVerif.C09W
open KcpVerif.Lemmas.KcpFlush (InvMss)

theorem C09_closed_of_zero (L : List Content) (h : ∀ c ∈ L, c.1 = 0) : Closed L :=
  fun x hx => h x (List.mem_of_getLast? hx)

/-- **(c) One session, any operations** (`WriteBuffers` of any slices, `Read`, `update`, the setters,
`packetInput` of ARBITRARY bytes), fresh core numbering from 0, at most 2^32 numbered segments.
Every datagram the session has emitted is accepted by `Wire.Spec.decode` as a non-empty list of
segments of the session's `conv`, every byte consumed; for ANY observed collection of those segments
the reassembled stream is a prefix of `bytesOf log`, itself a prefix of the accepted bytes `wr`; it IS
`bytesOf log` once every numbered segment has been seen, and stops before segment `i` if `i` was
never seen. -/
theorem C09_session_wire (s0 : Sess) (hf : Fresh s0.k) (hm : InvMss s0.k) (hsn : s0.k.snd_nxt = 0)
    (ops : List SessOp) (hL : (sessRun { s := s0 } ops).log.length ≤ 2 ^ 32) :
    (∀ o ∈ (sessRun { s := s0 } ops).wire, ∃ segs, Wire.Spec.decode o = some segs ∧ segs ≠ [] ∧
      segsLen segs = o.length ∧
      ∀ x ∈ segs, x.1.conv = s0.k.conv ∧ Wire.cmdKnown x.1.cmd = true ∧ x.1.len.toNat = x.2.length ∧
        x.2.length ≤ mtuLimit ∧ SegGen (sessRun { s := s0 } ops).log x) ∧
    (sessRun { s := s0 } ops).wr =
      bytesOf ((sessRun { s := s0 } ops).log ++ (sessRun { s := s0 } ops).s.k.snd_queue.map content) ∧
    ∀ all, C09_Observed (sessRun { s := s0 } ops).wire all →
      Wire.Spec.reassemble all <+: bytesOf (sessRun { s := s0 } ops).log ∧
      bytesOf (sessRun { s := s0 } ops).log <+: (sessRun { s := s0 } ops).wr ∧
      ((∀ i, i < (sessRun { s := s0 } ops).log.length → Avail all i) →
        Wire.Spec.reassemble all = bytesOf (sessRun { s := s0 } ops).log) ∧
      (∀ i, ¬ Avail all i → Wire.Spec.reassemble all <+: bytesOf ((sessRun { s := s0 } ops).log.take i)) := by
  obtain ⟨cops, hR⟩ := sessRun_ref ops { s := s0 } { k := s0.k } ⟨rfl, rfl, rfl, rfl⟩
  have hmss : 0 < s0.k.mss.toNat := by have := hm.mss_toNat; have := hm.mtu_gt; omega
  have hW := sessRun_invW ops { s := s0 } ⟨hmss, by simp [hf.sq, bytesOf]⟩
  have hZ := sessRun_invZ ops { s := s0 } ⟨hmss, by simp [hf.sq]⟩
  have hcl : Closed (sessRun { s := s0 } ops).log :=
    C09_closed_of_zero _ (fun c hc => hZ.zero c.1 (List.mem_map.mpr ⟨c, List.mem_append_left _ hc, rfl⟩))
  rw [hR.log] at hL
  refine ⟨?_, hW.acc, fun all hall => ?_⟩
  · rw [hR.wire, hR.log]
    exact (C09_wire_decodes s0.k hf hm hsn cops hL).2
  · have hpre : bytesOf (sessRun { s := s0 } ops).log <+: (sessRun { s := s0 } ops).wr := by
      rw [hW.acc, bytesOf_append]; exact List.prefix_append _ _
    rw [hR.wire] at hall
    rw [hR.log] at hcl ⊢
    refine ⟨(C09_wire_reassembles s0.k hf hm hsn cops hL all hall).1, by rw [← hR.log]; exact hpre, fun hseen => ?_,
      fun i hmiss => C09_wire_reassembles_missing s0.k hf hm hsn cops hL all hall i hmiss⟩
    exact (C09_wire_reassembles_complete s0.k hf hm hsn cops hL all hall hseen).2 hcl

/-- **(c) The writer of `C01_session_plain`.**  In the two-session system (any interleaving of `A`'s
operations, `B`'s operations and deliveries of `A`'s datagrams to `B`), the stream an independent
decoder reassembles from any collection of segments of `A`'s datagrams is a prefix of `A.wr`, the
bytes `A.WriteBuffers` accepted — the same bound `C01_session_plain` gives for what `B.Read` returns. -/
theorem C09_session_plain_wire (sA sB : Sess) (hA : Fresh sA.k) (hm : InvMss sA.k) (hsn : sA.k.snd_nxt = 0)
    (ops : List SSOp) (hL : (ssrun ⟨{ s := sA }, { s := sB }⟩ ops).A.log.length ≤ 2 ^ 32) :
    (∀ o ∈ (ssrun ⟨{ s := sA }, { s := sB }⟩ ops).A.wire, ∃ segs, Wire.Spec.decode o = some segs ∧ segs ≠ [] ∧
      ∀ x ∈ segs, x.1.conv = sA.k.conv) ∧
    ∀ all, C09_Observed (ssrun ⟨{ s := sA }, { s := sB }⟩ ops).A.wire all →
      Wire.Spec.reassemble all <+: (ssrun ⟨{ s := sA }, { s := sB }⟩ ops).A.wr ∧
      ((∀ i, i < (ssrun ⟨{ s := sA }, { s := sB }⟩ ops).A.log.length → Avail all i) →
        Wire.Spec.reassemble all = bytesOf (ssrun ⟨{ s := sA }, { s := sB }⟩ ops).A.log) := by
  rw [ssrun_A] at hL ⊢
  obtain ⟨h1, _, h3⟩ := C09_session_wire sA hA hm hsn (aOps ops) hL
  refine ⟨fun o ho => ?_, fun all hall => ?_⟩
  · obtain ⟨segs, a1, a2, _, a4⟩ := h1 o ho
    exact ⟨segs, a1, a2, fun x hx => (a4 x hx).1⟩
  · obtain ⟨b1, b2, b3, _⟩ := h3 all hall
    exact ⟨b1.trans b2, b3⟩

/-! ### non-vacuity: a default session writes two slices, flushes, retransmits -/

def C09_exSess : List SessOp :=
  [.noDelay 1 10 2 1, .write [[1, 2, 3], [4, 5]] 0, .update 300, .input [1, 2, 3] 301]

set_option maxRecDepth 1000000 in
example : Fresh (Sess.new 7).k ∧ InvMss (Sess.new 7).k ∧ (Sess.new 7).k.snd_nxt = 0 ∧
    (sessRun { s := Sess.new 7 } C09_exSess).wire.length = 2 ∧
    (sessRun { s := Sess.new 7 } C09_exSess).wr = [1, 2, 3, 4, 5] ∧
    Wire.Spec.reassemble (wireSegs (sessRun { s := Sess.new 7 } C09_exSess).wire) = [1, 2, 3, 4, 5] := by
  refine ⟨⟨by decide, by decide, by decide, by decide, by decide⟩,
    Lemmas.KcpMss.setMtu_inv _ _ (Lemmas.KcpMss.new_inv 7), by decide, by decide, by decide, by decide⟩

end KcpVerif.Props
