import KcpVerif.Props.C05
/-!
C11 — the protocol core's own conversation check (`core_conv_check` of DESIGN 7.11): a packet that
the listener routes to an existing session without being able to read a conversation id (parity,
short data frame) — or any stale/forged datagram — whose first segment carries a foreign
conversation id is rejected by `Input` with −1, leaves the WHOLE core state equal and makes the
core transmit nothing.  So traffic of another conversation is never merged into the stream.
-/
namespace KcpVerif.Props
open KcpVerif KcpVerif.Gen KcpVerif.Kcp KcpVerif.Total

theorem C11_core_conv_check (k : Kcp) (d : Bytes) (regular ackNoDelay : Bool) (now : U32)
    (hconv : rd32 d 0 ≠ k.conv) :
    (input k d regular ackNoDelay now).k = k ∧ (input k d regular ackNoDelay now).outs = [] ∧
    (input k d regular ackNoDelay now).ret < 0 :=
  C05_input_reject_first_noop k d regular ackNoDelay now (Or.inr (Or.inl hconv))

/-- the rejection does not depend on the rest of the datagram, on the packet type or on the state:
the return code is a function of the bytes and the conversation id only -/
theorem C11_core_conv_ret (k : Kcp) (d : Bytes) (regular ackNoDelay : Bool) (now : U32) :
    (input k d regular ackNoDelay now).ret = inputRet k.conv d :=
  C05_input_ret_spec k d regular ackNoDelay now

/-- non-vacuity: a well-formed PUSH header of conversation 9 fed to a core of conversation 7 -/
example : (input (Kcp.new 7) (encodeHdr 9 81 0 32 0 0 0 0) true false 0).ret = -1 := by decide

end KcpVerif.Props
