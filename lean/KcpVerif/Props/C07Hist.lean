/-
C07 — completeness over WHOLE HISTORIES, including the discard horizon.

`C07_dec_any_k` (Props/C07) assumes that the shard set of the group still holds the `d − 1` earlier
packets.  This file discharges that hypothesis from an invariant over the history, for `Model/Fec`'s
decoder (fec.go `fecDecoder.decode`, `discardShards`, `newestShardId` with the repairs 34efa23 and
be95271), a fresh decoder or any state satisfying the invariant, and ANY list of genuine packets of
its ratio: any groups, any order, duplicates, late arrivals, re-fills, discards, the id wrap.
Lemmas: `Lemmas/FecHist` (horizon, invariant), `FecHistTrack` (ghost of one group), `FecHistHorizon`
(explicit horizon condition, window), `FecHistMain` (history theorems).  All for any `Lawful C`; the
`…_rsNew` corollaries at the end are unconditional (`C07_rsNew_lawful`).

* `C07_discard_exact`      `discardShards`, exactly: the set of group `g` is found afterwards iff it was there and
                            `alive n newest g` — the signed age `_itimediff(newest·n, g·n)` lies in `[0, maxShardSets·n]`;
                            in numbers (no wrap between them): `g ≤ newest ≤ g + maxShardSets`.
* `C07_hist_invariant`     `HInv`: every shard set holds < d distinct genuine packets of the registered group of its id, ids
                            distinct, EVERY set alive w.r.t. `newest`, the set of `newest` exists unless none does.  Holds for
                            `Decoder.new`, kept by every genuine packet, hence along every history; `newestShardId` is the
                            pure function `curAfter` of the shard ids received (`nextNewest`: anchored at the first packet,
                            then moved to a packet's id iff that id is ahead in the signed comparison).
* `C07_hist_tracks`        the invariant over the history for one group `G`: after ANY history the decoder holds for `G`
                            exactly `(track … hist).map (G.packet C)`, where the ghost `track` lists the distinct packets of
                            `G` received since its set was last (re)created or emptied (appended when new; emptied at `d`;
                            dropped iff `G` is not alive after a placed packet).  And the next call on packet `j` of `G`
                            returns the absent data packets iff `j` is new and the `d`-th, `[]` otherwise.  No horizon
                            hypothesis: the horizon is inside `track`.
* `C07_hist_any_k`         the explicit form.  `G` not seen in `h0` (nothing held before); then `seg`, in which `G` is
                            WITHIN THE HORIZON (`within`: from its first packet on, after every packet `G` is alive w.r.t.
                            the `newestShardId` the history produces — decidable, `C07_within_iff` spells it over prefixes)
                            and has `d − 1` distinct packets `gIdx`; then a further packet `j`.  Then: the decoder holds
                            exactly those `d − 1` packets (the hypothesis of `C07_dec_any_k`), the call returns exactly the
                            zero-padded bodies of the data packets outside `gIdx ++ [j]` in index order, `trim` gives their
                            payloads, no panic, and every earlier call on a packet of `G` returned `[]`.
                            `C07_hist_any_k_ghost`: the same with the general premise "ghost empty after `h0`" (also true
                            right after a completion of `G`, `C07_ghost_empty_completed`).
* `C07_hist_once`          after the completing call, as long as fewer than `d` packets of `G` (with multiplicity) follow,
                            every call on a packet of `G` returns `[]` — so over the whole history the decoder emits for `G`
                            exactly the data packets that were not among the first `d` distinct ones, each once
                            (`C07_missing_once`).  Automatic when `p < d` and the network does not duplicate.
* `C07_hist_no_forget`     corollary: fresh decoder, a history in which every group that occurs stays within the horizon:
                            no group is ever forgotten — up to its `d`-th distinct packet the output of every call is
                            determined by the distinct packets so far (`[]`, then exactly the absent data); quiet
                            afterwards (under the multiplicity hypothesis); nothing else is ever emitted (`C07_dec_sound`).
* `C07_hist_window`        its hypothesis holds for packets of at most `maxShardSets + 1 = 4` consecutive groups interleaved
                            arbitrarily (not across the 2^32 wrap) …
* `C07_hist_window_wrap`   … and for THREE consecutive groups across the id wrap (`L−2, L−1, 0` or `L−1, 0, 1`); sharp: seen
                            from group 1 the group `L−2` is not alive, for every ratio (ages across the wrap are larger by
                            `2^32 − paws ∈ [1, n]`).
* `C07_hist_forgotten`     sharpness (kernel-checked run): one packet of the group `maxShardSets + 1` ahead makes the decoder
                            forget group 0 — its `d`-th distinct packet recovers nothing; `maxShardSets` ahead it recovers.
* `C07_refill_reemits_*`   OBSERVATION (kernel-checked runs, replayed on the real code, notes/C07.md): the completed shard
                            set is emptied together with its duplicate marks, so `d` further packets of the group — the
                            remaining parity when `p ≥ d` (loss-free 1/1, 2/2 …), or network duplicates — re-fill it and
                            data that was already delivered is emitted again.  Not a violation of C07 (everything emitted
                            is an original data packet of that group; KCP drops the repeat by `sn`), but the reason why
                            `C07_hist_once` needs its multiplicity hypothesis.
`C07_hist_any_k` covers the wrap as it stands, `within` being stated with the signed age.
-/
import KcpVerif.Props.C07Field
import KcpVerif.Lemmas.FecHistMain
import KcpVerif.Lemmas.FecHistWrap

namespace KcpVerif.Props
open KcpVerif.Gen KcpVerif.Fec KcpVerif.AutoTune KcpVerif.Lemmas.FecSpec
open KcpVerif.Lemmas

/-! ## the discard rule and the invariant -/

/-- `discardShards`, exactly. -/
theorem C07_discard_exact :
    (∀ (n : Nat) (nw g : BitVec 32) (sets : List ShardSet),
      lookup g (discard n nw sets) = if FecHist.alive n nw g then lookup g sets else none) ∧
    (∀ (n : Nat) (nw g : BitVec 32), FecHist.alive n nw g = true ↔
      0 ≤ itimediff (nw * u32 n) (g * u32 n) ∧
      itimediff (nw * u32 n) (g * u32 n) ≤ ((maxShardSets * n : Nat) : Int)) ∧
    (∀ (n : Nat) (x y : BitVec 32), n ≤ 256 → x.toNat * n < 2 ^ 32 → y.toNat ≤ x.toNat →
      x.toNat ≤ y.toNat + maxShardSets → FecHist.alive n x y = true) ∧
    (∀ (n : Nat) (x y : BitVec 32), 0 < n → n ≤ 256 → x.toNat * n < 2 ^ 32 →
      y.toNat + maxShardSets < x.toNat → x.toNat * n - y.toNat * n < 2 ^ 31 →
      FecHist.alive n x y = false) := by
  refine ⟨FecHist.lookup_discard, ?_, fun n x y hn hx h1 h2 => FecHist.alive_of_le hn x y hx h1 h2,
    fun n x y hn0 hn hx h1 h2 => FecHist.alive_far hn0 hn x y hx h1 h2⟩
  intro n nw g
  unfold FecHist.alive FecHist.age
  simp only [Bool.and_eq_true, decide_eq_true_eq]

/-- the invariant of whole histories -/
theorem C07_hist_invariant {C : CodecNew} (grp : FecDec.Family) :
    (∀ (d p : Nat) (dec : Decoder), Decoder.new C d p = some dec →
      FecHist.HInv C grp dec ∧ FecHist.horizonOf dec = none) ∧
    (∀ (dec : Decoder) (hist : List Bytes), FecHist.HInv C grp dec →
      (∀ q ∈ hist, FecDec.GenuinePkt C grp dec.d dec.p q) →
      FecHist.HInv C grp (FecDec.feed C dec hist).1 ∧
      FecHist.horizonOf (FecDec.feed C dec hist).1
        = FecHist.curAfter dec.n (FecHist.horizonOf dec) (hist.map (FecHist.sidOf dec.n))) ∧
    (∀ (dec : Decoder), FecHist.HInv C grp dec →
      (∀ s ∈ dec.sets, FecHist.alive dec.n dec.newest s.id = true) ∧
      (dec.sets ≠ [] → ∃ s ∈ dec.sets, s.id = dec.newest) ∧
      (∀ s ∈ dec.sets, FecDec.SetGenuine C grp dec.d dec.p s) ∧
      dec.sets.Pairwise (fun a b => a.id ≠ b.id)) := by
  refine ⟨?_, ?_, fun dec h => ⟨h.alive, h.anchor, h.genuine.genuine, h.genuine.distinct⟩⟩
  · intro d p dec hnew
    obtain ⟨h1, _, _, h4⟩ := FecHist.hinv_new (C := C) grp d p dec hnew
    refine ⟨h1, ?_⟩
    unfold FecHist.horizonOf
    rw [h4]; rfl
  · intro dec hist hI hgen
    rw [← FecHist.run_eq_feed]
    obtain ⟨h1, _, _, _, h5⟩ := FecHist.hinv_run grp hist dec hI hgen
    exact ⟨h1, h5⟩

/-! ## the history invariant for one group -/

/-- the list of returned shards spelled out (the expression used in `C07_dec_any_k`) -/
theorem C07_missing_def (G : Group) (idxs : List Nat) :
    FecHist.missing G idxs
      = (List.range G.d).filterMap
          (fun k => if k ∈ idxs then none else some (pad G.maxLen (G.bodies.getD k []))) ∧
    FecHist.missingPayloads G idxs
      = (List.range G.d).filterMap
          (fun k => if k ∈ idxs then none else some (some (G.payloads.getD k []))) := ⟨rfl, rfl⟩

/-- each data index outside `idxs` contributes exactly one entry, in index order -/
theorem C07_missing_once (G : Group) (idxs : List Nat) :
    FecHist.missing G idxs
      = ((List.range G.d).filter (fun k => decide (k ∉ idxs))).map
          (fun k => pad G.maxLen (G.bodies.getD k [])) := by
  unfold FecHist.missing
  generalize List.range G.d = l
  induction l with
  | nil => rfl
  | cons a l ih =>
    by_cases h : a ∈ idxs
    · simp only [List.filterMap_cons, h, if_true, List.filter_cons, not_true_eq_false, decide_false,
        Bool.false_eq_true, if_false]
      exact ih
    · simp only [List.filterMap_cons, h, if_false, List.filter_cons, not_false_eq_true, decide_true,
        if_true, List.map_cons]
      rw [ih]

/-- **the invariant over whole histories.**  From a state satisfying `HInv` in which the decoder
    holds the packets `got0` of `G` (`[]` for a fresh decoder), after ANY list of genuine packets the
    decoder holds for `G` exactly what the ghost `track` lists, and the next call on a packet of `G`
    returns exactly the absent data packets iff that packet is new and the `d`-th. -/
theorem C07_hist_tracks {C : CodecNew} (hC : Lawful C) (grp : FecDec.Family) {G : Group} (hG : G.WF)
    (hgrp : grp (G.base / u32 G.n) = some G) (dec : Decoder) (hI : FecHist.HInv C grp dec)
    (hd : G.d = dec.d) (hp : G.p = dec.p) (got0 : List Nat) (hgh0 : FecHist.Ghost G got0)
    (hset0 : FecDec.held (G.base / u32 G.n) dec = got0.map (G.packet C))
    (hist : List Bytes) (hgen : ∀ q ∈ hist, FecDec.GenuinePkt C grp G.d G.p q) :
    FecDec.held (G.base / u32 G.n) (FecDec.feed C dec hist).1
      = (FecHist.track G.n G.d (G.base / u32 G.n) (FecHist.horizonOf dec) got0 hist).map (G.packet C) ∧
    FecHist.Ghost G (FecHist.track G.n G.d (G.base / u32 G.n) (FecHist.horizonOf dec) got0 hist) ∧
    ∀ j, j < G.n →
      ((FecDec.feed C dec hist).1.decode C (G.packet C j)).recovered
        = (if j ∉ FecHist.track G.n G.d (G.base / u32 G.n) (FecHist.horizonOf dec) got0 hist ∧
              (FecHist.track G.n G.d (G.base / u32 G.n) (FecHist.horizonOf dec) got0 hist).length + 1 = G.d
           then FecHist.missing G
              (FecHist.track G.n G.d (G.base / u32 G.n) (FecHist.horizonOf dec) got0 hist ++ [j])
           else []) ∧
      ((FecDec.feed C dec hist).1.decode C (G.packet C j)).panic = false := by
  rw [← FecHist.run_eq_feed]
  obtain ⟨_, _, _, _, hT, hgh⟩ := FecHist.run_track grp hG hgrp hist dec got0 hI hd hp hgh0 hset0 hgen
  exact ⟨hT, hgh, fun j hj => FecHist.step_out hC grp hG hgrp dec got0 hI hd hp hgh0 hset0 hist hgen j hj⟩

/-- the explicit horizon condition, over the prefixes of the history: after every prefix that
    contains a packet of the group, the group is alive w.r.t. the `newestShardId` of that prefix -/
theorem C07_within_iff (n : Nat) (g : BitVec 32) (cur : Option (BitVec 32)) (hist : List Bytes) :
    FecHist.within n g cur false hist = true ↔
      ∀ k, k < hist.length → (∃ q ∈ hist.take (k + 1), FecHist.sidOf n q = g) →
        FecHist.alive n (FecHist.newestAfter n cur ((hist.take (k + 1)).map (FecHist.sidOf n))) g
          = true := by
  rw [FecHist.within_iff]
  simp only [Bool.false_eq_true, false_or]

/-- what the ghost is within the horizon: the distinct packets of the group, in order of arrival -/
theorem C07_track_within (n d : Nat) (g : BitVec 32) (cur : Option (BitVec 32)) (hist : List Bytes)
    (hhor : FecHist.within n g cur false hist = true)
    (hlt : (FecHist.gIdx n g [] hist).length < d) :
    FecHist.track n d g cur [] hist = FecHist.gIdx n g [] hist :=
  FecHist.track_within n d g hist cur false [] hhor (fun h => absurd rfl h) hlt

/-- `C07_hist_any_k` with the general premise "the ghost of `G` is empty after `h0`" -/
theorem C07_hist_any_k_ghost {C : CodecNew} (hC : Lawful C) (grp : FecDec.Family) {G : Group}
    (hG : G.WF) (hgrp : grp (G.base / u32 G.n) = some G) (dec : Decoder)
    (hI : FecHist.HInv C grp dec) (hd : G.d = dec.d) (hp : G.p = dec.p)
    (got0 : List Nat) (hgh0 : FecHist.Ghost G got0)
    (hset0 : FecDec.held (G.base / u32 G.n) dec = got0.map (G.packet C))
    (h0 seg : List Bytes) (hgen0 : ∀ q ∈ h0, FecDec.GenuinePkt C grp G.d G.p q)
    (hgen : ∀ q ∈ seg, FecDec.GenuinePkt C grp G.d G.p q)
    (hempty : FecHist.track G.n G.d (G.base / u32 G.n) (FecHist.horizonOf dec) got0 h0 = [])
    (hhor : FecHist.within G.n (G.base / u32 G.n)
      (FecHist.curAfter G.n (FecHist.horizonOf dec) (h0.map (FecHist.sidOf G.n))) false seg = true)
    (hcount : (FecHist.gIdx G.n (G.base / u32 G.n) [] seg).length + 1 = G.d)
    (j : Nat) (hj : j < G.n) (hnot : j ∉ FecHist.gIdx G.n (G.base / u32 G.n) [] seg) :
    FecDec.held (G.base / u32 G.n) (FecDec.feed C dec (h0 ++ seg)).1
      = (FecHist.gIdx G.n (G.base / u32 G.n) [] seg).map (G.packet C) ∧
    ((FecDec.feed C dec (h0 ++ seg)).1.decode C (G.packet C j)).recovered
      = FecHist.missing G (FecHist.gIdx G.n (G.base / u32 G.n) [] seg ++ [j]) ∧
    ((FecDec.feed C dec (h0 ++ seg)).1.decode C (G.packet C j)).recovered.map trim
      = FecHist.missingPayloads G (FecHist.gIdx G.n (G.base / u32 G.n) [] seg ++ [j]) ∧
    ((FecDec.feed C dec (h0 ++ seg)).1.decode C (G.packet C j)).panic = false ∧
    (∀ (s1 s2 : List Bytes) (i : Nat), seg = s1 ++ G.packet C i :: s2 → i < G.n →
      ((FecDec.feed C dec (h0 ++ s1)).1.decode C (G.packet C i)).recovered = []) := by
  have hlt : (FecHist.gIdx G.n (G.base / u32 G.n) [] seg).length < G.d := by omega
  obtain ⟨h1, h2⟩ := FecHist.hist_any_k hC grp hG hgrp dec hI hd hp got0 hgh0 hset0 h0 seg hgen0 hgen
    hempty hhor hlt
  obtain ⟨h3, h4⟩ := h2 j hj
  rw [if_pos ⟨hnot, hcount⟩] at h3
  simp only [← FecHist.run_eq_feed]
  refine ⟨h1, h3, ?_, h4, ?_⟩
  · rw [h3]; exact FecHist.missing_trim hG _
  · intro s1 s2 i hseg hi
    subst hseg
    exact FecHist.hist_before_k hC grp hG hgrp dec hI hd hp got0 hgh0 hset0 h0 s1 s2 i hi hgen0 hgen
      hempty hhor hlt

/-- **history-level `dec_any_k`.**  The decoder (fresh, or any state satisfying `HInv`) holds
    nothing for `G`; `h0` contains no packet of `G`; in `seg` the group is within the horizon from its
    first packet on and has `d − 1` distinct packets; then packet `j`, a further one, arrives.  The
    decoder then holds exactly those `d − 1` packets — the hypothesis of `C07_dec_any_k` — and the call
    returns exactly the zero-padded bodies of the absent data packets in index order, `trim` gives
    their payloads; every earlier call on a packet of `G` returned nothing. -/
theorem C07_hist_any_k {C : CodecNew} (hC : Lawful C) (grp : FecDec.Family) {G : Group}
    (hG : G.WF) (hgrp : grp (G.base / u32 G.n) = some G) (dec : Decoder)
    (hI : FecHist.HInv C grp dec) (hd : G.d = dec.d) (hp : G.p = dec.p)
    (hheld : FecDec.held (G.base / u32 G.n) dec = [])
    (h0 seg : List Bytes) (hgen0 : ∀ q ∈ h0, FecDec.GenuinePkt C grp G.d G.p q)
    (hgen : ∀ q ∈ seg, FecDec.GenuinePkt C grp G.d G.p q)
    (hpre : ∀ q ∈ h0, FecHist.sidOf G.n q ≠ G.base / u32 G.n)
    (hhor : FecHist.within G.n (G.base / u32 G.n)
      (FecHist.curAfter G.n (FecHist.horizonOf dec) (h0.map (FecHist.sidOf G.n))) false seg = true)
    (hcount : (FecHist.gIdx G.n (G.base / u32 G.n) [] seg).length + 1 = G.d)
    (j : Nat) (hj : j < G.n) (hnot : j ∉ FecHist.gIdx G.n (G.base / u32 G.n) [] seg) :
    FecDec.held (G.base / u32 G.n) (FecDec.feed C dec (h0 ++ seg)).1
      = (FecHist.gIdx G.n (G.base / u32 G.n) [] seg).map (G.packet C) ∧
    ((FecDec.feed C dec (h0 ++ seg)).1.decode C (G.packet C j)).recovered
      = FecHist.missing G (FecHist.gIdx G.n (G.base / u32 G.n) [] seg ++ [j]) ∧
    ((FecDec.feed C dec (h0 ++ seg)).1.decode C (G.packet C j)).recovered.map trim
      = FecHist.missingPayloads G (FecHist.gIdx G.n (G.base / u32 G.n) [] seg ++ [j]) ∧
    ((FecDec.feed C dec (h0 ++ seg)).1.decode C (G.packet C j)).panic = false ∧
    (∀ (s1 s2 : List Bytes) (i : Nat), seg = s1 ++ G.packet C i :: s2 → i < G.n →
      ((FecDec.feed C dec (h0 ++ s1)).1.decode C (G.packet C i)).recovered = []) :=
  C07_hist_any_k_ghost hC grp hG hgrp dec hI hd hp [] (FecHist.Ghost.nil hG) hheld h0 seg hgen0 hgen
    (FecHist.ghost_empty_absent _ _ _ _ h0 hpre) hhor hcount j hj hnot

/-- the ghost of `G` is empty right after a call that completed `G` (second way the premise of
    `C07_hist_any_k_ghost` arises: the group starts over) -/
theorem C07_ghost_empty_completed {C : CodecNew} {G : Group} (hG : G.WF)
    (cur : Option (BitVec 32)) (got0 : List Nat) (h0 : List Bytes) (j : Nat) (hj : j < G.n)
    (hnot : j ∉ FecHist.track G.n G.d (G.base / u32 G.n) cur got0 h0)
    (hfull : (FecHist.track G.n G.d (G.base / u32 G.n) cur got0 h0).length + 1 ≥ G.d) :
    FecHist.track G.n G.d (G.base / u32 G.n) cur got0 (h0 ++ [G.packet C j]) = [] :=
  FecHist.ghost_empty_completed hG cur got0 h0 j hj hnot hfull

/-- **exactly once, over the whole history.**  Under the hypotheses of `C07_hist_any_k`, let `rest`
    follow the completing packet `j`, with fewer than `d` packets of `G` in it (with multiplicity;
    anything of other groups, horizon or not).  Then every call on a packet of `G` in `rest` returns
    nothing.  Together with `C07_hist_any_k`: over `h0 ++ seg ++ [packet j] ++ rest` the decoder emits
    for `G` exactly `missing G (gIdx ++ [j])` — each data packet that was not among the first `d`
    distinct ones once (`C07_missing_once`), the others never. -/
theorem C07_hist_once {C : CodecNew} (hC : Lawful C) (grp : FecDec.Family) {G : Group}
    (hG : G.WF) (hgrp : grp (G.base / u32 G.n) = some G) (dec : Decoder)
    (hI : FecHist.HInv C grp dec) (hd : G.d = dec.d) (hp : G.p = dec.p)
    (hheld : FecDec.held (G.base / u32 G.n) dec = [])
    (h0 seg : List Bytes) (hgen0 : ∀ q ∈ h0, FecDec.GenuinePkt C grp G.d G.p q)
    (hgen : ∀ q ∈ seg, FecDec.GenuinePkt C grp G.d G.p q)
    (hpre : ∀ q ∈ h0, FecHist.sidOf G.n q ≠ G.base / u32 G.n)
    (hhor : FecHist.within G.n (G.base / u32 G.n)
      (FecHist.curAfter G.n (FecHist.horizonOf dec) (h0.map (FecHist.sidOf G.n))) false seg = true)
    (hcount : (FecHist.gIdx G.n (G.base / u32 G.n) [] seg).length + 1 = G.d)
    (j : Nat) (hj : j < G.n) (hnot : j ∉ FecHist.gIdx G.n (G.base / u32 G.n) [] seg)
    (rest : List Bytes) (hgenr : ∀ q ∈ rest, FecDec.GenuinePkt C grp G.d G.p q)
    (hfew : (rest.filter (fun q => FecHist.sidOf G.n q == G.base / u32 G.n)).length < G.d) :
    ∀ (r1 r2 : List Bytes) (i : Nat), rest = r1 ++ G.packet C i :: r2 → i < G.n →
      ((FecDec.feed C dec (h0 ++ seg ++ [G.packet C j] ++ r1)).1.decode C (G.packet C i)).recovered
        = [] := by
  intro r1 r2 i hrest hi
  subst hrest
  have hlt : (FecHist.gIdx G.n (G.base / u32 G.n) [] seg).length < G.d := by omega
  have htr : FecHist.track G.n G.d (G.base / u32 G.n) (FecHist.horizonOf dec) [] (h0 ++ seg)
      = FecHist.gIdx G.n (G.base / u32 G.n) [] seg := by
    rw [FecHist.track_append, FecHist.ghost_empty_absent _ _ _ _ h0 hpre]
    exact C07_track_within _ _ _ _ seg hhor hlt
  have hempty : FecHist.track G.n G.d (G.base / u32 G.n) (FecHist.horizonOf dec) []
      (h0 ++ seg ++ [G.packet C j]) = [] := by
    apply FecHist.ghost_empty_completed hG _ _ _ j hj
    · rw [htr]; exact hnot
    · rw [htr]; omega
  have hgenj : FecDec.GenuinePkt C grp G.d G.p (G.packet C j) := ⟨G, j, hgrp, hG, rfl, rfl, hj, rfl⟩
  rw [← FecHist.run_eq_feed]
  exact FecHist.hist_after_k hC grp hG hgrp dec hI hd hp [] (FecHist.Ghost.nil hG) hheld
    (h0 ++ seg ++ [G.packet C j]) r1 r2 i hi
    (by
      intro q hq
      rcases List.mem_append.1 hq with h | h
      · rcases List.mem_append.1 h with h | h
        · exact hgen0 q h
        · exact hgen q h
      · rw [List.mem_singleton] at h; exact h ▸ hgenj)
    hgenr hempty hfew

/-! ## the common case: a few consecutive groups, interleaved arbitrarily -/

/-- a successful `Decoder.new` has an accepted ratio -/
theorem C07_new_range {C : CodecNew} {d p : Nat} {dec : Decoder} (h : Decoder.new C d p = some dec) :
    0 < d + p ∧ d + p ≤ 256 := by
  unfold Decoder.new at h
  split at h
  · cases h
  · rename_i hr
    omega

/-- **no group is forgotten while every group stays within the horizon.**  A fresh decoder is fed a
    history of genuine packets in which every group that occurs is within the horizon throughout
    (`within … hist` for the shard id of every packet — decidable; `C07_hist_window` and
    `C07_hist_window_wrap` give the two standard sufficient conditions).  Then:
    (1) for every position of the history holding a packet `j` of a group `G` that has had fewer than
        `d` distinct packets before it (`gIdx`), the decoder holds exactly those distinct packets and
        the call returns `[]`, or — when `j` is new and the `d`-th — exactly the zero-padded bodies of
        the absent data packets (`trim`: their payloads): every group that gets any `d` of its `n`
        packets has, at that moment, each of its data packets delivered exactly once, directly or
        recovered;
    (2) after that call, as long as fewer than `d` packets of `G` follow, every call on a packet of
        `G` returns `[]`;
    (3) nothing else is ever emitted (`C07_dec_sound`). -/
theorem C07_hist_no_forget {C : CodecNew} (hC : Lawful C) (grp : FecDec.Family) (d p : Nat)
    (dec : Decoder) (hnew : Decoder.new C d p = some dec) (hist : List Bytes)
    (hgen : ∀ q ∈ hist, FecDec.GenuinePkt C grp d p q)
    (hW : ∀ q ∈ hist, FecHist.within (d + p) (FecHist.sidOf (d + p) q) none false hist = true) :
    (∀ (G : Group) (a rest : List Bytes) (j : Nat), grp (G.base / u32 G.n) = some G → G.WF →
      G.d = d → G.p = p → j < G.n → hist = a ++ G.packet C j :: rest →
      (FecHist.gIdx G.n (G.base / u32 G.n) [] a).length < G.d →
      FecDec.held (G.base / u32 G.n) (FecDec.feed C dec a).1
        = (FecHist.gIdx G.n (G.base / u32 G.n) [] a).map (G.packet C) ∧
      ((FecDec.feed C dec a).1.decode C (G.packet C j)).recovered
        = (if j ∉ FecHist.gIdx G.n (G.base / u32 G.n) [] a ∧
              (FecHist.gIdx G.n (G.base / u32 G.n) [] a).length + 1 = G.d
           then FecHist.missing G (FecHist.gIdx G.n (G.base / u32 G.n) [] a ++ [j]) else []) ∧
      ((FecDec.feed C dec a).1.decode C (G.packet C j)).recovered.map trim
        = (if j ∉ FecHist.gIdx G.n (G.base / u32 G.n) [] a ∧
              (FecHist.gIdx G.n (G.base / u32 G.n) [] a).length + 1 = G.d
           then FecHist.missingPayloads G (FecHist.gIdx G.n (G.base / u32 G.n) [] a ++ [j]) else [])) ∧
    (∀ (G : Group) (a r1 r2 : List Bytes) (j i : Nat), grp (G.base / u32 G.n) = some G → G.WF →
      G.d = d → G.p = p → j < G.n → i < G.n →
      hist = a ++ G.packet C j :: (r1 ++ G.packet C i :: r2) →
      (FecHist.gIdx G.n (G.base / u32 G.n) [] a).length + 1 = G.d →
      j ∉ FecHist.gIdx G.n (G.base / u32 G.n) [] a →
      ((r1 ++ G.packet C i :: r2).filter
        (fun q => FecHist.sidOf G.n q == G.base / u32 G.n)).length < G.d →
      ((FecDec.feed C dec (a ++ G.packet C j :: r1)).1.decode C (G.packet C i)).recovered = []) ∧
    (∀ r ∈ (FecDec.feed C dec hist).2,
      ∃ G : Group, grp (G.base / u32 G.n) = some G ∧ G.WF ∧ G.d = d ∧ G.p = p ∧
        (∃ j, j < G.n ∧ G.packet C j ∈ hist) ∧
        ∃ k, k < G.d ∧ r = pad G.maxLen (G.bodies.getD k []) ∧ trim r = some (G.payloads.getD k [])) := by
  obtain ⟨hI, hdd, hdp, hsets⟩ := FecHist.hinv_new (C := C) grp d p dec hnew
  have hhz : FecHist.horizonOf dec = none := by unfold FecHist.horizonOf; rw [hsets]; rfl
  have hheld : ∀ g, FecDec.held g dec = [] := by
    intro g; simp [FecDec.held, hsets, lookup]
  -- facts shared by (1) and (2): the group is in the window, prefixes are within the horizon
  have key : ∀ (G : Group) (a rest : List Bytes) (j : Nat), G.WF → G.d = d → G.p = p → j < G.n →
      hist = a ++ G.packet C j :: rest →
      G.n = d + p ∧ FecHist.within G.n (G.base / u32 G.n) none false a = true ∧
      (∀ q ∈ a, FecDec.GenuinePkt C grp G.d G.p q) := by
    intro G a rest j hG hGd hGp hj hsplit
    have hn : G.n = d + p := by unfold Group.n; rw [hGd, hGp]
    have hjin : G.packet C j ∈ hist := by rw [hsplit]; simp
    refine ⟨hn, ?_, ?_⟩
    · have := hW _ hjin
      rw [← hn, FecHist.sidOf_packet hG j hj, hsplit] at this
      exact FecHist.within_append _ _ _ _ _ _ this
    · intro q hq
      rw [hGd, hGp]
      exact hgen q (by rw [hsplit]; exact List.mem_append_left _ hq)
  refine ⟨?_, ?_, ?_⟩
  · intro G a rest j hgrp hG hGd hGp hj hsplit hlt
    obtain ⟨_, hwi, hgena⟩ := key G a rest j hG hGd hGp hj hsplit
    obtain ⟨h1, h2⟩ := FecHist.hist_any_k hC grp hG hgrp dec hI (hGd.trans hdd.symm) (hGp.trans hdp.symm)
      [] (FecHist.Ghost.nil hG) (hheld _) [] a (fun q hq => by cases hq) hgena rfl
      (by rw [hhz]; exact hwi) hlt
    simp only [List.nil_append, FecHist.run_eq_feed] at h1 h2
    refine ⟨h1, (h2 j hj).1, ?_⟩
    rw [(h2 j hj).1]
    split
    · exact FecHist.missing_trim hG _
    · rfl
  · intro G a r1 r2 j i hgrp hG hGd hGp hj hi hsplit hcount hnot hfew
    obtain ⟨_, hwi, hgena⟩ := key G a _ j hG hGd hGp hj hsplit
    have hgenr : ∀ q ∈ r1 ++ G.packet C i :: r2, FecDec.GenuinePkt C grp G.d G.p q := by
      intro q hq
      rw [hGd, hGp]
      exact hgen q (by rw [hsplit]; exact List.mem_append_right _ (List.mem_cons_of_mem _ hq))
    have := C07_hist_once hC grp hG hgrp dec hI (hGd.trans hdd.symm) (hGp.trans hdp.symm) (hheld _)
      [] a (fun q hq => by cases hq) hgena (fun q hq => by cases hq) (by rw [hhz]; exact hwi) hcount
      j hj hnot (r1 ++ G.packet C i :: r2) hgenr hfew r1 r2 i rfl hi
    simpa only [List.nil_append, List.append_assoc, List.singleton_append] using this
  · exact C07_dec_sound hC grp d p dec hnew hist hgen

/-- **packets of at most `maxShardSets + 1 = 4` consecutive groups, interleaved arbitrarily**, into a
    fresh decoder: all shard ids of the history lie in `b … b + maxShardSets` (not across the 2^32
    wrap).  Then every group of the history is within the horizon throughout — the hypothesis of
    `C07_hist_no_forget`, whose three conclusions follow: no group is ever forgotten. -/
theorem C07_hist_window {C : CodecNew} (d p : Nat)
    (dec : Decoder) (hnew : Decoder.new C d p = some dec) (hist : List Bytes) (b : Nat)
    (hb : (b + maxShardSets) * (d + p) < 2 ^ 32)
    (hwin : ∀ q ∈ hist, FecHist.InWin b (FecHist.sidOf (d + p) q)) :
    ∀ q ∈ hist, FecHist.within (d + p) (FecHist.sidOf (d + p) q) none false hist = true :=
  fun q hq => FecHist.window_within (C07_new_range hnew).1 (C07_new_range hnew).2 b hb _ (hwin q hq)
    hist hwin

/-- **across the id wrap the guaranteed window is THREE consecutive groups** (`L = paws / n` ids;
    the groups `L−2, L−1, 0, 1` sit at positions 0 … 3 and the history uses positions
    `s0 … s0 + 2`): seen across the wrap every age is larger by `2^32 − paws ∈ [1, n]`.  Sharp: seen
    from group 1 the group `L−2` (three behind) is NOT alive, for every ratio. -/
theorem C07_hist_window_wrap {C : CodecNew} (d p : Nat)
    (dec : Decoder) (hnew : Decoder.new C d p = some dec) (hist : List Bytes) (s0 : Nat)
    (hwin : ∀ q ∈ hist, FecHist.InWrap (d + p) s0 (FecHist.sidOf (d + p) q)) :
    (∀ q ∈ hist, FecHist.within (d + p) (FecHist.sidOf (d + p) q) none false hist = true) ∧
    (∀ x y : BitVec 32, x.toNat = 1 → y.toNat + 2 = FecHist.idCount (d + p) →
      FecHist.alive (d + p) x y = false) :=
  ⟨fun q hq => FecHist.within_wrap (C07_new_range hnew).1 (C07_new_range hnew).2 s0 _ (hwin q hq)
    hist hwin,
   fun x y hx hy => FecHist.wrap_sharp (C07_new_range hnew).1 (C07_new_range hnew).2 x y hx hy⟩

/-! ## the executable code: no hypothesis about the codec -/

/-- `C07_hist_any_k` for the executable GF(2^8) code -/
theorem C07_hist_any_k_rsNew (grp : FecDec.Family) {G : Group}
    (hG : G.WF) (hgrp : grp (G.base / u32 G.n) = some G) (dec : Decoder)
    (hI : FecHist.HInv rsNew grp dec) (hd : G.d = dec.d) (hp : G.p = dec.p)
    (hheld : FecDec.held (G.base / u32 G.n) dec = [])
    (h0 seg : List Bytes) (hgen0 : ∀ q ∈ h0, FecDec.GenuinePkt rsNew grp G.d G.p q)
    (hgen : ∀ q ∈ seg, FecDec.GenuinePkt rsNew grp G.d G.p q)
    (hpre : ∀ q ∈ h0, FecHist.sidOf G.n q ≠ G.base / u32 G.n)
    (hhor : FecHist.within G.n (G.base / u32 G.n)
      (FecHist.curAfter G.n (FecHist.horizonOf dec) (h0.map (FecHist.sidOf G.n))) false seg = true)
    (hcount : (FecHist.gIdx G.n (G.base / u32 G.n) [] seg).length + 1 = G.d)
    (j : Nat) (hj : j < G.n) (hnot : j ∉ FecHist.gIdx G.n (G.base / u32 G.n) [] seg) :
    FecDec.held (G.base / u32 G.n) (FecDec.feed rsNew dec (h0 ++ seg)).1
      = (FecHist.gIdx G.n (G.base / u32 G.n) [] seg).map (G.packet rsNew) ∧
    ((FecDec.feed rsNew dec (h0 ++ seg)).1.decode rsNew (G.packet rsNew j)).recovered
      = FecHist.missing G (FecHist.gIdx G.n (G.base / u32 G.n) [] seg ++ [j]) ∧
    ((FecDec.feed rsNew dec (h0 ++ seg)).1.decode rsNew (G.packet rsNew j)).recovered.map trim
      = FecHist.missingPayloads G (FecHist.gIdx G.n (G.base / u32 G.n) [] seg ++ [j]) ∧
    ((FecDec.feed rsNew dec (h0 ++ seg)).1.decode rsNew (G.packet rsNew j)).panic = false ∧
    (∀ (s1 s2 : List Bytes) (i : Nat), seg = s1 ++ G.packet rsNew i :: s2 → i < G.n →
      ((FecDec.feed rsNew dec (h0 ++ s1)).1.decode rsNew (G.packet rsNew i)).recovered = []) :=
  C07_hist_any_k C07_rsNew_lawful grp hG hgrp dec hI hd hp hheld h0 seg hgen0 hgen hpre hhor hcount
    j hj hnot

/-- `C07_hist_once` for the executable code -/
theorem C07_hist_once_rsNew (grp : FecDec.Family) {G : Group}
    (hG : G.WF) (hgrp : grp (G.base / u32 G.n) = some G) (dec : Decoder)
    (hI : FecHist.HInv rsNew grp dec) (hd : G.d = dec.d) (hp : G.p = dec.p)
    (hheld : FecDec.held (G.base / u32 G.n) dec = [])
    (h0 seg : List Bytes) (hgen0 : ∀ q ∈ h0, FecDec.GenuinePkt rsNew grp G.d G.p q)
    (hgen : ∀ q ∈ seg, FecDec.GenuinePkt rsNew grp G.d G.p q)
    (hpre : ∀ q ∈ h0, FecHist.sidOf G.n q ≠ G.base / u32 G.n)
    (hhor : FecHist.within G.n (G.base / u32 G.n)
      (FecHist.curAfter G.n (FecHist.horizonOf dec) (h0.map (FecHist.sidOf G.n))) false seg = true)
    (hcount : (FecHist.gIdx G.n (G.base / u32 G.n) [] seg).length + 1 = G.d)
    (j : Nat) (hj : j < G.n) (hnot : j ∉ FecHist.gIdx G.n (G.base / u32 G.n) [] seg)
    (rest : List Bytes) (hgenr : ∀ q ∈ rest, FecDec.GenuinePkt rsNew grp G.d G.p q)
    (hfew : (rest.filter (fun q => FecHist.sidOf G.n q == G.base / u32 G.n)).length < G.d) :
    ∀ (r1 r2 : List Bytes) (i : Nat), rest = r1 ++ G.packet rsNew i :: r2 → i < G.n →
      ((FecDec.feed rsNew dec (h0 ++ seg ++ [G.packet rsNew j] ++ r1)).1.decode rsNew
        (G.packet rsNew i)).recovered = [] :=
  C07_hist_once C07_rsNew_lawful grp hG hgrp dec hI hd hp hheld h0 seg hgen0 hgen hpre hhor hcount
    j hj hnot rest hgenr hfew

/-- `C07_hist_no_forget` for the executable code, parts (1) and (3) at the completing packet: while
    every group stays within the horizon (e.g. `C07_hist_window`, `C07_hist_window_wrap`), the call
    that brings the `d`-th distinct packet of a group returns exactly the payloads of the absent
    data packets, and everything ever returned is an original data packet -/
theorem C07_hist_no_forget_rsNew (grp : FecDec.Family) (d p : Nat)
    (dec : Decoder) (hnew : Decoder.new rsNew d p = some dec) (hist : List Bytes)
    (hgen : ∀ q ∈ hist, FecDec.GenuinePkt rsNew grp d p q)
    (hW : ∀ q ∈ hist, FecHist.within (d + p) (FecHist.sidOf (d + p) q) none false hist = true) :
    (∀ (G : Group) (a rest : List Bytes) (j : Nat), grp (G.base / u32 G.n) = some G → G.WF →
      G.d = d → G.p = p → j < G.n → hist = a ++ G.packet rsNew j :: rest →
      (FecHist.gIdx G.n (G.base / u32 G.n) [] a).length + 1 = G.d →
      j ∉ FecHist.gIdx G.n (G.base / u32 G.n) [] a →
      ((FecDec.feed rsNew dec a).1.decode rsNew (G.packet rsNew j)).recovered.map trim
        = FecHist.missingPayloads G (FecHist.gIdx G.n (G.base / u32 G.n) [] a ++ [j])) ∧
    (∀ r ∈ (FecDec.feed rsNew dec hist).2,
      ∃ G : Group, grp (G.base / u32 G.n) = some G ∧ G.WF ∧ G.d = d ∧ G.p = p ∧
        (∃ j, j < G.n ∧ G.packet rsNew j ∈ hist) ∧
        ∃ k, k < G.d ∧ r = pad G.maxLen (G.bodies.getD k []) ∧ trim r = some (G.payloads.getD k [])) := by
  obtain ⟨h1, _, h3⟩ := C07_hist_no_forget C07_rsNew_lawful grp d p dec hnew hist hgen hW
  refine ⟨?_, h3⟩
  intro G a rest j hgrp hG hGd hGp hj hsplit hcount hnot
  have := (h1 G a rest j hgrp hG hGd hGp hj hsplit (by omega)).2.2
  rw [if_pos ⟨hnot, hcount⟩] at this
  exact this

/-! ## sharpness and observations: kernel-checked runs of the executable model -/

open FecHist.Example

theorem C07_hist_forgotten :
    Decoder.new rsNew 2 1 = some (fresh rsNew 2 1) ∧
    -- one packet of group 4 = `maxShardSets + 1` groups ahead: group 0 is out of the horizon …
    FecHist.within 3 0 none false [a0.packet rsNew 0, a4.packet rsNew 0] = false ∧
    -- … and forgotten: its 2nd distinct packet recovers nothing, nor does any later one
    (FecDec.feed rsNew (fresh rsNew 2 1) [a0.packet rsNew 0, a4.packet rsNew 0, a0.packet rsNew 2]).2 = [] ∧
    (FecDec.feed rsNew (fresh rsNew 2 1)
      [a0.packet rsNew 0, a4.packet rsNew 0, a0.packet rsNew 2, a0.packet rsNew 0, a0.packet rsNew 2]).2 = [] ∧
    -- a packet of group 3 = `maxShardSets` groups ahead instead: within the horizon, data 1 recovered
    FecHist.within 3 0 none false [a0.packet rsNew 0, a3.packet rsNew 0] = true ∧
    ((FecDec.feed rsNew (fresh rsNew 2 1)
      [a0.packet rsNew 0, a3.packet rsNew 0, a0.packet rsNew 2]).2).map trim = [some [4]] := by
  refine ⟨rfl, ?_, ?_, ?_, ?_, ?_⟩ <;> decide +kernel

theorem C07_refill_reemits_no_loss :
    Decoder.new rsNew 1 1 = some (fresh rsNew 1 1) ∧ Decoder.new rsNew 2 2 = some (fresh rsNew 2 2) ∧
    (FecDec.feed rsNew (fresh rsNew 1 1) [b0.packet rsNew 0]).2 = [] ∧
    ((FecDec.feed rsNew (fresh rsNew 1 1) [b0.packet rsNew 0, b0.packet rsNew 1]).2).map trim
      = [some [5, 6]] ∧
    (FecDec.feed rsNew (fresh rsNew 2 2) [c0.packet rsNew 0, c0.packet rsNew 1, c0.packet rsNew 2]).2 = [] ∧
    ((FecDec.feed rsNew (fresh rsNew 2 2)
      [c0.packet rsNew 0, c0.packet rsNew 1, c0.packet rsNew 2, c0.packet rsNew 3]).2).map trim
      = [some [1], some [2, 3]] := by
  refine ⟨rfl, rfl, ?_, ?_, ?_, ?_⟩ <;> decide +kernel

theorem C07_refill_reemits_duplicate :
    (FecDec.feed rsNew (fresh rsNew 2 1) [a0.packet rsNew 0, a0.packet rsNew 1, a0.packet rsNew 0]).2 = [] ∧
    ((FecDec.feed rsNew (fresh rsNew 2 1)
      [a0.packet rsNew 0, a0.packet rsNew 1, a0.packet rsNew 0, a0.packet rsNew 2]).2).map trim
      = [some [4]] := by
  refine ⟨?_, ?_⟩ <;> decide +kernel

theorem C07_refill_reemits_twice :
    ((FecDec.feed rsNew (fresh rsNew 2 2) [c0.packet rsNew 1, c0.packet rsNew 2]).2).map trim
      = [some [1]] ∧
    ((FecDec.feed rsNew (fresh rsNew 2 2)
      [c0.packet rsNew 1, c0.packet rsNew 2, c0.packet rsNew 3, c0.packet rsNew 1]).2).map trim
      = [some [1], some [1]] := by
  refine ⟨?_, ?_⟩ <;> decide +kernel

/-! ## non-vacuity -/


-- `C07_hist_any_k`: the decoder is first anchored at group 3; group 0 — `maxShardSets` behind — then
-- arrives late, interleaved with group 3 and with a duplicate; its 2nd distinct packet recovers data 1
example :
    ((FecDec.feed rsNew (fresh rsNew 2 1)
        ([a3.packet rsNew 1] ++ [a0.packet rsNew 2, a3.packet rsNew 0, a0.packet rsNew 2])).1.decode rsNew
      (a0.packet rsNew 0)).recovered.map trim = [some [4]] := by
  have hI := ((C07_hist_invariant (C := rsNew) fam).1 2 1 (fresh rsNew 2 1) rfl).1
  have h := (C07_hist_any_k_rsNew fam a0_wf fam0 (fresh rsNew 2 1) hI rfl rfl rfl
    [a3.packet rsNew 1] [a0.packet rsNew 2, a3.packet rsNew 0, a0.packet rsNew 2]
    (by
      intro q hq
      simp only [List.mem_cons, List.mem_nil_iff, or_false] at hq
      subst hq; exact gen3 1 (by decide))
    (by
      intro q hq
      simp only [List.mem_cons, List.mem_nil_iff, or_false] at hq
      rcases hq with rfl | rfl | rfl
      · exact gen0 2 (by decide)
      · exact gen3 0 (by decide)
      · exact gen0 2 (by decide))
    (by
      intro q hq
      simp only [List.mem_cons, List.mem_nil_iff, or_false] at hq
      subst hq; decide +kernel)
    (by decide +kernel) (by decide +kernel) 0 (by decide) (by decide +kernel)).2.2.1
  rw [h]; decide +kernel

-- `C07_hist_once`: parity 2 and data 0 recover data 1; group 3 interleaves; then data 1 arrives late
-- (one packet of the group < d = 2): its call returns nothing
example :
    ((FecDec.feed rsNew (fresh rsNew 2 1)
        ([] ++ [a0.packet rsNew 2] ++ [a0.packet rsNew 0] ++ [a3.packet rsNew 0])).1.decode rsNew
      (a0.packet rsNew 1)).recovered = [] := by
  have hI := ((C07_hist_invariant (C := rsNew) fam).1 2 1 (fresh rsNew 2 1) rfl).1
  exact C07_hist_once_rsNew fam a0_wf fam0 (fresh rsNew 2 1) hI rfl rfl rfl [] [a0.packet rsNew 2]
    (fun q hq => by cases hq)
    (by
      intro q hq
      simp only [List.mem_cons, List.mem_nil_iff, or_false] at hq
      subst hq; exact gen0 2 (by decide))
    (fun q hq => by cases hq) (by decide +kernel) (by decide +kernel) 0 (by decide)
    (by decide +kernel) [a3.packet rsNew 0, a0.packet rsNew 1]
    (by
      intro q hq
      simp only [List.mem_cons, List.mem_nil_iff, or_false] at hq
      rcases hq with rfl | rfl
      · exact gen3 0 (by decide)
      · exact gen0 1 (by decide))
    (by decide +kernel) [a3.packet rsNew 0] [] 1 rfl (by decide)

-- `C07_hist_window`: groups 0 and 3 (a window of 4) interleaved, with a duplicate
example :
    ((FecDec.feed rsNew (fresh rsNew 2 1)
        [a0.packet rsNew 2, a3.packet rsNew 0, a0.packet rsNew 2]).1.decode rsNew
      (a0.packet rsNew 0)).recovered.map trim = [some [4]] := by
  have hW := C07_hist_window (C := rsNew) 2 1 (fresh rsNew 2 1) rfl
    [a0.packet rsNew 2, a3.packet rsNew 0, a0.packet rsNew 2, a0.packet rsNew 0]
    0 (by decide)
    (by
      intro q hq
      simp only [List.mem_cons, List.mem_nil_iff, or_false] at hq
      unfold FecHist.InWin
      rcases hq with rfl | rfl | rfl | rfl <;> decide +kernel)
  have h := (C07_hist_no_forget_rsNew fam 2 1 (fresh rsNew 2 1) rfl
    [a0.packet rsNew 2, a3.packet rsNew 0, a0.packet rsNew 2, a0.packet rsNew 0]
    (by
      intro q hq
      simp only [List.mem_cons, List.mem_nil_iff, or_false] at hq
      rcases hq with rfl | rfl | rfl | rfl
      · exact gen0 2 (by decide)
      · exact gen3 0 (by decide)
      · exact gen0 2 (by decide)
      · exact gen0 0 (by decide))
    hW).1 a0
    [a0.packet rsNew 2, a3.packet rsNew 0, a0.packet rsNew 2] [] 0 fam0 a0_wf rfl rfl (by decide) rfl
    (by decide +kernel) (by decide +kernel)
  rw [h]; decide +kernel

-- `C07_hist_window_wrap`: the last group before the wrap (`z`, id `L − 1`) and group 0, interleaved:
-- `newestShardId` steps across the wrap to 0 and `z` is still recovered
example :
    ((FecDec.feed rsNew (fresh rsNew 2 1) [z.packet rsNew 0, a0.packet rsNew 0]).1.decode rsNew
      (z.packet rsNew 2)).recovered.map trim = [some [2, 3]] := by
  have hgen : ∀ q ∈ [z.packet rsNew 0, a0.packet rsNew 0, z.packet rsNew 2],
      FecDec.GenuinePkt rsNew famW 2 1 q := by
    intro q hq
    simp only [List.mem_cons, List.mem_nil_iff, or_false] at hq
    rcases hq with rfl | rfl | rfl
    · exact genz 0 (by decide)
    · exact genW0 0 (by decide)
    · exact genz 2 (by decide)
  have hW := (C07_hist_window_wrap (C := rsNew) 2 1 (fresh rsNew 2 1) rfl
    [z.packet rsNew 0, a0.packet rsNew 0, z.packet rsNew 2] 1
    (by
      intro q hq
      simp only [List.mem_cons, List.mem_nil_iff, or_false] at hq
      unfold FecHist.InWrap FecHist.In4
      rcases hq with rfl | rfl | rfl <;> decide +kernel)).1
  have h := (C07_hist_no_forget_rsNew famW 2 1 (fresh rsNew 2 1) rfl
    [z.packet rsNew 0, a0.packet rsNew 0, z.packet rsNew 2] hgen hW).1 z
    [z.packet rsNew 0, a0.packet rsNew 0] [] 2 famWz z_wf rfl rfl (by decide) rfl
    (by decide +kernel) (by decide +kernel)
  rw [h]; decide +kernel

end KcpVerif.Props
