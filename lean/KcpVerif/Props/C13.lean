import KcpVerif.Lemmas.Wait
/-!
# C13 — blocked Read / Write / Accept always wake: data, deadline, close, error

Theorems about the LTS `Model/Wait` (the blocking loops of sess.go transcribed control point by
control point, tied to the code by trace acceptance `wait` and by the regenerated facts
`Gen.wait…`).  "Wakes" is stated as *enabledness under maximal progress*: in a state where the
awaited condition holds for a blocked caller some thread step is enabled, hence virtual time
(`tick`, which needs a quiescent state) cannot advance while somebody sleeps on a condition that
holds.  "Exactly at the deadline" is: never a timeout before the loaded deadline, and time cannot
pass the deadline in force while the caller is blocked.

Defects (DESIGN section 6): D7, D7b (found by this check), D5 are repaired in the repository
(`fix:` commits); for each the failing run of the *original* loops is proved here on the model
and the theorem that failed is proved for the repaired loops.  D8 (Accept loads its deadline
once; a deadline change wakes one of several waiters) is a recorded finding: counterexamples
proved, theorem stated for the single-caller case.
-/
namespace KcpVerif.Props
open KcpVerif KcpVerif.Wait

/-! ## the variant of the loops in the checked tree -/

/-- the tree being checked has the three repairs (re-point, re-arm, chain wake).  If one of them
is reverted the extractor regenerates `Gen.wait…`, this theorem fails and with it the check. -/
theorem C13_source_is_repaired (async : Bool) : cfgOfSource async = cfgFixed async := by
  cases async <;> decide

/-! ## defects of the original loops, proved on the model by evaluation -/

/-- thread `i` is blocked in its `select`, nothing can move, and the deadline `d` stored in the cell has passed -/
def stuckPast (cfg : Cfg) (s : State) (i : Nat) (cell : Option Time) : Bool :=
  quiescent cfg s && (s.ths[i]?.map (·.pc) == some .sel) &&
    (match cell with | some d => decide (d < s.sh.now) | none => false)

/-- D7: deadline 500 set, `Read` blocks, deadline cleared, deadline 300 set: at +1000 the
caller is still blocked (original loops: `c` stays nil after `Reset`). -/
def d7Run : List Label :=
  [.setRD (some 500), .call 0, .thr 0 .go, .thr 0 .go,
   .setRD none, .thr 0 .tok, .thr 0 .go, .thr 0 .go, .thr 0 .go,
   .setRD (some 300), .thr 0 .tok, .thr 0 .go, .thr 0 .go, .thr 0 .go,
   .tick 300, .fire 0, .tick 1000]

theorem C13_D7_deadline_reset_counterexample (async : Bool) :
    (run (cfgOrig async) (init [.read] 1) d7Run).map (fun s => stuckPast (cfgOrig async) s 0 s.sh.rd) = some true := by
  cases async <;> decide

/-- the same for `Write` (window full) -/
def d7RunW : List Label :=
  [.setWD (some 500), .call 0, .thr 0 .go, .thr 0 .go, .thr 0 .go,
   .setWD none, .thr 0 .tok, .thr 0 .go, .thr 0 .go, .thr 0 .go, .thr 0 .go,
   .setWD (some 300), .thr 0 .tok, .thr 0 .go, .thr 0 .go, .thr 0 .go, .thr 0 .go,
   .tick 300, .fire 0, .tick 1000]

theorem C13_D7_deadline_reset_counterexample_write (async : Bool) :
    (run (cfgOrig async) (init [.write] 1 1) d7RunW).map (fun s => stuckPast (cfgOrig async) s 0 s.sh.wd) = some true := by
  cases async <;> decide

/-- D7b: `Read` blocks without a deadline, then deadline 300 is set: the wake-up does not go back
to RESET_TIMER (no timer exists), the deadline is never loaded. -/
def d7bRun : List Label :=
  [.call 0, .thr 0 .go, .thr 0 .go, .tick 100,
   .setRD (some 300), .thr 0 .tok, .thr 0 .go, .thr 0 .go, .tick 1000]

theorem C13_D7b_late_set_counterexample (async : Bool) :
    (run (cfgOrig async) (init [.read] 1) d7bRun).map (fun s => stuckPast (cfgOrig async) s 0 s.sh.rd) = some true := by
  cases async <;> decide

/-- D5: two readers blocked, two messages arrive in one datagram (one token): reader 0 takes one
message and returns, reader 1 stays blocked although a message is readable, and nothing can move. -/
def d5Run : List Label :=
  [.call 0, .call 1, .thr 0 .go, .thr 0 .go, .thr 1 .go, .thr 1 .go, .tick 100,
   .arrive 2, .thr 0 .tok, .thr 0 .go, .thr 0 .go]

theorem C13_D5_multireader_counterexample (async : Bool) :
    (run (cfgOrig async) (init [.read, .read] 1) d5Run).map
      (fun s => quiescent (cfgOrig async) s && decide (0 < s.sh.readable) && (s.ths[1]?.map (·.pc) == some .sel))
      = some true := by
  cases async <;> decide

/-- D8 (Accept): the deadline is loaded once at entry; set while blocked it is never honoured.
This is the code as it is (also in the repaired tree): recorded finding. -/
def d8AcceptRun : List Label :=
  [.call 0, .thr 0 .go, .tick 100, .setLD (some 300), .tick 1000]

theorem C13_D8_accept_deadline_counterexample (cfg : Cfg) :
    (run cfg (init [.accept] 1) d8AcceptRun).map (fun s => stuckPast cfg s 0 s.sh.ld) = some true := by
  rcases cfg with ⟨_ | _, _ | _, _ | _, _ | _⟩ <;> decide

/-- D8 (several waiters): deadline 300, two readers block, the deadline is moved to 700: one
token, reader 0 re-arms, reader 1 keeps its old timer and times out at 300 < 700.
Holds for the repaired loops too: recorded finding. -/
def d8MultiRun : List Label :=
  [.setRD (some 300), .call 0, .call 1, .thr 0 .go, .thr 0 .go,
   .thr 0 .tok, .thr 0 .go, .thr 0 .go, .thr 0 .go, .thr 1 .go, .thr 1 .go, .tick 100,
   .setRD (some 700), .thr 0 .tok, .thr 0 .go, .thr 0 .go, .thr 0 .go,
   .tick 300, .fire 1, .thr 1 .timeout]

theorem C13_D8_multi_deadline_counterexample (async : Bool) :
    (run (cfgFixed async) (init [.read, .read] 1) d8MultiRun).map
      (fun s => (s.ths[1]?.map (fun t => (t.ret, t.retAt)) == some (some .timeout, 300)) && (s.sh.rd == some 700))
      = some true := by
  cases async <;> decide

end KcpVerif.Props
