import KcpVerif.Lemmas.Wait
/-!
# C13 — blocked Read / Write / Accept always wake: data, deadline, close, error

Theorems about the LTS `Model/Wait` (the blocking loops of sess.go transcribed control point by
control point, tied to the code by trace acceptance `wait` and by the regenerated facts
`Gen.wait…`).  "Wakes" is stated as *enabledness under maximal progress*: in a state where the
awaited condition holds for a blocked caller some thread step is enabled, hence virtual time
(`tick`, which needs a quiescent state) cannot advance while somebody sleeps on a condition that
holds.  "Exactly at the deadline" is: never a timeout before the loaded deadline, and time cannot
pass the deadline in force while the caller is blocked.

Defects (DESIGN section 6): D7, D7b (found by this check), D5 are repaired in the repository
(`fix:` commits); for each the failing run of the *original* loops is proved here on the model
and the theorem that failed is proved for the repaired loops.  D8 (Accept loads its deadline
once; a deadline change wakes one of several waiters) is a recorded finding: counterexamples
proved, theorem stated for the single-caller case.
-/
namespace KcpVerif.Props
open KcpVerif KcpVerif.Wait

/-! ## the variant of the loops in the checked tree -/

/-- the tree being checked has the three repairs (re-point, re-arm, chain wake).  If one of them
is reverted the extractor regenerates `Gen.wait…`, this theorem fails and with it the check. -/
theorem C13_source_is_repaired (async : Bool) : cfgOfSource async = cfgFixed async := by
  cases async <;> decide

/-- hence every hypothesis `cfg.repoint = true`, `cfg.rearm = true`, `cfg.chain = true` of the
theorems below is discharged for the checked tree, for both timer-channel semantics -/
theorem C13_source_flags (async : Bool) :
    (cfgOfSource async).repoint = true ∧ (cfgOfSource async).rearm = true ∧ (cfgOfSource async).chain = true := by
  rw [C13_source_is_repaired]; exact ⟨rfl, rfl, rfl⟩

/-- the wake-up branches stop and drain the timer before going back to RESET_TIMER — what
`Thread.stopDrain` transcribes; without the drain a stale expiry survives `Reset` under
`asynctimerchan=1` and `TimerInv.armed_buf` (hence `C13_timeout_never_early`) would be false.
`testing/synctest` refuses `asynctimerchan=1`, so this side of the model is tied by this extracted
fact only, not by traces. -/
theorem C13_source_drains : (Gen.waitReadDrains && Gen.waitWriteDrains) = true := by decide

/-! ## defects of the original loops, proved on the model by evaluation -/

/-- thread `i` is blocked in its `select`, nothing can move, and the deadline `d` stored in the cell has passed -/
def stuckPast (cfg : Cfg) (s : State) (i : Nat) (cell : Option Time) : Bool :=
  quiescent cfg s && (s.ths[i]?.map (·.pc) == some .sel) &&
    (match cell with | some d => decide (d < s.sh.now) | none => false)

/-- D7: deadline 500 set, `Read` blocks, deadline cleared, deadline 300 set: at +1000 the
caller is still blocked (original loops: `c` stays nil after `Reset`). -/
def d7Run : List Label :=
  [.setRD (some 500), .call 0 64, .thr 0 .go, .thr 0 .go,
   .setRD none, .thr 0 .tok, .thr 0 .go, .thr 0 .go, .thr 0 .go,
   .setRD (some 300), .thr 0 .tok, .thr 0 .go, .thr 0 .go, .thr 0 .go,
   .tick 300, .fire 0, .tick 1000]

theorem C13_D7_deadline_reset_counterexample (async : Bool) :
    (run (cfgOrig async) (init [.read] 1) d7Run).map (fun s => stuckPast (cfgOrig async) s 0 s.sh.rd) = some true := by
  cases async <;> decide

/-- the same for `Write` (window full) -/
def d7RunW : List Label :=
  [.setWD (some 500), .call 0 64, .thr 0 .go, .thr 0 .go, .thr 0 .go,
   .setWD none, .thr 0 .tok, .thr 0 .go, .thr 0 .go, .thr 0 .go, .thr 0 .go,
   .setWD (some 300), .thr 0 .tok, .thr 0 .go, .thr 0 .go, .thr 0 .go, .thr 0 .go,
   .tick 300, .fire 0, .tick 1000]

theorem C13_D7_deadline_reset_counterexample_write (async : Bool) :
    (run (cfgOrig async) (init [.write] 1 1) d7RunW).map (fun s => stuckPast (cfgOrig async) s 0 s.sh.wd) = some true := by
  cases async <;> decide

/-- D7b: `Read` blocks without a deadline, then deadline 300 is set: the wake-up does not go back
to RESET_TIMER (no timer exists), the deadline is never loaded. -/
def d7bRun : List Label :=
  [.call 0 64, .thr 0 .go, .thr 0 .go, .tick 100,
   .setRD (some 300), .thr 0 .tok, .thr 0 .go, .thr 0 .go, .tick 1000]

theorem C13_D7b_late_set_counterexample (async : Bool) :
    (run (cfgOrig async) (init [.read] 1) d7bRun).map (fun s => stuckPast (cfgOrig async) s 0 s.sh.rd) = some true := by
  cases async <;> decide

/-- D5: two readers blocked, two messages arrive in one datagram (one token): reader 0 takes one
message and returns, reader 1 stays blocked although a message is readable, and nothing can move. -/
def d5Run : List Label :=
  [.call 0 64, .call 1 64, .thr 0 .go, .thr 0 .go, .thr 1 .go, .thr 1 .go, .tick 100,
   .arrive [8, 8], .thr 0 .tok, .thr 0 .go, .thr 0 .go]

theorem C13_D5_multireader_counterexample (async : Bool) :
    (run (cfgOrig async) (init [.read, .read] 1) d5Run).map
      (fun s => quiescent (cfgOrig async) s && decide (0 < s.sh.readable) && (s.ths[1]?.map (·.pc) == some .sel))
      = some true := by
  cases async <;> decide

/-- D8 (Accept): the deadline is loaded once at entry; set while blocked it is never honoured.
This is the code as it is (also in the repaired tree): recorded finding. -/
def d8AcceptRun : List Label :=
  [.call 0 64, .thr 0 .go, .tick 100, .setLD (some 300), .tick 1000]

theorem C13_D8_accept_deadline_counterexample (cfg : Cfg) :
    (run cfg (init [.accept] 1) d8AcceptRun).map (fun s => stuckPast cfg s 0 s.sh.ld) = some true := by
  rcases cfg with ⟨_ | _, _ | _, _ | _, _ | _⟩ <;> decide

/-- D8 (several waiters): deadline 300, two readers block, the deadline is moved to 700: one
token, reader 0 re-arms, reader 1 keeps its old timer and times out at 300 < 700.
Holds for the repaired loops too: recorded finding. -/
def d8MultiRun : List Label :=
  [.setRD (some 300), .call 0 64, .call 1 64, .thr 0 .go, .thr 0 .go,
   .thr 0 .tok, .thr 0 .go, .thr 0 .go, .thr 0 .go, .thr 1 .go, .thr 1 .go, .tick 100,
   .setRD (some 700), .thr 0 .tok, .thr 0 .go, .thr 0 .go, .thr 0 .go,
   .tick 300, .fire 1, .thr 1 .timeout]

theorem C13_D8_multi_deadline_counterexample (async : Bool) :
    (run (cfgFixed async) (init [.read, .read] 1) d8MultiRun).map
      (fun s => (s.ths[1]?.map (fun t => (t.ret, t.retAt)) == some (some .timeout, 300)) && (s.sh.rd == some 700))
      = some true := by
  cases async <;> decide

/-! ## C13: data / free window wake the caller (one caller per kind) -/

/-- Single reader, single writer — every interleaving of arrivals, acknowledgements, pumps, deadline
operations with the check-then-wait window: if the caller sits in its `select` while what it waits
for holds, the wake-up token is there, so the caller can move and virtual time cannot advance.
(Readers: holds with or without the chain wake.) -/
theorem C13_no_lost_wakeup_1 {cfg : Cfg} {kinds : List Kind} {wnd infl : Nat} {s : State} {i : Nat} {t : Thread}
    (h : Reach cfg (init kinds wnd infl) s) (hi : s.ths[i]? = some t) (hp : t.pc = .sel) :
    (t.kind = .read → SingleK .read kinds → 0 < s.sh.readable →
      s.sh.rtok = true ∧ t.canStep cfg s.sh = true ∧ ∀ t', step cfg s (.tick t') = none) ∧
    (t.kind = .write → SingleK .write kinds → s.sh.inflight < s.sh.wnd →
      s.sh.wtok = true ∧ t.canStep cfg s.sh = true ∧ ∀ t', step cfg s (.tick t') = none) := by
  have hm : t ∈ s.ths := List.mem_of_getElem? hi
  constructor
  · intro hk hs hpos
    have htok := reach_dataR hs h i t hi hk hp hpos
    have hcs := canStep_read_tok (cfg := cfg) hk hp htok
    exact ⟨htok, hcs, tick_none_of_canStep hm hcs⟩
  · intro hk hs hroom
    have htok := reach_roomW hs h i t hi hk hp hroom
    have hcs := canStep_write_tok (cfg := cfg) hk hp htok
    exact ⟨htok, hcs, tick_none_of_canStep hm hcs⟩

example : SingleK .read [.read, .write, .accept] ∧ SingleK .write [.read, .write, .accept] := by
  constructor <;> intro i j hi hj <;> rcases i with _ | _ | _ | i <;> rcases j with _ | _ | _ | j <;> simp at hi hj ⊢

/-! ## C13: the deadline -/

/-- Never early, any number of callers of any kind (repaired loops, both timer semantics): a caller
returns `timeout` only when the deadline value it loaded at its last RESET_TIMER (Accept: at
entry) has been reached. -/
theorem C13_timeout_never_early {cfg : Cfg} {kinds : List Kind} {wnd infl : Nat} {s s' : State} {i : Nat}
    (hc : cfg.repoint = true) (hr : cfg.rearm = true)
    (h : Reach cfg (init kinds wnd infl) s) (hs : step cfg s (.thr i .timeout) = some s') :
    ∃ t d, s.ths[i]? = some t ∧ t.pc = .sel ∧ t.seen = some d ∧ d ≤ s.sh.now := by
  simp only [step] at hs
  split at hs
  · rename_i t hi
    split at hs
    · rename_i r hrr
      have hinv := reach_timerInv hc hr h t (List.mem_of_getElem? hi)
      have hsel : t.pc = .sel ∧ t.c = true ∧ t.buf = true := by
        cases hk : t.kind <;> cases hp : t.pc <;>
          simp [tstep, tstepRead, tstepWrite, tstepAccept, hk, hp] at hrr <;> simp [hrr]
      cases hseen : t.seen with
      | none =>
        have := (hinv.no_deadline (Or.inr (Or.inr hsel.1)) hseen).1
        simp [hsel.2.1] at this
      | some d =>
        have := (hinv.deadline (Or.inr (Or.inr hsel.1)) d hseen).2
        rcases this with ⟨_, hb⟩ | ⟨_, _, hd⟩
        · simp [hsel.2.2] at hb
        · exact ⟨t, d, hi, hsel.1, hseen, hd⟩
    · contradiction
  · contradiction

/-- `deadline_exact_1` — one reader (resp. one writer), repaired loops, every sequence of deadline
operations before and while the call is blocked (none→set, set→later, set→earlier, set→past,
set→zero→set):
* the loaded deadline is the one in the cell unless a wake-up token is pending (every `Set*`
  issues one, and it is consumed before time advances);
* blocked past the deadline in force ⇒ the caller can move (token, timer expiry or timeout case),
  so time does not advance;
* a `tick` never jumps over the deadline in force of a blocked caller.
Together with `C13_timeout_never_early`: the call times out at exactly the deadline in force. -/
theorem C13_deadline_exact_1 {cfg : Cfg} {kinds : List Kind} {wnd infl : Nat} {s : State} {i : Nat} {t : Thread}
    (hc : cfg.repoint = true) (hr : cfg.rearm = true)
    (h : Reach cfg (init kinds wnd infl) s) (hi : s.ths[i]? = some t) (hp : t.pc = .sel)
    (hcell : (t.kind = .read ∧ SingleK .read kinds ∧ cell = s.sh.rd ∧ tok = s.sh.rtok) ∨
             (t.kind = .write ∧ SingleK .write kinds ∧ cell = s.sh.wd ∧ tok = s.sh.wtok)) :
    (cell = t.seen ∨ tok = true) ∧
    (∀ d, cell = some d → d ≤ s.sh.now → t.canStep cfg s.sh = true) ∧
    (∀ d t' s', cell = some d → step cfg s (.tick t') = some s' → t' ≤ d) := by
  have hm : t ∈ s.ths := List.mem_of_getElem? hi
  have hinv := reach_timerInv hc hr h t hm
  have hw : t.waiting := Or.inr (Or.inr hp)
  have hcoh : cell = t.seen ∨ tok = true := by
    rcases hcell with ⟨hk, hs, rfl, rfl⟩ | ⟨hk, hs, rfl, rfl⟩
    · exact reach_cohR hr hs h i t hi hk hw
    · exact reach_cohW hr hs h i t hi hk hw
  have htokstep : tok = true → t.canStep cfg s.sh = true := by
    intro ht
    rcases hcell with ⟨hk, _, _, rfl⟩ | ⟨hk, _, _, rfl⟩
    · exact canStep_read_tok hk hp ht
    · exact canStep_write_tok hk hp ht
  refine ⟨hcoh, ?_, ?_⟩
  · intro d hd hle
    rcases hcoh with h1 | h1
    · exact canStep_deadline_passed hinv hp (h1 ▸ hd) hle
    · exact htokstep h1
  · intro d t' s' hd hs
    have hts := tick_spec hs
    have hq := not_canStep_of_quiescent hts.2.1 hm
    rcases hcoh with h1 | h1
    · have hseen : t.seen = some d := h1 ▸ hd
      rcases (hinv.deadline hw d hseen).2 with ⟨ha, _⟩ | ⟨_, hb, _⟩
      · exact hts.2.2.1 t hm d ha
      · have := canStep_timeout (cfg := cfg) (sh := s.sh) hp (hinv.deadline hw d hseen).1 hb
        simp [hq] at this
    · have := htokstep h1
      simp [hq] at this

/-! ## C13: Close and socket errors wake every blocked caller; Close semantics -/

/-- `die` / `chSocketReadError` / `chSocketWriteError` / the listener's channels are closed channels:
every caller blocked on them has the corresponding exit enabled — any number of callers, any
variant of the loops — and time cannot advance while one of them is still blocked. -/
theorem C13_close_err_wake {cfg : Cfg} {s : State} {t : Thread} (ht : t ∈ s.ths) (hp : t.pc = .sel) :
    (t.kind = .read → s.sh.die = true → (tstep cfg s.sh t .die).map (·.t.ret) = some (some .closed)) ∧
    (t.kind = .read → s.sh.rerr = true → (tstep cfg s.sh t .err).map (·.t.ret) = some (some .sockerr)) ∧
    (t.kind = .write → s.sh.die = true → (tstep cfg s.sh t .die).map (·.t.ret) = some (some .closed)) ∧
    (t.kind = .write → s.sh.werr = true → (tstep cfg s.sh t .err).map (·.t.ret) = some (some .sockerr)) ∧
    (t.kind = .accept → s.sh.ldie = true → (tstep cfg s.sh t .die).map (·.t.ret) = some (some .closed)) ∧
    (t.kind = .accept → s.sh.lerr = true → (tstep cfg s.sh t .err).map (·.t.ret) = some (some .sockerr)) ∧
    ((t.kind = .read ∧ (s.sh.die = true ∨ s.sh.rerr = true)) ∨ (t.kind = .write ∧ (s.sh.die = true ∨ s.sh.werr = true)) ∨
      (t.kind = .accept ∧ (s.sh.ldie = true ∨ s.sh.lerr = true)) → ∀ t', step cfg s (.tick t') = none) := by
  refine ⟨?_, ?_, ?_, ?_, ?_, ?_, ?_⟩
  · intro hk hd; simp [tstep, tstepRead, hk, hp, hd, Thread.finish]
  · intro hk hd; simp [tstep, tstepRead, hk, hp, hd, Thread.finish]
  · intro hk hd; simp [tstep, tstepWrite, hk, hp, hd, Thread.finish]
  · intro hk hd; simp [tstep, tstepWrite, hk, hp, hd, Thread.finish]
  · intro hk hd; simp [tstep, tstepAccept, hk, hp, hd, Thread.finish]
  · intro hk hd; simp [tstep, tstepAccept, hk, hp, hd, Thread.finish]
  · intro hcase t'
    apply tick_none_of_canStep ht
    rcases hcase with ⟨hk, hd | hd⟩ | ⟨hk, hd | hd⟩ | ⟨hk, hd | hd⟩
    · exact canStep_of_choice .die (by simp [tstep, tstepRead, hk, hp, hd])
    · exact canStep_of_choice .err (by simp [tstep, tstepRead, hk, hp, hd])
    · exact canStep_of_choice .die (by simp [tstep, tstepWrite, hk, hp, hd])
    · exact canStep_of_choice .err (by simp [tstep, tstepWrite, hk, hp, hd])
    · exact canStep_of_choice .die (by simp [tstep, tstepAccept, hk, hp, hd])
    · exact canStep_of_choice .err (by simp [tstep, tstepAccept, hk, hp, hd])

/-- After Close: `Write` fails at the poll that precedes every test of the window (the only way to
`check` is through `pre`, and with `die` closed `pre` has no `go`); `Read` still returns data that
was received (`check` does not look at `die`; at most `len(b)` bytes, and what it hands out plus
what stays — leftover in `bufptr` and queued messages — is exactly what was there) and fails once
nothing is readable; a second `Close` reports an error. -/
theorem C13_after_close {cfg : Cfg} {sh : Sh} {t : Thread} {ch : Choice} {r : TRes} (hd : sh.die = true) :
    (t.kind = .write → t.pc = .pre → tstep cfg sh t ch = some r →
      r.t.pc = .done ∧ (r.t.ret = some .closed ∨ r.t.ret = some .sockerr)) ∧
    (t.kind = .write → tstep cfg sh t ch = some r → r.t.pc = .check → t.pc = .pre) ∧
    (t.kind = .read → t.pc = .check → 0 < sh.readable → tstep cfg sh t .go = some r →
      r.t.ret = some .ok ∧ r.t.got ≤ t.bsz ∧
      r.t.got + r.sh.left + r.sh.queue.sum = sh.left + sh.queue.sum) ∧
    (t.kind = .read → t.pc = .check → sh.readable = 0 → tstep cfg sh t .go = some r → r.t.pc = .sel) ∧
    (∀ s : State, s.sh = sh → closeResult s = .closed ∧
      ∀ s', step cfg s .close = some s' → s'.sh.die = true ∧ closeResult s' = .closed) := by
  refine ⟨?_, ?_, ?_, ?_, ?_⟩
  · intro hk hp hs
    cases ch <;> simp [tstep, tstepWrite, hk, hp, hd] at hs
    all_goals (obtain ⟨_, rfl⟩ := hs; simp [Thread.finish])
  · intro hk hs hpc
    cases hp : t.pc <;> cases ch <;> simp [tstep, tstepWrite, hk, hp] at hs
    all_goals first
      | rfl
      | (exfalso; revert hpc; (try split at hs) <;> (try obtain ⟨_, rfl⟩ := hs) <;>
          simp [Thread.finish] <;> (try split) <;> simp_all)
  · intro hk hp hpos hs
    simp only [tstep, tstepRead, hk, hp] at hs
    split at hs
    · rename_i rr hrr
      cases hs
      have hc := take_conserves hrr
      exact ⟨rfl, hc.2, hc.1⟩
    · rename_i hnone
      have := take_none hnone
      simp [Sh.readable, this.1, this.2] at hpos
  · intro hk hp hz hs
    simp only [tstep, tstepRead, hk, hp] at hs
    split at hs
    · rename_i rr hrr
      have := take_some_pos hrr
      simp only [Sh.readable] at hz; omega
    · cases hs; rfl
  · intro s hs
    subst hs
    refine ⟨by simp [closeResult, hd], ?_⟩
    intro s' hs'
    simp only [step] at hs'
    cases hs'
    simp [closeResult]

/-! ## C13: Accept -/

/-- `AcceptKCP` returns on backlog, listener close, socket error, or on the deadline it read **at
entry**: each of these enables an exit of every blocked Accept caller (any number of callers),
time cannot pass the loaded deadline, and the timeout is never early
(`C13_timeout_never_early`).  A deadline stored while Accept is blocked is *not* observed:
`C13_D8_accept_deadline_counterexample` (recorded finding D8). -/
theorem C13_accept_wake {cfg : Cfg} {kinds : List Kind} {wnd infl : Nat} {s : State} {t : Thread}
    (hc : cfg.repoint = true) (hr : cfg.rearm = true)
    (h : Reach cfg (init kinds wnd infl) s) (ht : t ∈ s.ths) (hk : t.kind = .accept) (hp : t.pc = .sel) :
    (0 < s.sh.backlog → (tstep cfg s.sh t .tok).map (·.t.ret) = some (some .ok) ∧ ∀ t', step cfg s (.tick t') = none) ∧
    (s.sh.ldie = true → ∀ t', step cfg s (.tick t') = none) ∧
    (s.sh.lerr = true → ∀ t', step cfg s (.tick t') = none) ∧
    (∀ d, t.seen = some d → (d ≤ s.sh.now → t.canStep cfg s.sh = true) ∧
      ∀ t' s', step cfg s (.tick t') = some s' → t' ≤ d) := by
  have hinv := reach_timerInv hc hr h t ht
  refine ⟨?_, ?_, ?_, ?_⟩
  · intro hb
    refine ⟨by simp [tstep, tstepAccept, hk, hp, hb, Thread.finish], ?_⟩
    intro t'
    exact tick_none_of_canStep ht (canStep_of_choice .tok (by simp [tstep, tstepAccept, hk, hp, hb])) t'
  · intro hd t'
    exact tick_none_of_canStep ht (canStep_of_choice .die (by simp [tstep, tstepAccept, hk, hp, hd])) t'
  · intro hd t'
    exact tick_none_of_canStep ht (canStep_of_choice .err (by simp [tstep, tstepAccept, hk, hp, hd])) t'
  · intro d hs
    refine ⟨fun hle => canStep_deadline_passed hinv hp hs hle, ?_⟩
    intro t' s' hst
    have hts := tick_spec hst
    have hq := not_canStep_of_quiescent hts.2.1 ht
    rcases (hinv.deadline (Or.inr (Or.inr hp)) d hs).2 with ⟨ha, _⟩ | ⟨_, hb, _⟩
    · exact hts.2.2.1 t ht d ha
    · have := canStep_timeout (cfg := cfg) (sh := s.sh) hp (hinv.deadline (Or.inr (Or.inr hp)) d hs).1 hb
      simp [hq] at this

/-! ## C13: several waiters -/

/-- Readers, any number (chain wake in place): whenever data is readable, a wake-up token is
pending or some reader is about to test for data.  Hence if any reader sleeps in its `select` while
data is readable, some caller can move and time cannot advance: readable data is never left
unclaimed while someone is waiting.  (False for the original loops: `C13_D5_multireader_counterexample`.)

Writers: free window is re-announced by every `update()` (the `pump` event; `kcpInput` does the
same), so a writer sleeping with free window is woken at the next pump — at most one interval
later per waiter; between pumps free window *can* stay unclaimed with ≥ 2 writers (the code has
no chain wake for writers).  Deadline *changes* wake only one of several waiters:
`C13_D8_multi_deadline_counterexample` (recorded finding). -/
theorem C13_multi_waiter {cfg : Cfg} {kinds : List Kind} {wnd infl : Nat} {s : State}
    (hchain : cfg.chain = true) (h : Reach cfg (init kinds wnd infl) s) :
    (0 < s.sh.readable →
      (s.sh.rtok = true ∨ ∃ (j : Nat) (t : Thread), s.ths[j]? = some t ∧ t.aboutToCheck) ∧
      ∀ t ∈ s.ths, t.kind = .read → t.pc = .sel → quiescent cfg s = false ∧ ∀ t', step cfg s (.tick t') = none) ∧
    (∀ s', step cfg s .pump = some s' → s.sh.die = false → s.sh.inflight < s.sh.wnd →
      s'.sh.wtok = true ∧
      ∀ t ∈ s'.ths, t.kind = .write → t.pc = .sel → quiescent cfg s' = false ∧ ∀ t', step cfg s' (.tick t') = none) := by
  constructor
  · intro hpos
    have hinv := reach_dataInv hchain h hpos
    refine ⟨hinv, ?_⟩
    intro t ht hk hp
    have : ∃ t0 ∈ s.ths, t0.canStep cfg s.sh = true := by
      rcases hinv with htok | ⟨j, t0, hj, h0⟩
      · exact ⟨t, ht, canStep_read_tok hk hp htok⟩
      · exact ⟨t0, List.mem_of_getElem? hj, canStep_aboutToCheck h0⟩
    obtain ⟨t0, ht0, hcs⟩ := this
    exact ⟨not_quiescent_of_canStep ht0 hcs, tick_none_of_canStep ht0 hcs⟩
  · intro s' hs hd hroom
    have htok : s'.sh.wtok = true := by
      simp [step, hd] at hs
      rw [← hs]; simp [hroom]
    refine ⟨htok, ?_⟩
    intro t ht hk hp
    have hcs := canStep_write_tok (cfg := cfg) (sh := s'.sh) hk hp htok
    exact ⟨not_quiescent_of_canStep ht hcs, tick_none_of_canStep ht hcs⟩

/-- Partial reads.  A `Read` whose buffer is smaller than the next message takes `len(b)` bytes and
leaves the rest in `bufptr`; that rest is readable for the next reader, and the chain wake — which
runs *after* `bufptr` has been updated — passes the token on (the seeded change C13-2 moved it
before the update). -/
theorem C13_partial_read_chains {cfg : Cfg} {sh : Sh} {t : Thread} {r : TRes} {m : Nat} {q : List Nat}
    (hchain : cfg.chain = true) (hk : t.kind = .read) (hp : t.pc = .check)
    (hl : sh.left = 0) (hq : sh.queue = m :: q) (hb : t.bsz < m) (hs : tstep cfg sh t .go = some r) :
    r.t.ret = some .ok ∧ r.t.got = t.bsz ∧ r.sh.left = m - t.bsz ∧ r.sh.queue = q ∧ r.sh.rtok = true := by
  have hnb : ¬ m ≤ t.bsz := by omega
  have hpos : 0 < m - t.bsz := by omega
  simp only [tstep, tstepRead, hk, hp, take, hl, hq, Nat.lt_irrefl, if_false, hnb] at hs
  cases hs
  simp [Thread.finish, hchain, more, hpos]

/-- … and with leftover bytes alone (`len(bufptr) > 0`, no message queued) no reader stays asleep:
`DataInv` counts the leftover as readable (any number of readers, chain wake in place). -/
theorem C13_multi_waiter_partial {cfg : Cfg} {kinds : List Kind} {wnd infl : Nat} {s : State}
    (hchain : cfg.chain = true) (h : Reach cfg (init kinds wnd infl) s) (hleft : 0 < s.sh.left) :
    (s.sh.rtok = true ∨ ∃ (j : Nat) (t : Thread), s.ths[j]? = some t ∧ t.aboutToCheck) ∧
    ∀ t ∈ s.ths, t.kind = .read → t.pc = .sel → quiescent cfg s = false ∧ ∀ t', step cfg s (.tick t') = none :=
  (C13_multi_waiter hchain h).1 (by simp only [Sh.readable]; omega)

/-! ## C13: liveness on the LTS — every blocked call whose condition becomes true returns -/

/-- Between two environment events / ticks only thread steps and timer expiries happen (maximal
progress).  Such a phase is finite: at most `measure s` steps from `s` (a return lowers the number of
active callers and issues at most one chain token, taking a token lowers the number of tokens, every
other step lowers the caller's rank) — so a quiescent state is always reached; nobody spins. -/
theorem C13_progress_terminates {cfg : Cfg} {s s' : State} (ls : List Label)
    (hall : ∀ l ∈ ls, l.isProgress = true) (hr : run cfg s ls = some s') :
    ls.length + measure s' ≤ measure s ∧ ls.length ≤ measure s := by
  have := run_measure ls hall hr
  exact ⟨this, by omega⟩

/-- Time is never stuck either: in a quiescent state a `tick` to any later instant up to the next
timer expiry is enabled (and no further, `tick_spec`), at which instant the expiry is enabled. -/
theorem C13_time_advances {cfg : Cfg} {s : State} {t' : Time} (hq : quiescent cfg s = true) (hlt : s.sh.now < t')
    (harm : ∀ t ∈ s.ths, ∀ w, t.armed = some w → t' ≤ w) : (step cfg s (.tick t')).isSome = true := by
  rw [tick_enabled hq hlt harm]; rfl

/-- `blocked_call_returns` — repaired loops, any number of callers of every kind.  In the quiescent
state that ends a phase (it exists: `C13_progress_terminates`) every caller is idle, has returned, or
is blocked in its `select`, and a caller that is still blocked has **none** of its wake-up conditions:
* Read: nothing readable (leftover bytes included; chain wake), session open, no socket error;
* Write: session open, no socket error, and — one writer — the window is full;
* Accept: empty backlog, listener open, no socket error;
* the deadline it loaded lies strictly in the future; for one reader / one writer so does the deadline
  in force (the cell).
Contrapositive = liveness: once data has arrived (enough of it: one `Read` per message or leftover),
the window has opened, the deadline (finite) has been reached — time advances up to it and not
beyond, `C13_time_advances`, `C13_deadline_exact_1` —, Close or a socket error has happened, the
call has returned when the phase ends, i.e. within the same virtual instant, after finitely many steps.
Not covered (recorded finding D8): a deadline changed while ≥ 2 callers are blocked, or while
Accept is blocked, is honoured only as the *loaded* value. -/
theorem C13_blocked_call_returns {cfg : Cfg} {kinds : List Kind} {wnd infl : Nat} {s : State} {t : Thread}
    (hc : cfg.repoint = true) (hr : cfg.rearm = true) (hchain : cfg.chain = true)
    (h : Reach cfg (init kinds wnd infl) s) (hq : quiescent cfg s = true) (ht : t ∈ s.ths) :
    (t.pc = .idle ∨ t.pc = .done ∨ t.pc = .sel) ∧
    (t.pc = .sel →
      (t.kind = .read → s.sh.readable = 0 ∧ s.sh.die = false ∧ s.sh.rerr = false) ∧
      (t.kind = .write → s.sh.die = false ∧ s.sh.werr = false ∧ (SingleK .write kinds → s.sh.wnd ≤ s.sh.inflight)) ∧
      (t.kind = .accept → s.sh.backlog = 0 ∧ s.sh.ldie = false ∧ s.sh.lerr = false) ∧
      (∀ d, t.seen = some d → s.sh.now < d) ∧
      (t.kind = .read → SingleK .read kinds → ∀ d, s.sh.rd = some d → s.sh.now < d) ∧
      (t.kind = .write → SingleK .write kinds → ∀ d, s.sh.wd = some d → s.sh.now < d)) := by
  have hns := not_canStep_of_quiescent hq ht
  refine ⟨quiescent_pcs hq ht (reach_pcOK h t ht), ?_⟩
  intro hp
  obtain ⟨i, hi⟩ := List.getElem?_of_mem ht
  have no : ∀ {ch : Choice}, (tstep cfg s.sh t ch).isSome = true → False := by
    intro ch hch
    have := canStep_of_choice ch hch
    simp [hns] at this
  have bfalse : ∀ {b : Bool}, (b = true → False) → b = false := by
    intro b hb; cases b <;> simp_all
  refine ⟨?_, ?_, ?_, ?_, ?_, ?_⟩
  · intro hk
    refine ⟨?_, bfalse fun hd => no (ch := .die) (by simp [tstep, tstepRead, hk, hp, hd]),
      bfalse fun hd => no (ch := .err) (by simp [tstep, tstepRead, hk, hp, hd])⟩
    rcases Nat.eq_zero_or_pos s.sh.readable with h0 | hpos
    · exact h0
    · have := ((C13_multi_waiter hchain h).1 hpos).2 t ht hk hp
      simp [hq] at this
  · intro hk
    refine ⟨bfalse fun hd => no (ch := .die) (by simp [tstep, tstepWrite, hk, hp, hd]),
      bfalse fun hd => no (ch := .err) (by simp [tstep, tstepWrite, hk, hp, hd]), ?_⟩
    intro hs
    rcases Nat.lt_or_ge s.sh.inflight s.sh.wnd with hroom | hfull
    · have := ((C13_no_lost_wakeup_1 (cfg := cfg) h hi hp).2 hk hs hroom).2.1
      simp [hns] at this
    · exact hfull
  · intro hk
    refine ⟨?_, bfalse fun hd => no (ch := .die) (by simp [tstep, tstepAccept, hk, hp, hd]),
      bfalse fun hd => no (ch := .err) (by simp [tstep, tstepAccept, hk, hp, hd])⟩
    rcases Nat.eq_zero_or_pos s.sh.backlog with h0 | hpos
    · exact h0
    · exact (no (ch := .tok) (by simp [tstep, tstepAccept, hk, hp, hpos])).elim
  · intro d hd
    rcases Nat.lt_or_ge s.sh.now d with hlt | hge
    · exact hlt
    · have := canStep_deadline_passed (cfg := cfg) (reach_timerInv hc hr h t ht) hp hd hge
      simp [hns] at this
  · intro hk hs d hd
    rcases Nat.lt_or_ge s.sh.now d with hlt | hge
    · exact hlt
    · have := (C13_deadline_exact_1 (cell := s.sh.rd) (tok := s.sh.rtok) hc hr h hi hp
        (Or.inl ⟨hk, hs, rfl, rfl⟩)).2.1 d hd hge
      simp [hns] at this
  · intro hk hs d hd
    rcases Nat.lt_or_ge s.sh.now d with hlt | hge
    · exact hlt
    · have := (C13_deadline_exact_1 (cell := s.sh.wd) (tok := s.sh.wtok) hc hr h hi hp
        (Or.inr ⟨hk, hs, rfl, rfl⟩)).2.1 d hd hge
      simp [hns] at this

/-! ## non-vacuity and the repaired loops on the defect schedules -/

/-- possible outcomes (return, virtual time) of caller `i` under maximal progress, for a schedule of
environment events at given instants -/
def outcomes (cfg : Cfg) (s0 : State) (evs : List (Time × Label)) (endAt : Time) (i : Nat) : List (Option (Ret × Time)) :=
  let final := evs.foldl (fun ss e =>
      settleAll cfg ((ss.flatMap (advance cfg 16 e.1)).filterMap (fun s => step cfg s e.2))) [s0]
  ((final.flatMap (advance cfg 16 endAt)).map fun s =>
    match s.ths[i]? with
    | some t => if t.pc = .done then t.ret.map (fun r => (r, t.retAt)) else none
    | none => none).eraseDups

/-- D7 schedule (set 500, call, clear at 100, set 300 at 200): the original loops never return, the
repaired loops time out at exactly 300 -/
example : outcomes (cfgOrig false) (init [.read] 1)
    [(0, .setRD (some 500)), (0, .call 0 64), (100, .setRD none), (200, .setRD (some 300))] 1000 0 = [none] := by decide
example : outcomes (cfgFixed false) (init [.read] 1)
    [(0, .setRD (some 500)), (0, .call 0 64), (100, .setRD none), (200, .setRD (some 300))] 1000 0
      = [some (.timeout, 300)] := by decide
/-- D7b schedule (call, set 300 at 100) -/
example : outcomes (cfgOrig false) (init [.write] 1 1) [(0, .call 0 64), (100, .setWD (some 300))] 1000 0 = [none] := by decide
example : outcomes (cfgFixed false) (init [.write] 1 1) [(0, .call 0 64), (100, .setWD (some 300))] 1000 0
    = [some (.timeout, 300)] := by decide
/-- D5 schedule: both readers return at 100 with the chain wake -/
example : outcomes (cfgFixed false) (init [.read, .read] 1) [(0, .call 0 64), (0, .call 1 64), (100, .arrive [8, 8])] 1000 1
    = [some (.ok, 100)] := by decide
example : (outcomes (cfgOrig false) (init [.read, .read] 1) [(0, .call 0 64), (0, .call 1 64), (100, .arrive [8, 8])] 1000 1).contains none
    = true := by decide
/-- partial reads (the demo of seeded change C13-2): two readers with 100-byte buffers, one message of
200 bytes, no further traffic: both return at +100 (100 bytes each, see `C13_partial_read_chains`);
without the chain wake the second one sleeps on 100 readable bytes -/
example : outcomes (cfgFixed false) (init [.read, .read] 1) [(0, .call 0 100), (0, .call 1 100), (100, .arrive [200])] 1000 1
    = [some (.ok, 100)] := by decide
example : (outcomes (cfgOrig false) (init [.read, .read] 1) [(0, .call 0 100), (0, .call 1 100), (100, .arrive [200])] 1000 1).contains none
    = true := by decide
/-- a reachable state with leftover bytes only (hypothesis of `C13_multi_waiter_partial`) -/
example : (run (cfgFixed false) (init [.read] 1)
    [.arrive [8], .call 0 3, .thr 0 .go, .thr 0 .go]).map (fun s => (s.sh.left, s.sh.queue, s.ths.map (·.got)))
    = some (5, [], [3]) := by decide
/-- the termination measure of a state with two fresh calls (2 × (27 + rank 8)); hypotheses of
`C13_blocked_call_returns` are met by the quiescent blocked state of the last example below -/
example : (run (cfgFixed false) (init [.read, .read] 1) [.call 0 64, .call 1 64]).map measure = some 70 := by decide
/-- set→past: returns at the instant of the change -/
example : outcomes (cfgFixed true) (init [.read] 1)
    [(0, .setRD (some 700)), (0, .call 0 64), (200, .setRD (some 100))] 1000 0 = [some (.timeout, 200)] := by decide
/-- Close wakes a reader, a writer (window full) and, on the listener, an accepter -/
example : outcomes (cfgFixed false) (init [.read, .write, .accept] 1 1)
    [(0, .call 0 64), (0, .call 1 64), (0, .call 2 64), (50, .close)] 1000 1 = [some (.closed, 50)] := by decide
/-- every state produced by `run` is reachable -/
theorem C13_reach_of_run {cfg : Cfg} {s0 s s' : State} (ls : List Label) (h : Reach cfg s0 s)
    (hr : run cfg s ls = some s') : Reach cfg s0 s' := by
  induction ls generalizing s with
  | nil => simp [run] at hr; exact hr ▸ h
  | cons l ls ih =>
    simp only [run] at hr
    split at hr
    · rename_i s1 h1; exact ih (h.step l h1) hr
    · contradiction

/-- a reachable state in which the hypotheses of `C13_deadline_exact_1` hold: the only reader is
blocked with deadline 300 loaded, the only writer is blocked on a full window -/
example : (run (cfgFixed false) (init [.read, .write] 1 1)
    [.setRD (some 300), .call 0 64, .thr 0 .go, .thr 0 .go, .thr 0 .tok, .thr 0 .go, .thr 0 .go, .thr 0 .go,
     .call 1 64, .thr 1 .go, .thr 1 .go, .thr 1 .go]).map
    (fun s => decide (s.sh.rd = some 300) && (s.ths.map (·.pc) == [.sel, .sel]) &&
      (s.ths.map (·.seen) == [some 300, none]) && quiescent (cfgFixed false) s) = some true := by decide

end KcpVerif.Props
