/-
C05 (FEC part) — the FEC decoder cannot crash or bloat on ARBITRARY (forged) packets (DESIGN 7.5).

Object: `Model/Fec.Decoder.decode` (fec.go `fecDecoder.decode`, with the repairs of findings D12–D14).
Vocabulary from `Lemmas/FecBound`: `InvDec dec` = the size/shape invariant of a decoder state
(ratio `0 < d`, `0 < p`, `n = d + p ≤ 256`, `paws`, well-formed auto-tune ring, shard sets with
pairwise different ids whose products `id·n` do not wrap, ages in `[0, maxShardSets·n]`, fewer than
`d` packets per set, every stored packet between `fecHeaderSize` and `mtuLimit` bytes; NOTHING is
assumed about `newest`), `heldPackets`/`heldBytes` = what the shard sets hold, `run C dec pkts` =
the state after feeding `pkts`.

Proved (full strength; every theorem for ANY codec constructor `C` and ANY packet contents):
* `C05_fec_inv_new`             `newFECDecoder` returns a state satisfying the invariant.
* `C05_fec_decode_total`        one call on any byte string with `fecHeaderSize ≤ len ≤ mtuLimit`: no panic, invariant kept.
* `C05_fec_short_input_panics`  fewer than `fecHeaderSize` bytes: panic, state untouched (O3: the callers' guard is necessary).
* `C05_fec_sets_bound`          the invariant bounds the number of shard sets by `maxShardSets + 1`.
* `C05_fec_footprint`           after ANY history from a new decoder: ≤ `maxShardSets + 1` sets, ≤ `(maxShardSets+1)·255`
                                 packets, ≤ `(maxShardSets+1)·255·mtuLimit` bytes, ring of exactly `maxAutoTuneSamples` slots.
* `C05_fec_never_panics`        no call of such a history panics.
* `C05_fec_findPeriod_in_range` every index of the copy loop of `FindPeriod` is inside the ring.
-/
import KcpVerif.Lemmas.FecBound

namespace KcpVerif.Props
open KcpVerif.Gen KcpVerif.AutoTune KcpVerif.Fec KcpVerif.Lemmas.FecBound

/-- `newFECDecoder(d, p)`, when it does not return nil, returns a state satisfying the invariant. -/
theorem C05_fec_inv_new (C : CodecNew) (d p : Nat) (dec : Decoder) (h : Decoder.new C d p = some dec) :
    InvDec dec := inv_new h

-- non-vacuity: the constructor succeeds
example : ∃ dec, Decoder.new rsNew 2 1 = some dec := ⟨_, rfl⟩
example : ∃ dec, Decoder.new rsNew 2 1 = some dec ∧ InvDec dec := ⟨_, rfl, C05_fec_inv_new rsNew 2 1 _ rfl⟩

/-- The main step.  For ANY codec constructor, ANY decoder state satisfying the invariant and ANY
    byte string of admissible length (`fecHeaderSize ≤ len ≤ mtuLimit`, the guards of the callers):
    `decode` does not panic and the new state satisfies the invariant. -/
theorem C05_fec_decode_total (C : CodecNew) (dec : Decoder) (inp : Bytes) (h : InvDec dec)
    (h1 : fecHeaderSize ≤ inp.length) (h2 : inp.length ≤ mtuLimit) :
    (dec.decode C inp).panic = false ∧ InvDec (dec.decode C inp).st :=
  decode_total C dec inp h h1 h2

-- non-vacuity: a concrete 8-byte packet satisfies the size hypotheses
example : fecHeaderSize ≤ ([0, 0, 0, 0, 0xf1, 0, 9, 9] : Bytes).length ∧
    ([0, 0, 0, 0, 0xf1, 0, 9, 9] : Bytes).length ≤ mtuLimit := by decide

/-- O3: an input shorter than the FEC header panics (state untouched) — the length guard of the
    callers is necessary. -/
theorem C05_fec_short_input_panics (C : CodecNew) (dec : Decoder) (inp : Bytes)
    (h : inp.length < fecHeaderSize) :
    (dec.decode C inp).panic = true ∧ (dec.decode C inp).st = dec :=
  decode_short C dec inp h

example : ([1, 2, 3, 4, 5] : Bytes).length < fecHeaderSize := by decide

/-- The invariant bounds the number of shard sets: at most `maxShardSets + 1`, whatever value
    `newest` has (the products `newest·n` may wrap; ids half the id space away are discarded). -/
theorem C05_fec_sets_bound (dec : Decoder) (h : InvDec dec) : dec.sets.length ≤ maxShardSets + 1 :=
  sets_le h

-- non-vacuity and tightness: four packets of four consecutive groups of a 2/1 sender leave
-- exactly `maxShardSets + 1` shard sets
example : ∃ dec0, Decoder.new rsNew 2 1 = some dec0 ∧
    (run rsNew dec0 [[0, 0, 0, 0, 0xf1, 0, 9, 9], [3, 0, 0, 0, 0xf1, 0, 9, 9],
      [6, 0, 0, 0, 0xf1, 0, 9, 9], [9, 0, 0, 0, 0xf1, 0, 9, 9]]).sets.length = maxShardSets + 1 :=
  ⟨_, rfl, by decide +kernel⟩

/-- Footprint after ANY history of packets of admissible length fed to a new decoder: the number
    of shard sets, of held packets and of held bytes are bounded by constants, and the auto-tune
    ring keeps its `maxAutoTuneSamples` slots. -/
theorem C05_fec_footprint (C : CodecNew) (d p : Nat) (dec0 : Decoder) (pkts : List Bytes)
    (h0 : Decoder.new C d p = some dec0)
    (hp : ∀ q ∈ pkts, fecHeaderSize ≤ q.length ∧ q.length ≤ mtuLimit) :
    (run C dec0 pkts).sets.length ≤ maxShardSets + 1 ∧
    heldPackets (run C dec0 pkts) ≤ (maxShardSets + 1) * 255 ∧
    heldBytes (run C dec0 pkts) ≤ (maxShardSets + 1) * 255 * mtuLimit ∧
    (run C dec0 pkts).tune.pulses.length = maxAutoTuneSamples ∧
    (run C dec0 pkts).tune.count ≤ maxAutoTuneSamples := by
  have h := inv_run C (inv_new h0) pkts hp
  exact ⟨sets_le h, held_le_const h, heldBytes_le h, (ring_in_range h).1, (ring_in_range h).2.1⟩

-- non-vacuity: the hypotheses are satisfiable (constructor succeeds, packets of admissible length)
example : ∃ dec0, Decoder.new rsNew 2 1 = some dec0 ∧
    ∀ q ∈ ([[0, 0, 0, 0, 0xf1, 0, 9, 9], [7, 7, 7, 7, 7, 7]] : List Bytes),
      fecHeaderSize ≤ q.length ∧ q.length ≤ mtuLimit := ⟨_, rfl, by decide⟩

/-- No call panics: along any history of packets of admissible length fed to a new decoder, after
    every prefix `pre` the call on the next packet `q` returns normally. -/
theorem C05_fec_never_panics (C : CodecNew) (d p : Nat) (dec0 : Decoder) (pkts : List Bytes)
    (h0 : Decoder.new C d p = some dec0)
    (hp : ∀ q ∈ pkts, fecHeaderSize ≤ q.length ∧ q.length ≤ mtuLimit)
    (pre : List Bytes) (q : Bytes) (post : List Bytes) (hsplit : pkts = pre ++ q :: post) :
    ((run C dec0 pre).decode C q).panic = false :=
  run_never_panics C (inv_new h0) pkts hp pre q post hsplit

-- non-vacuity: a history with a prefix, a next packet and a rest
example : ([[0, 0, 0, 0, 0xf1, 0, 9, 9], [7, 7, 7, 7, 7, 7], [1, 0, 0, 0, 0xf1, 0, 9, 9]] : List Bytes) =
    [[0, 0, 0, 0, 0xf1, 0, 9, 9]] ++ [7, 7, 7, 7, 7, 7] :: [[1, 0, 0, 0, 0xf1, 0, 9, 9]] := rfl

/-- Every index used by the copy loop of `FindPeriod` (`pulses[(head + i) % maxAutoTuneSamples]`,
    `i < count`) is inside the ring, after any history. -/
theorem C05_fec_findPeriod_in_range (C : CodecNew) (d p : Nat) (dec0 : Decoder) (pkts : List Bytes)
    (h0 : Decoder.new C d p = some dec0)
    (hp : ∀ q ∈ pkts, fecHeaderSize ≤ q.length ∧ q.length ≤ mtuLimit) (i : Nat)
    (hi : i < (run C dec0 pkts).tune.count) :
    ((run C dec0 pkts).tune.head + i) % maxAutoTuneSamples < (run C dec0 pkts).tune.pulses.length :=
  (ring_in_range (inv_run C (inv_new h0) pkts hp)).2.2 i hi

-- non-vacuity: after one packet the ring holds one sample, so `i = 0` qualifies
example : ∃ dec0, Decoder.new rsNew 2 1 = some dec0 ∧
    0 < (run rsNew dec0 [[0, 0, 0, 0, 0xf1, 0, 9, 9]]).tune.count := ⟨_, rfl, by decide +kernel⟩

end KcpVerif.Props
