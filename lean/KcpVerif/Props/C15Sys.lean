/-
C15, ownership half: **composition**.  `defaultBufferPool` is one pool for the whole process; the
theorems of `Props/C15Core` and `Props/C15Fec` are about one core / one decoder that has the pool for
itself.  Here: any number of protocol cores and FEC decoders (with the callers that release what the
decoders return) share ONE ghost state — one id counter, one event log — and take turns in any order,
operation by operation, with arbitrary arguments.  The shared log is `Disciplined`
(`C15_sys_disciplined`), and at every moment each owned buffer is held at exactly one place of the
whole system: a queue position of one core, a shard set of one decoder, or the caller's list of
recovered buffers (`C15_sys_held`).  So buffers of different sessions are never shared and a buffer
recycled by one component is never still held by another.

The proof is the frame rule: every operation of a component preserves the invariant for ANY count
`F` of holders outside the component (`OwnInvF`, `decodeO_W`).

Granularity: whole operations are interleaved (each runs under its session's lock); the events of
two operations of DIFFERENT components running concurrently can interleave more finely in the real
process — they concern disjoint buffers, but that finer statement is not proved here.  Not covered:
the session layer's own buffers (output callback, postProcess/txqueue, SendOOB).
-/
import KcpVerif.Props.C15Fec

namespace KcpVerif.Props
open KcpVerif KcpVerif.Kcp KcpVerif.Fec KcpVerif.FecOwn KcpVerif.Own KcpVerif.Pool

/-- several cores and decoders on one pool; the `gh` fields of the components are not used, the
ghost state is the system's -/
structure PoolSys where
  cores   : List KcpO := []
  decs    : List DecO := []
  pending : List Nat := []      -- recovered buffers a decoder has returned and the caller has not yet released
  gh      : Ghost := {}

inductive PoolSysOp where
  | core (i : Nat) (op : Kcp.Op)              -- an operation of core `i`
  | decode (j : Nat) (inp : Fec.Bytes)        -- decoder `j` decodes; what it returns becomes pending
  | release                                    -- the caller reads and recycles the oldest pending buffer
  | newCore (conv snd0 rcv0 : U32)
  | newDec (dec : Decoder)                     -- a decoder that stores nothing yet

def sysStep (C : CodecNew) (s : PoolSys) : PoolSysOp → PoolSys
  | .core i op =>
    match s.cores[i]? with
    | some o => { s with cores := s.cores.set i (stepO { o with gh := s.gh } op),
                         gh := (stepO { o with gh := s.gh } op).gh }
    | none => s
  | .decode j inp =>
    match s.decs[j]? with
    | some d => { s with decs := s.decs.set j (decodeO C { d with gh := s.gh } inp).o,
                         pending := s.pending ++ (decodeO C { d with gh := s.gh } inp).rbufs,
                         gh := (decodeO C { d with gh := s.gh } inp).o.gh }
    | none => s
  | .release =>
    match s.pending with
    | id :: rest => { s with pending := rest, gh := (s.gh.use (some id)).recycle (some id) }
    | [] => s
  | .newCore c a b => { s with cores := s.cores ++ [startO c a b] }
  | .newDec dec => if dec.sets.isEmpty then { s with decs := s.decs ++ [startD dec] } else s

def sysRun (C : CodecNew) (s : PoolSys) (ops : List PoolSysOp) : PoolSys := ops.foldl (sysStep C) s

def c15SumC (id : Nat) : List KcpO → Nat
  | [] => 0
  | o :: l => held o id + c15SumC id l

def c15SumD (id : Nat) : List DecO → Nat
  | [] => 0
  | d :: l => cntS id d.sets + c15SumD id l

/-- number of places of the whole system that hold buffer `id` -/
def c15Total (s : PoolSys) (id : Nat) : Nat := c15SumC id s.cores + c15SumD id s.decs + cntI id s.pending

structure PoolSysInv (s : PoolSys) : Prop where
  cores : ∀ o ∈ s.cores, Sync o
  decs  : ∀ d ∈ s.decs, d.dec.sets = erSets d.sets
  w     : W s.gh (c15Total s)

theorem C15_aux_sumC_append (id : Nat) (a b : List KcpO) : c15SumC id (a ++ b) = c15SumC id a + c15SumC id b := by
  induction a with
  | nil => simp [c15SumC]
  | cons x a ih => simp only [List.cons_append, c15SumC, ih]; omega

theorem C15_aux_sumD_append (id : Nat) (a b : List DecO) : c15SumD id (a ++ b) = c15SumD id a + c15SumD id b := by
  induction a with
  | nil => simp [c15SumD]
  | cons x a ih => simp only [List.cons_append, c15SumD, ih]; omega

theorem C15_aux_cntI_append (id : Nat) (a b : List Nat) : cntI id (a ++ b) = cntI id a + cntI id b := by
  induction a with
  | nil => simp [cntI]
  | cons x a ih => simp only [List.cons_append, cntI, ih]; omega

theorem C15_aux_split {α : Type} {l : List α} {i : Nat} {x : α} (h : l[i]? = some x) :
    ∃ a b, l = a ++ x :: b ∧ ∀ y, l.set i y = a ++ y :: b := by
  induction l generalizing i with
  | nil => simp at h
  | cons z l ih =>
    cases i with
    | zero =>
      simp only [List.getElem?_cons_zero, Option.some.injEq] at h
      subst h
      exact ⟨[], l, rfl, fun y => rfl⟩
    | succ i =>
      simp only [List.getElem?_cons_succ] at h
      obtain ⟨a, b, h1, h2⟩ := ih h
      exact ⟨z :: a, b, by rw [h1]; rfl, fun y => by rw [List.set_cons_succ, h2]; rfl⟩

theorem C15_aux_sys_step (C : CodecNew) {s : PoolSys} (h : PoolSysInv s) (op : PoolSysOp) : PoolSysInv (sysStep C s op) := by
  cases op with
  | core i op =>
    simp only [sysStep]
    split
    · rename_i o ho
      obtain ⟨a, b, hl, hset⟩ := C15_aux_split ho
      have hso : Sync o := h.cores o (by rw [hl]; simp)
      have hin : OwnInvF (fun id => c15SumC id a + c15SumC id b + c15SumD id s.decs + cntI id s.pending) { o with gh := s.gh } :=
        ⟨⟨hso.sq, hso.sb, hso.rb, hso.rq⟩, h.w.congr (fun id => by
          unfold c15Total; rw [hl, C15_aux_sumC_append]; simp only [c15SumC]
          show held o id + _ = _
          omega)⟩
      have hout := C15_aux_inv_step hin op
      refine ⟨?_, h.decs, ?_⟩
      · intro x hx
        rw [hset] at hx
        rcases List.mem_append.1 hx with hx | hx
        · exact h.cores x (by rw [hl]; exact List.mem_append_left _ hx)
        · rcases List.mem_cons.1 hx with rfl | hx
          · exact hout.sync
          · exact h.cores x (by rw [hl]; exact List.mem_append_right _ (List.mem_cons_of_mem _ hx))
      · refine hout.w.congr (fun id => ?_)
        unfold c15Total
        simp only []
        rw [hset, C15_aux_sumC_append]; simp only [c15SumC]
        omega
    · exact h
  | decode j inp =>
    simp only [sysStep]
    split
    · rename_i d hd
      obtain ⟨a, b, hl, hset⟩ := C15_aux_split hd
      have hsd : d.dec.sets = erSets d.sets := h.decs d (by rw [hl]; simp)
      have hin : W s.gh (fun id => cntS id d.sets + (c15SumC id s.cores + c15SumD id a + c15SumD id b + cntI id s.pending)) :=
        h.w.congr (fun id => by unfold c15Total; rw [hl, C15_aux_sumD_append]; simp only [c15SumD]; omega)
      have hout := decodeO_W C { d with gh := s.gh } inp _ hin
      refine ⟨h.cores, ?_, ?_⟩
      · intro x hx
        rw [hset] at hx
        rcases List.mem_append.1 hx with hx | hx
        · exact h.decs x (by rw [hl]; exact List.mem_append_left _ hx)
        · rcases List.mem_cons.1 hx with rfl | hx
          · have e := decodeO_er C { d with gh := s.gh } inp hsd
            rw [e.1]; exact e.2.2.2
          · exact h.decs x (by rw [hl]; exact List.mem_append_right _ (List.mem_cons_of_mem _ hx))
      · refine hout.congr (fun id => ?_)
        unfold c15Total
        simp only []
        rw [hset, C15_aux_sumD_append, C15_aux_cntI_append]; simp only [c15SumD]
        omega
    · exact h
  | release =>
    simp only [sysStep]
    split
    · rename_i id rest hp
      have hin : W s.gh (fun x => oc (some id) x + (c15SumC x s.cores + c15SumD x s.decs + cntI x rest)) :=
        h.w.congr (fun x => by unfold c15Total; rw [hp]; simp only [cntI]; omega)
      exact ⟨h.cores, h.decs, hin.use.recycle.congr (fun x => by unfold c15Total; simp only [])⟩
    · exact h
  | newCore c a b =>
    refine ⟨?_, h.decs, ?_⟩
    · intro x hx
      rcases List.mem_append.1 hx with hx | hx
      · exact h.cores x hx
      · rw [List.mem_singleton.1 hx]; exact ⟨rfl, rfl, rfl, rfl⟩
    · refine h.w.congr (fun id => ?_)
      show c15SumC id (s.cores ++ [startO c a b]) + c15SumD id s.decs + cntI id s.pending = c15Total s id
      rw [C15_aux_sumC_append]
      unfold c15Total
      have : c15SumC id [startO c a b] = 0 := rfl
      omega
  | newDec dec =>
    simp only [sysStep]
    split
    · rename_i he
      refine ⟨h.cores, ?_, ?_⟩
      · intro x hx
        rcases List.mem_append.1 hx with hx | hx
        · exact h.decs x hx
        · rw [List.mem_singleton.1 hx]
          show dec.sets = []
          exact List.isEmpty_iff.1 he
      · refine h.w.congr (fun id => ?_)
        show c15SumC id s.cores + c15SumD id (s.decs ++ [startD dec]) + cntI id s.pending = c15Total s id
        rw [C15_aux_sumD_append]
        unfold c15Total
        have : c15SumD id [startD dec] = 0 := rfl
        omega
    · exact h

theorem C15_aux_sys_run (C : CodecNew) {s : PoolSys} (h : PoolSysInv s) (ops : List PoolSysOp) : PoolSysInv (sysRun C s ops) := by
  induction ops generalizing s with
  | nil => exact h
  | cons op ops ih => exact ih (C15_aux_sys_step C h op)

theorem C15_aux_sys_init : PoolSysInv {} :=
  ⟨fun _ h => (by cases h), fun _ h => (by cases h), W.init.congr (fun _ => rfl)⟩

/-- **Cores, decoders and their callers on one pool are disciplined**: for every schedule of
operations (with arbitrary arguments) of any number of cores and decoders created along the way,
the one log of pool events is `Disciplined` — recycled at most once per acquisition, never used
after being recycled, never handed out while owned. -/
theorem C15_sys_disciplined (C : CodecNew) (ops : List PoolSysOp) : Disciplined (sysRun C {} ops).gh.log :=
  (C15_sanitizer_sound _).mp (C15_aux_sys_run C C15_aux_sys_init ops).w.ok

/-- **One holder in the whole system**: a buffer is held at no more than one place — a queue
position of one core, a shard set of one decoder, or the caller's recovered list — and whatever is
held is owned (not in the pool).  Two sessions never share a buffer. -/
theorem C15_sys_held (C : CodecNew) (ops : List PoolSysOp) (id : Nat) :
    c15Total (sysRun C {} ops) id ≤ 1 ∧
    (c15Total (sysRun C {} ops) id = 1 → holds (sysRun C {} ops).gh.log.reverse id = true) := by
  have hw := (C15_aux_sys_run C C15_aux_sys_init ops).w
  have hag := C15_aux_replay_agree _ St.init [] C15_aux_agree_init hw.ok
  rw [List.append_nil] at hag
  have hb := hw.bal id
  constructor
  · split at hb <;> omega
  · intro h1
    apply (hag id).mp
    by_cases hm : id ∈ owned (sysRun C {} ops).gh
    · exact hm
    · simp only [hm, if_false] at hb; omega

/-! ### the discipline is a property of each buffer's own events

This is what lifts the operation-level schedules above to real concurrency: operations of different
sessions run concurrently, so their pool events interleave more finely than whole operations; but a
reordering that keeps the order of every single buffer's events keeps the discipline. -/

/-- the buffer an event is about -/
def c15EvId : Ev → Nat
  | .get id => id
  | .put id => id
  | .use id => id

/-- the events of one buffer, in order -/
def c15Proj (id : Nat) (l : List Ev) : List Ev := l.filter (fun e => c15EvId e == id)

theorem C15_aux_holds_proj (h : List Ev) (id : Nat) : holds (c15Proj id h) id = holds h id := by
  induction h with
  | nil => rfl
  | cons e h ih =>
    unfold c15Proj at ih ⊢
    rw [List.filter_cons]
    cases e with
    | get j =>
      by_cases hj : j = id
      · subst hj; simp [c15EvId, holds]
      · have : (c15EvId (.get j) == id) = false := by simp [c15EvId, hj]
        rw [this]; simp only [Bool.false_eq_true, if_false, holds, hj]; exact ih
    | put j =>
      by_cases hj : j = id
      · subst hj; simp [c15EvId, holds]
      · have : (c15EvId (.put j) == id) = false := by simp [c15EvId, hj]
        rw [this]; simp only [Bool.false_eq_true, if_false, holds, hj]; exact ih
    | use j =>
      by_cases hj : j = id
      · subst hj; simp only [c15EvId, beq_self_eq_true, if_true, holds]; exact ih
      · have : (c15EvId (.use j) == id) = false := by simp [c15EvId, hj]
        rw [this]; simp only [Bool.false_eq_true, if_false, holds]; exact ih

theorem C15_aux_okAt_proj (h : List Ev) (e : Ev) : okAt (c15Proj (c15EvId e) h) e = okAt h e := by
  cases e <;> simp only [okAt, c15EvId, C15_aux_holds_proj]

/-- **Per-buffer characterisation**: a log is disciplined iff, for every buffer, the sub-log of that
buffer's own events is. -/
theorem C15_disciplined_per_buffer (l : List Ev) : Disciplined l ↔ ∀ id, Disciplined (c15Proj id l) := by
  constructor
  · intro hd id p e r hl
    unfold c15Proj at hl
    obtain ⟨l₁, l₂, h1, h2, h3⟩ := List.filter_eq_append_iff.1 hl
    obtain ⟨m₁, m₂, h4, h5, h6, _⟩ := List.filter_eq_cons_iff.1 h3
    have hid : c15EvId e = id := by simpa using h6
    have hok := hd (l₁ ++ m₁) e m₂ (by rw [h1, h4, List.append_assoc])
    rw [← C15_aux_okAt_proj, hid] at hok
    have hp : c15Proj id (l₁ ++ m₁).reverse = p.reverse := by
      unfold c15Proj
      rw [List.filter_reverse, List.filter_append, h2]
      have : List.filter (fun e => c15EvId e == id) m₁ = [] := List.filter_eq_nil_iff.2 h5
      rw [this, List.append_nil]
    rw [hp] at hok
    exact hok
  · intro hd p e r hl
    have h1 : c15Proj (c15EvId e) l = c15Proj (c15EvId e) p ++ e :: c15Proj (c15EvId e) r := by
      unfold c15Proj
      rw [hl, List.filter_append, List.filter_cons]
      simp
    have hok := hd (c15EvId e) _ e _ h1
    have hp : (c15Proj (c15EvId e) p).reverse = c15Proj (c15EvId e) p.reverse := by
      unfold c15Proj; rw [List.filter_reverse]
    rw [hp, C15_aux_okAt_proj] at hok
    exact hok

/-- every prefix of a disciplined log is disciplined (an operation cut short by a panic leaves a prefix
of the events the instrumented models log for it) -/
theorem C15_disciplined_prefix {l l' : List Ev} (hd : Disciplined (l ++ l')) : Disciplined l := by
  intro p e r hl
  exact hd p e (r ++ l') (by rw [hl]; simp)

/-- **Finer interleavings**: any reordering of a disciplined log that keeps the order of each
buffer's own events is disciplined.  With `C15_sys_disciplined`: however the pool events of
concurrently running operations of different sessions interleave, as long as every buffer sees its
events in the order of some operation-level schedule, the process's log is disciplined. -/
theorem C15_disciplined_reorder {l l' : List Ev} (h : ∀ id, c15Proj id l' = c15Proj id l) (hd : Disciplined l) :
    Disciplined l' := by
  rw [C15_disciplined_per_buffer] at hd ⊢
  intro id; rw [h id]; exact hd id

example : Disciplined [.get 0, .get 1, .use 1, .use 0, .put 0, .put 1] :=
  C15_disciplined_reorder (l := [.get 0, .use 0, .put 0, .get 1, .use 1, .put 1])
    (fun id => by
      by_cases h0 : id = 0
      · subst h0; decide
      · by_cases h1 : id = 1
        · subst h1; decide
        · simp [c15Proj, c15EvId, Ne.symm h0, Ne.symm h1])
    ((C15_sanitizer_sound _).mp (by decide))

/-! ### non-vacuity: two cores and a decoder take turns -/

def c15ExSys : List PoolSysOp :=
  [.newCore 7 0 0, .newCore 7 0 0, .newDec ((Decoder.new rsNew 2 1).getD
      { d := 2, p := 1, n := 3, paws := 0, newest := 0, shouldTune := false, tune := AutoTune.Tune.init, sets := [], codec := rsNew 2 1 }),
   .core 0 (.noDelay 1 10 2 1), .core 0 (.send [1, 2, 3]), .decode 0 c15ExD1, .core 1 (.send [4]),
   .core 0 (.flush true 10), .decode 0 c15ExPar, .core 1 (.input (c15ExHdr 81 0 0 2 ++ [9, 9]) true false 23),
   .release, .core 0 (.input (c15ExHdr 82 0 1 0) true false 30), .core 1 (.recv 100)]

set_option maxRecDepth 100000 in
example : (sysRun rsNew {} c15ExSys).gh.log =
    [.get 0, .get 1, .get 2, .use 0, .get 3, .use 1, .use 3, .use 1, .use 3, .get 4, .put 1, .put 3, .get 5,
     .use 4, .put 4, .put 0, .use 5, .put 5] := by decide

end KcpVerif.Props
