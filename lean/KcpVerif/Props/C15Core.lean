/-
C15, ownership half, for the protocol core (kcp.go): **the code is disciplined**.

`Props/C15.lean` proves the checker (`sanitize l = .ok ↔ Disciplined l`) and leaves
`C15_code_disciplined_full` open.  Here it is proved for the protocol core on the instrumented
model `Model/KcpOwn` (the tied model `Model/Kcp` plus, per queued segment, the identity of the pool
buffer backing its data, and a ghost event log): for EVERY sequence of operations with arbitrary
arguments — any bytes for `Input`, so forged ACKs for segments that are already acknowledged,
cumulative acks passing acknowledged segments, duplicate and overlapping PUSHes are all included —

* the event log is `Disciplined`: a buffer is recycled at most once per acquisition and never read
  or written after it has been recycled (`C15_core_disciplined`, with its consequences
  `C15_core_put_once`, `C15_core_no_use_after_put`);
* at every moment a buffer is held by at most one queue position, every held buffer is owned (not
  in the pool), and no recycled buffer is held anywhere (`C15_core_held`);
* no leak: every buffer acquired and not yet recycled is held by exactly one queue position — or
  was acquired by a `Get()[:n]` that panicked (`C15_core_no_leak`; such panics are unreachable
  through `Input`, and through `Send` after the `SetMtu` repair: C05/C10);
* the instrumented model is the tied model: erasing the ids gives the queues of `Model/Kcp`'s run
  on the same operations (`C15_core_erasure`).

The tie of the ghost part to the real code is component `kcpown`: per operation the real
`bufferPool.Get/Put` events (numbered by acquisition) and the buffer held at every queue position
are compared with this model.
-/
import KcpVerif.Props.C15
import KcpVerif.Lemmas.KcpOwnAligned
import KcpVerif.Lemmas.KcpOwnLost

namespace KcpVerif.Props
open KcpVerif KcpVerif.Kcp KcpVerif.Pool KcpVerif.Own KcpVerif.Lemmas.KcpFlush KcpVerif.Lemmas.KcpMss

/-- one operation of the instrumented core (the operations are those of `Kcp.Op`) -/
def stepO (o : KcpO) : Kcp.Op → KcpO
  | .send b => (sendO o b).o
  | .recv n => (recvO o n).o
  | .input d reg nd now => (inputO o d reg nd now).o
  | .flush full now => (flushO o full now).o
  | .update now => (updateO o now).o
  | .setMtu m => { o with k := (o.k.setMtu m).1 }
  | .noDelay a b c d => { o with k := o.k.noDelay a b c d }
  | .wndSize s r => { o with k := o.k.wndSize s r }
  | .setStream v => { o with k := { o.k with stream := v } }

def runO (o : KcpO) (ops : List Kcp.Op) : KcpO := ops.foldl stepO o

/-- a fresh instrumented core whose sequence numbers start anywhere (cf. `Kcp.start`) -/
def startO (conv snd0 rcv0 : U32) : KcpO := { k := Kcp.start conv snd0 rcv0 }

/-- **Erasure, one step**: the model component of the instrumented step is the model's step. -/
theorem C15_core_step_erasure (o : KcpO) (op : Kcp.Op) : (stepO o op).k = Kcp.step o.k op := by
  cases op with
  | send b => exact sendO_k o b
  | recv n => exact recvO_k o n
  | input d reg nd now => exact inputO_k o d reg nd now
  | flush full now => rfl
  | update now => exact updateO_k o now
  | setMtu m => rfl
  | noDelay a b c d => rfl
  | wndSize s r => rfl
  | setStream v => rfl

theorem C15_aux_inv_step {F : Nat → Nat} {o : KcpO} (h : OwnInvF F o) (op : Kcp.Op) : OwnInvF F (stepO o op) := by
  cases op with
  | send b => exact sendO_inv h b
  | recv n => exact recvO_inv h n
  | input d reg nd now => exact inputO_inv h d reg nd now
  | flush full now => exact flushO_inv h full now
  | update now => exact updateO_inv h now
  | setMtu m =>
    obtain ⟨a, b, c, hk⟩ := setMtu_shape o.k m
    show OwnInvF F { o with k := (o.k.setMtu m).1 }
    apply h.setK <;> (rw [hk])
  | noDelay a b c d =>
    obtain ⟨nd, mr, iv, fr, nc, hk⟩ := noDelay_shape o.k a b c d
    show OwnInvF F { o with k := o.k.noDelay a b c d }
    apply h.setK <;> (rw [hk])
  | wndSize s r =>
    show OwnInvF F { o with k := o.k.wndSize s r }
    apply h.setK <;> (unfold wndSize; simp only []; split <;> split <;> rfl)
  | setStream v => exact h.setK rfl rfl rfl rfl

theorem C15_aux_inv_run {o : KcpO} (h : OwnInv o) (ops : List Kcp.Op) : OwnInv (runO o ops) := by
  induction ops generalizing o with
  | nil => exact h
  | cons op ops ih => exact ih (C15_aux_inv_step h op)

theorem C15_aux_inv_start (conv snd0 rcv0 : U32) : OwnInv (startO conv snd0 rcv0) :=
  ⟨⟨rfl, rfl, rfl, rfl⟩, W.init.congr (fun _ => rfl)⟩

/-- **Erasure**: the instrumented run is the tied model's run plus ghost fields — its model
component is `Kcp.run` on the same operations, and forgetting the buffer ids of the instrumented
queues gives exactly that state's queues. -/
theorem C15_core_erasure (conv snd0 rcv0 : U32) (ops : List Kcp.Op) :
    (runO (startO conv snd0 rcv0) ops).k = Kcp.run (Kcp.start conv snd0 rcv0) ops ∧
    er (runO (startO conv snd0 rcv0) ops).sq = (Kcp.run (Kcp.start conv snd0 rcv0) ops).snd_queue ∧
    er (runO (startO conv snd0 rcv0) ops).sb = (Kcp.run (Kcp.start conv snd0 rcv0) ops).snd_buf ∧
    er (runO (startO conv snd0 rcv0) ops).rb = (Kcp.run (Kcp.start conv snd0 rcv0) ops).rcv_buf ∧
    er (runO (startO conv snd0 rcv0) ops).rq = (Kcp.run (Kcp.start conv snd0 rcv0) ops).rcv_queue := by
  have hk : ∀ (o : KcpO) (ops : List Kcp.Op), (runO o ops).k = Kcp.run o.k ops := by
    intro o ops
    induction ops generalizing o with
    | nil => rfl
    | cons op ops ih =>
      show (runO (stepO o op) ops).k = Kcp.run (Kcp.step o.k op) ops
      rw [ih, C15_core_step_erasure]
  have hs := (C15_aux_inv_run (C15_aux_inv_start conv snd0 rcv0) ops).sync
  have hk' := hk (startO conv snd0 rcv0) ops
  refine ⟨hk', ?_, ?_, ?_, ?_⟩
  · rw [← hs.sq, hk']; rfl
  · rw [← hs.sb, hk']; rfl
  · rw [← hs.rb, hk']; rfl
  · rw [← hs.rq, hk']; rfl

/-- **The protocol core is disciplined.**  Whatever the application and the network do — every
list of operations from a fresh core (any conversation id, any initial sequence numbers), with
arbitrary arguments — the log of pool events of the core is accepted by the sanitizer, i.e. it is
`Disciplined`: every put and every use of a buffer happens while the buffer is owned, every get
hands out a buffer nobody owns.  This is `C15_code_disciplined_full` for the logs of the core. -/
theorem C15_core_disciplined (conv snd0 rcv0 : U32) (ops : List Kcp.Op) :
    Disciplined (runO (startO conv snd0 rcv0) ops).gh.log :=
  (C15_sanitizer_sound _).mp (C15_aux_inv_run (C15_aux_inv_start conv snd0 rcv0) ops).w.ok

/-- the statement left open in `Props/C15.lean`, instantiated with the logs of the protocol core -/
theorem C15_core_code_disciplined :
    C15_code_disciplined_full (fun l => ∃ conv snd0 rcv0 ops, l = (runO (startO conv snd0 rcv0) ops).gh.log) := by
  rintro l ⟨conv, snd0, rcv0, ops, rfl⟩
  exact C15_core_disciplined conv snd0 rcv0 ops

/-- **recycled at most once per acquisition**: between two puts of a buffer in the core's log there is a get -/
theorem C15_core_put_once (conv snd0 rcv0 : U32) (ops : List Kcp.Op) {a b c : List Ev} {id : Nat}
    (hl : (runO (startO conv snd0 rcv0) ops).gh.log = a ++ .put id :: (b ++ .put id :: c)) : .get id ∈ b :=
  C15_put_once (C15_core_disciplined conv snd0 rcv0 ops) hl

/-- **never read or written after it has been recycled** -/
theorem C15_core_no_use_after_put (conv snd0 rcv0 : U32) (ops : List Kcp.Op) {a b c : List Ev} {id : Nat}
    (hl : (runO (startO conv snd0 rcv0) ops).gh.log = a ++ .put id :: (b ++ .use id :: c)) : .get id ∈ b :=
  C15_no_use_after_put (C15_core_disciplined conv snd0 rcv0 ops) hl

/-- the sanitizer state after an accepted log agrees with `holds` on the log -/
theorem C15_aux_replay_agree (l : List Ev) : ∀ (s : St) (h : List Ev), Agree s h → sanitizeFrom s l = .ok →
    Agree (replay s l) (l.reverse ++ h) := by
  induction l with
  | nil => intro s h ha _; simpa [replay] using ha
  | cons e l ih =>
    intro s h ha hs
    have hv : (step s e).v = .ok := by
      by_cases hv : (step s e).v = .ok
      · exact hv
      · simp only [sanitizeFrom, hv, if_false] at hs
    simp only [sanitizeFrom, hv, if_true] at hs
    have := ih _ _ (C15_aux_step_agree ha e hv) hs
    simpa [replay, List.reverse_cons, List.append_assoc] using this

/-- **One holder, and only of owned buffers.**  In every reachable state: a buffer is held by at
most one position of `snd_queue ++ snd_buf ++ rcv_buf ++ rcv_queue` (`held` counts positions), and a
buffer that is held is owned — the most recent get/put event of it in the log is a get; in
particular a buffer that has been recycled is held nowhere (`data = nil` after `recycleSegment`
and the `data != nil` guard are what make this true for ACKed-then-UNA'd segments). -/
theorem C15_core_held (conv snd0 rcv0 : U32) (ops : List Kcp.Op) (id : Nat) :
    held (runO (startO conv snd0 rcv0) ops) id ≤ 1 ∧
    (held (runO (startO conv snd0 rcv0) ops) id = 1 →
      holds (runO (startO conv snd0 rcv0) ops).gh.log.reverse id = true) := by
  have hw := (C15_aux_inv_run (C15_aux_inv_start conv snd0 rcv0) ops).w
  have hag := C15_aux_replay_agree _ St.init [] C15_aux_agree_init hw.ok
  rw [List.append_nil] at hag
  have hb := hw.bal id
  constructor
  · split at hb <;> omega
  · intro h1
    apply (hag id).mp
    by_cases hm : id ∈ owned (runO (startO conv snd0 rcv0) ops).gh
    · exact hm
    · simp only [hm, if_false] at hb; omega

/-- **No leak in the core**: a buffer that has been acquired and not recycled since is held by
exactly one queue position, or it is one of the buffers whose `Get()[:n]` panicked (`lost`). -/
theorem C15_core_no_leak (conv snd0 rcv0 : U32) (ops : List Kcp.Op) (id : Nat)
    (h : holds (runO (startO conv snd0 rcv0) ops).gh.log.reverse id = true) :
    held (runO (startO conv snd0 rcv0) ops) id + (runO (startO conv snd0 rcv0) ops).gh.lost.count id = 1 := by
  have hw := (C15_aux_inv_run (C15_aux_inv_start conv snd0 rcv0) ops).w
  have hag := C15_aux_replay_agree _ St.init [] C15_aux_agree_init hw.ok
  rw [List.append_nil] at hag
  have hb := hw.bal id
  have hm : id ∈ owned (runO (startO conv snd0 rcv0) ops).gh := (hag id).mpr h
  simp only [hm, if_true] at hb
  omega

/-- ids are acquisition numbers: the `n`-th `Get` of a run hands out id `n` (this is the numbering
the harness applies to the real sanitizer's log), so every get in the log is of a fresh id -/
theorem C15_core_fresh (conv snd0 rcv0 : U32) (ops : List Kcp.Op) (id : Nat)
    (h : holds (runO (startO conv snd0 rcv0) ops).gh.log.reverse id = true) :
    id < (runO (startO conv snd0 rcv0) ops).gh.next := by
  have hw := (C15_aux_inv_run (C15_aux_inv_start conv snd0 rcv0) ops).w
  have hag := C15_aux_replay_agree _ St.init [] C15_aux_agree_init hw.ok
  rw [List.append_nil] at hag
  exact hw.fresh id ((hag id).mpr h)

theorem C15_aux_al_step {o : KcpO} (hs : Sync o) (h : Aligned o) (op : Kcp.Op) : Aligned (stepO o op) := by
  cases op with
  | send b => exact sendO_al h b
  | recv n => exact recvO_al h n
  | input d reg nd now => exact inputO_al hs h d reg nd now
  | flush full now => exact flushO_al hs h full now
  | update now => exact updateO_al hs h now
  | setMtu m => exact h.setK _
  | noDelay a b c d => exact h.setK _
  | wndSize s r => exact h.setK _
  | setStream v => exact h.setK _

theorem C15_aux_al_run {o : KcpO} (hi : OwnInv o) (h : Aligned o) (ops : List Kcp.Op) : Aligned (runO o ops) := by
  induction ops generalizing o with
  | nil => exact h
  | cons op ops ih => exact ih (C15_aux_inv_step hi op) (C15_aux_al_step hi.sync h op)

/-- **The buffer ids are aligned with the segments.**  In every reachable state a segment of snd_buf
has given its buffer back exactly if it is marked acked (`seg.data == nil ↔ seg.acked == 1`), and
every segment of snd_queue, rcv_buf and rcv_queue owns a buffer.  So the read sites never meet a
recycled segment: phase 5 of flush skips acked segments — everything it transmits still owns its
buffer — and Recv copies out of segments that own theirs. -/
theorem C15_core_aligned (conv snd0 rcv0 : U32) (ops : List Kcp.Op) :
    (∀ x ∈ (runO (startO conv snd0 rcv0) ops).sq, x.buf ≠ none ∧ x.s.acked = false) ∧
    (∀ x ∈ (runO (startO conv snd0 rcv0) ops).sb, (x.buf = none ↔ x.s.acked = true)) ∧
    (∀ x ∈ (runO (startO conv snd0 rcv0) ops).rb, x.buf ≠ none) ∧
    (∀ x ∈ (runO (startO conv snd0 rcv0) ops).rq, x.buf ≠ none) := by
  have h := C15_aux_al_run (C15_aux_inv_start conv snd0 rcv0)
    (⟨fun _ h => (by cases h), fun _ h => (by cases h), fun _ h => (by cases h), fun _ h => (by cases h)⟩ :
      Aligned (startO conv snd0 rcv0)) ops
  exact ⟨h.sq, h.sb, h.rb, h.rq⟩

theorem C15_aux_mss_step {o : KcpO} (hs : Sync o) (ha : Aligned o) (h : InvMss o.k) (op : Kcp.Op) :
    InvMss (stepO o op).k ∧ (stepO o op).gh.lost = o.gh.lost := by
  rw [C15_core_step_erasure]
  cases op with
  | send b => exact ⟨(send_ok o.k b h).2.1, sendO_lost h b⟩
  | recv n => exact ⟨inv_of_view h (recv_view o.k n), recvO_lost o n⟩
  | input d reg nd now => exact ⟨(input_ok o.k d reg nd now h).2.2.1, inputO_lost o hs ha d reg nd now⟩
  | flush full now => exact ⟨(flush_ok o.k full now h).2.2.1, flushO_lost o full now⟩
  | update now => exact ⟨(update_ok o.k now h).2.2.1, updateO_lost o now⟩
  | setMtu m => exact ⟨setMtu_inv o.k m h, rfl⟩
  | noDelay a b c d => exact ⟨inv_of_view h (noDelay_view o.k a b c d), rfl⟩
  | wndSize s r => exact ⟨inv_of_view h (wndSize_view o.k s r), rfl⟩
  | setStream v => exact ⟨inv_of_view h rfl, rfl⟩

/-- **Nothing is ever dropped**: in a run from a fresh core no buffer is acquired and then abandoned
(the `Get()[:n]` panics are unreachable: `Input` checks the length first, `Send` slices at most
`mss ≤ mtuLimit` bytes by the MTU invariant of C10; `shrink_buf` pops only acked segments, which have
given their buffer back — `C15_core_aligned`), so `C15_core_no_leak` holds without exception:
every buffer acquired and not yet recycled is held by exactly one queue position. -/
theorem C15_core_no_leak_exact (conv snd0 rcv0 : U32) (ops : List Kcp.Op) (id : Nat) :
    (runO (startO conv snd0 rcv0) ops).gh.lost = [] ∧
    (holds (runO (startO conv snd0 rcv0) ops).gh.log.reverse id = true ↔
      held (runO (startO conv snd0 rcv0) ops) id = 1) := by
  have key : ∀ (o : KcpO) (ops : List Kcp.Op), OwnInv o → Aligned o → InvMss o.k → (runO o ops).gh.lost = o.gh.lost := by
    intro o ops
    induction ops generalizing o with
    | nil => intro _ _ _; rfl
    | cons op ops ih =>
      intro hi ha h
      obtain ⟨h1, h2⟩ := C15_aux_mss_step hi.sync ha h op
      show (runO (stepO o op) ops).gh.lost = _
      rw [ih _ (C15_aux_inv_step hi op) (C15_aux_al_step hi.sync ha op) h1, h2]
  have h0 : InvMss (startO conv snd0 rcv0).k := inv_of_view (new_inv conv) rfl
  have hl : (runO (startO conv snd0 rcv0) ops).gh.lost = [] :=
    key _ ops (C15_aux_inv_start conv snd0 rcv0)
      (⟨fun _ h => (by cases h), fun _ h => (by cases h), fun _ h => (by cases h), fun _ h => (by cases h)⟩ :
        Aligned (startO conv snd0 rcv0)) h0
  refine ⟨hl, ?_, ?_⟩
  · intro hh
    have := C15_core_no_leak conv snd0 rcv0 ops id hh
    rw [hl] at this
    simpa using this
  · exact (C15_core_held conv snd0 rcv0 ops id).2

/-! ### non-vacuity: a concrete history with the interesting cases -/

/-- header of one segment -/
def c15ExHdr (cmd : Nat) (sn una : Nat) (len : Nat) : Bytes :=
  Kcp.encodeHdr 7 (BitVec.ofNat 8 cmd) 0 32 0 (BitVec.ofNat 32 sn) (BitVec.ofNat 32 una) len

/-- congestion control off (the first flush admits); two messages sent and transmitted; ACK for sn 1, the same ACK again (must not put twice), a
cumulative ack passing both (must put sn 0 only), a PUSH sn 0 twice (one get), a Recv -/
def c15ExOps : List Kcp.Op :=
  [.noDelay 1 10 2 1, .send [1, 2, 3], .send [4, 5], .flush true 10,
   .input (c15ExHdr 82 1 0 0) true false 20,
   .input (c15ExHdr 82 1 0 0) true false 21,
   .input (c15ExHdr 84 0 2 0) true false 22,
   .input (c15ExHdr 81 0 0 2 ++ [9, 9]) true false 23,
   .input (c15ExHdr 81 0 0 2 ++ [9, 9]) true false 24,
   .recv 100]


example : (runO (startO 7 0 0) c15ExOps).gh.log =
    [.get 0, .get 1, .use 0, .use 1, .put 1, .put 0, .get 2, .use 2, .put 2] := by decide
example : sanitize (runO (startO 7 0 0) c15ExOps).gh.log = .ok := by decide
example : (runO (startO 7 0 0) (c15ExOps.take 6)).sb.map (·.buf) = [some 0, none] := by decide

end KcpVerif.Props
