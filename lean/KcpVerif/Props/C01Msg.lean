import KcpVerif.Lemmas.C01Msg
/-!
C01 — message-mode composition (`C01_core_msg`, DESIGN.md 7.1 and 13): for two fresh cores, the
writer in message mode, under the same replay-only network as `C01_core`, the list of messages
returned by the reader's successful `Recv` calls is a prefix of the list of messages the writer's
`Send` accepted — each message with its original boundaries.

Ingredients (all in `Lemmas/C01Grp.lean`, `Lemmas/C01Msg.lean`):
* `grp`: a list of segment contents `(frg, data)` is cut into messages at every `frg = 0`;
* writer (`InvM`): `accM = grp (L ++ snd_queue)` in every reachable state (`L` = contents numbered so far);
* reader (`InvMB`): `got = grp dl` and `dl` ends on a message boundary;
* system (`rcv_le_log`): the reader has never accepted more segments than the writer has numbered.

Range hypothesis: the writer has numbered fewer than 2^32 segments (`C01_core` needs `≤ 2^32` on both
sides; here the strict bound on the writer's side implies the reader's, see `C01_reader_behind`).
-/
namespace KcpVerif.Props
open KcpVerif KcpVerif.Gen KcpVerif.Kcp KcpVerif.Frame KcpVerif.Recv KcpVerif.Send KcpVerif.Wire KcpVerif.C01

/-- **The reader never runs ahead of the writer** (any mode).  In the closed system of `C01_core`
the number `n` of segments the reader has accepted in order (`rcv_nxt = sn0 + n`, `n = |dl| + |rcv_queue|`)
is at most the number of segments the writer has numbered, and what the reader holds is literally
the first `n` entries of the writer's log. -/
theorem C01_reader_behind (kA kB : Kcp) (hA : Fresh kA) (hB : Fresh kB) (hsn : kB.rcv_nxt = kA.snd_nxt)
    (ops : List SOp)
    (hLa : (srun ⟨{ k := kA }, { k := kB }⟩ ops).A.log.length < 2 ^ 32) :
    (srun ⟨{ k := kA }, { k := kB }⟩ ops).B.dl.length + (srun ⟨{ k := kA }, { k := kB }⟩ ops).B.k.rcv_queue.length
        ≤ (srun ⟨{ k := kA }, { k := kB }⟩ ops).A.log.length ∧
      (srun ⟨{ k := kA }, { k := kB }⟩ ops).B.dl ++ (srun ⟨{ k := kA }, { k := kB }⟩ ops).B.k.rcv_queue.map content =
        (srun ⟨{ k := kA }, { k := kB }⟩ ops).A.log.take
          ((srun ⟨{ k := kA }, { k := kB }⟩ ops).B.dl.length + (srun ⟨{ k := kA }, { k := kB }⟩ ops).B.k.rcv_queue.length) := by
  have hinv := srun_inv ops _ (fresh_sysInv kA kB hA hB hsn)
  generalize srun ⟨{ k := kA }, { k := kB }⟩ ops = s at hinv hLa
  have hG := gOf_agree kA.snd_nxt s.A.log (by omega)
  obtain ⟨n, hn⟩ := hinv.rcv _ hG
  have hle := rcv_le_log hinv hLa hG hn
  have hc := hn.inv.count
  rw [← hc]
  exact ⟨hle, by rw [hn.inv.pre, gRange_agree hG n hle]⟩

/-- **`C01_core_msg`: the messages read are a prefix of the messages written, with their
boundaries.**  Two fresh cores `A` (writer, message mode: `stream = 0`, `mss > 0`) and `B` (reader)
with matching initial sequence numbers; ANY interleaving of arbitrary operations of `A` (including
`input` of arbitrary bytes), arbitrary non-`input` operations of `B`, and deliveries to `B` of any
datagram `A` has emitted so far (any later time, any multiplicity, any order, or never).  Range
hypothesis: `A` has numbered fewer than 2^32 segments.  Then the list of byte strings returned by
`B`'s successful `Recv` calls is a prefix of the list of buffers `A`'s `Send` accepted (return 0). -/
theorem C01_core_msg (kA kB : Kcp) (hA : Fresh kA) (hB : Fresh kB) (hsn : kB.rcv_nxt = kA.snd_nxt)
    (hm : 0 < kA.mss.toNat) (hst : kA.stream = 0) (ops : List SOp)
    (hLa : (srun ⟨{ k := kA }, { k := kB }⟩ ops).A.log.length < 2 ^ 32) :
    (srun ⟨{ k := kA }, { k := kB }⟩ ops).B.got <+: (srun ⟨{ k := kA }, { k := kB }⟩ ops).A.accM := by
  have hinv := srun_msgInv ops _ (fresh_msgInv kA kB hA hB hsn hm hst)
  obtain ⟨_, _, _, h⟩ := hinv.result hLa
  exact ⟨_, h.symm⟩

/-- the sharper form: what `B` has read are exactly the messages formed by the first `|dl|` entries
of `A`'s log (`dl` = contents of the segments `B`'s `Recv` has consumed), which end on a message
boundary; what `A` has accepted beyond that are the messages formed by the rest of the log and the
queue -/
theorem C01_core_msg_exact (kA kB : Kcp) (hA : Fresh kA) (hB : Fresh kB) (hsn : kB.rcv_nxt = kA.snd_nxt)
    (hm : 0 < kA.mss.toNat) (hst : kA.stream = 0) (ops : List SOp)
    (hLa : (srun ⟨{ k := kA }, { k := kB }⟩ ops).A.log.length < 2 ^ 32) :
    (srun ⟨{ k := kA }, { k := kB }⟩ ops).B.got =
        grp ((srun ⟨{ k := kA }, { k := kB }⟩ ops).A.log.take (srun ⟨{ k := kA }, { k := kB }⟩ ops).B.dl.length) ∧
      (srun ⟨{ k := kA }, { k := kB }⟩ ops).A.accM =
        (srun ⟨{ k := kA }, { k := kB }⟩ ops).B.got ++
          grp ((srun ⟨{ k := kA }, { k := kB }⟩ ops).A.log.drop (srun ⟨{ k := kA }, { k := kB }⟩ ops).B.dl.length ++
            (srun ⟨{ k := kA }, { k := kB }⟩ ops).A.k.snd_queue.map content) := by
  have hinv := srun_msgInv ops _ (fresh_msgInv kA kB hA hB hsn hm hst)
  obtain ⟨_, _, h1, h2⟩ := hinv.result hLa
  exact ⟨h1, h2⟩

/-- **Writer's grouping lemma.**  In message mode, in every reachable state of one core (any
operations, any arguments), the buffers `Send` has accepted are exactly the messages obtained by
cutting `L ++ snd_queue` at the `frg = 0` boundaries, and that list ends on a boundary. -/
theorem C01_send_grouping (k0 : Kcp) (hf : Fresh k0) (hm : 0 < k0.mss.toNat) (hst : k0.stream = 0) (ops : List Op) :
    (run { k := k0 } ops).accM = grp ((run { k := k0 } ops).log ++ (run { k := k0 } ops).k.snd_queue.map content) ∧
      Closed ((run { k := k0 } ops).log ++ (run { k := k0 } ops).k.snd_queue.map content) := by
  have h : ∀ (ops : List Op) (s : GSt), InvM s → InvM (run s ops) := by
    intro ops
    induction ops with
    | nil => intro s h; exact h
    | cons op rest ih => intro s h; exact ih _ (step_invM h op)
  have hi := h ops _ (fresh_invM k0 hf hm hst)
  exact ⟨hi.m0.acc, closed_of_countOk _ hi.cnt⟩

/-- grouping is what it should be on an example: two fragments, a single, an unfinished tail -/
example : grp [(1, [1, 2]), (0, [3]), (0, [4]), (2, [5])] = [[1, 2, 3], [4]] := by decide

/-! ### non-vacuity: a closed message-mode run with a three-fragment message -/

/-- `A` (mtu 50, so `mss = 26`) sends a 60-byte message (fragments 2, 1, 0) and a 1-byte message and
flushes (four datagrams); the network delivers them out of order, one twice; `B` reads (the first
two `Recv` calls find no complete message). -/
def C01_exMsgSys : List SOp :=
  [.a (.setMtu 50), .a (.noDelay 1 10 2 1), .a (.send (List.replicate 60 7)), .a (.send [9]), .a (.flush true 0),
   .dlv 1 true false 0, .b (.recv 100), .dlv 0 true false 0, .dlv 1 true true 1, .dlv 3 true false 1,
   .b (.recv 100), .dlv 2 true false 1, .b (.recv 100), .b (.recv 100), .b (.recv 100)]

set_option maxRecDepth 1000000 in
example : Fresh (Kcp.new 7) ∧ (Kcp.new 7).stream = 0 ∧
    (srun ⟨{ k := Kcp.new 7 }, { k := Kcp.new 7 }⟩ C01_exMsgSys).A.log.map (·.1) = [2, 1, 0, 0] ∧
    (srun ⟨{ k := Kcp.new 7 }, { k := Kcp.new 7 }⟩ C01_exMsgSys).A.accM = [List.replicate 60 7, [9]] ∧
    (srun ⟨{ k := Kcp.new 7 }, { k := Kcp.new 7 }⟩ C01_exMsgSys).B.got = [List.replicate 60 7, [9]] ∧
    (srun ⟨{ k := Kcp.new 7 }, { k := Kcp.new 7 }⟩ C01_exMsgSys).A.dead = false ∧
    (srun ⟨{ k := Kcp.new 7 }, { k := Kcp.new 7 }⟩ C01_exMsgSys).B.dead = false := by
  refine ⟨fresh_new 7, by decide, by decide, by decide, by decide, by decide, by decide⟩

end KcpVerif.Props
