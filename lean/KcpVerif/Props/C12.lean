import KcpVerif.Model.Kcp
/-! C12 — behaviour is invariant under sequence-number and clock wrap-around. -/
namespace KcpVerif.Props
open KcpVerif KcpVerif.Gen KcpVerif.Kcp

/-- every ordering decision of the core is a function of differences -/
theorem C12_itimediff_shift (a b c : U32) : itimediff (a + c) (b + c) = itimediff a b := by
  unfold itimediff
  congr 1
  bv_omega

theorem C12_eq_shift (a b c : U32) : (a + c = b + c) ↔ a = b := by
  constructor
  · intro h; bv_omega
  · intro h; rw [h]

end KcpVerif.Props
