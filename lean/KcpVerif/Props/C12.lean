import KcpVerif.Model.Kcp
import KcpVerif.Lemmas.KcpShiftOps
import KcpVerif.Lemmas.KcpShiftWire
/-!
C12 — behaviour is invariant under sequence-number and clock wrap-around (protocol core).

A shift `σ = (a, b, t, u) : Shift.Sigma` adds `a` to the endpoint's own send sequence space, `b` to its
receive sequence space, `t` to its clock and `u` to the peer's clock (see `Lemmas/KcpShiftBasic.lean`):

* `Shift.Sim σ k k'`   — the state `k'` is `k` shifted by `σ` (equality up to `σ`, except on fields
  that are dead where they may differ: `ts_flush` while `updated = 0`, `ts_probe` while
  `probe_wait = 0`, `una` of a never-transmitted `snd_buf` entry); `Shift.shiftK σ k` is the
  canonical such state,
* `Shift.shiftIn σ`    — the shift of an INCOMING datagram, on wire bytes (PUSH: `ts+u sn+b una+a`,
  ACK: `ts+t sn+a una+a`, WASK/WINS: `una+a`),
* `Shift.OutRel σ o o'` — the emitted datagram `o'` is `o` shifted (data segment: `ts+t sn+a una+b`,
  ACK: `ts+u sn+b una+b`, WASK/WINS: `una+b`, their `sn`/`ts` are dead scratch fields and are
  not related; payload bytes identical),
* `Shift.Op`, `Shift.step`, `Shift.run`, `Shift.shiftOp σ` — every operation of the core and its shifted twin.

Main results: `C12_shift_sim` (one step) and `C12_run_shift_invariant` (whole op lists), for ALL
2^128 shifts and ALL operations with arbitrary arguments (every byte string for `Input`), with no
side condition.  (Before fix 8db4321 — a segment entering `snd_buf` now carries the current
timestamp — they needed one, and were false without it: `parse_fastack` compared the never-set
`ts = 0` of a never-transmitted segment with the clock; `C12_fastack_fresh_regression` replays
that input.)
-/
namespace KcpVerif.Props
open KcpVerif KcpVerif.Gen KcpVerif.Kcp KcpVerif.Shift

/-! ### the three arithmetic facts -/

/-- every ordering decision of the core is a function of differences -/
theorem C12_itimediff_shift (a b c : U32) : itimediff (a + c) (b + c) = itimediff a b := by
  unfold itimediff
  congr 1
  bv_omega

theorem C12_eq_shift (a b c : U32) : (a + c = b + c) ↔ a = b := by
  constructor
  · intro h; bv_omega
  · intro h; rw [h]

theorem C12_succ_shift (x c : U32) : (x + c) + 1 = (x + 1) + c := Shift.succ_shift x c

/-! ### function by function -/

/-- `Recv` / `PeekSize`: same return value, same delivered bytes, shifted successor state -/
theorem C12_recv_shift {σ : Sigma} {k k' : Kcp} (h : Sim σ k k') (buflen : Nat) :
    Sim σ (recv k buflen).k (recv k' buflen).k ∧ (recv k' buflen).n = (recv k buflen).n ∧
      (recv k' buflen).data = (recv k buflen).data ∧ peekSize k' = peekSize k :=
  ⟨(recv_sim h buflen).1, (recv_sim h buflen).2.1, (recv_sim h buflen).2.2, peekSize_sim h⟩

/-- `Send` involves no sequence number and no clock -/
theorem C12_send_shift {σ : Sigma} {k k' : Kcp} (h : Sim σ k k') (buffer : Bytes) :
    Sim σ (send k buffer).k (send k' buffer).k ∧ (send k' buffer).ret = (send k buffer).ret ∧
      (send k' buffer).panic = (send k buffer).panic := send_sim h buffer

/-- `parse_data` (insertion into the receive heap, duplicate detection, window check, move to
`rcv_queue`) commutes with the shift -/
theorem C12_parseData_shift {σ : Sigma} {k k' : Kcp} (h : Sim σ k k') (s : Seg) :
    Sim σ (parseData k s).k (parseData k' (shRcv σ s)).k ∧
      (parseData k' (shRcv σ s)).rep = (parseData k s).rep ∧
      (parseData k' (shRcv σ s)).panic = (parseData k s).panic := parseData_sim h s

/-- `parse_una` + `shrink_buf` + `parse_ack` + `shrink_buf` (the second one pops the segments just
acknowledged one by one once they are at the head: the shift does not touch the `acked` flags)
commute with the shift -/
theorem C12_ack_shift {σ : Sigma} {k k' : Kcp} (h : Sim σ k k') (una sn : U32) :
    Sim σ (shrinkBuf (parseAck (shrinkBuf (parseUna k una).1) sn))
      (shrinkBuf (parseAck (shrinkBuf (parseUna k' (una + σ.a)).1) (sn + σ.a))) ∧
      (parseUna k' (una + σ.a)).2 = (parseUna k una).2 :=
  ⟨shrinkBuf_sim (parseAck_sim (shrinkBuf_sim (parseUna_sim h una).1) sn), (parseUna_sim h una).2⟩

/-- `parse_fastack` commutes with the shift (it compares `seg.ts` with the ACK's `ts`: both our clock) -/
theorem C12_fastack_shift {σ : Sigma} {k k' : Kcp} (h : Sim σ k k') (sn ts : U32) :
    Sim σ (parseFastack k sn ts).1 (parseFastack k' (sn + σ.a) (ts + σ.t)).1 ∧
      (parseFastack k' (sn + σ.a) (ts + σ.t)).2 = (parseFastack k sn ts).2 := parseFastack_sim h sn ts

/-- `update_ack` is given a difference; the cwnd update compares `snd_una` with its old value by a difference -/
theorem C12_rtt_cwnd_shift {σ : Sigma} {k k' : Kcp} (h : Sim σ k k') (rtt oldUna : U32) :
    Sim σ (cwndOnAck (updateAck k rtt) oldUna) (cwndOnAck (updateAck k' rtt) (oldUna + σ.a)) :=
  cwndOnAck_sim (updateAck_sim h rtt) oldUna

/-- whole `flush` (ack list, window probes, admission, (re)transmission, congestion window):
shifted state, datagrams related by `OutRel σ`, same interval, same panic flag — no side condition -/
theorem C12_flush_shift {σ : Sigma} {k k' : Kcp} (h : Sim σ k k') (full : Bool) (now : U32) :
    FlushRel σ (flush k full now) (flush k' full (now + σ.t)) := flush_sim h full now

theorem C12_update_shift {σ : Sigma} {k k' : Kcp} (h : Sim σ k k') (now : U32) :
    FlushRel σ (update k now) (update k' (now + σ.t)) := update_sim h now

/-- `Check` answers the same instant, shifted -/
theorem C12_check_shift {σ : Sigma} {k k' : Kcp} (h : Sim σ k k') (now : U32) :
    check k' (now + σ.t) = check k now + σ.t := check_sim h now

/-- `shiftIn` keeps the length of a datagram, and the header fields `Input` reads from it are the
original ones plus the per-command constants (`rd32 (le32 x) = x` at byte level) -/
theorem C12_shiftIn_fields (σ : Sigma) (data rest : Bytes) (hl : 24 ≤ data.length) :
    (shiftIn σ data).length = data.length ∧
    rd32 (shiftHd σ data ++ rest) 0 = rd32 data 0 ∧
    byteAt (shiftHd σ data ++ rest) 4 = byteAt data 4 ∧
    rd32 (shiftHd σ data ++ rest) 8 = rd32 data 8 + (inDeltas σ (BitVec.ofNat 8 (byteAt data 4)).toNat).1 ∧
    rd32 (shiftHd σ data ++ rest) 12 = rd32 data 12 + (inDeltas σ (BitVec.ofNat 8 (byteAt data 4)).toNat).2.1 ∧
    rd32 (shiftHd σ data ++ rest) 16 = rd32 data 16 + (inDeltas σ (BitVec.ofNat 8 (byteAt data 4)).toNat).2.2 ∧
    rd32 (shiftHd σ data ++ rest) 20 = rd32 data 20 := by
  obtain ⟨f0, f4, _, _, f8, f12, f16, f20, _⟩ := shiftHd_fields σ data rest hl
  exact ⟨shiftIn_length σ data, f0, f4, f8, f12, f16, f20⟩

/-- whole `Input` on wire bytes (every datagram: malformed, multi-segment, forged), any clock -/
theorem C12_input_shift {σ : Sigma} {k k' : Kcp} (h : Sim σ k k') (data : Bytes)
    (regular ackNoDelay : Bool) (now : U32) :
    InRel σ (input k data regular ackNoDelay now) (input k' (shiftIn σ data) regular ackNoDelay (now + σ.t)) :=
  input_sim h data regular ackNoDelay now

/-- on one whole wire segment `shiftIn` adds the per-command constants to `ts`, `sn`, `una` and leaves
conv, cmd, frg, wnd, len and the payload alone -/
theorem C12_shiftIn_segment (σ : Sigma) (conv : U32) (cmd frg : BitVec 8) (wnd : BitVec 16) (ts sn una : U32)
    (data : Bytes) (hlen : data.length < 2 ^ 32) :
    shiftIn σ (encodeHdr conv cmd frg wnd ts sn una data.length ++ data) =
      encodeHdr conv cmd frg wnd (ts + (inDeltas σ cmd.toNat).1) (sn + (inDeltas σ cmd.toNat).2.1)
        (una + (inDeltas σ cmd.toNat).2.2) data.length ++ data :=
  shiftIn_single σ conv cmd frg wnd ts sn una data hlen

/-- the two conventions agree: the shifted form of an emitted PUSH / ACK / WASK segment in `OutRel σ`
(right-hand sides of its constructors) is `shiftIn σ.swap` of the unshifted segment, where
`σ.swap = (b, a, u, t)` is the same shift seen from the peer — so in a closed two-endpoint system
A's shifted world produces exactly the inputs of B's shifted world -/
theorem C12_out_in_consistent (σ : Sigma) (conv : U32) (frg : BitVec 8) (wnd : BitVec 16) (ts sn una : U32)
    (data : Bytes) (hlen : data.length < 2 ^ 32) :
    shiftIn σ.swap (encodeHdr conv (BitVec.ofNat 8 IKCP_CMD_PUSH) frg wnd ts sn una data.length ++ data) =
      encodeHdr conv (BitVec.ofNat 8 IKCP_CMD_PUSH) frg wnd (ts + σ.t) (sn + σ.a) (una + σ.b) data.length ++ data ∧
    shiftIn σ.swap (encodeHdr conv (BitVec.ofNat 8 IKCP_CMD_ACK) 0 wnd ts sn una 0) =
      encodeHdr conv (BitVec.ofNat 8 IKCP_CMD_ACK) 0 wnd (ts + σ.u) (sn + σ.b) (una + σ.b) 0 ∧
    shiftIn σ.swap (encodeHdr conv (BitVec.ofNat 8 IKCP_CMD_WASK) 0 wnd ts sn una 0) =
      encodeHdr conv (BitVec.ofNat 8 IKCP_CMD_WASK) 0 wnd ts sn (una + σ.b) 0 := by
  have h1 := shiftIn_single σ.swap conv (BitVec.ofNat 8 IKCP_CMD_PUSH) frg wnd ts sn una data hlen
  have h2 := shiftIn_single σ.swap conv (BitVec.ofNat 8 IKCP_CMD_ACK) 0 wnd ts sn una [] (by decide)
  have h3 := shiftIn_single σ.swap conv (BitVec.ofNat 8 IKCP_CMD_WASK) 0 wnd ts sn una [] (by decide)
  have e1 : (BitVec.ofNat 8 IKCP_CMD_PUSH).toNat = IKCP_CMD_PUSH := by decide
  have e2 : (BitVec.ofNat 8 IKCP_CMD_ACK).toNat = IKCP_CMD_ACK := by decide
  have e3 : (BitVec.ofNat 8 IKCP_CMD_WASK).toNat = IKCP_CMD_WASK := by decide
  obtain ⟨d1, d2, d3, _⟩ := inDeltas_swap σ
  rw [e1, d1] at h1
  rw [e2, d2] at h2
  rw [e3, d3] at h3
  simp only [List.length_nil, List.append_nil] at h2 h3
  have z1 : ts + 0 = ts := by bv_omega
  have z2 : sn + 0 = sn := by bv_omega
  rw [z1, z2] at h3
  exact ⟨h1, h2, h3⟩

/-! ### the simulation theorem -/

/-- **Shift simulation.** Every operation of the core (Send, Recv, PeekSize, Input, flush, Update,
Check, SetMtu, NoDelay, WndSize, WaitSnd), with arbitrary arguments, commutes with every shift `σ`:
same return value, same delivered bytes, same panic flag, output datagrams related by `OutRel σ`,
`Check`'s instant shifted by `t`, successor states related by `Sim σ`. -/
theorem C12_shift_sim {σ : Sigma} {k k' : Kcp} (h : Sim σ k k') (op : Op) :
    Sim σ (step k op).1 (step k' (shiftOp σ op)).1 ∧ ObsRel σ (step k op).2 (step k' (shiftOp σ op)).2 :=
  step_sim h op

/-- **Whole runs are shift-invariant**, by induction over the op list -/
theorem C12_run_shift_invariant {σ : Sigma} {k k' : Kcp} (h : Sim σ k k') (ops : List Op) :
    Sim σ (run k ops).1 (run k' (ops.map (shiftOp σ))).1 ∧
      All₂ (ObsRel σ) (run k ops).2 (run k' (ops.map (shiftOp σ))).2 := run_sim h ops

theorem C12_fresh_new (conv : U32) : Fresh (Kcp.new conv).snd_queue := fun _ hs => by cases hs

/-- … in particular from a fresh core started at ANY sequence numbers and ANY clock:
for all 2^128 values of `σ`, i.e. every placement of the 2^31 and 2^32 boundaries -/
theorem C12_run_from_new (σ : Sigma) (conv : U32) (ops : List Op) :
    All₂ (ObsRel σ) (run (Kcp.new conv) ops).2 (run (shiftK σ (Kcp.new conv)) (ops.map (shiftOp σ))).2 :=
  (run_sim (sim_shiftK σ (Kcp.new conv) (C12_fresh_new conv)) ops).2

/-- the shifted initial state is exactly what the harness hook `VerifKCPShift(k, a, b)` builds from
`NewKCP`: only `snd_una`, `snd_nxt`, `rcv_nxt` move (the clock offset lives in the `now` arguments) -/
theorem C12_shiftK_new (σ : Sigma) (conv : U32) :
    shiftK σ (Kcp.new conv) = { Kcp.new conv with snd_una := σ.a, snd_nxt := σ.a, rcv_nxt := σ.b } := by
  simp [shiftK, Kcp.new]

/-- consequences of `ObsRel` a test can observe without decoding: same return values, same
delivered bytes, same number of datagrams, each of the same length -/
theorem C12_obs_consequences {σ : Sigma} {o o' : Obs} (h : ObsRel σ o o') :
    o'.ret = o.ret ∧ o'.data = o.data ∧ o'.outs.length = o.outs.length ∧
      All₂ (fun (x y : Bytes) => x.length = y.length) o.outs o'.outs := by
  refine ⟨h.ret, h.data, (forall₂_length h.outs).symm, ?_⟩
  have := h.outs
  generalize o.outs = l at this
  generalize o'.outs = l' at this
  induction this with
  | nil => exact All₂.nil
  | cons hr _ ih => exact All₂.cons hr.length_eq ih

theorem C12_obsRel_outs_length {σ : Sigma} {l l' : List Obs} (h : All₂ (ObsRel σ) l l') :
    l'.map (fun o => o.outs.length) = l.map (fun o => o.outs.length) := by
  induction h with
  | nil => rfl
  | cons hr _ ih => simp only [List.map_cons, ih, forall₂_length hr.outs]

/-! ### non-vacuity: a concrete run with data in both directions, a legitimate ACK, window
update, delivery; the theorem applied with a shift that puts every boundary inside the run -/

def C12_demoOps : List Op :=
  [ .noDelay 1 10 2 1, .send [1, 2, 3], .send [4], .update 0,
    .input (encodeHdr 7 (BitVec.ofNat 8 IKCP_CMD_ACK) 0 32 0 1 0 0) true false 5,
    .input (encodeHdr 7 (BitVec.ofNat 8 IKCP_CMD_PUSH) 0 32 77 0 2 2 ++ [9, 9]) true true 6,
    .recv 10, .waitSnd, .update 100, .check 120 ]

/-- send space starts at 2^32−1, receive space at 2^31−1, clock at 2^32−5, peer clock just below 2^31 -/
def C12_demoσ : Sigma := ⟨0xFFFFFFFF#32, 0x7FFFFFFF#32, 0xFFFFFFFB#32, 0x7FFFFFB3#32⟩

set_option maxRecDepth 100000 in
/-- the run is not trivial: it emits datagrams, delivers the peer's two bytes, answers Check -/
example : (run (Kcp.new 7) C12_demoOps).2.map (fun o => (o.ret, o.data, o.outs.map List.length, o.time)) =
    [(0, [], [], none), (0, [], [], none), (0, [], [], none), (0, [], [52], none), (0, [], [], none),
     (0, [], [24], none), (2, [9, 9], [], none), (0, [], [], none), (0, [], [], none),
     (0, [], [], some 120#32)] := by decide

example : All₂ (ObsRel C12_demoσ) (run (Kcp.new 7) C12_demoOps).2
    (run (shiftK C12_demoσ (Kcp.new 7)) (C12_demoOps.map (shiftOp C12_demoσ))).2 :=
  C12_run_from_new C12_demoσ 7 C12_demoOps

set_option maxRecDepth 100000 in
/-- … and evaluated: the shifted run really runs across the boundaries (the Check answer wraps) and
shows the same lengths / returns -/
example : (run (shiftK C12_demoσ (Kcp.new 7)) (C12_demoOps.map (shiftOp C12_demoσ))).2.map
      (fun o => (o.ret, o.data, o.outs.map List.length, o.time)) =
    [(0, [], [], none), (0, [], [], none), (0, [], [], none), (0, [], [52], none), (0, [], [], none),
     (0, [], [24], none), (2, [9, 9], [], none), (0, [], [], none), (0, [], [], none),
     (0, [], [], some 115#32)] := by decide

/-! ### regression for the finding repaired by 8db4321 -/

/-- a forged ACK for `sn = 1` arriving after an ACK-only flush has moved two segments into
`snd_buf` without transmitting them; then two full flushes -/
def C12_cexOps : List Op :=
  [ .noDelay 0 (-1) 1 1,          -- fastresend = 1, no congestion window
    .send [1], .send [2],
    .flush false 0,               -- IKCP_FLUSH_ACKONLY (what Input does with ackNoDelay): admits both, transmits none
    .input (encodeHdr 7 (BitVec.ofNat 8 IKCP_CMD_ACK) 0 32 5 1 0 0) true false 6,
    .flush true 10, .flush true 20 ]

/-- only the clock is shifted, by 2^31 ms (24.8 days) -/
def C12_cexσ : Sigma := ⟨0, 0, 0x80000000#32, 0⟩

set_option maxRecDepth 100000 in
/-- Before the repair, `parse_fastack` evaluated `_itimediff(seg.ts = 0 /* never set */, ts)` for the
never-transmitted segment 0: true with the clock near 0 (one datagram emitted inside `Input`, a
spurious fast retransmission later: `[0,0,0,0,1,1,0]`), false with the clock shifted by 2^31
(`[0,0,0,0,0,1,0]`) — on the model and on kcp.go alike (notes/C12.md).  Now `seg.ts` is the
admission time and both placements give the same counts (as `C12_run_from_new` says they must). -/
theorem C12_fastack_fresh_regression :
    (run (Kcp.new 7) C12_cexOps).2.map (fun o => o.outs.length) = [0, 0, 0, 0, 1, 1, 0] ∧
    (run (shiftK C12_cexσ (Kcp.new 7)) (C12_cexOps.map (shiftOp C12_cexσ))).2.map (fun o => o.outs.length)
      = [0, 0, 0, 0, 1, 1, 0] := by decide

end KcpVerif.Props
