import KcpVerif.Model.Sess
/-!
C01 — session data path: `Read` hands the reader exactly what the core's `Recv` produced, in
order, with nothing lost or repeated across calls whatever the read-buffer sizes are.
-/
namespace KcpVerif.Props
open KcpVerif KcpVerif.Gen KcpVerif.Kcp

/-- With unread bytes left over from the previous message, `Read` returns a prefix of them,
keeps the rest, and does not touch the core. -/
theorem C01_sess_read_leftover (s : Sess) (blen : Nat) (h : s.bufptr.length > 0) :
    (s.read blen).blocked = false ∧ (s.read blen).data ++ (s.read blen).s.bufptr = s.bufptr ∧
    (s.read blen).s.k = s.k ∧ (s.read blen).data.length = min blen s.bufptr.length := by
  unfold Sess.read
  rw [if_pos h]
  refine ⟨rfl, ?_, rfl, ?_⟩
  · exact List.take_append_drop _ _
  · simp [List.length_take]

/-- Without leftovers and with a message ready, `Read` performs exactly one `Recv` on the core and
the bytes it returns followed by the new leftover are exactly that `Recv`'s bytes. -/
theorem C01_sess_read_fresh (s : Sess) (blen : Nat) (h0 : s.bufptr.length = 0) (hp : s.k.peekSize > 0) :
    ∃ n, (s.read blen).blocked = false ∧ (s.read blen).s.k = (s.k.recv n).k ∧
      (s.read blen).data ++ (s.read blen).s.bufptr = (s.k.recv n).data ∧
      (s.read blen).data.length = min blen (s.k.recv n).data.length := by
  unfold Sess.read
  have h0' : ¬ s.bufptr.length > 0 := by omega
  rw [if_neg h0']
  simp only [hp, ↓reduceIte]
  have hb : s.bufptr = [] := List.length_eq_zero_iff.mp h0
  by_cases hc : (blen : Int) ≥ s.k.peekSize
  · rw [if_pos hc]
    refine ⟨blen, rfl, rfl, ?_, ?_⟩
    · simp [hb]
    · -- the whole message fits: recv returned at most peekSize ≤ blen bytes
      have hlen : (s.k.recv blen).data.length ≤ blen := by
        unfold Kcp.recv
        simp only []
        split
        · simp
        · split
          · simp
          · rename_i h1 h2
            simp only []
            have : ((popMsg s.k.rcv_queue).data.length : Int) = s.k.peekSize := by
              -- peekSize > 0 is either the head's length (frg = 0) or peekSum
              unfold Kcp.peekSize at hp ⊢
              cases hq : s.k.rcv_queue with
              | nil => simp [hq] at hp
              | cons x rest =>
                simp only [hq] at hp ⊢
                by_cases hf : x.frg = 0
                · simp [hf, popMsg]
                · rw [if_neg hf] at hp ⊢
                  by_cases hl : (x :: rest).length < (x.frg + 1).toNat
                  · rw [if_pos hl] at hp; omega
                  · rw [if_neg hl]
                    have := C01_popMsg_length_aux (x :: rest)
                    exact_mod_cast this
            omega
      simp; omega
  · rw [if_neg hc]
    refine ⟨s.k.peekSize.toNat, rfl, rfl, ?_, ?_⟩
    · exact List.take_append_drop _ _
    · simp [List.length_take]
where
  C01_popMsg_length_aux (q : List Seg) : (popMsg q).data.length = peekSum q := by
    induction q with
    | nil => rfl
    | cons s rest ih =>
      unfold popMsg peekSum
      split
      · rfl
      · simp only [List.length_append, ih]

/-- No message ready and no leftovers: the call blocks (C13's subject) and nothing changes. -/
theorem C01_sess_read_blocks (s : Sess) (blen : Nat) (h0 : s.bufptr.length = 0) (hp : ¬ s.k.peekSize > 0) :
    s.read blen = ⟨s, true, []⟩ := by
  unfold Sess.read
  have h0' : ¬ s.bufptr.length > 0 := by omega
  rw [if_neg h0']
  simp only [hp, ↓reduceIte]

/-- `WriteBuffers` is admitted only while fewer than a send window of segments are pending (C04) -/
theorem C01_sess_write_admission (s : Sess) (v : List Bytes) (now : U32)
    (h : ¬ s.k.waitSnd < s.k.snd_wnd.toNat) : s.writeBuffers v now = ⟨s, true, 0, [], false⟩ := by
  unfold Sess.writeBuffers
  rw [if_neg h]

end KcpVerif.Props
