import KcpVerif.Generated
/-!
C12 — source obligation: the extractor lists every `< <= > >=` in the package whose operands are
32-bit sequence numbers / timestamps (by name and by uint32 type flow) and are NOT the result of
`_itimediff`.  The hand-written model cannot notice a NEW raw comparison in the source; this
obligation can: it is re-checked against the regenerated table on every run.
-/
namespace KcpVerif.Props
open KcpVerif.Gen

/-- no ordering decision on sequence numbers or timestamps bypasses `_itimediff` -/
theorem C12_no_raw_order_comparisons : rawOrderComparisons = [] := by decide

/-- the only range checks against the FEC wrap value are the documented ones -/
theorem C12_paws_range_checks_known :
    pawsRangeChecks = ["fec.go:fecDecoder.decode:in.seqid() >= dec.paws"] := by decide

end KcpVerif.Props
