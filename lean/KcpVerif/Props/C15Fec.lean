/-
C15, ownership half, for the FEC decoder (fec.go `fecDecoder.decode`, `discardShards`) together with
what its caller does with the recovered buffers (sess.go `kcpInput`): **the code is disciplined**.

On the instrumented model `Model/FecOwn` (= the tied decoder model `Model/Fec` plus the identity of the
pool buffer behind every stored packet and a ghost event log), for EVERY sequence of input packets —
any bytes: duplicates, packets of old or future groups, wrong types that trigger a re-tune, groups
that fail to reconstruct — and for every Reed–Solomon codec (the theorems quantify over the codec
constructor, so they do not depend on the code being MDS):

* the pool event log is `Disciplined` (`C15_fec_disciplined`): the packets of a completed group are
  recycled once although the emptied shard set stays in the map, a re-tune and `discardShards`
  recycle what is stored exactly once, the buffers for missing shards are either recycled by the
  decoder (reconstruction failed) or by the caller (returned), never both;
* every stored packet sits in a buffer that is owned, no two share one, none is in the pool
  (`C15_fec_held`), and nothing is leaked: a buffer acquired and not yet recycled is stored in
  exactly one shard set (`C15_fec_no_leak`);
* erasure: the instrumented run is the run of `Fec.Decoder.decode` (`C15_fec_erasure`).

Tie of the ghost part: component `fecown` (per decode of component `fec`'s histories the real
Get/Put events and the buffers stored in the real shard sets, against this model).
-/
import KcpVerif.Props.C15Core
import KcpVerif.Lemmas.FecOwnSync

namespace KcpVerif.Props
open KcpVerif KcpVerif.Fec KcpVerif.FecOwn KcpVerif.Own KcpVerif.Pool

/-- feeding a list of packets: each `decode` followed by the caller's release of what it returned -/
def runD (C : CodecNew) (o : DecO) (ins : List Fec.Bytes) : DecO := ins.foldl (decodeRel C) o

/-- the model's run on the same packets -/
def runDec (C : CodecNew) (dec : Decoder) (ins : List Fec.Bytes) : Decoder :=
  ins.foldl (fun d i => (d.decode C i).st) dec

/-- an instrumented decoder around any decoder state that stores nothing yet (a fresh decoder, also
with `newestShardId` preset as the harness hook does) -/
def startD (dec : Decoder) : DecO := { dec := dec }

structure FecInv (o : DecO) : Prop where
  sync : o.dec.sets = erSets o.sets
  w    : W o.gh (fun id => cntS id o.sets)

theorem C15_aux_fec_start (dec : Decoder) (h : dec.sets = []) : FecInv (startD dec) :=
  ⟨h, W.init.congr (fun _ => rfl)⟩

theorem C15_aux_fec_step (C : CodecNew) {o : DecO} (h : FecInv o) (inp : Fec.Bytes) : FecInv (decodeRel C o inp) :=
  ⟨by
    have e := decodeO_er C o inp h.sync
    show (decodeO C o inp).o.dec.sets = erSets (decodeO C o inp).o.sets
    rw [e.1]; exact e.2.2.2, decodeRel_W C o inp h.w⟩

theorem C15_aux_fec_run (C : CodecNew) {o : DecO} (h : FecInv o) (ins : List Fec.Bytes) : FecInv (runD C o ins) := by
  induction ins generalizing o with
  | nil => exact h
  | cons i ins ih => exact ih (C15_aux_fec_step C h i)

/-- **Erasure**: the decoder state of the instrumented run is the model's run, and its shard sets
are the model's shard sets with buffer ids attached. -/
theorem C15_fec_erasure (C : CodecNew) (dec : Decoder) (h : dec.sets = []) (ins : List Fec.Bytes) :
    (runD C (startD dec) ins).dec = runDec C dec ins ∧
    erSets (runD C (startD dec) ins).sets = (runDec C dec ins).sets := by
  have key : ∀ (o : DecO), FecInv o → (runD C o ins).dec = runDec C o.dec ins := by
    induction ins with
    | nil => intro o _; rfl
    | cons i ins ih =>
      intro o ho
      show (runD C (decodeRel C o i) ins).dec = runDec C (o.dec.decode C i).st ins
      rw [ih _ (C15_aux_fec_step C ho i)]
      have : (decodeRel C o i).dec = (o.dec.decode C i).st := (decodeO_er C o i ho.sync).1
      rw [this]
  have h0 := C15_aux_fec_start dec h
  have hk := key _ h0
  refine ⟨hk, ?_⟩
  rw [← (C15_aux_fec_run C h0 ins).sync, hk]; rfl

/-- **The FEC decoder (with its caller) is disciplined**: whatever packets arrive, in whatever order,
and whatever the codec answers, every put and every use of a buffer happens while it is owned and
every get hands out a buffer nobody owns. -/
theorem C15_fec_disciplined (C : CodecNew) (dec : Decoder) (h : dec.sets = []) (ins : List Fec.Bytes) :
    Disciplined (runD C (startD dec) ins).gh.log :=
  (C15_sanitizer_sound _).mp (C15_aux_fec_run C (C15_aux_fec_start dec h) ins).w.ok

/-- `C15_code_disciplined_full` instantiated with the logs of the decoder -/
theorem C15_fec_code_disciplined (C : CodecNew) :
    C15_code_disciplined_full (fun l => ∃ dec ins, dec.sets = [] ∧ l = (runD C (startD dec) ins).gh.log) := by
  rintro l ⟨dec, ins, h, rfl⟩
  exact C15_fec_disciplined C dec h ins

theorem C15_aux_fec_lost (C : CodecNew) (o : DecO) (inp : Fec.Bytes) : (decodeRel C o inp).gh.lost = o.gh.lost := by
  have use_l : ∀ (g : Ghost) (x : Option Nat), (g.use x).lost = g.lost := fun g x => by cases x <;> rfl
  have rec_l : ∀ (g : Ghost) (x : Option Nat), (g.recycle x).lost = g.lost := fun g x => by cases x <;> rfl
  have putP : ∀ (l : List PktO) (g : Ghost), (putPkts l g).lost = g.lost := by
    intro l; induction l with
    | nil => intro g; rfl
    | cons q r ih => intro g; unfold putPkts; rw [ih, rec_l]
  have useP : ∀ (l : List PktO) (g : Ghost), (usePkts l g).lost = g.lost := by
    intro l; induction l with
    | nil => intro g; rfl
    | cons q r ih => intro g; unfold usePkts; rw [ih, use_l]
  have putS : ∀ (l : List SetO) (g : Ghost), (putSets l g).lost = g.lost := by
    intro l; induction l with
    | nil => intro g; rfl
    | cons q r ih => intro g; unfold putSets; rw [ih, putP]
  have getL : ∀ (n : Nat) (g : Ghost), (getN n g).g.lost = g.lost := by
    intro n; induction n with
    | zero => intro g; rfl
    | succ n ih => intro g; unfold getN; show (getN n g.get).g.lost = _; rw [ih]; rfl
  have putI : ∀ (l : List Nat) (g : Ghost), (putIds l g).lost = g.lost := by
    intro l; induction l with
    | nil => intro g; rfl
    | cons q r ih => intro g; unfold putIds; rw [ih, rec_l]
  have relI : ∀ (l : List Nat) (g : Ghost), (release l g).lost = g.lost := by
    intro l; induction l with
    | nil => intro g; rfl
    | cons q r ih => intro g; unfold release; rw [ih, rec_l, use_l]
  have disc : ∀ (n : Nat) (nw : BitVec 32) (l : List SetO) (g : Ghost), (discardO n nw l g).g.lost = g.lost := by
    intro n nw l; induction l with
    | nil => intro g; rfl
    | cons q r ih =>
      intro g; unfold discardO; split
      · exact ih g
      · rw [ih, putP]
  have hget : o.gh.get.lost = o.gh.lost := rfl
  unfold decodeRel
  simp only []
  rw [relI]
  unfold decodeO
  simp only []
  split; · rfl
  split; · rfl
  split
  · split
    · exact putS _ _
    · rfl
  split; · rfl
  split
  · split
    · show (discardO _ _ _ _).g.lost = _
      rw [disc, putP, useP, hget]
    · split
      · show (discardO _ _ _ _).g.lost = _
        rw [disc, putP, getL, useP, useP, hget]
      · show (discardO _ _ _ _).g.lost = _
        rw [disc, putP, putI, getL, useP, useP, hget]
  · show (discardO _ _ _ _).g.lost = _
    rw [disc, hget]

/-- **One place, and only owned buffers; nothing leaks.**  After any run: a buffer is stored at most
once in the shard sets, a stored buffer is owned (its most recent get/put event is a get, so it is
not in the pool), and conversely every buffer acquired and not yet recycled is stored in a shard
set — neither the decoder nor its caller drops a buffer without `Put`. -/
theorem C15_fec_held (C : CodecNew) (dec : Decoder) (h : dec.sets = []) (ins : List Fec.Bytes) (id : Nat) :
    cntS id (runD C (startD dec) ins).sets ≤ 1 ∧
    (cntS id (runD C (startD dec) ins).sets = 1 ↔ holds (runD C (startD dec) ins).gh.log.reverse id = true) := by
  have hl : (runD C (startD dec) ins).gh.lost = [] := by
    have key : ∀ (o : DecO), (runD C o ins).gh.lost = o.gh.lost := by
      induction ins with
      | nil => intro o; rfl
      | cons i ins ih =>
        intro o
        show (runD C (decodeRel C o i) ins).gh.lost = _
        rw [ih, C15_aux_fec_lost]
    exact key _
  have hw := (C15_aux_fec_run C (C15_aux_fec_start dec h) ins).w
  have hag := C15_aux_replay_agree _ St.init [] C15_aux_agree_init hw.ok
  rw [List.append_nil] at hag
  have hb := hw.bal id
  rw [hl] at hb
  simp only [List.count_nil, Nat.add_zero] at hb
  refine ⟨by split at hb <;> omega, ?_, ?_⟩
  · intro h1
    apply (hag id).mp
    by_cases hm : id ∈ owned (runD C (startD dec) ins).gh
    · exact hm
    · simp only [hm, if_false] at hb; omega
  · intro hh
    have hm : id ∈ owned (runD C (startD dec) ins).gh := (hag id).mpr hh
    simpa only [hm, if_true] using hb

/-! ### non-vacuity: a 2+1 group with the executable GF(2^8) code -/

def c15ExD1 : Fec.Bytes := [0, 0, 0, 0, 241, 0, 5, 0, 7, 7, 7]
def c15ExD2 : Fec.Bytes := [1, 0, 0, 0, 241, 0, 4, 0, 9, 9]
def c15ExPar : Fec.Bytes := [2, 0, 0, 0, 242, 0, 7, 0, 27, 27, 9]

/- data shard 0, the same again (duplicate: no get), the parity shard (reconstruction of shard 1 into
a fresh buffer, both packets recycled, the recovered buffer read and recycled by the caller), then
the late data shard 1 (stored again in the emptied set) -/
set_option maxRecDepth 100000 in
example : ((DecO.new rsNew 2 1).map fun o => (runD rsNew o [c15ExD1, c15ExD1, c15ExPar, c15ExD2]).gh.log) =
    some [.get 0, .get 1, .use 0, .use 1, .use 0, .use 1, .get 2, .put 0, .put 1, .use 2, .put 2, .get 3] := by
  decide
set_option maxRecDepth 100000 in
example : ((DecO.new rsNew 2 1).map fun o => (decodeO rsNew (runD rsNew o [c15ExD1]) c15ExPar).recovered) =
    some [[4, 0, 9, 9, 0]] := by decide

end KcpVerif.Props
