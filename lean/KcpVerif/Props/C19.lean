import KcpVerif.Lemmas.SessOut
/-!
C19 — out-of-band messages: intact or absent, never disturb the stream.

Sending side: `SendOOB` → request `{conv ‖ data, oob}` → `postProcess` (`encodeOOB`, nonce, CRC /
Seal, encryption).  Receiving side: `packetInput` (decrypt, integrity) → `kcpInput` demux →
handler.  Cipher round trips are hypotheses (`CipherLaws`).
-/
namespace KcpVerif.Props
open KcpVerif KcpVerif.Gen KcpVerif.Wire KcpVerif.SessOut

/-- what the round trip needs from the cipher in use -/
structure CipherLaws {γ : Type} (P : Prims γ) (c : Cfg) : Prop extends LenLaws P c where
  decEnc : ∀ x, P.decB (P.encB x) = x
  openSeal : ∀ n x, P.aopen n (P.aseal n x) = some x

theorem route_oob (id : BitVec 32) (conv : BitVec 32) (data : Bytes) :
    route (fecHeader id typeOOB ++ sizeField (le32 conv ++ data).length ++ (le32 conv ++ data)) = .oob data := by
  have hflag : fecFlag (fecHeader id typeOOB ++ sizeField (le32 conv ++ data).length ++ (le32 conv ++ data)) = 243 := by
    simp only [fecHeader, le32, le16, List.cons_append, List.nil_append, List.append_assoc, fecFlag, typeOOB]
    decide
  have hlen : ¬ (fecHeader id typeOOB ++ sizeField (le32 conv ++ data).length ++ (le32 conv ++ data)).length <
      min IKCP_OVERHEAD (fecHeaderSizePlus2 + convSize) := by
    simp only [List.length_append, fecHeader_length, sizeField_length, le32_length, IKCP_OVERHEAD, fecHeaderSizePlus2,
      fecHeaderSize, convSize]
    omega
  simp only [route, hflag, hlen, if_false, typeData, typeParity, typeOOB]
  simp only [fecHeader, sizeField, le32, le16, List.cons_append, List.nil_append, fecHeaderSizePlus2, fecHeaderSize, convSize]
  rfl

/-- the integrity gate of `packetInput` returns exactly the packet the FEC stage produced -/
theorem rxStrip_crypt {γ : Type} (P : Prims γ) (c : Cfg) (L : CipherLaws P c) (g : γ) (pkt : Pkt) :
    rxStrip P c (crypt P c g pkt).emit.wire = some pkt.rest := by
  have hd := L.draw g
  have hn := L.nonce
  cases hc : c.cipher with
  | none => simp only [rxStrip, crypt, hc]
  | aead n o =>
    simp only [Cfg.nonceLen, hc] at hn
    have hl : ((P.draw g).out.take n).length = n := by simp only [List.length_take]; omega
    have ha := L.aseal ((P.draw g).out.take n) pkt.rest
    simp only [Cfg.overhead, hc] at ha
    have hlen : ¬ ((P.draw g).out.take n ++ P.aseal ((P.draw g).out.take n) pkt.rest).length < n + o := by
      simp only [List.length_append, hl, ha]; omega
    simp only [rxStrip, crypt, hc, hlen, if_false, List.take_left' hl, List.drop_left' hl, L.openSeal]
  | block =>
    have hl : ((P.draw g).out.take nonceSize).length = nonceSize := by
      simp only [List.length_take, nonceSize]; omega
    simp only [rxStrip, crypt, hc, cryptFrame]
    generalize (P.draw g).out.take nonceSize = nonce at hl
    have hlen : ¬ (P.encB (nonce ++ le32 (P.crc pkt.rest) ++ pkt.rest)).length < cryptHeaderSize := by
      simp only [L.encB, List.length_append, hl, le32_length, cryptHeaderSize, nonceSize]; omega
    have hdrop : (nonce ++ le32 (P.crc pkt.rest) ++ pkt.rest).drop nonceSize = le32 (P.crc pkt.rest) ++ pkt.rest := by
      rw [List.append_assoc, List.drop_left' hl]
    simp only [hlen, if_false, L.decEnc, hdrop]
    simp only [le32, List.cons_append, List.nil_append, crcSize, List.take_succ_cons, List.take_zero,
      List.drop_succ_cons, List.drop_zero, u32_le32_bytes, if_true]

/-- INTACT: for every payload `SendOOB` accepts — in particular every length `0 … GetOOBMaxSize` —
every cipher kind and FEC parameters, the datagram `postProcess` emits for it passes the peer's
integrity gate and is routed to the OOB branch, which hands the handler exactly `data`: same
bytes, same length.  Exactly one datagram is emitted, and the peer's stream state is untouched. -/
theorem C19_oob_roundtrip {γ σ : Type} (P : Prims γ) (c : Cfg) (L : CipherLaws P c) (st : PP γ) (e : Enc)
    (henc : st.enc = some e) (coreMtu : Nat) (conv : BitVec 32) (data : Bytes) (now : Int)
    (hsz : convSize + data.length ≤ coreMtu) (hf : c.fecOn = true)
    (onFec onKcp : σ → Bytes → σ) (rx : Rx σ) :
    ∃ b em, sendOOB c coreMtu conv data = .queued b ∧
      (ppStep P c st { oob := true, body := b, now := now }).emits = [em] ∧
      ∃ plain, rxStrip P c em.wire = some plain ∧ route plain = .oob data ∧
        kcpInput onFec onKcp true rx plain = { rx with handled := rx.handled ++ [data] } := by
  have hq : sendOOB c coreMtu conv data = .queued (le32 conv ++ data) := by
    simp only [sendOOB, hf, Bool.not_true, Bool.false_eq_true, if_false]
    rw [if_neg (by omega)]
  refine ⟨_, (crypt P c st.gen (encodeOOB e (le32 conv ++ data)).pkt).emit, hq, ?_, ?_⟩
  · simp only [ppStep, fecStage, henc, if_true, cryptAll]
  · refine ⟨_, rxStrip_crypt P c L st.gen _, ?_, ?_⟩
    · exact route_oob _ conv data
    · simp only [kcpInput, encodeOOB, route_oob, if_true]

/-- non-vacuity: identity "cipher", a 16-byte entropy block -/
example : CipherLaws (γ := Nat)
    { crc := fun _ => 0, parity := fun _ _ => [], draw := fun g => { g := g + 1, out := List.replicate 16 0 },
      encB := id, decB := id, aseal := fun _ x => x ++ List.replicate 16 0, aopen := fun _ x => some (x.take (x.length - 16)) }
    { cipher := .aead 12 16, d := 10, p := 3 } :=
  { encB := fun _ => rfl, aseal := fun _ x => by simp [Cfg.overhead], draw := fun _ => by simp,
    nonce := by simp [Cfg.nonceLen], decEnc := fun _ => rfl,
    openSeal := fun _ x => by simp }

/-- REFUSALS: error iff FEC is off (both `SendOOB` and `SetOOBHandler`, and `GetOOBMaxSize` is 0
then); with FEC on, error iff `4 + |data| > core mtu`; `GetOOBMaxSize + 1` is the smallest refused
length. -/
theorem C19_oob_refusals (c : Cfg) (coreMtu : Nat) (conv : BitVec 32) (data : Bytes) :
    (sendOOB c coreMtu conv data = .errNoFec ↔ c.fecOn = false) ∧
    (setOOBHandlerOk c = false ↔ c.fecOn = false) ∧
    (c.fecOn = false → getOOBMaxSize c coreMtu = 0) ∧
    (c.fecOn = true →
      (sendOOB c coreMtu conv data = .errTooLarge ↔ coreMtu < convSize + data.length) ∧
      (sendOOB c coreMtu conv data = .errTooLarge ↔ getOOBMaxSize c coreMtu < data.length) ∧
      ((∃ b, sendOOB c coreMtu conv data = .queued b) ↔ (data.length : Int) ≤ getOOBMaxSize c coreMtu)) := by
  refine ⟨?_, by simp [setOOBHandlerOk], ?_, ?_⟩
  · cases hf : c.fecOn
    · simp [sendOOB, hf]
    · simp only [sendOOB, hf, Bool.not_true, Bool.false_eq_true, if_false]
      split <;> simp
  · intro hf; simp [getOOBMaxSize, hf]
  · intro hf
    simp only [sendOOB, getOOBMaxSize, hf, Bool.not_true, Bool.false_eq_true, if_false, convSize]
    by_cases h : coreMtu < 4 + data.length
    · simp only [h, if_true, true_iff, reduceCtorEq, exists_false, false_iff]
      exact ⟨trivial, by omega, by omega⟩
    · simp only [h, if_false, reduceCtorEq, false_iff, OOBRes.queued.injEq, exists_eq', true_iff]
      exact ⟨trivial, by omega, by omega⟩

/-- `GetOOBMaxSize` is accepted, `GetOOBMaxSize + 1` is the smallest refused length -/
theorem C19_oob_max_is_sharp (c : Cfg) (coreMtu : Nat) (conv : BitVec 32) (hf : c.fecOn = true)
    (hm : convSize ≤ coreMtu) :
    (∀ data : Bytes, (data.length : Int) = getOOBMaxSize c coreMtu → ∃ b, sendOOB c coreMtu conv data = .queued b) ∧
    (∀ data : Bytes, (data.length : Int) = getOOBMaxSize c coreMtu + 1 → sendOOB c coreMtu conv data = .errTooLarge) ∧
    (∀ data : Bytes, sendOOB c coreMtu conv data = .errTooLarge → getOOBMaxSize c coreMtu + 1 ≤ (data.length : Int)) := by
  have h := fun data => (C19_oob_refusals c coreMtu conv data).2.2.2 hf
  refine ⟨fun data hd => ((h data).2.2).2 (by omega), fun data hd => ((h data).2.1).2 (by omega),
    fun data hd => by have := ((h data).2.1).1 hd; omega⟩

/-- `encodeOOB` leaves the encoder alone: `next`, `shardCount`, `maxSize`, the collected shards and
`tsLatestPacket` (indeed every field) are unchanged -/
theorem C19_oob_encoder_frame (e : Enc) (body : Bytes) :
    (encodeOOB e body).enc = e ∧ (encodeOOB e body).enc.next = e.next ∧
    (encodeOOB e body).enc.shardCount = e.shardCount ∧ (encodeOOB e body).enc.maxSize = e.maxSize ∧
    (encodeOOB e body).enc.cache = e.cache ∧ (encodeOOB e body).enc.tsLatest = e.tsLatest ∧
    (encodeOOB e body).parity = [] :=
  ⟨rfl, rfl, rfl, rfl, rfl, rfl, rfl⟩

/-- NON-INTERFERENCE on the sending side: for any request sequence of a session with FEC, the
non-OOB packets `postProcess` emits — data and parity, their ids, types, sizes, parity inputs and
contents — and the encoder state afterwards are identical with and without the OOB requests
interleaved, whatever the entropy source does (equality is of the packets behind the nonce/CRC,
i.e. modulo nonce draws). -/
theorem C19_oob_noninterference_tx {γ : Type} (P : Prims γ) (c : Cfg) (reqs : List Req) (st st' : PP γ) (e : Enc)
    (h1 : st.enc = some e) (h2 : st'.enc = some e) :
    ((postProcess P c st reqs).emits.map (·.pkt)).filter (fun q => q.kind != .oob) =
        (postProcess P c st' (reqs.filter fun r => !r.oob)).emits.map (·.pkt) ∧
      (postProcess P c st reqs).st.enc = (postProcess P c st' (reqs.filter fun r => !r.oob)).st.enc := by
  rw [(postProcess_pkts P c reqs st).1, (postProcess_pkts P c _ st').1, (postProcess_pkts P c reqs st).2,
    (postProcess_pkts P c _ st').2, h1, h2]
  clear h1 h2
  induction reqs generalizing e with
  | nil => exact ⟨rfl, rfl⟩
  | cons r rs ih =>
    by_cases hoob : r.oob = true
    · -- an OOB request: one OOB packet, encoder unchanged
      have hs : fecStage P c (some e) r = (some e, [(encodeOOB e r.body).pkt]) := by simp only [fecStage, hoob, if_true]
      have hfr : (r :: rs).filter (fun r => !r.oob) = rs.filter (fun r => !r.oob) := by
        simp [List.filter_cons, hoob]
      have hk : [(encodeOOB e r.body).pkt].filter (fun q => q.kind != Kind.oob) = [] := by simp [encodeOOB]
      rw [hfr]
      simp only [fecAll, fecEnd, hs, List.filter_append]
      rw [hk, List.nil_append]
      exact ih e
    · -- a stream packet: data (and maybe parity) packets, none of them OOB
      have hoob' : r.oob = false := by simpa using hoob
      have hs : fecStage P c (some e) r =
          (some (encode P.parity c.cryptBase e r.body r.now maxFECEncodeLatency).enc,
           (encode P.parity c.cryptBase e r.body r.now maxFECEncodeLatency).pkt ::
             (encode P.parity c.cryptBase e r.body r.now maxFECEncodeLatency).parity) := by
        simp only [fecStage, hoob', Bool.false_eq_true, if_false]
      have hall : ∀ q ∈ (encode P.parity c.cryptBase e r.body r.now maxFECEncodeLatency).pkt ::
            (encode P.parity c.cryptBase e r.body r.now maxFECEncodeLatency).parity, (q.kind != Kind.oob) = true := by
        intro q hq
        simp only [List.mem_cons] at hq
        rcases hq with hq | hq
        · rw [hq, encode_pkt]; rfl
        · by_cases hfull : e.cache.length + 1 = e.d
          · by_cases hg : r.now - e.tsLatest < maxFECEncodeLatency
            · rw [(encode_full_ok _ _ e r.body r.now _ hfull hg).2] at hq
              obtain ⟨_, _, _, hk, _⟩ := mem_sealParities _ _ _ hq
              rw [hk]; rfl
            · rw [(encode_full_skip _ _ e r.body r.now _ hfull hg).2] at hq; cases hq
          · rw [(encode_mid _ _ e r.body r.now _ hfull).2] at hq; cases hq
      have hfr : (r :: rs).filter (fun r => !r.oob) = r :: rs.filter (fun r => !r.oob) := by
        simp [List.filter_cons, hoob']
      rw [hfr]
      simp only [fecAll, fecEnd, hs, List.filter_append]
      rw [List.filter_eq_self.2 hall]
      have := ih (encode P.parity c.cryptBase e r.body r.now maxFECEncodeLatency).enc
      exact ⟨by rw [this.1], this.2⟩

/-- the receiving session: a datagram routed to the OOB branch touches neither the core, nor the FEC
decoder, nor `bufptr`, nor the read/write tokens (the whole stream state `σ`), with or without a
handler; and a datagram not routed there never reaches the handler. -/
theorem C19_oob_receiver_frame {σ : Type} (onFec onKcp : σ → Bytes → σ) (hasHandler : Bool) (rx : Rx σ) (data : Bytes) :
    (∀ payload, route data = .oob payload →
      (kcpInput onFec onKcp hasHandler rx data).stream = rx.stream ∧
      (kcpInput onFec onKcp hasHandler rx data).handled = if hasHandler then rx.handled ++ [payload] else rx.handled) ∧
    ((∀ payload, route data ≠ .oob payload) → (kcpInput onFec onKcp hasHandler rx data).handled = rx.handled) := by
  refine ⟨?_, ?_⟩
  · intro payload h
    simp only [kcpInput, h]
    cases hasHandler <;> simp
  · intro h
    simp only [kcpInput]
    split
    · rfl
    · rfl
    · rfl
    · rename_i payload hr; exact absurd hr (h payload)

end KcpVerif.Props
