import KcpVerif.Lemmas.C09WireRun
import KcpVerif.Lemmas.C09WireTx
import KcpVerif.Lemmas.C09WireStream
import KcpVerif.Lemmas.KcpAcc
/-!
C09 `wire_reassembles` (DESIGN.md 7.9, section 13) — "… so that an independent decoder written from
the README reassembles the byte stream from the wire alone."

Two developments meet here:

* `Wire.Spec` (Model/Wire.lean) is the INDEPENDENT decoder, written from README "Specification" and
  `wireshark/kcp_dissector.lua` only; `Props/C09.lean` proves that it inverts `Wire.encodeSeg`;
* the core model `Model/Kcp.lean` writes its datagrams with `Kcp.encodeHdr`; the C01 development
  (`C01.Op`, `C01.step`, `C01.run` of Lemmas/C01Ops.lean, with the ghost log `log` of the numbered
  segments and the ghost list `wire` of every datagram handed to `output` so far) proves that each is
  a concatenation of frames whose PUSH members carry `log[sn − sn0]`.

The two header encoders are the same function (`C09_encoders_agree`).  On top of the C01 invariant
the invariant `C09W.WInv` (Lemmas/C09WireInv.lean) adds what a decoder needs and C01 does not:
datagrams are never empty, every frame has a known command and the connection's `conv`.  Then, for
EVERY history of operations with arbitrary arguments (all byte strings for `input`, any clock) from a
fresh core whose numbering starts at 0 (`Kcp.new`), with at most 2^32 numbered segments:

(a) `C09_wire_decodes`: every datagram on the wire is accepted by `Wire.Spec.decode`, as a non-empty
    list of segments of the right `conv`, known commands, `len` = payload length, every byte consumed;
(b) `C09_wire_reassembles…`: `Wire.Spec.reassemble` of ANY collection of decoded segments (any order,
    duplicates = retransmissions, datagrams missing) is a prefix of the accepted byte stream, consumes
    exactly the segments up to the first one that was never seen, and returns everything numbered so
    far once every numbered segment has been seen at least once.

This file does not open the namespace `Wire`: the specification's names are written `Wire.…`.
-/
namespace KcpVerif.Props
open KcpVerif KcpVerif.Gen KcpVerif.Kcp KcpVerif.Recv KcpVerif.Send KcpVerif.C01 KcpVerif.C09W
open KcpVerif.Lemmas.KcpFlush (InvMss)

/-- **The two header encoders agree byte for byte**: `Wire.encodeSeg` (what `Wire.Spec` was proved to
invert) on the segment with these fields is `Kcp.encodeHdr` (what the core model's `flush` writes). -/
theorem C09_encoders_agree (conv : U32) (cmd frg : BitVec 8) (wnd : BitVec 16) (ts sn una : U32) (data : Bytes) :
    Wire.encodeSeg ⟨conv, UInt8.ofNat cmd.toNat, UInt8.ofNat frg.toNat, wnd, ts, sn, una, data⟩ =
      Kcp.encodeHdr conv cmd frg wnd ts sn una data.length :=
  encoders_agree conv cmd frg wnd ts sn una data

/-- … and for every segment of the wire specification -/
theorem C09_encoders_agree' (s : Wire.Seg) :
    Wire.encodeSeg s =
      Kcp.encodeHdr s.conv (BitVec.ofNat 8 s.cmd.toNat) (BitVec.ofNat 8 s.frg.toNat) s.wnd s.ts s.sn s.una
        s.data.length :=
  encoders_agree' s

/-- the frame lists of the C01 development are the segment lists of the wire specification -/
theorem C09_frames_are_segments (frs : List Wire.Frm) : Wire.encFrames frs = Wire.encodeSegs (frs.map toSeg) :=
  encFrames_eq frs

/-- **The send-side wire invariant in every reachable state** (any operations, any arguments): no
modelled panic has happened, and every datagram handed to `output` so far is `Wire.encFrames frs` for a
NON-EMPTY list of frames with the core's `conv`, a known command, a payload of at most `mtuLimit` bytes,
PUSH frames carrying `log[i]` under the sequence number `sn0 + i`. -/
theorem C09_wire_invariant (k0 : Kcp) (hf : Fresh k0) (hm : InvMss k0) (ops : List Op) :
    WInv k0.conv k0.snd_nxt (run { k := k0 } ops) :=
  run_wInv ops _ (fresh_wInv k0 hf hm)

/-- **(a) Every datagram on the wire is accepted by the specification decoder.**  For every history
from a fresh core whose numbering starts at 0, with at most 2^32 numbered segments: `Wire.Spec.decode`
accepts every emitted datagram `o` — hence consumes every byte (`segsLen`: 24 header bytes plus the
payload per segment add up to `|o|`) — and returns a non-empty list of segments, each with the
connection's `conv`, a known command, `len` = the payload length ≤ `mtuLimit`, and, if it is a PUSH,
`(frg, payload) = log[sn]`. -/
theorem C09_wire_decodes (k0 : Kcp) (hf : Fresh k0) (hm : InvMss k0) (hsn : k0.snd_nxt = 0) (ops : List Op)
    (hL : (run { k := k0 } ops).log.length ≤ 2 ^ 32) :
    (run { k := k0 } ops).dead = false ∧
    ∀ o ∈ (run { k := k0 } ops).wire, ∃ segs, Wire.Spec.decode o = some segs ∧ segs ≠ [] ∧ segsLen segs = o.length ∧
      ∀ x ∈ segs, x.1.conv = k0.conv ∧ Wire.cmdKnown x.1.cmd = true ∧ x.1.len.toNat = x.2.length ∧
        x.2.length ≤ mtuLimit ∧ SegGen (run { k := k0 } ops).log x := by
  have h := C09_wire_invariant k0 hf hm ops
  rw [hsn] at h
  refine ⟨h.alive, fun o ho => ?_⟩
  obtain ⟨frs, h1, h2, h3, h4⟩ := (h.wire o ho).decode
  refine ⟨frs.map specOf, h4, by simpa using h1, by rw [h2, encFrames_length], ?_⟩
  intro x hx
  obtain ⟨fr, hfr, rfl⟩ := List.mem_map.mp hx
  exact (h3 fr hfr).spec hL

/-- (a) for `NewKCP(conv, output)` -/
theorem C09_wire_decodes_new (conv : U32) (ops : List Op)
    (hL : (run { k := Kcp.new conv } ops).log.length ≤ 2 ^ 32) :
    ∀ o ∈ (run { k := Kcp.new conv } ops).wire, ∃ segs, Wire.Spec.decode o = some segs ∧ segs ≠ [] ∧
      ∀ x ∈ segs, x.1.conv = conv ∧ Wire.cmdKnown x.1.cmd = true ∧ x.1.len.toNat = x.2.length := by
  intro o ho
  obtain ⟨segs, h1, h2, _, h4⟩ := (C09_wire_decodes (Kcp.new conv) (fresh_new conv) (Lemmas.KcpMss.new_inv conv) rfl ops hL).2 o ho
  exact ⟨segs, h1, h2, fun x hx => ⟨(h4 x hx).1, (h4 x hx).2.1, (h4 x hx).2.2.1⟩⟩

/-- the segments an observer of the wire has collected: any sub-collection, in any order, with any
multiplicity, of the segments decoded from the datagrams emitted so far -/
def C09_Observed (wire : List Bytes) (all : List DSeg) : Prop := ∀ x ∈ all, x ∈ wireSegs wire

/-- **(b) The specification's reassembler, exactly.**  For every history as in (a) and ANY observed
collection `all`: there is `n ≤ |log|` such that the reassembler has consumed precisely the numbered
segments `0 … n−1`, all of which were seen, it stopped because `n = |log|` or segment `n` was never
seen, and it returns the whole messages among them, `(grp (log.take n)).flatten` (`grp` cuts at every
`frg = 0`; in stream mode every segment is a message). -/
theorem C09_wire_reassembles_exact (k0 : Kcp) (hf : Fresh k0) (hm : InvMss k0) (hsn : k0.snd_nxt = 0) (ops : List Op)
    (hL : (run { k := k0 } ops).log.length ≤ 2 ^ 32) (all : List DSeg)
    (hall : C09_Observed (run { k := k0 } ops).wire all) :
    ∃ n, n ≤ (run { k := k0 } ops).log.length ∧
      Wire.Spec.reassemble all = (grp ((run { k := k0 } ops).log.take n)).flatten ∧
      reassembleMsgs all = grp ((run { k := k0 } ops).log.take n) ∧
      (∀ i, i < n → Avail all i) ∧ (n < (run { k := k0 } ops).log.length → ¬ Avail all n) := by
  have h := C09_wire_invariant k0 hf hm ops
  rw [hsn] at h
  obtain ⟨n, h1, h2, h3, h4⟩ := reassembleMsgs_spec _ all (fun x hx => h.segGen hL x (hall x hx))
  exact ⟨n, h1, by rw [reassemble_eq_flatten, h2], h2, h3, h4⟩

/-- **(b) `wire_reassembles`: the stream reassembled from the wire alone is a prefix of the accepted
byte stream.**  For every history as in (a) and any observed collection of segments (any order,
retransmissions, losses): `Wire.Spec.reassemble all` is a prefix of `bytesOf log`, the payload of the
numbered segments, which is a prefix of `accB`, the bytes `Send` has accepted so far
(`accB = bytesOf (log ++ snd_queue)`, `C01_send_accounting`). -/
theorem C09_wire_reassembles (k0 : Kcp) (hf : Fresh k0) (hm : InvMss k0) (hsn : k0.snd_nxt = 0) (ops : List Op)
    (hL : (run { k := k0 } ops).log.length ≤ 2 ^ 32) (all : List DSeg)
    (hall : C09_Observed (run { k := k0 } ops).wire all) :
    Wire.Spec.reassemble all <+: bytesOf (run { k := k0 } ops).log ∧
    bytesOf (run { k := k0 } ops).log <+: (run { k := k0 } ops).accB ∧
    (run { k := k0 } ops).accB =
      bytesOf ((run { k := k0 } ops).log ++ (run { k := k0 } ops).k.snd_queue.map content) := by
  obtain ⟨n, _, h2, _⟩ := C09_wire_reassembles_exact k0 hf hm hsn ops hL all hall
  have hmss : 0 < k0.mss.toNat := by have := hm.mss_toNat; have := hm.mtu_gt; omega
  have hacc := (run_invAcc ops _ (fresh_invAcc k0 hf hmss)).acc
  refine ⟨?_, ?_, hacc⟩
  · rw [h2]
    exact (grp_flatten_prefix _).trans (bytesOf_take_prefix _ _)
  · rw [hacc, bytesOf_append]; exact List.prefix_append _ _

/-- **(b) … and it is everything numbered so far once every numbered segment has been seen.**  If the
observer has seen a PUSH segment for every sequence number `i < |log|` (each numbered segment was
transmitted at least once and not missed: `C09_full_flush_transmits` — a full flush transmits
everything it admits), the reassembler returns all whole messages of the log; when the log ends on a
message boundary (`Closed`: always in stream mode, where every `frg` is 0) that is `bytesOf log`. -/
theorem C09_wire_reassembles_complete (k0 : Kcp) (hf : Fresh k0) (hm : InvMss k0) (hsn : k0.snd_nxt = 0)
    (ops : List Op) (hL : (run { k := k0 } ops).log.length ≤ 2 ^ 32) (all : List DSeg)
    (hall : C09_Observed (run { k := k0 } ops).wire all)
    (hseen : ∀ i, i < (run { k := k0 } ops).log.length → Avail all i) :
    Wire.Spec.reassemble all = (grp (run { k := k0 } ops).log).flatten ∧
    (Closed (run { k := k0 } ops).log → Wire.Spec.reassemble all = bytesOf (run { k := k0 } ops).log) := by
  obtain ⟨n, h1, h2, _, _, h4⟩ := C09_wire_reassembles_exact k0 hf hm hsn ops hL all hall
  have hn : n = (run { k := k0 } ops).log.length := by
    rcases Nat.eq_or_lt_of_le h1 with h5 | h5
    · exact h5
    · exact absurd (hseen n h5) (h4 h5)
  rw [hn, List.take_length] at h2
  exact ⟨h2, fun hc => by rw [h2, grp_flatten_closed _ hc]⟩

/-- **A full flush transmits everything it admits** — the condition of `C09_wire_reassembles_complete`.
Sequence numbers are handed out by phase 4 of `flush` (of an ACK-only flush too: those segments reach
the wire with the next full flush); phase 5 of a FULL flush (`flush(IKCP_FLUSH_FULL)`: `Update`,
`WriteBuffers`, the session's `update`) sends every never-transmitted segment.  So after any history
followed by a full flush, every index the flush has added to the log is the sequence number of a PUSH
segment the specification decoder finds on the wire. -/
theorem C09_full_flush_transmits (k0 : Kcp) (hf : Fresh k0) (hm : InvMss k0) (hsn : k0.snd_nxt = 0) (ops : List Op)
    (now : U32) (hL : (run { k := k0 } (ops ++ [.flush true now])).log.length ≤ 2 ^ 32) :
    ∀ i, (run { k := k0 } ops).log.length ≤ i → i < (run { k := k0 } (ops ++ [.flush true now])).log.length →
      Avail (wireSegs (run { k := k0 } (ops ++ [.flush true now])).wire) i := by
  have h := C09_wire_invariant k0 hf hm ops
  rw [hsn] at h
  have hq := run_qInv ops _ (fresh_qInv k0 hf)
  obtain ⟨hp, _, _, _⟩ := Lemmas.KcpFlush.flush_ok (run { k := k0 } ops).k true now h.mss
  have e : run { k := k0 } (ops ++ [.flush true now]) =
      { run { k := k0 } ops with
        k := (flush (run { k := k0 } ops).k true now).k
        log := (run { k := k0 } ops).log ++ admitted (run { k := k0 } ops).k (flush (run { k := k0 } ops).k true now).k
        wire := (run { k := k0 } ops).wire ++ (flush (run { k := k0 } ops).k true now).outs } := by
    rw [run_snoc]
    unfold step
    rw [if_neg (by simp [h.alive])]
    simp only []
    rw [if_neg (by simp [hp])]
  rw [e] at hL ⊢
  intro i h1 h2
  obtain ⟨x, hx, hc, hs⟩ := flush_full_avail h.sg.inv hq h.conv h.bufc now hp hL i h1 h2
  refine ⟨x, ?_, hc, hs⟩
  show x ∈ wireSegs ((run { k := k0 } ops).wire ++ (flush (run { k := k0 } ops).k true now).outs)
  unfold wireSegs at hx ⊢
  rw [List.flatMap_append]
  exact List.mem_append_right _ hx

/-- **(b) … and only then**: if the numbered segment `i` has never been seen, nothing from segment `i`
on is delivered — the reassembled stream is a prefix of the payload of segments `0 … i−1`. -/
theorem C09_wire_reassembles_missing (k0 : Kcp) (hf : Fresh k0) (hm : InvMss k0) (hsn : k0.snd_nxt = 0)
    (ops : List Op) (hL : (run { k := k0 } ops).log.length ≤ 2 ^ 32) (all : List DSeg)
    (hall : C09_Observed (run { k := k0 } ops).wire all) (i : Nat) (hmiss : ¬ Avail all i) :
    Wire.Spec.reassemble all <+: bytesOf ((run { k := k0 } ops).log.take i) := by
  obtain ⟨n, _, h2, _, h3, _⟩ := C09_wire_reassembles_exact k0 hf hm hsn ops hL all hall
  have hni : n ≤ i := by
    rcases Nat.lt_or_ge i n with h5 | h5
    · exact absurd (h3 i h5) hmiss
    · exact h5
  rw [h2]
  refine (grp_flatten_prefix _).trans ?_
  have : (run { k := k0 } ops).log.take n = ((run { k := k0 } ops).log.take i).take n := by
    rw [List.take_take, Nat.min_eq_left hni]
  rw [this]
  exact bytesOf_take_prefix _ _

/-- **(b) Stream mode.**  With `stream ≠ 0` at the writer every segment has `frg = 0`, the log always
ends on a message boundary, and the stream reassembled from the wire IS the payload of all numbered
segments as soon as each of them has been seen at least once. -/
theorem C09_wire_reassembles_stream (k0 : Kcp) (hf : Fresh k0) (hm : InvMss k0) (hsn : k0.snd_nxt = 0)
    (hst : k0.stream ≠ 0) (ops : List Op) (hL : (run { k := k0 } ops).log.length ≤ 2 ^ 32) (all : List DSeg)
    (hall : C09_Observed (run { k := k0 } ops).wire all)
    (hseen : ∀ i, i < (run { k := k0 } ops).log.length → Avail all i) :
    Closed (run { k := k0 } ops).log ∧ Wire.Spec.reassemble all = bytesOf (run { k := k0 } ops).log := by
  have hc := (run_invStream ops _ (fresh_invStream k0 hf hst)).closed
  exact ⟨hc, (C09_wire_reassembles_complete k0 hf hm hsn ops hL all hall hseen).2 hc⟩

/-- **(b) Message mode.**  With `stream = 0` at the writer, the messages the specification's
reassembler delivers (`reassembleMsgs`, whose concatenation is `Wire.Spec.reassemble`:
`C09_reassemble_is_concat`) are a prefix of the messages `Send` has accepted, boundaries intact. -/
theorem C09_wire_reassembles_msg (k0 : Kcp) (hf : Fresh k0) (hm : InvMss k0) (hsn : k0.snd_nxt = 0)
    (hst : k0.stream = 0) (ops : List Op) (hL : (run { k := k0 } ops).log.length ≤ 2 ^ 32) (all : List DSeg)
    (hall : C09_Observed (run { k := k0 } ops).wire all) :
    reassembleMsgs all <+: (run { k := k0 } ops).accM := by
  obtain ⟨n, _, _, h2, _⟩ := C09_wire_reassembles_exact k0 hf hm hsn ops hL all hall
  have hmss : 0 < k0.mss.toNat := by have := hm.mss_toNat; have := hm.mtu_gt; omega
  have hM := (run_invM ops _ (fresh_invM k0 hf hmss hst)).m0.acc
  rw [h2, hM]
  exact (grp_take_prefix _ _).trans (grp_prefix_append _ _)

theorem C09_reassemble_is_concat (all : List DSeg) : Wire.Spec.reassemble all = (reassembleMsgs all).flatten :=
  reassemble_eq_flatten all

/-! ### non-vacuity: fragmentation, one segment per datagram, a retransmission of everything -/

/-- `mtu = 26` (2 payload bytes per segment): a 5-byte message in three fragments and a 1-byte
message; `flush` puts each segment into a datagram of its own; 300 ms later `update` retransmits all -/
def C09_exOps : List Op :=
  [.noDelay 1 10 2 1, .setMtu 26, .send [1, 2, 3, 4, 5], .send [6], .flush true 0, .update 300]

set_option maxRecDepth 1000000 in
example :
    Fresh (Kcp.new 7) ∧ InvMss (Kcp.new 7) ∧ (Kcp.new 7).snd_nxt = 0 ∧ (Kcp.new 7).stream = 0 ∧
    (run { k := Kcp.new 7 } C09_exOps).wire.length = 8 ∧
    (run { k := Kcp.new 7 } C09_exOps).log = [(2, [1, 2]), (1, [3, 4]), (0, [5]), (0, [6])] ∧
    Wire.Spec.reassemble (wireSegs (run { k := Kcp.new 7 } C09_exOps).wire) = [1, 2, 3, 4, 5, 6] ∧
    -- any order, duplicates
    reassembleMsgs ((wireSegs (run { k := Kcp.new 7 } C09_exOps).wire).reverse) = [[1, 2, 3, 4, 5], [6]] ∧
    (run { k := Kcp.new 7 } C09_exOps).accM = [[1, 2, 3, 4, 5], [6]] ∧
    -- segment 3 never seen: the first message only; segment 1 never seen: nothing
    Wire.Spec.reassemble ((wireSegs (run { k := Kcp.new 7 } C09_exOps).wire).filter (fun x => x.1.sn != 3))
      = [1, 2, 3, 4, 5] ∧
    Wire.Spec.reassemble ((wireSegs (run { k := Kcp.new 7 } C09_exOps).wire).filter (fun x => x.1.sn != 1)) = [] := by
  refine ⟨fresh_new 7, Lemmas.KcpMss.new_inv 7, rfl, rfl, by decide, by decide, by decide, by decide, by decide,
    by decide, by decide⟩

end KcpVerif.Props
