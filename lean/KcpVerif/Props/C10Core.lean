import KcpVerif.Lemmas.KcpMss
/-!
C10 — no datagram exceeds the configured MTU; accepted MTUs are safe.  Protocol-core half
(`kcp.go`: `flush`, `Input`, `Update`, `Send`, `SetMtu`); the session half is in `Props/C10.lean`.

Everything here is about the executable model `Model/Kcp.lean` (tied to the Go code by the `kcp-mtu`
correspondence component) AFTER the two repairs of `KCP.SetMtu` (D1: refuses `mtu − 24 > mtuLimit`;
D2: refuses a value below `24 + longest queued segment`).

* `InvMss k` — the MTU invariant:
  every segment of `snd_queue ++ snd_buf` carries at most `mss` bytes, `mss = mtu − 24`,
  `24 < mtu ≤ mtuLimit + 24`, and the staging buffer has `3·(mtu + 24)` bytes
  (`C10_core_InvMss_def` spells it out).
* under `InvMss`, everything `flush` / `Input` / `Update` hand to the output callback is non-empty and at most
  `mtu` bytes long, and no slice expression of the core is out of bounds (`panic = false`);
* `InvMss` holds for `NewKCP` and is preserved by every operation with arbitrary arguments, in particular by
  `SetMtu` with EVERY integer argument: an accepted value is honoured from then on, a value that cannot be
  honoured is refused and changes nothing;
* hence, in every history of operations from `NewKCP`, with `SetMtu` interleaved anywhere, every packet the
  output callback receives is non-empty and no longer than the MTU in force at that moment, and nothing panics.

All statements are at full strength for the core half (nothing is `_partial`); helper lemmas are in
`Lemmas/KcpFlush.lean` (the flush accumulator) and `Lemmas/KcpMss.lean` (the other operations, histories).
-/
namespace KcpVerif.Props
open KcpVerif KcpVerif.Gen KcpVerif.Kcp KcpVerif.Lemmas.KcpFlush KcpVerif.Lemmas.KcpMss

/-- what the invariant says, spelled out -/
theorem C10_core_InvMss_def (k : Kcp) :
    InvMss k ↔ ((∀ s ∈ k.snd_queue ++ k.snd_buf, s.data.length ≤ k.mss.toNat)
      ∧ k.mss = k.mtu - u32 IKCP_OVERHEAD
      ∧ k.mtu.toNat > IKCP_OVERHEAD
      ∧ k.mtu.toNat ≤ mtuLimit + IKCP_OVERHEAD
      ∧ k.bufLen = (k.mtu.toNat + IKCP_OVERHEAD) * 3) :=
  ⟨fun h => ⟨h.segs, h.mss_eq, h.mtu_gt, h.mtu_le, h.buf⟩, fun ⟨a, b, c, d, e⟩ => ⟨a, b, c, d, e⟩⟩

/-! ### 1. sizes of what the output callback receives -/

/-- `flush` (either flush type, any clock): every `output(buffer, size)` has `0 < size ≤ mtu`,
and no write to `buffer` is out of bounds -/
theorem C10_core_flush_sizes (k : Kcp) (h : InvMss k) (full : Bool) (now : U32) :
    (∀ o ∈ (flush k full now).outs, 0 < o.length ∧ o.length ≤ k.mtu.toNat) ∧ (flush k full now).panic = false :=
  ⟨(flush_ok k full now h).2.1, (flush_ok k full now h).1⟩

/-- `Input` of ANY byte string (it may flush) -/
theorem C10_core_input_sizes (k : Kcp) (h : InvMss k) (data : Bytes) (regular ackNoDelay : Bool) (now : U32) :
    (∀ o ∈ (input k data regular ackNoDelay now).outs, 0 < o.length ∧ o.length ≤ k.mtu.toNat)
      ∧ (input k data regular ackNoDelay now).panic = false :=
  ⟨(input_ok k data regular ackNoDelay now h).2.1, (input_ok k data regular ackNoDelay now h).1⟩

/-- `Update` at any clock value -/
theorem C10_core_update_sizes (k : Kcp) (h : InvMss k) (now : U32) :
    (∀ o ∈ (update k now).outs, 0 < o.length ∧ o.length ≤ k.mtu.toNat) ∧ (update k now).panic = false :=
  ⟨(update_ok k now h).2.1, (update_ok k now h).1⟩

/-- `Send` of any buffer never slices a pool buffer beyond its capacity -/
theorem C10_core_send_no_panic (k : Kcp) (h : InvMss k) (buffer : Bytes) : (send k buffer).panic = false :=
  (send_ok k buffer h).1

/-- the accumulator step on which everything rests: `makeSpace(n)` with `n ≤ mtu` emits only a non-empty
buffer of at most `mtu` bytes, and afterwards `n` more bytes fit below the MTU -/
theorem C10_core_makeSpace (m : Nat) (f : Fl) (h : FlOk m f) (n : Nat) (hn : n ≤ m) :
    FlOk m (f.makeSpace n) ∧ (f.makeSpace n).cur.length + n ≤ m :=
  h.makeSpace hn

/-! ### 2. the invariant is inductive -/

theorem C10_core_InvMss_new (conv : U32) : InvMss (Kcp.new conv) := new_inv conv

/-- preserved by every operation of the core, with arbitrary arguments -/
theorem C10_core_InvMss_inductive (k : Kcp) (h : InvMss k) :
    (∀ buffer, InvMss (send k buffer).k)
      ∧ (∀ buflen, InvMss (recv k buflen).k)
      ∧ (∀ data regular ackNoDelay now, InvMss (input k data regular ackNoDelay now).k)
      ∧ (∀ full now, InvMss (flush k full now).k)
      ∧ (∀ now, InvMss (update k now).k)
      ∧ (∀ m : Int, InvMss (setMtu k m).1)
      ∧ (∀ nodelay interval resend nc, InvMss (noDelay k nodelay interval resend nc))
      ∧ (∀ snd rcv, InvMss (wndSize k snd rcv)) :=
  ⟨fun b => (send_ok k b h).2.1,
   fun n => inv_of_view h (recv_view k n),
   fun d r a now => (input_ok k d r a now h).2.2.1,
   fun full now => (flush_ok k full now h).2.2.1,
   fun now => (update_ok k now h).2.2.1,
   fun m => setMtu_inv k m h,
   fun a b c d => inv_of_view h (noDelay_view k a b c d),
   fun a b => inv_of_view h (wndSize_view k a b)⟩

/-- one step of a history (`Op` lists every state-changing operation; `step` runs it on the model) -/
theorem C10_core_step (k : Kcp) (h : InvMss k) (op : Op) :
    (step k op).panic = false
      ∧ (∀ o ∈ (step k op).outs, 0 < o.length ∧ o.length ≤ k.mtu.toNat)
      ∧ InvMss (step k op).k :=
  step_ok k op h

/-- every state reachable from `NewKCP` by any history satisfies the invariant; in particular the MTU in force
is always one the pool buffers can carry -/
theorem C10_core_reachable_InvMss (conv : U32) (ops : List Op) : InvMss (run (Kcp.new conv) ops) :=
  run_inv _ ops (new_inv conv)

/-- **the property, core half**: in every history of core operations from `NewKCP` — `SetMtu` with any integer
interleaved anywhere, any byte strings fed to `Input`, any clock values — every packet handed to the output
callback (`trace` pairs each with the MTU in force when it was emitted) is non-empty and no longer than that
MTU, and no operation panics -/
theorem C10_core_every_output_within_mtu (conv : U32) (ops : List Op) :
    (∀ p ∈ trace (Kcp.new conv) ops, 0 < p.2.length ∧ p.2.length ≤ p.1) ∧ anyPanic (Kcp.new conv) ops = false :=
  ⟨(trace_ok _ ops (new_inv conv)).2, (trace_ok _ ops (new_inv conv)).1⟩

/-- the same, said about the next operation after an arbitrary history -/
theorem C10_core_next_op_within_mtu (conv : U32) (ops : List Op) (op : Op) :
    (∀ o ∈ (step (run (Kcp.new conv) ops) op).outs, 0 < o.length ∧ o.length ≤ (run (Kcp.new conv) ops).mtu.toNat)
      ∧ (step (run (Kcp.new conv) ops) op).panic = false :=
  ⟨(step_ok _ op (run_inv _ ops (new_inv conv))).2.1, (step_ok _ op (run_inv _ ops (new_inv conv))).1⟩

/-! ### 3. `SetMtu`: accepted iff it can be honoured -/

/-- exact characterisation of `SetMtu(m) = 0` -/
theorem C10_core_setMtu_accept_iff (k : Kcp) (m : Int) :
    (setMtu k m).2 = 0 ↔
      ((IKCP_OVERHEAD : Int) < m ∧ m ≤ (mtuLimit : Int) + (IKCP_OVERHEAD : Int)
        ∧ ∀ s ∈ k.snd_queue ++ k.snd_buf, (s.data.length : Int) ≤ m - (IKCP_OVERHEAD : Int)) :=
  setMtu_accept_iff k m

/-- a refused value returns −1 and changes nothing -/
theorem C10_core_setMtu_refused (k : Kcp) (m : Int) (h : (setMtu k m).2 ≠ 0) : setMtu k m = (k, -1) :=
  setMtu_of_not_acceptable k m (fun ha => h ((setMtu_accept_iff k m).mpr ha))

/-- an accepted value becomes the MTU in force exactly (no 32-bit truncation), with the matching segment size
and staging buffer; the queues are untouched -/
theorem C10_core_setMtu_accepted (k : Kcp) (m : Int) (h : (setMtu k m).2 = 0) :
    ((setMtu k m).1.mtu.toNat : Int) = m
      ∧ ((setMtu k m).1.mss.toNat : Int) = m - (IKCP_OVERHEAD : Int)
      ∧ ((setMtu k m).1.bufLen : Int) = (m + (IKCP_OVERHEAD : Int)) * 3
      ∧ (setMtu k m).1.snd_queue = k.snd_queue ∧ (setMtu k m).1.snd_buf = k.snd_buf := by
  have ha := (setMtu_accept_iff k m).mp h
  have hm := setMtu_accepted_mtu k m ha
  rw [setMtu_of_acceptable k m ha] at hm ⊢
  change ((BitVec.ofInt 32 m).toNat : Int) = m at hm
  obtain ⟨h1, h2, _⟩ := ha
  refine ⟨hm, ?_, ?_, rfl, rfl⟩
  · show ((BitVec.ofInt 32 m - u32 IKCP_OVERHEAD).toNat : Int) = m - (IKCP_OVERHEAD : Int)
    have : (BitVec.ofInt 32 m - u32 IKCP_OVERHEAD).toNat = (BitVec.ofInt 32 m).toNat - IKCP_OVERHEAD := by
      simp only [u32, IKCP_OVERHEAD] at h1 hm ⊢
      bv_omega
    rw [this]; omega
  · show (((m.toNat + IKCP_OVERHEAD) * 3 : Nat) : Int) = (m + (IKCP_OVERHEAD : Int)) * 3
    omega

/-- "honoured from then on": only `SetMtu` changes the MTU in force (any reachable state, any other operation) -/
theorem C10_core_mtu_stable (conv : U32) (ops : List Op) (op : Op) (hop : ∀ m, op ≠ .setMtu m) :
    (step (run (Kcp.new conv) ops) op).k.mtu = (run (Kcp.new conv) ops).mtu :=
  step_mtu _ op (run_inv _ ops (new_inv conv)) hop

/-! ### 4. both refusal clauses are needed (D1, D2 re-established on the model)

`setMtuUnrepaired` is `SetMtu` as it was before the two `fix:` commits (only `mtu ≤ 24` refused).  With it the
invariant is NOT inductive and the size property fails; the witnesses are the ones of DESIGN.md section 6. -/

/-- `KCP.SetMtu` before the repairs -/
def setMtuUnrepaired (k : Kcp) (mtu : Int) : Kcp × Int :=
  if mtu ≤ (IKCP_OVERHEAD : Int) then (k, -1)
  else
    let m := BitVec.ofInt 32 mtu
    ({ k with mtu := m, mss := m - u32 IKCP_OVERHEAD, bufLen := (mtu.toNat + IKCP_OVERHEAD) * 3 }, 0)

/-- the repaired `SetMtu` refuses no more than it must: for every value that fits a `uint32`, it accepts exactly
when installing the value (what the unrepaired code always did) gives a state satisfying the invariant -/
theorem C10_core_setMtu_refuses_only_unhonourable (k : Kcp) (m : Int) (h1 : (IKCP_OVERHEAD : Int) < m)
    (h2 : m < 4294967296) :
    (setMtu k m).2 = 0 ↔ InvMss (setMtuUnrepaired k m).1 := by
  have hun : setMtuUnrepaired k m = ({ k with
      mtu := BitVec.ofInt 32 m, mss := BitVec.ofInt 32 m - u32 IKCP_OVERHEAD,
      bufLen := (m.toNat + IKCP_OVERHEAD) * 3 }, 0) := by
    unfold setMtuUnrepaired; rw [if_neg (by omega)]
  have hnat : ((BitVec.ofInt 32 m).toNat : Int) = m := by
    simp only [BitVec.toNat_ofInt]; simp only [IKCP_OVERHEAD] at h1; omega
  rw [hun]
  constructor
  · intro h
    exact setMtu_installed_inv k m ((setMtu_accept_iff k m).mp h)
  · intro h
    apply (setMtu_accept_iff k m).mpr
    have hle := h.mtu_le
    have hmss := h.mss_toNat
    change (BitVec.ofInt 32 m).toNat ≤ mtuLimit + IKCP_OVERHEAD at hle
    change (BitVec.ofInt 32 m - u32 IKCP_OVERHEAD).toNat = (BitVec.ofInt 32 m).toNat - IKCP_OVERHEAD at hmss
    refine ⟨h1, by omega, ?_⟩
    intro s hs
    have := h.segs s hs
    change s.data.length ≤ (BitVec.ofInt 32 m - u32 IKCP_OVERHEAD).toNat at this
    omega

/-- a core with one full-size segment (1376 bytes) queued and the congestion window opened by a first flush -/
def c10kq : Kcp := (flush (send (Kcp.new 7) (List.replicate 1376 0x55)).k true 0).k

/-- D2: shrinking while a segment is queued — the unrepaired `SetMtu(1000)` returns 0, and the next flush hands
the output callback an EMPTY packet and one of 1400 > 1000 bytes; `SetMtu(50)` makes flush panic.
The repaired `SetMtu` refuses both values in this state. -/
theorem C10_core_unrepaired_shrink_counterexample :
    (setMtuUnrepaired c10kq 1000).2 = 0
      ∧ (flush (setMtuUnrepaired c10kq 1000).1 true 0).outs.map List.length = [0, 1400]
      ∧ (flush (setMtuUnrepaired c10kq 50).1 true 0).panic = true
      ∧ ¬ InvMss (setMtuUnrepaired c10kq 1000).1
      ∧ setMtu c10kq 1000 = (c10kq, -1) ∧ setMtu c10kq 50 = (c10kq, -1) := by decide +kernel

/-- D1: an MTU whose segment size exceeds the pool buffers — the unrepaired `SetMtu(5000)` returns 0 and
`Send` of 4000 bytes panics (`Get()[:4000]`, capacity `mtuLimit`).  The repaired `SetMtu` refuses 5000. -/
theorem C10_core_unrepaired_big_counterexample :
    (setMtuUnrepaired (Kcp.new 7) 5000).2 = 0
      ∧ (send (setMtuUnrepaired (Kcp.new 7) 5000).1 (List.replicate 4000 1)).panic = true
      ∧ ¬ InvMss (setMtuUnrepaired (Kcp.new 7) 5000).1
      ∧ setMtu (Kcp.new 7) 5000 = (Kcp.new 7, -1) := by decide +kernel

/-! ### non-vacuity: concrete states and histories (evaluated by the kernel) -/

/-- a core with one queued segment of 200 bytes (default MTU 1400) -/
def c10k1 : Kcp := (send (Kcp.new 7) (List.replicate 200 0x55)).k

example : c10k1.snd_queue.map (·.data.length) = [200] ∧ c10k1.mtu.toNat = 1400 := by decide +kernel
/-- the hypothesis of the size theorems holds of it (and is decidable) -/
example : InvMss c10k1 := by decide +kernel
/-- shrinking below `24 + 200` is refused and changes nothing … -/
example : setMtu c10k1 223 = (c10k1, -1) := by decide +kernel
/-- … shrinking to exactly `24 + 200` is accepted and honoured: the next transmission is one packet of exactly
the new MTU -/
example : (setMtu c10k1 224).2 = 0 ∧ (setMtu c10k1 224).1.mtu.toNat = 224
    ∧ (flush (flush (setMtu c10k1 224).1 true 0).k true 0).outs.map List.length = [224] := by decide +kernel
/-- boundary, negative and huge arguments (D1): refused; the largest value the pool buffers can carry: accepted -/
example : (setMtu c10k1 24).2 = -1 ∧ (setMtu c10k1 0).2 = -1 ∧ (setMtu c10k1 (-1)).2 = -1
    ∧ (setMtu c10k1 1525).2 = -1 ∧ (setMtu c10k1 5000).2 = -1 ∧ (setMtu c10k1 4294967296).2 = -1
    ∧ (setMtu c10k1 (4294967296 + 1400)).2 = -1 ∧ (setMtu c10k1 1524).2 = 0 := by decide +kernel

/-- a history with `SetMtu` interleaved in traffic: 3000 bytes are cut into segments of 1376, 1376, 248 -/
def c10hist : List Op :=
  [.send (List.replicate 3000 1), .flush true 0, .setMtu 600, .setMtu 1424, .update 100, .setMtu 1400, .update 300]

/-- `SetMtu 600` is refused (1376 bytes are queued), 1424 and 1400 are accepted; the packets emitted, with the MTU
in force: the theorem `C10_core_every_output_within_mtu` is about a non-empty trace -/
example : (trace (Kcp.new 7) c10hist).map (fun p => (p.1, p.2.length)) = [(1424, 1400), (1400, 1400)]
    ∧ anyPanic (Kcp.new 7) c10hist = false := by decide +kernel
example : (run (Kcp.new 7) c10hist).snd_buf.length = 1 ∧ (run (Kcp.new 7) c10hist).snd_queue.length = 2
    ∧ InvMss (run (Kcp.new 7) c10hist) := by decide +kernel

/-- the accumulator invariant of `C10_core_makeSpace` on a concrete accumulator: 1390 pending bytes, a request
for 24 more at MTU 1400 emits them (non-empty, within the MTU) -/
example : ((⟨Kcp.new 7, List.replicate 1390 0, [], false⟩ : Fl).makeSpace 24).outs.map List.length = [1390] := by
  decide +kernel
example : FlOk 1400 (⟨Kcp.new 7, List.replicate 1390 0, [], false⟩ : Fl) :=
  ⟨by decide +kernel, by decide +kernel, by decide +kernel, (by intro o ho; cases ho), rfl⟩

end KcpVerif.Props
