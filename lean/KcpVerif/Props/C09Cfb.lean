import KcpVerif.Props.C09WireOut
import KcpVerif.Props.C19Cfb
/-!
C09 — the cipher hypothesis `C09_CipherLaws` of `C09_wire_reassembles_fec_crypt` discharged for
textbook CFB over ANY block function of size 8 or 16 (which `C08_enc_unrolled_eq_textbook` /
`C08_dec_unrolled_eq_textbook` prove the unrolled code of crypt.go computes).  What remains a
hypothesis: the AEAD round trip of the standard library's GCM, and the composition `C09_ReqsOf`.
-/
namespace KcpVerif.Props
open KcpVerif KcpVerif.Gen KcpVerif.Kcp KcpVerif.Recv KcpVerif.Send KcpVerif.C09W KcpVerif.SessOut KcpVerif.Cfb
open KcpVerif.C01 (Op run GSt Fresh bytesOf grp Closed fresh_new)
open KcpVerif.Lemmas.KcpFlush (InvMss)

theorem C09_cfb_laws {γ : Type} (bs : Nat) (hbs : bs = 8 ∨ bs = 16) (E : Bytes → Bytes) (hE : BlockFn bs E)
    (crc : Bytes → BitVec 32) (parity : List Bytes → Nat → Bytes) (draw : γ → Draw γ)
    (hdraw : ∀ g, 16 ≤ (draw g).out.length) (d p : Nat) :
    C09_CipherLaws (cfbPrims E bs crc parity draw) { cipher := .block, d := d, p := p } :=
  let L := C19_cfb_laws bs hbs E hE crc parity draw hdraw d p
  { block := L.decEnc, aead := L.openSeal,
    draw := fun g => Nat.le_trans L.nonce (hdraw g) }

/-- **`C09_wire_reassembles_fec_cfb`**: the session's wire — FEC on or off, encrypted with CFB over
any block cipher — decrypted and decoded by the README's observer yields exactly the core's
segments, so any sub-collection of the datagrams reassembles a prefix of what was written. -/
theorem C09_wire_reassembles_fec_cfb {γ : Type} (bs : Nat) (hbs : bs = 8 ∨ bs = 16) (E : Bytes → Bytes)
    (hE : BlockFn bs E) (crc : Bytes → BitVec 32) (parity : List Bytes → Nat → Bytes) (draw : γ → Draw γ)
    (hdraw : ∀ g, 16 ≤ (draw g).out.length) (d p : Nat)
    (k0 : Kcp) (hf : Fresh k0) (hm : InvMss k0) (hsn : k0.snd_nxt = 0) (ops : List Op)
    (hL : (run { k := k0 } ops).log.length ≤ 2 ^ 32)
    (reqs : List Req) (hreqs : C09_ReqsOf reqs (run { k := k0 } ops).wire)
    (hoob : ({ cipher := .block, d := d, p := p } : SessOut.Cfg).fecOn = false → ∀ r ∈ reqs, r.oob = false)
    (st : PP γ) (hst : C09_EncOk { cipher := .block, d := d, p := p } st.enc) :
    (postProcess (cfbPrims E bs crc parity draw) { cipher := .block, d := d, p := p } st reqs).emits.flatMap
        (fun em => C09_observe (cfbPrims E bs crc parity draw) { cipher := .block, d := d, p := p } em.wire) =
        wireSegs (run { k := k0 } ops).wire ∧
    ∀ all : List DSeg,
      (∀ x ∈ all, x ∈ (postProcess (cfbPrims E bs crc parity draw) { cipher := .block, d := d, p := p } st reqs).emits.flatMap
        (fun em => C09_observe (cfbPrims E bs crc parity draw) { cipher := .block, d := d, p := p } em.wire)) →
      Wire.Spec.reassemble all <+: bytesOf (run { k := k0 } ops).log ∧
      bytesOf (run { k := k0 } ops).log <+: (run { k := k0 } ops).accB :=
  let h := C09_wire_reassembles_fec_crypt _ _ (C09_cfb_laws bs hbs E hE crc parity draw hdraw d p) k0 hf hm hsn ops hL
    reqs hreqs hoob st hst
  ⟨h.1, fun all hall => ⟨(h.2 all hall).1, (h.2 all hall).2.1⟩⟩

end KcpVerif.Props
