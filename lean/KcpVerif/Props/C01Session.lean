import KcpVerif.Props.C01
import KcpVerif.Props.C01Msg
import KcpVerif.Lemmas.C01SessRef
import KcpVerif.Lemmas.C01SessFrg
/-!
C01 — session level, configuration without cipher and FEC (`C01_session_plain`, DESIGN.md 7.1
items 5–8 and 13): two sessions of `Model/Sess.lean` (the model the `sess` component ties op by op
to real `UDPSession`s) connected by a replay-only network.  Whatever the interleaving of
`WriteBuffers`, `Read` (any buffer sizes), `update`, the setters, and `packetInput` of any datagram
the peer has emitted, the bytes `Read` has returned on `B` are a prefix of the bytes `WriteBuffers`
has accepted on `A`.

Structure of the proof (`Lemmas/C01SessOps.lean`, `C01SessSys.lean`, `C01SessRef.lean`, `C01SessFrg.lean`):
every session step is a sequence of core operations (`WriteBuffers` = `Send`s of at most `mss` bytes
followed by at most one `flush`; `Read` = at most one `Recv`; `packetInput` = at most one `Input`),
so every run of the two-session system is matched by a run of the two-core system of `C01_core`
(`ssrun_sim`); on top of it `rd ++ bufptr = concat (Recv results)` (`RefR`) and
`wr = bytes (log ++ snd_queue)` (`InvW`).
-/
namespace KcpVerif.Props
open KcpVerif KcpVerif.Gen KcpVerif.Kcp KcpVerif.Frame KcpVerif.Recv KcpVerif.Send KcpVerif.Wire KcpVerif.C01

/-- **`C01_session_plain`.**  Sessions `A` (writer) and `B` (reader) without cipher and FEC, fresh
cores with matching initial sequence numbers, any `stream` flag on either side (message mode is the
session default; the flag is part of the initial state), `mss > 0` at `A`, no unread leftover at `B`.
ANY interleaving of: arbitrary session operations of `A` (`WriteBuffers` of any slices at any clock —
admitted or blocked —, `Read` with any buffer length, `update`, `SetWriteDelay`, `SetACKNoDelay`,
`SetNoDelay`, `SetWindowSize`, `SetMtu` with any arguments, and `packetInput` of ARBITRARY bytes, e.g.
everything `B` emits, forged or not); arbitrary session operations of `B` other than `packetInput`;
deliveries to `B.packetInput` of any datagram `A` has emitted so far (any later time, any number of
times, any order, or never).  Range hypothesis: `A` has numbered fewer than 2^32 segments.

Then the concatenation of everything `B.Read` has returned is a prefix of the concatenation of all
buffers `A.WriteBuffers` has accepted. -/
theorem C01_session_plain (sA sB : Sess) (hA : Fresh sA.k) (hB : Fresh sB.k) (hbB : sB.bufptr = [])
    (hsn : sB.k.rcv_nxt = sA.k.snd_nxt) (hm : 0 < sA.k.mss.toNat) (ops : List SSOp)
    (hL : (ssrun ⟨{ s := sA }, { s := sB }⟩ ops).A.log.length < 2 ^ 32) :
    (ssrun ⟨{ s := sA }, { s := sB }⟩ ops).B.rd <+: (ssrun ⟨{ s := sA }, { s := sB }⟩ ops).A.wr := by
  obtain ⟨cops, hKA, hKB, hRB⟩ := ssrun_sim ops ⟨{ s := sA }, { s := sB }⟩ ⟨{ k := sA.k }, { k := sB.k }⟩
    ⟨rfl, rfl, rfl, rfl⟩ ⟨rfl, rfl, rfl, rfl⟩ (by show [] ++ sB.bufptr = _; rw [hbB]; rfl)
  have hW := ssrun_invW ops ⟨{ s := sA }, { s := sB }⟩ ⟨hm, by simp [hA.sq, bytesOf]⟩
  have hLc : (srun ⟨{ k := sA.k }, { k := sB.k }⟩ cops).A.log.length < 2 ^ 32 := by rw [← hKA.log]; exact hL
  have hbehind := (C01_reader_behind sA.k sB.k hA hB hsn cops hLc).1
  have hcore := (C01_core_partial sA.k sB.k hA hB hsn cops (by omega) (by omega)).2
  rw [← hRB, ← hKA.log] at hcore
  have h1 : (ssrun ⟨{ s := sA }, { s := sB }⟩ ops).B.rd <+:
      bytesOf (ssrun ⟨{ s := sA }, { s := sB }⟩ ops).A.log := (List.prefix_append _ _).trans hcore
  refine h1.trans ?_
  rw [hW.acc, bytesOf_append]
  exact List.prefix_append _ _

/-- the sharper form: what `B.Read` has returned followed by the unread rest of the last message is
exactly the payload of the first `m` segments `A` has numbered, for some `m` -/
theorem C01_session_plain_exact (sA sB : Sess) (hA : Fresh sA.k) (hB : Fresh sB.k) (hbB : sB.bufptr = [])
    (hsn : sB.k.rcv_nxt = sA.k.snd_nxt) (hm : 0 < sA.k.mss.toNat) (ops : List SSOp)
    (hL : (ssrun ⟨{ s := sA }, { s := sB }⟩ ops).A.log.length < 2 ^ 32) :
    ∃ m, (ssrun ⟨{ s := sA }, { s := sB }⟩ ops).B.rd ++ (ssrun ⟨{ s := sA }, { s := sB }⟩ ops).B.s.bufptr =
        bytesOf ((ssrun ⟨{ s := sA }, { s := sB }⟩ ops).A.log.take m) ∧
      (ssrun ⟨{ s := sA }, { s := sB }⟩ ops).A.wr =
        bytesOf ((ssrun ⟨{ s := sA }, { s := sB }⟩ ops).A.log ++
          (ssrun ⟨{ s := sA }, { s := sB }⟩ ops).A.s.k.snd_queue.map content) := by
  obtain ⟨cops, hKA, hKB, hRB⟩ := ssrun_sim ops ⟨{ s := sA }, { s := sB }⟩ ⟨{ k := sA.k }, { k := sB.k }⟩
    ⟨rfl, rfl, rfl, rfl⟩ ⟨rfl, rfl, rfl, rfl⟩ (by show [] ++ sB.bufptr = _; rw [hbB]; rfl)
  have hW := ssrun_invW ops ⟨{ s := sA }, { s := sB }⟩ ⟨hm, by simp [hA.sq, bytesOf]⟩
  have hLc : (srun ⟨{ k := sA.k }, { k := sB.k }⟩ cops).A.log.length < 2 ^ 32 := by rw [← hKA.log]; exact hL
  have hbehind := (C01_reader_behind sA.k sB.k hA hB hsn cops hLc).1
  have hcore := (C01_core_partial sA.k sB.k hA hB hsn cops (by omega) (by omega)).1
  rw [← hRB, ← hKA.log] at hcore
  exact ⟨_, hcore, hW.acc⟩

/-- **`WriteBuffers` is all or nothing, and a session only sends whole messages.**  For one session
with `mss > 0` initially, after ANY sequence of session operations: the bytes accepted so far are
exactly the payload bytes of `log ++ snd_queue`, in order, and every segment numbered or queued has
`frg = 0` — `WriteBuffers` cuts every slice into chunks of at most `mss` bytes (`sendAll_run`:
the `Send`s it issues are `ChunkOps mss`), so `Send` never fragments and never refuses with −2,
in message mode as well as in stream mode. -/
theorem C01_session_single_fragment (s0 : Sess) (hf : Fresh s0.k) (hm : 0 < s0.k.mss.toNat) (ops : List SessOp) :
    (sessRun { s := s0 } ops).wr =
        bytesOf ((sessRun { s := s0 } ops).log ++ (sessRun { s := s0 } ops).s.k.snd_queue.map content) ∧
      ∀ c ∈ (sessRun { s := s0 } ops).log ++ (sessRun { s := s0 } ops).s.k.snd_queue.map content, c.1 = 0 := by
  have hW := sessRun_invW ops { s := s0 } ⟨hm, by simp [hf.sq, bytesOf]⟩
  have hZ := sessRun_invZ ops { s := s0 } ⟨hm, by simp [hf.sq]⟩
  exact ⟨hW.acc, fun c hc => hZ.zero c.1 (List.mem_map.mpr ⟨c, hc, rfl⟩)⟩

/-- the chunking loop of `WriteBuffers` on one slice: when it does not panic it is a sequence of
core `Send`s each carrying at most `mss` bytes, none of which is refused with −2 -/
theorem C01_sendChunks_le_mss (k : Kcp) (b : Bytes) (hp : (Sess.sendChunks (b.length + 1) k b).panic = false) :
    ∃ ops : List Op, (∀ o ∈ ops, ∃ c : Bytes, o = .send c ∧ c.length ≤ k.mss.toNat) ∧
      (run { k := k } ops).k = (Sess.sendChunks (b.length + 1) k b).k ∧ (run { k := k } ops).dead = false := by
  obtain ⟨ops, h1, h2, h3⟩ := sendChunks_run (b.length + 1) k b { k := k } rfl rfl hp
  exact ⟨ops, h1, h3, h2.dead⟩

/-- `WriteBuffers` reports the total length of the slices when admitted and 0 when it blocks -/
theorem C01_session_write_all_or_nothing (s : Sess) (v : List Bytes) (now : U32)
    (hp : (s.writeBuffers v now).panic = false) :
    (s.writeBuffers v now).n = if (s.writeBuffers v now).blocked then 0 else v.flatten.length :=
  wb_n s v now hp

/-! ### non-vacuity: two default sessions, a write of two slices, replay, partial reads -/

/-- `A` (congestion control off) writes the slices `[1,2,3]` and `[4,5]` (two messages in one datagram,
flushed at once: write delay off), the network delivers the datagram twice, `B` reads with a 2-byte
buffer, a 1-byte buffer and large ones; `A` retransmits, the retransmission is delivered too -/
def C01_exSess : List SSOp :=
  [.a (.noDelay 1 10 2 1), .a (.write [[1, 2, 3], [4, 5]] 0), .dlv 0 5, .dlv 0 6, .b (.read 2), .b (.read 1), .b (.read 100),
   .b (.read 100), .b (.update 20), .a (.update 300), .dlv 1 301, .b (.read 100)]

set_option maxRecDepth 1000000 in
example : Fresh (Sess.new 7).k ∧ (Sess.new 7).bufptr = [] ∧ 0 < (Sess.new 7).k.mss.toNat ∧
    (ssrun ⟨{ s := Sess.new 7 }, { s := Sess.new 7 }⟩ C01_exSess).A.wr = [1, 2, 3, 4, 5] ∧
    (ssrun ⟨{ s := Sess.new 7 }, { s := Sess.new 7 }⟩ C01_exSess).A.log = [(0, [1, 2, 3]), (0, [4, 5])] ∧
    (ssrun ⟨{ s := Sess.new 7 }, { s := Sess.new 7 }⟩ C01_exSess).B.rd = [1, 2, 3, 4, 5] ∧
    (ssrun ⟨{ s := Sess.new 7 }, { s := Sess.new 7 }⟩ C01_exSess).A.dead = false ∧
    (ssrun ⟨{ s := Sess.new 7 }, { s := Sess.new 7 }⟩ C01_exSess).B.dead = false := by
  refine ⟨⟨by decide, by decide, by decide, by decide, by decide⟩, by decide, by decide, by decide, by decide,
    by decide, by decide, by decide⟩

end KcpVerif.Props
