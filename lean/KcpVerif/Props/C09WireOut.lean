import KcpVerif.Props.C09
import KcpVerif.Props.C09Wire
/-!
C09 `wire_reassembles` WITH FEC and/or a cipher (DESIGN.md 7.9, section 13).

The sending half of a session is `Model/SessOut.lean`: every buffer the core's output callback queues
is a request of `postProcess`, which runs the FEC stage (`fecStage`: data packet, possibly followed by
parity packets; OOB packets of `SendOOB` in between) and then, per emitted packet, the crypt stage
(`crypt`: nonce draw, CRC, encryption).  The independent observer does what the README says: decrypt
(the cipher is a parameter; only its round-trip law is used), strip the crypt header, strip the FEC
header, decode the KCP segments of DATA frames, skip PARITY and OOB frames
(`Wire.Spec.parseDatagram`, `Frame.segs`).

Result: in EVERY configuration (no cipher / block cipher / AEAD × FEC on / off) the list of segments
the observer extracts from all emitted datagrams, in transmission order, is exactly the list of
segments of the core's datagrams (`C09_postProcess_segments`), so everything `Props/C09Wire.lean`
proves about reassembly from the core's wire holds for the session's wire (`C09_wire_reassembles_fec_crypt`).

Composition assumed (a full composed session model with FEC and cipher is not available): the request
list of `postProcess` is, in order, one non-OOB request per datagram the core handed to `output`
(the output callback of `newUDPSession`; a core datagram is at least 24 bytes, so the callback never
skips one) with arbitrary dequeue times, interleaved at arbitrary positions with OOB requests
(`SendOOB`, only when FEC is on); the callback's `Get()[:size+headerSize]` does not exceed a pool
buffer (the session's `SetMtu` arithmetic: `C10`).  This file does not open the namespace `Wire`.
-/
namespace KcpVerif.Props
open KcpVerif KcpVerif.Gen KcpVerif.Kcp KcpVerif.Recv KcpVerif.Send KcpVerif.C09W KcpVerif.SessOut
open KcpVerif.C01 (Op run GSt Fresh bytesOf grp Closed fresh_new)
open KcpVerif.Lemmas.KcpFlush (InvMss)

/-! ### the observer -/

/-- how the specification names the session's protection … -/
def C09_specCrypt (c : SessOut.Cfg) : Wire.Spec.Crypt :=
  match c.cipher with
  | .none => .none
  | .block => .block
  | .aead n _ => .aead n

/-- … and its FEC configuration -/
def C09_specFec (c : SessOut.Cfg) : Option (Nat × Nat) := if c.fecOn then some (c.d, c.p) else none

/-- the KCP segments of the part of a datagram behind the crypt header (none for parity / OOB frames
and for anything the specification refuses) -/
def C09_bodySegs (fec : Option (Nat × Nat)) (rest : Bytes) : List DSeg :=
  match Wire.Spec.parseBody fec rest with
  | some f => f.segs
  | none => []

/-- the KCP segments of a decrypted datagram -/
def C09_plainSegs (crc : Bytes → BitVec 32) (c : SessOut.Cfg) (plain : Bytes) : List DSeg :=
  match Wire.Spec.parseDatagram crc (C09_specCrypt c) (C09_specFec c) plain with
  | some (_, f) => f.segs
  | none => []

/-- decryption as the receiver of the README does it: nothing / `Decrypt` of the whole datagram /
nonce ‖ `Open(nonce, rest)` -/
def C09_decrypt {γ : Type} (P : Prims γ) (c : SessOut.Cfg) (w : Bytes) : Option Bytes :=
  match c.cipher with
  | .none => some w
  | .block => some (P.decB w)
  | .aead n _ => (P.aopen (w.take n) (w.drop n)).map (w.take n ++ ·)

/-- the KCP segments an independent observer extracts from one datagram on the wire -/
def C09_observe {γ : Type} (P : Prims γ) (c : SessOut.Cfg) (w : Bytes) : List DSeg :=
  match C09_decrypt P c w with
  | some plain => C09_plainSegs P.crc c plain
  | none => []

/-- the round-trip laws of the cipher (the only thing used of it) and the length of a generator output -/
structure C09_CipherLaws {γ : Type} (P : Prims γ) (c : SessOut.Cfg) : Prop where
  block : ∀ x, P.decB (P.encB x) = x
  aead  : ∀ nonce x, P.aopen nonce (P.aseal nonce x) = some x
  draw  : ∀ g, c.nonceLen ≤ (P.draw g).out.length

/-! ### crypt stage -/

theorem C09_nonce_length {γ : Type} (P : Prims γ) (c : SessOut.Cfg) (H : C09_CipherLaws P c) (g : γ) (pkt : Pkt) :
    (crypt P c g pkt).emit.nonce.length = c.nonceLen := by
  have hd := H.draw g
  cases hc : c.cipher with
  | none => simp only [crypt, hc, Cfg.nonceLen]; rfl
  | aead n o =>
    simp only [Cfg.nonceLen, hc] at hd
    simp only [crypt, hc, Cfg.nonceLen, List.length_take]; omega
  | block =>
    simp only [Cfg.nonceLen, hc] at hd
    simp only [crypt, hc, Cfg.nonceLen, List.length_take]; omega

/-- **decryption gives back the frame** `postProcess` built before encryption -/
theorem C09_decrypt_wire {γ : Type} (P : Prims γ) (c : SessOut.Cfg) (H : C09_CipherLaws P c) (g : γ) (pkt : Pkt) :
    C09_decrypt P c (crypt P c g pkt).emit.wire = some (crypt P c g pkt).emit.plain := by
  have hn := C09_nonce_length P c H g pkt
  cases hc : c.cipher with
  | none => simp only [C09_decrypt, crypt, hc]
  | block => simp only [C09_decrypt, crypt, hc, H.block]
  | aead n o =>
    simp only [Cfg.nonceLen, hc, crypt] at hn
    simp only [C09_decrypt, crypt, hc]
    rw [List.take_left' hn, List.drop_left' hn, H.aead]
    rfl

/-- **stripping the crypt header** of the frame gives the FEC stage's packet: the segments of the
frame are the segments of the packet body -/
theorem C09_plainSegs_crypt {γ : Type} (P : Prims γ) (c : SessOut.Cfg) (H : C09_CipherLaws P c) (g : γ) (pkt : Pkt) :
    C09_plainSegs P.crc c (crypt P c g pkt).emit.plain = C09_bodySegs (C09_specFec c) pkt.rest := by
  have hn := C09_nonce_length P c H g pkt
  have hh := C09_crypt_header P c g pkt
  cases hc : c.cipher with
  | none =>
    simp only [C09_plainSegs, C09_bodySegs, C09_specCrypt, hc, crypt, Wire.Spec.parseDatagram]
    cases Wire.Spec.parseBody (C09_specFec c) pkt.rest <;> rfl
  | block =>
    have h16 : (crypt P c g pkt).emit.nonce.length = 16 := by rw [hn]; simp only [Cfg.nonceLen, hc]; rfl
    have hp := (hh.2.1 hc).2.2.2 h16
    simp only [C09_plainSegs, C09_bodySegs, C09_specCrypt, hc, Wire.Spec.parseDatagram, hp]
    cases Wire.Spec.parseBody (C09_specFec c) pkt.rest <;> rfl
  | aead n o =>
    have hnn : (crypt P c g pkt).emit.nonce.length = n := by rw [hn]; simp only [Cfg.nonceLen, hc]
    obtain ⟨_, hpl, _⟩ := hh.2.2.1 n o hc
    have hlen : ¬ (crypt P c g pkt).emit.plain.length < n := by
      rw [hpl, List.length_append, hnn]; omega
    have hdrop : (crypt P c g pkt).emit.plain.drop n = pkt.rest := by rw [hpl, List.drop_left' hnn]
    simp only [C09_plainSegs, C09_bodySegs, C09_specCrypt, hc, Wire.Spec.parseDatagram, hlen, if_false, hdrop]
    cases Wire.Spec.parseBody (C09_specFec c) pkt.rest <;> rfl

/-- one datagram on the wire, observed: the segments of the FEC stage's packet -/
theorem C09_observe_crypt {γ : Type} (P : Prims γ) (c : SessOut.Cfg) (H : C09_CipherLaws P c) (g : γ) (pkt : Pkt) :
    C09_observe P c (crypt P c g pkt).emit.wire = C09_bodySegs (C09_specFec c) pkt.rest := by
  simp only [C09_observe, C09_decrypt_wire P c H g pkt, C09_plainSegs_crypt P c H g pkt]

theorem C09_observe_cryptAll {γ : Type} (P : Prims γ) (c : SessOut.Cfg) (H : C09_CipherLaws P c) :
    ∀ (pkts : List Pkt) (g : γ),
      (cryptAll P c g pkts).emits.flatMap (fun em => C09_observe P c em.wire) =
        pkts.flatMap (fun pkt => C09_bodySegs (C09_specFec c) pkt.rest) := by
  intro pkts
  induction pkts with
  | nil => intro g; rfl
  | cons x xs ih =>
    intro g
    simp only [cryptAll, List.flatMap_cons, ih, C09_observe_crypt P c H g x]

/-! ### FEC stage -/

/-- the FEC state matches the configuration: no encoder iff FEC is off; an encoder satisfies the
invariant of `C09_fec_header` and has the configured shard counts -/
def C09_EncOk (c : SessOut.Cfg) : Option Enc → Prop
  | none => c.fecOn = false
  | some e => c.fecOn = true ∧ e.Inv ∧ e.d = c.d ∧ e.p = c.p

theorem C09_newEnc_ok (c : SessOut.Cfg) : C09_EncOk c (newEnc c) := by
  cases h : newEnc c with
  | none =>
    unfold newEnc at h
    split at h
    · cases h
    · rename_i hf
      show c.fecOn = false
      simpa using hf
  | some e =>
    have hi := newEnc_inv c e h
    unfold newEnc at h
    split at h
    · rename_i hf
      cases h
      exact ⟨hf, hi, rfl, rfl⟩
    · cases h

theorem C09_encode_dp (par : List Bytes → Nat → Bytes) (ho : Nat) (e : Enc) (body : Bytes) (now rto : Int) :
    (encode par ho e body now rto).enc.d = e.d ∧ (encode par ho e body now rto).enc.p = e.p := by
  by_cases hfull : e.cache.length + 1 = e.d
  · by_cases hg : now - e.tsLatest < rto
    · rw [(encode_full_ok par ho e body now rto hfull hg).1]
      have hf := bumpN_fields e.bump e.p
      exact ⟨hf.1, hf.2.1⟩
    · rw [(encode_full_skip par ho e body now rto hfull hg).1]; exact ⟨rfl, rfl⟩
  · rw [(encode_mid par ho e body now rto hfull).1]; exact ⟨rfl, rfl⟩

/-- a PARITY packet carries no KCP segment for the observer (it is RS parity of `size ‖ frame`) -/
theorem C09_bodySegs_parity (d p : Nat) (id : BitVec 32) (tail : Bytes) :
    C09_bodySegs (some (d, p)) (Wire.fecHeader id typeParity ++ tail) = [] := by
  have e : Wire.Spec.parseBody (some (d, p)) (Wire.fecHeader id typeParity ++ tail) =
      if d ≤ id.toNat % (d + p) ∧ id.toNat < 0xffffffff / (d + p) * (d + p) then
        some (Wire.Spec.Frame.parity id tail) else none := by
    simp only [Wire.Spec.parseBody, parseFec_fecHeader]
    rfl
  unfold C09_bodySegs
  rw [e]
  by_cases hc : d ≤ id.toNat % (d + p) ∧ id.toNat < 0xffffffff / (d + p) * (d + p)
  · rw [if_pos hc]; rfl
  · rw [if_neg hc]

/-- an OOB packet carries no KCP segment for the observer -/
theorem C09_bodySegs_oob (d p : Nat) (id : BitVec 32) (tail : Bytes) :
    C09_bodySegs (some (d, p)) (Wire.fecHeader id typeOOB ++ tail) = [] := by
  have e : Wire.Spec.parseBody (some (d, p)) (Wire.fecHeader id typeOOB ++ tail) =
      match Wire.Spec.parseSized tail with
      | none => none
      | some (sz, payload) =>
        match payload with
        | c0 :: c1 :: c2 :: c3 :: msg =>
          if sz = payload.length + 2 ∧ id.toNat = 0xffffffff then
            some (Wire.Spec.Frame.oob id sz (Wire.u32 c0 c1 c2 c3) msg) else none
        | _ => none := by
    simp only [Wire.Spec.parseBody, parseFec_fecHeader]
    rfl
  unfold C09_bodySegs
  rw [e]
  cases Wire.Spec.parseSized tail with
  | none => rfl
  | some sp =>
    obtain ⟨sz, payload⟩ := sp
    match payload with
    | [] => rfl
    | [_] => rfl
    | [_, _] => rfl
    | [_, _, _] => rfl
    | c0 :: c1 :: c2 :: c3 :: msg =>
      simp only []
      by_cases hc : sz = (c0 :: c1 :: c2 :: c3 :: msg).length + 2 ∧ id.toNat = 0xffffffff
      · rw [if_pos hc]; rfl
      · rw [if_neg hc]

/-- **the FEC stage for one request**: the observer finds, in the packets it produces, exactly the
segments of the core's datagram (data packet; none in the parity packets), and nothing in an OOB
packet; the FEC state stays consistent -/
theorem C09_fecStage_segments {γ : Type} (P : Prims γ) (c : SessOut.Cfg) (enc : Option Enc) (r : Req)
    (hok : C09_EncOk c enc) (hoob : c.fecOn = false → r.oob = false)
    (frs : List Wire.Frm) (hbody : r.oob = false → frs ≠ [] ∧ r.body = Wire.encFrames frs ∧
      (∀ fr ∈ frs, Live.validCmd fr.cmd ∧ fr.data.length < 4294967296) ∧ r.body.length + 2 < 65536) :
    (fecStage P c enc r).2.flatMap (fun pkt => C09_bodySegs (C09_specFec c) pkt.rest) =
        (if r.oob then [] else frs.map specOf) ∧
      C09_EncOk c (fecStage P c enc r).1 := by
  cases enc with
  | none =>
    have hoff : c.fecOn = false := hok
    have hro := hoob hoff
    obtain ⟨hne, hb, hv, _⟩ := hbody hro
    refine ⟨?_, hok⟩
    simp only [fecStage, List.flatMap_cons, List.flatMap_nil, List.append_nil, hro, C09_bodySegs, C09_specFec, hoff,
      Wire.Spec.parseBody, hb, decode_encFrames frs hne hv]
    rfl
  | some e =>
    obtain ⟨hon, hinv, hd, hp⟩ := hok
    have hfec : C09_specFec c = some (e.d, e.p) := by simp only [C09_specFec, hon, if_true, hd, hp]
    cases hro : r.oob with
    | true =>
      refine ⟨?_, by simp only [fecStage, hro, if_true]; exact ⟨hon, hinv, hd, hp⟩⟩
      simp only [fecStage, hro, if_true, List.flatMap_cons, List.flatMap_nil, List.append_nil, hfec, encodeOOB,
        List.append_assoc, C09_bodySegs_oob]
    | false =>
      obtain ⟨hne, hb, hv, hlen⟩ := hbody hro
      have hwf : ∀ s ∈ frs.map toSeg, s.WF := by
        intro s hs
        obtain ⟨fr, hfr, rfl⟩ := List.mem_map.mp hs
        exact toSeg_wf fr (hv fr hfr).1 (hv fr hfr).2
      have hbs : r.body = Wire.encodeSegs (frs.map toSeg) := by rw [hb, encFrames_eq]
      have hdata := C09_data_frame_accepted P.parity c.cryptBase e (frs.map toSeg) r.now maxFECEncodeLatency hinv
        (by simpa using hne) hwf (by rw [← hbs]; exact hlen)
      rw [← hbs] at hdata
      have hdp := C09_encode_dp P.parity c.cryptBase e r.body r.now maxFECEncodeLatency
      refine ⟨?_, ?_⟩
      · simp only [fecStage, hro, hfec]
        have h1 : C09_bodySegs (some (e.d, e.p)) (encode P.parity c.cryptBase e r.body r.now maxFECEncodeLatency).pkt.rest
            = frs.map specOf := by
          simp only [C09_bodySegs, hdata, Wire.Spec.Frame.segs, List.map_map]
          rfl
        have h2 : (encode P.parity c.cryptBase e r.body r.now maxFECEncodeLatency).parity.flatMap
            (fun pkt => C09_bodySegs (some (e.d, e.p)) pkt.rest) = [] := by
          rw [List.flatMap_eq_nil_iff]
          intro q hq
          -- every parity packet starts with a parity FEC header
          by_cases hfull : e.cache.length + 1 = e.d
          · by_cases hg : r.now - e.tsLatest < maxFECEncodeLatency
            · have hps := (encode_full_ok P.parity c.cryptBase e r.body r.now maxFECEncodeLatency hfull hg).2
              rw [hps] at hq
              obtain ⟨k, b', _, _, _, _, h4, _⟩ := mem_sealParities _ _ _ hq
              rw [h4]; exact C09_bodySegs_parity _ _ _ _
            · rw [(encode_full_skip P.parity c.cryptBase e r.body r.now maxFECEncodeLatency hfull hg).2] at hq; cases hq
          · rw [(encode_mid P.parity c.cryptBase e r.body r.now maxFECEncodeLatency hfull).2] at hq; cases hq
        simp only [Bool.false_eq_true, if_false]
        rw [List.flatMap_cons, h1, h2, List.append_nil]
      · simp only [fecStage, hro]
        exact ⟨hon, encode_inv P.parity c.cryptBase e r.body r.now maxFECEncodeLatency hinv, hdp.1.trans hd, hdp.2.trans hp⟩

/-- … with the frame itself: `Wire.Spec.parseDatagram` of the plaintext frame is the nonce that was
drawn and whatever `Wire.Spec.parseBody` makes of the FEC stage's packet -/
theorem C09_parseDatagram_crypt {γ : Type} (P : Prims γ) (c : SessOut.Cfg) (H : C09_CipherLaws P c) (g : γ) (pkt : Pkt) :
    Wire.Spec.parseDatagram P.crc (C09_specCrypt c) (C09_specFec c) (crypt P c g pkt).emit.plain =
      (Wire.Spec.parseBody (C09_specFec c) pkt.rest).map fun f => ((crypt P c g pkt).emit.nonce, f) := by
  have hn := C09_nonce_length P c H g pkt
  have hh := C09_crypt_header P c g pkt
  cases hc : c.cipher with
  | none =>
    simp only [C09_specCrypt, hc, crypt, Wire.Spec.parseDatagram]
  | block =>
    have h16 : (crypt P c g pkt).emit.nonce.length = 16 := by rw [hn]; simp only [Cfg.nonceLen, hc]; rfl
    have hp := (hh.2.1 hc).2.2.2 h16
    simp only [C09_specCrypt, hc, Wire.Spec.parseDatagram, hp]
  | aead n o =>
    have hnn : (crypt P c g pkt).emit.nonce.length = n := by rw [hn]; simp only [Cfg.nonceLen, hc]
    obtain ⟨_, hpl, _⟩ := hh.2.2.1 n o hc
    have hlen : ¬ (crypt P c g pkt).emit.plain.length < n := by
      rw [hpl, List.length_append, hnn]; omega
    have hdrop : (crypt P c g pkt).emit.plain.drop n = pkt.rest := by rw [hpl, List.drop_left' hnn]
    have htake : (crypt P c g pkt).emit.plain.take n = (crypt P c g pkt).emit.nonce := by
      rw [hpl, List.take_left' hnn]
    simp only [C09_specCrypt, hc, Wire.Spec.parseDatagram, hlen, if_false, hdrop, htake]

/-- **one datagram of the core through `postProcess`**, datagram by datagram: the first datagram
emitted for the request decrypts to a frame that `Wire.Spec.parseDatagram` accepts — the nonce that
was drawn, then a plain KCP frame (FEC off) or a DATA frame (FEC on) carrying exactly the core's
segments; every further datagram emitted for the request is a parity packet, in which the observer
finds no segment. -/
theorem C09_data_datagram_parsed {γ : Type} (P : Prims γ) (c : SessOut.Cfg) (H : C09_CipherLaws P c) (st : PP γ)
    (hst : C09_EncOk c st.enc) (r : Req) (hro : r.oob = false) (frs : List Wire.Frm) (hne : frs ≠ [])
    (hb : r.body = Wire.encFrames frs) (hv : ∀ fr ∈ frs, Live.validCmd fr.cmd ∧ fr.data.length < 4294967296)
    (hlen : r.body.length + 2 < 65536) :
    ∃ em rest, (ppStep P c st r).emits = em :: rest ∧
      C09_decrypt P c em.wire = some em.plain ∧
      (∃ fr, Wire.Spec.parseDatagram P.crc (C09_specCrypt c) (C09_specFec c) em.plain = some (em.nonce, fr) ∧
        ((c.fecOn = false ∧ fr = .kcp (frs.map specOf)) ∨
         (c.fecOn = true ∧ ∃ id sz, fr = .data id sz (frs.map specOf)))) ∧
      ∀ em' ∈ rest, em'.pkt.kind = .parity ∧ C09_observe P c em'.wire = [] := by
  cases henc : st.enc with
  | none =>
    rw [henc] at hst
    have hoff : c.fecOn = false := hst
    refine ⟨(crypt P c st.gen ⟨.raw, 0, 0, r.body⟩).emit, [], ?_, C09_decrypt_wire P c H _ _, ?_, fun em' h => by cases h⟩
    · simp only [ppStep, fecStage, henc, cryptAll]
    · refine ⟨.kcp (frs.map specOf), ?_, Or.inl ⟨hoff, rfl⟩⟩
      rw [C09_parseDatagram_crypt P c H]
      simp only [C09_specFec, hoff, Wire.Spec.parseBody, hb, decode_encFrames frs hne hv]
      rfl
  | some e =>
    rw [henc] at hst
    obtain ⟨hon, hinv, hd, hp⟩ := hst
    have hfec : C09_specFec c = some (e.d, e.p) := by simp only [C09_specFec, hon, if_true, hd, hp]
    have hwf : ∀ s ∈ frs.map toSeg, s.WF := by
      intro s hs
      obtain ⟨fr, hfr, rfl⟩ := List.mem_map.mp hs
      exact toSeg_wf fr (hv fr hfr).1 (hv fr hfr).2
    have hbs : r.body = Wire.encodeSegs (frs.map toSeg) := by rw [hb, encFrames_eq]
    have hdata := C09_data_frame_accepted P.parity c.cryptBase e (frs.map toSeg) r.now maxFECEncodeLatency hinv
      (by simpa using hne) hwf (by rw [← hbs]; exact hlen)
    rw [← hbs] at hdata
    have hpp : (ppStep P c st r).emits =
        (cryptAll P c st.gen ((encode P.parity c.cryptBase e r.body r.now maxFECEncodeLatency).pkt ::
          (encode P.parity c.cryptBase e r.body r.now maxFECEncodeLatency).parity)).emits := by
      simp only [ppStep, fecStage, henc, hro]
      rfl
    refine ⟨(crypt P c st.gen (encode P.parity c.cryptBase e r.body r.now maxFECEncodeLatency).pkt).emit,
      (cryptAll P c (crypt P c st.gen (encode P.parity c.cryptBase e r.body r.now maxFECEncodeLatency).pkt).g
        (encode P.parity c.cryptBase e r.body r.now maxFECEncodeLatency).parity).emits,
      by rw [hpp]; rfl, C09_decrypt_wire P c H _ _, ?_, ?_⟩
    · refine ⟨.data (BitVec.ofNat 32 e.next) (r.body.length + 2) (frs.map specOf), ?_, Or.inr ⟨hon, _, _, rfl⟩⟩
      rw [C09_parseDatagram_crypt P c H, hfec, hdata, List.map_map]
      rfl
    · intro em' hem'
      obtain ⟨g', q, hq, rfl⟩ := mem_cryptAll P c _ _ em' hem'
      have hk := ((C09_fec_header_parity P.parity c.cryptBase e r.body r.now maxFECEncodeLatency hinv).2 q hq).1
      refine ⟨by rw [crypt_pkt]; exact hk, ?_⟩
      rw [C09_observe_crypt P c H, hfec]
      by_cases hfull : e.cache.length + 1 = e.d
      · by_cases hg : r.now - e.tsLatest < maxFECEncodeLatency
        · rw [(encode_full_ok P.parity c.cryptBase e r.body r.now maxFECEncodeLatency hfull hg).2] at hq
          obtain ⟨k, b', _, _, _, _, h4, _⟩ := mem_sealParities _ _ _ hq
          rw [h4]; exact C09_bodySegs_parity _ _ _ _
        · rw [(encode_full_skip P.parity c.cryptBase e r.body r.now maxFECEncodeLatency hfull hg).2] at hq; cases hq
      · rw [(encode_mid P.parity c.cryptBase e r.body r.now maxFECEncodeLatency hfull).2] at hq; cases hq

/-! ### `postProcess` over a request list -/

/-- what a request carries for the observer: the frames of the core's datagram, nothing for OOB -/
structure C09_ReqOk (c : SessOut.Cfg) (r : Req) (segs : List DSeg) : Prop where
  oob  : c.fecOn = false → r.oob = false
  body : if r.oob then segs = [] else
    ∃ frs : List Wire.Frm, frs ≠ [] ∧ r.body = Wire.encFrames frs ∧
      (∀ fr ∈ frs, Live.validCmd fr.cmd ∧ fr.data.length < 4294967296) ∧ r.body.length + 2 < 65536 ∧
      segs = frs.map specOf

/-- request list and per-request segment lists, pointwise -/
def C09_ReqsOk (c : SessOut.Cfg) : List Req → List (List DSeg) → Prop
  | [], [] => True
  | r :: rs, s :: ss => C09_ReqOk c r s ∧ C09_ReqsOk c rs ss
  | _, _ => False

/-- **`postProcess`, observed.**  For any request list whose non-OOB bodies are datagrams of the core
(`segss`: the segments of each request, `[]` for OOB), any consistent FEC state, any generator state:
the segments the observer extracts from the emitted datagrams — data, parity and OOB alike, in
transmission order — are exactly the segments of the core's datagrams, in order. -/
theorem C09_postProcess_segments {γ : Type} (P : Prims γ) (c : SessOut.Cfg) (H : C09_CipherLaws P c) :
    ∀ (reqs : List Req) (segss : List (List DSeg)) (st : PP γ), C09_EncOk c st.enc →
      C09_ReqsOk c reqs segss →
      (postProcess P c st reqs).emits.flatMap (fun em => C09_observe P c em.wire) = segss.flatten := by
  intro reqs
  induction reqs with
  | nil =>
    intro segss st _ h
    cases segss with
    | nil => rfl
    | cons _ _ => exact h.elim
  | cons r rs ih =>
    intro segss st hok h
    cases segss with
    | nil => exact h.elim
    | cons segs segss' =>
      obtain ⟨hr, hrest⟩ := h
      have hbody := hr.body
      -- frames of this request
      have key : ∃ frs : List Wire.Frm, (r.oob = false → frs ≠ [] ∧ r.body = Wire.encFrames frs ∧
          (∀ fr ∈ frs, Live.validCmd fr.cmd ∧ fr.data.length < 4294967296) ∧ r.body.length + 2 < 65536) ∧
          segs = (if r.oob then [] else frs.map specOf) := by
        cases hro : r.oob with
        | true =>
          rw [hro] at hbody
          exact ⟨[], (fun h => by cases h), by simpa using hbody⟩
        | false =>
          rw [hro] at hbody
          simp only [Bool.false_eq_true, if_false] at hbody
          obtain ⟨frs, a1, a2, a3, a4, a5⟩ := hbody
          exact ⟨frs, fun _ => ⟨a1, a2, a3, a4⟩, by simpa using a5⟩
      obtain ⟨frs, hf1, hf2⟩ := key
      obtain ⟨hseg, hok'⟩ := C09_fecStage_segments P c st.enc r hok hr.oob frs hf1
      simp only [postProcess, List.flatMap_append, List.flatten_cons]
      rw [ih segss' (ppStep P c st r).st (by simpa only [ppStep] using hok') hrest]
      congr 1
      simp only [ppStep]
      rw [C09_observe_cryptAll P c H, hseg, hf2]

/-! ### the session's wire in every configuration -/

/-- the requests the output callback queues for the core's datagrams `wire`, with arbitrary dequeue
times, interleaved with arbitrary OOB requests -/
def C09_ReqsOf (reqs : List Req) (wire : List Bytes) : Prop :=
  (reqs.filter (fun r => !r.oob)).map (·.body) = wire

theorem C09_reqs_ok (c : SessOut.Cfg) (L : List Content) (cv : U32) :
    ∀ (reqs : List Req) (wire : List Bytes), C09_ReqsOf reqs wire → (c.fecOn = false → ∀ r ∈ reqs, r.oob = false) →
      (∀ o ∈ wire, DgOk cv 0 L o ∧ o.length ≤ mtuLimit + IKCP_OVERHEAD) →
      ∃ segss : List (List DSeg), C09_ReqsOk c reqs segss ∧ segss.flatten = wireSegs wire := by
  intro reqs
  induction reqs with
  | nil =>
    intro wire h _ _
    have : wire = [] := by simpa [C09_ReqsOf] using h.symm
    subst this
    exact ⟨[], trivial, rfl⟩
  | cons r rs ih =>
    intro wire h hoob hw
    have hoobr := fun hf => hoob hf r (List.mem_cons_self ..)
    have hoobrs : c.fecOn = false → ∀ x ∈ rs, x.oob = false := fun hf x hx => hoob hf x (List.mem_cons_of_mem _ hx)
    cases hro : r.oob with
    | true =>
      have h' : C09_ReqsOf rs wire := by
        unfold C09_ReqsOf at h ⊢
        rw [List.filter_cons_of_neg (by simp [hro])] at h
        exact h
      obtain ⟨segss, h1, h2⟩ := ih wire h' hoobrs hw
      exact ⟨[] :: segss, ⟨⟨hoobr, by rw [hro]; rfl⟩, h1⟩, by simpa using h2⟩
    | false =>
      unfold C09_ReqsOf at h
      rw [List.filter_cons_of_pos (by simp [hro]), List.map_cons] at h
      cases wire with
      | nil => cases h
      | cons o wire' =>
        have ho : r.body = o := (List.cons.inj h).1
        have h' : C09_ReqsOf rs wire' := (List.cons.inj h).2
        obtain ⟨segss, h1, h2⟩ := ih wire' h' hoobrs (fun x hx => hw x (List.mem_cons_of_mem _ hx))
        obtain ⟨hdg, hlen⟩ := hw o (List.mem_cons_self ..)
        obtain ⟨frs, a1, a2, a3, a4⟩ := hdg.decode
        have hv : ∀ fr ∈ frs, Live.validCmd fr.cmd ∧ fr.data.length < 4294967296 := by
          intro fr hfr
          have := (a3 fr hfr).len
          exact ⟨(a3 fr hfr).cmd, by unfold mtuLimit at this; omega⟩
        refine ⟨frs.map specOf :: segss, ⟨⟨hoobr, ?_⟩, h1⟩, ?_⟩
        · rw [hro]
          simp only [Bool.false_eq_true, if_false]
          exact ⟨frs, a1, by rw [ho, a2], hv, by rw [ho]; unfold mtuLimit IKCP_OVERHEAD at hlen; omega, rfl⟩
        · simp only [List.flatten_cons, h2, wireSegs, List.flatMap_cons, a4, Option.getD_some]

/-- part of the composition assumption that IS derivable: the output callback of `newUDPSession` never
skips a datagram of the core (`size < IKCP_OVERHEAD` never happens: a datagram holds at least one
24-byte header), so every core datagram becomes a request -/
theorem C09_outputCb_never_skips (c : SessOut.Cfg) (k0 : Kcp) (hf : Fresh k0) (hm : InvMss k0) (ops : List Op) :
    ∀ o ∈ (run { k := k0 } ops).wire, outputCb c o.length ≠ .skipped := by
  intro o ho
  obtain ⟨frs, hne, ho', _⟩ := (C09_wire_invariant k0 hf hm ops).wire o ho
  have h1 := SysW.encFrames_length_ge frs
  have h2 : 0 < frs.length := List.length_pos_iff.mpr hne
  have h3 : IKCP_OVERHEAD ≤ o.length := by
    rw [ho']
    exact Nat.le_trans (by simpa using Nat.mul_le_mul_left IKCP_OVERHEAD h2) h1
  unfold outputCb
  rw [if_neg (by omega)]
  split <;> simp

/-- **(d) `wire_reassembles` with FEC and/or a cipher.**  Any history of the core from a fresh core
numbering from 0 (as in `C09_wire_decodes`), any configuration `c` (no cipher / block cipher with
nonce ‖ CRC header / AEAD; FEC on or off), any request list `reqs` that carries the core's datagrams in
order, interleaved with OOB requests (`C09_ReqsOf`; OOB only with FEC on), any consistent initial FEC
state (e.g. `newEnc c`), any generator state; cipher known only by its round-trip law.  Then the
segments an independent observer extracts from the datagrams the session emits — decrypt, strip the
crypt header, strip the FEC header, skip parity and OOB — are exactly the segments of the core's
datagrams; hence for any collection `all` of them (any order, duplicates, losses) the reassembled
stream is a prefix of `bytesOf log` and of the accepted bytes `accB`, stops before the first numbered
segment never seen, and is all whole messages of the log once every numbered segment has been seen. -/
theorem C09_wire_reassembles_fec_crypt {γ : Type} (P : Prims γ) (c : SessOut.Cfg) (H : C09_CipherLaws P c)
    (k0 : Kcp) (hf : Fresh k0) (hm : InvMss k0) (hsn : k0.snd_nxt = 0) (ops : List Op)
    (hL : (run { k := k0 } ops).log.length ≤ 2 ^ 32)
    (reqs : List Req) (hreqs : C09_ReqsOf reqs (run { k := k0 } ops).wire)
    (hoob : c.fecOn = false → ∀ r ∈ reqs, r.oob = false) (st : PP γ) (hst : C09_EncOk c st.enc) :
    (postProcess P c st reqs).emits.flatMap (fun em => C09_observe P c em.wire) =
        wireSegs (run { k := k0 } ops).wire ∧
    ∀ all : List DSeg,
      (∀ x ∈ all, x ∈ (postProcess P c st reqs).emits.flatMap (fun em => C09_observe P c em.wire)) →
      Wire.Spec.reassemble all <+: bytesOf (run { k := k0 } ops).log ∧
      bytesOf (run { k := k0 } ops).log <+: (run { k := k0 } ops).accB ∧
      (∀ i, ¬ Avail all i → Wire.Spec.reassemble all <+: bytesOf ((run { k := k0 } ops).log.take i)) ∧
      ((∀ i, i < (run { k := k0 } ops).log.length → Avail all i) →
        Wire.Spec.reassemble all = (grp (run { k := k0 } ops).log).flatten ∧
        (Closed (run { k := k0 } ops).log → Wire.Spec.reassemble all = bytesOf (run { k := k0 } ops).log)) := by
  have hW := C09_wire_invariant k0 hf hm ops
  rw [hsn] at hW
  obtain ⟨segss, h1, h2⟩ := C09_reqs_ok c (run { k := k0 } ops).log k0.conv reqs _ hreqs hoob
    (fun o ho => ⟨hW.wire o ho, hW.wlen o ho⟩)
  have heq := C09_postProcess_segments P c H reqs segss st hst h1
  rw [h2] at heq
  refine ⟨heq, fun all hall => ?_⟩
  rw [heq] at hall
  have hb := C09_wire_reassembles k0 hf hm hsn ops hL all hall
  exact ⟨hb.1, hb.2.1, fun i hmiss => C09_wire_reassembles_missing k0 hf hm hsn ops hL all hall i hmiss,
    fun hseen => C09_wire_reassembles_complete k0 hf hm hsn ops hL all hall hseen⟩

/-! ### non-vacuity: block cipher layout + FEC 2/1 over the run of `C09_exOps`, an OOB message in between -/

/-- toy primitives: identity "cipher" (the layout is what matters), constant CRC, empty parity shards,
a counting entropy source -/
def C09_exPrims : Prims Nat :=
  { crc := fun _ => 0, parity := fun _ _ => [], draw := fun g => ⟨g + 1, List.replicate 16 (UInt8.ofNat g)⟩,
    encB := id, decB := id, aseal := fun _ x => x, aopen := fun _ x => some x }

def C09_exCfg : SessOut.Cfg := { cipher := .block, d := 2, p := 1 }

/-- the eight datagrams of the core, an OOB request after the third -/
def C09_exReqs : List Req :=
  let w := (run { k := Kcp.new 7 } C09_exOps).wire
  (w.take 3).map (fun o => ⟨false, o, 0⟩) ++ [⟨true, [7, 0, 0, 0, 42], 0⟩] ++ (w.drop 3).map (fun o => ⟨false, o, 0⟩)

example : C09_CipherLaws C09_exPrims C09_exCfg :=
  ⟨fun _ => rfl, fun _ _ => rfl, fun _ => by simp [C09_exPrims, C09_exCfg, Cfg.nonceLen, nonceSize]⟩

set_option maxRecDepth 1000000 in
example :
    C09_ReqsOf C09_exReqs (run { k := Kcp.new 7 } C09_exOps).wire ∧
    -- 8 data + 4 parity + 1 OOB datagrams, each 20 + 8 (+ 24 + payload) bytes
    (postProcess C09_exPrims C09_exCfg ⟨newEnc C09_exCfg, 0⟩ C09_exReqs).emits.length = 13 ∧
    Wire.Spec.reassemble ((postProcess C09_exPrims C09_exCfg ⟨newEnc C09_exCfg, 0⟩ C09_exReqs).emits.flatMap
      (fun em => C09_observe C09_exPrims C09_exCfg em.wire)) = [1, 2, 3, 4, 5, 6] := by
  refine ⟨by unfold C09_ReqsOf; decide, by decide, by decide⟩

end KcpVerif.Props
