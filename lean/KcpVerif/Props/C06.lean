import KcpVerif.Model.SessIn
import KcpVerif.Model.Crc32
import KcpVerif.Lemmas.Crc32
/-!
C06 — packets failing the integrity check have no effect at all.

The gate theorems are about `Model/SessIn` with the core, the FEC decoder, the reader and the
cipher all abstract: `σ` is *everything* behind `kcpInput`, so "`r.st = s`" is equality of the whole
session state, for any core.  The CRC theorems are about the executable bitwise CRC-32 of
`Model/Crc32` (tied to `hash/crc32` by the component `sessin`).
-/
namespace KcpVerif.Props
open KcpVerif KcpVerif.Gen KcpVerif.SessIn

/-- the stored checksum: little-endian field right after the nonce (offset 16) of the decrypted datagram -/
def storedCrc (c : Cipher) (data : Bytes) : BitVec 32 := le32 (c.dec data) nonceSize
/-- the CRC-covered bytes: everything after the crypt header (offset 20) of the decrypted datagram -/
def covered (c : Cipher) (data : Bytes) : Bytes := (c.dec data).drop cryptHeaderSize

theorem C06_le32_drop (d : Bytes) (n : Nat) : le32 (d.drop n) 0 = le32 d n := by
  simp [le32, List.getD, List.getElem?_drop, Nat.add_assoc]

/-- the model's comparison is the one on Go's offsets 16 and 20 -/
theorem C06_gate_offsets (c : Cipher) (data : Bytes) :
    (c.crc (((c.dec data).drop nonceSize).drop crcSize) ≠ le32 ((c.dec data).drop nonceSize) 0)
      ↔ c.crc (covered c data) ≠ storedCrc c data := by
  simp [covered, storedCrc, C06_le32_drop, List.drop_drop, nonceSize, crcSize, cryptHeaderSize]

/-- what the crypt gate says for a CFB-style / salsa20 / xor / none cipher -/
theorem C06_cryptGate_block (c : Cipher) (data : Bytes) (hk : c.kind = .block) :
    cryptGate c data =
      if data.length < cryptHeaderSize then .short
      else if c.crc (covered c data) ≠ storedCrc c data then .csum
      else .ok (covered c data) := by
  have h := C06_gate_offsets c data
  unfold cryptGate
  rw [hk]
  simp only []
  split
  · rfl
  · by_cases hc : c.crc (covered c data) ≠ storedCrc c data
    · rw [if_pos (h.mpr hc), if_pos hc]
    · rw [if_neg (fun x => hc (h.mp x)), if_neg hc]
      simp [covered, List.drop_drop, nonceSize, crcSize, cryptHeaderSize]

/-- **gate, dialled or accepted session, CRC ciphers**: a datagram that is too short to carry nonce
and CRC, or whose CRC does not match, leaves the ENTIRE session state unchanged (core, FEC
decoder, reader buffer, OOB callback: all of `σ`), nothing is handed to `kcpInput`, and the only
trace is `InCsumErrors` — counted exactly when the datagram was long enough to be checked. -/
theorem C06_gate_session {σ : Type} (c : Cipher) (kcpInput : σ → Bytes → σ) (s : σ) (data : Bytes)
    (hk : c.kind = .block)
    (h : data.length < cryptHeaderSize ∨ c.crc (covered c data) ≠ storedCrc c data) :
    (sessionPacketInput c kcpInput s data).st = s ∧
    (sessionPacketInput c kcpInput s data).delivered = none ∧
    (sessionPacketInput c kcpInput s data).counters =
      (if data.length < cryptHeaderSize then [] else [Counter.InCsumErrors]) := by
  unfold sessionPacketInput
  rw [C06_cryptGate_block c data hk]
  by_cases hs : data.length < cryptHeaderSize
  · simp [hs]
  · have hc : c.crc (covered c data) ≠ storedCrc c data := by
      cases h with
      | inl h => exact absurd h hs
      | inr h => exact h
    simp [hs, hc]

/-- **gate, AEAD**: too short for nonce + tag, or `Open` fails ⇒ no effect but the counter. -/
theorem C06_gate_aead {σ : Type} (c : Cipher) (kcpInput : σ → Bytes → σ) (s : σ) (data : Bytes)
    (ns ov : Nat) (hk : c.kind = .aead ns ov)
    (h : data.length < ns + ov ∨ c.aopen (data.take ns) (data.drop ns) = none) :
    (sessionPacketInput c kcpInput s data).st = s ∧
    (sessionPacketInput c kcpInput s data).delivered = none ∧
    (sessionPacketInput c kcpInput s data).counters =
      (if data.length < ns + ov then [] else [Counter.InCsumErrors]) := by
  unfold sessionPacketInput cryptGate
  rw [hk]
  by_cases hs : data.length < ns + ov
  · simp [hs]
  · have ho : c.aopen (data.take ns) (data.drop ns) = none := by
      cases h with
      | inl h => exact absurd h hs
      | inr h => exact h
    simp [hs, ho]

/-- **gate, listener, CRC ciphers**: the same premises leave the listener untouched — same session
table, same session objects (no `Close`, no input), same accept queue; no session is created. -/
theorem C06_gate_listener {σ : Type} (w : World σ) (c : Cipher) (l : Listener σ) (data : Bytes) (a : String)
    (hk : c.kind = .block)
    (h : data.length < cryptHeaderSize ∨ c.crc (covered c data) ≠ storedCrc c data) :
    (listenerInput w c l data a).l = l ∧
    (listenerInput w c l data a).dec =
      (if data.length < cryptHeaderSize then .drop .short else .drop .csum) := by
  unfold listenerInput
  rw [C06_cryptGate_block c data hk]
  by_cases hs : data.length < cryptHeaderSize
  · simp [hs]
  · have hc : c.crc (covered c data) ≠ storedCrc c data := by
      cases h with
      | inl h => exact absurd h hs
      | inr h => exact h
    simp [hs, hc]

/-- **gate, listener, AEAD** -/
theorem C06_gate_listener_aead {σ : Type} (w : World σ) (c : Cipher) (l : Listener σ) (data : Bytes) (a : String)
    (ns ov : Nat) (hk : c.kind = .aead ns ov)
    (h : data.length < ns + ov ∨ c.aopen (data.take ns) (data.drop ns) = none) :
    (listenerInput w c l data a).l = l ∧
    (listenerInput w c l data a).dec =
      (if data.length < ns + ov then .drop .short else .drop .csum) := by
  unfold listenerInput cryptGate
  rw [hk]
  by_cases hs : data.length < ns + ov
  · simp [hs]
  · have ho : c.aopen (data.take ns) (data.drop ns) = none := by
      cases h with
      | inl h => exact absurd h hs
      | inr h => exact h
    simp [hs, ho]

/-- converse direction (the gate is not the trivial "drop everything"): whatever reaches
`kcpInput` passed the integrity check, and it is exactly the bytes after the crypt header. -/
theorem C06_delivered_passed_check {σ : Type} (c : Cipher) (kcpInput : σ → Bytes → σ) (s : σ) (data p : Bytes)
    (hk : c.kind = .block) (hd : (sessionPacketInput c kcpInput s data).delivered = some p) :
    cryptHeaderSize ≤ data.length ∧ c.crc (covered c data) = storedCrc c data ∧ p = covered c data ∧
    (sessionPacketInput c kcpInput s data).st = kcpInput s p := by
  unfold sessionPacketInput at hd ⊢
  rw [C06_cryptGate_block c data hk] at hd ⊢
  by_cases hs : data.length < cryptHeaderSize
  · simp [hs] at hd
  · by_cases hc : c.crc (covered c data) ≠ storedCrc c data
    · simp [hs, hc] at hd
    · simp only [hs, hc, if_false] at hd ⊢
      by_cases hm : (covered c data).length < minPacket
      · simp [hm] at hd
      · simp only [hm, if_false] at hd ⊢
        have : covered c data = p := by simpa using hd
        subst this
        exact ⟨by omega, by simpa using hc, rfl, rfl⟩

/-- a valid datagram is let through (both directions of the gate are pinned down) -/
theorem C06_valid_is_delivered {σ : Type} (c : Cipher) (kcpInput : σ → Bytes → σ) (s : σ) (data : Bytes)
    (hk : c.kind = .block) (hl : cryptHeaderSize ≤ data.length)
    (hc : c.crc (covered c data) = storedCrc c data) (hm : minPacket ≤ (covered c data).length) :
    (sessionPacketInput c kcpInput s data).delivered = some (covered c data) := by
  unfold sessionPacketInput
  rw [C06_cryptGate_block c data hk]
  have hs : ¬ data.length < cryptHeaderSize := by omega
  have hm' : ¬ (covered c data).length < minPacket := by omega
  simp [hs, hc, hm']

/-! ### CRC-32: which corruptions the check is guaranteed to catch -/

open KcpVerif.Crc32 in
/-- linearity: the checksum of `a ⊕ e` is the checksum of `a` XOR the zero-init, zero-xorout
register run over `e` -/
theorem C06_crc32_linear (a e : List UInt8) (h : a.length = e.length) :
    crc32 (xorBytes a e) = crc32 a ^^^ update 0 e :=
  KcpVerif.Crc32.crc32_xor a e h

open KcpVerif.Crc32 in
/-- **burst theorem**: an error pattern `e` (same length as the covered bytes `a`) whose bits — in
the order the CRC consumes them, least significant bit of each byte first — are zeros, then a burst
of at most 32 bits containing at least one 1, then zeros, always changes the CRC-32. -/
theorem C06_crc32_burst (a e : List UInt8) (i j : Nat) (burst : List Bool)
    (hlen : a.length = e.length)
    (hbits : bitsOf e = List.replicate i false ++ burst ++ List.replicate j false)
    (hb : burst.length ≤ 32) (hne : true ∈ burst) :
    crc32 (xorBytes a e) ≠ crc32 a :=
  KcpVerif.Crc32.crc32_burst a e i j burst hlen hbits hb hne

/-- any change of the stored CRC changes the verdict of a datagram that passed -/
theorem C06_crc_field_change (c : Cipher) (data data' : Bytes)
    (hpass : c.crc (covered c data) = storedCrc c data)
    (hcov : covered c data' = covered c data) (hfield : storedCrc c data' ≠ storedCrc c data) :
    c.crc (covered c data') ≠ storedCrc c data' := by
  rw [hcov, hpass]; exact fun h => hfield h.symm

open KcpVerif.Crc32 in
/-- **corruption in transit never reaches the core** (CRC ciphers, Lean CRC-32 model as the
checksum): take a datagram that passes, corrupt its covered (decrypted) bytes by a burst of ≤ 32
bits, leave the stored CRC alone — the session state is unchanged and `InCsumErrors` is counted. -/
theorem C06_burst_has_no_effect {σ : Type} (c : Cipher) (kcpInput : σ → Bytes → σ) (s : σ)
    (data data' e : Bytes) (i j : Nat) (burst : List Bool)
    (hk : c.kind = .block) (hcrc : c.crc = crc32)
    (hpass : c.crc (covered c data) = storedCrc c data)
    (hl : cryptHeaderSize ≤ data'.length)
    (hfield : storedCrc c data' = storedCrc c data)
    (hcov : covered c data' = xorBytes (covered c data) e)
    (hlen : (covered c data).length = e.length)
    (hbits : bitsOf e = List.replicate i false ++ burst ++ List.replicate j false)
    (hb : burst.length ≤ 32) (hne : true ∈ burst) :
    (sessionPacketInput c kcpInput s data').st = s ∧
    (sessionPacketInput c kcpInput s data').delivered = none ∧
    (sessionPacketInput c kcpInput s data').counters = [Counter.InCsumErrors] := by
  have hne' : c.crc (covered c data') ≠ storedCrc c data' := by
    rw [hfield, ← hpass, hcov, hcrc]
    exact C06_crc32_burst _ e i j burst hlen hbits hb hne
  have h := C06_gate_session c kcpInput s data' hk (Or.inr hne')
  have hs : ¬ data'.length < cryptHeaderSize := by omega
  simpa [hs] using h

/-! ### non-vacuity -/

/-- a concrete cipher: identity "decryption", real CRC model -/
def c06Cipher : Cipher := { kind := .block, dec := id, crc := Crc32.crc32, aopen := fun _ _ => none }

/-- 16 nonce bytes, the CRC-32 of twelve zero bytes (0x7BD5C66F, little endian), 12 payload bytes -/
def c06Good : Bytes := List.replicate 16 7 ++ [0x6f, 0xc6, 0xd5, 0x7b] ++ List.replicate 12 0

-- the hypotheses of `C06_valid_is_delivered` are satisfiable (a datagram passes) …
example : (sessionPacketInput c06Cipher (fun (n : Nat) _ => n + 1) 0 c06Good).delivered = some (List.replicate 12 0) := by
  decide +kernel
-- … and those of `C06_gate_session` too: one payload bit flipped, the state stays 0, counter set
example : (sessionPacketInput c06Cipher (fun (n : Nat) _ => n + 1) 0 (c06Good.set 25 1)).st = 0 ∧
    (sessionPacketInput c06Cipher (fun (n : Nat) _ => n + 1) 0 (c06Good.set 25 1)).counters = [Counter.InCsumErrors] := by
  decide +kernel
example : (sessionPacketInput c06Cipher (fun (n : Nat) _ => n + 1) 0 (c06Good.take 19)).counters = [] := by
  decide +kernel

-- the hypotheses of `C06_crc32_burst` are satisfiable: a full 32-bit burst (bits 15..46 of an
-- 8-byte string) changes the checksum of EVERY 8-byte string
example (a : List UInt8) (h : a.length = 8) :
    Crc32.crc32 (Crc32.xorBytes a [0, 0x80, 0xff, 0xff, 0xff, 0x7f, 0, 0]) ≠ Crc32.crc32 a :=
  C06_crc32_burst a _ 15 17 (List.replicate 32 true) (by simp [h]) (by decide) (by decide) (by decide)

-- the bound 32 is sharp: the 33-bit pattern of the generator polynomial x^32+x^26+…+x+1 (highest
-- degree first) has a zero linear CRC, i.e. XOR-ing it into the covered bytes is NOT detected
example : Crc32.run 0 [true, false, false, false, false, false, true, false, false, true, true, false, false, false,
    false, false, true, false, false, false, true, true, true, false, true, true, false, true, true, false, true, true,
    true] = 0 := by decide +kernel

end KcpVerif.Props
