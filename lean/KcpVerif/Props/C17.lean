import KcpVerif.Model.Sched
/-!
C17 — timed scheduler: every task runs exactly once, never early.
-/
namespace KcpVerif.Props
open KcpVerif KcpVerif.Sched

theorem C17_fire_unarms (t : Timer) (v : Time) : (t.fire v).armed = none := rfl

end KcpVerif.Props
