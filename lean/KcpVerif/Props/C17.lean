import KcpVerif.Lemmas.Sched
import KcpVerif.Lemmas.SchedSource
import KcpVerif.Lemmas.SchedLive
import KcpVerif.Lemmas.SchedFair
import KcpVerif.Lemmas.SchedClose
/-!
C17 — timed scheduler: every task runs exactly once, never early.

All theorems are about `Sched.Reachable m k t0 s`: `s` is reachable in the labelled transition
system `Model/Sched.lean` of `timedsched.go` from `NewTimedSched(k)` created at time `t0`, by ANY
interleaving of `Put`s (any ids, any deadlines: past, equal, decreasing, far future), prepend
goroutine steps, worker steps, timer firings and clock ticks; `m` is the Go timer-channel
semantics (`Mode.sync` = `asynctimerchan=0`, `Mode.async` = `asynctimerchan=1`); `k` workers.
Every theorem holds for both modes and every `k` (they are universally quantified).

Tier of each claim: safety (at most once, never dropped, never early, drain never blocks, timer
armed for the heap minimum, no lost wake-up, no deadlock), the possibility of completion from every
reachable state (`C17_can_always_complete`) and — second round, at the end of this file —
liveness are proved: `C17_exactly_once` (= `C17_exactly_once_full`: weak fairness per action),
`C17_exactly_once_goroutine_fair` (weak fairness per goroutine), `C17_eventually_done` (the
weakest assumption: the system never idles for ever while a step is enabled), each for runs in
which submissions eventually pause and time diverges; `C17_bounded_work` bounds the number of
scheduler/runtime steps after the last deadline for ANY schedule.  `Close`: `C17_close_safety`,
`C17_close_no_goroutine_blocks`, `C17_close_frozen`.  Not claimed: liveness under an unbounded
stream of `Put`s (needs the fairness of Go's randomised `select` and prompt runtime timers, which
are outside the model), and wall-clock latency.
-/
namespace KcpVerif.Props
open KcpVerif KcpVerif.Sched

variable {m : Mode} {k : Nat} {t0 : Time} {s : State}

/-- **source pin** (tie X): the functions of timedsched.go in the repository's working tree are,
    token for token, the ones the transition system was transcribed from.  Any edit of `Put`,
    `prepend`, `sched`, the heap or `NewTimedSched` breaks this theorem until the model has been
    re-validated (see Lemmas/SchedSource.lean). -/
theorem C17_source_pinned : Gen.timedschedSrc = pinnedSrc := rfl

/-- **conservation**: what was submitted is, as a multiset, what is waiting in `prependTasks`, in
    the prepend goroutine's batch, in the hands/heaps of the workers, or executed; and no id is
    executed twice.  So every submitted task is executed at most once and is never dropped. -/
theorem C17_conservation (h : Reachable m k t0 s) :
    s.sub.Perm (s.pre ++ s.batch ++ heldAll s.ws ++ s.done.map (·.task)) ∧
    (s.done.map (·.task.id)).Nodup := by
  have hperm : s.sub.Perm (s.pre ++ s.batch ++ heldAll s.ws ++ s.done.map (·.task)) := by
    rw [List.perm_iff_count]
    intro a
    have := h.invC.1 a
    simp only [List.count_append]
    omega
  refine ⟨hperm, ?_⟩
  have hn : ((s.pre ++ s.batch ++ heldAll s.ws ++ s.done.map (·.task)).map (·.id)).Nodup :=
    (hperm.map (·.id)).nodup (show (s.sub.map (·.id)).Nodup from h.invI)
  simp only [List.map_append, List.map_map] at hn
  exact (List.nodup_append.mp hn).2.1

/-- a submitted task is either still pending in exactly one place or has been executed exactly
    once — never both, never twice, never nowhere -/
theorem C17_exactly_one_place (h : Reachable m k t0 s) (t : Task) (ht : t ∈ s.sub) :
    (pendingTasks s).count t + (s.done.map (·.task)).count t = 1 := by
  have hc := h.invC.1 t
  have hnd : s.sub.Nodup := List.Pairwise.of_map (·.id) (fun a b h hab => h (hab ▸ rfl)) h.invI
  have hle : s.sub.count t ≤ 1 := List.nodup_iff_count.mp hnd t
  have hpos : 0 < s.sub.count t := List.count_pos_iff.mpr ht
  simp only [pendingTasks, List.count_append]
  omega

/-- **never early**: every execution happened at a clock value strictly greater than the task's
    deadline (strict, like `now.After(ts)`), for both guards (fresh `time.Now()` and the value
    received from the timer channel, which may be stale but is never newer than the clock) -/
theorem C17_never_early (h : Reachable m k t0 s) (e : Exec) (he : e ∈ s.done) :
    e.task.ts < e.time ∧ e.time ≤ s.now :=
  h.invD e he

/-- **the conditional drain never blocks**: a worker stands at `if !stopped && !drained { <-timer.C }`
    with the condition true only in states where the channel holds a value -/
theorem C17_drain_never_blocks (h : Reachable m k t0 s) (w : Worker) (hw : w ∈ s.ws) (n : Time)
    (hpc : w.pc = .stopped n false) (hd : w.drained = false) : w.timer.chan.isSome := by
  have := (h.invW w hw).2
  simp only [hpc] at this
  exact this.2.2.2.1 (by simp [hd])

/-- under the Go ≥ 1.23 semantics (`asynctimerchan=0`) the conditional drain is dead code: `Stop`
    has already discarded the value, the receive would block for ever — and the state in which it
    would be executed is unreachable -/
theorem C17_drain_dead_in_sync (h : Reachable .sync k t0 s) (w : Worker) (hw : w ∈ s.ws) (n : Time)
    (hpc : w.pc = .stopped n false) : w.drained = true := by
  have := (h.invW w hw).2
  simp only [hpc] at this
  cases hd : w.drained
  · have h1 := this.2.2.2.1 (by simp [hd])
    have h2 := this.2.2.1 (by simp)
    simp [h2] at h1
  · rfl

/-- no stale value is ever left behind: when the worker calls `Reset` (either place) the timer is
    unarmed and its channel is empty, in both modes -/
theorem C17_reset_on_clean_timer (h : Reachable m k t0 s) (w : Worker) (hw : w ∈ s.ws) :
    (∀ n, w.pc = .reset n → w.timer.armed = none ∧ w.timer.chan = none) ∧
    (∀ v, w.pc = .loop v → w.timer.armed = none ∧ w.timer.chan = none) := by
  have := (h.invW w hw).2
  constructor
  · intro n hpc; simp only [hpc] at this; exact this.2
  · intro v hpc; simp only [hpc] at this; exact this.2.1

/-- **the timer is armed for the heap minimum**: a worker at its `select` (or holding a task it
    has just received) with a non-empty heap either has a value pending in its timer channel or
    its timer is armed, for exactly `armedAt + max 0 (tasks[0].ts − usedNow)` where `usedNow ≤
    armedAt ≤ now` is the clock reading the duration was computed from — never unarmed, never
    armed for another task's deadline -/
theorem C17_min_armed (h : Reachable m k t0 s) (w : Worker) (hw : w ∈ s.ws)
    (hpc : w.pc = .select ∨ ∃ t, w.pc = .gotTask t) (hne : w.heap ≠ []) :
    w.timer.chan.isSome ∨
    ∃ wh, w.timer.armed = some wh ∧ wh = w.armedAt + (minTs w.heap - w.usedNow) ∧
      w.usedNow ≤ w.armedAt ∧ w.armedAt ≤ s.now := by
  have hq : w.quiet s.now := by
    have := (h.invW w hw).2
    rcases hpc with hpc | ⟨t, hpc⟩ <;> simpa only [hpc] using this
  obtain ⟨h1, h2, h3⟩ := hq
  cases hd : w.drained
  · rcases h2 hd with ⟨ha, _⟩ | ⟨_, hc⟩
    · obtain ⟨wh, hwh⟩ := Option.isSome_iff_exists.mp ha
      exact Or.inr ⟨wh, hwh, h3 hne wh hwh⟩
    · exact Or.inl hc
  · exact absurd (h1 hd).2 hne

/-- **a far-future task never delays a nearer one**: for EVERY task `u` in the heap the timer
    fires no later than `u`'s deadline plus the staleness `armedAt − usedNow` of the clock reading
    that was used (or immediately, if `u` was already due when the timer was armed) -/
theorem C17_far_future_never_delays (h : Reachable m k t0 s) (w : Worker) (hw : w ∈ s.ws)
    (hpc : w.pc = .select ∨ ∃ t, w.pc = .gotTask t) (u : Task) (hu : u ∈ w.heap) :
    w.timer.chan.isSome ∨
    ∃ wh, w.timer.armed = some wh ∧ wh ≤ max w.armedAt (u.ts + (w.armedAt - w.usedNow)) ∧
      w.armedAt ≤ s.now := by
  rcases C17_min_armed h w hw hpc (List.ne_nil_of_mem hu) with hc | ⟨wh, hwh, he, h1, h2⟩
  · exact Or.inl hc
  · refine Or.inr ⟨wh, hwh, ?_, h2⟩
    have := minTs_le hu
    by_cases hcase : minTs w.heap ≤ w.usedNow
    · have h3 : wh ≤ w.armedAt := by unfold Time at *; omega
      exact Nat.le_trans h3 (Nat.le_max_left _ _)
    · have h3 : wh ≤ u.ts + (w.armedAt - w.usedNow) := by unfold Time at *; omega
      exact Nat.le_trans h3 (Nat.le_max_right _ _)

/-- **no lost wake-up**: while `prependTasks` is non-empty, the notify token is present, or the
    prepend goroutine has taken it and not swapped yet, or a producer is between its append and
    its notify -/
theorem C17_handoff_no_lost_wakeup (h : Reachable m k t0 s) (hne : s.pre ≠ []) :
    s.ntok = true ∨ s.ppc = .gotToken ∨ 0 < s.pend :=
  h.invH hne

/-- the prepend goroutine swaps only after its previous batch is completely handed over, so the
    swap never discards a task -/
theorem C17_swap_with_empty_batch (h : Reachable m k t0 s) (hg : s.ppc = .gotToken) : s.batch = [] :=
  h.invC.2 hg

/-- **a worker never blocks outside its `select`** (both modes): whatever the interleaving, a
    worker that is not at its `select` has an enabled next step of its own -/
theorem C17_worker_never_blocked (h : Reachable m k t0 s) (w : Worker) (hw : w ∈ s.ws)
    (hpc : w.pc ≠ .select) : ∃ l, (∀ v, l ≠ .fire v) ∧ (wstep m s.now w l).isSome :=
  wstep_enabled (h.invW w hw) hpc

/-- **the observable projection of every run is accepted by the acceptor the driver runs on the
    real traces** (`obsStep`): ids fresh, every `exec` of a submitted and not yet executed id,
    at a time strictly after its deadline, in time order -/
theorem C17_obs_sound (h : Reachable m k t0 s) :
    ∃ o, obsRun ObsState.init s.log.reverse = .ok o ∧ o.sub = s.sub ∧
      o.execd = s.done.map (·.task.id) :=
  let ⟨o, h1, _, h3, h4⟩ := h.invL
  ⟨o, h1, h3, h4⟩

/-- … and in a quiescent state (nothing pending anywhere) the acceptor's `end` check succeeds -/
theorem C17_obs_quiescent (h : Reachable m k t0 s) (hq : pendingTasks s = []) :
    ∃ o, obsRun ObsState.init (s.log.reverse ++ [.fin]) = .ok o := by
  obtain ⟨o, h1, _, h3, h4⟩ := h.invL
  refine ⟨o, obsRun_snoc h1 ?_⟩
  have hnone : o.sub.find? (fun t => !(o.execd.contains t.id)) = none := by
    rw [List.find?_eq_none]
    intro t ht
    rw [h3] at ht
    have hone := C17_exactly_one_place h t ht
    simp only [hq, List.count_nil, Nat.zero_add] at hone
    have hin : t ∈ s.done.map (·.task) := List.count_pos_iff.mp (by omega)
    obtain ⟨e, he, rfl⟩ := List.mem_map.mp hin
    have : e.task.id ∈ s.done.map (·.task.id) := List.mem_map_of_mem (f := (·.task.id)) he
    simp [h4, this]
  simp only [obsStep, hnone]

/-- **no deadlock while a task is pending** (both modes, any `k ≥ 1`): after letting time pass
    (needed only when every remaining task waits for its armed timer) some step other than a new
    `Put` is enabled.  With `C17_worker_never_blocked` this is the schedule-dependent half of
    liveness: no interleaving of "timer fired" and "task arrived" wedges a worker. -/
theorem C17_no_deadlock (h : Reachable m k t0 s) (hk : 0 < k) (hp : pendingTasks s ≠ []) :
    ∃ d l, (∀ id ts, l ≠ .put id ts) ∧ (∀ d', l ≠ .tick d') ∧ (run m s [.tick d, l]).isSome :=
  no_deadlock h hk hp

/-- **no reachable state is doomed** (both modes, any `k ≥ 1`): from every reachable state —
    whatever interleaving of "timer fired" and "task arrived" led to it — the scheduler can, without
    any further `Put`, by its own steps, timer firings and the passing of time, reach a state in
    which every submitted task has been executed exactly once.  (Possibility, not inevitability:
    that fair runs actually do so is `C17_exactly_once_full`.) -/
theorem C17_can_always_complete (h : Reachable m k t0 s) (hk : 0 < k) :
    ∃ ls s', NoPut ls ∧ run m s ls = some s' ∧ pendingTasks s' = [] ∧
      ∀ t, t ∈ s.sub → (s'.done.map (·.task)).count t = 1 := by
  obtain ⟨ls, s', hnp, hrun, hfin⟩ := can_complete hk _ h (Nat.le_refl _)
  refine ⟨ls, s', hnp, hrun, hfin, fun t ht => ?_⟩
  have hr' : Reachable m k t0 s' := h.run hrun
  have hsub := (run_noput hrun hnp).1
  have hone := C17_exactly_one_place hr' t (hsub ▸ ht)
  simpa [hfin] using hone

/-! ### liveness -/

/-- an infinite run of the scheduler in which submissions eventually pause, every goroutine
    action that stays enabled is eventually taken (weak fairness; `fire` as a class, because the
    value sent varies), and time diverges -/
structure FairRun (m : Mode) (k : Nat) (t0 : Time) where
  st : Nat → State
  lab : Nat → Label
  start : st 0 = init k t0
  next : ∀ n, step m (st n) (lab n) = some (st (n + 1))
  putsPause : ∃ N, ∀ n, N ≤ n → ∀ id ts, lab n ≠ .put id ts
  fair : ∀ l, (∀ id ts, l ≠ .put id ts) → (∀ d, l ≠ .tick d) → (∀ i v, l ≠ .w i (.fire v)) →
    ∀ N, (∀ n, N ≤ n → (step m (st n) l).isSome) → ∃ n, N ≤ n ∧ lab n = l
  fairFire : ∀ i N, (∀ n, N ≤ n → ∃ v, (step m (st n) (.w i (.fire v))).isSome) →
    ∃ n v, N ≤ n ∧ lab n = .w i (.fire v)
  timeDiverges : ∀ T, ∃ n, T ≤ (st n).now

/-- the full liveness claim: in every fair run every submitted task is eventually executed
    (exactly once, by `C17_exactly_one_place`).  PROVED below as `C17_exactly_once` (second round).
    For unboundedly many submissions a claim of this kind would need in addition the fairness of
    Go's `select` and the promptness of the runtime's timers, which are outside the model. -/
def C17_exactly_once_full : Prop :=
  ∀ (m : Mode) (k : Nat) (t0 : Time), 0 < k → ∀ r : FairRun m k t0, ∀ n t, t ∈ (r.st n).sub →
    ∃ n', ((r.st n').done.map (·.task)).count t = 1

/-- what is proved of "exactly once": a submitted task is never executed twice and never lost (it
    is in exactly one place: pending somewhere, or executed once), and while it is pending the
    system is not stuck — every worker outside its `select` can step, and some non-`Put` step is
    enabled after letting time pass; moreover completion is always possible
    (`C17_can_always_complete`).  Missing for the full claim: that fair runs actually take these
    steps until the task is done (ranking argument, see `C17_exactly_once_full`). -/
theorem C17_exactly_once_partial (h : Reachable m k t0 s) (hk : 0 < k) (t : Task) (ht : t ∈ s.sub) :
    (s.done.map (·.task)).count t ≤ 1 ∧
    ((s.done.map (·.task)).count t = 0 →
      (pendingTasks s).count t = 1 ∧
      (∀ w, w ∈ s.ws → w.pc ≠ .select → ∃ l, (∀ v, l ≠ .fire v) ∧ (wstep m s.now w l).isSome) ∧
      ∃ d l, (∀ id ts, l ≠ .put id ts) ∧ (∀ d', l ≠ .tick d') ∧ (run m s [.tick d, l]).isSome) := by
  have hone := C17_exactly_one_place h t ht
  refine ⟨by omega, fun h0 => ⟨by omega, fun w hw hpc => C17_worker_never_blocked h w hw hpc, ?_⟩⟩
  apply C17_no_deadlock h hk
  intro hnil
  rw [hnil] at hone
  simp at hone
  omega

/-! ### non-vacuity: a concrete multi-step run, accepted in both modes -/

/-- one worker: the timer created by `NewTimer(0)` fires and is drained; task 1 (deadline 100) is
    pushed and the timer armed for 100; the timer fires at 100 *while* task 2 (deadline 150) is
    being handed over — the race the `drained` flag is about; the value 100 does not satisfy
    `After(100)`, so the worker re-arms with duration 0 (this is the spin that makes virtual time
    unusable: in a synctest bubble the clock would not move); one tick later task 1 runs at 101,
    task 2 at 151 -/
def demoRun : List Label :=
  [ .w 0 (.fire 0), .w 0 .recvTimer, .w 0 .loopEnd,
    .put 1 100, .notify, .takeToken, .swap, .handoff 0,
    .w 0 .readNow, .w 0 .stop, .w 0 .drain, .w 0 .reset,
    .put 2 150, .notify, .takeToken, .swap,
    .tick 100, .w 0 (.fire 100), .handoff 0,
    .w 0 .readNow, .w 0 .stop, .w 0 .drain, .w 0 .reset,
    .w 0 (.fire 100), .w 0 .recvTimer, .w 0 .loopEnd,
    .tick 1, .w 0 (.fire 101), .w 0 .recvTimer, .w 0 (.pop ⟨1, 100⟩), .w 0 .loopEnd,
    .tick 50, .w 0 (.fire 151), .w 0 .recvTimer, .w 0 (.pop ⟨2, 150⟩), .w 0 .loopEnd ]

example : (run .async (init 1 0) demoRun).map (·.done) = some [⟨⟨2, 150⟩, 151⟩, ⟨⟨1, 100⟩, 101⟩] := by
  decide
example : (run .sync (init 1 0) demoRun).map (·.done) = some [⟨⟨2, 150⟩, 151⟩, ⟨⟨1, 100⟩, 101⟩] := by
  decide
example : (run .sync (init 1 0) demoRun).map pendingTasks = some [] := by decide
example : (run .sync (init 1 0) demoRun).map (·.log.reverse) =
    some [.put 1 100 0, .put 2 150 0, .exec 1 101, .exec 2 151] := by decide

/-- the hypotheses of `C17_drain_never_blocks` are satisfiable: after 21 steps of `demoRun` under
    the old semantics the worker stands at the conditional drain with `stopped = false`,
    `drained = false` and the value 100 in the channel … -/
example : (run .async (init 1 0) (demoRun.take 21)).map (fun s => s.ws.map (fun w => (w.pc, w.drained, w.timer.chan))) =
    some [(.stopped 100 false, false, some 100)] := by decide
/-- … under the new semantics `Stop` reported `true` and emptied the channel -/
example : (run .sync (init 1 0) (demoRun.take 21)).map (fun s => s.ws.map (fun w => (w.pc, w.drained, w.timer.chan))) =
    some [(.stopped 100 true, false, none)] := by decide

/-- the hypotheses of `C17_min_armed` are satisfiable: after 23 steps the worker is at its select
    with two tasks and the timer armed for the minimum (100), not for the newer task (150) -/
example : (run .async (init 1 0) (demoRun.take 23)).map (fun s => s.ws.map (fun w => (w.pc, w.heap.length, w.timer.armed))) =
    some [(.select, 2, some 100)] := by decide

/-- `C17_can_always_complete` is not vacuous: after 23 steps two tasks are pending, and the rest of
    the run is a `Put`-free completion -/
example : (run .async (init 1 0) (demoRun.take 23)).map (fun s => (pendingTasks s).length) = some 2 := by
  decide
example : ((run .async (init 1 0) (demoRun.take 23)).bind (fun s => run .async s (demoRun.drop 23))).map
    pendingTasks = some [] := by decide

/-- every prefix of the run is a reachable state, so all theorems above apply to it -/
example : ∃ s, run .async (init 1 0) demoRun = some s ∧ Reachable .async 1 0 s := by
  cases hr : run .async (init 1 0) demoRun with
  | none => exact absurd hr (by decide)
  | some s => exact ⟨s, rfl, Reachable.init.run hr⟩

/-- the acceptor is not trivial: it rejects an early execution, a duplicate and a missing task -/
example : ∃ why, obsRun ObsState.init [.put 1 100 0, .exec 1 100] = .error why := ⟨_, rfl⟩
example : ∃ why, obsRun ObsState.init [.put 1 100 0, .exec 1 101, .exec 1 102] = .error why := ⟨_, rfl⟩
example : ∃ why, obsRun ObsState.init [.put 1 100 0, .put 2 5 1, .exec 2 7, .fin] = .error why := ⟨_, rfl⟩

/-- a step that is NOT enabled: draining an empty channel (this is the hang `drained` prevents) -/
example : wstep .async 5 (Worker.mk (.stopped 0 false) [⟨1, 9⟩] ⟨none, none⟩ false 0 0) .drain = none := by
  decide

end KcpVerif.Props

/-! ### liveness under fairness (second round) -/
namespace KcpVerif.Props
open KcpVerif KcpVerif.Sched

/-- **exactly once — the full claim** `C17_exactly_once_full`, proved: in every infinite run of the
    transition system (both timer modes, any `k ≥ 1`, any interleaving) in which submissions
    eventually pause, every action that stays enabled is eventually taken (weak fairness of the
    producers' notify, of prepend, of each worker; the runtime eventually fires a due timer) and
    time diverges, every submitted task is eventually executed — exactly once.
    The argument is a variant that decreases with every scheduler/runtime step once the clock has
    passed the last deadline (`Lemmas/SchedFair.lean`); before that point no state-based ranking
    exists because of the `v = ts` spin, which only the divergence of time ends. -/
theorem C17_exactly_once : C17_exactly_once_full := by
  intro m k t0 hk r n t ht
  obtain ⟨N0, hN0⟩ := r.putsPause
  have hrun : IsRun m k t0 r.st r.lab := ⟨r.start, r.next⟩
  obtain ⟨N2, hN2, hq⟩ := hrun.eventually_quiescent hk hN0 r.fair r.fairFire r.timeDiverges
  refine ⟨N2, ?_⟩
  have ht2 : t ∈ (r.st N2).sub := by
    have h1 := hrun.sub_mono (Nat.le_max_left n N2) ht
    have hle : N0 ≤ max n N2 := Nat.le_trans hN2 (Nat.le_max_right n N2)
    rw [hrun.sub_fixed hN0 hle, ← hrun.sub_fixed hN0 hN2] at h1
    exact h1
  have hone := C17_exactly_one_place (hrun.reach N2) t ht2
  simpa [hq] using hone

/-- … and from some point on NOTHING is pending any more, for ever (all submitted tasks are in
    `done`, the observable log ends in an accepted `end`) -/
theorem C17_eventually_all_done {m : Mode} {k : Nat} {t0 : Time} (hk : 0 < k) (r : FairRun m k t0) :
    ∃ N, ∀ n, N ≤ n → pendingTasks (r.st n) = [] ∧
      ∀ t, t ∈ (r.st n).sub → ((r.st n).done.map (·.task)).count t = 1 := by
  obtain ⟨N0, hN0⟩ := r.putsPause
  have hrun : IsRun m k t0 r.st r.lab := ⟨r.start, r.next⟩
  obtain ⟨N2, hN2, hq⟩ := hrun.eventually_quiescent hk hN0 r.fair r.fairFire r.timeDiverges
  refine ⟨N2, fun n hn => ?_⟩
  have hpend : pendingTasks (r.st n) = [] := by
    -- no Put after N2: `sub` is fixed, `done` only grows, so the number of pending tasks cannot grow
    have hl2 := pending_length (hrun.reach N2)
    have hln := pending_length (hrun.reach n)
    rw [hrun.sub_fixed hN0 (Nat.le_trans hN2 hn), ← hrun.sub_fixed hN0 hN2] at hln
    have hdone : (r.st N2).done.length ≤ (r.st n).done.length := by
      clear hln
      induction hn with
      | refl => exact Nat.le_refl _
      | step hle ih =>
        exact Nat.le_trans ih (step_noput (r.next _) (hN0 _ (Nat.le_trans hN2 hle))).2
    rw [hq] at hl2
    simp only [List.length_nil, Nat.zero_add] at hl2
    exact List.eq_nil_of_length_eq_zero (by omega)
  refine ⟨hpend, fun t ht => ?_⟩
  have hone := C17_exactly_one_place (hrun.reach n) t ht
  simpa [hpend] using hone

/-- **bounded work after the last deadline**: once the clock has passed every submitted deadline
    (`D < now`), ANY schedule without new `Put`s — fair or not — contains at most `mu D s` steps of
    the scheduler and the runtime (`mu`: 3·pend + 2·[token] + [prepend has the token] + 3·|pre| +
    2·|batch| + Σ workers (heap size + a constant ≤ 7)); all that can happen afterwards is the
    passing of time.  Together with `C17_no_deadlock` (a step is enabled while a task is pending):
    a schedule that never idles while a step is enabled completes every task within `mu D s`
    steps. -/
theorem C17_bounded_work {m : Mode} {k : Nat} {t0 D : Time} {s s' : State} {ls : List Label}
    (h : Reachable m k t0 s) (hD : D < s.now) (hsub : ∀ t, t ∈ s.sub → t.ts ≤ D) (hnp : NoPut ls)
    (hr : run m s ls = some s') : nonTicks ls + mu D s' ≤ mu D s :=
  bounded_work h hD hsub hnp hr

end KcpVerif.Props

namespace KcpVerif.Props
open KcpVerif KcpVerif.Sched

/-! ### non-vacuity of the liveness theorem: a concrete fair run with a task -/

def demoFair (m : Mode) : FairRun m 1 0 where
  st := fairSt m
  lab := fairLab
  start := by cases m <;> decide
  next := by
    intro n
    by_cases h : n < 17
    · exact fair_next_prefix m n h
    · have h' : 17 ≤ n := Nat.not_lt.mp h
      rw [fairSt_tail m n h', fairSt_tail m (n + 1) (by omega), fairLab_tail n h', step_tick]
      have : 6 + (n - 17) + 1 = 6 + (n + 1 - 17) := by omega
      simp only [this]
  putsPause := ⟨17, fun n hn id ts he => by rw [fairLab_tail n hn] at he; cases he⟩
  fair := by
    intro l hp ht _ N hen
    have := hen (max N 17) (Nat.le_max_left _ _)
    rw [fairSt_tail m _ (Nat.le_max_right _ _), fairFin_dead m _ l hp ht] at this
    cases this
  fairFire := by
    intro i N hen
    obtain ⟨v, hv⟩ := hen (max N 17) (Nat.le_max_left _ _)
    rw [fairSt_tail m _ (Nat.le_max_right _ _), fairFin_dead m _ _ (by simp) (by simp)] at hv
    cases hv
  timeDiverges := by
    intro T
    refine ⟨17 + T, ?_⟩
    rw [fairSt_tail m _ (Nat.le_add_right _ _)]
    show (T : Nat) ≤ 6 + (17 + T - 17)
    unfold Time at *
    omega

/-- the hypotheses of `C17_exactly_once` are satisfiable by a run that really submits a task: task 1
    is submitted at step 3 … -/
example (m : Mode) : (⟨1, 5⟩ : Task) ∈ ((demoFair m).st 4).sub := by cases m <;> decide
/-- … is still pending at step 12 … -/
example (m : Mode) : pendingTasks ((demoFair m).st 12) = [⟨1, 5⟩] := by cases m <;> decide
/-- … and the theorem says it is eventually executed exactly once (here: from step 16 on) -/
example (m : Mode) : ∃ n', (((demoFair m).st n').done.map (·.task)).count ⟨1, 5⟩ = 1 :=
  C17_exactly_once m 1 0 (by decide) (demoFair m) 4 ⟨1, 5⟩ (by cases m <;> decide)
example (m : Mode) : (((demoFair m).st 16).done.map (·.task)).count ⟨1, 5⟩ = 1 := by cases m <;> decide

end KcpVerif.Props

/-! ### liveness under weak fairness per goroutine, and without idling -/
namespace KcpVerif.Props
open KcpVerif KcpVerif.Sched

/-- once nothing is pending and no `Put` follows, nothing is pending ever after and every
    submitted task has run exactly once -/
theorem C17_quiescent_stays {m : Mode} {k : Nat} {t0 : Time} {st : Nat → State} {lab : Nat → Label}
    (hrun : IsRun m k t0 st lab) {N0 N2 : Nat} (hN0 : ∀ n, N0 ≤ n → ∀ id ts, lab n ≠ .put id ts)
    (hN2 : N0 ≤ N2) (hq : pendingTasks (st N2) = []) (n : Nat) (hn : N2 ≤ n) :
    pendingTasks (st n) = [] ∧ ∀ t, t ∈ (st n).sub → ((st n).done.map (·.task)).count t = 1 := by
  have hpend : pendingTasks (st n) = [] := by
    have hl2 := pending_length (hrun.reach N2)
    have hln := pending_length (hrun.reach n)
    rw [hrun.sub_fixed hN0 (Nat.le_trans hN2 hn), ← hrun.sub_fixed hN0 hN2] at hln
    have hdone : (st N2).done.length ≤ (st n).done.length := by
      clear hln
      induction hn with
      | refl => exact Nat.le_refl _
      | step hle ih =>
        exact Nat.le_trans ih (step_noput (hrun.next _) (hN0 _ (Nat.le_trans hN2 hle))).2
    rw [hq] at hl2
    simp only [List.length_nil, Nat.zero_add] at hl2
    exact List.eq_nil_of_length_eq_zero (by omega)
  refine ⟨hpend, fun t ht => ?_⟩
  have hone := C17_exactly_one_place (hrun.reach n) t ht
  simpa [hpend] using hone

/-- an infinite run that is weakly fair **per goroutine**: a producer inside `Put`, the prepend
    goroutine, each worker, and the runtime for each worker's timer (`Owner`), eventually takes a
    step if it has an enabled step at every moment from some point on; submissions eventually
    pause; time diverges -/
structure GoFairRun (m : Mode) (k : Nat) (t0 : Time) where
  st : Nat → State
  lab : Nat → Label
  start : st 0 = init k t0
  next : ∀ n, step m (st n) (lab n) = some (st (n + 1))
  putsPause : ∃ N, ∀ n, N ≤ n → ∀ id ts, lab n ≠ .put id ts
  fair : ∀ g N, (∀ n, N ≤ n → ∃ l, l.owner = some g ∧ (step m (st n) l).isSome) →
    ∃ n, N ≤ n ∧ (lab n).owner = some g
  timeDiverges : ∀ T, ∃ n, T ≤ (st n).now

/-- **exactly once under goroutine fairness** (both timer modes, any `k ≥ 1`): from some point on
    nothing is pending and every submitted task has run exactly once -/
theorem C17_exactly_once_goroutine_fair {m : Mode} {k : Nat} {t0 : Time} (hk : 0 < k)
    (r : GoFairRun m k t0) :
    ∃ N, ∀ n, N ≤ n → pendingTasks (r.st n) = [] ∧
      ∀ t, t ∈ (r.st n).sub → ((r.st n).done.map (·.task)).count t = 1 := by
  obtain ⟨N0, hN0⟩ := r.putsPause
  have hrun : IsRun m k t0 r.st r.lab := ⟨r.start, r.next⟩
  obtain ⟨N2, hN2, hq⟩ := hrun.eventually_quiescent_go hk hN0 r.fair r.timeDiverges
  exact ⟨N2, C17_quiescent_stays hrun hN0 hN2 hq⟩

/-- **exactly once for every run that does not idle for ever** — the weakest scheduling assumption
    the argument needs: whenever some action of the scheduler or of the runtime stays enabled for
    ever, SOME action other than the passing of time is eventually taken.  (Implied by either
    notion of weak fairness above; it is what "the Go scheduler runs runnable goroutines and the
    runtime runs due timers" amounts to.)  Submissions eventually pause, time diverges. -/
theorem C17_eventually_done {m : Mode} {k : Nat} {t0 : Time} (hk : 0 < k) {st : Nat → State}
    {lab : Nat → Label} (hrun : IsRun m k t0 st lab) {N0 : Nat}
    (hpause : ∀ n, N0 ≤ n → ∀ id ts, lab n ≠ .put id ts)
    (hprog : ∀ l, (∀ id ts, l ≠ .put id ts) → (∀ d, l ≠ .tick d) →
      ∀ N, (∀ n, N ≤ n → (step m (st n) l).isSome) → ∃ n, N ≤ n ∧ ∀ d, lab n ≠ .tick d)
    (htime : ∀ T, ∃ n, T ≤ (st n).now) :
    ∃ N, ∀ n, N ≤ n → pendingTasks (st n) = [] ∧
      ∀ t, t ∈ (st n).sub → ((st n).done.map (·.task)).count t = 1 := by
  obtain ⟨N2, hN2, hq⟩ := hrun.eventually_quiescent' hk hpause hprog htime
  exact ⟨N2, C17_quiescent_stays hrun hpause hN2 hq⟩

/-- `demoFair` is also fair per goroutine (non-vacuity of `C17_exactly_once_goroutine_fair`) -/
def demoGoFair (m : Mode) : GoFairRun m 1 0 where
  st := fairSt m
  lab := fairLab
  start := (demoFair m).start
  next := (demoFair m).next
  putsPause := (demoFair m).putsPause
  fair := by
    intro g N hen
    obtain ⟨l, hg, hl⟩ := hen (max N 17) (Nat.le_max_left _ _)
    have hp : ∀ id ts, l ≠ .put id ts := fun id ts he => by rw [he] at hg; cases hg
    have ht : ∀ d, l ≠ .tick d := fun d he => by rw [he] at hg; cases hg
    rw [fairSt_tail m _ (Nat.le_max_right _ _), fairFin_dead m _ l hp ht] at hl
    cases hl
  timeDiverges := (demoFair m).timeDiverges

end KcpVerif.Props

/-! ### `Close` -/
namespace KcpVerif.Props
open KcpVerif KcpVerif.Sched

/-- **safety survives `Close`** (transition system extended by `close`, the `<-ts.die` arms of the
    three `select`s and `Put` after `Close`, `Lemmas/SchedClose.lean`): conservation, no id executed
    twice, never early, and every submitted task is in exactly one place — executed once, or still
    in `prependTasks` / the batch / a worker's hands or heap (where it is abandoned once the
    goroutines have returned) -/
theorem C17_close_safety {m : Mode} {k : Nat} {t0 : Time} {cs : CState} (h : CReachable m k t0 cs) :
    cs.s.sub.Perm (cs.s.pre ++ cs.s.batch ++ heldAll cs.s.ws ++ cs.s.done.map (·.task)) ∧
    (cs.s.done.map (·.task.id)).Nodup ∧
    (∀ e, e ∈ cs.s.done → e.task.ts < e.time) ∧
    ∀ t, t ∈ cs.s.sub → (pendingTasks cs.s).count t + (cs.s.done.map (·.task)).count t = 1 :=
  ⟨(C17_conservation h.base).1, (C17_conservation h.base).2,
   fun e he => (C17_never_early h.base e he).1, fun t ht => C17_exactly_one_place h.base t ht⟩

/-- **no step after `Close` blocks for ever**: every goroutine that has not returned yet can move —
    a worker outside its `select` has an own step (in particular the conditional `<-timer.C` still
    never blocks), a worker at its `select` can return, the prepend goroutine can return (from
    either `select`) or finish its swap -/
theorem C17_close_no_goroutine_blocks {m : Mode} {k : Nat} {t0 : Time} {cs : CState}
    (h : CReachable m k t0 cs) (hc : cs.closed = true) :
    (∀ i w, cs.s.ws[i]? = some w → cs.wexited i = false →
      (cstep m cs (.exitW i)).isSome ∨ ∃ l, (∀ v, l ≠ .fire v) ∧ (cstep m cs (.base (.w i l))).isSome) ∧
    (cs.pexit = false → (cstep m cs .exitP).isSome ∨ (cstep m cs (.base .swap)).isSome) :=
  ⟨fun _ _ hw hne => close_worker_not_blocked h hc hw hne, fun hne => close_prepend_not_blocked hc hne⟩

/-- **once every worker has returned nothing runs any more** (`done` never changes again), so a
    task is executed after `Close` only by a worker that has not yet noticed it -/
theorem C17_close_frozen {m : Mode} {cs cs' : CState} {l : CLabel}
    (hall : ∀ i, i < cs.s.ws.length → cs.wexited i = true) (hs : cstep m cs l = some cs') :
    cs'.s.done = cs.s.done :=
  close_frozen hall hs

/-- non-vacuity: task 1 (deadline 100) is pushed, then `Close`; worker and prepend return; a `Put`
    after `Close` is still accepted (the code has no check) — both tasks are abandoned, nothing ran -/
def demoClose : List CLabel :=
  [ .base (.w 0 (.fire 0)), .base (.w 0 .recvTimer), .base (.w 0 .loopEnd),
    .base (.put 1 100), .base .notify, .base .takeToken, .base .swap, .base (.handoff 0),
    .base (.w 0 .readNow), .close, .base (.w 0 .stop), .base (.w 0 .drain), .base (.w 0 .reset),
    .exitW 0, .exitP, .base (.put 2 0), .base .notify, .base (.tick 500) ]

example : (crun .sync (cinit 1 0) demoClose).map (fun cs => (cs.closed, cs.pexit, cs.wexit)) =
    some (true, true, [true]) := by decide
example : (crun .sync (cinit 1 0) demoClose).map (fun cs => cs.s.done.length) = some 0 := by decide
example : (crun .sync (cinit 1 0) demoClose).map (fun cs => pendingTasks cs.s) =
    some [⟨2, 0⟩, ⟨1, 100⟩] := by decide
example : (crun .async (cinit 1 0) demoClose).map (fun cs => pendingTasks cs.s) =
    some [⟨2, 0⟩, ⟨1, 100⟩] := by decide
/-- a returned worker's timer does not fire, a returned worker takes no task -/
example : ((crun .sync (cinit 1 0) demoClose).bind (fun cs => cstep .sync cs (.base (.w 0 (.fire 500))))) = none := by
  decide
/-- the worker cannot return in the middle of its Stop/drain/Reset section -/
example : ((crun .sync (cinit 1 0) (demoClose.take 10)).bind (fun cs => cstep .sync cs (.exitW 0))) = none := by
  decide

end KcpVerif.Props
