/-
C07 — the EXECUTABLE Reed–Solomon code is lawful (closes `C07_rsNew_lawful_full` of `Props/C07`).

`Props/C07` proves the encoder/decoder theorems for any codec constructor `C` with the list-level
MDS law `Lawful C`, and `C07_rs_mds` proves the law in matrix form for the systematic Vandermonde
construction over an abstract field.  This file proves that the instance the correspondence driver
actually runs — `Fec.rsNew` = `Model/RS` over `Model/GF256`: bytes, shift-and-reduce product modulo
0x11D, `galExp` Vandermonde with nodes 0 … n−1, Gauss–Jordan on lists, `buildMatrix`, `Encode`,
`ReconstructData` from the first d present shards (klauspost/reedsolomon's algorithm, tied to it
byte for byte by the component `fec`) — has that law for every ratio the FEC layer accepts:

* `C07_gf256_field`     the byte operations of `Model/GF256` satisfy the field axioms; `Lemmas/GF256Field`
                        packages them as a Mathlib `Field GF` instance on `GF := UInt8`.  Finite checks:
                        seven tables over the 256 bytes (`Lemmas/GF256Tables`, `decide +kernel`); no pair or
                        triple of bytes is enumerated — linearity of the product is proved by induction over
                        the 8 loop steps, commutativity/associativity by induction over the bits of a byte.
* `C07_invert_correct`  the list Gauss–Jordan `RS.invert` returns a left inverse when it succeeds, and
                        succeeds on every non-singular matrix (`Lemmas/RSGauss`, no evaluation).
* `C07_buildMatrix_sys` `RS.buildMatrix d n` is the systematic Vandermonde matrix `V·(V_top)⁻¹` of
                        `Lemmas/RS` over `GF` with the injective nodes `0 … n−1` (`n ≤ 256`).
* `C07_rsNew_lawful`    `Lawful rsNew` — exactly `C07_rsNew_lawful_full`; spelled out in `C07_rsNew_any_k`:
                        for 1 ≤ d, 1 ≤ p, d + p ≤ 256, any d data shards of a common length L > 0 and ANY
                        presence pattern with at least d shards, `ReconstructData` returns the data.
* `C07_*_rsNew`         the decoder theorems of `Props/C07` instantiated at `rsNew`: no hypothesis about the
                        code is left.

`Lawful` is restricted to the accepted ratios (`d + p ≤ 256`).  The bound is sharp for this code
(`C07_rsNew_range_sharp`: at 2/255 the nodes 0 and 256 collide and two present shards do not
determine the data), and without it the law is unsatisfiable by ANY codec
(`C07_unrestricted_law_impossible`: no `[302, 2]` MDS code over 256 letters), i.e. the hypothesis
`Lawful C` in its earlier, unrestricted form made the theorems of `Props/C07` vacuous.
-/
import KcpVerif.Props.C07
import KcpVerif.Lemmas.RSBridge
import KcpVerif.Lemmas.LawRange

namespace KcpVerif.Props
open KcpVerif.Gen KcpVerif.Fec KcpVerif.Lemmas.FecSpec
open KcpVerif.Lemmas

/-! ## GF(2^8) -/

/-- The byte operations of `Model/GF256` (`galAdd = xor`, `galMultiply`, `galOneOver`, `galExp`)
    satisfy the axioms of a field of characteristic 2. -/
theorem C07_gf256_field :
    (∀ a b c : UInt8, GF256.mul (GF256.mul a b) c = GF256.mul a (GF256.mul b c)) ∧
    (∀ a b : UInt8, GF256.mul a b = GF256.mul b a) ∧
    (∀ a b c : UInt8, GF256.mul a (GF256.add b c) = GF256.add (GF256.mul a b) (GF256.mul a c)) ∧
    (∀ a : UInt8, GF256.mul 1 a = a) ∧
    (∀ a : UInt8, GF256.mul 0 a = 0) ∧
    (∀ a : UInt8, a ≠ 0 → GF256.mul a (GF256.inv a) = 1) ∧
    (∀ a : UInt8, GF256.add a a = 0) :=
  ⟨Lemmas.GF256.mul_assoc, Lemmas.GF256.mul_comm, Lemmas.GF256.mul_xor_right,
   Lemmas.GF256.one_mul_tab, Lemmas.GF256.zero_mul, Lemmas.GF256.mul_inv_tab,
   fun _ => UInt8.xor_self⟩

/-- the same as a Mathlib `Field`, with `galExp` as its power and the nodes `0 … n−1` distinct -/
theorem C07_gf256_field_instance :
    (∀ a b : Lemmas.GF256.GF, a * b = GF256.mul a b) ∧
    (∀ a b : Lemmas.GF256.GF, a + b = GF256.add a b) ∧
    (∀ a : Lemmas.GF256.GF, a⁻¹ = GF256.inv a) ∧
    (∀ (a : Lemmas.GF256.GF) (k : Nat), a ^ k = GF256.pow a k) ∧
    (∀ n, n ≤ 256 → Function.Injective (RSBridge.node n)) :=
  ⟨fun _ _ => rfl, fun _ _ => rfl, fun _ => rfl, Lemmas.GF256.GF.pow_def,
   fun _ hn => RSBridge.node_injective hn⟩

/-! ## Gauss–Jordan -/

/-- `matrix.Invert` on lists: a returned matrix is an `n × n` left inverse (hence THE inverse), and
    a non-singular matrix is always inverted (no `errSingular`). -/
theorem C07_invert_correct {n : Nat} {M : RS.Matrix} (hM : RSRows.Shaped n n M) :
    (∀ M', RS.invert M = some M' →
      RSRows.Shaped n n M' ∧ RSRows.toM n n M' * RSRows.toM n n M = 1 ∧
      RSRows.toM n n M' = (RSRows.toM n n M)⁻¹) ∧
    ((RSRows.toM n n M).det ≠ 0 → ∃ M', RS.invert M = some M') :=
  ⟨fun _ h => ⟨(RSGauss.invert_sound hM h).1, (RSGauss.invert_sound hM h).2,
      (Matrix.inv_eq_left_inv (RSGauss.invert_sound hM h).2).symm⟩,
   fun hdet => RSGauss.invert_complete hM hdet⟩

/-! ## the coding matrix -/

/-- klauspost's `buildMatrix(d, n)` as computed on lists of bytes IS the systematic Vandermonde
    matrix of `C07_rs_mds` over `GF` with the nodes `0 … n−1`: `n` rows of length `d`, top square
    the identity, any `d` rows non-singular. -/
theorem C07_buildMatrix_sys {d n : Nat} (h : d ≤ n) (hn : n ≤ 256) :
    RSRows.Shaped n d (RS.buildMatrix d n) ∧
    RSRows.toM n d (RS.buildMatrix d n) = RS.sysMatrix h (RSBridge.node n) ∧
    (RSRows.toM n d (RS.buildMatrix d n)).submatrix (Fin.castLE h) id = 1 ∧
    (∀ s : Fin d → Fin n, Function.Injective s →
      ((RSRows.toM n d (RS.buildMatrix d n)).submatrix s id).det ≠ 0) := by
  obtain ⟨h1, h2⟩ := RSBridge.buildMatrix_spec h hn
  refine ⟨h1, h2, ?_, ?_⟩
  · rw [h2]; exact RS.sys_top h (RSBridge.node_injective hn)
  · intro s hs; rw [h2]; exact RS.sys_select_det_ne_zero h (RSBridge.node_injective hn) s hs

/-! ## the law -/

/-- The executable GF(2^8) code satisfies the list-level MDS law: `C07_rsNew_lawful_full` holds. -/
theorem C07_rsNew_lawful : C07_rsNew_lawful_full := RSBridge.rsNew_lawful

/-- `C07_rsNew_lawful` spelled out: for every accepted ratio, any `d` data shards of a common
    non-zero length and ANY presence pattern of the `d + p` shards with at least `d` present,
    `Encode` returns `p` shards of that length and `ReconstructData` on the surviving shards returns
    exactly the data. -/
theorem C07_rsNew_any_k (d p L : Nat) (data : List Bytes) (present : List Bool)
    (hd : 1 ≤ d) (hp : 1 ≤ p) (hn : d + p ≤ 256) (hL : 0 < L) (hdl : data.length = d)
    (hsz : ∀ s ∈ data, s.length = L) (hpl : present.length = d + p)
    (hcnt : d ≤ present.count true) :
    ((rsNew d p).enc data).length = p ∧ (∀ s ∈ (rsNew d p).enc data, s.length = L) ∧
    (rsNew d p).recon (mask present (data ++ (rsNew d p).enc data)) = some data :=
  ⟨C07_rsNew_lawful.enc_length d p data hd hp hn hdl,
   C07_rsNew_lawful.enc_size d p L data hd hp hn hdl hsz,
   C07_rsNew_lawful.recon d p L data present hd hp hn hL hdl hsz hpl hcnt⟩

/-- The range `d + p ≤ 256` of the law is sharp for this code: at `d = 2`, `p = 255` the Vandermonde
    nodes of shard 0 and shard 256 coincide (`byte(256) = 0`) and from these two present shards
    `ReconstructData` fails (`errSingular`) — evaluated in the kernel.  (klauspost switches to a
    different construction above 256 shards; `newFECEncoder`/`newFECDecoder` refuse the range.) -/
theorem C07_rsNew_range_sharp :
    let present := (List.range 257).map fun i => i == 0 || i == 256
    present.length = 2 + 255 ∧ 2 ≤ present.count true ∧
    (rsNew 2 255).recon (mask present ([[7], [9]] ++ (rsNew 2 255).enc [[7], [9]])) = none := by
  decide +kernel

/-- The list-level MDS law quantified over ALL ratios (`LawRange.LawfulAll`, the earlier form of
    `Lawful`) is satisfied by no codec constructor whatsoever — at 2/300 with one-byte shards it would
    be a `[302, 2]` MDS code over 256 letters (pigeonhole).  Hence the restriction of `Lawful` to the
    ratios the FEC constructors accept is necessary, not a convenience. -/
theorem C07_unrestricted_law_impossible (C : CodecNew) : ¬ LawRange.LawfulAll C :=
  LawRange.lawfulAll_impossible C

/-! ## the decoder theorems for the executable code: no hypothesis about the code is left -/

/-- `C07_dec_any_k` for the executable code -/
theorem C07_dec_any_k_rsNew {G : Group} (hG : G.WF) (dec : Decoder)
    (hM : FecDec.Matches rsNew G dec) (got : List Nat) (hnd : got.Pairwise (· ≠ ·))
    (hb : ∀ i ∈ got, i < G.n)
    (hset : FecDec.held (G.base / u32 G.n) dec = got.map (G.packet rsNew))
    (hlen : got.length + 1 = G.d) (j : Nat) (hj : j < G.n) (hnot : j ∉ got) :
    (dec.decode rsNew (G.packet rsNew j)).recovered
      = (List.range G.d).filterMap
          (fun k => if k ∈ got ++ [j] then none else some (pad G.maxLen (G.bodies.getD k []))) ∧
    (dec.decode rsNew (G.packet rsNew j)).recovered.map trim
      = (List.range G.d).filterMap
          (fun k => if k ∈ got ++ [j] then none else some (some (G.payloads.getD k []))) ∧
    (dec.decode rsNew (G.packet rsNew j)).panic = false :=
  C07_dec_any_k C07_rsNew_lawful hG dec hM got hnd hb hset hlen j hj hnot

/-- `C07_dec_sound` for the executable code -/
theorem C07_dec_sound_rsNew (grp : FecDec.Family) (d p : Nat) (dec : Decoder)
    (hnew : Decoder.new rsNew d p = some dec) (pkts : List Bytes)
    (hgen : ∀ q ∈ pkts, FecDec.GenuinePkt rsNew grp d p q) :
    ∀ r ∈ (FecDec.feed rsNew dec pkts).2,
      ∃ G : Group, grp (G.base / u32 G.n) = some G ∧ G.WF ∧ G.d = d ∧ G.p = p ∧
        (∃ j, j < G.n ∧ G.packet rsNew j ∈ pkts) ∧
        ∃ k, k < G.d ∧ r = pad G.maxLen (G.bodies.getD k []) ∧ trim r = some (G.payloads.getD k []) :=
  C07_dec_sound C07_rsNew_lawful grp d p dec hnew pkts hgen

/-- `C07_fresh_decoder_anywhere` for the executable code -/
theorem C07_fresh_decoder_anywhere_rsNew {G : Group} (hG : G.WF) (dec : Decoder)
    (hnew : Decoder.new rsNew G.d G.p = some dec) (idxs : List Nat) (hnd : idxs.Pairwise (· ≠ ·))
    (hb : ∀ i ∈ idxs, i < G.n) (hlen : idxs.length = G.d) :
    (FecDec.feed rsNew dec (idxs.map (G.packet rsNew))).2
      = (List.range G.d).filterMap
          (fun k => if k ∈ idxs then none else some (pad G.maxLen (G.bodies.getD k []))) ∧
    ((FecDec.feed rsNew dec (idxs.map (G.packet rsNew))).2).map trim
      = (List.range G.d).filterMap
          (fun k => if k ∈ idxs then none else some (some (G.payloads.getD k []))) :=
  C07_fresh_decoder_anywhere C07_rsNew_lawful hG dec hnew idxs hnd hb hlen

/-! ## non-vacuity -/

-- kcp-go's usual 10/3: three of the ten data shards lost, all parity there
example (data : List Bytes) (hdl : data.length = 10) (hsz : ∀ s ∈ data, s.length = 1400) :
    (rsNew 10 3).recon (mask [true, false, true, true, false, true, true, true, false, true, true, true, true]
      (data ++ (rsNew 10 3).enc data)) = some data :=
  (C07_rsNew_any_k 10 3 1400 data _ (by decide) (by decide) (by decide) (by decide) hdl hsz rfl
    (by decide)).2.2

-- the extreme ratios 1/255 and 255/1 are inside the range
example : (1 : Nat) + 255 ≤ 256 ∧ (255 : Nat) + 1 ≤ 256 := by decide

-- the executable decoder on the well-formed example group of `Lemmas/FecDec` (d = 2, p = 1,
-- payloads of different sizes): parity packet held, data packet 0 arrives, payload 1 is recovered
example (dec : Decoder) (hM : FecDec.Matches rsNew FecDec.Example.exG dec)
    (hset : FecDec.held (FecDec.Example.exG.base / u32 FecDec.Example.exG.n) dec
              = [2].map (FecDec.Example.exG.packet rsNew)) :
    (dec.decode rsNew (FecDec.Example.exG.packet rsNew 0)).recovered.map trim = [some [4]] := by
  have h := (C07_dec_any_k_rsNew FecDec.Example.exG_wf dec hM [2] (by simp) (by decide) hset
    (by decide) 0 (by decide) (by decide)).2.1
  rw [h]; decide

end KcpVerif.Props
