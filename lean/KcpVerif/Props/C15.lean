/-
C15 — Close releases goroutines and callbacks; pooled buffers have one owner.

Part (a), ownership: the discipline `Disciplined` on get/put/use event logs, its consequences
(`C15_put_once`, `C15_no_use_after_put`, `C15_one_owner`) and the proof that the sanitizer that
runs inside the real code (`Pool.sanitize`, same state machine as /repo/verif_pool_on.go) accepts
exactly the disciplined logs (`C15_sanitizer_sound`).

Part (b), lifecycle: see the second half of this file.
-/
import KcpVerif.Model.Pool
import KcpVerif.Model.Lifecycle

namespace KcpVerif.Props
open KcpVerif KcpVerif.Pool

/-! ### (a) ownership discipline -/

/-- `holds h id`: in the history `h` (most recent event first) the most recent get/put event of
buffer `id` is a get, i.e. somebody owns `id`. -/
def holds : List Ev → Nat → Bool
  | [], _ => false
  | .get j :: h, id => if j = id then true else holds h id
  | .put j :: h, id => if j = id then false else holds h id
  | .use _ :: h, id => holds h id

/-- event `e` is legal after history `h`: put and use need an owner, get needs that there is none
(the buffer is fresh or in the pool). -/
def okAt (h : List Ev) : Ev → Bool
  | .get id => !holds h id
  | .put id => holds h id
  | .use id => holds h id

/-- A log is disciplined when every event is legal after the events that precede it. -/
def Disciplined (l : List Ev) : Prop :=
  ∀ p e r, l = p ++ e :: r → okAt p.reverse e = true

/-- the sanitizer state agrees with the history -/
def Agree (s : St) (h : List Ev) : Prop := ∀ id, id ∈ s.owned ↔ holds h id = true

theorem C15_aux_mem_remove (l : List Nat) (a b : Nat) : a ∈ remove l b ↔ a ∈ l ∧ a ≠ b := by
  simp [remove]

theorem C15_aux_agree_init : Agree St.init [] := by
  intro id; simp [St.init, holds]

theorem C15_aux_step_ok_iff {s : St} {h : List Ev} (ha : Agree s h) (e : Ev) :
    (step s e).v = .ok ↔ okAt h e = true := by
  cases e with
  | get id =>
    have := ha id
    by_cases hm : id ∈ s.owned
    · have hh : holds h id = true := this.mp hm
      simp [step, hm, okAt, hh]
    · have hh : holds h id = false := by
        cases hv : holds h id with
        | false => rfl
        | true => exact absurd (this.mpr hv) hm
      simp [step, hm, okAt, hh]
  | put id =>
    have := ha id
    by_cases hm : id ∈ s.owned
    · have hh : holds h id = true := this.mp hm
      simp [step, hm, okAt, hh]
    · have hh : holds h id = false := by
        cases hv : holds h id with
        | false => rfl
        | true => exact absurd (this.mpr hv) hm
      by_cases hf : id ∈ s.free <;> simp [step, hm, hf, okAt, hh]
  | use id =>
    have := ha id
    by_cases hm : id ∈ s.owned
    · have hh : holds h id = true := this.mp hm
      simp [step, hm, okAt, hh]
    · have hh : holds h id = false := by
        cases hv : holds h id with
        | false => rfl
        | true => exact absurd (this.mpr hv) hm
      by_cases hf : id ∈ s.free <;> simp [step, hm, hf, okAt, hh]

theorem C15_aux_step_agree {s : St} {h : List Ev} (ha : Agree s h) (e : Ev) (hok : (step s e).v = .ok) :
    Agree (step s e).st (e :: h) := by
  intro x
  cases e with
  | get id =>
    by_cases hm : id ∈ s.owned
    · simp [step, hm] at hok
    · by_cases hx : id = x
      · subst hx; simp [step, hm, holds]
      · have hx' : ¬ x = id := fun h => hx h.symm
        simp [step, hm, holds, hx, hx', ha x]
  | put id =>
    by_cases hm : id ∈ s.owned
    · by_cases hx : id = x
      · subst hx; simp [step, hm, holds, C15_aux_mem_remove]
      · have hx' : ¬ x = id := fun h => hx h.symm
        simp [step, hm, holds, hx, hx', C15_aux_mem_remove, ha x]
    · by_cases hf : id ∈ s.free <;> simp [step, hm, hf] at hok
  | use id =>
    by_cases hm : id ∈ s.owned
    · simp [step, hm, holds, ha x]
    · by_cases hf : id ∈ s.free <;> simp [step, hm, hf] at hok

theorem C15_aux_sanitizeFrom_iff (l : List Ev) : ∀ (s : St) (h : List Ev), Agree s h →
    (sanitizeFrom s l = .ok ↔ ∀ p e r, l = p ++ e :: r → okAt (p.reverse ++ h) e = true) := by
  induction l with
  | nil =>
    intro s h _
    constructor
    · intro _ p e r hl
      cases p <;> simp at hl
    · intro _; rfl
  | cons e l ih =>
    intro s h ha
    constructor
    · intro hs p e' r hl
      have hv : (step s e).v = .ok := by
        by_cases hv : (step s e).v = .ok
        · exact hv
        · simp only [sanitizeFrom, hv, if_false] at hs
      simp only [sanitizeFrom, hv, if_true] at hs
      cases p with
      | nil =>
        simp only [List.nil_append, List.cons.injEq] at hl
        rw [← hl.1]
        simpa using (C15_aux_step_ok_iff ha e).mp hv
      | cons x p' =>
        simp only [List.cons_append, List.cons.injEq] at hl
        have := (ih _ _ (C15_aux_step_agree ha e hv)).mp hs p' e' r hl.2
        rw [← hl.1]
        simpa [List.reverse_cons, List.append_assoc] using this
    · intro hall
      have hv : (step s e).v = .ok := by
        apply (C15_aux_step_ok_iff ha e).mpr
        simpa using hall [] e l rfl
      simp only [sanitizeFrom, hv, if_true]
      apply (ih _ _ (C15_aux_step_agree ha e hv)).mpr
      intro p e' r hl
      have := hall (e :: p) e' r (by simp [hl])
      simpa [List.reverse_cons, List.append_assoc] using this

/-- **The sanitizer is sound and complete for the discipline**: the verdict function that runs
inside the real code accepts a log iff the log is disciplined. -/
theorem C15_sanitizer_sound (l : List Ev) : sanitize l = .ok ↔ Disciplined l := by
  have := C15_aux_sanitizeFrom_iff l St.init [] C15_aux_agree_init
  simpa [sanitize, Disciplined] using this

example : sanitize [.get 0, .use 0, .get 1, .put 0, .get 0, .put 1, .put 0] = .ok := by decide
example : sanitize [.get 0, .put 0, .put 0] = .doublePut := by decide
example : sanitize [.get 0, .put 0, .use 0] = .useAfterPut := by decide
example : sanitize [.put 7] = .foreignPut := by decide
example : sanitize [.get 0, .get 0] = .alias := by decide

theorem C15_aux_holds_of_append_put (x y : List Ev) (id : Nat) :
    holds (x ++ .put id :: y) id = true → .get id ∈ x := by
  induction x with
  | nil => simp [holds]
  | cons e x ih =>
    cases e with
    | get j =>
      by_cases hj : j = id
      · subst hj; simp
      · simp only [List.cons_append, holds, hj, if_false]
        intro h; exact List.mem_cons_of_mem _ (ih h)
    | put j =>
      by_cases hj : j = id
      · simp [holds, hj]
      · simp only [List.cons_append, holds, hj, if_false]
        intro h; exact List.mem_cons_of_mem _ (ih h)
    | use j =>
      simp only [List.cons_append, holds]
      intro h; exact List.mem_cons_of_mem _ (ih h)

theorem C15_aux_not_holds_of_append_get (x y : List Ev) (id : Nat) :
    holds (x ++ .get id :: y) id = false → .put id ∈ x := by
  induction x with
  | nil => simp [holds]
  | cons e x ih =>
    cases e with
    | get j =>
      by_cases hj : j = id
      · simp [holds, hj]
      · simp only [List.cons_append, holds, hj, if_false]
        intro h; exact List.mem_cons_of_mem _ (ih h)
    | put j =>
      by_cases hj : j = id
      · subst hj; simp
      · simp only [List.cons_append, holds, hj, if_false]
        intro h; exact List.mem_cons_of_mem _ (ih h)
    | use j =>
      simp only [List.cons_append, holds]
      intro h; exact List.mem_cons_of_mem _ (ih h)

/-- **A buffer is recycled at most once per acquisition**: between two puts of the same buffer in
a disciplined log there is a get of it. -/
theorem C15_put_once {l a b c : List Ev} {id : Nat} (hd : Disciplined l)
    (hl : l = a ++ .put id :: (b ++ .put id :: c)) : .get id ∈ b := by
  have h := hd (a ++ .put id :: b) (.put id) c (by simp [hl])
  simp only [okAt, List.reverse_append, List.reverse_cons, List.append_assoc, List.singleton_append] at h
  have := C15_aux_holds_of_append_put _ _ _ h
  simpa using this

/-- **A buffer is never used after it has been recycled** (until it is acquired again). -/
theorem C15_no_use_after_put {l a b c : List Ev} {id : Nat} (hd : Disciplined l)
    (hl : l = a ++ .put id :: (b ++ .use id :: c)) : .get id ∈ b := by
  have h := hd (a ++ .put id :: b) (.use id) c (by simp [hl])
  simp only [okAt, List.reverse_append, List.reverse_cons, List.append_assoc, List.singleton_append] at h
  have := C15_aux_holds_of_append_put _ _ _ h
  simpa using this

/-- **One owner**: a buffer is not handed out twice without having been recycled in between
(so packets of concurrent sessions cannot share a buffer). -/
theorem C15_one_owner {l a b c : List Ev} {id : Nat} (hd : Disciplined l)
    (hl : l = a ++ .get id :: (b ++ .get id :: c)) : .put id ∈ b := by
  have h := hd (a ++ .get id :: b) (.get id) c (by simp [hl])
  simp only [okAt, List.reverse_append, List.reverse_cons, List.append_assoc, List.singleton_append,
    Bool.not_eq_true'] at h
  have := C15_aux_not_holds_of_append_get _ _ _ h
  simpa using this

/-- every use and every put is preceded by a get of the same buffer -/
theorem C15_use_needs_get {l p r : List Ev} {id : Nat} (hd : Disciplined l)
    (hl : l = p ++ .use id :: r ∨ l = p ++ .put id :: r) : .get id ∈ p := by
  have key : ∀ h : List Ev, holds h id = true → .get id ∈ h := by
    intro h
    induction h with
    | nil => simp [holds]
    | cons e h ih =>
      cases e with
      | get j =>
        by_cases hj : j = id
        · subst hj; simp
        · simp only [holds, hj, if_false]; intro hh; exact List.mem_cons_of_mem _ (ih hh)
      | put j =>
        by_cases hj : j = id
        · simp [holds, hj]
        · simp only [holds, hj, if_false]; intro hh; exact List.mem_cons_of_mem _ (ih hh)
      | use j => simp only [holds]; intro hh; exact List.mem_cons_of_mem _ (ih hh)
  rcases hl with hl | hl
  · have := key _ (by simpa [okAt] using hd p (.use id) r hl)
    simpa using this
  · have := key _ (by simpa [okAt] using hd p (.put id) r hl)
    simpa using this

/-- the capacity test of `bufferPool.Put`: only buffers of capacity `mtuLimit` enter the pool -/
theorem C15_pool_accepts_full_only (c : Nat) : putAccepts c = true ↔ c = Gen.mtuLimit := by
  simp [putAccepts]

-- non-vacuity: a disciplined log with reuse, and undisciplined ones
example : Disciplined [.get 0, .use 0, .put 0, .get 0, .put 0] :=
  (C15_sanitizer_sound _).mp (by decide)
example : ¬ Disciplined [.get 0, .put 0, .put 0] :=
  fun h => absurd ((C15_sanitizer_sound _).mpr h) (by decide)

/-- What the full ownership property says about the code: every event log the KCP core, the FEC
codec and the session layer can produce (all sites listed in notes/C15.md) is disciplined.  Its
proof needs the core / FEC / session models that carry buffer ids; this file proves the checker
(`C15_sanitizer_sound`) and the check runs on the real code's logs on every run (trace
acceptance, component `pool`, and `VerifPoolReports` at the end of every other component). -/
def C15_code_disciplined_full (codeLog : List Ev → Prop) : Prop :=
  -- `codeLog l`: "l is the pool event log of some execution of the package"
  ∀ l, codeLog l → Disciplined l

/-! ### (b) lifecycle: Close terminates the loops and the callback -/

open KcpVerif.Life

/-- invariants of every reachable session state (hold for `Sess.new`, preserved by every step) -/
structure WF (s : Sess) : Prop where
  noDieBlocked : s.pp = .selNoDie → 0 < s.q     -- `chDie = nil` only while the queue is non-empty
  txNeedsQ     : s.pp ≠ .exited → 0 < s.tx → 0 < s.q  -- datagrams wait in txqueue only while requests wait
  txExit       : s.pp = .exited → s.tx = 0       -- postProcess returns with an empty txqueue
  updAlive     : s.die = false → s.upd ≠ .stopped
  ppAlive      : s.die = false → s.pp ≠ .exited

/-- the session, and for a client session its transport, have been closed -/
def Closed (s : Sess) : Prop := s.die = true ∧ (s.rl ≠ .absent → s.connOpen = false)

/-- every loop has returned and the callback is not queued any more -/
def Exited (s : Sess) : Prop :=
  s.pp = .exited ∧ s.upd = .stopped ∧ (s.rl = .absent ∨ s.rl = .exited)

inductive Run : Sess → List Lbl → Sess → Prop
  | nil (s : Sess) : Run s [] s
  | cons {s s' s'' : Sess} {l : Lbl} {ls : List Lbl} : next s l = some s' → Run s' ls s'' → Run s (l :: ls) s''

def ppW : PP → Nat
  | .sel => 2 | .selNoDie => 1 | .exited => 0
def updW : Upd → Nat
  | .running => 2 | .pending => 1 | .stopped => 0
def rlW : RL → Nat
  | .got => 2 | .reading => 1 | .exited => 0 | .absent => 0

/-- termination measure after Close -/
def mu (s : Sess) : Nat :=
  3 * s.prod + 2 * s.q + ppW s.pp + updW s.upd + rlW s.rl + (if s.connOpen then 1 else 0)

theorem C15_wf_new (client own : Bool) : WF (Sess.new client own) := by
  constructor <;> simp [Sess.new]

/-- closes one preserved-invariant goal after the step has been unfolded -/
macro "life_close" : tactic =>
  `(tactic| (intros; first
      | (simp_all; done)
      | (simp_all; omega)
      | omega
      | (split at * <;> first | (simp_all; done) | (simp_all; omega) | omega)
      | (split <;> first | (simp_all; done) | (simp_all; omega) | omega)))

theorem C15_wf_next {s s' : Sess} {l : Lbl} (hw : WF s) (h : next s l = some s') : WF s' := by
  obtain ⟨h1, h2, h3, h4, h5⟩ := hw
  cases l with
  | ppRecv k =>
    simp only [next] at h
    split at h
    · injection h with h; subst h
      constructor <;> (try simp only) <;> life_close
    · cases h
  | ppDie =>
    simp only [next] at h
    split at h
    · injection h with h; subst h
      constructor <;> (try simp only) <;> life_close
    · cases h
  | produce enq =>
    simp only [next] at h
    split at h
    · injection h with h; subst h
      constructor <;> (try simp only) <;> life_close
    · cases h
  | updFire n =>
    simp only [next] at h
    split at h
    · injection h with h; subst h
      constructor <;> (try simp only) <;> life_close
    · cases h
  | updRun =>
    simp only [next] at h
    split at h
    · injection h with h; subst h
      constructor <;> (try simp only) <;> life_close
    · cases h
  | rlReturn err =>
    simp only [next] at h
    split at h
    · injection h with h; subst h
      constructor <;> (try simp only) <;> life_close
    · cases h
  | rlCheck n =>
    simp only [next] at h
    split at h
    · injection h with h; subst h
      constructor <;> (try simp only) <;> life_close
    · cases h
  | api n =>
    simp only [next] at h
    split at h
    · injection h with h; subst h
      constructor <;> (try simp only) <;> life_close
    · cases h
  | close n =>
    simp only [next] at h
    split at h
    · injection h with h; subst h
      constructor <;> (try simp only) <;> life_close
    · cases h
  | closeTransport =>
    simp only [next] at h
    split at h
    · injection h with h; subst h
      constructor <;> (try simp only) <;> life_close
    · cases h

/-- `Closed` is stable: nothing re-opens a closed session or transport -/
theorem C15_closed_stable {s s' : Sess} {l : Lbl} (hc : Closed s) (h : next s l = some s') : Closed s' := by
  obtain ⟨hd, ht⟩ := hc
  cases l with
  | ppRecv k =>
    simp only [next] at h
    split at h
    · injection h with h; subst h
      constructor <;> (try simp only) <;> life_close
    · cases h
  | ppDie =>
    simp only [next] at h
    split at h
    · injection h with h; subst h
      constructor <;> (try simp only) <;> life_close
    · cases h
  | produce enq =>
    simp only [next] at h
    split at h
    · injection h with h; subst h
      constructor <;> (try simp only) <;> life_close
    · cases h
  | updFire n =>
    simp only [next] at h
    split at h
    · injection h with h; subst h
      constructor <;> (try simp only) <;> life_close
    · cases h
  | updRun =>
    simp only [next] at h
    split at h
    · injection h with h; subst h
      constructor <;> (try simp only) <;> life_close
    · cases h
  | rlReturn err =>
    simp only [next] at h
    split at h
    · injection h with h; subst h
      constructor <;> (try simp only) <;> life_close
    · cases h
  | rlCheck n =>
    simp only [next] at h
    split at h
    · injection h with h; subst h
      constructor <;> (try simp only) <;> life_close
    · cases h
  | api n =>
    simp only [next] at h
    split at h
    · injection h with h; subst h
      constructor <;> (try simp only) <;> life_close
    · cases h
  | close n =>
    simp only [next] at h
    split at h
    · injection h with h; subst h
      constructor <;> (try simp only) <;> life_close
    · cases h
  | closeTransport =>
    simp only [next] at h
    split at h
    · injection h with h; subst h
      constructor <;> (try simp only) <;> life_close
    · cases h

set_option linter.unusedSimpArgs false in
/-- after Close every step of every loop, of the callback and of the racing producers strictly
decreases the measure -/
theorem C15_close_measure {s s' : Sess} {l : Lbl} (hc : Closed s) (h : next s l = some s') : mu s' < mu s := by
  obtain ⟨die, own, co, q, tx, pp, upd, rl, prod⟩ := s
  simp only [Closed] at hc
  obtain ⟨hd, ht⟩ := hc
  cases l with
  | ppRecv k =>
    simp only [next] at h
    split at h
    · injection h with h; subst h
      simp only [mu]
      repeat' split
      all_goals (cases pp <;> cases upd <;> cases rl <;> simp_all [ppW, updW, rlW] <;> omega)
    · cases h
  | ppDie =>
    simp only [next] at h
    split at h
    · injection h with h; subst h
      simp only [mu]
      repeat' split
      all_goals (cases pp <;> cases upd <;> cases rl <;> simp_all [ppW, updW, rlW] <;> omega)
    · cases h
  | produce enq =>
    simp only [next] at h
    split at h
    · injection h with h; subst h
      simp only [mu]
      repeat' split
      all_goals (cases pp <;> cases upd <;> cases rl <;> simp_all [ppW, updW, rlW] <;> omega)
    · cases h
  | updFire n =>
    simp only [next] at h
    split at h
    · injection h with h; subst h
      simp only [mu]
      repeat' split
      all_goals (cases pp <;> cases upd <;> cases rl <;> simp_all [ppW, updW, rlW] <;> omega)
    · cases h
  | updRun =>
    simp only [next] at h
    split at h
    · injection h with h; subst h
      simp only [mu]
      repeat' split
      all_goals (cases pp <;> cases upd <;> cases rl <;> simp_all [ppW, updW, rlW] <;> omega)
    · cases h
  | rlReturn err =>
    simp only [next] at h
    split at h
    · injection h with h; subst h
      simp only [mu]
      repeat' split
      all_goals (cases pp <;> cases upd <;> cases rl <;> simp_all [ppW, updW, rlW] <;> omega)
    · cases h
  | rlCheck n =>
    simp only [next] at h
    split at h
    · injection h with h; subst h
      simp only [mu]
      repeat' split
      all_goals (cases pp <;> cases upd <;> cases rl <;> simp_all [ppW, updW, rlW] <;> omega)
    · cases h
  | api n =>
    simp only [next] at h
    split at h
    · injection h with h; subst h
      simp only [mu]
      repeat' split
      all_goals (cases pp <;> cases upd <;> cases rl <;> simp_all [ppW, updW, rlW] <;> omega)
    · cases h
  | close n =>
    simp only [next] at h
    split at h
    · injection h with h; subst h
      simp only [mu]
      repeat' split
      all_goals (cases pp <;> cases upd <;> cases rl <;> simp_all [ppW, updW, rlW] <;> omega)
    · cases h
  | closeTransport =>
    simp only [next] at h
    split at h
    · injection h with h; subst h
      simp only [mu]
      repeat' split
      all_goals (cases pp <;> cases upd <;> cases rl <;> simp_all [ppW, updW, rlW] <;> omega)
    · cases h

theorem C15_aux_run_closed {s s' : Sess} {ls : List Lbl} (hr : Run s ls s') : Closed s → Closed s' := by
  induction hr with
  | nil => exact id
  | cons h _ ih => exact fun hc => ih (C15_closed_stable hc h)

theorem C15_aux_run_wf {s s' : Sess} {ls : List Lbl} (hr : Run s ls s') : WF s → WF s' := by
  induction hr with
  | nil => exact id
  | cons h _ ih => exact fun hw => ih (C15_wf_next hw h)

/-- **Bounded**: after Close every execution — any interleaving of the loops, the callback and the
producers still in flight — has at most `mu s` steps. -/
theorem C15_close_bounded {s s' : Sess} {ls : List Lbl} (hc : Closed s) (hr : Run s ls s') :
    ls.length + mu s' ≤ mu s := by
  induction hr with
  | nil => simp
  | cons h _ ih =>
    have := C15_close_measure hc h
    have := ih (C15_closed_stable hc h)
    simp only [List.length_cons]; omega

/-- **No deadlock**: after Close, a loop that has not returned (or a callback still queued) can take
a step *of its own*: `postProcess` is never stuck with `chDie = nil` on an empty queue, `update`
runs when the scheduler fires it, `readLoop` gets the closed transport's error. -/
theorem C15_close_progress {s : Sess} (hw : WF s) (hc : Closed s) :
    (s.pp ≠ .exited → ∃ s', next s .ppDie = some s' ∨ next s (.ppRecv 0) = some s') ∧
    (s.upd ≠ .stopped → ∃ s', next s (.updFire 0) = some s' ∨ next s .updRun = some s') ∧
    (s.rl ≠ .absent → s.rl ≠ .exited → ∃ s', next s (.rlReturn true) = some s' ∨ next s (.rlCheck 0) = some s') := by
  obtain ⟨h1, _, _, _, _⟩ := hw
  obtain ⟨hd, ht⟩ := hc
  obtain ⟨die, own, co, q, tx, pp, upd, rl, prod⟩ := s
  refine ⟨?_, ?_, ?_⟩
  · intro hp
    cases pp with
    | sel => exact ⟨_, Or.inl (by simp_all [next]; rfl)⟩
    | selNoDie =>
      have : 0 < q := h1 rfl
      exact ⟨_, Or.inr (by simp [next, this]; rfl)⟩
    | exited => exact absurd rfl hp
  · intro hu
    cases upd with
    | pending => exact ⟨_, Or.inl (by simp [next]; rfl)⟩
    | running => exact ⟨_, Or.inr (by simp [next]; rfl)⟩
    | stopped => exact absurd rfl hu
  · intro ha he
    cases rl with
    | absent => exact absurd rfl ha
    | exited => exact absurd rfl he
    | reading =>
      have : co = false := ht (by simp)
      exact ⟨_, Or.inl (by simp [next, this]; rfl)⟩
    | got => exact ⟨_, Or.inr (by simp [next]; rfl)⟩

/-- a state in which nothing is enabled has every loop returned, the callback gone, no producer
pending, and no pool buffer left in `txqueue` -/
theorem C15_close_stuck_is_exited {s : Sess} (hw : WF s) (hc : Closed s)
    (hstuck : ∀ l, next s l = none) : Exited s ∧ s.tx = 0 ∧ s.prod = 0 := by
  have hp := C15_close_progress hw hc
  have h1 : s.pp = .exited := by
    cases hpp : s.pp with
    | exited => rfl
    | sel | selNoDie =>
      obtain ⟨s', h | h⟩ := hp.1 (by simp [hpp]) <;> simp [hstuck] at h
  have h2 : s.upd = .stopped := by
    cases hu : s.upd with
    | stopped => rfl
    | pending | running =>
      obtain ⟨s', h | h⟩ := hp.2.1 (by simp [hu]) <;> simp [hstuck] at h
  have h3 : s.rl = .absent ∨ s.rl = .exited := by
    cases hr : s.rl with
    | absent => exact Or.inl rfl
    | exited => exact Or.inr rfl
    | reading | got =>
      obtain ⟨s', h | h⟩ := hp.2.2 (by simp [hr]) (by simp [hr]) <;> simp [hstuck] at h
  refine ⟨⟨h1, h2, h3⟩, hw.txExit h1, ?_⟩
  have := hstuck (.produce false)
  simp only [next] at this
  split at this
  · cases this
  · rename_i hn; simp at hn; omega

/-- **Close terminates**: from any reachable state in which the session (and, for a client
session, its transport) has been closed, every execution is finite — at most `mu s` steps, each
loop at most that many of its own — every execution that cannot be extended has all loops returned,
`update` de-scheduled and `txqueue` recycled, and such an execution exists. -/
theorem C15_close_terminates {s : Sess} (hw : WF s) (hc : Closed s) :
    (∀ ls s', Run s ls s' → ls.length ≤ mu s) ∧
    (∀ ls s', Run s ls s' → (∀ l, next s' l = none) → Exited s' ∧ s'.tx = 0 ∧ s'.prod = 0) ∧
    (∃ ls s', Run s ls s' ∧ Exited s' ∧ s'.tx = 0) := by
  refine ⟨?_, ?_, ?_⟩
  · intro ls s' hr
    have := C15_close_bounded hc hr; omega
  · intro ls s' hr hstuck
    exact C15_close_stuck_is_exited (C15_aux_run_wf hr hw) (C15_aux_run_closed hr hc) hstuck
  · -- strong induction on the measure: keep stepping any unfinished loop
    have key : ∀ n (s : Sess), mu s ≤ n → WF s → Closed s → ∃ ls s', Run s ls s' ∧ Exited s' ∧ s'.tx = 0 := by
      intro n
      induction n with
      | zero =>
        intro s hn hw hc
        by_cases he : Exited s
        · exact ⟨[], s, Run.nil s, he, hw.txExit he.1⟩
        · exfalso
          have hp := C15_close_progress hw hc
          have step : ∃ l s', next s l = some s' := by
            by_cases h1 : s.pp = .exited
            · by_cases h2 : s.upd = .stopped
              · have h3 : ¬ (s.rl = .absent ∨ s.rl = .exited) := fun h => he ⟨h1, h2, h⟩
                obtain ⟨s', h | h⟩ := hp.2.2 (fun h => h3 (Or.inl h)) (fun h => h3 (Or.inr h))
                · exact ⟨_, s', h⟩
                · exact ⟨_, s', h⟩
              · obtain ⟨s', h | h⟩ := hp.2.1 h2
                · exact ⟨_, s', h⟩
                · exact ⟨_, s', h⟩
            · obtain ⟨s', h | h⟩ := hp.1 h1
              · exact ⟨_, s', h⟩
              · exact ⟨_, s', h⟩
          obtain ⟨l, s', h⟩ := step
          have := C15_close_measure hc h
          omega
      | succ n ih =>
        intro s hn hw hc
        by_cases he : Exited s
        · exact ⟨[], s, Run.nil s, he, hw.txExit he.1⟩
        · have hp := C15_close_progress hw hc
          have step : ∃ l s', next s l = some s' := by
            by_cases h1 : s.pp = .exited
            · by_cases h2 : s.upd = .stopped
              · have h3 : ¬ (s.rl = .absent ∨ s.rl = .exited) := fun h => he ⟨h1, h2, h⟩
                obtain ⟨s', h | h⟩ := hp.2.2 (fun h => h3 (Or.inl h)) (fun h => h3 (Or.inr h))
                · exact ⟨_, s', h⟩
                · exact ⟨_, s', h⟩
              · obtain ⟨s', h | h⟩ := hp.2.1 h2
                · exact ⟨_, s', h⟩
                · exact ⟨_, s', h⟩
            · obtain ⟨s', h | h⟩ := hp.1 h1
              · exact ⟨_, s', h⟩
              · exact ⟨_, s', h⟩
          obtain ⟨l, s', h⟩ := step
          have hm := C15_close_measure hc h
          obtain ⟨ls, s'', hr, hx⟩ := ih s' (by omega) (C15_wf_next hw h) (C15_closed_stable hc h)
          exact ⟨l :: ls, s'', Run.cons h hr, hx⟩
    exact key (mu s) s (Nat.le_refl _) hw hc

/-- `update` does not re-`Put` itself once `die` is closed: fired after die it stops … -/
theorem C15_update_stops_after_die {s s' : Sess} {n : Nat} (hd : s.die = true)
    (h : next s (.updFire n) = some s') : s'.upd = .stopped ∧ s'.prod = s.prod := by
  simp only [next] at h
  split at h
  · injection h with h; subst h; simp
  · cases h

def reputs : List Lbl → Nat
  | [] => 0
  | .updRun :: ls => reputs ls + 1
  | _ :: ls => reputs ls

/-- … and in every execution after Close the callback is re-queued at most once — only by an
`update` that had already passed its `die` test when Close ran. -/
theorem C15_update_reput_bound {s s' : Sess} {ls : List Lbl} (hc : Closed s) (hr : Run s ls s') :
    reputs ls ≤ (if s.upd = .running then 1 else 0) := by
  induction hr with
  | nil => simp [reputs]
  | @cons s s1 s2 l ls h _ ih =>
    have ih := ih (C15_closed_stable hc h)
    obtain ⟨hd, _⟩ := hc
    cases l with
    | updRun =>
      simp only [next] at h
      split at h
      · rename_i hu
        injection h with h; subst h
        simp only [reputs, hu, if_true] at *
        simp at ih; omega
      · cases h
    | updFire n =>
      simp only [next] at h
      split at h
      · rename_i hu
        injection h with h; subst h
        have ih0 : reputs ls = 0 := by simpa using ih
        simp [reputs, ih0]
      · cases h
    | ppRecv k | ppDie | produce e | rlReturn e | rlCheck n | api n | close n | closeTransport =>
      simp only [next] at h
      split at h
      · injection h with h; subst h
        simp only [reputs] at *
        first | exact ih | (split at ih <;> simp_all)
      · cases h

/-- The reason the property says "… **and the transport**": a client session's `readLoop` that is
blocked in `ReadFrom` on an open transport cannot return by itself after `Close` — only a read
error (closed transport) or the arrival of a packet ends it.  With an owned connection `Close`
closes the transport itself. -/
theorem C15_readloop_needs_transport {s : Sess} (hr : s.rl = .reading) (ho : s.connOpen = true) :
    next s (.rlReturn true) = none ∧ ∀ n, next s (.rlCheck n) = none := by
  simp [next, hr, ho]

theorem C15_close_owned_closes_transport {s s' : Sess} {n : Nat} (hw : s.ownConn = true)
    (h : next s (.close n) = some s') : Closed s' := by
  simp only [next] at h
  split at h
  · injection h with h; subst h
    constructor
    · rfl
    · intro h1
      have h1' : s.rl ≠ .absent := h1
      simp [hw, h1']
  · cases h

/-- **Finding (leak)**: a session that nobody closes never stops — its `update` callback is
re-queued forever and `postProcess` stays.  This is what happens to sessions the listener created
(`packetInput` → `newUDPSession`) that are still in the accept backlog when the listener and the
transport are closed: the application never saw them and `Listener.Close` does not close them. -/
theorem C15_unclosed_session_runs_forever {s : Sess} (hw : WF s) (hd : s.die = false) (n : Nat) :
    ∃ ls s', Run s ls s' ∧ n ≤ reputs ls ∧ s'.die = false ∧ s'.pp ≠ .exited ∧ s'.upd ≠ .stopped := by
  induction n generalizing s with
  | zero => exact ⟨[], s, Run.nil s, Nat.zero_le _, hd, hw.ppAlive hd, hw.updAlive hd⟩
  | succ n ih =>
    -- one more round of the callback: (fire,) run
    have hu := hw.updAlive hd
    cases hupd : s.upd with
    | stopped => exact absurd hupd hu
    | running =>
      have h1 : next s .updRun = some { s with upd := .pending } := by simp [next, hupd]
      obtain ⟨ls, s', hr, hn, hx⟩ := ih (C15_wf_next hw h1) (by simpa using hd)
      exact ⟨.updRun :: ls, s', Run.cons h1 hr, by simp [reputs]; omega, hx⟩
    | pending =>
      have h1 : next s (.updFire 0) = some { s with upd := .running, prod := s.prod + 0 } := by
        simp [next, hupd, hd]
      have hw1 := C15_wf_next hw h1
      have h2 : next { s with upd := .running, prod := s.prod + 0 } .updRun
          = some { s with upd := .pending, prod := s.prod + 0 } := by simp [next]
      obtain ⟨ls, s', hr, hn, hx⟩ := ih (C15_wf_next hw1 h2) (by simpa using hd)
      exact ⟨.updFire 0 :: .updRun :: ls, s', Run.cons h1 (Run.cons h2 hr), by simp [reputs]; omega, hx⟩

/-! #### the listener's `monitor` -/

inductive MRun : Lst → List MLbl → Lst → Prop
  | nil (l : Lst) : MRun l [] l
  | cons {l l' l'' : Lst} {a : MLbl} {as : List MLbl} : mnext l a = some l' → MRun l' as l'' → MRun l (a :: as) l''

def monW : Mon → Nat
  | .processing => 2 | .reading => 1 | .exited => 0

/-- `monitor` returns on the read error of the closed transport: after the transport is closed
every execution of the listener's goroutine has at most 2 steps, and it cannot stop anywhere but
at its `return`. -/
theorem C15_monitor_exits {l l' : Lst} {as : List MLbl} (hc : l.connOpen = false) (hr : MRun l as l') :
    as.length + monW l'.mon ≤ monW l.mon ∧ l'.connOpen = false ∧
    ((∀ a, mnext l' a = none) → l'.mon = .exited) := by
  induction hr with
  | nil l =>
    refine ⟨by simp, hc, ?_⟩
    intro hstuck
    obtain ⟨co, mon⟩ := l
    cases mon with
    | exited => rfl
    | reading => have := hstuck (.ret true); simp_all [mnext]
    | processing => have := hstuck .processed; simp [mnext] at this
  | @cons l l1 l2 a as h _ ih =>
    obtain ⟨co, mon⟩ := l
    simp only at hc; subst hc
    cases a with
    | ret err =>
      simp only [mnext] at h
      split at h
      · rename_i hg
        injection h with h; subst h
        have he : err = true := by simpa using hg.2
        subst he
        have := ih rfl
        simp_all [monW] <;> omega
      · cases h
    | processed =>
      simp only [mnext] at h
      split at h
      · rename_i hg
        injection h with h; subst h
        have := ih rfl
        simp_all [monW] <;> omega
      · cases h
    | closeTransport => simp [mnext] at h

/-! #### several sessions: any interleaving -/

/-- a system of sessions; a step is a step of one of them -/
inductive SRun : List Sess → Nat → List Sess → Prop
  | nil (ss : List Sess) : SRun ss 0 ss
  | cons {pre post : List Sess} {s s' : Sess} {l : Lbl} {n : Nat} {ss' : List Sess} :
      next s l = some s' → SRun (pre ++ s' :: post) n ss' → SRun (pre ++ s :: post) (n + 1) ss'

def muAll (ss : List Sess) : Nat := (ss.map mu).sum

/-- **Close terminates, system-wide**: once all sessions (and the transports of client sessions)
are closed, every interleaving of all their goroutines and callbacks has at most `Σ mu` steps. -/
theorem C15_close_terminates_all {ss ss' : List Sess} {n : Nat} (hc : ∀ s ∈ ss, Closed s)
    (hr : SRun ss n ss') : n + muAll ss' ≤ muAll ss ∧ ∀ s ∈ ss', Closed s := by
  induction hr with
  | nil ss => exact ⟨by simp, hc⟩
  | @cons pre post s s' l n ss' h _ ih =>
    have hcs : Closed s := hc s (by simp)
    have hm := C15_close_measure hcs h
    have hc' : ∀ x ∈ pre ++ s' :: post, Closed x := by
      intro x hx
      simp only [List.mem_append, List.mem_cons] at hx
      rcases hx with hx | hx | hx
      · exact hc x (by simp [hx])
      · subst hx; exact C15_closed_stable hcs h
      · exact hc x (by simp [hx])
    obtain ⟨ih1, ih2⟩ := ih hc'
    refine ⟨?_, ih2⟩
    simp only [muAll, List.map_append, List.map_cons, List.sum_append, List.sum_cons] at *
    omega

-- non-vacuity: a client session on a caller-owned transport, closed mid-transfer with 3 requests
-- queued, chDie disabled, an update past its die test and 5 output calls still in flight
def exMid : Sess :=
  { die := true, ownConn := false, connOpen := false, q := 3, tx := 7, pp := .selNoDie, upd := .running,
    rl := .got, prod := 5 }
example : WF exMid := by constructor <;> simp [exMid]
example : Closed exMid := by simp [Closed, exMid]
example : mu exMid = 26 := by decide
example : ∃ ls s', Run exMid ls s' ∧ Exited s' ∧ s'.tx = 0 :=
  (C15_close_terminates (by constructor <;> simp [exMid]) (by simp [Closed, exMid])).2.2
-- a concrete maximal execution of `exMid`: chDie is nil, so postProcess first drains the three requests
example : (next exMid .ppDie) = none := by decide
example : (next exMid (.ppRecv 1)).map (fun s => (s.q, s.tx, s.pp)) = some (2, 9, .sel) := by decide
example : (⟨false, .processing⟩ : Lst).connOpen = false ∧
    MRun ⟨false, .processing⟩ [.processed, .ret true] ⟨false, .exited⟩ :=
  ⟨rfl, MRun.cons (l' := ⟨false, .reading⟩) (by decide) (MRun.cons (l' := ⟨false, .exited⟩) (by decide) (MRun.nil _))⟩
-- and the un-accepted session of the finding
example : WF (Sess.new false false) ∧ (Sess.new false false).die = false := ⟨C15_wf_new _ _, rfl⟩
example : (⟨false, .reading⟩ : Lst).connOpen = false := rfl

end KcpVerif.Props
