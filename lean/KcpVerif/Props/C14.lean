import KcpVerif.Lemmas.DRF
/-!
C14 — concurrent use of sessions and listeners is free of data races.

Two parts (DESIGN 7.14):

1. The abstract theorems: in every run with mutual exclusion, a location whose post-publication
   accesses follow one of four disciplines (common mutex / immutable / all atomic / confined to one
   goroutine) and whose initialisation happens-before its publication has no data race.
2. The table obligation: the access table regenerated from the Go source on every run
   (`Gen.accessByClass`, flattened `Gen.accessTable`) puts every location class under one of those
   disciplines (`C14_table_ok`, by kernel evaluation), and the extractor met no construct it could not
   interpret (`C14_no_unknown`).

What connects the two is trusted, not proved: that every access of a real execution is an instance of
a table row whose lexical lockset is really held, on the mutex instance that belongs to the accessed
object (type-based ownership).  That trust is confronted with the race detector on every run
(harness component `race`).  See notes/C14.md.
-/
namespace KcpVerif.Props
open KcpVerif KcpVerif.DRF

/-- **Lockset ⇒ ordered.**  If from its publication point on every access to `x` is made while the
accessing thread holds the common mutex `m` (writes exclusively, reads exclusively or shared), then
any two accesses to `x` by different threads of which one is a write are ordered by happens-before. -/
theorem C14_lockset_drf {τ : Trace} {sw : Nat → Nat → Prop} (wf : MutexWF τ) {x : Loc} {m : Mutex} {pub : Nat}
    (disc : Locked τ x m pub) {i j : Nat} (hpi : pub ≤ i) (hij : i < j)
    (hxi : (τ i).ev.loc = some x) (hxj : (τ j).ev.loc = some x) (htid : (τ i).tid ≠ (τ j).tid)
    (hw : (τ i).ev.isWrite = true ∨ (τ j).ev.isWrite = true) : HB τ sw i j :=
  locked_ordered wf disc hpi hij hxi hxj htid hw

/-- The two-thread core of it, for any pair of incompatible lock modes (Mutex and RWMutex). -/
theorem C14_critical_sections_ordered {τ : Trace} {sw : Nat → Nat → Prop} (wf : MutexWF τ)
    {i j : Nat} {t u : Tid} {m : Mutex} {μ ν : Mode}
    (hij : i < j) (hti : (τ i).tid = t) (huj : (τ j).tid = u) (htu : t ≠ u)
    (hnr : ∀ m' μ', (τ i).ev ≠ .rel m' μ')
    (hi : Holds τ t m μ i) (hj : Holds τ u m ν j) (hinc : Mode.compat μ ν = false) : HB τ sw i j :=
  lockset_ordered wf hij hti huj htu hnr hi hj hinc

/-- **Initialise, then publish.**  Whatever the creating thread did before the publication event `p`
happens-before everything that happens-after `p`. -/
theorem C14_init_then_publish {τ : Trace} {sw : Nat → Nat → Prop} {i p j : Nat}
    (hip : i < p) (hsame : (τ i).tid = (τ p).tid) (hpub : HB τ sw p j) : HB τ sw i j :=
  HB.trans (HB.po hip hsame) hpub

/-- Publication by `go`: everything the creator did before the `go` statement happens-before every
event of the started goroutine. -/
theorem C14_fork_publishes {τ : Trace} {sw : Nat → Nat → Prop} (fwf : ForkWF τ) {i f j : Nat} {t c : Tid}
    (hif : i < f) (hti : (τ i).tid = t) (hf : τ f = ⟨t, .fork c⟩) (hj : (τ j).tid = c) : HB τ sw i j := by
  have hfj : f < j := fwf f t c hf j hj
  exact HB.trans (HB.po hif (by rw [hti, hf])) (HB.fork hfj hf hj)

/-- **Atomics.**  If every post-publication access to `x` is atomic, no post-publication pair conflicts. -/
theorem C14_atomic_ok {τ : Trace} {x : Loc} {pub : Nat} (h : AllAtomic τ x pub) {i j : Nat}
    (hpi : pub ≤ i) (hpj : pub ≤ j) : ¬ Conflict τ x i j := by
  intro ⟨hxi, hxj, _, _, hna⟩
  exact hna ⟨h i hpi hxi, h j hpj hxj⟩

/-- Immutable after publication: no post-publication pair conflicts. -/
theorem C14_immutable_ok {τ : Trace} {x : Loc} {pub : Nat} (h : Immutable τ x pub) {i j : Nat}
    (hpi : pub ≤ i) (hpj : pub ≤ j) : ¬ Conflict τ x i j := by
  intro ⟨hxi, hxj, _, hw, _⟩
  rcases hw with hw | hw
  · rw [h i hpi hxi] at hw; cases hw
  · rw [h j hpj hxj] at hw; cases hw

/-- Confined to one goroutine: no post-publication pair conflicts. -/
theorem C14_confined_ok {τ : Trace} {x : Loc} {t : Tid} {pub : Nat} (h : Confined τ x t pub) {i j : Nat}
    (hpi : pub ≤ i) (hpj : pub ≤ j) : ¬ Conflict τ x i j := by
  intro ⟨hxi, hxj, htid, _, _⟩
  exact htid (by rw [h i hpi hxi, h j hpj hxj])

/-- **No data race on a disciplined location.**  `pub` is the publication point of `x`: accesses before
it are initialisation and are assumed to happen-before every later access by another thread
(discharged by `C14_fork_publishes` / `C14_init_then_publish` for `go`, channel or lock publication).
Then no pair of accesses to `x` is a data race. -/
theorem C14_no_race_of_discipline {τ : Trace} {sw : Nat → Nat → Prop} (wf : MutexWF τ) {x : Loc} {pub : Nat}
    (d : Discipline τ x pub)
    (init : ∀ i j, i < pub → pub ≤ j → (τ i).ev.loc = some x → (τ j).ev.loc = some x →
      (τ i).tid ≠ (τ j).tid → HB τ sw i j)
    (initOwner : ∀ i j, i < j → j < pub → (τ i).ev.loc = some x → (τ j).ev.loc = some x →
      (τ i).tid = (τ j).tid) :
    ∀ i j, ¬ Race τ sw x i j := by
  intro i j ⟨hij, hc, hnhb⟩
  have hc' := hc
  obtain ⟨hxi, hxj, htid, hw, _⟩ := hc
  by_cases hpi : pub ≤ i
  · have hpj : pub ≤ j := Nat.le_trans hpi (Nat.le_of_lt hij)
    cases d with
    | locked m h => exact hnhb (locked_ordered wf h hpi hij hxi hxj htid hw)
    | immutable h => exact C14_immutable_ok h hpi hpj hc'
    | atomic h => exact C14_atomic_ok h hpi hpj hc'
    | confined t h => exact C14_confined_ok h hpi hpj hc'
  · have hip : i < pub := Nat.lt_of_not_le hpi
    by_cases hpj : pub ≤ j
    · exact hnhb (init i j hip hpj hxi hxj htid)
    · exact htid (initOwner i j hij (Nat.lt_of_not_le hpj) hxi hxj)

/-- **From the table to data-race freedom.**  If the class's rows pass the table check and the run is
an instance of those rows for location `x` (`Respects`: the trusted link between the extracted table
and real executions), then `x` has no data race. -/
theorem C14_drf_of_table {τ : Trace} {sw : Nat → Nat → Prop} (wf : MutexWF τ)
    {rows : List Gen.AccessRow} {x : Loc} {pub : Nat} {inst : Nat → Mutex} {thr : Nat → Tid}
    (hok : classOk rows = true) (hr : Respects τ rows x pub inst thr)
    (init : ∀ i j, i < pub → pub ≤ j → (τ i).ev.loc = some x → (τ j).ev.loc = some x →
      (τ i).tid ≠ (τ j).tid → HB τ sw i j)
    (initOwner : ∀ i j, i < j → j < pub → (τ i).ev.loc = some x → (τ j).ev.loc = some x →
      (τ i).tid = (τ j).tid) :
    ∀ i j, ¬ Race τ sw x i j :=
  C14_no_race_of_discipline wf (discipline_of_classOk hok hr) init initOwner

/-! ### Non-vacuity: a concrete run with two critical sections -/

/-- thread 0: lock 7; write 3; unlock 7 — thread 1: lock 7; read 3; unlock 7 -/
def exRun : Trace := fun k =>
  match k with
  | 0 => ⟨0, .acq 7 .X⟩
  | 1 => ⟨0, .wr 3⟩
  | 2 => ⟨0, .rel 7 .X⟩
  | 3 => ⟨1, .acq 7 .X⟩
  | 4 => ⟨1, .rd 3⟩
  | 5 => ⟨1, .rel 7 .X⟩
  | _ => ⟨0, .nop⟩

theorem C14_exRun_wf : MutexWF exRun := by
  intro j u m μ hacq t ν htu _ ⟨a, haj, haq, hnr⟩
  match j, hacq, haj, hnr with
  | 0, _, haj, _ => exact absurd haj (Nat.not_lt_zero a)
  | 1, hacq, _, _ => simp [exRun] at hacq
  | 2, hacq, _, _ => simp [exRun] at hacq
  | 3, hacq, haj, hnr =>
    have hu : u = 1 := by simp [exRun] at hacq; exact hacq.1.symm
    match a, haq, haj, hnr with
    | 0, haq, _, hnr =>
      simp [exRun] at haq
      obtain ⟨ht, hm, hν⟩ := haq
      subst ht; subst hm; subst hν
      exact hnr 2 (by decide) (by decide) rfl
    | 1, haq, _, _ => simp [exRun] at haq
    | 2, haq, _, _ => simp [exRun] at haq
    | (n + 3), _, haj, _ => exact absurd haj (by omega)
  | 4, hacq, _, _ => simp [exRun] at hacq
  | 5, hacq, _, _ => simp [exRun] at hacq
  | (n + 6), hacq, _, _ => simp [exRun] at hacq

theorem C14_exRun_locked : Locked exRun 3 7 0 := by
  intro k _ hx
  match k, hx with
  | 0, hx => simp [exRun, Ev.loc] at hx
  | 1, _ =>
    show HoldsFor exRun 7 1
    unfold HoldsFor
    simp only [exRun, Ev.isWrite, if_true]
    exact ⟨0, by decide, rfl, fun b h1 h2 => absurd h2 (by omega)⟩
  | 2, hx => simp [exRun, Ev.loc] at hx
  | 3, hx => simp [exRun, Ev.loc] at hx
  | 4, _ =>
    show HoldsFor exRun 7 4
    unfold HoldsFor
    simp only [exRun, Ev.isWrite]
    exact ⟨.X, 3, by decide, rfl, fun b h1 h2 => absurd h2 (by omega)⟩
  | 5, hx => simp [exRun, Ev.loc] at hx
  | (n + 6), hx => simp [exRun, Ev.loc] at hx

/-- the hypotheses of `C14_lockset_drf` are satisfiable and the conclusion is the expected edge -/
example : HB exRun (fun _ _ => False) 1 4 :=
  C14_lockset_drf C14_exRun_wf C14_exRun_locked (Nat.zero_le 1) (by decide) rfl rfl (by decide) (Or.inl rfl)

/-- and the pair really is a conflict (write by thread 0, read by thread 1, neither atomic) -/
example : Conflict exRun 3 1 4 := by
  refine ⟨rfl, rfl, by decide, Or.inl rfl, ?_⟩
  intro h
  exact absurd h.1 (by decide)

/-- two table rows (a locked write, a locked read) of which `exRun` is an instance -/
def exRows : List Gen.AccessRow :=
  [⟨"writer", 0, true, false, [0], [], false, false, true, 0⟩,
   ⟨"reader", 0, false, false, [0], [], false, false, true, 0⟩]

example : classOk exRows = true := by decide

theorem C14_exRun_respects : Respects exRun exRows 3 0 (fun _ => 7) (fun _ => 0) := by
  intro k _ hx
  match k, hx with
  | 0, hx => simp [exRun, Ev.loc] at hx
  | 1, _ =>
    refine ⟨⟨"writer", 0, true, false, [0], [], false, false, true, 0⟩, by simp [exRows], rfl, rfl, rfl, ?_, ?_, ?_⟩
    · intro m _
      exact ⟨0, by decide, rfl, fun b h1 h2 => absurd h2 (by omega)⟩
    · intro m hm
      cases hm
    · intro h
      exact absurd rfl h
  | 2, hx => simp [exRun, Ev.loc] at hx
  | 3, hx => simp [exRun, Ev.loc] at hx
  | 4, _ =>
    refine ⟨⟨"reader", 0, false, false, [0], [], false, false, true, 0⟩, by simp [exRows], rfl, rfl, rfl, ?_, ?_, ?_⟩
    · intro m _
      exact ⟨3, by decide, rfl, fun b h1 h2 => absurd h2 (by omega)⟩
    · intro m hm
      cases hm
    · intro h
      exact absurd rfl h
  | 5, hx => simp [exRun, Ev.loc] at hx
  | (n + 6), hx => simp [exRun, Ev.loc] at hx

/-- `C14_drf_of_table` applies to a concrete run and concrete rows (all accesses are post-publication here) -/
example : ∀ i j, ¬ Race exRun (fun _ _ => False) 3 i j :=
  C14_drf_of_table C14_exRun_wf (by decide) C14_exRun_respects
    (fun i _ h => absurd h (Nat.not_lt_zero i)) (fun _ j _ h => absurd h (Nat.not_lt_zero j))

/-- without the lock the same two accesses are a race (the theorem's hypothesis is needed) -/
def exRacy : Trace := fun k =>
  match k with
  | 0 => ⟨0, .wr 3⟩
  | 1 => ⟨1, .rd 3⟩
  | _ => ⟨0, .nop⟩

theorem C14_unlocked_pair_races : Race exRacy (fun _ _ => False) 3 0 1 := by
  refine ⟨by decide, ⟨rfl, rfl, by decide, Or.inl rfl, fun h => absurd h.1 (by decide)⟩, ?_⟩
  -- no happens-before edge can start at position 0 of this run
  have key : ∀ i j, HB exRacy (fun _ _ => False) i j → i = 0 → j = 1 → False := by
    intro i j h
    induction h with
    | po hlt htid =>
      intro hi hj; subst hi; subst hj
      simp [exRacy] at htid
    | lock _ hrel _ _ =>
      intro hi _; subst hi
      simp [exRacy] at hrel
    | fork _ hf _ =>
      intro hi _; subst hi
      simp [exRacy] at hf
    | sw _ h => intro _ _; exact h
    | @trans a b c h1 h2 _ _ =>
      intro hi hj; subst hi; subst hj
      have l1 := HB.lt h1
      have l2 := HB.lt h2
      omega
  exact fun h => key 0 1 h rfl rfl

/-! ### The obligation on the extracted table -/

/-- the extractor met no construct it could not interpret -/
theorem C14_no_unknown : Gen.accessUnknown = [] := by decide

/-- the classes that fail, by name (shown in the build log when `C14_table_ok` does not close) -/
def failingClassNames : List String :=
  (failingClasses Gen.accessByClass).map (fun k => Gen.accessClassNames.getD k "?")

#eval failingClassNames

/-- every location class of the current source is under one of the four disciplines -/
theorem C14_table_ok : tableOk Gen.accessByClass = true := by decide +kernel

/-- the chain closed on the current source: every class of the extracted table, in every run that is
an instance of its rows, is free of data races -/
theorem C14_generated_table_drf {τ : Trace} {sw : Nat → Nat → Prop} (wf : MutexWF τ)
    {rows : List Gen.AccessRow} (hrows : rows ∈ Gen.accessByClass)
    {x : Loc} {pub : Nat} {inst : Nat → Mutex} {thr : Nat → Tid}
    (hr : Respects τ rows x pub inst thr)
    (init : ∀ i j, i < pub → pub ≤ j → (τ i).ev.loc = some x → (τ j).ev.loc = some x →
      (τ i).tid ≠ (τ j).tid → HB τ sw i j)
    (initOwner : ∀ i j, i < j → j < pub → (τ i).ev.loc = some x → (τ j).ev.loc = some x →
      (τ i).tid = (τ j).tid) :
    ∀ i j, ¬ Race τ sw x i j :=
  C14_drf_of_table wf (classOk_of_tableOk C14_table_ok rows hrows) hr init initOwner

end KcpVerif.Props
