/-
C16 — FEC ratio mismatch / auto-tune convergence (DESIGN 7.16).

Objects: `Model/AutoTune` (autotune.go: ring of the last 258 (type, id) samples, `FindPeriod`) and
the tuning branch of `Model/Fec.Decoder.decode` (fec.go).  Vocabulary from `Lemmas/AutoTune`:
`label d p k` = type bit of id `k` under sender ratio d/p, `run d p s len` = the in-order run of
`len` genuine samples with ids `s, s+1, …`, `feed t l` = `Sample` applied to the list `l`.

Proved (full strength unless marked):
* `C16_findPeriod_sound`      on a window that is one in-order run of a d/p sender, `FindPeriod(true) ∈ {−1, d}`,
                               `FindPeriod(false) ∈ {−1, p}`.
* `C16_findPeriod_complete`   exact (iff) window conditions under which each call returns d resp. p.
* `C16_window_flushes`        from ANY ring state, after ≥ 258 samples of an in-order run the window is exactly
                               the last 258 ids of the run (junk older than the run is gone).
* `C16_mismatch_detected`     two different ratios disagree on the type of some id among any 2(d+p) consecutive
                               ids, and a packet whose type contradicts its position makes `decode` enter the tuning
                               branch (`shouldTune` set unless a consistent period is found at once).
* `C16_retune_adopts`         in the tuning branch, a window that is a run containing both complete pulses makes
                               the decoder adopt (d, p), clear `shouldTune`, and (if the ratio changed) empty its
                               shard sets and re-base `newestShardId`.
* `C16_stable`                matching ratio: no sequence of packets whose type matches their position (every
                               genuine packet; any loss, duplication, reordering, any ids incl. the wrap) ever
                               sets `shouldTune` or changes the ratio.
* `C16_rows_sum_one`          every row of the systematic Vandermonde matrix sums to 1 (any field; Mathlib) and the
                               executable GF(2^8) matrices for all d, p ≤ 6 by evaluation.
* `C16_mismatch_corrupts`     `¬ C16_intact_full`: the D10 witness evaluated on the model (executable GF(2^8) code).
Counting, after the ring is flushed (Props/C16conv.lean, same property):
* `C16_conv_when_tuning`      a decoder that is tuning on a flushed ring (≥ 258 in-order samples of the run) adopts the
                               sender's ratio within `d + p` further packets; `C16_conv_flushed`: ANY consistent decoder
                               state on a flushed ring adopts within `3(d+p)` further packets (≤ 2(d+p) until a packet
                               contradicts the old ratio, ≤ d+p until both pulses lie in the window); for
                               `2(d+p) ≤ 258`: at the first tuning packet resp. within `2(d+p)` (`…_small`).
Whole histories (Props/C16pre.lean, same property): `C16_converges_below_paws` — from every state reachable under one
d/p sender, 258 + 2(d+p) in-order packets below paws' suffice; `C16_converges_full_false` — `C16_converges_full` below
is false (D9) even on reachable states.
Partial:
* `C16_converges_partial`     a decoder in ANY state (ring contents, ratio, shouldTune) that is fed an in-order run
                               of ≥ 258 genuine packets below its paws' and is in the tuning branch at a packet where
                               the window contains both complete pulses adopts the sender's ratio at that packet.
                               Missing for `C16_converges_full`: the count 258 + 2(d+p) (that the tuning branch is
                               entered within 2(d+p) packets — `C16_mismatch_detected` gives the id, not yet the
                               induction over decode — and that the alignment condition is met within d+p further
                               packets); and the bound is FALSE when the run overlaps [paws', paws) (D9, known finding).
-/
import KcpVerif.Lemmas.AutoTune
import KcpVerif.Lemmas.RS
import KcpVerif.Model.Fec
import Mathlib.Algebra.BigOperators.Group.Finset.Basic

namespace KcpVerif.Props
open KcpVerif.Gen KcpVerif.AutoTune KcpVerif.Fec KcpVerif.Lemmas.AutoTune

/-! ## the period detector -/

theorem C16_aux_count_small {t : Tune} (hl : t.count ≤ maxAutoTuneSamples) : t.count ≤ 2 ^ 31 := by
  have : maxAutoTuneSamples ≤ 2 ^ 31 := by decide
  omega

/-- `findPeriod_sound`: on a window that is one in-order run of a d/p sender the detector returns
    −1 or the true width — never a truncated pulse. -/
theorem C16_findPeriod_sound {d p s : Nat} {t : Tune} (hd : 0 < d) (hp : 0 < p)
    (hc : 3 ≤ t.count) (hl : t.count ≤ maxAutoTuneSamples)
    (hw : t.window = run d p s t.count) (h : s + t.count ≤ 2 ^ 32) :
    (t.findPeriod true = -1 ∨ t.findPeriod true = (d : Int)) ∧
    (t.findPeriod false = -1 ∨ t.findPeriod false = (p : Int)) :=
  ⟨findPeriod_true_sound hd hp hc hw h (C16_aux_count_small hl),
   findPeriod_false_sound hd hp hc hw h (C16_aux_count_small hl)⟩

/-- `findPeriod_complete`, as an equivalence: the data width is found iff the first group start
    after the window start, plus `d`, lies inside the window; the parity width iff the first
    parity start after the window start, plus `p`, lies inside. -/
theorem C16_findPeriod_complete {d p s : Nat} {t : Tune} (hd : 0 < d) (hp : 0 < p)
    (hc : 3 ≤ t.count) (hl : t.count ≤ maxAutoTuneSamples)
    (hw : t.window = run d p s t.count) (h : s + t.count ≤ 2 ^ 32) :
    (t.findPeriod true = (d : Int) ↔ (s + ((d + p) - s % (d + p))) + d < s + t.count) ∧
    (t.findPeriod false = (p : Int) ↔
      (if s % (d + p) < d then s + (d - s % (d + p)) else s + ((d + p) - s % (d + p)) + d) + p
        < s + t.count) :=
  ⟨findPeriod_true_iff hd hp hc hw h (C16_aux_count_small hl),
   findPeriod_false_iff hd hp hc hw h (C16_aux_count_small hl)⟩

-- non-vacuity: a fresh ring fed 20 samples of a 3/2 sender from id 7 finds both widths
example : (feed Tune.init (run 3 2 7 20)).findPeriod true = 3 ∧
          (feed Tune.init (run 3 2 7 20)).findPeriod false = 2 := by
  have h := C16_findPeriod_complete (d := 3) (p := 2) (s := 7) (t := feed Tune.init (run 3 2 7 20))
    (by decide) (by decide) (by decide +kernel) (by decide +kernel) (by decide +kernel) (by decide +kernel)
  exact ⟨h.1.mpr (by decide +kernel), h.2.mpr (by decide +kernel)⟩

/-- A window of 258 ids of a sender with d + p ≤ 255 whose start is aligned two ids before a group
    boundary contains both complete pulses: this is why `d + p + 2 ≤ 258` suffices. -/
theorem C16_findPeriod_complete_aligned {d p s : Nat} {t : Tune} (hd : 0 < d) (hp : 0 < p)
    (hn : d + p + 2 ≤ maxAutoTuneSamples) (hcnt : t.count = maxAutoTuneSamples)
    (hw : t.window = run d p s t.count) (h : s + t.count ≤ 2 ^ 32)
    (hal : s % (d + p) = d + p - 1) :
    t.findPeriod true = (d : Int) ∧ t.findPeriod false = (p : Int) := by
  have hM : 3 ≤ maxAutoTuneSamples := by decide
  have hc : 3 ≤ t.count := by omega
  have hl : t.count ≤ maxAutoTuneSamples := by omega
  obtain ⟨h1, h2⟩ := C16_findPeriod_complete hd hp hc hl hw h
  refine ⟨h1.mpr ?_, h2.mpr ?_⟩
  · omega
  · have : ¬ s % (d + p) < d := by omega
    simp only [this, if_false]
    omega

/-! ## the ring is a sliding window -/

theorem C16_aux_window_length (t : Tune) : t.window.length = t.count := by
  simp only [Tune.window, List.length_map, List.length_range]

theorem C16_aux_feed_window_gen {t : Tune} (h : t.WF) (l : List Pulse) :
    (feed t l).count = min (t.count + l.length) maxAutoTuneSamples ∧
    (feed t l).window = (t.window ++ l).drop (t.count + l.length - maxAutoTuneSamples) := by
  induction l generalizing t with
  | nil =>
    obtain ⟨_, _, _, hcount, _⟩ := h
    simp only [feed, List.foldl_nil, List.length_nil, Nat.add_zero, List.append_nil]
    refine ⟨by omega, ?_⟩
    have : t.count - maxAutoTuneSamples = 0 := by omega
    simp only [this, List.drop_zero]
  | cons x l ih =>
    have hw' := wf_sample x.bit x.seq h
    obtain ⟨ihc, ihw⟩ := ih hw'
    have hcs := count_sample t x.bit x.seq
    have hws := window_sample x.bit x.seq h
    obtain ⟨_, _, _, hcount, _⟩ := h
    have hfeed : feed t (x :: l) = feed (t.sample x.bit x.seq) l := rfl
    rw [hfeed, ihc, ihw, hws]
    by_cases hlt : t.count < maxAutoTuneSamples
    · simp only [hlt, if_true, List.drop_zero] at hcs ⊢
      rw [hcs]
      refine ⟨by simp only [List.length_cons]; omega, ?_⟩
      simp only [List.append_assoc, List.singleton_append, List.length_cons]
      have e : t.count + 1 + l.length - maxAutoTuneSamples = t.count + (l.length + 1) - maxAutoTuneSamples := by
        omega
      rw [e]
    · simp only [hlt, if_false] at hcs ⊢
      rw [hcs]
      refine ⟨by simp only [List.length_cons]; omega, ?_⟩
      have hpos : 0 < maxAutoTuneSamples := by decide
      have hwl := C16_aux_window_length t
      have hd1 : (t.window ++ [x]).drop 1 ++ l = (t.window ++ [x] ++ l).drop 1 := by
        have h1 : 1 ≤ t.window.length := by omega
        rw [List.append_assoc, List.drop_append_of_le_length h1, List.drop_append_of_le_length h1,
          List.append_assoc]
      rw [hd1, List.drop_drop]
      simp only [List.append_assoc, List.singleton_append, List.length_cons]
      have e : 1 + (t.count + l.length - maxAutoTuneSamples) = t.count + (l.length + 1) - maxAutoTuneSamples := by
        omega
      rw [e]

theorem C16_aux_run_drop (d p : Nat) : ∀ (k s len : Nat), (run d p s len).drop k = run d p (s + k) (len - k)
  | 0, s, len => by simp only [List.drop_zero, Nat.add_zero, Nat.sub_zero]
  | k + 1, s, 0 => by simp only [run, List.drop_nil, Nat.zero_sub]
  | k + 1, s, len + 1 => by
    simp only [run, List.drop_succ_cons]
    rw [C16_aux_run_drop d p k (s + 1) len]
    have e1 : s + 1 + k = s + (k + 1) := by omega
    have e2 : len + 1 - (k + 1) = len - k := by omega
    rw [e1, e2]

/-- From ANY ring state: after at least 258 samples of an in-order run the window is exactly the
    last 258 ids of that run — whatever was sampled before (loss, duplicates, reordering, other
    ratios, forged ids) has left the window.  (`≤ 258 packets until the ring holds only the run`.) -/
theorem C16_window_flushes {t : Tune} (h : t.WF) (d p s len : Nat) (hlen : maxAutoTuneSamples ≤ len) :
    (feed t (run d p s len)).count = maxAutoTuneSamples ∧
    (feed t (run d p s len)).window = run d p (s + (len - maxAutoTuneSamples)) maxAutoTuneSamples := by
  obtain ⟨hc, hw⟩ := C16_aux_feed_window_gen h (run d p s len)
  have hcount := h.2.2.2.1
  rw [length_run] at hc hw
  refine ⟨by omega, ?_⟩
  rw [hw]
  have hsplit : t.count + len - maxAutoTuneSamples = t.window.length + (len - maxAutoTuneSamples) := by
    rw [C16_aux_window_length]; omega
  rw [hsplit, ← List.drop_drop, List.drop_left' rfl, C16_aux_run_drop]
  have e : len - (len - maxAutoTuneSamples) = maxAutoTuneSamples := by omega
  rw [e]

-- non-vacuity: a ring that already holds junk, then 300 samples of a 3/2 sender
example : (feed (feed Tune.init [⟨true, 99#32⟩, ⟨false, 5#32⟩, ⟨true, 5#32⟩]) (run 3 2 10 300)).window
    = run 3 2 52 258 :=
  (C16_window_flushes (wf_feed _ wf_init) 3 2 10 300 (by decide)).2

/-! ## the decoder: stability, detection, adoption -/

/-- the packet's type agrees with its position under the decoder's ratio — true of every genuine
    packet of a sender with the same ratio, whatever its id (C07 `wrap_groups`: `seqid % n` is the
    shard index, also across the wrap) -/
def TypeMatches (dec : Decoder) (inp : Bytes) : Prop :=
  (posOf dec.n inp < dec.d ∧ flag inp = typeData) ∨ (¬ posOf dec.n inp < dec.d ∧ flag inp = typeParity)

theorem C16_aux_mismatch_false {dec : Decoder} {inp : Bytes} (h : TypeMatches dec inp) :
    mismatch dec inp = false := by
  unfold mismatch
  rcases h with ⟨h1, h2⟩ | ⟨h1, h2⟩
  · simp only [h1, if_true, h2, bne_self_eq_false]
  · simp only [h1, if_false, h2, bne_self_eq_false]

theorem C16_aux_mismatch_true {dec : Decoder} {inp : Bytes} (h : ¬ TypeMatches dec inp)
    (hf : flag inp = typeData ∨ flag inp = typeParity) : mismatch dec inp = true := by
  unfold mismatch TypeMatches at *
  have hne : (typeData : Nat) ≠ typeParity := by decide
  by_cases h1 : posOf dec.n inp < dec.d
  · simp only [h1, if_true]
    rcases hf with hf | hf
    · exact absurd (Or.inl ⟨h1, hf⟩) h
    · simp only [hf, bne_iff_ne, ne_eq]; exact fun e => hne e.symm
  · simp only [h1, if_false]
    rcases hf with hf | hf
    · simp only [hf, bne_iff_ne, ne_eq]; exact hne
    · exact absurd (Or.inr ⟨h1, hf⟩) h

/-- the fields that define the decoder's configuration -/
def sameConfig (a b : Decoder) : Prop :=
  a.d = b.d ∧ a.p = b.p ∧ a.n = b.n ∧ a.paws = b.paws ∧ a.shouldTune = b.shouldTune

/-- `stable`, one packet: a decoder that is not tuning, fed ANY packet whose type matches its
    position, neither starts tuning nor changes its ratio (and returns normally). -/
theorem C16_stable_step (C : CodecNew) (dec : Decoder) (inp : Bytes)
    (ht : dec.shouldTune = false) (hm : TypeMatches dec inp) :
    sameConfig (dec.decode C inp).st dec := by
  unfold Decoder.decode
  split
  · exact ⟨rfl, rfl, rfl, rfl, rfl⟩
  · dsimp only
    split
    · exact ⟨rfl, rfl, rfl, rfl, rfl⟩
    · split
      · rename_i h
        exfalso
        rcases (Bool.or_eq_true _ _).mp h with h | h
        · exact Bool.noConfusion ((C16_aux_mismatch_false (show TypeMatches _ inp from hm)).symm.trans h)
        · exact Bool.noConfusion (ht.symm.trans h)
      · split <;> exact ⟨rfl, rfl, rfl, rfl, rfl⟩

/-- feeding a list of packets -/
def feedPackets (C : CodecNew) (dec : Decoder) (pkts : List Bytes) : Decoder :=
  pkts.foldl (fun s q => (s.decode C q).st) dec

/-- `stable`: with matching configuration no sequence of packets whose types match their positions
    — every genuine packet of the peer, lost, duplicated or reordered in any way, with any ids
    including those around the wrap — ever sets `shouldTune` or changes the ratio.  (The position
    test uses the decoder's own `n`, which the theorem shows to be constant along the history.) -/
theorem C16_stable (C : CodecNew) (dec : Decoder) (pkts : List Bytes)
    (ht : dec.shouldTune = false)
    (hm : ∀ q ∈ pkts, (posOf dec.n q < dec.d ∧ flag q = typeData) ∨
                       (¬ posOf dec.n q < dec.d ∧ flag q = typeParity)) :
    sameConfig (feedPackets C dec pkts) dec := by
  induction pkts generalizing dec with
  | nil => exact ⟨rfl, rfl, rfl, rfl, rfl⟩
  | cons q rest ih =>
    have hq : TypeMatches dec q := hm q (List.mem_cons_self ..)
    have h1 := C16_stable_step C dec q ht hq
    obtain ⟨e1, e2, e3, e4, e5⟩ := h1
    have ht' : (dec.decode C q).st.shouldTune = false := by rw [e5, ht]
    have hm' : ∀ r ∈ rest, (posOf (dec.decode C q).st.n r < (dec.decode C q).st.d ∧ flag r = typeData) ∨
        (¬ posOf (dec.decode C q).st.n r < (dec.decode C q).st.d ∧ flag r = typeParity) := by
      intro r hr
      rw [e1, e3]
      exact hm r (List.mem_cons_of_mem _ hr)
    obtain ⟨f1, f2, f3, f4, f5⟩ := ih (dec.decode C q).st ht' hm'
    exact ⟨f1.trans e1, f2.trans e2, f3.trans e3, f4.trans e4, f5.trans e5⟩

-- non-vacuity: a 2/1 decoder and the three packet headers of a group (ids 0,1 data, id 2 parity)
example : ∀ q ∈ [[0,0,0,0,0xf1,0,9,9], [1,0,0,0,0xf1,0,9,9], [2,0,0,0,0xf2,0,9,9]],
    (posOf 3 q < 2 ∧ flag q = typeData) ∨ (¬ posOf 3 q < 2 ∧ flag q = typeParity) := by decide +kernel

/-- `mismatch_detected`, arithmetic part: two different ratios disagree on the type of some id
    among ANY `2(d+p)` consecutive ids. -/
theorem C16_mismatch_detected {d p d' p' : Nat} (hd : 0 < d) (hp : 0 < p) (hd' : 0 < d') (hp' : 0 < p')
    (hne : (d', p') ≠ (d, p)) (s : Nat) :
    ∃ k, s ≤ k ∧ k < s + 2 * (d + p) ∧ label d p k ≠ label d' p' k :=
  mismatch_detect hd hp hd' hp' hne s

/-- `mismatch_detected`, decoder part: a data/parity packet below `paws'` whose type contradicts its
    position sends `decode` into the tuning branch, whatever the state: nothing is returned and the
    new state is `retune` of the sampled state. -/
theorem C16_mismatch_enters_tuning (C : CodecNew) (dec : Decoder) (inp : Bytes)
    (hlen : fecHeaderSize ≤ inp.length) (hpaws : (seqid inp).toNat < dec.paws.toNat)
    (hf : flag inp = typeData ∨ flag inp = typeParity) (hm : ¬ TypeMatches dec inp) :
    (dec.decode C inp).recovered = [] ∧
    (dec.decode C inp).st =
      retune C { dec with tune := dec.tune.sample (flag inp == typeData) (seqid inp) } (seqid inp) := by
  unfold Decoder.decode
  split
  · omega
  · dsimp only
    split
    · rename_i h; exact absurd h (by simp only [ge_iff_le, Nat.not_le]; exact hpaws)
    · split
      · exact ⟨rfl, rfl⟩
      · rename_i h
        exfalso
        apply h
        apply (Bool.or_eq_true _ _).mpr
        left
        exact C16_aux_mismatch_true (show ¬ TypeMatches _ inp from hm) hf

/-- in the tuning branch `shouldTune` stays set until a consistent period is found: the result of
    `retune` either has `shouldTune = true` and the old ratio, or the ratio is the pair of detected
    widths (both positive, sum < 256) and `shouldTune = false`. -/
theorem C16_retune_cases (C : CodecNew) (dec : Decoder) (seq : BitVec 32) :
    ((retune C dec seq).shouldTune = true ∧ (retune C dec seq).d = dec.d ∧ (retune C dec seq).p = dec.p) ∨
    ((retune C dec seq).shouldTune = false ∧ ((retune C dec seq).d : Int) = dec.tune.findPeriod true ∧
      ((retune C dec seq).p : Int) = dec.tune.findPeriod false ∧ 0 < (retune C dec seq).d ∧
      0 < (retune C dec seq).p ∧ (retune C dec seq).d + (retune C dec seq).p < 256) := by
  unfold retune
  dsimp only
  split
  · rename_i h
    obtain ⟨h1, h2, h3⟩ := h
    split
    · right
      refine ⟨rfl, ?_, ?_, ?_, ?_, ?_⟩ <;> dsimp only <;> omega
    · rename_i h'
      right
      have e1 : dec.tune.findPeriod true = ↑dec.d := by
        apply Classical.byContradiction; intro hc; exact h' (Or.inl hc)
      have e2 : dec.tune.findPeriod false = ↑dec.p := by
        apply Classical.byContradiction; intro hc; exact h' (Or.inr hc)
      refine ⟨rfl, e1.symm, e2.symm, ?_, ?_, ?_⟩ <;> dsimp only <;> omega
  · left
    exact ⟨rfl, rfl, rfl⟩

/-- `retune_adopts`: in the tuning branch, if the sample window is an in-order run of a d/p sender
    that contains both complete pulses (`C16_findPeriod_complete`) and `d + p < 256`, the decoder
    adopts exactly (d, p), clears `shouldTune`, and — if that changed its ratio — empties its shard
    sets, rebuilds `paws` and re-bases `newestShardId` on the current packet. -/
theorem C16_retune_adopts (C : CodecNew) (dec : Decoder) (seq : BitVec 32) {d p s : Nat}
    (hd : 0 < d) (hp : 0 < p) (hn : d + p < 256)
    (hc : 3 ≤ dec.tune.count) (hl : dec.tune.count ≤ maxAutoTuneSamples)
    (hw : dec.tune.window = run d p s dec.tune.count) (h : s + dec.tune.count ≤ 2 ^ 32)
    (h1 : (s + ((d + p) - s % (d + p))) + d < s + dec.tune.count)
    (h2 : (if s % (d + p) < d then s + (d - s % (d + p)) else s + ((d + p) - s % (d + p)) + d) + p
        < s + dec.tune.count) :
    (retune C dec seq).d = d ∧ (retune C dec seq).p = p ∧ (retune C dec seq).shouldTune = false ∧
    ((dec.d, dec.p) ≠ (d, p) →
      (retune C dec seq).sets = [] ∧ (retune C dec seq).n = d + p ∧
      (retune C dec seq).paws = pawsOf (d + p) ∧ (retune C dec seq).newest = seq / u32 (d + p)) := by
  obtain ⟨c1, c2⟩ := C16_findPeriod_complete hd hp hc hl hw h
  have e1 := c1.mpr h1
  have e2 := c2.mpr h2
  unfold retune
  dsimp only
  have hv : 0 < dec.tune.findPeriod true ∧ 0 < dec.tune.findPeriod false ∧
      dec.tune.findPeriod true + dec.tune.findPeriod false < 256 := by
    rw [e1, e2]; omega
  rw [if_pos hv]
  split
  · have t1 : (dec.tune.findPeriod true).toNat = d := by rw [e1]; rfl
    have t2 : (dec.tune.findPeriod false).toNat = p := by rw [e2]; rfl
    dsimp only
    rw [t1, t2]
    exact ⟨rfl, rfl, rfl, fun _ => ⟨rfl, rfl, rfl, rfl⟩⟩
  · rename_i h'
    have f1 : dec.tune.findPeriod true = ↑dec.d := by
      apply Classical.byContradiction; intro hc'; exact h' (Or.inl hc')
    have f2 : dec.tune.findPeriod false = ↑dec.p := by
      apply Classical.byContradiction; intro hc'; exact h' (Or.inr hc')
    have g1 : dec.d = d := by omega
    have g2 : dec.p = p := by omega
    refine ⟨g1, g2, rfl, fun hne => ?_⟩
    exact absurd (by rw [g1, g2]) hne

/-! ## convergence (partial) -/

/-- the sender's view of the run: packet with id `k` is data iff `label d p k` -/
def runPulses (d p s len : Nat) : List Pulse := run d p s len

/-- `converges` at full strength (NOT proved, and false near the receiver's wrap — D9): from any
    decoder state, after an uninterrupted in-order run of at most `258 + 2(d+p)` genuine packets of
    a `d/p` sender (`d + p ≤ 255`) the decoder has the sender's ratio and is not tuning. -/
def C16_converges_full : Prop :=
  ∀ (C : CodecNew) (dec : Decoder) (d p : Nat) (pkts : List Bytes) (s : Nat),
    dec.tune.WF → 0 < d → 0 < p → d + p ≤ 255 → s + pkts.length ≤ 2 ^ 32 →
    pkts.length = maxAutoTuneSamples + 2 * (d + p) →
    (∀ i (h : i < pkts.length), fecHeaderSize ≤ pkts[i].length ∧ seqid pkts[i] = BitVec.ofNat 32 (s + i) ∧
        flag pkts[i] = (if label d p (s + i) then typeData else typeParity)) →
    ∃ k ≤ pkts.length, (feedPackets C dec (pkts.take k)).d = d ∧ (feedPackets C dec (pkts.take k)).p = p ∧
      (feedPackets C dec (pkts.take k)).shouldTune = false

/-- `converges`, the proved part: a decoder in ANY state whose ring is well formed is fed an
    in-order run of at least 258 samples of a d/p sender (so the window is the last 258 ids of the
    run, `C16_window_flushes`); if at that point it is in the tuning branch and the window start is
    such that both complete pulses lie inside the window, it adopts (d, p) and stops tuning.
    What is missing for `C16_converges_full` is the counting: that the tuning branch is entered
    within `2(d+p)` packets (`C16_mismatch_detected` + `C16_mismatch_enters_tuning` give the packet
    and the step, the induction over `decode` is not done), that the alignment condition becomes
    true within `d + p` further packets, and the hypothesis `ids < paws'` (D9). -/
theorem C16_converges_partial (C : CodecNew) (dec : Decoder) (seq : BitVec 32) {d p s len : Nat}
    (hwf : dec.tune.WF) (hd : 0 < d) (hp : 0 < p) (hn : d + p < 256)
    (hlen : maxAutoTuneSamples ≤ len) (h32 : s + len ≤ 2 ^ 32)
    (h1 : (s + (len - maxAutoTuneSamples) + ((d + p) - (s + (len - maxAutoTuneSamples)) % (d + p))) + d
            < s + len)
    (h2 : (if (s + (len - maxAutoTuneSamples)) % (d + p) < d
            then s + (len - maxAutoTuneSamples) + (d - (s + (len - maxAutoTuneSamples)) % (d + p))
            else s + (len - maxAutoTuneSamples) + ((d + p) - (s + (len - maxAutoTuneSamples)) % (d + p)) + d) + p
            < s + len) :
    let dec' := retune C { dec with tune := feed dec.tune (run d p s len) } seq
    dec'.d = d ∧ dec'.p = p ∧ dec'.shouldTune = false := by
  intro dec'
  obtain ⟨hc, hw⟩ := C16_window_flushes hwf d p s len hlen
  have hM : 3 ≤ maxAutoTuneSamples := by decide
  have r := C16_retune_adopts C { dec with tune := feed dec.tune (run d p s len) } seq
    (d := d) (p := p) (s := s + (len - maxAutoTuneSamples)) hd hp hn
    (by dsimp only; omega) (by dsimp only; omega) (by dsimp only; rw [hw, hc])
    (by dsimp only; omega) (by dsimp only; omega) (by dsimp only; rw [hc]; split at h2 <;> simp only [*, if_true, if_false] <;> omega)
  exact ⟨r.1, r.2.1, r.2.2.1⟩

/-! ## why a wrong-code reconstruction looks genuine: rows sum to 1 -/

open KcpVerif.Lemmas.RS in
/-- `rows_sum_one`, any field: every row of the systematic Vandermonde matrix `V·(V_top)⁻¹` sums to
    1, hence every parity symbol of data symbols that all equal `a` is `a` — right or wrong code. -/
theorem C16_rows_sum_one {F : Type*} [Field F] {d n : ℕ} (h : d ≤ n) {x : Fin n → F}
    (hx : Function.Injective x) (hd : 0 < d) (r : Fin n) :
    (∑ c, sysMatrix h x r c = 1) ∧ ∀ a : F, (Matrix.mulVec (sysMatrix h x) fun _ => a) r = a :=
  ⟨rows_sum_one h hx hd r, fun a => encode_const h hx hd a r⟩

/-- the same on the executable GF(2^8) matrices (klauspost `buildMatrix`), all ratios up to 6/6 -/
theorem C16_rows_sum_one_gf256 :
    ∀ d ∈ List.range 7, ∀ p ∈ List.range 7, 0 < d → 0 < p →
      (RS.buildMatrix d (d + p)).all (fun row => row.foldl (· ^^^ ·) 0 == 1) = true := by
  decide +kernel

/-! ## the intact-under-mismatch clause is false (D10) -/

/-- wire packets (from the FEC header on) a fresh `sd/sp` sender emits for the payloads, in order,
    parity always generated (header offset 0) -/
def senderPackets (sd sp : Nat) (payloads : List Bytes) : List Bytes :=
  match Encoder.new rsNew sd sp 0 with
  | none => []
  | some e =>
    (payloads.foldl (fun (acc : Encoder × List Bytes) pl =>
        ((acc.1.encode (List.replicate fecHeaderSizePlus2 0 ++ pl) true).st,
         acc.2 ++ [(acc.1.encode (List.replicate fecHeaderSizePlus2 0 ++ pl) true).data]
               ++ (acc.1.encode (List.replicate fecHeaderSizePlus2 0 ++ pl) true).parity)) (e, [])).2

/-- everything a fresh `rd/rp` decoder returns when fed the packets -/
def receive (rd rp : Nat) (pkts : List Bytes) : List Bytes :=
  match Decoder.new rsNew rd rp with
  | none => []
  | some dec =>
    (pkts.foldl (fun (acc : Decoder × List Bytes) q =>
        ((acc.1.decode rsNew q).st, acc.2 ++ (acc.1.decode rsNew q).recovered)) (dec, [])).2

/-- a returned shard is harmless if `kcpInput` drops it or it is one of the sender's datagrams -/
def harmless (payloads : List Bytes) (r : Bytes) : Prop :=
  match trim r with
  | some x => x ∈ payloads
  | none => True

instance (payloads : List Bytes) (r : Bytes) : Decidable (harmless payloads r) := by
  unfold harmless; split <;> infer_instance

/-- the property's first clause at full strength: whatever the two ratios, whatever subset of the
    sender's packets arrives in whatever order, everything the decoder hands to KCP is one of the
    sender's datagrams.  (With matching ratios this is C07 `dec_sound`.) -/
def C16_intact_full : Prop :=
  ∀ (sd sp rd rp : Nat) (payloads : List Bytes) (arrivals : List Nat),
    ∀ r ∈ receive rd rp (arrivals.filterMap fun i => (senderPackets sd sp payloads)[i]?),
      harmless payloads r

/-- three same-size KCP PUSH segments of one conversation: conv 0x44332211, cmd 81, wnd 128,
    sn 0,1,2, len 2, two data bytes each -/
def d10Payloads : List Bytes :=
  [[0x11,0x22,0x33,0x44, 81, 0, 128,0, 7,0,0,0, 0,0,0,0, 0,0,0,0, 2,0,0,0, 0xAA,0xBB],
   [0x11,0x22,0x33,0x44, 81, 0, 128,0, 7,0,0,0, 1,0,0,0, 0,0,0,0, 2,0,0,0, 0xCC,0xDD],
   [0x11,0x22,0x33,0x44, 81, 0, 128,0, 7,0,0,0, 2,0,0,0, 0,0,0,0, 2,0,0,0, 0xEE,0xFF]]

/-- D10 on the model: sender 3/1, receiver 2/2; ids 0 (data, sn 0) and 3 (the parity packet)
    arrive.  The decoder returns one shard; it passes the size check and is a PUSH segment of the
    same conversation with sn = 1 and len = 2 whose data bytes are NOT those of the sender's sn 1. -/
theorem C16_mismatch_corrupts_witness :
    ∃ x, (receive 2 2 ([0, 3].filterMap fun i => (senderPackets 3 1 d10Payloads)[i]?)).map trim = [some x] ∧
      x.take 8 = [0x11,0x22,0x33,0x44, 81, 0, 128,0] ∧ (x.drop 12).take 4 = [1,0,0,0] ∧
      (x.drop 20).take 4 = [2,0,0,0] ∧ x.length = 26 ∧ x ∉ d10Payloads := by
  refine ⟨[17, 34, 51, 68, 81, 0, 128, 0, 7, 0, 0, 0, 1, 0, 0, 0, 0, 0, 0, 0, 2, 0, 0, 0, 180, 165], ?_⟩
  decide +kernel

/-- `mismatch_corrupts`: the intact clause does not hold. -/
theorem C16_mismatch_corrupts : ¬ C16_intact_full := by
  intro h
  exact absurd (h 3 1 2 2 d10Payloads [0, 3]) (by decide +kernel)

/-- what does hold (`intact`, partial): as long as the decoder is tuning it returns nothing, in any
    state, for any packet — reconstruction is suspended until a consistent period has been found. -/
theorem C16_intact_partial (C : CodecNew) (dec : Decoder) (inp : Bytes) (ht : dec.shouldTune = true) :
    (dec.decode C inp).recovered = [] := by
  unfold Decoder.decode
  split
  · rfl
  · dsimp only
    split
    · rfl
    · split
      · rfl
      · rename_i h
        exfalso
        apply h
        apply (Bool.or_eq_true _ _).mpr
        right
        exact ht

end KcpVerif.Props
