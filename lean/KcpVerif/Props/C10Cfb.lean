import KcpVerif.Props.C10
import KcpVerif.Props.C19Cfb
/-!
C10 — the length hypothesis `LenLaws` of the session-level MTU theorems discharged for CFB over ANY
block function of size 8 or 16 (`C08_cfb_length`: the unrolled encryption of crypt.go is length
preserving for every length).  What remains a hypothesis: `Seal` appends exactly `Overhead()` bytes
(standard library GCM) and one read of the entropy source yields 16 bytes.
-/
namespace KcpVerif.Props
open KcpVerif KcpVerif.Gen KcpVerif.Wire KcpVerif.SessOut KcpVerif.Cfb

/-- **`C10_session_no_datagram_exceeds_mtu_cfb`**: under an accepted MTU, with CFB over any block
cipher and any FEC setting, no datagram (data, parity) of any request sequence exceeds `min 1500 m`. -/
theorem C10_session_no_datagram_exceeds_mtu_cfb {γ : Type} (bs : Nat) (hbs : bs = 8 ∨ bs = 16) (E : Bytes → Bytes)
    (hE : BlockFn bs E) (crc : Bytes → BitVec 32) (parity : List Bytes → Nat → Bytes) (draw : γ → Draw γ)
    (hdraw : ∀ g, 16 ≤ (draw g).out.length) (d p : Nat) (coreOk : Int → Bool)
    (hcore : ∀ x, coreOk x = true → (IKCP_OVERHEAD : Int) < x) (cur : Nat) (m : Int)
    (hacc : (setMtu { cipher := .block, d := d, p := p } coreOk cur m).ok = true) (reqs : List Req) (st : PP γ)
    (hcons : Consistent { cipher := .block, d := d, p := p } st)
    (hgroup : ∀ e, st.enc = some e →
      e.maxSize ≤ ({ cipher := .block, d := d, p := p } : Cfg).headerSize +
        (setMtu { cipher := .block, d := d, p := p } coreOk cur m).coreMtu)
    (hreq : ∀ r ∈ reqs, r.body.length ≤ (setMtu { cipher := .block, d := d, p := p } coreOk cur m).coreMtu) :
    ∀ em ∈ (postProcess (cfbPrims E bs crc parity draw) { cipher := .block, d := d, p := p } st reqs).emits,
      (em.wire.length : Int) ≤ min (mtuLimit : Int) m :=
  C10_session_no_datagram_exceeds_mtu _ _ (C19_cfb_laws bs hbs E hE crc parity draw hdraw d p).toLenLaws coreOk hcore
    cur m hacc reqs st hcons hgroup hreq

/-- the out-of-band datagram of an accepted message under CFB: exact size, within `min 1500 m` -/
theorem C10_session_oob_dgram_cfb {γ : Type} (bs : Nat) (hbs : bs = 8 ∨ bs = 16) (E : Bytes → Bytes)
    (hE : BlockFn bs E) (crc : Bytes → BitVec 32) (parity : List Bytes → Nat → Bytes) (draw : γ → Draw γ)
    (hdraw : ∀ g, 16 ≤ (draw g).out.length) (d p : Nat) (coreOk : Int → Bool)
    (hcore : ∀ x, coreOk x = true → (IKCP_OVERHEAD : Int) < x) (cur : Nat) (m : Int)
    (hacc : (setMtu { cipher := .block, d := d, p := p } coreOk cur m).ok = true) (st : PP γ)
    (hcons : Consistent { cipher := .block, d := d, p := p } st) (conv : BitVec 32) (data b : Bytes) (now : Int)
    (hq : sendOOB { cipher := .block, d := d, p := p }
      (setMtu { cipher := .block, d := d, p := p } coreOk cur m).coreMtu conv data = .queued b) :
    ∀ em ∈ (ppStep (cfbPrims E bs crc parity draw) { cipher := .block, d := d, p := p } st
        { oob := true, body := b, now := now }).emits,
      em.wire.length = ({ cipher := .block, d := d, p := p } : Cfg).headerSize + convSize + data.length +
        ({ cipher := .block, d := d, p := p } : Cfg).overhead ∧
      (em.wire.length : Int) ≤ min (mtuLimit : Int) m :=
  C10_session_oob_dgram _ _ (C19_cfb_laws bs hbs E hE crc parity draw hdraw d p).toLenLaws coreOk hcore cur m hacc st
    hcons conv data b now hq

end KcpVerif.Props
