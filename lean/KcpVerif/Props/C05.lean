import KcpVerif.Lemmas.KcpTotalOps
/-!
C05 — no datagram can crash or bloat the process (protocol-core part, DESIGN.md 7.5).

The model `Model/Kcp.lean` records every input- or state-dependent slice-bounds failure of
`kcp.go` as a `panic : Bool` flag.  Here:

* `InvK` (in `Lemmas/KcpTotal.lean`): the decidable state invariant
  (`24 < mtu`, `mss + 24 = mtu`, `mss ≤ mtuLimit`, `|buffer| = 3·(mtu + 24)`, every queued outgoing
  segment carries at most `mss` bytes, every received one at most `mtuLimit`);
* `C05_input_total`: for EVERY byte string, packet type, ack mode, clock and every state satisfying
  `InvK`, `Input` does not panic and re-establishes `InvK`;
* `C05_input_ret_spec` / `C05_input_ret_cases`: the return code, in ANY state, is the function
  `inputRet conv bytes` of the bytes and the conversation id alone, with values in {0, −1, −2, −3};
* `C05_inv_*`, `C05_*_total`: `InvK` holds for `NewKCP` and is preserved by every operation with
  arbitrary arguments, none of which panics under it;
* `C05_core_never_panics`: by induction over an arbitrary operation list from `NewKCP`;
* `C05_acklist_*`: the ack list grows by at most one entry per PUSH header walked, is emptied by
  every flush, and is shorter than `mtu/24` after every `Input` that returns 0;
* `C05_footprint_partial`: the bytes held by the core are bounded by queue lengths × segment bound
  (the queue lengths themselves are C04's).
-/
namespace KcpVerif.Props
open KcpVerif KcpVerif.Gen KcpVerif.Kcp KcpVerif.Total

/-! ### 1. `Input` is total -/

/-- a datagram too short for one header is rejected without touching the state -/
theorem C05_input_short (k : Kcp) (d : Bytes) (r n : Bool) (now : U32) (h : d.length < IKCP_OVERHEAD) :
    input k d r n now = ⟨k, -1, [], false⟩ := by
  unfold input; simp [h]

/-- **No byte string can make `Input` panic**, in any state satisfying the invariant, whatever the
packet type, ack mode and clock; and the invariant holds again afterwards (so the next datagram
cannot either).  Includes the `flush` that `Input` may run. -/
theorem C05_input_total (k : Kcp) (d : Bytes) (regular ackNoDelay : Bool) (now : U32) (h : InvK k) :
    (input k d regular ackNoDelay now).panic = false ∧ InvK (input k d regular ackNoDelay now).k :=
  ⟨(input_total h d regular ackNoDelay now).1, (input_total h d regular ackNoDelay now).2.1⟩

/-- the parse loop alone never fails, in any state at all: the payload it hands to `parse_data` was
checked against `mtuLimit` (fix D3) -/
theorem C05_inputLoop_never_panics (regular : Bool) (fuel : Nat) (d : Bytes) (k : Kcp) :
    (inputLoop regular fuel d { k := k }).panic = false :=
  (inputLoop_ok regular fuel d { k := k } rfl rfl).1

/-- `flush` never writes outside `kcp.buffer`: every segment written has `24 + |data| ≤ mtu`, so
after `makeSpace` the pending bytes never exceed `mtu ≤ |buffer|/3`. -/
theorem C05_flush_total (k : Kcp) (full : Bool) (now : U32) (h : InvK k) :
    (flush k full now).panic = false ∧ InvK (flush k full now).k :=
  ⟨(flush_total h full now).1, (flush_total h full now).2.1⟩

/-! ### 2. the return code -/

/-- **The return code of `Input`, in any state, is `inputRet conv bytes`**: `−1` when shorter than a
header; otherwise walk the headers — `−1` foreign conversation id, `−2` payload truncated or larger
than `mtuLimit`, `−3` unknown command, `0` when fewer than 24 bytes remain. -/
theorem C05_input_ret_spec (k : Kcp) (d : Bytes) (regular ackNoDelay : Bool) (now : U32) :
    (input k d regular ackNoDelay now).ret = inputRet k.conv d :=
  input_ret k d regular ackNoDelay now

theorem C05_input_ret_cases (k : Kcp) (d : Bytes) (regular ackNoDelay : Bool) (now : U32) :
    (input k d regular ackNoDelay now).ret = 0 ∨ (input k d regular ackNoDelay now).ret = -1 ∨
    (input k d regular ackNoDelay now).ret = -2 ∨ (input k d regular ackNoDelay now).ret = -3 := by
  rw [input_ret]; exact inputRet_cases _ _

/-- the walk of `inputRet` does not depend on the iteration bound the model uses -/
theorem C05_retSpec_fuel_irrelevant (conv : U32) (f : Nat) (d : Bytes) (h : d.length / IKCP_OVERHEAD < f) :
    retSpec conv f d = retSpec conv (d.length / IKCP_OVERHEAD + 1) d :=
  retSpec_fuel conv f _ d h (Nat.lt_succ_self _)

/-- the iteration bound of the model's parse loop is an artefact: any bound above `|d|/24` gives the
same result (the Go loop has none; it ends when fewer than 24 bytes remain) -/
theorem C05_inputLoop_fuel_irrelevant (regular : Bool) (f : Nat) (d : Bytes) (st : InLoop)
    (h : d.length / IKCP_OVERHEAD < f) :
    inputLoop regular f d st = inputLoop regular (d.length / IKCP_OVERHEAD + 1) d st :=
  inputLoop_fuel regular f _ d st h (Nat.lt_succ_self _)

/-- a datagram whose FIRST header is rejected (too short, foreign conversation, truncated/oversize
payload, unknown command) leaves the state untouched and emits nothing — in any state -/
theorem C05_input_reject_first_noop (k : Kcp) (d : Bytes) (regular ackNoDelay : Bool) (now : U32)
    (h : d.length < IKCP_OVERHEAD ∨ rd32 d 0 ≠ k.conv ∨ badLen d ∨ badCmd d) :
    (input k d regular ackNoDelay now).k = k ∧ (input k d regular ackNoDelay now).outs = [] ∧
    (input k d regular ackNoDelay now).ret < 0 :=
  input_reject_first k d regular ackNoDelay now h

/-- a rejected datagram never makes the core transmit — in any state -/
theorem C05_input_rejected_silent (k : Kcp) (d : Bytes) (regular ackNoDelay : Bool) (now : U32)
    (h : (input k d regular ackNoDelay now).ret < 0) : (input k d regular ackNoDelay now).outs = [] :=
  input_neg_outs k d regular ackNoDelay now h

/-- first header carries a foreign conversation id: `−1` -/
theorem C05_input_ret_conv (k : Kcp) (d : Bytes) (r n : Bool) (now : U32)
    (h1 : ¬ d.length < IKCP_OVERHEAD) (h2 : rd32 d 0 ≠ k.conv) : (input k d r n now).ret = -1 := by
  rw [input_ret]; unfold inputRet retSpec; rw [if_neg h1, if_neg h1, if_pos h2]

/-- first header announces more payload than follows, or more than a pool buffer: `−2` -/
theorem C05_input_ret_len (k : Kcp) (d : Bytes) (r n : Bool) (now : U32)
    (h1 : ¬ d.length < IKCP_OVERHEAD) (h2 : rd32 d 0 = k.conv) (h3 : badLen d) : (input k d r n now).ret = -2 := by
  rw [input_ret]; unfold inputRet retSpec
  rw [if_neg h1, if_neg h1, if_neg (by simpa using h2), if_pos h3]

/-- first header has an unknown command: `−3` -/
theorem C05_input_ret_cmd (k : Kcp) (d : Bytes) (r n : Bool) (now : U32)
    (h1 : ¬ d.length < IKCP_OVERHEAD) (h2 : rd32 d 0 = k.conv) (h3 : ¬ badLen d) (h4 : badCmd d) :
    (input k d r n now).ret = -3 := by
  rw [input_ret]; unfold inputRet retSpec
  rw [if_neg h1, if_neg h1, if_neg (by simpa using h2), if_neg h3, if_pos h4]

/-! ### 3. the invariant is reachable-inductive; nothing ever panics -/

theorem C05_inv_new (conv : U32) : InvK (Kcp.new conv) := invK_new conv

/-- `Send` never panics once `mss ≤ mtuLimit` — what the repaired `SetMtu` guarantees (D1) -/
theorem C05_send_total (k : Kcp) (b : Bytes) (h : InvK k) : (send k b).panic = false ∧ InvK (send k b).k :=
  send_total h b

theorem C05_inv_recv (k : Kcp) (buflen : Nat) (h : InvK k) : InvK (recv k buflen).k := recv_total h buflen

/-- `Recv`'s running re-slice `buffer = buffer[len(seg.data):]` (a state-dependent slice the model
does not flag) cannot fail: the merge loop copies exactly `PeekSize()` bytes, already checked
against `len(buffer)` -/
theorem C05_recv_fits (k : Kcp) (buflen : Nat) : (recv k buflen).data.length ≤ buflen := recv_fits k buflen

theorem C05_update_total (k : Kcp) (now : U32) (h : InvK k) : (update k now).panic = false ∧ InvK (update k now).k :=
  ⟨(update_total h now).1, (update_total h now).2.1⟩

/-- the repaired `SetMtu` (refuses `mtu − 24 > mtuLimit` and shrinking below queued sizes: D1, D2)
keeps the invariant for EVERY argument -/
theorem C05_inv_setMtu (k : Kcp) (m : Int) (h : InvK k) : InvK (setMtu k m).1 := setMtu_total h m

theorem C05_inv_noDelay (k : Kcp) (a b c d : Int) (h : InvK k) : InvK (noDelay k a b c d) := noDelay_total h a b c d

theorem C05_inv_wndSize (k : Kcp) (s r : Int) (h : InvK k) : InvK (wndSize k s r) := wndSize_total h s r

/-- every operation, with arbitrary arguments, is total under `InvK` and preserves it -/
theorem C05_step_total (k : Kcp) (op : Op) (h : InvK k) : (step k op).panic = false ∧ InvK (step k op).k :=
  step_total h op

/-- **Headline: no operation of the core ever panics.**  Start from `NewKCP(conv)` and apply ANY
list of operations with ANY arguments (all byte strings for `Input` and `Send`, any clock, any
`SetMtu`/`NoDelay`/`WndSize` values, any `Recv` buffer length): `run` stops at the first panic and
reports it — it never does; and the final state satisfies `InvK`. -/
theorem C05_core_never_panics (conv : U32) (ops : List Op) :
    (run (Kcp.new conv) ops).panic = false ∧ InvK (run (Kcp.new conv) ops).k :=
  run_total (invK_new conv) ops

/-- the same, stated on the set of reachable states -/
theorem C05_reachable_total (k : Kcp) (h : Reachable k) (op : Op) : (step k op).panic = false :=
  (step_total h.invK op).1

theorem C05_inv_reachable (k : Kcp) (h : Reachable k) : InvK k := h.invK

/-! ### 4. size bounds -/

/-- the ack list grows by at most one entry per PUSH header the loop walks over
(`pushSpec`, a function of the bytes), hence by at most `|d| / 24` — for every return code -/
theorem C05_acklist_growth (k : Kcp) (d : Bytes) (regular ackNoDelay : Bool) (now : U32) (h : InvK k) :
    (input k d regular ackNoDelay now).k.acklist.length ≤
      k.acklist.length + pushSpec k.conv (d.length / IKCP_OVERHEAD + 1) d ∧
    pushSpec k.conv (d.length / IKCP_OVERHEAD + 1) d ≤ d.length / IKCP_OVERHEAD :=
  ⟨(input_total h d regular ackNoDelay now).2.2.2.2.1, pushSpec_le _ _ _⟩

/-- every flush empties the ack list -/
theorem C05_acklist_flush (k : Kcp) (full : Bool) (now : U32) (h : InvK k) : (flush k full now).k.acklist = [] :=
  (flush_total h full now).2.2.1

/-- after an `Input` that returns 0 the ack list is shorter than `mtu/24` (the clocking flush);
`Input` never changes the MTU -/
theorem C05_acklist_after_ok (k : Kcp) (d : Bytes) (regular ackNoDelay : Bool) (now : U32) (h : InvK k)
    (hr : (input k d regular ackNoDelay now).ret = 0) :
    (input k d regular ackNoDelay now).k.acklist.length < (k.mtu / u32 IKCP_OVERHEAD).toNat ∧
    (input k d regular ackNoDelay now).k.mtu = k.mtu :=
  ⟨(input_total h d regular ackNoDelay now).2.2.2.2.2 hr, (input_total h d regular ackNoDelay now).2.2.2.1⟩

/-- **`acklist_bound`**: if the list was below `mtu/24` (as after every successful `Input` and every
flush), then after ANY `Input` — also one that aborts with −1/−2/−3 after valid PUSH headers and
therefore skips the flush — it is below `mtu/24 + |d|/24`. -/
theorem C05_acklist_bound (k : Kcp) (d : Bytes) (regular ackNoDelay : Bool) (now : U32) (h : InvK k)
    (h0 : k.acklist.length < (k.mtu / u32 IKCP_OVERHEAD).toNat) :
    (input k d regular ackNoDelay now).k.acklist.length <
      (k.mtu / u32 IKCP_OVERHEAD).toNat + d.length / IKCP_OVERHEAD := by
  have h1 := C05_acklist_growth k d regular ackNoDelay now h
  omega

/-- for datagrams a session can deliver (`|d| ≤ mtuLimit`) the bound is a constant: fewer than
`63 + 62` entries of 8 bytes -/
theorem C05_acklist_bound_session (k : Kcp) (d : Bytes) (regular ackNoDelay : Bool) (now : U32) (h : InvK k)
    (h0 : k.acklist.length < (k.mtu / u32 IKCP_OVERHEAD).toNat) (hd : d.length ≤ mtuLimit) :
    (input k d regular ackNoDelay now).k.acklist.length < 63 + 62 := by
  have h1 := C05_acklist_bound k d regular ackNoDelay now h h0
  have h2 := h.mss_le
  have h3 := h.mss_eq
  have h4 : (k.mtu / u32 IKCP_OVERHEAD).toNat = k.mtu.toNat / 24 := by
    unfold u32 IKCP_OVERHEAD
    rw [BitVec.toNat_udiv]
    simp only [BitVec.toNat_ofNat, Nat.reducePow, Nat.reduceMod]
  unfold IKCP_OVERHEAD mtuLimit at *
  omega

/-- only `Input` can lengthen the ack list (by at most `|d|/24`); a flush empties it; every other
operation — `Update` included — leaves it as long or shorter -/
theorem C05_acklist_step (k : Kcp) (op : Op) (h : InvK k) :
    (step k op).k.acklist.length ≤
      (match op with
       | .input d _ _ _ => k.acklist.length + d.length / IKCP_OVERHEAD
       | .flush _ _ => 0
       | _ => k.acklist.length) :=
  step_acklist h op

/-- **along ANY history from `NewKCP`** the ack list is bounded by `ackBound`, a function of the
operation list alone: the bytes received since the most recent flush, divided by 24 — proportional
to line rate × flush interval, not to the length of the history -/
theorem C05_acklist_history (conv : U32) (ops : List Op) :
    (run (Kcp.new conv) ops).k.acklist.length ≤ ackBound 0 ops :=
  run_acklist (invK_new conv) 0 (Nat.le_refl _) ops

/-- payload bytes held in a queue -/
def segBytes (l : List Seg) : Nat := (l.map (·.data.length)).sum

theorem C05_segBytes_le (m : Nat) (l : List Seg) (h : DataLe m l) : segBytes l ≤ l.length * m := by
  induction l with
  | nil => simp [segBytes]
  | cons s rest ih =>
    have h1 := h.head
    have h2 := ih h.tail
    simp only [segBytes, List.map_cons, List.sum_cons, List.length_cons] at *
    rw [Nat.add_mul]; omega

/-- bytes the core holds: the four queues, the ack list (8 bytes per entry), the flush buffer -/
def footprint (k : Kcp) : Nat :=
  segBytes k.snd_queue + segBytes k.snd_buf + segBytes k.rcv_buf + segBytes k.rcv_queue
    + 8 * k.acklist.length + k.bufLen

/-- **Proved part of the footprint bound**: in every reachable state the bytes held are bounded by
queue LENGTHS times the per-segment bounds of `InvK` (no datagram can plant an oversize segment). -/
theorem C05_footprint_partial (k : Kcp) (h : Reachable k) :
    footprint k ≤ (k.snd_queue.length + k.snd_buf.length) * k.mss.toNat
      + (k.rcv_buf.length + k.rcv_queue.length) * mtuLimit + 8 * k.acklist.length + 3 * (k.mtu.toNat + IKCP_OVERHEAD) ∧
    k.mss.toNat ≤ mtuLimit ∧ k.mtu.toNat ≤ mtuLimit + IKCP_OVERHEAD := by
  have hi := h.invK
  have h1 := C05_segBytes_le _ _ hi.sndq
  have h2 := C05_segBytes_le _ _ hi.sndb
  have h3 := C05_segBytes_le _ _ hi.rcvb
  have h4 := C05_segBytes_le _ _ hi.rcvq
  have h5 := hi.buf_eq
  have h6 := hi.mss_le
  have h7 := hi.mss_eq
  unfold footprint
  simp only [Nat.add_mul]
  omega

/-- **How the bounds combine (`C05_footprint`)**: with the queue LENGTHS bounded — `rcv_queue`,
`rcv_buf` by `W`, `snd_buf` by `S` (C04: the receive window and the effective send window),
`snd_queue` by `Q` (the application's backlog; sessions bound it through `WaitSnd`), the ack list
by `A` (`C05_acklist_bound`) — the bytes held by a reachable core are bounded by a closed
expression that no datagram content can influence. -/
theorem C05_footprint (k : Kcp) (h : Reachable k) (W S Q A : Nat)
    (hrq : k.rcv_queue.length ≤ W) (hrb : k.rcv_buf.length ≤ W) (hsb : k.snd_buf.length ≤ S)
    (hsq : k.snd_queue.length ≤ Q) (ha : k.acklist.length ≤ A) :
    footprint k ≤ (Q + S + 2 * W) * mtuLimit + 8 * A + 3 * (mtuLimit + 2 * IKCP_OVERHEAD) := by
  have hp := C05_footprint_partial k h
  have h1 : (k.snd_queue.length + k.snd_buf.length) * k.mss.toNat ≤ (Q + S) * mtuLimit :=
    Nat.mul_le_mul (by omega) hp.2.1
  have h2 : (k.rcv_buf.length + k.rcv_queue.length) * mtuLimit ≤ (2 * W) * mtuLimit :=
    Nat.mul_le_mul (by omega) (Nat.le_refl _)
  have h3 := hp.1
  have h4 := hp.2.2
  rw [Nat.add_mul (Q + S)]
  omega

/-- **Full footprint statement** (not proved here — the length bounds are C04's, proved by worker
`kc04` under its own hypotheses on the window configuration): the hypotheses of `C05_footprint`
hold in every reachable state with `W = rcv_wnd`, `S = snd_wnd`. -/
def C05_footprint_full : Prop :=
  ∀ k, Reachable k → (∀ k', Reachable k' → k'.rcv_queue.length ≤ k'.rcv_wnd.toNat ∧
      k'.rcv_buf.length ≤ k'.rcv_wnd.toNat ∧ k'.snd_buf.length ≤ k'.snd_wnd.toNat) →
    footprint k ≤ (k.snd_queue.length + k.snd_wnd.toNat + 2 * k.rcv_wnd.toNat) * mtuLimit
      + 8 * k.acklist.length + 3 * (mtuLimit + 2 * IKCP_OVERHEAD)

/-- … which, with C04 as a hypothesis, is a corollary -/
theorem C05_footprint_given_C04 : C05_footprint_full := by
  intro k h hc
  have := hc k h
  exact C05_footprint k h k.rcv_wnd.toNat k.snd_wnd.toNat k.snd_queue.length k.acklist.length
    this.1 this.2.1 this.2.2 (Nat.le_refl _) (Nat.le_refl _)

/-! ### non-vacuity: concrete states and inputs -/

/-- a PUSH datagram for conversation 7: sn 0, three payload bytes -/
def exPush : Bytes := encodeHdr 7 81 0 32 0 0 0 3 ++ [1, 2, 3]

/-- a busy history: windows, nodelay, a 3000-byte message (3 fragments), a flush, a genuine PUSH,
an ACK for sn 0, garbage, a truncated PUSH, an MTU change, a read, an update -/
def exOps : List Op :=
  [.wndSize 128 128, .noDelay 1 10 2 1, .send (List.replicate 3000 1), .flush true 0,
   .input exPush true false 5,
   .input (encodeHdr 7 82 0 32 0 0 0 0) true false 10,
   .input (List.replicate 100 0xff) true false 11,
   .input (exPush.take 26) true false 12,
   .setMtu 1450, .recv 10, .update 20]

/-- the state reached is not trivial: two segments still in flight (the one acknowledged
individually has left `snd_buf`: the repaired `shrink_buf`), one message received, MTU changed -/
example : ((run (Kcp.new 7) exOps).k.snd_buf.length, (run (Kcp.new 7) exOps).k.rcv_nxt,
           (run (Kcp.new 7) exOps).k.mtu, (run (Kcp.new 7) exOps).panic) = (2, 1#32, 1450#32, false) := by
  decide +kernel

/-- `InvK` is decidable and holds there (by the theorem, and by evaluation) -/
example : InvK (run (Kcp.new 7) exOps).k := (C05_core_never_panics 7 exOps).2
example : InvK (run (Kcp.new 7) exOps).k := by decide +kernel
example : Reachable (Kcp.new 7) := Reachable.new 7

/-- all four return codes occur -/
example : (input (Kcp.new 7) exPush true false 5).ret = 0 := by decide +kernel
example : (input (Kcp.new 7) (List.replicate 100 0xff) true false 5).ret = -1 := by decide +kernel
example : (input (Kcp.new 7) (exPush.take 26) true false 5).ret = -2 := by decide +kernel
example : (input (Kcp.new 7) (encodeHdr 7 81 0 32 0 0 0 1501 ++ List.replicate 1501 0) true false 5).ret = -2 := by
  decide +kernel
example : (input (Kcp.new 7) (encodeHdr 7 99 0 32 0 0 0 0) true false 5).ret = -3 := by decide +kernel
/-- a PUSH leaves one ack-list entry (no flush yet: 1 < 1400/24) -/
example : (input (Kcp.new 7) exPush true false 5).k.acklist.length = 1 := by decide +kernel

/-- the history bound is small and computable -/
example : ackBound 0 exOps = 7 := by decide +kernel

/-- the `panic` flags are live, and `InvK` is what rules them out: outside the invariant each of
the three guarded sites fails (D1: `Send` with `mss > mtuLimit`; D2: `flush` with a queued segment
larger than the buffer; D3: `parse_data` with a payload larger than a pool buffer). -/
example : (send { Kcp.new 7 with mtu := 2024#32, mss := 2000#32 } (List.replicate 2000 0)).panic = true := by
  decide +kernel
example : (flush { Kcp.new 7 with snd_buf := [{ data := List.replicate 5000 0 }] } true 0).panic = true := by
  decide +kernel
example : (parseData (Kcp.new 7) { data := List.replicate 1501 0 }).panic = true := by decide +kernel

end KcpVerif.Props
