import KcpVerif.Model.Kcp
/-! C05 — no datagram can crash or bloat the process. -/
namespace KcpVerif.Props
open KcpVerif KcpVerif.Gen KcpVerif.Kcp

/-- a datagram too short for one header is rejected without touching the state -/
theorem C05_input_short (k : Kcp) (d : Bytes) (r n : Bool) (now : U32) (h : d.length < IKCP_OVERHEAD) :
    input k d r n now = ⟨k, -1, [], false⟩ := by
  unfold input; simp [h]

end KcpVerif.Props
