import KcpVerif.Model.Kcp
/-!
C18 — no retransmission on a clean path; RTO stays within its bounds.
-/
namespace KcpVerif.Props
open KcpVerif KcpVerif.Gen KcpVerif.Kcp

theorem C18_clamp_bounds (minrto rto : U32) (hmin : minrto ≤ u32 IKCP_RTO_MAX) :
    minrto ≤ clampRto minrto rto ∧ clampRto minrto rto ≤ u32 IKCP_RTO_MAX := by
  unfold clampRto
  simp only []
  split <;> (try split) <;> (constructor <;> bv_omega)

theorem C18_smooth_keeps_minrto (k : Kcp) (rtt : U32) : (smoothRtt k rtt).rx_minrto = k.rx_minrto := by
  unfold smoothRtt; split <;> rfl

/-- `update_ack` leaves the retransmission timeout between the configured minimum and
`IKCP_RTO_MAX` (60 s), for EVERY sample (negative, huge, forged) and every prior state:
the clamp is the last operation. -/
theorem C18_rto_bounds (k : Kcp) (rtt : U32) (hmin : k.rx_minrto ≤ u32 IKCP_RTO_MAX) :
    k.rx_minrto ≤ (updateAck k rtt).rx_rto ∧ (updateAck k rtt).rx_rto ≤ u32 IKCP_RTO_MAX ∧
    (updateAck k rtt).rx_minrto = k.rx_minrto := by
  have h := C18_smooth_keeps_minrto k rtt
  unfold updateAck
  simp only [h]
  exact ⟨(C18_clamp_bounds _ _ hmin).1, (C18_clamp_bounds _ _ hmin).2, trivial⟩

end KcpVerif.Props
