import KcpVerif.Model.Kcp
import KcpVerif.Lemmas.KcpLiveFlush
import KcpVerif.Lemmas.KcpLiveOps
import KcpVerif.Lemmas.SysCleanRun
import KcpVerif.Lemmas.SysWinRun
import KcpVerif.Model.Sys2
/-!
C18 — no retransmission on a clean path; RTO stays within its bounds.
-/
namespace KcpVerif.Props
open KcpVerif KcpVerif.Gen KcpVerif.Kcp KcpVerif.Live

theorem C18_clamp_bounds (minrto rto : U32) (hmin : minrto ≤ u32 IKCP_RTO_MAX) :
    minrto ≤ clampRto minrto rto ∧ clampRto minrto rto ≤ u32 IKCP_RTO_MAX := by
  unfold clampRto
  simp only []
  split <;> (try split) <;> (constructor <;> bv_omega)

theorem C18_smooth_keeps_minrto (k : Kcp) (rtt : U32) : (smoothRtt k rtt).rx_minrto = k.rx_minrto := by
  unfold smoothRtt; split <;> rfl

/-- `update_ack` leaves the retransmission timeout between the configured minimum and
`IKCP_RTO_MAX` (60 s), for EVERY sample (negative, huge, forged) and every prior state:
the clamp is the last operation. -/
theorem C18_rto_bounds (k : Kcp) (rtt : U32) (hmin : k.rx_minrto ≤ u32 IKCP_RTO_MAX) :
    k.rx_minrto ≤ (updateAck k rtt).rx_rto ∧ (updateAck k rtt).rx_rto ≤ u32 IKCP_RTO_MAX ∧
    (updateAck k rtt).rx_minrto = k.rx_minrto := by
  have h := C18_smooth_keeps_minrto k rtt
  unfold updateAck
  simp only [h]
  exact ⟨(C18_clamp_bounds _ _ hmin).1, (C18_clamp_bounds _ _ hmin).2, trivial⟩

/-! ### `segment_rto_lower`: the per-segment timer written by every (re)transmission

`cause`, `segAfter`, `emit` (Lemmas/KcpXmit.lean): decision cascade of phase 5, the segment it leaves
in `snd_buf`, the write into the output buffer; `xmitOne_eq` proves `xmitOne` equal to them. -/

/-- For an un-acked segment, whatever the state: `xmitOne` appends exactly one segment `s'` to
`done`; if no branch fires, `s' = s` and nothing is written; otherwise the segment is written,
`xmit` is incremented, the timer is re-armed at `resendts = now + s'.rto`, and
* initial / fast / early branch: `s'.rto = rx_rto` (never below the connection RTO);
* timeout branch: `s'.rto = s.rto + rx_rto` (`nodelay = 0`) or `s.rto + rx_rto / 2`. -/
theorem C18_segment_rto_lower (now resent : U32) (wnd : BitVec 16) (una : U32) (newSegs : Nat) (st : XmitSt) (s : Seg)
    (ha : s.acked = false) :
    ∃ s', (xmitOne now resent wnd una newSegs st s).done = st.done ++ [s'] ∧
      (cause now resent newSegs s = .none → s' = s ∧ (xmitOne now resent wnd una newSegs st s).f = st.f) ∧
      (cause now resent newSegs s ≠ .none →
        (xmitOne now resent wnd una newSegs st s).f = emit st.f s' ∧
        s'.xmit = s.xmit + 1 ∧ s'.resendts = now + s'.rto) ∧
      (cause now resent newSegs s = .initial ∨ cause now resent newSegs s = .fast ∨ cause now resent newSegs s = .early →
        s'.rto = st.f.k.rx_rto) ∧
      (cause now resent newSegs s = .timeout →
        s'.rto = (if st.f.k.nodelay = 0 then s.rto + st.f.k.rx_rto else s.rto + st.f.k.rx_rto / 2)) := by
  refine ⟨segAfter now resent wnd una newSegs st.f.k.rx_rto st.f.k.nodelay s, xmitOne_done _ _ _ _ _ _ _, ?_, ?_, ?_, ?_⟩
  · intro hc
    exact ⟨segAfter_none _ _ _ _ _ _ _ _ (Or.inr hc), by rw [xmitOne_f, if_pos (Or.inr hc)]⟩
  · intro hc
    refine ⟨by rw [xmitOne_f, if_neg (fun h => h.elim (by simp [ha]) hc)], ?_, ?_⟩
    · rw [segAfter_sent _ _ _ _ _ _ _ _ ha hc]
      cases hcc : cause now resent newSegs s <;> first | rfl | exact absurd hcc hc
    · rw [segAfter_sent _ _ _ _ _ _ _ _ ha hc]
      exact retimed_resendts _ _ _ _ _ hc
  · intro hc
    have hne : cause now resent newSegs s ≠ .none := by
      rcases hc with h | h | h <;> rw [h] <;> exact fun c => by cases c
    rw [segAfter_sent _ _ _ _ _ _ _ _ ha hne]
    rcases hc with h | h | h <;> rw [h] <;> rfl
  · intro hc
    have hne : cause now resent newSegs s ≠ .none := by rw [hc]; exact fun c => by cases c
    rw [segAfter_sent _ _ _ _ _ _ _ _ ha hne, hc]; rfl

/-- the timeout branch is monotone as long as the sum does not wrap: `s'.rto ≥ s.rto` and, for
`nodelay = 0`, `s'.rto ≥ rx_rto` -/
theorem C18_timeout_rto_monotone (srto rx : U32) (h : srto.toNat + rx.toNat < 2 ^ 32) :
    srto ≤ srto + rx ∧ rx ≤ srto + rx ∧ srto ≤ srto + rx / 2 := by
  have hd : (rx / 2).toNat = rx.toNat / 2 := by
    show (rx / BitVec.ofNat 32 2).toNat = _
    simp [BitVec.toNat_udiv]
  generalize rx / 2 = d at hd ⊢
  refine ⟨?_, ?_, ?_⟩ <;> bv_omega

/-! ### `resend_causes` -/

/-- In a full flush a segment that was sent before (`xmit > 0`) is transmitted again (it leaves the
flush with `xmit` incremented — equivalently `cause ≠ none`) only if its timer is due, or
`fastack ≥ resent` with a real (non-sentinel) count, or `fastack > 0` (non-sentinel) and nothing
new was admitted by this flush.  `resent = resentOf k` is `fastresend`, or `0xFFFFFFFF` (never
reached by a non-sentinel count) when fast resend is off. -/
theorem C18_resend_causes (k : Kcp) (now : U32) (s : Seg) (hs : s ∈ (flAd k now).buf) (ha : s.acked = false)
    (hx : s.xmit ≠ 0)
    (hsent : (segAfter now (resentOf k) (wndUnused k) k.rcv_nxt (flAd k now).count k.rx_rto k.nodelay s).xmit ≠ s.xmit) :
    (flush k true now).k.snd_buf =
      (flAd k now).buf.map (segAfter now (resentOf k) (wndUnused k) k.rcv_nxt (flAd k now).count k.rx_rto k.nodelay) ∧
    (itimediff now s.resendts ≥ 0 ∨
     (s.fastack ≥ resentOf k ∧ s.fastack ≠ 0xFFFFFFFF#32) ∨
     (s.fastack > 0 ∧ s.fastack ≠ 0xFFFFFFFF#32 ∧ (flAd k now).count = 0)) := by
  obtain ⟨pw, tp, h4⟩ := flF4_frame k now
  have hX := flX_full k now
  have hdone := hX.done
  have hres : resentOf (flF4 k now).k = resentOf k := by rw [h4]; rfl
  have hrto : (flF4 k now).k.rx_rto = k.rx_rto := by rw [h4]
  have hnd : (flF4 k now).k.nodelay = k.nodelay := by rw [h4]
  have hbuf : (flF4 k now).k.snd_buf = (flAd k now).buf := by rw [h4]
  simp only [hres, hrto, hnd, hbuf, List.nil_append] at hdone
  obtain ⟨_, _, st, ss, cw, inc, hk⟩ := flush_frame k true now
  refine ⟨by rw [hk]; exact hdone, ?_⟩
  have hc : cause now (resentOf k) (flAd k now).count s ≠ .none := by
    intro hc; exact hsent (by rw [segAfter_none _ _ _ _ _ _ _ _ (Or.inr hc)])
  rcases cause_why now (resentOf k) (flAd k now).count s hx hc with h | h | h
  · exact Or.inl h.2
  · exact Or.inr (Or.inl h.2)
  · exact Or.inr (Or.inr h.2)

/-- non-vacuity: a segment sent once whose timer (50) is due at 100 is retransmitted by the timeout
branch: `xmit = 2`, `rto = 200 + rx_rto = 400`, `resendts = 100 + 400` -/
example : (flush { Kcp.new 1 with snd_buf := [{ sn := 0, xmit := 1, resendts := 50, rto := 200 }], snd_nxt := 1 } true 100
    ).k.snd_buf.map (fun s => (s.xmit, s.rto, s.resendts)) = [(2, 400, 500)] := by decide

/-- with fast resend off (`fastresend ≤ 0`) the threshold is the sentinel itself, so the fast
branch can never fire -/
theorem C18_no_fast_when_off (k : Kcp) (hoff : k.fastresend.sle 0 = true) (s : Seg) :
    ¬ (s.fastack ≥ resentOf k ∧ s.fastack ≠ 0xFFFFFFFF#32) := by
  unfold resentOf
  rw [if_pos hoff]
  intro h
  exact h.2 (by bv_omega)

/-! ### `fastack_increment_cause` -/

/-- `parse_fastack`: position by position the send buffer is unchanged except that `fastack` of a
segment may grow by one — and only when the ACK's `sn` is strictly later than the segment's
(`itimediff sn s.sn > 0`), the segment does not carry the sentinel, and it was sent no later than
the acknowledged one (`itimediff s.ts ts ≤ 0`).  The whole function acts only for `sn` inside
`[snd_una, snd_nxt)`. -/
theorem C18_fastack_increment_cause (sn ts fastresend : U32) (l : List Seg) (k : Kcp) :
    ((fastLoop sn ts fastresend l).buf.length = l.length ∧
      ∀ p ∈ l.zip (fastLoop sn ts fastresend l).buf, p.2 = p.1 ∨
        (p.2 = { p.1 with fastack := p.1.fastack + 1 } ∧ itimediff sn p.1.sn > 0 ∧ p.1.fastack ≠ 0xFFFFFFFF#32 ∧
          itimediff p.1.ts ts ≤ 0)) ∧
    ((parseFastack k sn ts).1.snd_buf = k.snd_buf ∨
      (itimediff sn k.snd_una ≥ 0 ∧ itimediff sn k.snd_nxt < 0 ∧
        (parseFastack k sn ts).1.snd_buf = (fastLoop sn ts k.fastresend k.snd_buf).buf)) := by
  refine ⟨?_, ?_⟩
  · induction l with
    | nil => unfold fastLoop; exact ⟨rfl, fun p hp => by simp at hp⟩
    | cons s rest ih =>
      unfold fastLoop
      split
      · refine ⟨rfl, fun p hp => ?_⟩
        exact Or.inl (mem_zip_self _ p hp).symm
      · rename_i h1
        split
        · rename_i h2
          refine ⟨by simp only [List.length_cons, ih.1], fun p hp => ?_⟩
          simp only [List.zip_cons_cons, List.mem_cons] at hp
          rcases hp with rfl | hp
          · exact Or.inr ⟨rfl, itimediff_pos_of_ne _ _ h1 h2.1, h2.2.2, h2.2.1⟩
          · exact ih.2 p hp
        · refine ⟨by simp only [List.length_cons, ih.1], fun p hp => ?_⟩
          simp only [List.zip_cons_cons, List.mem_cons] at hp
          rcases hp with rfl | hp
          · exact Or.inl rfl
          · exact ih.2 p hp
  · unfold parseFastack
    split
    · exact Or.inl rfl
    · rename_i h
      refine Or.inr ⟨?_, ?_, rfl⟩
      · exact Int.not_lt.mp (fun c => h (Or.inl c))
      · exact Int.not_le.mp (fun c => h (Or.inr c))

/-- non-vacuity: an ACK for sn 7 bumps the earlier segment 5 (sent no later) and not segment 7 -/
example : (fastLoop 7 100 2 [{ sn := 5, ts := 90 }, { sn := 7, ts := 95 }]).buf =
    [{ sn := 5, ts := 90, fastack := 1 }, { sn := 7, ts := 95 }] := by decide

/-! ### `reachable_rto_bounds`

`Op`, `step`, `run`, `RtoInv`, `rtoOk`, `runOk` are in Lemmas/KcpLiveOps.lean. -/

/-- every operation with arbitrary arguments keeps `rx_minrto ≤ rx_rto ≤ IKCP_RTO_MAX`; the only
hypothesis concerns `NoDelay`: it must not raise `rx_minrto` above the current `rx_rto`
(`rtoOk`; `True` for every other operation) -/
theorem C18_step_rto_bounds (k : Kcp) (op : Op) (hinv : RtoInv k) (hok : rtoOk k op) : RtoInv (step k op) := by
  cases op with
  | send b => exact RtoInv.of_same (send_rto k b) hinv
  | recv n => exact RtoInv.of_same (recv_rto k n) hinv
  | flush full now => exact RtoInv.of_same (flush_rto k full now) hinv
  | update now => exact RtoInv.of_same (update_rto k now) hinv
  | setMtu m => exact RtoInv.of_same (setMtu_rto k m) hinv
  | wndSize s r => exact RtoInv.of_same (wndSize_rto k s r) hinv
  | noDelay nd iv rs nc =>
    unfold step RtoInv
    rw [(noDelay_rto k nd iv rs nc).1, (noDelay_rto k nd iv rs nc).2]
    refine ⟨?_, hinv.2⟩
    unfold rtoOk at hok
    split
    · rename_i hnd
      rcases hok with h | h
      · omega
      · exact h
    · exact hinv.1
  | input data regular ackNoDelay now =>
    have hst : RtoInv (inSt k data regular).k := RtoInv.of_same (inSt_rto k data regular) hinv
    have h2 : RtoInv (inK2 k data regular now) := by
      unfold inK2
      refine RtoInv.of_same (cwndOnAck_rto _ _) ?_
      split
      · have hb := C18_rto_bounds (inSt k data regular).k (now - (inSt k data regular).latest)
          (BitVec.le_trans hst.1 hst.2)
        unfold RtoInv
        rw [hb.2.2]
        exact ⟨hb.1, hb.2.1⟩
      · exact hst
    show RtoInv (input k data regular ackNoDelay now).k
    rw [input_eq]
    split
    · exact hinv
    · split
      · exact hst
      · split
        · exact hst
        · split
          · exact RtoInv.of_same (flush_rto _ _ _) h2
          · split
            · exact RtoInv.of_same (flush_rto _ _ _) h2
            · split
              · exact RtoInv.of_same (flush_rto _ _ _) h2
              · exact h2

/-- `rx_minrto ≤ rx_rto ≤ IKCP_RTO_MAX` in every state reachable from `NewKCP` (100 ≤ 200 ≤ 60000) by
any sequence of operations with arbitrary arguments in which no `NoDelay` raises `rx_minrto` above
the current `rx_rto` (`runOk`).  Every RTT sample, however forged, keeps the bounds. -/
theorem C18_reachable_rto_bounds (conv : U32) (ops : List Op) (h : runOk (Kcp.new conv) ops) :
    RtoInv (run (Kcp.new conv) ops) := by
  have h0 : RtoInv (Kcp.new conv) := by
    unfold RtoInv Kcp.new; simp only [u32, IKCP_RTO_MIN, IKCP_RTO_DEF, IKCP_RTO_MAX]; decide
  generalize Kcp.new conv = k at h h0
  induction ops generalizing k with
  | nil => exact h0
  | cons op rest ih =>
    rw [run_cons]
    exact ih (step k op) h.2 (C18_step_rto_bounds k op h0 h.1)

/-- before the first RTT sample (`rx_rto` still `IKCP_RTO_DEF`) every `NoDelay` call is allowed -/
theorem C18_noDelay_before_sample_ok (k : Kcp) (hdef : k.rx_rto = u32 IKCP_RTO_DEF) (nd iv rs nc : Int) :
    rtoOk k (.noDelay nd iv rs nc) := by
  unfold rtoOk
  rw [hdef]
  right
  split <;> (simp only [u32, IKCP_RTO_NDL, IKCP_RTO_MIN, IKCP_RTO_DEF]; decide)

/-- non-vacuity: a run with NoDelay before traffic, a forged ACK datagram and flushes satisfies the
hypothesis (and the hypothesis is decidable) -/
example : runOk (Kcp.new 7)
    [.noDelay 1 10 2 1, .send [1, 2, 3], .flush true 100,
     .input [7,0,0,0, 82,0, 32,0, 0,0,0,0, 0,0,0,0, 1,0,0,0, 0,0,0,0] true false 5000, .update 5100] := by
  decide

/-- the hypothesis is needed: raising `rx_minrto` to 100 after the RTO dropped to 30 breaks the bound -/
example : ¬ RtoInv (noDelay { Kcp.new 7 with rx_rto := 30, rx_minrto := 30 } 0 (-1) (-1) (-1)) := by decide

/-! ### `C18_clean_path` (Tier 2): the closed two-endpoint system of Model/Sys.lean

`Sys.State`, `Sys.step`, `Sys.run`: two cores, two FIFO links of constant one-way delay `D`, a global
millisecond clock (`Nat`; an endpoint sees it mod 2^32), session-style flushing, `Input` of every
datagram at its arrival time, a writer that `Send`s at arbitrary times and a reader that keeps up.
`SysC.Clean` (Lemmas/SysCleanInv.lean) is the invariant; `SysC.clean_step` shows that every event
preserves it.  `SysC.CleanInit` = settings before traffic (decidable), among them the precondition
`2 * D + interval_B < rx_minrto_A`.  `SysC.RunOk` = the two run hypotheses of the partial theorem. -/

open KcpVerif.Sys KcpVerif.SysC in
/-- **No retransmission on a clean path.**  On the loss-free, duplicate-free, in-order system with
`2 D + interval_B < rx_minrto_A`, in EVERY reachable state (any interleaving of the events, any
`Send` arguments, any `ackNoDelay` settings, clock wrap included):

* nothing panicked;
* every segment in A's send buffer has been transmitted exactly once (`xmit = 1`; a retransmission
  of any kind would leave `xmit ≥ 2` on a segment that is still in the buffer after that event);
* a FULL flush of A taken in this state takes neither the timeout branch nor the fast/early branch
  (`lost = change = 0`); the same is shown inside the proof for the flushes `Input` triggers.

Partial: it assumes `RunOk` along the run — (1) `RoomOk`: B's receive queue has room for everything A
has sent and B has not yet taken (this is what the window precondition of the property is there to
guarantee; deriving it needs the admission rule of C04 composed with the advertised window), and
(2) `NoWrap`: fewer than 2^31 segments are queued over the whole run (sequence numbers are compared
through their offset from the first one).  Data flows from A to B only. -/
theorem C18_clean_path_partial (A B : Kcp) (D t0 : Nat) (ndA ndB : Bool) (hinit : CleanInit A B D)
    (evs : List Ev) (hrun : RunOk A.snd_nxt (Sys.init A B D t0 ndA ndB) evs) :
    (Sys.run (Sys.init A B D t0 ndA ndB) evs).panic = false ∧
    (∀ x ∈ (Sys.run (Sys.init A B D t0 ndA ndB) evs).A.snd_buf, x.xmit = 1) ∧
    (flX (Sys.run (Sys.init A B D t0 ndA ndB) evs).A true (clk (Sys.run (Sys.init A B D t0 ndA ndB) evs).now)).lost = 0 ∧
    (flX (Sys.run (Sys.init A B D t0 ndA ndB) evs).A true (clk (Sys.run (Sys.init A B D t0 ndA ndB) evs).now)).change = 0 := by
  obtain ⟨gab, gba, hc, hnw⟩ := clean_run (p := parOf A B) evs _ [] [] (clean_init A B D t0 ndA ndB hinit) hrun
  obtain ⟨_, _, hl, hch⟩ := clean_flushA hc hnw 0
  exact ⟨hc.np, fun x hx => (hc.aseg x hx).2.1, hl, hch⟩

open KcpVerif.Sys KcpVerif.SysC in
/-- the full statement: the window precondition of the property instead of the run hypotheses -/
def C18_clean_path_full : Prop :=
  ∀ (A B : Kcp) (D t0 : Nat) (ndA ndB : Bool), CleanInit A B D → B.rcv_queue = [] →
    min A.snd_wnd.toNat A.rmt_wnd.toNat ≤ B.rcv_wnd.toNat → 0 < B.rcv_wnd.toNat →
    ∀ evs : List Ev,
      (Sys.run (Sys.init A B D t0 ndA ndB) evs).panic = false ∧
      ∀ x ∈ (Sys.run (Sys.init A B D t0 ndA ndB) evs).A.snd_buf, x.xmit = 1

/-- one event preserves the invariant (the induction step of the theorem above, for reuse) -/
theorem C18_clean_step {p : SysC.Par} {s : Sys.State} {gab gba : SysC.GLink} (h : SysC.Clean p s gab gba)
    (hnw : SysC.NoWrap p.base s) (hroom : SysC.RoomOk s) (ev : Sys.Ev) :
    ∃ gab' gba', SysC.Clean p (Sys.step s ev) gab' gba' := SysC.clean_step h hnw hroom ev

/-- in a clean state no transmitted segment is older than `2 D + interval_B`: its timer is not due -/
theorem C18_clean_age {p : SysC.Par} {s : Sys.State} {gab gba : SysC.GLink} (h : SysC.Clean p s gab gba) :
    ∀ x ∈ s.A.snd_buf, itimediff (Sys.clk s.now) x.resendts < 0 ∧ x.fastack = 0 ∧ x.acked = false :=
  fun x hx => ⟨(h.age (h.aseg x hx)).2.2.2, (h.aseg x hx).2.2.1, (h.aseg x hx).1⟩

/-! non-vacuity: nodelay mode (`rx_minrto = 30`, interval 10 ms), `D = 3`: `2·3 + 10 < 30`; the writer
sends 3 bytes at t = 1000, A flushes, three ticks later B inputs the datagram, the reader reads, B
flushes its ACK, three ticks later A inputs it -/

def c18A : Kcp := Kcp.noDelay (Kcp.new 7) 1 10 2 1
def c18Evs : List Sys.Ev :=
  [.send [1, 2, 3], .flushA, .tick, .tick, .tick, .dlvB, .read, .flushB, .tick, .tick, .tick, .dlvA]

example : SysC.CleanInit c18A c18A 3 := by decide
example : SysC.RunOk c18A.snd_nxt (Sys.init c18A c18A 3 1000) c18Evs := by decide
/-- in the middle of the run the segment is in flight, transmitted once … -/
example : ((Sys.run (Sys.init c18A c18A 3 1000) (c18Evs.take 5)).A.snd_buf.map (fun x => (x.sn, x.xmit))) = [(0, 1)] ∧
    (Sys.run (Sys.init c18A c18A 3 1000) (c18Evs.take 5)).now = 1003 := by decide
/-- … and at the end it is acknowledged and the reader has the bytes -/
example : (Sys.run (Sys.init c18A c18A 3 1000) c18Evs).A.snd_buf = [] ∧
    (Sys.run (Sys.init c18A c18A 3 1000) c18Evs).got = [1, 2, 3] ∧
    (Sys.run (Sys.init c18A c18A 3 1000) c18Evs).now = 1006 := by decide
/- the timing precondition is needed: with `rx_rto` down at its minimum (30 ms) and `D = 20`
(`2·20 + 10 ≥ 30`) the schedule stretched to the longer delay retransmits the segment (`xmit = 2`)
before its ACK is back -/
set_option maxRecDepth 20000 in
example : ((Sys.run (Sys.init { c18A with rx_rto := 30 } c18A 20 1000)
    ([.send [1, 2, 3], .flushA] ++ List.replicate 10 .tick ++ [.flushA, .flushB] ++ List.replicate 10 .tick ++
     [.dlvB, .read, .flushA, .flushB] ++ List.replicate 10 .tick ++ [.flushA])).A.snd_buf.map (fun x => x.xmit)) = [2] := by
  decide

/-! a larger run: 3003 bytes in four segments, `ackNoDelay` at B, 60 steps of the canonical scheduler
(`Sys.auto`: deliver what is due, read, flush when a flush is due, else tick): the run hypotheses hold
along the whole run, everything is delivered and acknowledged -/

def c18Big : List Sys.Ev :=
  [.send (List.replicate 3000 5), .send [1, 2, 3]] ++
    (Sys.auto 60 (Sys.run (Sys.init c18A c18A 3 1000 (ndB := true)) [.send (List.replicate 3000 5), .send [1, 2, 3]]) []).2

set_option maxRecDepth 100000 in
example : SysC.RunOk c18A.snd_nxt (Sys.init c18A c18A 3 1000 (ndB := true)) c18Big := by decide
set_option maxRecDepth 100000 in
example : (Sys.run (Sys.init c18A c18A 3 1000 (ndB := true)) c18Big).got.length = 3003 ∧
    (Sys.run (Sys.init c18A c18A 3 1000 (ndB := true)) c18Big).A.waitSnd = 0 := by decide

/-! ### the room hypothesis derived from the window precondition

`SysC.Win` (Lemmas/SysWinStep.lean): every `(una, wnd)` pair on its way to A, and A's current
`(snd_una, min(snd_wnd, rmt_wnd))`, satisfy `una + wnd + |rcv_queue| ≤ rcv_nxt + rcv_wnd` at B; the
send buffer of A is contiguous; the `una`s on the link are non-decreasing.  Preserved by every event
(`SysC.cleanwin_step`): phase 4 never admits beyond `snd_una + min(snd_wnd, rmt_wnd)`
(`SysC.flush_nxt_bound`, the admission rule of C04), `wnd_unused` never advertises more than the room
left (`SysC.wndUnused_le`), an in-order PUSH moves `rcv_nxt` and `|rcv_queue|` together, `Recv` only
shortens the queue.  `SysC.WinInit` is the window precondition of the property: B's receive window is
at least `min(snd_wnd, rmt_wnd)` of A, where `rmt_wnd` is still the 32 segments a sender assumes before
it is told. -/

open KcpVerif.Sys KcpVerif.SysC in
/-- **No retransmission on a clean path, from the window precondition.**  As
`C18_clean_path_partial`, but the room hypothesis `RoomOk` is no longer assumed: it is derived from
`WinInit` (receive window of B ≥ min(send window of A, the window A assumes), B's queue empty and
nothing outstanding at the start) and the reader keeping up (built into `Sys.step`: a `tick` is
refused while something is readable), and it is part of the conclusion.  The one run hypothesis left
is `NoWrap` (fewer than 2^31 segments queued over the whole run). -/
theorem C18_clean_path_window_partial (A B : Kcp) (D t0 : Nat) (ndA ndB : Bool) (hinit : CleanInit A B D)
    (hwin : WinInit A B) (evs : List Ev) (hrun : RunNoWrap A.snd_nxt (Sys.init A B D t0 ndA ndB) evs) :
    (Sys.run (Sys.init A B D t0 ndA ndB) evs).panic = false ∧
    (∀ x ∈ (Sys.run (Sys.init A B D t0 ndA ndB) evs).A.snd_buf, x.xmit = 1) ∧
    (flX (Sys.run (Sys.init A B D t0 ndA ndB) evs).A true (clk (Sys.run (Sys.init A B D t0 ndA ndB) evs).now)).lost = 0 ∧
    (flX (Sys.run (Sys.init A B D t0 ndA ndB) evs).A true (clk (Sys.run (Sys.init A B D t0 ndA ndB) evs).now)).change = 0 ∧
    RoomOk (Sys.run (Sys.init A B D t0 ndA ndB) evs) := by
  obtain ⟨gab, gba, hc, hw, hnw⟩ := cleanwin_run (p := parOf A B) evs _ [] []
    (clean_init A B D t0 ndA ndB hinit) (win_init A B D t0 ndA ndB hinit hwin) hrun
  obtain ⟨_, _, hl, hch⟩ := clean_flushA hc hnw 0
  exact ⟨hc.np, fun x hx => (hc.aseg x hx).2.1, hl, hch, hw.room hc⟩

/-- non-vacuity: the start conditions and the remaining run hypothesis hold on the runs above; default
windows (`snd_wnd = rmt_wnd = rcv_wnd = 32`) -/
example : SysC.WinInit c18A c18A := by decide
example : SysC.RunNoWrap c18A.snd_nxt (Sys.init c18A c18A 3 1000) c18Evs := by decide
set_option maxRecDepth 100000 in
example : SysC.RunNoWrap c18A.snd_nxt (Sys.init c18A c18A 3 1000 (ndB := true)) c18Big := by decide
/- the window precondition is needed for `RoomOk`: with a receive window of 1 at B and the default 32
assumed by A, A sends two segments at once and the second finds no room -/
example : ¬ SysC.WinInit c18A (Kcp.wndSize c18A 32 1) := by decide
set_option maxRecDepth 100000 in
example : ¬ SysC.RoomOk (Sys.run (Sys.init c18A (Kcp.wndSize c18A 32 1) 3 1000)
    [.send (List.replicate 2000 5), .flushA]) := by decide

/-! ### data in both directions (stated, not proved)

`Model/Sys2.lean` adds a writer at B and a reader at A to the system.  The one-directional theorem does
NOT give the bidirectional one by symmetry, for three concrete reasons (each is a place where the
proof of `SysC.clean_step` uses "B never sends"):

1. **frame classes per link.**  `SysC.Clean.fab` / `fba` say: A→B carries only PUSH/WASK/WINS
   (`DataLike`, because `A.acklist = []`), B→A only ACK/WASK/WINS (`AckLike`).  With data both ways a
   datagram mixes them; the invariant needs one class `Mixed` per link: every PUSH is the next
   in-order one (`ord`, per direction), every ACK has `sn < una`, EVERY frame (PUSH included — `una`
   and `wnd` are piggybacked) carries a credit pair for `SysC.Win` and may serve as the covering frame
   of `Loc`'s third disjunct.
2. **one `Input` does both jobs.**  `clean_inA` assumes the datagram changes only the send side
   (`inFrs_ackLike`), `clean_inB` only the receive side with `snd_buf = []` (`inFrs_dataLike`,
   `inPre_empty`).  The merged step lemma must run `parse_una` on a non-empty contiguous buffer AND
   accept in-order PUSHes in the same fold, and the closing decision becomes three-way (FULL flush
   when `snd_una` advanced — it also empties the ack list early, which only shortens the latency —,
   ACK-only flush, nothing).  `flush_clean` must allow a non-empty ack list (`hack` is used only to
   say `ackFrsOf = []`).
3. **both readers, both timers.**  `quiet` must also wait for A's reader (`Sys2.step`), `Win` is needed
   in both directions, and the precondition becomes `2 D + interval_B < rx_minrto_A` and
   `2 D + interval_A < rx_minrto_B`.

No new protocol phenomenon appears (an ACK still arrives with `una > sn`, so `parse_ack` and
`parse_fastack` stay no-ops; the RTT sample is clamped as before); what is missing is the product
invariant `Clean p s … ∧ Clean p' (swap s) …` over `Mixed` links and the merged `Input` lemma. -/

open KcpVerif.Sys KcpVerif.SysC in
def C18_clean_path_bidir_full : Prop :=
  ∀ (A B : Kcp) (D t0 : Nat) (ndA ndB : Bool),
    CleanInit A B D → WinInit A B → CleanInit B A D → WinInit B A →
    ∀ evs : List Sys2.Ev,
      (Sys2.run { s := Sys.init A B D t0 ndA ndB } evs).s.panic = false ∧
      (∀ x ∈ (Sys2.run { s := Sys.init A B D t0 ndA ndB } evs).s.A.snd_buf, x.xmit ≤ 1) ∧
      (∀ x ∈ (Sys2.run { s := Sys.init A B D t0 ndA ndB } evs).s.B.snd_buf, x.xmit ≤ 1)

def c18Bidir : List Sys2.Ev :=
  [.base (.send [1, 2, 3]), .sendB [9, 8], .base .flushA, .base .flushB, .base .tick, .base .tick, .base .tick,
   .base .dlvB, .base .dlvA, .base .read, .readA] ++ List.replicate 7 (.base .tick) ++
  [.base .flushA, .base .flushB] ++ List.replicate 3 (.base .tick) ++ [.base .dlvB, .base .dlvA]

/- evidence (not proof): a run with data both ways, acknowledgements piggybacked on the scheduled
flushes; both segments are transmitted once, delivered and acknowledged -/
example : SysC.CleanInit c18A c18A 3 ∧ SysC.WinInit c18A c18A := by decide
set_option maxRecDepth 100000 in
example : ((Sys2.run { s := Sys.init c18A c18A 3 1000 } (c18Bidir.take 20)).s.A.snd_buf.map (fun x => x.xmit)) = [1] ∧
    ((Sys2.run { s := Sys.init c18A c18A 3 1000 } (c18Bidir.take 20)).s.B.snd_buf.map (fun x => x.xmit)) = [1] := by
  decide
set_option maxRecDepth 100000 in
example : (Sys2.run { s := Sys.init c18A c18A 3 1000 } c18Bidir).s.got = [1, 2, 3] ∧
    (Sys2.run { s := Sys.init c18A c18A 3 1000 } c18Bidir).gotA = [9, 8] ∧
    (Sys2.run { s := Sys.init c18A c18A 3 1000 } c18Bidir).s.A.snd_buf = [] ∧
    (Sys2.run { s := Sys.init c18A c18A 3 1000 } c18Bidir).s.B.snd_buf = [] := by decide

end KcpVerif.Props
