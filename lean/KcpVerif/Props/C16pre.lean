/-
C16 (continued) — the phase BEFORE the sample ring is flushed, and the convergence count over whole
histories.  Closes the gap left by Props/C16conv.lean.

Vocabulary (Lemmas/C16PreScan, Lemmas/C16PreDec):
`Genuine d p x`     the sample's bit is the type of its id under the sender's ratio d/p (and the id
                    is not 2^32 − 1): every sample one d/p sender can cause, whatever the network
                    does to its packets.
`GenuineRing d p t` well-formed ring whose window holds genuine samples only.
`GenuinePkt d p q`  a packet of the d/p sender (any id).
`PreInv d p dec`    decoder with a `GenuineRing d p` and a consistent configuration.

Proved:
* `C16_pre_findPeriod_genuine`  on EVERY ring reachable by feeding genuine samples of one d/p sender in any order
                                 (gaps, duplicates, reordering, ids on both sides of a wrap, stale ids)
                                 `FindPeriod(true) ∈ {−1, d}` and `FindPeriod(false) ∈ {−1, p}`.
* `C16_pre_period_any_order`    the scan on ANY list of genuine samples (no order assumed — any permutation a sort may
                                 produce) returns −1 or the true width.
* `C16_pre_ring_reachable`      the class is exactly what feeding reaches: a ring fed genuine samples is a
                                 `GenuineRing`, and every list of ≤ 258 genuine samples is the window of one.
* `C16_pre_adopts_only_sender`  in every decoder state reachable from `newFECDecoder(d0, p0)` through genuine
                                 packets of one d/p sender (any loss/duplication/reordering), a `decode` of a
                                 further genuine packet leaves the ratio unchanged or sets it to exactly
                                 (d, p): no wrong ratio is ever adopted, flushed ring or not.
* `C16_converges_below_paws`    from ANY such state, after `258 + 2(d+p)` in-order genuine packets with ids
                                 below the decoder's `paws'` (the D9 exclusion; `d + p < 256`) — and after any
                                 number of further packets of the run — the decoder's ratio is (d, p) and
                                 `shouldTune` is clear.  Sharper count actually established:
                                 `max 257 (2(d+p)) + (d+p)` (`C16_pre_converges_sharp`).
* `C16_converges_reachable`     the same for `feedPackets (newFECDecoder d0 p0) history`, with the D9 exclusion
                                 stated on ids alone: run ids `≤ 2^32 − 257` are below every possible `paws'`.
* `C16_converges_full_below_paws` the conclusion of `C16_converges_full` under its hypotheses plus `PreInv` and
                                 `ids < paws'`.
* `C16_converges_full_false`    `¬ C16_converges_full`: D9 on the model, on a REACHABLE state (new 100/100 decoder, one stale
                                 genuine packet of a 1/1 sender, then its run of 262 packets into `[paws', 2^32)`).
Refuted (model level; replayed on the real decoder, see notes/C16.md):
* `C16_mixed_window_hybrid`,    if the ring holds genuine samples of TWO sender ratios (3/1 ids 0–3, then 2/2 ids
  `C16_mixed_window_adopts_hybrid` 4 …, all in order) the tuning branch adopts 2/1 — a ratio neither sender used — and
                                 keeps re-adopting it until the four stale samples leave the ring.
                                 `GenuineRing` for a single ratio is therefore necessary.
-/
import KcpVerif.Lemmas.C16PreDec
import KcpVerif.Lemmas.C16PreD9

namespace KcpVerif.Props
open KcpVerif.Gen KcpVerif.AutoTune KcpVerif.Fec KcpVerif.Lemmas.AutoTune KcpVerif.Lemmas.C16Pre

/-! ## the detector and the ring class -/

/-- On every ring whose window holds only genuine samples of one d/p sender — in any arrival order,
    with gaps, duplicates, stale ids, ids on both sides of a wrap — the detector returns −1 or the
    sender's true widths. -/
theorem C16_pre_findPeriod_genuine {d p : Nat} {t : Tune} (hd : 0 < d) (hp : 0 < p)
    (h : GenuineRing d p t) :
    (t.findPeriod true = -1 ∨ t.findPeriod true = (d : Int)) ∧
    (t.findPeriod false = -1 ∨ t.findPeriod false = (p : Int)) :=
  findPeriod_genuineRing hd hp h

/-- The scan itself, on ANY list of genuine samples — no assumption on its order: whatever
    permutation of the window the sort produces (Go `sort.Slice` and `List.mergeSort` may differ when
    stale ids are more than 2^31 apart and the comparator is not a total order), the result is −1
    or the sender's true width. -/
theorem C16_pre_period_any_order {d p : Nat} (hd : 0 < d) (hp : 0 < p) (bit : Bool) (w : List Pulse)
    (h : ∀ x ∈ w, Genuine d p x) :
    periodOfSorted bit w = -1 ∨ periodOfSorted bit w = ((if bit then d else p : Nat) : Int) :=
  period_genuine hd hp bit w h

/-- The class `GenuineRing d p` is what feeding genuine samples reaches: (1) it contains the zero
    ring and is closed under `Sample` of a genuine sample, hence contains `feed t l` for genuine
    `l`; (2) conversely every list of at most 258 genuine samples is the window of such a ring. -/
theorem C16_pre_ring_reachable (d p : Nat) :
    GenuineRing d p Tune.init ∧
    (∀ (t : Tune) (l : List Pulse), GenuineRing d p t → (∀ x ∈ l, Genuine d p x) →
      GenuineRing d p (feed t l)) ∧
    (∀ l : List Pulse, l.length ≤ maxAutoTuneSamples → (feed Tune.init l).window = l) := by
  refine ⟨genuineRing_init d p, fun t l h hl => genuineRing_feed l h hl, ?_⟩
  intro l hl
  obtain ⟨_, hw⟩ := C16_aux_feed_window_gen wf_init l
  rw [hw]
  have e : Tune.init.count + l.length - maxAutoTuneSamples = 0 := by
    have : Tune.init.count = 0 := rfl
    omega
  rw [e, List.drop_zero]
  rfl

/-- No wrong adoption, ever: in a state reachable under one d/p sender, `decode` of one more
    genuine packet (any id) either keeps the decoder's ratio or makes it exactly (d, p). -/
theorem C16_pre_adopts_only_sender (C : CodecNew) (dec : Decoder) (q : Bytes) {d p : Nat}
    (hd : 0 < d) (hp : 0 < p) (hinv : PreInv d p dec) (hq : GenuinePkt d p q) :
    ((dec.decode C q).st.d = dec.d ∧ (dec.decode C q).st.p = dec.p) ∨
    ((dec.decode C q).st.d = d ∧ (dec.decode C q).st.p = p ∧ (dec.decode C q).st.shouldTune = false) := by
  have hring : GenuineRing d p (dec.tune.sample (flag q == typeData) (seqid q)) :=
    genuineRing_sample hinv.ring _ _ (genuinePkt_sample hq)
  have hinv1 : PreInv d p { dec with tune := dec.tune.sample (flag q == typeData) (seqid q) } :=
    ⟨hring, hinv.n_eq, hinv.d_pos, hinv.p_pos, hinv.paws_eq, hinv.n_le⟩
  unfold Decoder.decode
  split
  · exact Or.inl ⟨rfl, rfl⟩
  · dsimp only
    split
    · exact Or.inl ⟨rfl, rfl⟩
    · split
      · rcases retune_genuine C _ (seqid q) hd hp hinv1 with h | ⟨h1, h2, h3, _, _⟩
        · rw [h]; exact Or.inl ⟨rfl, rfl⟩
        · exact Or.inr ⟨h1, h2, h3⟩
      · split <;> exact Or.inl ⟨rfl, rfl⟩

/-! ## counting over whole histories -/

/-- the decoder has the sender's ratio and is not tuning -/
def C16_pre_Good (d p : Nat) (st : Decoder) : Prop :=
  st.d = d ∧ st.p = p ∧ st.shouldTune = false

/-- the tuning branch on a ring that is genuine: adoption of (d, p), or nothing but `shouldTune` -/
theorem C16_pre_aux_retune_step (C : CodecNew) (st : Decoder) (seq : BitVec 32) (t' : Tune)
    {d p : Nat} (hd : 0 < d) (hp : 0 < p) (hinv : PreInv d p { st with tune := t' }) :
    C16_pre_Good d p (retune C { st with tune := t' } seq) ∨
    ((retune C { st with tune := t' } seq).shouldTune = true ∧
      (retune C { st with tune := t' } seq).d = st.d ∧ (retune C { st with tune := t' } seq).p = st.p ∧
      (retune C { st with tune := t' } seq).n = st.n ∧
      (retune C { st with tune := t' } seq).paws = st.paws ∧
      (retune C { st with tune := t' } seq).tune = t') := by
  rcases retune_genuine C { st with tune := t' } seq hd hp hinv with h | ⟨h1, h2, h3, _, _⟩
  · right; rw [h]; exact ⟨rfl, rfl, rfl, rfl, rfl, rfl⟩
  · exact Or.inl ⟨h1, h2, h3⟩

/-- The induction over the run, from its first packet: after `j` in-order packets below `paws'`
    either the sender's ratio has been adopted at some point, or the configuration is still the
    old one, the ring is the old ring plus the `j` samples, and the decoder is tuning — or it is
    not, and every id so far is labelled alike by both ratios. -/
theorem C16_pre_aux_prefix (C : CodecNew) (dec : Decoder) {d p s : Nat} (pkts : List Bytes)
    (hd : 0 < d) (hp : 0 < p) (hinv : PreInv d p dec)
    (hpk : ∀ i (h : i < pkts.length), RunPkt d p s i pkts[i]) :
    ∀ j, j ≤ pkts.length → s + j ≤ dec.paws.toNat →
      (∃ k ≤ j, C16_pre_Good d p (feedPackets C dec (pkts.take k))) ∨
      ((feedPackets C dec (pkts.take j)).d = dec.d ∧ (feedPackets C dec (pkts.take j)).p = dec.p ∧
        (feedPackets C dec (pkts.take j)).n = dec.n ∧
        (feedPackets C dec (pkts.take j)).paws = dec.paws ∧
        (feedPackets C dec (pkts.take j)).tune = feed dec.tune (run d p s j) ∧
        ((feedPackets C dec (pkts.take j)).shouldTune = true ∨
          ((feedPackets C dec (pkts.take j)).shouldTune = false ∧
            ∀ i, i < j → label d p (s + i) = label dec.d dec.p (s + i)))) := by
  intro j
  induction j with
  | zero =>
    intro _ _
    right
    refine ⟨rfl, rfl, rfl, rfl, rfl, ?_⟩
    cases ht : dec.shouldTune with
    | true => exact Or.inl ht
    | false => exact Or.inr ⟨ht, fun i hi => absurd hi (Nat.not_lt_zero i)⟩
  | succ j ih =>
    intro hj hpaws
    have hlt := dec.paws.isLt
    rcases ih (by omega) (by omega) with ⟨k, hk, h⟩ | ⟨i2, i3, i4, i5, i6, i7⟩
    · exact Or.inl ⟨k, by omega, h⟩
    · have hjl : j < pkts.length := by omega
      have hq := hpk j hjl
      have hst := C16_conv_aux_take_succ C dec pkts j hjl
      have hseq : (seqid pkts[j]).toNat = s + j := by
        rw [hq.2.1, BitVec.toNat_ofNat, Nat.mod_eq_of_lt (by omega)]
      have hsmp : (feedPackets C dec (pkts.take j)).tune.sample (flag pkts[j] == typeData)
          (seqid pkts[j]) = feed dec.tune (run d p s (j + 1)) := by
        rw [C16_conv_aux_runpkt_bit hq, hq.2.1, i6, run_succ_right, feed_append]; rfl
      have hinv' : PreInv d p { feedPackets C dec (pkts.take j) with
          tune := feed dec.tune (run d p s (j + 1)) } :=
        ⟨genuineRing_feed _ hinv.ring (genuine_run (by omega)), by
          show (feedPackets C dec (pkts.take j)).n =
            (feedPackets C dec (pkts.take j)).d + (feedPackets C dec (pkts.take j)).p
          rw [i4, i2, i3]; exact hinv.n_eq,
          by show 0 < (feedPackets C dec (pkts.take j)).d; rw [i2]; exact hinv.d_pos,
          by show 0 < (feedPackets C dec (pkts.take j)).p; rw [i3]; exact hinv.p_pos,
          by show (feedPackets C dec (pkts.take j)).paws = pawsOf (feedPackets C dec (pkts.take j)).n
             rw [i5, i4]; exact hinv.paws_eq,
          by show (feedPackets C dec (pkts.take j)).n ≤ 256; rw [i4]; exact hinv.n_le⟩
      -- both ways into the tuning branch end in the same `retune`
      have hfin : (feedPackets C dec (pkts.take (j + 1))) =
            retune C { feedPackets C dec (pkts.take j) with
              tune := feed dec.tune (run d p s (j + 1)) } (seqid pkts[j]) →
          (∃ k ≤ j + 1, C16_pre_Good d p (feedPackets C dec (pkts.take k))) ∨
          ((feedPackets C dec (pkts.take (j + 1))).d = dec.d ∧
            (feedPackets C dec (pkts.take (j + 1))).p = dec.p ∧
            (feedPackets C dec (pkts.take (j + 1))).n = dec.n ∧
            (feedPackets C dec (pkts.take (j + 1))).paws = dec.paws ∧
            (feedPackets C dec (pkts.take (j + 1))).tune = feed dec.tune (run d p s (j + 1)) ∧
            ((feedPackets C dec (pkts.take (j + 1))).shouldTune = true ∨
              ((feedPackets C dec (pkts.take (j + 1))).shouldTune = false ∧
                ∀ i, i < j + 1 → label d p (s + i) = label dec.d dec.p (s + i)))) := by
        intro he
        rcases C16_pre_aux_retune_step C (feedPackets C dec (pkts.take j)) (seqid pkts[j])
            (feed dec.tune (run d p s (j + 1))) hd hp hinv' with h | ⟨h1, h2, h3, h4, h5, h6⟩
        · left
          exact ⟨j + 1, Nat.le_refl _, by rw [he]; exact h⟩
        · right
          rw [he]
          exact ⟨h2.trans i2, h3.trans i3, h4.trans i4, h5.trans i5, h6, Or.inl h1⟩
      rcases i7 with i1 | ⟨i1, i8⟩
      · -- already tuning
        have hent := C16_conv_aux_tuning_enters C (feedPackets C dec (pkts.take j)) pkts[j] hq.1
          (by rw [hseq, i5]; omega) i1
        rw [hsmp] at hent
        exact hfin (hst.trans hent)
      · have htm := C16_conv_aux_typeMatches_iff (dec := feedPackets C dec (pkts.take j)) hq
          (by omega) (by rw [i4, i2, i3]; exact hinv.n_eq)
        rw [i2, i3] at htm
        by_cases hlab : label dec.d dec.p (s + j) = label d p (s + j)
        · -- the packet does not contradict the old ratio: nothing changes
          right
          obtain ⟨e1, e2, e3, e4, e5⟩ :=
            C16_stable_step C (feedPackets C dec (pkts.take j)) pkts[j] i1 (htm.mpr hlab)
          rw [hst]
          refine ⟨e1.trans i2, e2.trans i3, e3.trans i4, e4.trans i5, ?_, Or.inr ⟨e5.trans i1, ?_⟩⟩
          · rw [C16_conv_aux_tune_step C _ _ hq.1, hsmp]
          · intro i hi
            rcases Nat.lt_or_ge i j with h | h
            · exact i8 i h
            · have : i = j := by omega
              rw [this]; exact hlab.symm
        · -- the packet contradicts the old ratio: tuning branch
          have hflag : flag pkts[j] = typeData ∨ flag pkts[j] = typeParity := by
            rw [hq.2.2]; cases label d p (s + j)
            · exact Or.inr (by simp only [Bool.false_eq_true, if_false])
            · exact Or.inl (by simp only [if_true])
          have hent := (C16_mismatch_enters_tuning C (feedPackets C dec (pkts.take j)) pkts[j] hq.1
            (by rw [hseq, i5]; omega) hflag (fun h => hlab (htm.mp h))).2
          rw [hsmp] at hent
          exact hfin (hst.trans hent)

/-- The count actually established: from any state reachable under one d/p sender, after
    `max 257 (2(d+p)) + (d+p)` in-order packets below `paws'` the sender's ratio has been adopted
    (`2(d+p)` packets until one contradicts the old ratio — during which, and after which, nothing
    but (d, p) can be adopted —, 257 until the next sample flushes the ring, `d + p` more until both
    complete pulses lie in the window). -/
theorem C16_pre_converges_sharp (C : CodecNew) (dec : Decoder) {d p s : Nat} (pkts : List Bytes)
    (hd : 0 < d) (hp : 0 < p) (hn : d + p < 256) (hinv : PreInv d p dec)
    (hpk : ∀ i (h : i < pkts.length), RunPkt d p s i pkts[i])
    (hlen : max (maxAutoTuneSamples - 1) (2 * (d + p)) + (d + p) ≤ pkts.length)
    (hpaws : s + (max (maxAutoTuneSamples - 1) (2 * (d + p)) + (d + p)) ≤ dec.paws.toNat) :
    ∃ k ≤ max (maxAutoTuneSamples - 1) (2 * (d + p)) + (d + p),
      C16_pre_Good d p (feedPackets C dec (pkts.take k)) := by
  have hM : maxAutoTuneSamples = 258 := by decide
  generalize hJ : max (maxAutoTuneSamples - 1) (2 * (d + p)) = J at hlen hpaws ⊢
  have hJ1 : maxAutoTuneSamples ≤ J + 1 := by omega
  have hJ2 : 2 * (d + p) ≤ J := by omega
  rcases C16_pre_aux_prefix C dec pkts hd hp hinv hpk J (by omega) (by omega) with
    ⟨k, hk, h⟩ | ⟨i2, i3, i4, i5, i6, i7⟩
  · exact ⟨k, by omega, h⟩
  · rcases i7 with i1 | ⟨i1, i8⟩
    · -- tuning on a ring that the next sample flushes: `C16_conv_when_tuning`
      obtain ⟨k, hk, hk'⟩ := C16_conv_when_tuning C (feedPackets C dec (pkts.take J))
        (d := d) (p := p) (s := s) (L := J) (t0 := dec.tune) (pkts.drop J) hd hp hn i1 hinv.ring.1 hJ1 i6
        (by rw [List.length_drop]; omega)
        (by
          intro i hi
          rw [List.getElem_drop]
          exact hpk _ _)
        (by rw [i5]; omega)
      refine ⟨J + k, by omega, ?_⟩
      rw [C16_conv_aux_take_add]
      exact hk'
    · by_cases heq : (dec.d, dec.p) = (d, p)
      · simp only [Prod.mk.injEq] at heq
        exact ⟨J, by omega, i2.trans heq.1, i3.trans heq.2, i1⟩
      · exfalso
        obtain ⟨k, hk1, hk2, hk3⟩ := C16_mismatch_detected hd hp hinv.d_pos hinv.p_pos heq s
        apply hk3
        have := i8 (k - s) (by omega)
        rw [show s + (k - s) = k by omega] at this
        exact this

/-- once adopted, the ratio stays for the rest of the run (`C16_stable` on run packets) -/
theorem C16_pre_aux_stays (C : CodecNew) (st0 : Decoder) {d p s k0 : Nat} (l : List Bytes)
    (hn : st0.n = st0.d + st0.p) (hg : C16_pre_Good d p st0)
    (hl : ∀ i (h : i < l.length), RunPkt d p s (k0 + i) l[i]) (h32 : s + k0 + l.length ≤ 2 ^ 32) :
    C16_pre_Good d p (feedPackets C st0 l) := by
  obtain ⟨g1, g2, g3⟩ := hg
  have hm : ∀ q ∈ l, (posOf st0.n q < st0.d ∧ flag q = typeData) ∨
      (¬ posOf st0.n q < st0.d ∧ flag q = typeParity) := by
    intro q hq
    obtain ⟨i, hi, rfl⟩ := List.getElem_of_mem hq
    have := (C16_conv_aux_typeMatches_iff (dec := st0) (hl i hi) (by omega) hn).mpr (by rw [g1, g2])
    exact this
  obtain ⟨e1, e2, _, _, e5⟩ := C16_stable C st0 l g3 hm
  exact ⟨e1.trans g1, e2.trans g2, e5.trans g3⟩

/-- **C16 `converges`, with the D9 exclusion explicit.**  From ANY decoder state reachable under
    one d/p sender (`PreInv d p dec`: new decoder with any configured ratio, then any genuine
    packets of that sender, lost / duplicated / reordered in any way), after an uninterrupted
    in-order run of `258 + 2(d+p)` genuine packets whose ids are below the decoder's `paws'`
    (D9: ids in `[paws', paws)` are dropped before the tuning code), `d + p < 256`:
    the decoder's ratio is (d, p) and `shouldTune` is clear — and this remains so after every
    further packet of the run (which may then cross the wrap zone). -/
theorem C16_converges_below_paws (C : CodecNew) (dec : Decoder) {d p s : Nat} (pkts : List Bytes)
    (hd : 0 < d) (hp : 0 < p) (hn : d + p < 256) (hinv : PreInv d p dec)
    (hpk : ∀ i (h : i < pkts.length), RunPkt d p s i pkts[i])
    (h32 : s + pkts.length ≤ 2 ^ 32)
    (hpaws : s + (maxAutoTuneSamples + 2 * (d + p)) ≤ dec.paws.toNat) :
    ∀ k, maxAutoTuneSamples + 2 * (d + p) ≤ k → k ≤ pkts.length →
      (feedPackets C dec (pkts.take k)).d = d ∧ (feedPackets C dec (pkts.take k)).p = p ∧
      (feedPackets C dec (pkts.take k)).shouldTune = false := by
  intro k hk1 hk2
  have hM : maxAutoTuneSamples = 258 := by decide
  have hlt := dec.paws.isLt
  obtain ⟨k0, hk0, hg⟩ := C16_pre_converges_sharp C dec pkts hd hp hn hinv hpk (by omega) (by omega)
  have hk0k : k0 ≤ k := by omega
  -- the invariant still holds at `k0` (gives `n = d + p` there)
  have hinv0 : PreInv d p (feedPackets C dec (pkts.take k0)) := by
    apply preInv_feedPackets C hd hp (by omega) _ dec hinv
    intro q hq
    obtain ⟨i, hi, rfl⟩ := List.getElem_of_mem hq
    rw [List.length_take] at hi
    rw [List.getElem_take]
    exact genuinePkt_of_runPkt (hpk i (by omega)) (by omega)
  have := C16_pre_aux_stays C (feedPackets C dec (pkts.take k0)) (d := d) (p := p) (s := s) (k0 := k0)
    ((pkts.drop k0).take (k - k0)) hinv0.n_eq hg
    (by
      intro i hi
      rw [List.getElem_take, List.getElem_drop]
      exact hpk _ _)
    (by rw [List.length_take, List.length_drop]; omega)
  rw [← C16_conv_aux_take_add, show k0 + (k - k0) = k by omega] at this
  exact this

/-- the same for the states reachable from a NEW decoder, with the D9 exclusion on ids alone: the
    first `258 + 2(d+p)` run ids are `≤ 2^32 − 257`, which is below `paws'` for every ratio the
    decoder can have (`preInv_paws_ge`). -/
theorem C16_converges_reachable (C : CodecNew) {d p d0 p0 s : Nat} {dec0 : Decoder}
    (hist pkts : List Bytes) (hd : 0 < d) (hp : 0 < p) (hn : d + p < 256)
    (h0 : Decoder.new C d0 p0 = some dec0) (hh : ∀ q ∈ hist, GenuinePkt d p q)
    (hpk : ∀ i (h : i < pkts.length), RunPkt d p s i pkts[i])
    (h32 : s + pkts.length ≤ 2 ^ 32)
    (hpaws : s + (maxAutoTuneSamples + 2 * (d + p)) ≤ 2 ^ 32 - 256) :
    ∀ k, maxAutoTuneSamples + 2 * (d + p) ≤ k → k ≤ pkts.length →
      (feedPackets C (feedPackets C dec0 hist) (pkts.take k)).d = d ∧
      (feedPackets C (feedPackets C dec0 hist) (pkts.take k)).p = p ∧
      (feedPackets C (feedPackets C dec0 hist) (pkts.take k)).shouldTune = false := by
  have hinv := preInv_reachable C hd hp (by omega) h0 hist hh
  have := preInv_paws_ge hinv
  exact C16_converges_below_paws C _ pkts hd hp hn hinv hpk h32 (by omega)

/-- `C16_converges_full` restricted to reachable states and to runs below `paws'`: the hypotheses of
    `C16_converges_full` plus these two give its conclusion (`C16_converges_full` itself quantifies
    over arbitrary decoder records and over runs inside `[paws', 2^32)`, where it is false: D9). -/
theorem C16_converges_full_below_paws (C : CodecNew) (dec : Decoder) (d p : Nat) (pkts : List Bytes)
    (s : Nat) (hinv : PreInv d p dec) (hpaws : s + pkts.length ≤ dec.paws.toNat)
    (hd : 0 < d) (hp : 0 < p) (hn : d + p ≤ 255) (h32 : s + pkts.length ≤ 2 ^ 32)
    (hlen : pkts.length = maxAutoTuneSamples + 2 * (d + p))
    (hpk : ∀ i (h : i < pkts.length), fecHeaderSize ≤ pkts[i].length ∧
        seqid pkts[i] = BitVec.ofNat 32 (s + i) ∧
        flag pkts[i] = (if label d p (s + i) then typeData else typeParity)) :
    ∃ k ≤ pkts.length, (feedPackets C dec (pkts.take k)).d = d ∧
      (feedPackets C dec (pkts.take k)).p = p ∧ (feedPackets C dec (pkts.take k)).shouldTune = false :=
  ⟨pkts.length, Nat.le_refl _,
    C16_converges_below_paws C dec pkts hd hp (by omega) hinv hpk h32 (by omega) pkts.length
      (by omega) (Nat.le_refl _)⟩

/-! ## two sender ratios in one window: a ratio nobody used is adopted

`PreInv`/`GenuineRing` speak of ONE sender ratio.  That is what a session can see (a `fecEncoder`
keeps its ratio for life), and it is necessary: -/

/-- in-order samples of a 3/1 sender (ids 0–3: D D D P) followed by `m` in-order samples of a 2/2
    sender (ids 4 …: D D P P D D P P …) -/
def C16_pre_mixed (m : Nat) : List Pulse := run 3 1 0 4 ++ run 2 2 4 m

theorem C16_pre_aux_mixed_sorted (m : Nat) (hm : 4 + m ≤ maxAutoTuneSamples) :
    (C16_pre_mixed m).Pairwise (fun a b => pulseLe a b = true) := by
  have hM : maxAutoTuneSamples = 258 := by decide
  rw [C16_pre_mixed, List.pairwise_append]
  refine ⟨pairwise_run (by decide) (by decide), pairwise_run (by omega) (by omega), ?_⟩
  intro a ha b hb
  obtain ⟨j, hj, rfl⟩ := mem_run ha
  obtain ⟨i, hi, rfl⟩ := mem_run hb
  have := pulseLe_of_close (0 + j) (4 + i - j) (by omega) (by omega) (label 3 1 (0 + j))
    (label 2 2 (4 + i))
  rw [show 0 + j + (4 + i - j) = 4 + i by omega] at this
  exact this

/-- the scan only looks at the first seven entries: P→D edge at id 4, D→P edge at id 6 (width 2,
    from the 2/2 sender); D→P edge at id 3, P→D edge at id 4 (width 1, from the 3/1 sender) -/
theorem C16_pre_aux_mixed_period (m : Nat) (hm : 3 ≤ m) :
    periodOfSorted true (C16_pre_mixed m) = 2 ∧ periodOfSorted false (C16_pre_mixed m) = 1 := by
  obtain ⟨m, rfl⟩ : ∃ k, m = k + 3 := ⟨m - 3, by omega⟩
  simp only [C16_pre_mixed, run]
  generalize run 2 2 (4 + 1 + 1 + 1) m = tail
  exact ⟨rfl, rfl⟩

/-- **A window with samples of two sender ratios yields a hybrid.**  A ring fed the genuine in-order
    samples of a 3/1 sender (ids 0–3) and then `m ≥ 3` genuine in-order samples of a 2/2 sender
    (ids 4 …) reports data width 2 and parity width 1 — for EVERY `m` until the four stale samples
    leave the ring (`4 + m ≤ 258`). -/
theorem C16_mixed_window_hybrid (m : Nat) (hm : 3 ≤ m) (hM : 4 + m ≤ maxAutoTuneSamples) :
    (∀ x ∈ C16_pre_mixed m, Genuine 3 1 x ∨ Genuine 2 2 x) ∧
    (feed Tune.init (C16_pre_mixed m)).findPeriod true = 2 ∧
    (feed Tune.init (C16_pre_mixed m)).findPeriod false = 1 := by
  have h258 : maxAutoTuneSamples = 258 := by decide
  have hlen : (C16_pre_mixed m).length = 4 + m := by
    simp only [C16_pre_mixed, List.length_append, length_run]
  have hw : (feed Tune.init (C16_pre_mixed m)).window = C16_pre_mixed m :=
    (C16_pre_ring_reachable 3 1).2.2 _ (by omega)
  have hc : (feed Tune.init (C16_pre_mixed m)).count = 4 + m := by
    rw [← C16_aux_window_length, hw, hlen]
  have hs := C16_pre_aux_mixed_sorted m hM
  obtain ⟨e1, e2⟩ := C16_pre_aux_mixed_period m hm
  refine ⟨?_, ?_, ?_⟩
  · intro x hx
    rcases List.mem_append.mp hx with h | h
    · exact Or.inl (genuine_run (by decide) x h)
    · exact Or.inr (genuine_run (by omega) x h)
  · simp only [Tune.findPeriod, if_neg (show ¬ (feed Tune.init (C16_pre_mixed m)).count < 3 by omega),
      hw, sortPulses, List.mergeSort_of_pairwise hs, e1]
  · simp only [Tune.findPeriod, if_neg (show ¬ (feed Tune.init (C16_pre_mixed m)).count < 3 by omega),
      hw, sortPulses, List.mergeSort_of_pairwise hs, e2]

/-- hence ANY decoder that reaches the tuning branch on such a ring ends with ratio 2/1 and
    `shouldTune` cleared — a ratio neither sender used; and a decoder that already has 2/1 clears
    `shouldTune` again at every contradicting packet, i.e. keeps decoding under 2/1 until the stale
    samples are flushed.  (Replayed on the real `fecDecoder`: notes/C16.md.) -/
theorem C16_mixed_window_adopts_hybrid (C : CodecNew) (dec : Decoder) (seq : BitVec 32) (m : Nat)
    (hm : 3 ≤ m) (hM : 4 + m ≤ maxAutoTuneSamples)
    (ht : dec.tune = feed Tune.init (C16_pre_mixed m)) :
    (retune C dec seq).d = 2 ∧ (retune C dec seq).p = 1 ∧ (retune C dec seq).shouldTune = false := by
  obtain ⟨_, e1, e2⟩ := C16_mixed_window_hybrid m hm hM
  unfold retune
  dsimp only
  rw [ht, e1, e2, if_pos (by decide)]
  split
  · exact ⟨rfl, rfl, rfl⟩
  · rename_i h'
    refine ⟨?_, ?_, rfl⟩ <;> dsimp only <;> omega

/-! ## non-vacuity: a 10/3 decoder, a 4/2 sender -/

/-- packet of a d/p sender with id `k`: FEC header and a 2-byte size field -/
def C16_pre_mkPkt (d p k : Nat) : Bytes :=
  le32 (BitVec.ofNat 32 k) ++ le16 (if label d p k then typeData else typeParity) ++ [2, 0]

/-- `newFECDecoder(10, 3)` -/
def C16_pre_exDec0 : Decoder :=
  { d := 10, p := 3, n := 13, paws := pawsOf 13, newest := 0, shouldTune := false,
    tune := Tune.init, sets := [], codec := rsNew 10 3 }

/-- what reached the receiver before the run: lossy, reordered, duplicated, one very stale id -/
def C16_pre_exHist : List Bytes :=
  [5, 3, 3, 17, 9, 4000000000, 12, 11, 950, 13].map (C16_pre_mkPkt 4 2)

/-- then 290 packets in order from id 1000 -/
def C16_pre_exRun : List Bytes := (List.range 290).map fun i => C16_pre_mkPkt 4 2 (1000 + i)

theorem C16_pre_aux_exDec0 : Decoder.new rsNew 10 3 = some C16_pre_exDec0 := rfl

theorem C16_pre_aux_exHist : ∀ q ∈ C16_pre_exHist, GenuinePkt 4 2 q := by
  unfold GenuinePkt; decide +kernel

theorem C16_pre_aux_exRun : ∀ i (h : i < C16_pre_exRun.length), RunPkt 4 2 1000 i C16_pre_exRun[i] := by
  unfold RunPkt; decide +kernel

theorem C16_pre_aux_exRun_length : C16_pre_exRun.length = 290 := by
  simp only [C16_pre_exRun, List.length_map, List.length_range]

-- the state before the run is in the class, whatever the tuning branch did with the history
example : PreInv 4 2 (feedPackets rsNew C16_pre_exDec0 C16_pre_exHist) :=
  preInv_reachable rsNew (by decide) (by decide) (by decide) C16_pre_aux_exDec0 _ C16_pre_aux_exHist

-- 10/3 → 4/2: after 258 + 2·6 = 270 packets of the run, and after each of the remaining 20,
-- the decoder has ratio 4/2 and is not tuning
example : ∀ k, 270 ≤ k → k ≤ 290 →
    (feedPackets rsNew (feedPackets rsNew C16_pre_exDec0 C16_pre_exHist) (C16_pre_exRun.take k)).d = 4 ∧
    (feedPackets rsNew (feedPackets rsNew C16_pre_exDec0 C16_pre_exHist) (C16_pre_exRun.take k)).p = 2 ∧
    (feedPackets rsNew (feedPackets rsNew C16_pre_exDec0 C16_pre_exHist) (C16_pre_exRun.take k)).shouldTune
      = false := by
  intro k h1 h2
  have hM : maxAutoTuneSamples = 258 := by decide
  have hl := C16_pre_aux_exRun_length
  exact C16_converges_reachable rsNew (d := 4) (p := 2) (d0 := 10) (p0 := 3) (s := 1000) C16_pre_exHist
    C16_pre_exRun (by decide) (by decide) (by decide) C16_pre_aux_exDec0 C16_pre_aux_exHist
    C16_pre_aux_exRun (by omega) (by omega) k (by omega) (by omega)

-- the sharp count for this pair is max 257 12 + 6 = 263
example : ∃ k ≤ 263, C16_pre_Good 4 2
    (feedPackets rsNew (feedPackets rsNew C16_pre_exDec0 C16_pre_exHist) (C16_pre_exRun.take k)) := by
  have hinv := preInv_reachable rsNew (d := 4) (p := 2) (by decide) (by decide) (by decide)
    C16_pre_aux_exDec0 _ C16_pre_aux_exHist
  have hp := preInv_paws_ge hinv
  exact C16_pre_converges_sharp rsNew _ (s := 1000) C16_pre_exRun (by decide) (by decide) (by decide)
    hinv C16_pre_aux_exRun (by
      have := C16_pre_aux_exRun_length
      have : max (maxAutoTuneSamples - 1) (2 * (4 + 2)) + (4 + 2) = 263 := by decide
      omega) (by
      have : max (maxAutoTuneSamples - 1) (2 * (4 + 2)) + (4 + 2) = 263 := by decide
      omega)

-- the hybrid, smallest instance: seven samples
example : (feed Tune.init (C16_pre_mixed 3)).findPeriod true = 2 ∧
    (feed Tune.init (C16_pre_mixed 3)).findPeriod false = 1 :=
  (C16_mixed_window_hybrid 3 (by decide) (by decide)).2

/-! ## `C16_converges_full` is false on a reachable state (D9 on the model) -/

/-- `newFECDecoder(100, 100)`: `paws' = 4294967200` -/
def C16_pre_d9Dec0 : Decoder :=
  { d := 100, p := 100, n := 200, paws := pawsOf 200, newest := 0, shouldTune := false,
    tune := Tune.init, sets := [], codec := rsNew 100 100 }

/-- one genuine packet of the 1/1 sender, 1000 ids before the run -/
def C16_pre_d9Stale : Bytes := C16_pre_mkPkt 1 1 4294966032

/-- the decoder after that packet -/
def C16_pre_d9Dec : Decoder := (C16_pre_d9Dec0.decode rsNew C16_pre_d9Stale).st

/-- 262 = 258 + 2·(1+1) genuine in-order packets of the 1/1 sender, ids 4294967032 … 4294967293
    (all below the sender's own wrap point 4294967294) -/
def C16_pre_d9Run : List Bytes := (List.range 262).map fun i => C16_pre_mkPkt 1 1 (4294967032 + i)

theorem C16_pre_aux_d9Dec0 : Decoder.new rsNew 100 100 = some C16_pre_d9Dec0 := rfl

theorem C16_pre_aux_d9Stale : GenuinePkt 1 1 C16_pre_d9Stale ∧
    seqid C16_pre_d9Stale = BitVec.ofNat 32 4294966032 := by
  unfold GenuinePkt; decide +kernel

theorem C16_pre_aux_d9Run : ∀ i (h : i < C16_pre_d9Run.length),
    fecHeaderSize ≤ C16_pre_d9Run[i].length ∧
    seqid C16_pre_d9Run[i] = BitVec.ofNat 32 (4294967032 + i) ∧
    flag C16_pre_d9Run[i] = (if label 1 1 (4294967032 + i) then typeData else typeParity) := by
  decide +kernel

theorem C16_pre_aux_d9Run_length : C16_pre_d9Run.length = 262 := by
  simp only [C16_pre_d9Run, List.length_map, List.length_range]

/-- the witness state: ratio still 100/100, one stale sample in the ring -/
theorem C16_pre_aux_d9Dec :
    C16_pre_d9Dec.d = 100 ∧ C16_pre_d9Dec.paws = pawsOf 200 ∧
    C16_pre_d9Dec.tune = Tune.init.sample (flag C16_pre_d9Stale == typeData) (BitVec.ofNat 32 4294966032) := by
  have hk := decode_keep rsNew C16_pre_d9Dec0 C16_pre_d9Stale C16_pre_aux_d9Stale.1.1
    (Or.inr (by simp only [Tune.findPeriod]; rfl))
  refine ⟨hk.1, hk.2.2.2, ?_⟩
  rw [C16_pre_d9Dec, C16_conv_aux_tune_step rsNew _ _ C16_pre_aux_d9Stale.1.1, C16_pre_aux_d9Stale.2]
  rfl

/-- **`C16_converges_full` does not hold** — not even on reachable states: a new 100/100 decoder
    that has received ONE genuine packet of a 1/1 sender (id 4294966032) and then the sender's
    uninterrupted in-order run of 258 + 2·2 = 262 packets from id 4294967032 still has ratio
    100/100 after every one of them.  The stale sample blocks the detector for 257 packets; by then
    the run is inside `[paws', 2^32) = [4294967200, 2^32)`, where packets are dropped before the
    tuning code (D9).  Hence the hypothesis `ids < paws'` of `C16_converges_below_paws`. -/
theorem C16_converges_full_false : ¬ C16_converges_full := by
  intro hfull
  obtain ⟨e1, e2, e3⟩ := C16_pre_aux_d9Dec
  have hl := C16_pre_aux_d9Run_length
  have hwf : C16_pre_d9Dec.tune.WF := by rw [e3]; exact wf_sample _ _ wf_init
  obtain ⟨k, hk, hd, _, _⟩ := hfull rsNew C16_pre_d9Dec 1 1 C16_pre_d9Run 4294967032 hwf (by decide)
    (by decide) (by decide) (by rw [hl]; decide) (by rw [hl]; decide) C16_pre_aux_d9Run
  have hpaws : C16_pre_d9Dec.paws.toNat = 4294967200 := by rw [e2]; decide
  have := (stale_prefix rsNew C16_pre_d9Dec (d := 1) (p := 1) (s := 4294967032) (J := 4294966032)
    C16_pre_d9Run (by decide) (by decide) e3 C16_pre_aux_d9Run (by rw [hl]; decide)
    (by rw [hpaws]; decide) k hk).1
  rw [hd, e1] at this
  exact absurd this (by decide)

/-- the witness state is reachable under the 1/1 sender (it is in the class of
    `C16_converges_below_paws`); only `ids < paws'` fails -/
example : PreInv 1 1 C16_pre_d9Dec :=
  preInv_decode rsNew _ _ (by decide) (by decide) (by decide)
    (preInv_new rsNew 1 1 100 100 C16_pre_aux_d9Dec0) C16_pre_aux_d9Stale.1

end KcpVerif.Props
