import KcpVerif.Model.Cfb
/-! list-level facts used by the C08 proofs: `xorB`, `splice`, `iter` -/
namespace KcpVerif.Cfb

@[simp] theorem length_xorB (x y : Bytes) : (xorB x y).length = min x.length y.length := by
  simp [xorB]

theorem xorB_nil_left (y : Bytes) : xorB [] y = [] := by simp [xorB]

theorem xorB_cancel : ∀ (a k : Bytes), a.length ≤ k.length → xorB (xorB a k) k = a
  | [], _, _ => by simp [xorB]
  | _ :: _, [], h => by simp at h
  | x :: a, y :: k, h => by
    have ih := xorB_cancel a k (by simpa using h)
    simp only [xorB, List.zipWith_cons_cons] at ih ⊢
    rw [ih, UInt8.xor_assoc, UInt8.xor_self, UInt8.xor_zero]

/-- only the first `|y|` bytes of `x` matter -/
theorem xorB_take_left (x y : Bytes) (n : Nat) (h : y.length ≤ n) : xorB (x.take n) y = xorB x y := by
  induction x generalizing y n with
  | nil => simp
  | cons a x ih =>
    cases y with
    | nil => simp [xorB]
    | cons b y =>
      cases n with
      | zero => simp at h
      | succ n =>
        simp only [xorB, List.take_succ_cons, List.zipWith_cons_cons, List.cons.injEq, true_and]
        exact ih y n (by simpa using h)

theorem xorB_append (a b k : Bytes) :
    xorB (a ++ b) k = xorB a (k.take a.length) ++ xorB b (k.drop a.length) := by
  induction a generalizing k with
  | nil => simp [xorB]
  | cons x a ih =>
    cases k with
    | nil => simp [xorB]
    | cons y k => simp only [xorB] at ih ⊢; simp [ih]

/-! splice -/

theorem length_splice (buf : Bytes) (off : Nat) (bs : Bytes) (h : off + bs.length ≤ buf.length) :
    (splice buf off bs).length = buf.length := by
  simp only [splice, List.length_append, List.length_take, List.length_drop]; omega

theorem splice_nil (buf : Bytes) (off : Nat) : splice buf off [] = buf := by
  simp [splice]

theorem take_splice (buf : Bytes) (off : Nat) (bs : Bytes) (h : off ≤ buf.length) :
    (splice buf off bs).take (off + bs.length) = buf.take off ++ bs := by
  have h1 : (buf.take off ++ bs).length = off + bs.length := by simp; omega
  rw [splice, List.take_left' h1]

theorem drop_splice (buf : Bytes) (off : Nat) (bs : Bytes) (h : off ≤ buf.length) :
    (splice buf off bs).drop (off + bs.length) = buf.drop (off + bs.length) := by
  have h1 : (buf.take off ++ bs).length = off + bs.length := by simp; omega
  rw [splice, List.drop_left' h1]

theorem drop_splice_ge (buf : Bytes) (off : Nat) (bs : Bytes) (k : Nat) (h : off ≤ buf.length)
    (hk : off + bs.length ≤ k) : (splice buf off bs).drop k = buf.drop k := by
  have : k = (off + bs.length) + (k - (off + bs.length)) := by omega
  rw [this, ← List.drop_drop, drop_splice buf off bs h, List.drop_drop]

theorem take_splice_le (buf : Bytes) (off : Nat) (bs : Bytes) (k : Nat) (h : off ≤ buf.length)
    (hk : k ≤ off) : (splice buf off bs).take k = buf.take k := by
  simp only [splice, List.append_assoc]
  rw [List.take_append_of_le_length (by simp; omega), List.take_take]
  congr 1; omega

/-- reading back what was just written -/
theorem drop_take_splice (buf : Bytes) (off : Nat) (bs : Bytes) (h : off ≤ buf.length) :
    ((splice buf off bs).drop off).take bs.length = bs := by
  have h1 : (buf.take off).length = off := by simp; omega
  simp only [splice, List.append_assoc]
  rw [List.drop_left' h1, List.take_left' rfl]

/-- a splice as seen from the split at `off` -/
theorem splice_eq_of_split (pre mid post new : Bytes) (h : new.length = mid.length) :
    splice (pre ++ mid ++ post) pre.length new = pre ++ new ++ post := by
  simp [splice, h]

/-! iter -/

theorem iter_add {α : Type} (f : α → α) (a b : Nat) (x : α) :
    iter f (a + b) x = iter f b (iter f a x) := by
  induction a generalizing x with
  | zero => simp [iter]
  | succ a ih => rw [Nat.succ_add]; simp only [iter]; exact ih (f x)

theorem iter_mul {α : Type} (f : α → α) (k n : Nat) (x : α) :
    iter (iter f k) n x = iter f (k * n) x := by
  induction n generalizing x with
  | zero => simp [iter]
  | succ n ih =>
    have e : k * (n + 1) = k + k * n := by rw [Nat.mul_succ, Nat.add_comm]
    rw [e, iter_add f k (k * n)]; simp only [iter]; exact ih _

end KcpVerif.Cfb
