/-
C12 — shift simulation for `Input`: one segment (`procSeg`), the parse loop, the tail.
-/
import KcpVerif.Lemmas.KcpShiftRecv
import KcpVerif.Lemmas.KcpShiftAck
import KcpVerif.Lemmas.KcpShiftFlush3
import KcpVerif.Lemmas.KcpShiftBytes

namespace KcpVerif.Shift
open KcpVerif KcpVerif.Gen KcpVerif.Kcp

/-! ### a decomposition of `inputLoop` / `input` (proved equal to the model's by `rfl`) -/

/-- what `Input` does for every segment before looking at the command -/
def procCommon (regular : Bool) (st : InLoop) (wnd : BitVec 16) (una : U32) : InLoop :=
  { st with k := shrinkBuf (parseUna (if regular then { st.k with rmt_wnd := wnd.setWidth 32 } else st.k) una).1,
            flushSeg := st.flushSeg ||
              decide ((parseUna (if regular then { st.k with rmt_wnd := wnd.setWidth 32 } else st.k) una).2 > 0) }

def procAck (st1 : InLoop) (ts sn : U32) : InLoop :=
  { st1 with k := (parseFastack (shrinkBuf (parseAck st1.k sn)) sn ts).1,
             flushSeg := st1.flushSeg || (parseFastack (shrinkBuf (parseAck st1.k sn)) sn ts).2,
             updRtt := true, latest := ts }

def procPush (st1 : InLoop) (seg : Seg) : InLoop :=
  if itimediff seg.sn (st1.k.rcv_nxt + st1.k.rcv_wnd) < 0 then
    if itimediff seg.sn st1.k.rcv_nxt ≥ 0 then
      { st1 with k := (parseData { st1.k with acklist := st1.k.acklist ++ [⟨seg.sn, seg.ts⟩] } seg).k,
                 panic := (parseData { st1.k with acklist := st1.k.acklist ++ [⟨seg.sn, seg.ts⟩] } seg).panic }
    else { st1 with k := { st1.k with acklist := st1.k.acklist ++ [⟨seg.sn, seg.ts⟩] } }
  else st1

def procWask (st1 : InLoop) : InLoop :=
  { st1 with k := { st1.k with probe := st1.k.probe ||| u32 IKCP_ASK_TELL } }

def procSeg (regular : Bool) (st : InLoop) (conv : U32) (cmd frg : BitVec 8) (wnd : BitVec 16)
    (ts sn una : U32) (payload : Bytes) : InLoop :=
  if cmd.toNat = IKCP_CMD_ACK then procAck (procCommon regular st wnd una) ts sn
  else if cmd.toNat = IKCP_CMD_PUSH then
    procPush (procCommon regular st wnd una)
      { conv := conv, cmd := cmd, frg := frg, wnd := wnd, ts := ts, sn := sn, una := una, data := payload }
  else if cmd.toNat = IKCP_CMD_WASK then procWask (procCommon regular st wnd una)
  else procCommon regular st wnd una

theorem inputLoop_succ (regular : Bool) (fuel : Nat) (data : Bytes) (st : InLoop) :
    inputLoop regular (fuel + 1) data st =
      if data.length < IKCP_OVERHEAD then st else
      if rd32 data 0 ≠ st.k.conv then { st with ret := -1 } else
      if (data.drop IKCP_OVERHEAD).length < (rd32 data 20).toNat ∨ (rd32 data 20).toNat > mtuLimit then
        { st with ret := -2 } else
      if (BitVec.ofNat 8 (byteAt data 4)).toNat ≠ IKCP_CMD_PUSH ∧ (BitVec.ofNat 8 (byteAt data 4)).toNat ≠ IKCP_CMD_ACK ∧
          (BitVec.ofNat 8 (byteAt data 4)).toNat ≠ IKCP_CMD_WASK ∧ (BitVec.ofNat 8 (byteAt data 4)).toNat ≠ IKCP_CMD_WINS then
        { st with ret := -3 } else
      if (procSeg regular st (rd32 data 0) (BitVec.ofNat 8 (byteAt data 4)) (BitVec.ofNat 8 (byteAt data 5))
            (rd16 data 6) (rd32 data 8) (rd32 data 12) (rd32 data 16)
            ((data.drop IKCP_OVERHEAD).take (rd32 data 20).toNat)).panic
      then procSeg regular st (rd32 data 0) (BitVec.ofNat 8 (byteAt data 4)) (BitVec.ofNat 8 (byteAt data 5))
            (rd16 data 6) (rd32 data 8) (rd32 data 12) (rd32 data 16)
            ((data.drop IKCP_OVERHEAD).take (rd32 data 20).toNat)
      else inputLoop regular fuel ((data.drop IKCP_OVERHEAD).drop (rd32 data 20).toNat)
        (procSeg regular st (rd32 data 0) (BitVec.ofNat 8 (byteAt data 4)) (BitVec.ofNat 8 (byteAt data 5))
            (rd16 data 6) (rd32 data 8) (rd32 data 12) (rd32 data 16)
            ((data.drop IKCP_OVERHEAD).take (rd32 data 20).toNat)) := rfl

/-- everything `Input` does after the parse loop -/
def inputTail (st : InLoop) (oldUna : U32) (regular ackNoDelay : Bool) (now : U32) : InRes :=
  if st.flushSeg then
    ⟨(flush (cwndOnAck (if st.updRtt ∧ regular ∧ itimediff now st.latest ≥ 0 then updateAck st.k (now - st.latest) else st.k) oldUna) true now).k, 0,
     (flush (cwndOnAck (if st.updRtt ∧ regular ∧ itimediff now st.latest ≥ 0 then updateAck st.k (now - st.latest) else st.k) oldUna) true now).outs,
     (flush (cwndOnAck (if st.updRtt ∧ regular ∧ itimediff now st.latest ≥ 0 then updateAck st.k (now - st.latest) else st.k) oldUna) true now).panic⟩
  else if (cwndOnAck (if st.updRtt ∧ regular ∧ itimediff now st.latest ≥ 0 then updateAck st.k (now - st.latest) else st.k) oldUna).acklist.length
      ≥ ((cwndOnAck (if st.updRtt ∧ regular ∧ itimediff now st.latest ≥ 0 then updateAck st.k (now - st.latest) else st.k) oldUna).mtu / u32 IKCP_OVERHEAD).toNat then
    ⟨(flush (cwndOnAck (if st.updRtt ∧ regular ∧ itimediff now st.latest ≥ 0 then updateAck st.k (now - st.latest) else st.k) oldUna) false now).k, 0,
     (flush (cwndOnAck (if st.updRtt ∧ regular ∧ itimediff now st.latest ≥ 0 then updateAck st.k (now - st.latest) else st.k) oldUna) false now).outs,
     (flush (cwndOnAck (if st.updRtt ∧ regular ∧ itimediff now st.latest ≥ 0 then updateAck st.k (now - st.latest) else st.k) oldUna) false now).panic⟩
  else if ackNoDelay ∧ (cwndOnAck (if st.updRtt ∧ regular ∧ itimediff now st.latest ≥ 0 then updateAck st.k (now - st.latest) else st.k) oldUna).acklist.length > 0 then
    ⟨(flush (cwndOnAck (if st.updRtt ∧ regular ∧ itimediff now st.latest ≥ 0 then updateAck st.k (now - st.latest) else st.k) oldUna) false now).k, 0,
     (flush (cwndOnAck (if st.updRtt ∧ regular ∧ itimediff now st.latest ≥ 0 then updateAck st.k (now - st.latest) else st.k) oldUna) false now).outs,
     (flush (cwndOnAck (if st.updRtt ∧ regular ∧ itimediff now st.latest ≥ 0 then updateAck st.k (now - st.latest) else st.k) oldUna) false now).panic⟩
  else ⟨cwndOnAck (if st.updRtt ∧ regular ∧ itimediff now st.latest ≥ 0 then updateAck st.k (now - st.latest) else st.k) oldUna, 0, [], false⟩

theorem input_eq (k : Kcp) (data : Bytes) (regular ackNoDelay : Bool) (now : U32) :
    input k data regular ackNoDelay now =
      if data.length < IKCP_OVERHEAD then ⟨k, -1, [], false⟩ else
      if (inputLoop regular (data.length / IKCP_OVERHEAD + 1) data { k := k }).panic then
        ⟨(inputLoop regular (data.length / IKCP_OVERHEAD + 1) data { k := k }).k, 0, [], true⟩ else
      if (inputLoop regular (data.length / IKCP_OVERHEAD + 1) data { k := k }).ret < 0 then
        ⟨(inputLoop regular (data.length / IKCP_OVERHEAD + 1) data { k := k }).k,
         (inputLoop regular (data.length / IKCP_OVERHEAD + 1) data { k := k }).ret, [], false⟩ else
      inputTail (inputLoop regular (data.length / IKCP_OVERHEAD + 1) data { k := k }) k.snd_una regular ackNoDelay now := rfl

/-! ### simulation of one segment -/

structure ISim (σ : Sigma) (st st' : InLoop) : Prop where
  k        : Sim σ st.k st'.k
  latest   : st.updRtt = true → st'.latest = st.latest + σ.t
  updRtt   : st'.updRtt = st.updRtt
  flushSeg : st'.flushSeg = st.flushSeg
  ret      : st'.ret = st.ret
  panic    : st'.panic = st.panic

theorem procCommon_sim {σ : Sigma} {st st' : InLoop} (h : ISim σ st st') (regular : Bool) (wnd : BitVec 16)
    (una : U32) : ISim σ (procCommon regular st wnd una) (procCommon regular st' wnd (una + σ.a)) := by
  have h1 : Sim σ (if regular then { st.k with rmt_wnd := wnd.setWidth 32 } else st.k)
      (if regular then { st'.k with rmt_wnd := wnd.setWidth 32 } else st'.k) := by
    cases regular
    · exact h.k
    · exact { h.k with rmt_wnd := rfl }
  unfold procCommon
  generalize (if regular then { st.k with rmt_wnd := wnd.setWidth 32 } else st.k) = k1 at h1 ⊢
  generalize (if regular then { st'.k with rmt_wnd := wnd.setWidth 32 } else st'.k) = k1' at h1 ⊢
  obtain ⟨p1, p2⟩ := parseUna_sim h1 una
  have e : (st'.flushSeg || decide ((parseUna k1' (una + σ.a)).2 > 0)) =
      (st.flushSeg || decide ((parseUna k1 una).2 > 0)) := by rw [p2, h.flushSeg]
  exact { h with k := shrinkBuf_sim p1, flushSeg := e }

theorem procAck_sim {σ : Sigma} {st st' : InLoop} (h : ISim σ st st') (ts sn : U32) :
    ISim σ (procAck st ts sn) (procAck st' (ts + σ.t) (sn + σ.a)) := by
  unfold procAck
  obtain ⟨f1, f2⟩ := parseFastack_sim (shrinkBuf_sim (parseAck_sim h.k sn)) sn ts
  have e : (st'.flushSeg || (parseFastack (shrinkBuf (parseAck st'.k (sn + σ.a))) (sn + σ.a) (ts + σ.t)).2) =
      (st.flushSeg || (parseFastack (shrinkBuf (parseAck st.k sn)) sn ts).2) := by rw [f2, h.flushSeg]
  exact { h with k := f1, flushSeg := e, updRtt := rfl, latest := fun _ => rfl }

theorem procPush_sim {σ : Sigma} {st st' : InLoop} (h : ISim σ st st') (seg : Seg) :
    ISim σ (procPush st seg) (procPush st' (shRcv σ seg)) := by
  have c1 : itimediff (shRcv σ seg).sn (st'.k.rcv_nxt + st'.k.rcv_wnd) = itimediff seg.sn (st.k.rcv_nxt + st.k.rcv_wnd) := by
    rw [h.k.rcv_nxt, h.k.rcv_wnd]; exact itd_shift_add _ _ _ _
  have c2 : itimediff (shRcv σ seg).sn st'.k.rcv_nxt = itimediff seg.sn st.k.rcv_nxt := by
    rw [h.k.rcv_nxt]; exact itd_shift _ _ _
  have h2 : Sim σ { st.k with acklist := st.k.acklist ++ [Ack.mk seg.sn seg.ts] }
      { st'.k with acklist := st'.k.acklist ++ [Ack.mk (shRcv σ seg).sn (shRcv σ seg).ts] } := by
    have e : st'.k.acklist ++ [Ack.mk (shRcv σ seg).sn (shRcv σ seg).ts] =
        (st.k.acklist ++ [Ack.mk seg.sn seg.ts]).map (shAck σ) := by
      rw [h.k.acklist, List.map_append]; rfl
    exact { h.k with acklist := e }
  unfold procPush
  simp only [c1, c2]
  by_cases d1 : itimediff seg.sn (st.k.rcv_nxt + st.k.rcv_wnd) < 0
  · simp only [if_pos d1]
    by_cases d2 : itimediff seg.sn st.k.rcv_nxt ≥ 0
    · simp only [if_pos d2]
      obtain ⟨q1, _, q3⟩ := parseData_sim h2 seg
      exact { h with k := q1, panic := q3 }
    · simp only [if_neg d2]
      exact { h with k := h2 }
  · simp only [if_neg d1]
    exact h

theorem procWask_sim {σ : Sigma} {st st' : InLoop} (h : ISim σ st st') : ISim σ (procWask st) (procWask st') := by
  unfold procWask
  exact { h with k := { h.k with probe := congrArg (· ||| u32 IKCP_ASK_TELL) h.k.probe } }

theorem procSeg_sim {σ : Sigma} {st st' : InLoop} (h : ISim σ st st') (regular : Bool) (conv : U32)
    (cmd frg : BitVec 8) (wnd : BitVec 16) (ts sn una : U32) (payload : Bytes) :
    ISim σ (procSeg regular st conv cmd frg wnd ts sn una payload)
      (procSeg regular st' conv cmd frg wnd (ts + (inDeltas σ cmd.toNat).1) (sn + (inDeltas σ cmd.toNat).2.1)
        (una + (inDeltas σ cmd.toNat).2.2) payload) := by
  have hPA : ¬ (IKCP_CMD_ACK = IKCP_CMD_PUSH) := by decide
  unfold procSeg
  by_cases cA : cmd.toNat = IKCP_CMD_ACK
  · simp only [inDeltas, cA, if_neg hPA, if_true]
    exact procAck_sim (procCommon_sim h regular wnd una) ts sn
  simp only [if_neg cA]
  by_cases cP : cmd.toNat = IKCP_CMD_PUSH
  · simp only [if_pos cP, inDeltas]
    exact procPush_sim (procCommon_sim h regular wnd una) _
  simp only [if_neg cP, inDeltas, if_neg cA]
  by_cases cW : cmd.toNat = IKCP_CMD_WASK
  · simp only [if_pos cW]
    exact procWask_sim (procCommon_sim h regular wnd una)
  · simp only [if_neg cW]
    exact procCommon_sim h regular wnd una

end KcpVerif.Shift
