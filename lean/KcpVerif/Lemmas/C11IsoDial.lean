import KcpVerif.Lemmas.C11IsoSys
/-!
The dialled side of `C11_isolation`: a dialled `Model/Sess` session behind the source filter of its
read loop (`SessIn.Dial.filter`, readloop.go), its peer session, and a socket that also receives
ARBITRARY datagrams from other sources.  Whatever arrives from a source that is not the remote is
never passed to `packetInput` (`C11_dial_filter`), so the pair stays a reachable state of the
two-session system of `C01_session_plain`.
-/
namespace KcpVerif.C11Iso
open KcpVerif KcpVerif.Gen KcpVerif.SessIn KcpVerif.Props KcpVerif.C01

/-- the remote a session was dialled to: a `*net.UDPAddr` (canonical IP, port, zone) or any other
`net.Addr` (its non-empty `String()`) -/
inductive Remote where
  | udp (u : List UInt8 × Nat × String)
  | str (s : String)

/-- the datagram's source IS the remote, as the read loop compares them -/
def Remote.is (r : Remote) (addr : Dial.Addr) : Prop :=
  match r with
  | .udp u => addr.udp = some u
  | .str s => addr.str = s

instance Remote.decIs : (r : Remote) → (addr : Dial.Addr) → Decidable (r.is addr)
  | .udp u, addr => inferInstanceAs (Decidable (addr.udp = some u))
  | .str s, addr => inferInstanceAs (Decidable (addr.str = s))

/-- the filter latched on the remote (`Filter.init (some remote)`) -/
def Remote.filter : Remote → Dial.Filter
  | .udp u => { src := some u, srcStr := "" }
  | .str s => { src := none, srcStr := s }

def Remote.ok : Remote → Prop
  | .udp _ => True
  | .str s => s ≠ ""

structure DSys where
  srv : SessG            -- the peer (the session at the remote address)
  cli : SessG            -- the dialled session
  f   : Dial.Filter

inductive DEv where
  /-- the peer does anything (incl. `packetInput` of arbitrary bytes) -/
  | srv (op : SessOp)
  /-- the application / the scheduler on the dialled session: anything but `packetInput` -/
  | cli (op : SessOp)
  /-- a datagram from the remote: the `i`-th datagram the peer has emitted so far (any time, any
      number of times, any order); `addr` any source the read loop takes for the remote -/
  | peer (addr : Dial.Addr) (i : Nat) (now : U32)
  /-- ARBITRARY bytes from any source that is not the remote -/
  | other (addr : Dial.Addr) (data : Bytes) (now : U32)

/-- one iteration of the read loop: filter, then `packetInput` -/
def recvFrom (s : DSys) (addr : Dial.Addr) (data : Bytes) (now : U32) : DSys :=
  if (Dial.filter s.f addr).pass then { s with cli := sessStep s.cli (.input data now), f := (Dial.filter s.f addr).f }
  else { s with f := (Dial.filter s.f addr).f }

def dstep (r : Remote) (s : DSys) : DEv → DSys
  | .srv op => { s with srv := sessStep s.srv op }
  | .cli op => if isSessInput op then s else { s with cli := sessStep s.cli op }
  | .peer addr i now =>
    if r.is addr then
      match s.srv.wire[i]? with
      | some d => recvFrom s addr d now
      | none => s
    else s
  | .other addr data now => if r.is addr then s else recvFrom s addr data now

def drun (r : Remote) (s : DSys) (evs : List DEv) : DSys := evs.foldl (dstep r) s

/-- a latched filter passes exactly the remote and never changes -/
theorem filter_latched (r : Remote) (hr : r.ok) (addr : Dial.Addr) :
    (Dial.filter r.filter addr).f = r.filter ∧ ((Dial.filter r.filter addr).pass = true ↔ r.is addr) := by
  cases r with
  | udp u => exact C11_dial_filter _ u addr rfl
  | str s => exact C11_dial_filter_string _ addr rfl hr

/-- the pair is a reachable state of the two-session system started from `(a0, b0)` -/
def DPeer (a0 b0 : Sess) (g x : SessG) : Prop := ∃ ops : List SSOp, ssrun ⟨{ s := a0 }, { s := b0 }⟩ ops = ⟨g, x⟩

theorem dstep_inv (r : Remote) (hr : r.ok) (a0 b0 : Sess) {s : DSys} (hf : s.f = r.filter) (h : DPeer a0 b0 s.srv s.cli)
    (e : DEv) : (dstep r s e).f = r.filter ∧ DPeer a0 b0 (dstep r s e).srv (dstep r s e).cli := by
  obtain ⟨ops, hops⟩ := h
  cases e with
  | srv op =>
    exact ⟨hf, ops ++ [.a op], by rw [ssrun_snoc, hops]; rfl⟩
  | cli op =>
    cases hi : isSessInput op with
    | true => simp only [dstep, hi, if_true]; exact ⟨hf, ops, hops⟩
    | false =>
      simp only [dstep, hi, Bool.false_eq_true, if_false]
      refine ⟨hf, ops ++ [.b op], ?_⟩
      rw [ssrun_snoc, hops]
      simp only [ssstep, hi, Bool.false_eq_true, if_false]
  | peer addr i now =>
    by_cases ha : r.is addr
    · simp only [dstep, ha, if_true]
      cases hd : s.srv.wire[i]? with
      | none => exact ⟨hf, ops, hops⟩
      | some d =>
        simp only []
        have hl := filter_latched r hr addr
        unfold recvFrom
        rw [hf, hl.1, if_pos (hl.2.mpr ha)]
        refine ⟨?_, ops ++ [.dlv i now], ?_⟩
        · first | rfl | trivial
        · rw [ssrun_snoc, hops]
          simp only [ssstep, hd]
    · simp only [dstep, ha, if_false]; exact ⟨hf, ops, hops⟩
  | other addr data now =>
    by_cases ha : r.is addr
    · simp only [dstep, ha, if_true]; exact ⟨hf, ops, hops⟩
    · simp only [dstep, ha, if_false]
      have hl := filter_latched r hr addr
      have hp : (Dial.filter r.filter addr).pass = false := by
        cases hq : (Dial.filter r.filter addr).pass with
        | false => rfl
        | true => exact absurd (hl.2.mp hq) ha
      unfold recvFrom
      rw [hf, hl.1, hp]
      simp only [Bool.false_eq_true, if_false]
      exact ⟨by first | rfl | trivial, ops, hops⟩

theorem drun_inv (r : Remote) (hr : r.ok) (a0 b0 : Sess) (evs : List DEv) : ∀ s : DSys, s.f = r.filter →
    DPeer a0 b0 s.srv s.cli → (drun r s evs).f = r.filter ∧ DPeer a0 b0 (drun r s evs).srv (drun r s evs).cli := by
  induction evs with
  | nil => intro s hf h; exact ⟨hf, h⟩
  | cons e rest ih =>
    intro s hf h
    obtain ⟨h1, h2⟩ := dstep_inv r hr a0 b0 hf h e
    exact ih _ h1 h2

end KcpVerif.C11Iso
