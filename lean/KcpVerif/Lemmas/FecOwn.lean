/-
C15 (ownership, FEC decoder): the holding count of the instrumented decoder `Model/FecOwn` through
every pool site of `decode`, in the frame style of `Lemmas/KcpOwnCount` (`W` is the ghost/sanitizer
relation of `Lemmas/KcpOwnPool`), and erasure to `Model/Fec`.  Core Lean only.
-/
import KcpVerif.Model.FecOwn
import KcpVerif.Lemmas.KcpOwnPool

namespace KcpVerif.FecOwn
open KcpVerif KcpVerif.Gen KcpVerif.Fec KcpVerif.Own KcpVerif.Pool

/-- number of stored packets of `l` held in buffer `id` -/
def cntP (id : Nat) : List PktO → Nat
  | [] => 0
  | q :: l => oc (some q.buf) id + cntP id l

def cntS (id : Nat) : List SetO → Nat
  | [] => 0
  | s :: l => cntP id s.pkts + cntS id l

/-- occurrences of `id` in a list of buffers (the caller's recovered buffers) -/
def cntI (id : Nat) : List Nat → Nat
  | [] => 0
  | j :: l => oc (some j) id + cntI id l

theorem cntP_append (id : Nat) (a b : List PktO) : cntP id (a ++ b) = cntP id a + cntP id b := by
  induction a with
  | nil => simp [cntP]
  | cons x a ih => simp only [List.cons_append, cntP, ih]; omega

theorem putPkts_W (l : List PktO) (g : Ghost) (F : Nat → Nat) (h : W g (fun id => cntP id l + F id)) :
    W (putPkts l g) F := by
  induction l generalizing g with
  | nil => exact h.congr (fun id => by simp [cntP])
  | cons q rest ih =>
    unfold putPkts
    have h1 : W g (fun id => oc (some q.buf) id + (cntP id rest + F id)) :=
      h.congr (fun id => by simp only [cntP]; omega)
    exact ih _ h1.recycle

theorem usePkts_W (l : List PktO) (g : Ghost) (F : Nat → Nat) (h : W g (fun id => cntP id l + F id)) :
    W (usePkts l g) (fun id => cntP id l + F id) := by
  induction l generalizing g F with
  | nil => exact h
  | cons q rest ih =>
    unfold usePkts
    have h1 : W g (fun id => oc (some q.buf) id + (cntP id rest + F id)) :=
      h.congr (fun id => by simp only [cntP]; omega)
    have h2 : W (g.use (some q.buf)) (fun id => cntP id rest + (oc (some q.buf) id + F id)) :=
      h1.use.congr (fun id => by omega)
    exact (ih _ _ h2).congr (fun id => by simp only [cntP]; omega)

theorem putSets_W (l : List SetO) (g : Ghost) (F : Nat → Nat) (h : W g (fun id => cntS id l + F id)) :
    W (putSets l g) F := by
  induction l generalizing g with
  | nil => exact h.congr (fun id => by simp [cntS])
  | cons s rest ih =>
    unfold putSets
    have h1 : W g (fun id => cntP id s.pkts + (cntS id rest + F id)) :=
      h.congr (fun id => by simp only [cntS]; omega)
    exact ih _ (putPkts_W _ _ _ h1)

theorem getN_W (n : Nat) (g : Ghost) (F : Nat → Nat) (h : W g F) :
    W (getN n g).g (fun id => cntI id (getN n g).ids + F id) := by
  induction n generalizing g F with
  | zero => exact h.congr (fun id => by simp [getN, cntI])
  | succ n ih =>
    have h1 := ih g.get _ h.get
    unfold getN
    exact h1.congr (fun id => by simp only [cntI]; omega)

theorem putIds_W (l : List Nat) (g : Ghost) (F : Nat → Nat) (h : W g (fun id => cntI id l + F id)) :
    W (putIds l g) F := by
  induction l generalizing g with
  | nil => exact h.congr (fun id => by simp [cntI])
  | cons j rest ih =>
    unfold putIds
    have h1 : W g (fun id => oc (some j) id + (cntI id rest + F id)) :=
      h.congr (fun id => by simp only [cntI]; omega)
    exact ih _ h1.recycle

theorem release_W (l : List Nat) (g : Ghost) (F : Nat → Nat) (h : W g (fun id => cntI id l + F id)) :
    W (release l g) F := by
  induction l generalizing g with
  | nil => exact h.congr (fun id => by simp [cntI])
  | cons j rest ih =>
    unfold release
    have h1 : W g (fun id => oc (some j) id + (cntI id rest + F id)) :=
      h.congr (fun id => by simp only [cntI]; omega)
    exact ih _ h1.use.recycle

/-- replacing a shard set: the map loses the old packets of that id and gains the new ones -/
theorem storeO_cnt (id : Nat) (s : SetO) (l : List SetO) :
    cntS id (storeO s l) + cntP id ((lookupO s.id l).getD { id := s.id, pkts := [] }).pkts =
      cntS id l + cntP id s.pkts := by
  induction l with
  | nil => simp [storeO, lookupO, cntS, cntP]
  | cons t rest ih =>
    unfold storeO lookupO
    split
    · simp only [cntS, Option.getD_some]; omega
    · simp only [cntS]; omega

theorem discardO_W (n : Nat) (newest : BitVec 32) (l : List SetO) (g : Ghost) (F : Nat → Nat)
    (h : W g (fun id => cntS id l + F id)) :
    W (discardO n newest l g).g (fun id => cntS id (discardO n newest l g).sets + F id) := by
  induction l generalizing g F with
  | nil => exact h
  | cons s rest ih =>
    unfold discardO
    split
    · have h1 : W g (fun id => cntS id rest + (cntP id s.pkts + F id)) :=
        h.congr (fun id => by simp only [cntS]; omega)
      exact (ih g _ h1).congr (fun id => by simp only [cntS]; omega)
    · have h1 : W g (fun id => cntP id s.pkts + (cntS id rest + F id)) :=
        h.congr (fun id => by simp only [cntS]; omega)
      exact ih _ _ (putPkts_W _ _ _ h1)

/-- closes the arithmetic side goals after reducing structure projections -/
macro "cnt_arith" : tactic =>
  `(tactic| first | omega | (simp only []; omega) | (simp only [cntI]; omega) | (simp only [cntI, cntS]; omega))

/-- **`decode`, every branch**: the shard sets plus the buffers returned to the caller hold exactly
the owned buffers afterwards -/
theorem decodeO_W (C : CodecNew) (o : DecO) (inp : Fec.Bytes) (F : Nat → Nat)
    (h : W o.gh (fun id => cntS id o.sets + F id)) :
    W (decodeO C o inp).o.gh
      (fun id => cntS id (decodeO C o inp).o.sets + (cntI id (decodeO C o inp).rbufs + F id)) := by
  unfold decodeO
  simp only []
  split; · exact h.congr (fun id => by cnt_arith)
  split; · exact h.congr (fun id => by cnt_arith)
  split
  · split
    · exact (putSets_W _ _ _ h).congr (fun id => by cnt_arith)
    · exact h.congr (fun id => by cnt_arith)
  split; · exact h.congr (fun id => by cnt_arith)
  -- a new packet is stored
  generalize seqid inp / u32 o.dec.n = sid
  generalize hset : (lookupO sid o.sets).getD { id := sid, pkts := [] } = set
  generalize hpk : set.pkts ++ [{ p := inp, buf := o.gh.next }] = pkts
  have hcp : ∀ id, cntP id pkts = cntP id set.pkts + oc (some o.gh.next) id := by
    intro id; rw [← hpk, cntP_append]; simp only [cntP]; omega
  have hg := h.get
  split
  · -- the set is complete: all packets are popped
    have hst := fun id => storeO_cnt id { id := sid, pkts := [] } o.sets
    simp only [hset] at hst
    have h1 : W o.gh.get (fun id => cntP id pkts + (cntS id (storeO { id := sid, pkts := [] } o.sets) + F id)) :=
      hg.congr (fun id => by have := hst id; have := hcp id; simp only [cntP] at *; omega)
    have h2 := usePkts_W _ _ _ h1
    split
    · exact (discardO_W _ _ _ _ _ (putPkts_W _ _ _ h2)).congr (fun id => by cnt_arith)
    · have h3 := usePkts_W _ _ _ h2
      generalize (List.filter _ _).length = m
      have h4 := getN_W m _ _ h3
      split
      · have h4' : W (getN m (usePkts pkts (usePkts pkts o.gh.get))).g
            (fun id => cntP id pkts + (cntI id (getN m (usePkts pkts (usePkts pkts o.gh.get))).ids +
              (cntS id (storeO { id := sid, pkts := [] } o.sets) + F id))) := h4.congr (fun id => by omega)
        have h5 : W (putPkts pkts (getN m (usePkts pkts (usePkts pkts o.gh.get))).g)
            (fun id => cntS id (storeO { id := sid, pkts := [] } o.sets) +
              (cntI id (getN m (usePkts pkts (usePkts pkts o.gh.get))).ids + F id)) :=
          (putPkts_W _ _ _ h4').congr (fun id => by omega)
        exact discardO_W _ _ _ _ _ h5
      · have h5 := putIds_W _ _ _ h4
        have h6 := putPkts_W _ _ _ h5
        exact (discardO_W _ _ _ _ _ h6).congr (fun id => by cnt_arith)
  · -- the packet waits in its set
    have hst := fun id => storeO_cnt id { id := sid, pkts := pkts } o.sets
    simp only [hset] at hst
    have h1 : W o.gh.get (fun id => cntS id (storeO { id := sid, pkts := pkts } o.sets) + F id) :=
      hg.congr (fun id => by have := hst id; have := hcp id; omega)
    exact (discardO_W _ _ _ _ _ h1).congr (fun id => by cnt_arith)

theorem decodeRel_W (C : CodecNew) (o : DecO) (inp : Fec.Bytes) (h : W o.gh (fun id => cntS id o.sets)) :
    W (decodeRel C o inp).gh (fun id => cntS id (decodeRel C o inp).sets) := by
  have h1 := decodeO_W C o inp (fun _ => 0) (h.congr (fun id => by omega))
  unfold decodeRel
  simp only []
  exact release_W _ _ _ (h1.congr (fun id => by omega))

end KcpVerif.FecOwn
