/-
Zero-window probing on the closed system: the chain of phases on B's side and on the way back.
`ZW`: a WASK is on its way to B; `ZT`: B owes the answer (ASK_TELL) and flushes within its interval;
`ZR`: a datagram all of whose frames carry a non-zero window is on its way to A.  When it arrives
A's `rmt_wnd` is non-zero.
-/
import KcpVerif.Lemmas.SysDrainProbe

namespace KcpVerif.SysC
open KcpVerif KcpVerif.Gen KcpVerif.Kcp KcpVerif.Live KcpVerif.Wire KcpVerif.SysW KcpVerif.Sys

/-- B's receive queue is not full and its window fits the 16-bit `wnd` field -/
def QB (s : State) : Prop := s.B.rcv_queue.length < s.B.rcv_wnd.toNat ∧ s.B.rcv_wnd.toNat < 65536

def ZW (T2 : Nat) (s : State) : Prop :=
  s.now ≤ T2 ∧ ∃ d ∈ s.ab, d.arr ≤ T2 ∧ ∃ frs, d.data = encFrames frs ∧ (∀ fr ∈ frs, fr.data.length ≤ mtuLimit) ∧
    ∃ fr ∈ frs, fr.cmd.toNat = IKCP_CMD_WASK

def ZT (T3 : Nat) (s : State) : Prop := s.B.probe &&& u32 IKCP_ASK_TELL ≠ 0 ∧ s.nfB ≤ T3 ∧ s.now ≤ T3

def ZR (T4 : Nat) (s : State) : Prop :=
  s.now ≤ T4 ∧ ∃ d ∈ s.ba, d.arr ≤ T4 ∧ ∃ frs, d.data = encFrames frs ∧ frs ≠ [] ∧ (∀ fr ∈ frs, fr.data = []) ∧
    ∀ fr ∈ frs, fr.wnd ≠ 0

/-- B's `Input` of the head datagram: a WASK in it, or an answer already owed, leaves the answer owed —
or written, when the ACK-no-delay flush of `Input` runs -/
theorem zB_in {p : Par} {s : State} {t0 : Nat} {frs0 : List Frm} {grest gba : GLink}
    (h : Cons p s ((t0, frs0) :: grest) gba) (hnw : NoWrap p.base s)
    (hT : (∃ fr ∈ frs0, fr.cmd.toNat = IKCP_CMD_WASK) ∨ s.B.probe &&& u32 IKCP_ASK_TELL ≠ 0)
    (hp : (s.B.input (encFrames frs0) true s.ndB (clk s.now)).panic = false)
    (hQ : (s.B.input (encFrames frs0) true s.ndB (clk s.now)).k.rcv_queue.length <
        (s.B.input (encFrames frs0) true s.ndB (clk s.now)).k.rcv_wnd.toNat ∧
      (s.B.input (encFrames frs0) true s.ndB (clk s.now)).k.rcv_wnd.toNat < 65536) :
    (s.B.input (encFrames frs0) true s.ndB (clk s.now)).k.probe &&& u32 IKCP_ASK_TELL ≠ 0 ∨
    ∃ g, encFrames g ∈ (s.B.input (encFrames frs0) true s.ndB (clk s.now)).outs ∧ g ≠ [] ∧ (∀ x ∈ g, x.data = []) ∧
      ∀ x ∈ g, x.wnd ≠ 0 := by
  have hnw' := hnw
  unfold NoWrap at hnw'
  have hN : o p.base s.A.snd_nxt < 2 ^ 31 := by omega
  have hd0 : ((t0, frs0) : Nat × List Frm) ∈ (t0, frs0) :: grest := List.mem_cons_self ..
  have hv : ∀ fr ∈ frs0, FrValid s.B.conv fr := by
    intro fr hfr
    obtain ⟨e1, e2, _⟩ := h.fab (t0, frs0) hd0 fr hfr
    refine ⟨by rw [e1, h.bconv], ?_, e2.2⟩
    unfold Live.validCmd
    rcases e2.1 with e | e | e
    · exact Or.inl e
    · exact Or.inr (Or.inr (Or.inl e))
    · exact Or.inr (Or.inr (Or.inr e))
  obtain ⟨r1, r2, r3, r4, r5⟩ := inFrs_rcv_gen p.base (o p.base s.A.snd_nxt) hN frs0 { k := s.B } h.bsb
    (fun fr hfr => ⟨(h.fab (t0, frs0) hd0 fr hfr).2.1, (h.fab (t0, frs0) hd0 fr hfr).2.2⟩) h.bub h.bbuf rfl
  obtain ⟨cw, inc, hcw⟩ := cwndOnAck_shape' (inFrs true frs0 { k := s.B }).k s.B.snd_una
  have htell : (cwndOnAck (inFrs true frs0 { k := s.B }).k s.B.snd_una).probe &&& u32 IKCP_ASK_TELL ≠ 0 := by
    rw [hcw]
    exact inFrs_tell frs0 { k := s.B } hT r2
  rcases inputB_cases s.B frs0 s.ndB (clk s.now) hv r2 r3 r4 r5 with hin | hin | ⟨rfl, hin⟩
  · left; rw [hin]; exact htell
  · right
    rw [hin] at hp hQ ⊢
    obtain ⟨fr, hfr, _⟩ := flush_wins_frame (cwndOnAck (inFrs true frs0 { k := s.B }).k s.B.snd_una) false (clk s.now) htell
    have hsb : (cwndOnAck (inFrs true frs0 { k := s.B }).k s.B.snd_una).snd_buf = [] := by rw [hcw]; exact r1.sb
    have hsq : (cwndOnAck (inFrs true frs0 { k := s.B }).k s.B.snd_una).snd_queue = [] := by
      rw [hcw]; exact r1.sq.trans h.bsq
    obtain ⟨g, e1, e2, e3, e4⟩ := emitB _ hsb hsq false (clk s.now) hp fr hfr
    obtain ⟨pw, tp, st, ss, cw', inc', hk⟩ := flush_frame (cwndOnAck (inFrs true frs0 { k := s.B }).k s.B.snd_una) false (clk s.now)
    have hQ' : (cwndOnAck (inFrs true frs0 { k := s.B }).k s.B.snd_una).rcv_queue.length <
        (cwndOnAck (inFrs true frs0 { k := s.B }).k s.B.snd_una).rcv_wnd.toNat ∧
        (cwndOnAck (inFrs true frs0 { k := s.B }).k s.B.snd_una).rcv_wnd.toNat < 65536 := by
      have := hQ
      simp only [hk] at this
      exact this
    exact ⟨g, e1, e2, e3, fun x hx => by rw [e4 x hx]; exact wndUnused_ne _ hQ'.1 hQ'.2⟩
  · left
    rw [hin]
    rcases hT with ⟨fr, hfr, _⟩ | hT
    · simp at hfr
    · exact hT

theorem quiet_facts (s : State) (hq : quiet s = true) :
    (∀ d ∈ s.ab, s.now < d.arr) ∧ (∀ d ∈ s.ba, s.now < d.arr) ∧ s.now < s.nfA ∧ s.now < s.nfB := by
  unfold quiet at hq
  simp only [Bool.and_eq_true, List.all_eq_true, decide_eq_true_eq] at hq
  exact ⟨hq.1.1.1.1, hq.1.1.1.2, hq.1.1.2, hq.1.2⟩

/-- **the chain on B's side and on the way back**: every event moves a phase to itself or to a later
one, or opens A's remote window -/
theorem zB_step {p : Par} {s : State} {gab gba : GLink} (h : Cons p s gab gba) (hnw : NoWrap p.base s)
    (T2 T3 T4 IB : Nat) (ht : Tm IB s) (hT3 : T2 + IB ≤ T3) (hT4 : T3 + s.D ≤ T4) (hQ : QB s) (ev : Ev)
    (hQ' : QB (Sys.step s ev)) (hp' : (Sys.step s ev).panic = false) (hz : ZW T2 s ∨ ZT T3 s ∨ ZR T4 s) :
    (ZW T2 (Sys.step s ev) ∨ ZT T3 (Sys.step s ev) ∨ ZR T4 (Sys.step s ev)) ∨ (Sys.step s ev).A.rmt_wnd ≠ 0 := by
  rcases hz with ⟨q2, d, hd, hda, frs, hdd, hval, fr, hfr, hw⟩ | ⟨z1, z2, z3⟩ | ⟨q2, d, hd, hda, frs, hdd, hne, hdat, hwnd⟩
  · -- a WASK on its way to B
    have keep : ∀ s' : State, (∀ x ∈ s.ab, x ∈ s'.ab) → s'.now = s.now →
        (ZW T2 s' ∨ ZT T3 s' ∨ ZR T4 s') ∨ s'.A.rmt_wnd ≠ 0 := fun s' hsub hnow =>
      Or.inl (Or.inl ⟨by rw [hnow]; exact q2, d, hsub d hd, hda, frs, hdd, hval, fr, hfr, hw⟩)
    cases ev with
    | tick =>
      rw [show Sys.step s .tick = (if quiet s then { s with now := s.now + 1 } else s) from rfl]
      split
      · rename_i hq
        have := (quiet_facts s hq).1 d hd
        exact Or.inl (Or.inl ⟨by show s.now + 1 ≤ T2; omega, d, hd, hda, frs, hdd, hval, fr, hfr, hw⟩)
      · exact keep s (fun x hx => hx) rfl
    | send b => exact keep _ (fun x hx => hx) rfl
    | read =>
      rw [show Sys.step s .read = (if (s.B.recv s.B.peekSize.toNat).n < 0 then s
        else { s with B := (s.B.recv s.B.peekSize.toNat).k, got := s.got ++ (s.B.recv s.B.peekSize.toNat).data }) from rfl]
      split
      · exact keep s (fun x hx => hx) rfl
      · exact keep _ (fun x hx => hx) rfl
    | flushA => exact keep _ (fun x hx => List.mem_append_left _ hx) rfl
    | flushB => exact keep _ (fun x hx => hx) rfl
    | dlvA =>
      cases hba : s.ba with
      | nil =>
        have : Sys.step s .dlvA = s := by simp only [Sys.step, hba]
        rw [this]; exact keep s (fun x hx => hx) rfl
      | cons d' rest =>
        rw [step_dlvA_cons s _ _ hba]
        split
        · exact keep _ (fun x hx => List.mem_append_left _ hx) rfl
        · exact keep s (fun x hx => hx) rfl
    | dlvB =>
      cases gab with
      | nil =>
        have : s.ab = [] := h.hab
        rw [this] at hd; simp at hd
      | cons d0 grest =>
        obtain ⟨t0, frs0⟩ := d0
        have hab : s.ab = ⟨t0, encFrames frs0⟩ :: encL grest := h.hab
        rw [step_dlvB_cons s _ _ hab] at hQ' hp' ⊢
        by_cases hdue : t0 ≤ s.now
        · rw [if_pos hdue] at hQ' hp' ⊢
          rw [hab] at hd
          rcases List.mem_cons.mp hd with rfl | hd
          · have hd0 : ((t0, frs0) : Nat × List Frm) ∈ (t0, frs0) :: grest := List.mem_cons_self ..
            have hfe : frs = frs0 := by
              apply encFrames_inj frs frs0 hval
              · exact fun x hx => (h.fab (t0, frs0) hd0 x hx).2.1.2
              · exact hdd.symm
            subst hfe
            have hpi : (s.B.input (encFrames frs) true s.ndB (clk s.now)).panic = false := by
              have : (s.panic || (s.B.input (encFrames frs) true s.ndB (clk s.now)).panic) = false := hp'
              rw [h.np] at this
              simpa using this
            rcases zB_in h hnw (Or.inl ⟨fr, hfr, hw⟩) hpi hQ' with htl | ⟨g, e1, e2, e3, e4⟩
            · exact Or.inl (Or.inr (Or.inl ⟨htl, by show s.nfB ≤ T3; have := ht.nf; omega, by show s.now ≤ T3; omega⟩))
            · refine Or.inl (Or.inr (Or.inr ⟨by show s.now ≤ T4; omega, ⟨s.now + s.D, encFrames g⟩, ?_,
                by show s.now + s.D ≤ T4; omega, g, rfl, e2, e3, e4⟩))
              show _ ∈ s.ba ++ stamp (s.now + s.D) _
              apply List.mem_append_right
              unfold stamp
              exact List.mem_map.mpr ⟨encFrames g, e1, rfl⟩
          · exact Or.inl (Or.inl ⟨q2, d, hd, hda, frs, hdd, hval, fr, hfr, hw⟩)
        · rw [if_neg hdue]
          exact keep s (fun x hx => hx) rfl
  · -- B owes the answer
    have keep : ∀ s' : State, s'.B = s.B → s'.nfB = s.nfB → s'.now = s.now →
        (ZW T2 s' ∨ ZT T3 s' ∨ ZR T4 s') ∨ s'.A.rmt_wnd ≠ 0 := fun s' hB hnf hnow =>
      Or.inl (Or.inr (Or.inl ⟨by rw [hB]; exact z1, by rw [hnf]; exact z2, by rw [hnow]; exact z3⟩))
    cases ev with
    | tick =>
      rw [show Sys.step s .tick = (if quiet s then { s with now := s.now + 1 } else s) from rfl]
      split
      · rename_i hq
        have := (quiet_facts s hq).2.2.2
        exact Or.inl (Or.inr (Or.inl ⟨z1, z2, by show s.now + 1 ≤ T3; omega⟩))
      · exact keep s rfl rfl rfl
    | send b => exact keep _ rfl rfl rfl
    | read =>
      rw [show Sys.step s .read = (if (s.B.recv s.B.peekSize.toNat).n < 0 then s
        else { s with B := (s.B.recv s.B.peekSize.toNat).k, got := s.got ++ (s.B.recv s.B.peekSize.toNat).data }) from rfl]
      split
      · exact keep s rfl rfl rfl
      · exact Or.inl (Or.inr (Or.inl ⟨recv_tell s.B _ z1, z2, z3⟩))
    | flushA => exact keep _ rfl rfl rfl
    | flushB =>
      obtain ⟨fr, hfr, _⟩ := flush_wins_frame s.B true (clk s.now) z1
      obtain ⟨hpan, _, _, _⟩ := Total.flush_total h.bK true (clk s.now)
      obtain ⟨g, e1, e2, e3, e4⟩ := emitB s.B h.bsb h.bsq true (clk s.now) hpan fr hfr
      refine Or.inl (Or.inr (Or.inr ⟨by show s.now ≤ T4; omega, ⟨s.now + s.D, encFrames g⟩, ?_,
        by show s.now + s.D ≤ T4; omega, g, rfl, e2, e3, fun x hx => by rw [e4 x hx]; exact wndUnused_ne _ hQ.1 hQ.2⟩))
      show _ ∈ s.ba ++ stamp (s.now + s.D) _
      apply List.mem_append_right
      unfold stamp
      exact List.mem_map.mpr ⟨encFrames g, e1, rfl⟩
    | dlvA =>
      cases hba : s.ba with
      | nil =>
        have : Sys.step s .dlvA = s := by simp only [Sys.step, hba]
        rw [this]; exact keep s rfl rfl rfl
      | cons d' rest =>
        rw [step_dlvA_cons s _ _ hba]
        split
        · exact keep _ rfl rfl rfl
        · exact keep s rfl rfl rfl
    | dlvB =>
      cases gab with
      | nil =>
        have : Sys.step s .dlvB = s := by simp only [Sys.step, h.hab, encL, List.map_nil]
        rw [this]; exact keep s rfl rfl rfl
      | cons d0 grest =>
        obtain ⟨t0, frs0⟩ := d0
        have hab : s.ab = ⟨t0, encFrames frs0⟩ :: encL grest := h.hab
        rw [step_dlvB_cons s _ _ hab] at hQ' hp' ⊢
        by_cases hdue : t0 ≤ s.now
        · rw [if_pos hdue] at hQ' hp' ⊢
          have hpi : (s.B.input (encFrames frs0) true s.ndB (clk s.now)).panic = false := by
            have : (s.panic || (s.B.input (encFrames frs0) true s.ndB (clk s.now)).panic) = false := hp'
            rw [h.np] at this
            simpa using this
          rcases zB_in h hnw (Or.inr z1) hpi hQ' with htl | ⟨g, e1, e2, e3, e4⟩
          · exact Or.inl (Or.inr (Or.inl ⟨htl, z2, z3⟩))
          · refine Or.inl (Or.inr (Or.inr ⟨by show s.now ≤ T4; omega, ⟨s.now + s.D, encFrames g⟩, ?_,
              by show s.now + s.D ≤ T4; omega, g, rfl, e2, e3, e4⟩))
            show _ ∈ s.ba ++ stamp (s.now + s.D) _
            apply List.mem_append_right
            unfold stamp
            exact List.mem_map.mpr ⟨encFrames g, e1, rfl⟩
        · rw [if_neg hdue]
          exact keep s rfl rfl rfl
  · -- the answer is on its way to A
    have keep : ∀ s' : State, (∀ x ∈ s.ba, x ∈ s'.ba) → s'.now = s.now →
        (ZW T2 s' ∨ ZT T3 s' ∨ ZR T4 s') ∨ s'.A.rmt_wnd ≠ 0 := fun s' hsub hnow =>
      Or.inl (Or.inr (Or.inr ⟨by rw [hnow]; exact q2, d, hsub d hd, hda, frs, hdd, hne, hdat, hwnd⟩))
    cases ev with
    | tick =>
      rw [show Sys.step s .tick = (if quiet s then { s with now := s.now + 1 } else s) from rfl]
      split
      · rename_i hq
        have := (quiet_facts s hq).2.1 d hd
        exact Or.inl (Or.inr (Or.inr ⟨by show s.now + 1 ≤ T4; omega, d, hd, hda, frs, hdd, hne, hdat, hwnd⟩))
      · exact keep s (fun x hx => hx) rfl
    | send b => exact keep _ (fun x hx => hx) rfl
    | read =>
      rw [show Sys.step s .read = (if (s.B.recv s.B.peekSize.toNat).n < 0 then s
        else { s with B := (s.B.recv s.B.peekSize.toNat).k, got := s.got ++ (s.B.recv s.B.peekSize.toNat).data }) from rfl]
      split
      · exact keep s (fun x hx => hx) rfl
      · exact keep _ (fun x hx => hx) rfl
    | flushA => exact keep _ (fun x hx => hx) rfl
    | flushB => exact keep _ (fun x hx => List.mem_append_left _ hx) rfl
    | dlvB =>
      cases hab : s.ab with
      | nil =>
        have : Sys.step s .dlvB = s := by simp only [Sys.step, hab]
        rw [this]; exact keep s (fun x hx => hx) rfl
      | cons d' rest =>
        rw [step_dlvB_cons s _ _ hab]
        split
        · exact keep _ (fun x hx => List.mem_append_left _ hx) rfl
        · exact keep s (fun x hx => hx) rfl
    | dlvA =>
      cases gba with
      | nil =>
        have : s.ba = [] := h.hba
        rw [this] at hd; simp at hd
      | cons d0 grest =>
        obtain ⟨t0, frs0⟩ := d0
        have hba : s.ba = ⟨t0, encFrames frs0⟩ :: encL grest := h.hba
        rw [step_dlvA_cons s _ _ hba]
        by_cases hdue : t0 ≤ s.now
        · rw [if_pos hdue]
          rw [hba] at hd
          rcases List.mem_cons.mp hd with rfl | hd
          · right
            have hd0 : ((t0, frs0) : Nat × List Frm) ∈ (t0, frs0) :: grest := List.mem_cons_self ..
            have hfe : frs = frs0 := by
              apply encFrames_inj frs frs0
              · intro x hx; rw [hdat x hx]; simp
              · intro x hx; rw [(h.fba (t0, frs0) hd0 x hx).2.1]; simp
              · exact hdd.symm
            subst hfe
            obtain ⟨hv, hp, hr, _, _, _, _⟩ := cons_inA h hnw (inFrs true frs { k := s.A }).k (Or.inl rfl)
            obtain ⟨k1, hk1, himp⟩ := inputA_cases s.A frs s.ndA (clk s.now) hv hp hr
            obtain ⟨_, _, _, hal, _, _, hclean⟩ := cons_inA h hnw k1 hk1
            have hopen : (cwndOnAck k1 s.A.snd_una).rmt_wnd ≠ 0 := by
              rw [(inA_probe (inFrs true frs { k := s.A }) k1 hk1 s.A.snd_una).2.2.2]
              exact inFrs_rmt_open frs _ hne hwnd
            rcases himp hal hclean.aK with hin | hin | ⟨hnil, _⟩
            · simp only [hin]; exact hopen
            · simp only [hin]
              obtain ⟨pw, tp, st, ss, cw, inc, hk⟩ := flush_frame (cwndOnAck k1 s.A.snd_una) true (clk s.now)
              show (flush (cwndOnAck k1 s.A.snd_una) true (clk s.now)).k.rmt_wnd ≠ 0
              rw [hk]; exact hopen
            · exact absurd hnil hne
          · exact Or.inl (Or.inr (Or.inr ⟨q2, d, hd, hda, frs, hdd, hne, hdat, hwnd⟩))
        · rw [if_neg hdue]
          exact keep s (fun x hx => hx) rfl

end KcpVerif.SysC
