/-
Message grouping for C01 (message-mode composition): a list of segment contents `(frg, data)` is cut
into messages at every `frg = 0` — exactly what the merge loop of `Recv` (`popMsg`) does on the
reader's side and what `Send` produces on the writer's side (`mkSegs`: countdown `c-1 … 0`).
Pure list lemmas; nothing here depends on the shape of `Kcp.send`.
-/
import KcpVerif.Lemmas.KcpFrg

namespace KcpVerif.C01
open KcpVerif KcpVerif.Gen KcpVerif.Kcp KcpVerif.Frame KcpVerif.Recv KcpVerif.Send KcpVerif.Wire

/-- cut a list of contents into messages: a message ends at (and includes) every `frg = 0`;
`acc` are the bytes of the message being assembled; an unfinished tail is not a message -/
def grpAux : Bytes → List Content → List Bytes
  | _, [] => []
  | acc, c :: rest => if c.1 = 0 then (acc ++ c.2) :: grpAux [] rest else grpAux (acc ++ c.2) rest

theorem grpAux_nil (acc : Bytes) : grpAux acc [] = [] := rfl

theorem grpAux_zero (acc : Bytes) (c : Content) (rest : List Content) (h : c.1 = 0) :
    grpAux acc (c :: rest) = (acc ++ c.2) :: grpAux [] rest := by
  show (if c.1 = 0 then _ else _) = _
  rw [if_pos h]

theorem grpAux_ne (acc : Bytes) (c : Content) (rest : List Content) (h : c.1 ≠ 0) :
    grpAux acc (c :: rest) = grpAux (acc ++ c.2) rest := by
  show (if c.1 = 0 then _ else _) = _
  rw [if_neg h]

/-- the messages of a list of contents -/
def grp (l : List Content) : List Bytes := grpAux [] l

/-- the list ends on a message boundary -/
def Closed (l : List Content) : Prop := ∀ x, l.getLast? = some x → x.1 = 0

theorem Closed.nil : Closed [] := by intro x h; simp at h

theorem Closed.tail {c : Content} {l : List Content} (h : Closed (c :: l)) : Closed l := by
  intro x hx
  cases l with
  | nil => simp at hx
  | cons d l' => exact h x (by simpa [List.getLast?_cons_cons] using hx)

theorem Closed.append_right {a b : List Content} (hb : Closed b) (hne : b ≠ []) : Closed (a ++ b) := by
  intro x hx
  have : (a ++ b).getLast? = b.getLast? := by
    rw [List.getLast?_append]
    cases hl : b.getLast? with
    | none => exact absurd (List.getLast?_eq_none_iff.mp hl) hne
    | some y => rfl
  rw [this] at hx
  exact hb x hx

theorem Closed.append {a b : List Content} (ha : Closed a) (hb : Closed b) : Closed (a ++ b) := by
  by_cases hne : b = []
  · subst hne; simpa using ha
  · exact hb.append_right hne

/-- grouping distributes over a prefix that ends on a boundary -/
theorem grpAux_append : ∀ (X Y : List Content) (acc : Bytes), Closed X → (X = [] → acc = []) →
    grpAux acc (X ++ Y) = grpAux acc X ++ grpAux [] Y := by
  intro X
  induction X with
  | nil => intro Y acc _ h; rw [h rfl]; rfl
  | cons c X' ih =>
    intro Y acc hc _
    show grpAux acc (c :: (X' ++ Y)) = _
    by_cases h0 : c.1 = 0
    · rw [grpAux_zero _ _ _ h0, grpAux_zero _ _ _ h0, ih Y [] hc.tail (fun _ => rfl)]; rfl
    · rw [grpAux_ne _ _ _ h0, grpAux_ne _ _ _ h0]
      apply ih Y _ hc.tail
      intro hX
      subst hX
      exact absurd (hc c rfl) h0

theorem grp_append (X Y : List Content) (h : Closed X) : grp (X ++ Y) = grp X ++ grp Y :=
  grpAux_append X Y [] h (fun _ => rfl)

/-- a run `nonzero … nonzero, zero` is one message -/
theorem grpAux_run : ∀ (pre : List Content) (z : Content) (acc : Bytes), (∀ c ∈ pre, c.1 ≠ 0) → z.1 = 0 →
    grpAux acc (pre ++ [z]) = [acc ++ bytesOf (pre ++ [z])] := by
  intro pre
  induction pre with
  | nil =>
    intro z acc _ hz
    show grpAux acc [z] = _
    rw [grpAux_zero _ _ _ hz, grpAux_nil]
    simp [bytesOf]
  | cons c pre' ih =>
    intro z acc hne hz
    show grpAux acc (c :: (pre' ++ [z])) = _
    rw [grpAux_ne _ _ _ (hne c (List.mem_cons_self ..)), ih z _ (fun x hx => hne x (List.mem_cons_of_mem _ hx)) hz]
    simp [bytesOf]

/-- the fragments of one `Send` in message mode (countdown `c … 0`) are one message -/
theorem grpAux_cd : ∀ (c : Nat) (l : List Content) (acc : Bytes), c < 255 → l.map (·.1) = cd (c + 1) →
    grpAux acc l = [acc ++ bytesOf l] ∧ Closed l ∧ l ≠ [] := by
  intro c
  induction c with
  | zero =>
    intro l acc _ hl
    cases l with
    | nil => simp [cd] at hl
    | cons x rest =>
      cases rest with
      | cons y r => simp [cd] at hl
      | nil =>
        have hx : x.1 = 0 := by simpa [cd] using hl
        refine ⟨?_, ?_, by simp⟩
        · rw [grpAux_zero _ _ _ hx, grpAux_nil]; simp [bytesOf]
        · intro y hy
          have : x = y := by simpa using hy
          rw [← this]; exact hx
  | succ c ih =>
    intro l acc hc hl
    cases l with
    | nil => simp [cd] at hl
    | cons x rest =>
      have h1 : x.1 = BitVec.ofNat 8 (c + 1) := by
        have := congrArg List.head? hl; simpa [cd] using this
      have h2 : rest.map (·.1) = cd (c + 1) := by
        have := congrArg List.tail hl; simpa [cd] using this
      have hx : x.1 ≠ 0 := by
        rw [h1]; intro h
        have := congrArg BitVec.toNat h
        simp at this; omega
      obtain ⟨g, hcl, hne⟩ := ih rest (acc ++ x.2) (by omega) h2
      refine ⟨?_, ?_, by simp⟩
      · rw [grpAux_ne _ _ _ hx, g]; simp [bytesOf]
      · have : x :: rest = [x] ++ rest := rfl
        rw [this]; exact hcl.append_right hne

/-! ### the reader's side: `popMsg` pops exactly one group -/

/-- when the queue contains a final fragment, the popped segments are one message and end on a boundary -/
theorem grpAux_pop : ∀ (q : List Seg) (acc : Bytes), (∃ s ∈ q, s.frg = 0) →
    grpAux acc ((q.take (popCount q)).map content) =
        [acc ++ ((q.take (popCount q)).map (·.data)).flatten] ∧
      Closed ((q.take (popCount q)).map content) ∧ (q.take (popCount q)).map content ≠ [] := by
  intro q
  induction q with
  | nil => intro acc ⟨s, hs, _⟩; cases hs
  | cons a rest ih =>
    intro acc ⟨s, hs, hs0⟩
    unfold popCount
    by_cases h0 : a.frg = 0
    · rw [if_pos h0]
      refine ⟨?_, ?_, by simp⟩
      · simp only [List.take_succ_cons, List.take_zero, List.map_cons, List.map_nil]
        have : (content a).1 = 0 := h0
        rw [grpAux_zero _ _ _ this, grpAux_nil]
        simp [content]
      · intro y hy
        simp only [List.take_succ_cons, List.take_zero, List.map_cons, List.map_nil] at hy
        have : content a = y := by simpa using hy
        rw [← this]; exact h0
    · rw [if_neg h0]
      have hex : ∃ s ∈ rest, s.frg = 0 := by
        rcases List.mem_cons.mp hs with h1 | h1
        · rw [h1] at hs0; exact absurd hs0 h0
        · exact ⟨s, h1, hs0⟩
      obtain ⟨g, hcl, hne⟩ := ih (acc ++ a.data) hex
      have e : (a :: rest).take (1 + popCount rest) = a :: rest.take (popCount rest) := by
        rw [Nat.add_comm]; rfl
      rw [e]
      refine ⟨?_, ?_, by simp⟩
      · simp only [List.map_cons]
        have : (content a).1 ≠ 0 := h0
        rw [grpAux_ne _ _ _ this]
        have e2 : (content a).2 = a.data := rfl
        rw [e2, g]
        simp
      · simp only [List.map_cons]
        have : content a :: (rest.take (popCount rest)).map content =
            [content a] ++ (rest.take (popCount rest)).map content := rfl
        rw [this]; exact hcl.append_right hne

end KcpVerif.C01
