/-
C04: the window invariant `Inv` of the protocol core, proved inductive over EVERY operation with
arbitrary arguments, and lifted to all reachable states.
Core Lean only.
-/
import KcpVerif.Lemmas.KcpOps
import KcpVerif.Lemmas.KcpFrames
import KcpVerif.Lemmas.KcpWindowRcv
import KcpVerif.Lemmas.KcpWindowSnd

namespace KcpVerif.Kcp
open KcpVerif KcpVerif.Gen

/-- the window invariant: receive window (`rcv_buf` distinct and inside the window, `rcv_wnd < 2^31`),
delivery-queue bound, send window (`snd_buf` = the consecutive numbers `snd_una … snd_nxt-1`, at most
`snd_wnd < 2^31` of them) -/
structure Inv (k : Kcp) : Prop where
  win : WinOK k.rcv_nxt k.rcv_wnd k.rcv_buf
  rq : k.rcv_queue.length ≤ k.rcv_wnd.toNat
  snd : SndOK k.snd_una k.snd_nxt k.snd_wnd k.snd_buf

/-! ### receive side -/

theorem moveReady_inv (k : Kcp) (h : Inv k) : Inv (moveReady k) :=
  ⟨moveLoop_ok _ _ _ _ _ h.win, moveLoop_q_le _ _ _ _ h.rq, h.snd⟩

theorem parseData_inv (k : Kcp) (s : Seg) (h : Inv k) : Inv (parseData k s).k := by
  unfold parseData
  split
  · exact h
  · rename_i hacc
    split
    · exact moveReady_inv _ h
    · rename_i hnew
      split
      · exact h
      · apply moveReady_inv
        exact ⟨h.win.insert s (accept_inWin _ _ _ h.win.small hacc) (by simpa using hnew), h.rq, h.snd⟩

theorem recv_inv (k : Kcp) (n : Nat) (h : Inv k) : Inv (recv k n).k := by
  unfold recv
  simp only []
  split; · exact h
  split; · exact h
  have h1 : Inv (moveReady { k with rcv_queue := (popMsg k.rcv_queue).rest }) :=
    moveReady_inv _ ⟨h.win, Nat.le_trans (popMsg_rest_le _) h.rq, h.snd⟩
  split
  · exact ⟨h1.win, h1.rq, h1.snd⟩
  · exact h1

/-! ### send side -/

/-- `shrink_buf` (popping the acknowledged heads, re-establishing `snd_una`) keeps the invariant -/
theorem shrinkBuf_inv (k : Kcp) (h : Inv k) : Inv (shrinkBuf k) := by
  obtain ⟨b, u, e⟩ := shrinkBuf_shape k
  refine ⟨?_, ?_, h.snd.shrink⟩
  · rw [e]; exact h.win
  · rw [e]; exact h.rq

theorem shrinkUna_inv (k : Kcp) (una : U32) (h : Inv k) : Inv (shrinkBuf (parseUna k una).1) := by
  have hs := h.snd.una una
  obtain ⟨b, u, e⟩ := shrinkUna_shape k una
  refine ⟨?_, ?_, ?_⟩
  · rw [e]; exact h.win
  · rw [e]; exact h.rq
  · rw [shrinkUna_nxt, shrinkUna_wnd, shrinkUna_buf]; exact hs

theorem parseAck_inv (k : Kcp) (sn : U32) (h : Inv k) : Inv (parseAck k sn) := by
  unfold parseAck
  split
  · exact h
  · exact ⟨h.win, h.rq, h.snd.congr_sns (ackLoop_sns _ _)⟩

theorem parseFastack_inv (k : Kcp) (sn ts : U32) (h : Inv k) : Inv (parseFastack k sn ts).1 := by
  unfold parseFastack
  split
  · exact h
  · exact ⟨h.win, h.rq, h.snd.congr_sns (fastLoop_sns _ _ _ _)⟩

theorem cw0_le (k : Kcp) : (cw0 k).toNat ≤ k.snd_wnd.toNat := by
  unfold cw0; split <;> bv_omega

/-- the effective window of phase 4 never exceeds the send window -/
theorem effCwnd_le (k : Kcp) : (effCwnd k).toNat ≤ k.snd_wnd.toNat := by
  have := cw0_le k
  unfold effCwnd
  split
  · split
    · bv_omega
    · exact this
  · exact this

theorem flush_inv (k : Kcp) (full : Bool) (now : U32) (h : Inv k) : Inv (flush k full now).k := by
  obtain ⟨pw, tp, st, ss, cw, inc, done, hk, hd⟩ := flush_k k full now
  rw [hk]
  have ha : SndOK k.snd_una (flushAd k now).nxt k.snd_wnd (flushAd k now).buf :=
    admitSegs_ok _ _ _ _ _ (effCwnd_le k) _ _ _ _ h.snd
  exact ⟨h.win, h.rq, ha.congr_sns hd⟩

/-! ### the parse loop of `Input` -/

theorem inSt1_inv (regular : Bool) (wnd : BitVec 16) (una : U32) (st : InLoop) (h : Inv st.k) :
    Inv (inSt1 regular wnd una st).k := by
  unfold inSt1
  simp only []
  apply shrinkUna_inv
  split
  · exact ⟨h.win, h.rq, h.snd⟩
  · exact h

theorem inAck_inv (st : InLoop) (sn ts : U32) (h : Inv st.k) : Inv (inAck st sn ts).k := by
  unfold inAck
  exact parseFastack_inv _ _ _ (shrinkBuf_inv _ (parseAck_inv _ _ h))

theorem inPush_inv (st : InLoop) (seg : Seg) (h : Inv st.k) : Inv (inPush st seg).k := by
  unfold inPush
  split
  · simp only []
    split
    · exact parseData_inv _ _ ⟨h.win, h.rq, h.snd⟩
    · exact ⟨h.win, h.rq, h.snd⟩
  · exact h

theorem inBody_inv (regular : Bool) (data : Bytes) (st : InLoop) (h : Inv st.k) : Inv (inBody regular data st).k := by
  have h1 := inSt1_inv regular (rd16 data 6) (rd32 data 16) st h
  unfold inBody
  simp only []
  split; · exact inAck_inv _ _ _ h1
  split; · exact inPush_inv _ _ h1
  split; · exact ⟨h1.win, h1.rq, h1.snd⟩
  exact h1

theorem updateAck_inv (k : Kcp) (rtt : U32) (h : Inv k) : Inv (updateAck k rtt) := by
  obtain ⟨a, b, c, e⟩ := updateAck_shape k rtt
  rw [e]; exact ⟨h.win, h.rq, h.snd⟩

theorem cwndOnAck_inv (k : Kcp) (u : U32) (h : Inv k) : Inv (cwndOnAck k u) := by
  obtain ⟨a, b, e⟩ := cwndOnAck_shape k u
  rw [e]; exact ⟨h.win, h.rq, h.snd⟩

/-- `Input` keeps the invariant for EVERY byte string (forged `una`/`sn`/`wnd`/`len` included),
every packet type and every clock value -/
theorem input_inv (k : Kcp) (data : Bytes) (regular ackNoDelay : Bool) (now : U32) (h : Inv k) :
    Inv (input k data regular ackNoDelay now).k :=
  input_preserves Inv
    (fun regular fuel data st hs => inputLoop_preserves Inv regular (inBody_inv regular) fuel data st hs)
    updateAck_inv cwndOnAck_inv flush_inv k data regular ackNoDelay now h

/-! ### the remaining operations -/

theorem send_inv (k : Kcp) (b : Bytes) (h : Inv k) : Inv (send k b).k := by
  obtain ⟨q, e⟩ := send_shape k b
  rw [e]; exact ⟨h.win, h.rq, h.snd⟩

theorem update_inv (k : Kcp) (now : U32) (h : Inv k) : Inv (update k now).k := by
  obtain ⟨u, t, e | e⟩ := update_shape k now
  · rw [e]; exact ⟨h.win, h.rq, h.snd⟩
  · rw [e]; exact flush_inv _ _ _ ⟨h.win, h.rq, h.snd⟩

theorem setMtu_inv (k : Kcp) (m : Int) (h : Inv k) : Inv (setMtu k m).1 := by
  obtain ⟨a, b, c, e⟩ := setMtu_shape k m
  rw [e]; exact ⟨h.win, h.rq, h.snd⟩

theorem noDelay_inv (k : Kcp) (a b c d : Int) (h : Inv k) : Inv (noDelay k a b c d) := by
  obtain ⟨_, _, _, _, _, e⟩ := noDelay_shape k a b c d
  rw [e]; exact ⟨h.win, h.rq, h.snd⟩

/-- nothing is buffered in either direction -/
def Quiet (k : Kcp) : Prop := k.rcv_queue = [] ∧ k.rcv_buf = [] ∧ k.snd_buf = []

instance (k : Kcp) : Decidable (Quiet k) := by unfold Quiet; exact inferInstance

/-- the hypothesis on window changes: the new windows are below `2^31`, and EITHER no window shrinks
(growing mid-traffic is allowed) OR nothing is buffered (windows set before traffic).
Shrinking a window under buffered traffic is excluded. -/
def WndChangeOK (k : Kcp) (snd rcv : Int) : Prop :=
  (k.wndSize snd rcv).snd_wnd.toNat < 2^31 ∧ (k.wndSize snd rcv).rcv_wnd.toNat < 2^31 ∧
  ((k.snd_wnd ≤ (k.wndSize snd rcv).snd_wnd ∧ k.rcv_wnd ≤ (k.wndSize snd rcv).rcv_wnd) ∨ Quiet k)

instance (k : Kcp) (snd rcv : Int) : Decidable (WndChangeOK k snd rcv) := by unfold WndChangeOK; exact inferInstance

theorem wndSize_fields (k : Kcp) (s r : Int) :
    (k.wndSize s r).rcv_nxt = k.rcv_nxt ∧ (k.wndSize s r).rcv_buf = k.rcv_buf ∧ (k.wndSize s r).rcv_queue = k.rcv_queue ∧
    (k.wndSize s r).snd_una = k.snd_una ∧ (k.wndSize s r).snd_nxt = k.snd_nxt ∧ (k.wndSize s r).snd_buf = k.snd_buf := by
  unfold wndSize
  simp only []
  split <;> split <;> exact ⟨rfl, rfl, rfl, rfl, rfl, rfl⟩

theorem WinOK.grow {nxt wnd wnd' : U32} {buf : List Seg} (h : WinOK nxt wnd buf) (hle : wnd ≤ wnd')
    (hs : wnd'.toNat < 2^31) : WinOK nxt wnd' buf := by
  refine ⟨hs, ?_, h.distinct⟩
  intro s hs'
  have := h.inwin s hs'
  unfold InWin at *
  refine ⟨this.1, ?_⟩
  have h2 := this.2
  have : wnd.toNat ≤ wnd'.toNat := by bv_omega
  omega

theorem wndSize_inv (k : Kcp) (s r : Int) (hok : WndChangeOK k s r) (h : Inv k) : Inv (k.wndSize s r) := by
  obtain ⟨e1, e2, e3, e4, e5, e6⟩ := wndSize_fields k s r
  obtain ⟨hs, hr, hc⟩ := hok
  rcases hc with ⟨gs, gr⟩ | ⟨q1, q2, q3⟩
  · refine ⟨?_, ?_, ?_⟩
    · rw [e1, e2]; exact h.win.grow gr hr
    · rw [e3]; have := h.rq; have : k.rcv_wnd.toNat ≤ (k.wndSize s r).rcv_wnd.toNat := by bv_omega
      omega
    · rw [e4, e5, e6]
      refine ⟨hs, h.snd.consec, h.snd.nxt_eq, ?_⟩
      have := h.snd.len_le; have : k.snd_wnd.toNat ≤ (k.wndSize s r).snd_wnd.toNat := by bv_omega
      omega
  · refine ⟨?_, ?_, ?_⟩
    · rw [e1, e2, q2]; exact ⟨hr, fun _ hx => absurd hx List.not_mem_nil, List.Pairwise.nil⟩
    · rw [e3, q1]; exact Nat.zero_le _
    · rw [e4, e5, e6]
      have := h.snd.nxt_eq
      rw [q3] at this ⊢
      exact ⟨hs, trivial, this, Nat.zero_le _⟩

/-! ### every operation, every reachable state -/

/-- the side condition of an operation: only window changes have one -/
def Op.ok (k : Kcp) : Op → Prop
  | .wndSize s r => WndChangeOK k s r
  | _ => True

instance (k : Kcp) (op : Op) : Decidable (op.ok k) := by
  cases op <;> unfold Op.ok <;> exact inferInstance

/-- every operation of a run satisfies its side condition in the state it is applied to -/
def okRun (k : Kcp) : List Op → Prop
  | [] => True
  | op :: rest => op.ok k ∧ okRun (step k op) rest

instance okRunDec : (k : Kcp) → (ops : List Op) → Decidable (okRun k ops)
  | _, [] => isTrue trivial
  | k, op :: rest =>
    have : Decidable (okRun (step k op) rest) := okRunDec (step k op) rest
    (inferInstance : Decidable (op.ok k ∧ okRun (step k op) rest))

/-- `Inv` is inductive: every operation, with arbitrary arguments, preserves it -/
theorem step_inv (k : Kcp) (op : Op) (hok : op.ok k) (h : Inv k) : Inv (step k op) := by
  cases op with
  | send b => exact send_inv k b h
  | recv n => exact recv_inv k n h
  | input d reg nd now => exact input_inv k d reg nd now h
  | flush full now => exact flush_inv k full now h
  | update now => exact update_inv k now h
  | setMtu m => exact setMtu_inv k m h
  | noDelay a b c d => exact noDelay_inv k a b c d h
  | wndSize s r => exact wndSize_inv k s r hok h
  | setStream v => exact ⟨h.win, h.rq, h.snd⟩

theorem run_inv (k : Kcp) (ops : List Op) (hok : okRun k ops) (h : Inv k) : Inv (run k ops) := by
  induction ops generalizing k with
  | nil => exact h
  | cons op rest ih => exact ih _ hok.2 (step_inv k op hok.1 h)

/-- a fresh core satisfies the invariant, wherever its sequence numbers start -/
theorem start_inv (conv snd0 rcv0 : U32) : Inv (start conv snd0 rcv0) := by
  refine ⟨⟨?_, fun _ hx => absurd hx List.not_mem_nil, List.Pairwise.nil⟩, Nat.zero_le _, ⟨?_, trivial, ?_, Nat.zero_le _⟩⟩
  · show (u32 IKCP_WND_RCV).toNat < 2^31
    decide
  · show (u32 IKCP_WND_SND).toNat < 2^31
    decide
  · show snd0 = snd0 + BitVec.ofNat 32 0
    simp

/-- every state reachable from a fresh core by operations with arbitrary arguments -/
theorem reachable_inv (conv snd0 rcv0 : U32) (ops : List Op) (hok : okRun (start conv snd0 rcv0) ops) :
    Inv (run (start conv snd0 rcv0) ops) :=
  run_inv _ ops hok (start_inv conv snd0 rcv0)

end KcpVerif.Kcp
